#!/bin/sh
# Build the framework from files on disk only (offline).
set -e
cd "$(dirname "$0")"
exit 0
