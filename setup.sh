#!/bin/sh
# Build the framework from files on disk only (offline): translator, generated
# model, Coq development, harness (two profiles), extracted model driver, hwrun.
set -e
cd "$(dirname "$0")"
export CARGO_NET_OFFLINE=true
exec ./check setup
