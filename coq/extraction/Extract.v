(* Extraction of the executable model for the correspondence driver.
   ExtrOcamlBasic only: bool/option/list/prod/unit/sumbool map to OCaml's; Z, N,
   positive and nat stay Coq datatypes.  No Extract Constant. *)
From Coq Require Import ExtrOcamlBasic ZArith List.
From AxV Require Import Bits Outcome Codes Iced State Rt Mem Trace TraceRender Exec Sys StackInit Elf Machine RegFile ISA CodeSem.
Extraction Language OCaml.
Separate Extraction TraceRender.render_trace_indents TraceRender.render_stack_indents ISA.isa_exec CodeSem.code_sem CodeSem.pinned_forms Mem.mem_read_executable_bytes RegFile.spec_rop RegFile.run_spec Iced.all_views State.set_regs Machine.run_op State.empty_state Iced.gpr64_list Iced.xmm_list
  State.regs Z.of_nat Z.to_nat Z.add Z.mul Z.div Z.modulo Z.eqb Z.ltb Z.leb Z.pow Z.land Z.lor.
