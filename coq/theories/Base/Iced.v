(* The decoded-instruction interface: what the emulator consumes from
   iced_x86::Instruction (one record field per accessor the Rust code calls),
   iced's Register / OpKind enumerations restricted to what the code mentions,
   and the SupportedRegister conversion of registers.rs. *)
From Coq Require Import ZArith Bool List.
From AxV Require Import Codes.
Local Open Scope Z_scope.

Inductive reg :=
  | RNone
  | RIP
  | EIP
  | RAX
  | RBX
  | RCX
  | RDX
  | RSI
  | RDI
  | RSP
  | RBP
  | R8
  | R9
  | R10
  | R11
  | R12
  | R13
  | R14
  | R15
  | EAX
  | EBX
  | ECX
  | EDX
  | ESI
  | EDI
  | ESP
  | EBP
  | R8D
  | R9D
  | R10D
  | R11D
  | R12D
  | R13D
  | R14D
  | R15D
  | AX
  | BX
  | CX
  | DX
  | SI
  | DI
  | SP
  | BP
  | R8W
  | R9W
  | R10W
  | R11W
  | R12W
  | R13W
  | R14W
  | R15W
  | AL
  | BL
  | CL
  | DL
  | SIL
  | DIL
  | SPL
  | BPL
  | R8L
  | R9L
  | R10L
  | R11L
  | R12L
  | R13L
  | R14L
  | R15L
  | AH
  | BH
  | CH
  | DH
  | XMM0
  | XMM1
  | XMM2
  | XMM3
  | XMM4
  | XMM5
  | XMM6
  | XMM7
  | XMM8
  | XMM9
  | XMM10
  | XMM11
  | XMM12
  | XMM13
  | XMM14
  | XMM15
  | ES
  | CS
  | SS
  | DS
  | FS
  | GS
  | R_other (n : Z).

Definition is_gpr64 (r : reg) : bool :=
  match r with
  | RAX | RBX | RCX | RDX | RSI | RDI | RSP | RBP | R8 | R9 | R10 | R11 | R12 | R13 | R14 | R15 => true
  | _ => false
  end.

Definition is_gpr32 (r : reg) : bool :=
  match r with
  | EAX | EBX | ECX | EDX | ESI | EDI | ESP | EBP | R8D | R9D | R10D | R11D | R12D | R13D | R14D | R15D => true
  | _ => false
  end.

Definition is_gpr16 (r : reg) : bool :=
  match r with
  | AX | BX | CX | DX | SI | DI | SP | BP | R8W | R9W | R10W | R11W | R12W | R13W | R14W | R15W => true
  | _ => false
  end.

Definition is_gpr8 (r : reg) : bool :=
  match r with
  | AL | BL | CL | DL | SIL | DIL | SPL | BPL | R8L | R9L | R10L | R11L | R12L | R13L | R14L | R15L | AH | BH | CH | DH => true
  | _ => false
  end.

Definition is_xmm (r : reg) : bool :=
  match r with
  | XMM0 | XMM1 | XMM2 | XMM3 | XMM4 | XMM5 | XMM6 | XMM7 | XMM8 | XMM9 | XMM10 | XMM11 | XMM12 | XMM13 | XMM14 | XMM15 => true
  | _ => false
  end.

Definition is_high8 (r : reg) : bool :=
  match r with
  | AH | BH | CH | DH => true
  | _ => false
  end.

Definition is_segment (r : reg) : bool :=
  match r with
  | ES | CS | SS | DS | FS | GS => true
  | _ => false
  end.

Definition is_ip (r : reg) : bool := match r with RIP | EIP => true | _ => false end.

(* REGISTER_TO_QWORD of registers.rs *)
Definition to_qword (r : reg) : option reg :=
  match r with
  | RAX | EAX | AX | AL => Some RAX
  | RBX | EBX | BX | BL => Some RBX
  | RCX | ECX | CX | CL => Some RCX
  | RDX | EDX | DX | DL => Some RDX
  | RSI | ESI | SI | SIL => Some RSI
  | RDI | EDI | DI | DIL => Some RDI
  | RSP | ESP | SP | SPL => Some RSP
  | RBP | EBP | BP | BPL => Some RBP
  | R8 | R8D | R8W | R8L => Some R8
  | R9 | R9D | R9W | R9L => Some R9
  | R10 | R10D | R10W | R10L => Some R10
  | R11 | R11D | R11W | R11L => Some R11
  | R12 | R12D | R12W | R12L => Some R12
  | R13 | R13D | R13W | R13L => Some R13
  | R14 | R14D | R14W | R14L => Some R14
  | R15 | R15D | R15W | R15L => Some R15
  | AH => Some RAX
  | BH => Some RBX
  | CH => Some RCX
  | DH => Some RDX
  | _ => None
  end.

Definition reg_eqb (a b : reg) : bool :=
  match a, b with
  | RNone, RNone => true
  | RIP, RIP => true
  | EIP, EIP => true
  | RAX, RAX => true
  | RBX, RBX => true
  | RCX, RCX => true
  | RDX, RDX => true
  | RSI, RSI => true
  | RDI, RDI => true
  | RSP, RSP => true
  | RBP, RBP => true
  | R8, R8 => true
  | R9, R9 => true
  | R10, R10 => true
  | R11, R11 => true
  | R12, R12 => true
  | R13, R13 => true
  | R14, R14 => true
  | R15, R15 => true
  | EAX, EAX => true
  | EBX, EBX => true
  | ECX, ECX => true
  | EDX, EDX => true
  | ESI, ESI => true
  | EDI, EDI => true
  | ESP, ESP => true
  | EBP, EBP => true
  | R8D, R8D => true
  | R9D, R9D => true
  | R10D, R10D => true
  | R11D, R11D => true
  | R12D, R12D => true
  | R13D, R13D => true
  | R14D, R14D => true
  | R15D, R15D => true
  | AX, AX => true
  | BX, BX => true
  | CX, CX => true
  | DX, DX => true
  | SI, SI => true
  | DI, DI => true
  | SP, SP => true
  | BP, BP => true
  | R8W, R8W => true
  | R9W, R9W => true
  | R10W, R10W => true
  | R11W, R11W => true
  | R12W, R12W => true
  | R13W, R13W => true
  | R14W, R14W => true
  | R15W, R15W => true
  | AL, AL => true
  | BL, BL => true
  | CL, CL => true
  | DL, DL => true
  | SIL, SIL => true
  | DIL, DIL => true
  | SPL, SPL => true
  | BPL, BPL => true
  | R8L, R8L => true
  | R9L, R9L => true
  | R10L, R10L => true
  | R11L, R11L => true
  | R12L, R12L => true
  | R13L, R13L => true
  | R14L, R14L => true
  | R15L, R15L => true
  | AH, AH => true
  | BH, BH => true
  | CH, CH => true
  | DH, DH => true
  | XMM0, XMM0 => true
  | XMM1, XMM1 => true
  | XMM2, XMM2 => true
  | XMM3, XMM3 => true
  | XMM4, XMM4 => true
  | XMM5, XMM5 => true
  | XMM6, XMM6 => true
  | XMM7, XMM7 => true
  | XMM8, XMM8 => true
  | XMM9, XMM9 => true
  | XMM10, XMM10 => true
  | XMM11, XMM11 => true
  | XMM12, XMM12 => true
  | XMM13, XMM13 => true
  | XMM14, XMM14 => true
  | XMM15, XMM15 => true
  | ES, ES => true
  | CS, CS => true
  | SS, SS => true
  | DS, DS => true
  | FS, FS => true
  | GS, GS => true
  | R_other n, R_other m => Z.eqb n m
  | _, _ => false
  end.

Definition gpr64_list : list reg := RAX :: RBX :: RCX :: RDX :: RSI :: RDI :: RSP :: RBP :: R8 :: R9 :: R10 :: R11 :: R12 :: R13 :: R14 :: R15 :: nil.

Definition xmm_list : list reg := XMM0 :: XMM1 :: XMM2 :: XMM3 :: XMM4 :: XMM5 :: XMM6 :: XMM7 :: XMM8 :: XMM9 :: XMM10 :: XMM11 :: XMM12 :: XMM13 :: XMM14 :: XMM15 :: nil.

Definition all_views : list reg := RAX :: RBX :: RCX :: RDX :: RSI :: RDI :: RSP :: RBP :: R8 :: R9 :: R10 :: R11 :: R12 :: R13 :: R14 :: R15 :: EAX :: EBX :: ECX :: EDX :: ESI :: EDI :: ESP :: EBP :: R8D :: R9D :: R10D :: R11D :: R12D :: R13D :: R14D :: R15D :: AX :: BX :: CX :: DX :: SI :: DI :: SP :: BP :: R8W :: R9W :: R10W :: R11W :: R12W :: R13W :: R14W :: R15W :: AL :: BL :: CL :: DL :: SIL :: DIL :: SPL :: BPL :: R8L :: R9L :: R10L :: R11L :: R12L :: R13L :: R14L :: R15L :: AH :: BH :: CH :: DH :: nil.

Definition is_supported (r : reg) : bool :=
  match r with
  | RIP | EIP | RAX | RBX | RCX | RDX | RSI | RDI | RSP | RBP | R8 | R9 | R10 | R11 | R12 | R13 | R14 | R15 | EAX | EBX | ECX | EDX | ESI | EDI | ESP | EBP | R8D | R9D | R10D | R11D | R12D | R13D | R14D | R15D | AX | BX | CX | DX | SI | DI | SP | BP | R8W | R9W | R10W | R11W | R12W | R13W | R14W | R15W | AL | BL | CL | DL | SIL | DIL | SPL | BPL | R8L | R9L | R10L | R11L | R12L | R13L | R14L | R15L | AH | BH | CH | DH | XMM0 | XMM1 | XMM2 | XMM3 | XMM4 | XMM5 | XMM6 | XMM7 | XMM8 | XMM9 | XMM10 | XMM11 | XMM12 | XMM13 | XMM14 | XMM15 => true
  | _ => false
  end.

(* From<SupportedRegister> for Register: total on SupportedRegister *)
Definition sup_to_iced_ok (r : reg) : bool :=
  match r with
  | RIP | EIP | RAX | RBX | RCX | RDX | RSI | RDI | RSP | RBP | R8 | R9 | R10 | R11 | R12 | R13 | R14 | R15 | EAX | EBX | ECX | EDX | ESI | EDI | ESP | EBP | R8D | R9D | R10D | R11D | R12D | R13D | R14D | R15D | AX | BX | CX | DX | SI | DI | SP | BP | R8W | R9W | R10W | R11W | R12W | R13W | R14W | R15W | AL | BL | CL | DL | SIL | DIL | SPL | BPL | R8L | R9L | R10L | R11L | R12L | R13L | R14L | R15L | AH | BH | CH | DH | XMM0 | XMM1 | XMM2 | XMM3 | XMM4 | XMM5 | XMM6 | XMM7 | XMM8 | XMM9 | XMM10 | XMM11 | XMM12 | XMM13 | XMM14 | XMM15 => true
  | _ => false
  end.

Inductive opkind :=
  | OK_Register | OK_NearBranch16 | OK_NearBranch32 | OK_NearBranch64
  | OK_FarBranch16 | OK_FarBranch32
  | OK_Immediate8 | OK_Immediate8_2nd | OK_Immediate16 | OK_Immediate32 | OK_Immediate64
  | OK_Immediate8to16 | OK_Immediate8to32 | OK_Immediate8to64 | OK_Immediate32to64
  | OK_Memory | OK_other (n : Z).

Definition opkind_eqb (a b : opkind) : bool :=
  match a, b with
  | OK_Register, OK_Register | OK_NearBranch16, OK_NearBranch16
  | OK_NearBranch32, OK_NearBranch32 | OK_NearBranch64, OK_NearBranch64
  | OK_FarBranch16, OK_FarBranch16 | OK_FarBranch32, OK_FarBranch32
  | OK_Immediate8, OK_Immediate8 | OK_Immediate8_2nd, OK_Immediate8_2nd
  | OK_Immediate16, OK_Immediate16 | OK_Immediate32, OK_Immediate32
  | OK_Immediate64, OK_Immediate64 | OK_Immediate8to16, OK_Immediate8to16
  | OK_Immediate8to32, OK_Immediate8to32 | OK_Immediate8to64, OK_Immediate8to64
  | OK_Immediate32to64, OK_Immediate32to64 | OK_Memory, OK_Memory => true
  | OK_other n, OK_other m => Z.eqb n m
  | _, _ => false
  end.

(* One field per iced_x86::Instruction accessor used by the emulator.  Immediates
   are stored as the bit pattern of the accessor's return type (immediate8to64
   returns i64: pattern in [0, 2^64)). *)
Record instr := {
  i_code : code;
  i_mnemonic : mnemonic;
  i_len : Z;
  i_ip : Z;
  i_next_ip : Z;
  i_op_count : Z;
  i_op0_kind : opkind; i_op1_kind : opkind; i_op2_kind : opkind; i_op3_kind : opkind;
  i_op0_register : reg; i_op1_register : reg; i_op2_register : reg; i_op3_register : reg;
  i_memory_base : reg;
  i_memory_index : reg;
  i_memory_index_scale : Z;
  i_memory_displacement64 : Z;
  i_memory_segment : reg;
  i_immediate8 : Z;
  i_immediate8_2nd : Z;
  i_immediate16 : Z;
  i_immediate32 : Z;
  i_immediate64 : Z;
  i_immediate8to16 : Z;   (* i16 pattern *)
  i_immediate8to32 : Z;   (* i32 pattern *)
  i_immediate8to64 : Z;   (* i64 pattern *)
  i_immediate32to64 : Z;  (* i64 pattern *)
  i_near_branch64 : Z
}.

Definition i_op_kind (i : instr) (k : Z) : opkind :=
  if k =? 0 then i_op0_kind i else if k =? 1 then i_op1_kind i
  else if k =? 2 then i_op2_kind i else if k =? 3 then i_op3_kind i else OK_other (-1).

Definition i_op_register (i : instr) (k : Z) : reg :=
  if k =? 0 then i_op0_register i else if k =? 1 then i_op1_register i
  else if k =? 2 then i_op2_register i else if k =? 3 then i_op3_register i else RNone.
