(* Pinned enumeration of the iced-x86 Code and Mnemonic values that the dispatch
   tables of the pinned tree mention (443 codes, 65 mnemonics), plus a catch-all.
   Generated once by tools/gen_codes.py from /repo at the pinned commit and
   committed; it is part of the specification side (the set of forms must not
   shrink), not regenerated on every run. *)
From Coq Require Import ZArith List.

Inductive code :=
  | C_Adc_rm8_r8
  | C_Adc_rm16_r16
  | C_Adc_rm32_r32
  | C_Adc_rm64_r64
  | C_Adc_r8_rm8
  | C_Adc_r16_rm16
  | C_Adc_r32_rm32
  | C_Adc_r64_rm64
  | C_Adc_AL_imm8
  | C_Adc_AX_imm16
  | C_Adc_EAX_imm32
  | C_Adc_RAX_imm32
  | C_Adc_rm8_imm8
  | C_Adc_rm16_imm16
  | C_Adc_rm32_imm32
  | C_Adc_rm64_imm32
  | C_Adc_rm8_imm8_82
  | C_Adc_rm16_imm8
  | C_Adc_rm32_imm8
  | C_Adc_rm64_imm8
  | C_Add_rm8_r8
  | C_Add_rm16_r16
  | C_Add_rm32_r32
  | C_Add_rm64_r64
  | C_Add_r8_rm8
  | C_Add_r16_rm16
  | C_Add_r32_rm32
  | C_Add_r64_rm64
  | C_Add_AL_imm8
  | C_Add_AX_imm16
  | C_Add_EAX_imm32
  | C_Add_RAX_imm32
  | C_Add_rm8_imm8
  | C_Add_rm16_imm16
  | C_Add_rm32_imm32
  | C_Add_rm64_imm32
  | C_Add_rm8_imm8_82
  | C_Add_rm16_imm8
  | C_Add_rm32_imm8
  | C_Add_rm64_imm8
  | C_And_rm8_r8
  | C_And_rm16_r16
  | C_And_rm32_r32
  | C_And_rm64_r64
  | C_And_r8_rm8
  | C_And_r16_rm16
  | C_And_r32_rm32
  | C_And_r64_rm64
  | C_And_AL_imm8
  | C_And_AX_imm16
  | C_And_EAX_imm32
  | C_And_RAX_imm32
  | C_And_rm8_imm8
  | C_And_rm16_imm16
  | C_And_rm32_imm32
  | C_And_rm64_imm32
  | C_And_rm8_imm8_82
  | C_And_rm16_imm8
  | C_And_rm32_imm8
  | C_And_rm64_imm8
  | C_Call_ptr1616
  | C_Call_ptr1632
  | C_Call_rel16
  | C_Call_rel32_32
  | C_Call_rel32_64
  | C_Call_rm16
  | C_Call_rm32
  | C_Call_rm64
  | C_Call_m1616
  | C_Call_m1632
  | C_Call_m1664
  | C_Cdq
  | C_Cdqe
  | C_Cld
  | C_Cmovae_r16_rm16
  | C_Cmovae_r32_rm32
  | C_Cmovae_r64_rm64
  | C_Cmove_r16_rm16
  | C_Cmove_r32_rm32
  | C_Cmove_r64_rm64
  | C_Cmovne_r16_rm16
  | C_Cmovne_r32_rm32
  | C_Cmovne_r64_rm64
  | C_Cmp_rm8_r8
  | C_Cmp_rm16_r16
  | C_Cmp_rm32_r32
  | C_Cmp_rm64_r64
  | C_Cmp_r8_rm8
  | C_Cmp_r16_rm16
  | C_Cmp_r32_rm32
  | C_Cmp_r64_rm64
  | C_Cmp_AL_imm8
  | C_Cmp_AX_imm16
  | C_Cmp_EAX_imm32
  | C_Cmp_RAX_imm32
  | C_Cmp_rm8_imm8
  | C_Cmp_rm16_imm16
  | C_Cmp_rm32_imm32
  | C_Cmp_rm64_imm32
  | C_Cmp_rm8_imm8_82
  | C_Cmp_rm16_imm8
  | C_Cmp_rm32_imm8
  | C_Cmp_rm64_imm8
  | C_Cpuid
  | C_Cqo
  | C_Cwd
  | C_Dec_r16
  | C_Dec_r32
  | C_Dec_rm8
  | C_Dec_rm16
  | C_Dec_rm32
  | C_Dec_rm64
  | C_Div_rm8
  | C_Div_rm16
  | C_Div_rm32
  | C_Div_rm64
  | C_Endbr64
  | C_Idiv_rm8
  | C_Idiv_rm16
  | C_Idiv_rm32
  | C_Idiv_rm64
  | C_Imul_r16_rm16_imm16
  | C_Imul_r32_rm32_imm32
  | C_Imul_r64_rm64_imm32
  | C_Imul_r16_rm16_imm8
  | C_Imul_r32_rm32_imm8
  | C_Imul_r64_rm64_imm8
  | C_Imul_rm8
  | C_Imul_rm16
  | C_Imul_rm32
  | C_Imul_rm64
  | C_Imul_r16_rm16
  | C_Imul_r32_rm32
  | C_Imul_r64_rm64
  | C_Inc_r16
  | C_Inc_r32
  | C_Inc_rm8
  | C_Inc_rm16
  | C_Inc_rm32
  | C_Inc_rm64
  | C_Int_imm8
  | C_Int1
  | C_Int3
  | C_Ja_rel8_16
  | C_Ja_rel8_32
  | C_Ja_rel8_64
  | C_Ja_rel16
  | C_Ja_rel32_32
  | C_Ja_rel32_64
  | C_Jae_rel8_16
  | C_Jae_rel8_32
  | C_Jae_rel8_64
  | C_Jae_rel16
  | C_Jae_rel32_32
  | C_Jae_rel32_64
  | C_Jb_rel8_16
  | C_Jb_rel8_32
  | C_Jb_rel8_64
  | C_Jb_rel16
  | C_Jb_rel32_32
  | C_Jb_rel32_64
  | C_Jbe_rel8_16
  | C_Jbe_rel8_32
  | C_Jbe_rel8_64
  | C_Jbe_rel16
  | C_Jbe_rel32_32
  | C_Jbe_rel32_64
  | C_Je_rel8_16
  | C_Je_rel8_32
  | C_Je_rel8_64
  | C_Je_rel16
  | C_Je_rel32_32
  | C_Je_rel32_64
  | C_Jecxz_rel8_16
  | C_Jecxz_rel8_32
  | C_Jecxz_rel8_64
  | C_Jg_rel8_16
  | C_Jg_rel8_32
  | C_Jg_rel8_64
  | C_Jg_rel16
  | C_Jg_rel32_32
  | C_Jg_rel32_64
  | C_Jge_rel8_16
  | C_Jge_rel8_32
  | C_Jge_rel8_64
  | C_Jge_rel16
  | C_Jge_rel32_32
  | C_Jge_rel32_64
  | C_Jl_rel8_16
  | C_Jl_rel8_32
  | C_Jl_rel8_64
  | C_Jl_rel16
  | C_Jl_rel32_32
  | C_Jl_rel32_64
  | C_Jle_rel8_16
  | C_Jle_rel8_32
  | C_Jle_rel8_64
  | C_Jle_rel16
  | C_Jle_rel32_32
  | C_Jle_rel32_64
  | C_Jmp_rel16
  | C_Jmp_rel32_32
  | C_Jmp_rel32_64
  | C_Jmp_ptr1616
  | C_Jmp_ptr1632
  | C_Jmp_rel8_16
  | C_Jmp_rel8_32
  | C_Jmp_rel8_64
  | C_Jmp_rm16
  | C_Jmp_rm32
  | C_Jmp_rm64
  | C_Jmp_m1616
  | C_Jmp_m1632
  | C_Jmp_m1664
  | C_Jne_rel8_16
  | C_Jne_rel8_32
  | C_Jne_rel8_64
  | C_Jne_rel16
  | C_Jne_rel32_32
  | C_Jne_rel32_64
  | C_Jno_rel8_16
  | C_Jno_rel8_32
  | C_Jno_rel8_64
  | C_Jno_rel16
  | C_Jno_rel32_32
  | C_Jno_rel32_64
  | C_Jnp_rel8_16
  | C_Jnp_rel8_32
  | C_Jnp_rel8_64
  | C_Jnp_rel16
  | C_Jnp_rel32_32
  | C_Jnp_rel32_64
  | C_Jns_rel8_16
  | C_Jns_rel8_32
  | C_Jns_rel8_64
  | C_Jns_rel16
  | C_Jns_rel32_32
  | C_Jns_rel32_64
  | C_Jo_rel8_16
  | C_Jo_rel8_32
  | C_Jo_rel8_64
  | C_Jo_rel16
  | C_Jo_rel32_32
  | C_Jo_rel32_64
  | C_Jp_rel8_16
  | C_Jp_rel8_32
  | C_Jp_rel8_64
  | C_Jp_rel16
  | C_Jp_rel32_32
  | C_Jp_rel32_64
  | C_Jrcxz_rel8_16
  | C_Jrcxz_rel8_64
  | C_Js_rel8_16
  | C_Js_rel8_32
  | C_Js_rel8_64
  | C_Js_rel16
  | C_Js_rel32_32
  | C_Js_rel32_64
  | C_Lea_r16_m
  | C_Lea_r32_m
  | C_Lea_r64_m
  | C_Mov_rm8_r8
  | C_Mov_rm16_r16
  | C_Mov_rm32_r32
  | C_Mov_rm64_r64
  | C_Mov_r8_rm8
  | C_Mov_r16_rm16
  | C_Mov_r32_rm32
  | C_Mov_r64_rm64
  | C_Mov_rm16_Sreg
  | C_Mov_r32m16_Sreg
  | C_Mov_r64m16_Sreg
  | C_Mov_Sreg_rm16
  | C_Mov_Sreg_r32m16
  | C_Mov_Sreg_r64m16
  | C_Mov_AL_moffs8
  | C_Mov_AX_moffs16
  | C_Mov_EAX_moffs32
  | C_Mov_RAX_moffs64
  | C_Mov_moffs8_AL
  | C_Mov_moffs16_AX
  | C_Mov_moffs32_EAX
  | C_Mov_moffs64_RAX
  | C_Mov_r8_imm8
  | C_Mov_r16_imm16
  | C_Mov_r32_imm32
  | C_Mov_r64_imm64
  | C_Mov_rm8_imm8
  | C_Mov_rm16_imm16
  | C_Mov_rm32_imm32
  | C_Mov_rm64_imm32
  | C_Mov_r32_cr
  | C_Mov_r64_cr
  | C_Mov_r32_dr
  | C_Mov_r64_dr
  | C_Mov_cr_r32
  | C_Mov_cr_r64
  | C_Mov_dr_r32
  | C_Mov_dr_r64
  | C_Mov_r32_tr
  | C_Mov_tr_r32
  | C_Movd_mm_rm32
  | C_Movd_xmm_rm32
  | C_Movd_rm32_mm
  | C_Movd_rm32_xmm
  | C_Movsxd_r64_rm32
  | C_Movups_xmm_xmmm128
  | C_Movups_xmmm128_xmm
  | C_Movzx_r16_rm8
  | C_Movzx_r32_rm8
  | C_Movzx_r64_rm8
  | C_Movzx_r32_rm16
  | C_Movzx_r64_rm16
  | C_Mul_rm8
  | C_Mul_rm16
  | C_Mul_rm32
  | C_Mul_rm64
  | C_Neg_rm8
  | C_Neg_rm16
  | C_Neg_rm32
  | C_Neg_rm64
  | C_Nopw
  | C_Nopd
  | C_Nopq
  | C_Nop_rm16
  | C_Nop_rm32
  | C_Nop_rm64
  | C_Not_rm8
  | C_Not_rm16
  | C_Not_rm32
  | C_Not_rm64
  | C_Pop_r16
  | C_Pop_r32
  | C_Pop_r64
  | C_Pop_rm16
  | C_Pop_rm32
  | C_Pop_rm64
  | C_Push_r16
  | C_Push_r32
  | C_Push_r64
  | C_Push_imm16
  | C_Push_rm16
  | C_Push_rm32
  | C_Push_rm64
  | C_Pushq_imm8
  | C_Pushq_imm32
  | C_Retnw_imm16
  | C_Retnd_imm16
  | C_Retnq_imm16
  | C_Retnw
  | C_Retnd
  | C_Retnq
  | C_Retfw_imm16
  | C_Retfd_imm16
  | C_Retfq_imm16
  | C_Retfw
  | C_Retfd
  | C_Retfq
  | C_Setb_rm8
  | C_Sete_rm8
  | C_Setne_rm8
  | C_Shl_rm8_imm8
  | C_Shl_rm16_imm8
  | C_Shl_rm32_imm8
  | C_Shl_rm64_imm8
  | C_Shl_rm8_1
  | C_Shl_rm16_1
  | C_Shl_rm32_1
  | C_Shl_rm64_1
  | C_Shl_rm8_CL
  | C_Shl_rm16_CL
  | C_Shl_rm32_CL
  | C_Shl_rm64_CL
  | C_Shr_rm8_imm8
  | C_Shr_rm16_imm8
  | C_Shr_rm32_imm8
  | C_Shr_rm64_imm8
  | C_Shr_rm8_1
  | C_Shr_rm16_1
  | C_Shr_rm32_1
  | C_Shr_rm64_1
  | C_Shr_rm8_CL
  | C_Shr_rm16_CL
  | C_Shr_rm32_CL
  | C_Shr_rm64_CL
  | C_Sub_rm8_r8
  | C_Sub_rm16_r16
  | C_Sub_rm32_r32
  | C_Sub_rm64_r64
  | C_Sub_r8_rm8
  | C_Sub_r16_rm16
  | C_Sub_r32_rm32
  | C_Sub_r64_rm64
  | C_Sub_AL_imm8
  | C_Sub_AX_imm16
  | C_Sub_EAX_imm32
  | C_Sub_RAX_imm32
  | C_Sub_rm8_imm8
  | C_Sub_rm16_imm16
  | C_Sub_rm32_imm32
  | C_Sub_rm64_imm32
  | C_Sub_rm8_imm8_82
  | C_Sub_rm16_imm8
  | C_Sub_rm32_imm8
  | C_Sub_rm64_imm8
  | C_Syscall
  | C_Test_rm8_r8
  | C_Test_rm16_r16
  | C_Test_rm32_r32
  | C_Test_rm64_r64
  | C_Test_AL_imm8
  | C_Test_AX_imm16
  | C_Test_EAX_imm32
  | C_Test_RAX_imm32
  | C_Test_rm8_imm8
  | C_Test_rm16_imm16
  | C_Test_rm32_imm32
  | C_Test_rm64_imm32
  | C_Test_rm8_imm8_F6r1
  | C_Test_rm16_imm16_F7r1
  | C_Test_rm32_imm32_F7r1
  | C_Test_rm64_imm32_F7r1
  | C_Xor_rm8_r8
  | C_Xor_rm16_r16
  | C_Xor_rm32_r32
  | C_Xor_rm64_r64
  | C_Xor_r8_rm8
  | C_Xor_r16_rm16
  | C_Xor_r32_rm32
  | C_Xor_r64_rm64
  | C_Xor_AL_imm8
  | C_Xor_AX_imm16
  | C_Xor_EAX_imm32
  | C_Xor_RAX_imm32
  | C_Xor_rm8_imm8
  | C_Xor_rm16_imm16
  | C_Xor_rm32_imm32
  | C_Xor_rm64_imm32
  | C_Xor_rm8_imm8_82
  | C_Xor_rm16_imm8
  | C_Xor_rm32_imm8
  | C_Xor_rm64_imm8
  | C_Xorps_xmm_xmmm128
  | C_other (n : Z).

Inductive mnemonic :=
  | M_Adc
  | M_Add
  | M_And
  | M_Call
  | M_Cdq
  | M_Cdqe
  | M_Cld
  | M_Cmovae
  | M_Cmove
  | M_Cmovne
  | M_Cmp
  | M_Cpuid
  | M_Cqo
  | M_Cwd
  | M_Dec
  | M_Div
  | M_Endbr64
  | M_Idiv
  | M_Imul
  | M_Inc
  | M_Int
  | M_Int1
  | M_Ja
  | M_Jae
  | M_Jb
  | M_Jbe
  | M_Je
  | M_Jecxz
  | M_Jg
  | M_Jge
  | M_Jl
  | M_Jle
  | M_Jmp
  | M_Jne
  | M_Jno
  | M_Jnp
  | M_Jns
  | M_Jo
  | M_Jp
  | M_Jrcxz
  | M_Js
  | M_Lea
  | M_Mov
  | M_Movd
  | M_Movsxd
  | M_Movups
  | M_Movzx
  | M_Mul
  | M_Neg
  | M_Nop
  | M_Not
  | M_Pop
  | M_Push
  | M_Ret
  | M_Setb
  | M_Sete
  | M_Setne
  | M_Shl
  | M_Shr
  | M_Sub
  | M_Syscall
  | M_Test
  | M_Xor
  | M_Xorps
  | M_Int3
  | M_other (n : Z).

Definition all_codes : list code :=
  C_Adc_rm8_r8 ::
  C_Adc_rm16_r16 ::
  C_Adc_rm32_r32 ::
  C_Adc_rm64_r64 ::
  C_Adc_r8_rm8 ::
  C_Adc_r16_rm16 ::
  C_Adc_r32_rm32 ::
  C_Adc_r64_rm64 ::
  C_Adc_AL_imm8 ::
  C_Adc_AX_imm16 ::
  C_Adc_EAX_imm32 ::
  C_Adc_RAX_imm32 ::
  C_Adc_rm8_imm8 ::
  C_Adc_rm16_imm16 ::
  C_Adc_rm32_imm32 ::
  C_Adc_rm64_imm32 ::
  C_Adc_rm8_imm8_82 ::
  C_Adc_rm16_imm8 ::
  C_Adc_rm32_imm8 ::
  C_Adc_rm64_imm8 ::
  C_Add_rm8_r8 ::
  C_Add_rm16_r16 ::
  C_Add_rm32_r32 ::
  C_Add_rm64_r64 ::
  C_Add_r8_rm8 ::
  C_Add_r16_rm16 ::
  C_Add_r32_rm32 ::
  C_Add_r64_rm64 ::
  C_Add_AL_imm8 ::
  C_Add_AX_imm16 ::
  C_Add_EAX_imm32 ::
  C_Add_RAX_imm32 ::
  C_Add_rm8_imm8 ::
  C_Add_rm16_imm16 ::
  C_Add_rm32_imm32 ::
  C_Add_rm64_imm32 ::
  C_Add_rm8_imm8_82 ::
  C_Add_rm16_imm8 ::
  C_Add_rm32_imm8 ::
  C_Add_rm64_imm8 ::
  C_And_rm8_r8 ::
  C_And_rm16_r16 ::
  C_And_rm32_r32 ::
  C_And_rm64_r64 ::
  C_And_r8_rm8 ::
  C_And_r16_rm16 ::
  C_And_r32_rm32 ::
  C_And_r64_rm64 ::
  C_And_AL_imm8 ::
  C_And_AX_imm16 ::
  C_And_EAX_imm32 ::
  C_And_RAX_imm32 ::
  C_And_rm8_imm8 ::
  C_And_rm16_imm16 ::
  C_And_rm32_imm32 ::
  C_And_rm64_imm32 ::
  C_And_rm8_imm8_82 ::
  C_And_rm16_imm8 ::
  C_And_rm32_imm8 ::
  C_And_rm64_imm8 ::
  C_Call_ptr1616 ::
  C_Call_ptr1632 ::
  C_Call_rel16 ::
  C_Call_rel32_32 ::
  C_Call_rel32_64 ::
  C_Call_rm16 ::
  C_Call_rm32 ::
  C_Call_rm64 ::
  C_Call_m1616 ::
  C_Call_m1632 ::
  C_Call_m1664 ::
  C_Cdq ::
  C_Cdqe ::
  C_Cld ::
  C_Cmovae_r16_rm16 ::
  C_Cmovae_r32_rm32 ::
  C_Cmovae_r64_rm64 ::
  C_Cmove_r16_rm16 ::
  C_Cmove_r32_rm32 ::
  C_Cmove_r64_rm64 ::
  C_Cmovne_r16_rm16 ::
  C_Cmovne_r32_rm32 ::
  C_Cmovne_r64_rm64 ::
  C_Cmp_rm8_r8 ::
  C_Cmp_rm16_r16 ::
  C_Cmp_rm32_r32 ::
  C_Cmp_rm64_r64 ::
  C_Cmp_r8_rm8 ::
  C_Cmp_r16_rm16 ::
  C_Cmp_r32_rm32 ::
  C_Cmp_r64_rm64 ::
  C_Cmp_AL_imm8 ::
  C_Cmp_AX_imm16 ::
  C_Cmp_EAX_imm32 ::
  C_Cmp_RAX_imm32 ::
  C_Cmp_rm8_imm8 ::
  C_Cmp_rm16_imm16 ::
  C_Cmp_rm32_imm32 ::
  C_Cmp_rm64_imm32 ::
  C_Cmp_rm8_imm8_82 ::
  C_Cmp_rm16_imm8 ::
  C_Cmp_rm32_imm8 ::
  C_Cmp_rm64_imm8 ::
  C_Cpuid ::
  C_Cqo ::
  C_Cwd ::
  C_Dec_r16 ::
  C_Dec_r32 ::
  C_Dec_rm8 ::
  C_Dec_rm16 ::
  C_Dec_rm32 ::
  C_Dec_rm64 ::
  C_Div_rm8 ::
  C_Div_rm16 ::
  C_Div_rm32 ::
  C_Div_rm64 ::
  C_Endbr64 ::
  C_Idiv_rm8 ::
  C_Idiv_rm16 ::
  C_Idiv_rm32 ::
  C_Idiv_rm64 ::
  C_Imul_r16_rm16_imm16 ::
  C_Imul_r32_rm32_imm32 ::
  C_Imul_r64_rm64_imm32 ::
  C_Imul_r16_rm16_imm8 ::
  C_Imul_r32_rm32_imm8 ::
  C_Imul_r64_rm64_imm8 ::
  C_Imul_rm8 ::
  C_Imul_rm16 ::
  C_Imul_rm32 ::
  C_Imul_rm64 ::
  C_Imul_r16_rm16 ::
  C_Imul_r32_rm32 ::
  C_Imul_r64_rm64 ::
  C_Inc_r16 ::
  C_Inc_r32 ::
  C_Inc_rm8 ::
  C_Inc_rm16 ::
  C_Inc_rm32 ::
  C_Inc_rm64 ::
  C_Int_imm8 ::
  C_Int1 ::
  C_Int3 ::
  C_Ja_rel8_16 ::
  C_Ja_rel8_32 ::
  C_Ja_rel8_64 ::
  C_Ja_rel16 ::
  C_Ja_rel32_32 ::
  C_Ja_rel32_64 ::
  C_Jae_rel8_16 ::
  C_Jae_rel8_32 ::
  C_Jae_rel8_64 ::
  C_Jae_rel16 ::
  C_Jae_rel32_32 ::
  C_Jae_rel32_64 ::
  C_Jb_rel8_16 ::
  C_Jb_rel8_32 ::
  C_Jb_rel8_64 ::
  C_Jb_rel16 ::
  C_Jb_rel32_32 ::
  C_Jb_rel32_64 ::
  C_Jbe_rel8_16 ::
  C_Jbe_rel8_32 ::
  C_Jbe_rel8_64 ::
  C_Jbe_rel16 ::
  C_Jbe_rel32_32 ::
  C_Jbe_rel32_64 ::
  C_Je_rel8_16 ::
  C_Je_rel8_32 ::
  C_Je_rel8_64 ::
  C_Je_rel16 ::
  C_Je_rel32_32 ::
  C_Je_rel32_64 ::
  C_Jecxz_rel8_16 ::
  C_Jecxz_rel8_32 ::
  C_Jecxz_rel8_64 ::
  C_Jg_rel8_16 ::
  C_Jg_rel8_32 ::
  C_Jg_rel8_64 ::
  C_Jg_rel16 ::
  C_Jg_rel32_32 ::
  C_Jg_rel32_64 ::
  C_Jge_rel8_16 ::
  C_Jge_rel8_32 ::
  C_Jge_rel8_64 ::
  C_Jge_rel16 ::
  C_Jge_rel32_32 ::
  C_Jge_rel32_64 ::
  C_Jl_rel8_16 ::
  C_Jl_rel8_32 ::
  C_Jl_rel8_64 ::
  C_Jl_rel16 ::
  C_Jl_rel32_32 ::
  C_Jl_rel32_64 ::
  C_Jle_rel8_16 ::
  C_Jle_rel8_32 ::
  C_Jle_rel8_64 ::
  C_Jle_rel16 ::
  C_Jle_rel32_32 ::
  C_Jle_rel32_64 ::
  C_Jmp_rel16 ::
  C_Jmp_rel32_32 ::
  C_Jmp_rel32_64 ::
  C_Jmp_ptr1616 ::
  C_Jmp_ptr1632 ::
  C_Jmp_rel8_16 ::
  C_Jmp_rel8_32 ::
  C_Jmp_rel8_64 ::
  C_Jmp_rm16 ::
  C_Jmp_rm32 ::
  C_Jmp_rm64 ::
  C_Jmp_m1616 ::
  C_Jmp_m1632 ::
  C_Jmp_m1664 ::
  C_Jne_rel8_16 ::
  C_Jne_rel8_32 ::
  C_Jne_rel8_64 ::
  C_Jne_rel16 ::
  C_Jne_rel32_32 ::
  C_Jne_rel32_64 ::
  C_Jno_rel8_16 ::
  C_Jno_rel8_32 ::
  C_Jno_rel8_64 ::
  C_Jno_rel16 ::
  C_Jno_rel32_32 ::
  C_Jno_rel32_64 ::
  C_Jnp_rel8_16 ::
  C_Jnp_rel8_32 ::
  C_Jnp_rel8_64 ::
  C_Jnp_rel16 ::
  C_Jnp_rel32_32 ::
  C_Jnp_rel32_64 ::
  C_Jns_rel8_16 ::
  C_Jns_rel8_32 ::
  C_Jns_rel8_64 ::
  C_Jns_rel16 ::
  C_Jns_rel32_32 ::
  C_Jns_rel32_64 ::
  C_Jo_rel8_16 ::
  C_Jo_rel8_32 ::
  C_Jo_rel8_64 ::
  C_Jo_rel16 ::
  C_Jo_rel32_32 ::
  C_Jo_rel32_64 ::
  C_Jp_rel8_16 ::
  C_Jp_rel8_32 ::
  C_Jp_rel8_64 ::
  C_Jp_rel16 ::
  C_Jp_rel32_32 ::
  C_Jp_rel32_64 ::
  C_Jrcxz_rel8_16 ::
  C_Jrcxz_rel8_64 ::
  C_Js_rel8_16 ::
  C_Js_rel8_32 ::
  C_Js_rel8_64 ::
  C_Js_rel16 ::
  C_Js_rel32_32 ::
  C_Js_rel32_64 ::
  C_Lea_r16_m ::
  C_Lea_r32_m ::
  C_Lea_r64_m ::
  C_Mov_rm8_r8 ::
  C_Mov_rm16_r16 ::
  C_Mov_rm32_r32 ::
  C_Mov_rm64_r64 ::
  C_Mov_r8_rm8 ::
  C_Mov_r16_rm16 ::
  C_Mov_r32_rm32 ::
  C_Mov_r64_rm64 ::
  C_Mov_rm16_Sreg ::
  C_Mov_r32m16_Sreg ::
  C_Mov_r64m16_Sreg ::
  C_Mov_Sreg_rm16 ::
  C_Mov_Sreg_r32m16 ::
  C_Mov_Sreg_r64m16 ::
  C_Mov_AL_moffs8 ::
  C_Mov_AX_moffs16 ::
  C_Mov_EAX_moffs32 ::
  C_Mov_RAX_moffs64 ::
  C_Mov_moffs8_AL ::
  C_Mov_moffs16_AX ::
  C_Mov_moffs32_EAX ::
  C_Mov_moffs64_RAX ::
  C_Mov_r8_imm8 ::
  C_Mov_r16_imm16 ::
  C_Mov_r32_imm32 ::
  C_Mov_r64_imm64 ::
  C_Mov_rm8_imm8 ::
  C_Mov_rm16_imm16 ::
  C_Mov_rm32_imm32 ::
  C_Mov_rm64_imm32 ::
  C_Mov_r32_cr ::
  C_Mov_r64_cr ::
  C_Mov_r32_dr ::
  C_Mov_r64_dr ::
  C_Mov_cr_r32 ::
  C_Mov_cr_r64 ::
  C_Mov_dr_r32 ::
  C_Mov_dr_r64 ::
  C_Mov_r32_tr ::
  C_Mov_tr_r32 ::
  C_Movd_mm_rm32 ::
  C_Movd_xmm_rm32 ::
  C_Movd_rm32_mm ::
  C_Movd_rm32_xmm ::
  C_Movsxd_r64_rm32 ::
  C_Movups_xmm_xmmm128 ::
  C_Movups_xmmm128_xmm ::
  C_Movzx_r16_rm8 ::
  C_Movzx_r32_rm8 ::
  C_Movzx_r64_rm8 ::
  C_Movzx_r32_rm16 ::
  C_Movzx_r64_rm16 ::
  C_Mul_rm8 ::
  C_Mul_rm16 ::
  C_Mul_rm32 ::
  C_Mul_rm64 ::
  C_Neg_rm8 ::
  C_Neg_rm16 ::
  C_Neg_rm32 ::
  C_Neg_rm64 ::
  C_Nopw ::
  C_Nopd ::
  C_Nopq ::
  C_Nop_rm16 ::
  C_Nop_rm32 ::
  C_Nop_rm64 ::
  C_Not_rm8 ::
  C_Not_rm16 ::
  C_Not_rm32 ::
  C_Not_rm64 ::
  C_Pop_r16 ::
  C_Pop_r32 ::
  C_Pop_r64 ::
  C_Pop_rm16 ::
  C_Pop_rm32 ::
  C_Pop_rm64 ::
  C_Push_r16 ::
  C_Push_r32 ::
  C_Push_r64 ::
  C_Push_imm16 ::
  C_Push_rm16 ::
  C_Push_rm32 ::
  C_Push_rm64 ::
  C_Pushq_imm8 ::
  C_Pushq_imm32 ::
  C_Retnw_imm16 ::
  C_Retnd_imm16 ::
  C_Retnq_imm16 ::
  C_Retnw ::
  C_Retnd ::
  C_Retnq ::
  C_Retfw_imm16 ::
  C_Retfd_imm16 ::
  C_Retfq_imm16 ::
  C_Retfw ::
  C_Retfd ::
  C_Retfq ::
  C_Setb_rm8 ::
  C_Sete_rm8 ::
  C_Setne_rm8 ::
  C_Shl_rm8_imm8 ::
  C_Shl_rm16_imm8 ::
  C_Shl_rm32_imm8 ::
  C_Shl_rm64_imm8 ::
  C_Shl_rm8_1 ::
  C_Shl_rm16_1 ::
  C_Shl_rm32_1 ::
  C_Shl_rm64_1 ::
  C_Shl_rm8_CL ::
  C_Shl_rm16_CL ::
  C_Shl_rm32_CL ::
  C_Shl_rm64_CL ::
  C_Shr_rm8_imm8 ::
  C_Shr_rm16_imm8 ::
  C_Shr_rm32_imm8 ::
  C_Shr_rm64_imm8 ::
  C_Shr_rm8_1 ::
  C_Shr_rm16_1 ::
  C_Shr_rm32_1 ::
  C_Shr_rm64_1 ::
  C_Shr_rm8_CL ::
  C_Shr_rm16_CL ::
  C_Shr_rm32_CL ::
  C_Shr_rm64_CL ::
  C_Sub_rm8_r8 ::
  C_Sub_rm16_r16 ::
  C_Sub_rm32_r32 ::
  C_Sub_rm64_r64 ::
  C_Sub_r8_rm8 ::
  C_Sub_r16_rm16 ::
  C_Sub_r32_rm32 ::
  C_Sub_r64_rm64 ::
  C_Sub_AL_imm8 ::
  C_Sub_AX_imm16 ::
  C_Sub_EAX_imm32 ::
  C_Sub_RAX_imm32 ::
  C_Sub_rm8_imm8 ::
  C_Sub_rm16_imm16 ::
  C_Sub_rm32_imm32 ::
  C_Sub_rm64_imm32 ::
  C_Sub_rm8_imm8_82 ::
  C_Sub_rm16_imm8 ::
  C_Sub_rm32_imm8 ::
  C_Sub_rm64_imm8 ::
  C_Syscall ::
  C_Test_rm8_r8 ::
  C_Test_rm16_r16 ::
  C_Test_rm32_r32 ::
  C_Test_rm64_r64 ::
  C_Test_AL_imm8 ::
  C_Test_AX_imm16 ::
  C_Test_EAX_imm32 ::
  C_Test_RAX_imm32 ::
  C_Test_rm8_imm8 ::
  C_Test_rm16_imm16 ::
  C_Test_rm32_imm32 ::
  C_Test_rm64_imm32 ::
  C_Test_rm8_imm8_F6r1 ::
  C_Test_rm16_imm16_F7r1 ::
  C_Test_rm32_imm32_F7r1 ::
  C_Test_rm64_imm32_F7r1 ::
  C_Xor_rm8_r8 ::
  C_Xor_rm16_r16 ::
  C_Xor_rm32_r32 ::
  C_Xor_rm64_r64 ::
  C_Xor_r8_rm8 ::
  C_Xor_r16_rm16 ::
  C_Xor_r32_rm32 ::
  C_Xor_r64_rm64 ::
  C_Xor_AL_imm8 ::
  C_Xor_AX_imm16 ::
  C_Xor_EAX_imm32 ::
  C_Xor_RAX_imm32 ::
  C_Xor_rm8_imm8 ::
  C_Xor_rm16_imm16 ::
  C_Xor_rm32_imm32 ::
  C_Xor_rm64_imm32 ::
  C_Xor_rm8_imm8_82 ::
  C_Xor_rm16_imm8 ::
  C_Xor_rm32_imm8 ::
  C_Xor_rm64_imm8 ::
  C_Xorps_xmm_xmmm128 :: nil.

Definition all_mnemonics : list mnemonic :=
  M_Adc ::
  M_Add ::
  M_And ::
  M_Call ::
  M_Cdq ::
  M_Cdqe ::
  M_Cld ::
  M_Cmovae ::
  M_Cmove ::
  M_Cmovne ::
  M_Cmp ::
  M_Cpuid ::
  M_Cqo ::
  M_Cwd ::
  M_Dec ::
  M_Div ::
  M_Endbr64 ::
  M_Idiv ::
  M_Imul ::
  M_Inc ::
  M_Int ::
  M_Int1 ::
  M_Ja ::
  M_Jae ::
  M_Jb ::
  M_Jbe ::
  M_Je ::
  M_Jecxz ::
  M_Jg ::
  M_Jge ::
  M_Jl ::
  M_Jle ::
  M_Jmp ::
  M_Jne ::
  M_Jno ::
  M_Jnp ::
  M_Jns ::
  M_Jo ::
  M_Jp ::
  M_Jrcxz ::
  M_Js ::
  M_Lea ::
  M_Mov ::
  M_Movd ::
  M_Movsxd ::
  M_Movups ::
  M_Movzx ::
  M_Mul ::
  M_Neg ::
  M_Nop ::
  M_Not ::
  M_Pop ::
  M_Push ::
  M_Ret ::
  M_Setb ::
  M_Sete ::
  M_Setne ::
  M_Shl ::
  M_Shr ::
  M_Sub ::
  M_Syscall ::
  M_Test ::
  M_Xor ::
  M_Xorps ::
  M_Int3 :: nil.

Definition code_eqb (a b : code) : bool :=
  match a, b with
  | C_Adc_rm8_r8, C_Adc_rm8_r8 => true
  | C_Adc_rm16_r16, C_Adc_rm16_r16 => true
  | C_Adc_rm32_r32, C_Adc_rm32_r32 => true
  | C_Adc_rm64_r64, C_Adc_rm64_r64 => true
  | C_Adc_r8_rm8, C_Adc_r8_rm8 => true
  | C_Adc_r16_rm16, C_Adc_r16_rm16 => true
  | C_Adc_r32_rm32, C_Adc_r32_rm32 => true
  | C_Adc_r64_rm64, C_Adc_r64_rm64 => true
  | C_Adc_AL_imm8, C_Adc_AL_imm8 => true
  | C_Adc_AX_imm16, C_Adc_AX_imm16 => true
  | C_Adc_EAX_imm32, C_Adc_EAX_imm32 => true
  | C_Adc_RAX_imm32, C_Adc_RAX_imm32 => true
  | C_Adc_rm8_imm8, C_Adc_rm8_imm8 => true
  | C_Adc_rm16_imm16, C_Adc_rm16_imm16 => true
  | C_Adc_rm32_imm32, C_Adc_rm32_imm32 => true
  | C_Adc_rm64_imm32, C_Adc_rm64_imm32 => true
  | C_Adc_rm8_imm8_82, C_Adc_rm8_imm8_82 => true
  | C_Adc_rm16_imm8, C_Adc_rm16_imm8 => true
  | C_Adc_rm32_imm8, C_Adc_rm32_imm8 => true
  | C_Adc_rm64_imm8, C_Adc_rm64_imm8 => true
  | C_Add_rm8_r8, C_Add_rm8_r8 => true
  | C_Add_rm16_r16, C_Add_rm16_r16 => true
  | C_Add_rm32_r32, C_Add_rm32_r32 => true
  | C_Add_rm64_r64, C_Add_rm64_r64 => true
  | C_Add_r8_rm8, C_Add_r8_rm8 => true
  | C_Add_r16_rm16, C_Add_r16_rm16 => true
  | C_Add_r32_rm32, C_Add_r32_rm32 => true
  | C_Add_r64_rm64, C_Add_r64_rm64 => true
  | C_Add_AL_imm8, C_Add_AL_imm8 => true
  | C_Add_AX_imm16, C_Add_AX_imm16 => true
  | C_Add_EAX_imm32, C_Add_EAX_imm32 => true
  | C_Add_RAX_imm32, C_Add_RAX_imm32 => true
  | C_Add_rm8_imm8, C_Add_rm8_imm8 => true
  | C_Add_rm16_imm16, C_Add_rm16_imm16 => true
  | C_Add_rm32_imm32, C_Add_rm32_imm32 => true
  | C_Add_rm64_imm32, C_Add_rm64_imm32 => true
  | C_Add_rm8_imm8_82, C_Add_rm8_imm8_82 => true
  | C_Add_rm16_imm8, C_Add_rm16_imm8 => true
  | C_Add_rm32_imm8, C_Add_rm32_imm8 => true
  | C_Add_rm64_imm8, C_Add_rm64_imm8 => true
  | C_And_rm8_r8, C_And_rm8_r8 => true
  | C_And_rm16_r16, C_And_rm16_r16 => true
  | C_And_rm32_r32, C_And_rm32_r32 => true
  | C_And_rm64_r64, C_And_rm64_r64 => true
  | C_And_r8_rm8, C_And_r8_rm8 => true
  | C_And_r16_rm16, C_And_r16_rm16 => true
  | C_And_r32_rm32, C_And_r32_rm32 => true
  | C_And_r64_rm64, C_And_r64_rm64 => true
  | C_And_AL_imm8, C_And_AL_imm8 => true
  | C_And_AX_imm16, C_And_AX_imm16 => true
  | C_And_EAX_imm32, C_And_EAX_imm32 => true
  | C_And_RAX_imm32, C_And_RAX_imm32 => true
  | C_And_rm8_imm8, C_And_rm8_imm8 => true
  | C_And_rm16_imm16, C_And_rm16_imm16 => true
  | C_And_rm32_imm32, C_And_rm32_imm32 => true
  | C_And_rm64_imm32, C_And_rm64_imm32 => true
  | C_And_rm8_imm8_82, C_And_rm8_imm8_82 => true
  | C_And_rm16_imm8, C_And_rm16_imm8 => true
  | C_And_rm32_imm8, C_And_rm32_imm8 => true
  | C_And_rm64_imm8, C_And_rm64_imm8 => true
  | C_Call_ptr1616, C_Call_ptr1616 => true
  | C_Call_ptr1632, C_Call_ptr1632 => true
  | C_Call_rel16, C_Call_rel16 => true
  | C_Call_rel32_32, C_Call_rel32_32 => true
  | C_Call_rel32_64, C_Call_rel32_64 => true
  | C_Call_rm16, C_Call_rm16 => true
  | C_Call_rm32, C_Call_rm32 => true
  | C_Call_rm64, C_Call_rm64 => true
  | C_Call_m1616, C_Call_m1616 => true
  | C_Call_m1632, C_Call_m1632 => true
  | C_Call_m1664, C_Call_m1664 => true
  | C_Cdq, C_Cdq => true
  | C_Cdqe, C_Cdqe => true
  | C_Cld, C_Cld => true
  | C_Cmovae_r16_rm16, C_Cmovae_r16_rm16 => true
  | C_Cmovae_r32_rm32, C_Cmovae_r32_rm32 => true
  | C_Cmovae_r64_rm64, C_Cmovae_r64_rm64 => true
  | C_Cmove_r16_rm16, C_Cmove_r16_rm16 => true
  | C_Cmove_r32_rm32, C_Cmove_r32_rm32 => true
  | C_Cmove_r64_rm64, C_Cmove_r64_rm64 => true
  | C_Cmovne_r16_rm16, C_Cmovne_r16_rm16 => true
  | C_Cmovne_r32_rm32, C_Cmovne_r32_rm32 => true
  | C_Cmovne_r64_rm64, C_Cmovne_r64_rm64 => true
  | C_Cmp_rm8_r8, C_Cmp_rm8_r8 => true
  | C_Cmp_rm16_r16, C_Cmp_rm16_r16 => true
  | C_Cmp_rm32_r32, C_Cmp_rm32_r32 => true
  | C_Cmp_rm64_r64, C_Cmp_rm64_r64 => true
  | C_Cmp_r8_rm8, C_Cmp_r8_rm8 => true
  | C_Cmp_r16_rm16, C_Cmp_r16_rm16 => true
  | C_Cmp_r32_rm32, C_Cmp_r32_rm32 => true
  | C_Cmp_r64_rm64, C_Cmp_r64_rm64 => true
  | C_Cmp_AL_imm8, C_Cmp_AL_imm8 => true
  | C_Cmp_AX_imm16, C_Cmp_AX_imm16 => true
  | C_Cmp_EAX_imm32, C_Cmp_EAX_imm32 => true
  | C_Cmp_RAX_imm32, C_Cmp_RAX_imm32 => true
  | C_Cmp_rm8_imm8, C_Cmp_rm8_imm8 => true
  | C_Cmp_rm16_imm16, C_Cmp_rm16_imm16 => true
  | C_Cmp_rm32_imm32, C_Cmp_rm32_imm32 => true
  | C_Cmp_rm64_imm32, C_Cmp_rm64_imm32 => true
  | C_Cmp_rm8_imm8_82, C_Cmp_rm8_imm8_82 => true
  | C_Cmp_rm16_imm8, C_Cmp_rm16_imm8 => true
  | C_Cmp_rm32_imm8, C_Cmp_rm32_imm8 => true
  | C_Cmp_rm64_imm8, C_Cmp_rm64_imm8 => true
  | C_Cpuid, C_Cpuid => true
  | C_Cqo, C_Cqo => true
  | C_Cwd, C_Cwd => true
  | C_Dec_r16, C_Dec_r16 => true
  | C_Dec_r32, C_Dec_r32 => true
  | C_Dec_rm8, C_Dec_rm8 => true
  | C_Dec_rm16, C_Dec_rm16 => true
  | C_Dec_rm32, C_Dec_rm32 => true
  | C_Dec_rm64, C_Dec_rm64 => true
  | C_Div_rm8, C_Div_rm8 => true
  | C_Div_rm16, C_Div_rm16 => true
  | C_Div_rm32, C_Div_rm32 => true
  | C_Div_rm64, C_Div_rm64 => true
  | C_Endbr64, C_Endbr64 => true
  | C_Idiv_rm8, C_Idiv_rm8 => true
  | C_Idiv_rm16, C_Idiv_rm16 => true
  | C_Idiv_rm32, C_Idiv_rm32 => true
  | C_Idiv_rm64, C_Idiv_rm64 => true
  | C_Imul_r16_rm16_imm16, C_Imul_r16_rm16_imm16 => true
  | C_Imul_r32_rm32_imm32, C_Imul_r32_rm32_imm32 => true
  | C_Imul_r64_rm64_imm32, C_Imul_r64_rm64_imm32 => true
  | C_Imul_r16_rm16_imm8, C_Imul_r16_rm16_imm8 => true
  | C_Imul_r32_rm32_imm8, C_Imul_r32_rm32_imm8 => true
  | C_Imul_r64_rm64_imm8, C_Imul_r64_rm64_imm8 => true
  | C_Imul_rm8, C_Imul_rm8 => true
  | C_Imul_rm16, C_Imul_rm16 => true
  | C_Imul_rm32, C_Imul_rm32 => true
  | C_Imul_rm64, C_Imul_rm64 => true
  | C_Imul_r16_rm16, C_Imul_r16_rm16 => true
  | C_Imul_r32_rm32, C_Imul_r32_rm32 => true
  | C_Imul_r64_rm64, C_Imul_r64_rm64 => true
  | C_Inc_r16, C_Inc_r16 => true
  | C_Inc_r32, C_Inc_r32 => true
  | C_Inc_rm8, C_Inc_rm8 => true
  | C_Inc_rm16, C_Inc_rm16 => true
  | C_Inc_rm32, C_Inc_rm32 => true
  | C_Inc_rm64, C_Inc_rm64 => true
  | C_Int_imm8, C_Int_imm8 => true
  | C_Int1, C_Int1 => true
  | C_Int3, C_Int3 => true
  | C_Ja_rel8_16, C_Ja_rel8_16 => true
  | C_Ja_rel8_32, C_Ja_rel8_32 => true
  | C_Ja_rel8_64, C_Ja_rel8_64 => true
  | C_Ja_rel16, C_Ja_rel16 => true
  | C_Ja_rel32_32, C_Ja_rel32_32 => true
  | C_Ja_rel32_64, C_Ja_rel32_64 => true
  | C_Jae_rel8_16, C_Jae_rel8_16 => true
  | C_Jae_rel8_32, C_Jae_rel8_32 => true
  | C_Jae_rel8_64, C_Jae_rel8_64 => true
  | C_Jae_rel16, C_Jae_rel16 => true
  | C_Jae_rel32_32, C_Jae_rel32_32 => true
  | C_Jae_rel32_64, C_Jae_rel32_64 => true
  | C_Jb_rel8_16, C_Jb_rel8_16 => true
  | C_Jb_rel8_32, C_Jb_rel8_32 => true
  | C_Jb_rel8_64, C_Jb_rel8_64 => true
  | C_Jb_rel16, C_Jb_rel16 => true
  | C_Jb_rel32_32, C_Jb_rel32_32 => true
  | C_Jb_rel32_64, C_Jb_rel32_64 => true
  | C_Jbe_rel8_16, C_Jbe_rel8_16 => true
  | C_Jbe_rel8_32, C_Jbe_rel8_32 => true
  | C_Jbe_rel8_64, C_Jbe_rel8_64 => true
  | C_Jbe_rel16, C_Jbe_rel16 => true
  | C_Jbe_rel32_32, C_Jbe_rel32_32 => true
  | C_Jbe_rel32_64, C_Jbe_rel32_64 => true
  | C_Je_rel8_16, C_Je_rel8_16 => true
  | C_Je_rel8_32, C_Je_rel8_32 => true
  | C_Je_rel8_64, C_Je_rel8_64 => true
  | C_Je_rel16, C_Je_rel16 => true
  | C_Je_rel32_32, C_Je_rel32_32 => true
  | C_Je_rel32_64, C_Je_rel32_64 => true
  | C_Jecxz_rel8_16, C_Jecxz_rel8_16 => true
  | C_Jecxz_rel8_32, C_Jecxz_rel8_32 => true
  | C_Jecxz_rel8_64, C_Jecxz_rel8_64 => true
  | C_Jg_rel8_16, C_Jg_rel8_16 => true
  | C_Jg_rel8_32, C_Jg_rel8_32 => true
  | C_Jg_rel8_64, C_Jg_rel8_64 => true
  | C_Jg_rel16, C_Jg_rel16 => true
  | C_Jg_rel32_32, C_Jg_rel32_32 => true
  | C_Jg_rel32_64, C_Jg_rel32_64 => true
  | C_Jge_rel8_16, C_Jge_rel8_16 => true
  | C_Jge_rel8_32, C_Jge_rel8_32 => true
  | C_Jge_rel8_64, C_Jge_rel8_64 => true
  | C_Jge_rel16, C_Jge_rel16 => true
  | C_Jge_rel32_32, C_Jge_rel32_32 => true
  | C_Jge_rel32_64, C_Jge_rel32_64 => true
  | C_Jl_rel8_16, C_Jl_rel8_16 => true
  | C_Jl_rel8_32, C_Jl_rel8_32 => true
  | C_Jl_rel8_64, C_Jl_rel8_64 => true
  | C_Jl_rel16, C_Jl_rel16 => true
  | C_Jl_rel32_32, C_Jl_rel32_32 => true
  | C_Jl_rel32_64, C_Jl_rel32_64 => true
  | C_Jle_rel8_16, C_Jle_rel8_16 => true
  | C_Jle_rel8_32, C_Jle_rel8_32 => true
  | C_Jle_rel8_64, C_Jle_rel8_64 => true
  | C_Jle_rel16, C_Jle_rel16 => true
  | C_Jle_rel32_32, C_Jle_rel32_32 => true
  | C_Jle_rel32_64, C_Jle_rel32_64 => true
  | C_Jmp_rel16, C_Jmp_rel16 => true
  | C_Jmp_rel32_32, C_Jmp_rel32_32 => true
  | C_Jmp_rel32_64, C_Jmp_rel32_64 => true
  | C_Jmp_ptr1616, C_Jmp_ptr1616 => true
  | C_Jmp_ptr1632, C_Jmp_ptr1632 => true
  | C_Jmp_rel8_16, C_Jmp_rel8_16 => true
  | C_Jmp_rel8_32, C_Jmp_rel8_32 => true
  | C_Jmp_rel8_64, C_Jmp_rel8_64 => true
  | C_Jmp_rm16, C_Jmp_rm16 => true
  | C_Jmp_rm32, C_Jmp_rm32 => true
  | C_Jmp_rm64, C_Jmp_rm64 => true
  | C_Jmp_m1616, C_Jmp_m1616 => true
  | C_Jmp_m1632, C_Jmp_m1632 => true
  | C_Jmp_m1664, C_Jmp_m1664 => true
  | C_Jne_rel8_16, C_Jne_rel8_16 => true
  | C_Jne_rel8_32, C_Jne_rel8_32 => true
  | C_Jne_rel8_64, C_Jne_rel8_64 => true
  | C_Jne_rel16, C_Jne_rel16 => true
  | C_Jne_rel32_32, C_Jne_rel32_32 => true
  | C_Jne_rel32_64, C_Jne_rel32_64 => true
  | C_Jno_rel8_16, C_Jno_rel8_16 => true
  | C_Jno_rel8_32, C_Jno_rel8_32 => true
  | C_Jno_rel8_64, C_Jno_rel8_64 => true
  | C_Jno_rel16, C_Jno_rel16 => true
  | C_Jno_rel32_32, C_Jno_rel32_32 => true
  | C_Jno_rel32_64, C_Jno_rel32_64 => true
  | C_Jnp_rel8_16, C_Jnp_rel8_16 => true
  | C_Jnp_rel8_32, C_Jnp_rel8_32 => true
  | C_Jnp_rel8_64, C_Jnp_rel8_64 => true
  | C_Jnp_rel16, C_Jnp_rel16 => true
  | C_Jnp_rel32_32, C_Jnp_rel32_32 => true
  | C_Jnp_rel32_64, C_Jnp_rel32_64 => true
  | C_Jns_rel8_16, C_Jns_rel8_16 => true
  | C_Jns_rel8_32, C_Jns_rel8_32 => true
  | C_Jns_rel8_64, C_Jns_rel8_64 => true
  | C_Jns_rel16, C_Jns_rel16 => true
  | C_Jns_rel32_32, C_Jns_rel32_32 => true
  | C_Jns_rel32_64, C_Jns_rel32_64 => true
  | C_Jo_rel8_16, C_Jo_rel8_16 => true
  | C_Jo_rel8_32, C_Jo_rel8_32 => true
  | C_Jo_rel8_64, C_Jo_rel8_64 => true
  | C_Jo_rel16, C_Jo_rel16 => true
  | C_Jo_rel32_32, C_Jo_rel32_32 => true
  | C_Jo_rel32_64, C_Jo_rel32_64 => true
  | C_Jp_rel8_16, C_Jp_rel8_16 => true
  | C_Jp_rel8_32, C_Jp_rel8_32 => true
  | C_Jp_rel8_64, C_Jp_rel8_64 => true
  | C_Jp_rel16, C_Jp_rel16 => true
  | C_Jp_rel32_32, C_Jp_rel32_32 => true
  | C_Jp_rel32_64, C_Jp_rel32_64 => true
  | C_Jrcxz_rel8_16, C_Jrcxz_rel8_16 => true
  | C_Jrcxz_rel8_64, C_Jrcxz_rel8_64 => true
  | C_Js_rel8_16, C_Js_rel8_16 => true
  | C_Js_rel8_32, C_Js_rel8_32 => true
  | C_Js_rel8_64, C_Js_rel8_64 => true
  | C_Js_rel16, C_Js_rel16 => true
  | C_Js_rel32_32, C_Js_rel32_32 => true
  | C_Js_rel32_64, C_Js_rel32_64 => true
  | C_Lea_r16_m, C_Lea_r16_m => true
  | C_Lea_r32_m, C_Lea_r32_m => true
  | C_Lea_r64_m, C_Lea_r64_m => true
  | C_Mov_rm8_r8, C_Mov_rm8_r8 => true
  | C_Mov_rm16_r16, C_Mov_rm16_r16 => true
  | C_Mov_rm32_r32, C_Mov_rm32_r32 => true
  | C_Mov_rm64_r64, C_Mov_rm64_r64 => true
  | C_Mov_r8_rm8, C_Mov_r8_rm8 => true
  | C_Mov_r16_rm16, C_Mov_r16_rm16 => true
  | C_Mov_r32_rm32, C_Mov_r32_rm32 => true
  | C_Mov_r64_rm64, C_Mov_r64_rm64 => true
  | C_Mov_rm16_Sreg, C_Mov_rm16_Sreg => true
  | C_Mov_r32m16_Sreg, C_Mov_r32m16_Sreg => true
  | C_Mov_r64m16_Sreg, C_Mov_r64m16_Sreg => true
  | C_Mov_Sreg_rm16, C_Mov_Sreg_rm16 => true
  | C_Mov_Sreg_r32m16, C_Mov_Sreg_r32m16 => true
  | C_Mov_Sreg_r64m16, C_Mov_Sreg_r64m16 => true
  | C_Mov_AL_moffs8, C_Mov_AL_moffs8 => true
  | C_Mov_AX_moffs16, C_Mov_AX_moffs16 => true
  | C_Mov_EAX_moffs32, C_Mov_EAX_moffs32 => true
  | C_Mov_RAX_moffs64, C_Mov_RAX_moffs64 => true
  | C_Mov_moffs8_AL, C_Mov_moffs8_AL => true
  | C_Mov_moffs16_AX, C_Mov_moffs16_AX => true
  | C_Mov_moffs32_EAX, C_Mov_moffs32_EAX => true
  | C_Mov_moffs64_RAX, C_Mov_moffs64_RAX => true
  | C_Mov_r8_imm8, C_Mov_r8_imm8 => true
  | C_Mov_r16_imm16, C_Mov_r16_imm16 => true
  | C_Mov_r32_imm32, C_Mov_r32_imm32 => true
  | C_Mov_r64_imm64, C_Mov_r64_imm64 => true
  | C_Mov_rm8_imm8, C_Mov_rm8_imm8 => true
  | C_Mov_rm16_imm16, C_Mov_rm16_imm16 => true
  | C_Mov_rm32_imm32, C_Mov_rm32_imm32 => true
  | C_Mov_rm64_imm32, C_Mov_rm64_imm32 => true
  | C_Mov_r32_cr, C_Mov_r32_cr => true
  | C_Mov_r64_cr, C_Mov_r64_cr => true
  | C_Mov_r32_dr, C_Mov_r32_dr => true
  | C_Mov_r64_dr, C_Mov_r64_dr => true
  | C_Mov_cr_r32, C_Mov_cr_r32 => true
  | C_Mov_cr_r64, C_Mov_cr_r64 => true
  | C_Mov_dr_r32, C_Mov_dr_r32 => true
  | C_Mov_dr_r64, C_Mov_dr_r64 => true
  | C_Mov_r32_tr, C_Mov_r32_tr => true
  | C_Mov_tr_r32, C_Mov_tr_r32 => true
  | C_Movd_mm_rm32, C_Movd_mm_rm32 => true
  | C_Movd_xmm_rm32, C_Movd_xmm_rm32 => true
  | C_Movd_rm32_mm, C_Movd_rm32_mm => true
  | C_Movd_rm32_xmm, C_Movd_rm32_xmm => true
  | C_Movsxd_r64_rm32, C_Movsxd_r64_rm32 => true
  | C_Movups_xmm_xmmm128, C_Movups_xmm_xmmm128 => true
  | C_Movups_xmmm128_xmm, C_Movups_xmmm128_xmm => true
  | C_Movzx_r16_rm8, C_Movzx_r16_rm8 => true
  | C_Movzx_r32_rm8, C_Movzx_r32_rm8 => true
  | C_Movzx_r64_rm8, C_Movzx_r64_rm8 => true
  | C_Movzx_r32_rm16, C_Movzx_r32_rm16 => true
  | C_Movzx_r64_rm16, C_Movzx_r64_rm16 => true
  | C_Mul_rm8, C_Mul_rm8 => true
  | C_Mul_rm16, C_Mul_rm16 => true
  | C_Mul_rm32, C_Mul_rm32 => true
  | C_Mul_rm64, C_Mul_rm64 => true
  | C_Neg_rm8, C_Neg_rm8 => true
  | C_Neg_rm16, C_Neg_rm16 => true
  | C_Neg_rm32, C_Neg_rm32 => true
  | C_Neg_rm64, C_Neg_rm64 => true
  | C_Nopw, C_Nopw => true
  | C_Nopd, C_Nopd => true
  | C_Nopq, C_Nopq => true
  | C_Nop_rm16, C_Nop_rm16 => true
  | C_Nop_rm32, C_Nop_rm32 => true
  | C_Nop_rm64, C_Nop_rm64 => true
  | C_Not_rm8, C_Not_rm8 => true
  | C_Not_rm16, C_Not_rm16 => true
  | C_Not_rm32, C_Not_rm32 => true
  | C_Not_rm64, C_Not_rm64 => true
  | C_Pop_r16, C_Pop_r16 => true
  | C_Pop_r32, C_Pop_r32 => true
  | C_Pop_r64, C_Pop_r64 => true
  | C_Pop_rm16, C_Pop_rm16 => true
  | C_Pop_rm32, C_Pop_rm32 => true
  | C_Pop_rm64, C_Pop_rm64 => true
  | C_Push_r16, C_Push_r16 => true
  | C_Push_r32, C_Push_r32 => true
  | C_Push_r64, C_Push_r64 => true
  | C_Push_imm16, C_Push_imm16 => true
  | C_Push_rm16, C_Push_rm16 => true
  | C_Push_rm32, C_Push_rm32 => true
  | C_Push_rm64, C_Push_rm64 => true
  | C_Pushq_imm8, C_Pushq_imm8 => true
  | C_Pushq_imm32, C_Pushq_imm32 => true
  | C_Retnw_imm16, C_Retnw_imm16 => true
  | C_Retnd_imm16, C_Retnd_imm16 => true
  | C_Retnq_imm16, C_Retnq_imm16 => true
  | C_Retnw, C_Retnw => true
  | C_Retnd, C_Retnd => true
  | C_Retnq, C_Retnq => true
  | C_Retfw_imm16, C_Retfw_imm16 => true
  | C_Retfd_imm16, C_Retfd_imm16 => true
  | C_Retfq_imm16, C_Retfq_imm16 => true
  | C_Retfw, C_Retfw => true
  | C_Retfd, C_Retfd => true
  | C_Retfq, C_Retfq => true
  | C_Setb_rm8, C_Setb_rm8 => true
  | C_Sete_rm8, C_Sete_rm8 => true
  | C_Setne_rm8, C_Setne_rm8 => true
  | C_Shl_rm8_imm8, C_Shl_rm8_imm8 => true
  | C_Shl_rm16_imm8, C_Shl_rm16_imm8 => true
  | C_Shl_rm32_imm8, C_Shl_rm32_imm8 => true
  | C_Shl_rm64_imm8, C_Shl_rm64_imm8 => true
  | C_Shl_rm8_1, C_Shl_rm8_1 => true
  | C_Shl_rm16_1, C_Shl_rm16_1 => true
  | C_Shl_rm32_1, C_Shl_rm32_1 => true
  | C_Shl_rm64_1, C_Shl_rm64_1 => true
  | C_Shl_rm8_CL, C_Shl_rm8_CL => true
  | C_Shl_rm16_CL, C_Shl_rm16_CL => true
  | C_Shl_rm32_CL, C_Shl_rm32_CL => true
  | C_Shl_rm64_CL, C_Shl_rm64_CL => true
  | C_Shr_rm8_imm8, C_Shr_rm8_imm8 => true
  | C_Shr_rm16_imm8, C_Shr_rm16_imm8 => true
  | C_Shr_rm32_imm8, C_Shr_rm32_imm8 => true
  | C_Shr_rm64_imm8, C_Shr_rm64_imm8 => true
  | C_Shr_rm8_1, C_Shr_rm8_1 => true
  | C_Shr_rm16_1, C_Shr_rm16_1 => true
  | C_Shr_rm32_1, C_Shr_rm32_1 => true
  | C_Shr_rm64_1, C_Shr_rm64_1 => true
  | C_Shr_rm8_CL, C_Shr_rm8_CL => true
  | C_Shr_rm16_CL, C_Shr_rm16_CL => true
  | C_Shr_rm32_CL, C_Shr_rm32_CL => true
  | C_Shr_rm64_CL, C_Shr_rm64_CL => true
  | C_Sub_rm8_r8, C_Sub_rm8_r8 => true
  | C_Sub_rm16_r16, C_Sub_rm16_r16 => true
  | C_Sub_rm32_r32, C_Sub_rm32_r32 => true
  | C_Sub_rm64_r64, C_Sub_rm64_r64 => true
  | C_Sub_r8_rm8, C_Sub_r8_rm8 => true
  | C_Sub_r16_rm16, C_Sub_r16_rm16 => true
  | C_Sub_r32_rm32, C_Sub_r32_rm32 => true
  | C_Sub_r64_rm64, C_Sub_r64_rm64 => true
  | C_Sub_AL_imm8, C_Sub_AL_imm8 => true
  | C_Sub_AX_imm16, C_Sub_AX_imm16 => true
  | C_Sub_EAX_imm32, C_Sub_EAX_imm32 => true
  | C_Sub_RAX_imm32, C_Sub_RAX_imm32 => true
  | C_Sub_rm8_imm8, C_Sub_rm8_imm8 => true
  | C_Sub_rm16_imm16, C_Sub_rm16_imm16 => true
  | C_Sub_rm32_imm32, C_Sub_rm32_imm32 => true
  | C_Sub_rm64_imm32, C_Sub_rm64_imm32 => true
  | C_Sub_rm8_imm8_82, C_Sub_rm8_imm8_82 => true
  | C_Sub_rm16_imm8, C_Sub_rm16_imm8 => true
  | C_Sub_rm32_imm8, C_Sub_rm32_imm8 => true
  | C_Sub_rm64_imm8, C_Sub_rm64_imm8 => true
  | C_Syscall, C_Syscall => true
  | C_Test_rm8_r8, C_Test_rm8_r8 => true
  | C_Test_rm16_r16, C_Test_rm16_r16 => true
  | C_Test_rm32_r32, C_Test_rm32_r32 => true
  | C_Test_rm64_r64, C_Test_rm64_r64 => true
  | C_Test_AL_imm8, C_Test_AL_imm8 => true
  | C_Test_AX_imm16, C_Test_AX_imm16 => true
  | C_Test_EAX_imm32, C_Test_EAX_imm32 => true
  | C_Test_RAX_imm32, C_Test_RAX_imm32 => true
  | C_Test_rm8_imm8, C_Test_rm8_imm8 => true
  | C_Test_rm16_imm16, C_Test_rm16_imm16 => true
  | C_Test_rm32_imm32, C_Test_rm32_imm32 => true
  | C_Test_rm64_imm32, C_Test_rm64_imm32 => true
  | C_Test_rm8_imm8_F6r1, C_Test_rm8_imm8_F6r1 => true
  | C_Test_rm16_imm16_F7r1, C_Test_rm16_imm16_F7r1 => true
  | C_Test_rm32_imm32_F7r1, C_Test_rm32_imm32_F7r1 => true
  | C_Test_rm64_imm32_F7r1, C_Test_rm64_imm32_F7r1 => true
  | C_Xor_rm8_r8, C_Xor_rm8_r8 => true
  | C_Xor_rm16_r16, C_Xor_rm16_r16 => true
  | C_Xor_rm32_r32, C_Xor_rm32_r32 => true
  | C_Xor_rm64_r64, C_Xor_rm64_r64 => true
  | C_Xor_r8_rm8, C_Xor_r8_rm8 => true
  | C_Xor_r16_rm16, C_Xor_r16_rm16 => true
  | C_Xor_r32_rm32, C_Xor_r32_rm32 => true
  | C_Xor_r64_rm64, C_Xor_r64_rm64 => true
  | C_Xor_AL_imm8, C_Xor_AL_imm8 => true
  | C_Xor_AX_imm16, C_Xor_AX_imm16 => true
  | C_Xor_EAX_imm32, C_Xor_EAX_imm32 => true
  | C_Xor_RAX_imm32, C_Xor_RAX_imm32 => true
  | C_Xor_rm8_imm8, C_Xor_rm8_imm8 => true
  | C_Xor_rm16_imm16, C_Xor_rm16_imm16 => true
  | C_Xor_rm32_imm32, C_Xor_rm32_imm32 => true
  | C_Xor_rm64_imm32, C_Xor_rm64_imm32 => true
  | C_Xor_rm8_imm8_82, C_Xor_rm8_imm8_82 => true
  | C_Xor_rm16_imm8, C_Xor_rm16_imm8 => true
  | C_Xor_rm32_imm8, C_Xor_rm32_imm8 => true
  | C_Xor_rm64_imm8, C_Xor_rm64_imm8 => true
  | C_Xorps_xmm_xmmm128, C_Xorps_xmm_xmmm128 => true
  | C_other n, C_other m => Z.eqb n m
  | _, _ => false
  end.

Definition mnemonic_eqb (a b : mnemonic) : bool :=
  match a, b with
  | M_Adc, M_Adc => true
  | M_Add, M_Add => true
  | M_And, M_And => true
  | M_Call, M_Call => true
  | M_Cdq, M_Cdq => true
  | M_Cdqe, M_Cdqe => true
  | M_Cld, M_Cld => true
  | M_Cmovae, M_Cmovae => true
  | M_Cmove, M_Cmove => true
  | M_Cmovne, M_Cmovne => true
  | M_Cmp, M_Cmp => true
  | M_Cpuid, M_Cpuid => true
  | M_Cqo, M_Cqo => true
  | M_Cwd, M_Cwd => true
  | M_Dec, M_Dec => true
  | M_Div, M_Div => true
  | M_Endbr64, M_Endbr64 => true
  | M_Idiv, M_Idiv => true
  | M_Imul, M_Imul => true
  | M_Inc, M_Inc => true
  | M_Int, M_Int => true
  | M_Int1, M_Int1 => true
  | M_Ja, M_Ja => true
  | M_Jae, M_Jae => true
  | M_Jb, M_Jb => true
  | M_Jbe, M_Jbe => true
  | M_Je, M_Je => true
  | M_Jecxz, M_Jecxz => true
  | M_Jg, M_Jg => true
  | M_Jge, M_Jge => true
  | M_Jl, M_Jl => true
  | M_Jle, M_Jle => true
  | M_Jmp, M_Jmp => true
  | M_Jne, M_Jne => true
  | M_Jno, M_Jno => true
  | M_Jnp, M_Jnp => true
  | M_Jns, M_Jns => true
  | M_Jo, M_Jo => true
  | M_Jp, M_Jp => true
  | M_Jrcxz, M_Jrcxz => true
  | M_Js, M_Js => true
  | M_Lea, M_Lea => true
  | M_Mov, M_Mov => true
  | M_Movd, M_Movd => true
  | M_Movsxd, M_Movsxd => true
  | M_Movups, M_Movups => true
  | M_Movzx, M_Movzx => true
  | M_Mul, M_Mul => true
  | M_Neg, M_Neg => true
  | M_Nop, M_Nop => true
  | M_Not, M_Not => true
  | M_Pop, M_Pop => true
  | M_Push, M_Push => true
  | M_Ret, M_Ret => true
  | M_Setb, M_Setb => true
  | M_Sete, M_Sete => true
  | M_Setne, M_Setne => true
  | M_Shl, M_Shl => true
  | M_Shr, M_Shr => true
  | M_Sub, M_Sub => true
  | M_Syscall, M_Syscall => true
  | M_Test, M_Test => true
  | M_Xor, M_Xor => true
  | M_Xorps, M_Xorps => true
  | M_Int3, M_Int3 => true
  | M_other n, M_other m => Z.eqb n m
  | _, _ => false
  end.
