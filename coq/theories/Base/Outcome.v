(* Outcomes of Rust computations: normal value, Err(AxError) by class, panic by
   class, or out of fuel (only in the loops of the hand models). *)
From Coq Require Import ZArith Bool List.
Local Open Scope Z_scope.

Inductive errclass :=
  | EMem        (* unmapped / out of area: collect_mem_error_hints *)
  | EPerm       (* permission denied *)
  | EDivZero
  | EFatal      (* fatal_error! / assert_fatal! (wasm arm) *)
  | EUnimpl     (* opcode_unimplemented! *)
  | EOperand    (* instruction_operand: unsupported operand kind / segment *)
  | EDecode
  | ELimit
  | EFinished
  | EHook
  | EFinish     (* signals_normal_finish: top-level ret *)
  | EElf
  | EOther.

Inductive panicclass :=
  | PArith       (* overflow-checks: + - * << >> neg *)
  | PDiv         (* / % by zero or MIN / -1 *)
  | PAssert      (* assert!, assert_eq!, assert_ne!, debug_assert* *)
  | PExplicit    (* panic!(..), unreachable!() *)
  | PUnwrap      (* Option::unwrap / expect on None, Result::expect on Err *)
  | PRegConv     (* From<Register>/From<SupportedRegister>/From<Operand> *)
  | PIndex       (* slice / index out of bounds *)
  | PCapacity    (* capacity overflow *)
  | PAlloc.      (* allocation failure abort *)

Inductive outcome (A : Type) :=
  | Ok (a : A)
  | Err (e : errclass)
  | Panic (p : panicclass)
  | Fuel.
Arguments Ok {A} a.
Arguments Err {A} e.
Arguments Panic {A} p.
Arguments Fuel {A}.

(* pure-but-partial computations (closures, conversions) *)
Definition obind {A B} (x : outcome A) (f : A -> outcome B) : outcome B :=
  match x with
  | Ok a => f a
  | Err e => Err e
  | Panic p => Panic p
  | Fuel => Fuel
  end.

Definition omap {A B} (f : A -> B) (x : outcome A) : outcome B :=
  obind x (fun a => Ok (f a)).

Definition is_ok {A} (x : outcome A) : bool :=
  match x with Ok _ => true | _ => false end.
Definition is_err {A} (x : outcome A) : bool :=
  match x with Err _ => true | _ => false end.
Definition is_panic {A} (x : outcome A) : bool :=
  match x with Panic _ => true | _ => false end.

(* build configuration: debug_assertions, overflow-checks *)
Record cfg := { dbg : bool; ovf : bool }.

Declare Scope out_scope.
Delimit Scope out_scope with out.
Notation "x <~ e ;; k" := (obind e (fun x => k))
  (at level 61, e at next level, right associativity) : out_scope.
Notation "' p <~ e ;; k" := (obind e (fun p => k))
  (at level 61, p pattern, e at next level, right associativity) : out_scope.

Section StateMonad.
  Variable S : Type.
  Definition M (A : Type) := S -> outcome A * S.
  Definition ret {A} (a : A) : M A := fun s => (Ok a, s).
  Definition bind {A B} (m : M A) (f : A -> M B) : M B :=
    fun s => match m s with
             | (Ok a, s') => f a s'
             | (Err e, s') => (Err e, s')
             | (Panic p, s') => (Panic p, s')
             | (Fuel, s') => (Fuel, s')
             end.
  Definition lift {A} (x : outcome A) : M A := fun s => (x, s).
  Definition get : M S := fun s => (Ok s, s).
  Definition put (s : S) : M unit := fun _ => (Ok tt, s).
  Definition fail {A} (e : errclass) : M A := fun s => (Err e, s).
  Definition panic {A} (p : panicclass) : M A := fun s => (Panic p, s).
End StateMonad.
Arguments ret {S A} a.
Arguments bind {S A B} m f.
Arguments lift {S A} x.
Arguments get {S}.
Arguments put {S} s.
Arguments fail {S A} e.
Arguments panic {S A} p.

Declare Scope m_scope.
Delimit Scope m_scope with M.
Notation "x <- e ;; k" := (bind e (fun x => k))
  (at level 61, e at next level, right associativity) : m_scope.
Notation "' p <- e ;; k" := (bind e (fun p => k))
  (at level 61, p pattern, e at next level, right associativity) : m_scope.
Notation "e ;;; k" := (bind e (fun _ => k))
  (at level 61, right associativity) : m_scope.
