(* Machine words as bit patterns in Z, with an explicit static integer type.
   Every value of Rust type [t] is represented by its two's-complement bit
   pattern, a Z in [0, 2^(width t)).  Signedness only matters for the few
   operations that look at the numeric value (comparison, >>, /, %, casts,
   overflow checks).  Definitions only; lemmas live in Proofs/. *)
From Coq Require Import ZArith Bool List.
Local Open Scope Z_scope.

Inductive ity :=
  | U8 | U16 | U32 | U64 | U128 | USIZE
  | I8 | I16 | I32 | I64 | I128 | ISIZE.

Definition width (t : ity) : Z :=
  match t with
  | U8 | I8 => 8 | U16 | I16 => 16 | U32 | I32 => 32
  | U64 | I64 | USIZE | ISIZE => 64 | U128 | I128 => 128
  end.

Definition signed (t : ity) : bool :=
  match t with
  | I8 | I16 | I32 | I64 | I128 | ISIZE => true
  | _ => false
  end.

Definition modulus (t : ity) : Z := 2 ^ width t.

(* bit pattern -> numeric value *)
Definition sem (t : ity) (x : Z) : Z :=
  if signed t then (if x <? 2 ^ (width t - 1) then x else x - modulus t) else x.

(* numeric value -> bit pattern (wraps) *)
Definition enc (t : ity) (v : Z) : Z := v mod modulus t.

Definition in_range (t : ity) (v : Z) : bool :=
  if signed t then (- 2 ^ (width t - 1) <=? v) && (v <? 2 ^ (width t - 1))
  else (0 <=? v) && (v <? modulus t).

(* `x as t2` where x : t1 *)
Definition cast (t1 t2 : ity) (x : Z) : Z := enc t2 (sem t1 x).

Definition of_bool (b : bool) : Z := if b then 1 else 0.

(* wrapping arithmetic *)
Definition wadd (t : ity) (a b : Z) : Z := enc t (a + b).
Definition wsub (t : ity) (a b : Z) : Z := enc t (a - b).
Definition wmul (t : ity) (a b : Z) : Z := enc t (a * b).
Definition wneg (t : ity) (a : Z) : Z := enc t (- a).
Definition wnot (t : ity) (a : Z) : Z := modulus t - 1 - a.

(* shifts: [n] is the (unsigned reading of the) shift amount *)
Definition shl_raw (t : ity) (a n : Z) : Z := enc t (a * 2 ^ n).
Definition shr_raw (t : ity) (a n : Z) : Z := enc t (sem t a / 2 ^ n).
Definition wshl (t : ity) (a n : Z) : Z := shl_raw t a (n mod width t).
Definition wshr (t : ity) (a n : Z) : Z := shr_raw t a (n mod width t).
Definition checked_shl (t : ity) (a n : Z) : option Z :=
  if n <? width t then Some (shl_raw t a n) else None.
Definition checked_shr (t : ity) (a n : Z) : option Z :=
  if n <? width t then Some (shr_raw t a n) else None.

(* overflowing_*: (wrapped result, overflowed?) *)
Definition oadd (t : ity) (a b : Z) : Z * bool :=
  let v := sem t a + sem t b in (enc t v, negb (in_range t v)).
Definition osub (t : ity) (a b : Z) : Z * bool :=
  let v := sem t a - sem t b in (enc t v, negb (in_range t v)).
Definition omul (t : ity) (a b : Z) : Z * bool :=
  let v := sem t a * sem t b in (enc t v, negb (in_range t v)).

(* comparisons on numeric values *)
Definition lt (t : ity) (a b : Z) : bool := sem t a <? sem t b.
Definition le (t : ity) (a b : Z) : bool := sem t a <=? sem t b.

(* division (truncating); callers check for zero / overflow *)
Definition wdiv (t : ity) (a b : Z) : Z := enc t (Z.quot (sem t a) (sem t b)).
Definition wrem (t : ity) (a b : Z) : Z := enc t (Z.rem (sem t a) (sem t b)).

(* little-endian bytes *)
Fixpoint le_bytes (n : nat) (x : Z) : list Z :=
  match n with
  | O => nil
  | S n' => (x mod 256) :: le_bytes n' (x / 256)
  end.

Fixpoint of_le_bytes (l : list Z) : Z :=
  match l with
  | nil => 0
  | b :: l' => b + 256 * of_le_bytes l'
  end.

Definition testbit (x k : Z) : bool := Z.testbit x k.
