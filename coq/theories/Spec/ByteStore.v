(* Abstract view of guest memory (C08-C10): which byte lives at an address, which
   area (start, length, permissions) owns it, and the layout invariant. *)
From Coq Require Import ZArith Bool List Lia.
From AxV Require Import Bits Outcome Codes Iced State Rt Mem.
Local Open Scope Z_scope.
Import ListNotations.

(* the area that owns an address: first match in Vec order (under the invariant: the only one) *)
Definition owner (m : list area) (a : Z) : option area := find_area m a.

Definition byte_at (m : list area) (a : Z) : option Z :=
  match owner m a with
  | Some ar => nth_error (a_data ar) (Z.to_nat (a - a_start ar))
  | None => None
  end.

Definition area_ok (a : area) : Prop :=
  0 <= a_start a /\ 0 <= a_len a /\ a_start a + a_len a < 2 ^ 64 /\
  zlen (a_data a) = a_len a /\ Forall (fun b => 0 <= b < 256) (a_data a).

(* two areas ([a] earlier in the Vec than [b]) do not collide: disjoint as intervals
   (so a zero-length area is never strictly inside another), and if they start at the
   same address the earlier one is empty (start addresses identify the area that
   mem_prot / mem_resize_section act on: the last one with that start) *)
Definition disjoint (a b : area) : Prop :=
  (a_start a + a_len a <= a_start b \/ a_start b + a_len b <= a_start a) /\
  (a_start a = a_start b -> a_len a = 0).

Fixpoint pairwise {A} (R : A -> A -> Prop) (l : list A) : Prop :=
  match l with
  | nil => True
  | x :: l' => Forall (R x) l' /\ pairwise R l'
  end.

Definition Inv (m : list area) : Prop := Forall area_ok m /\ pairwise disjoint m.

(* layout = everything about the areas except their contents *)
Definition shape (a : area) : Z * Z * Z := (a_start a, a_len a, a_access a).
Definition layout (m : list area) : list (Z * Z * Z) := map shape m.

(* the condition under which an n-byte access at address a is inside one area with permission p *)
Definition accessible (m : list area) (a n p : Z) : Prop :=
  exists ar, owner m a = Some ar /\ a + n <= a_start ar + a_len ar /\ Z.land (a_access ar) p <> 0.
