(* C18 specification side: what the control-flow log must contain.
   An instruction is a control transfer when the ISA specification (Spec/ISA.v) says so:
   [taken] evaluates the branch condition of the instruction's semantic class on the state
   before it executes; [variant_of] classifies it.  The log is described by [expand]
   (Proofs/TraceP.v): every entry stands for [count] events. *)
From Coq Require Import ZArith Bool List.
From AxV Require Import Bits Outcome Codes Iced State Rt Mem Trace RegFile ISA.
Local Open Scope Z_scope.
Import ListNotations.

Definition taken (sm : option ISA.sem) (s : mstate) : bool :=
  match sm with
  | Some (SJcc c) => cond c (rflags s)
  | Some SJrcxz => regs s RCX =? 0
  | Some SJecxz => rf_read (regs s) ECX =? 0
  | Some SJmpRel | Some SJmpRm | Some SCallRel | Some SCallRm | Some SRet => true
  | _ => false
  end.

Definition variant_of (sm : option ISA.sem) : tvariant :=
  match sm with
  | Some SCallRel | Some SCallRm => TCall
  | Some SRet => TReturn
  | _ => TJump
  end.

(* the shadow call stack: targets of the calls not yet returned from, innermost last *)
Definition cs_step (v : tvariant) (tgt : Z) (cs : list Z) : list Z :=
  match v with TCall => cs ++ [tgt] | TReturn => removelast cs | TJump => cs end.
