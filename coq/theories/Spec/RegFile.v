(* Abstract specification of the x86-64 general-purpose register file as seen
   through 8/16/32/64-bit views (C07): 16 64-bit cells; a view is a (cell, low
   bit, width) triple; 8/16-bit writes replace their field, 32-bit writes
   zero-extend, 64-bit writes replace the cell. *)
From Coq Require Import ZArith Bool List.
From AxV Require Import Bits Outcome Codes Iced State BitsP.
Local Open Scope Z_scope.

Definition view_width (r : reg) : Z :=
  if is_gpr8 r then 8 else if is_gpr16 r then 16 else if is_gpr32 r then 32
  else if is_gpr64 r then 64 else 0.

Definition view_lo (r : reg) : Z := if is_high8 r then 8 else 0.

Definition rf_read (f : reg -> Z) (r : reg) : Z :=
  match to_qword r with
  | Some q => (f q / 2 ^ view_lo r) mod 2 ^ view_width r
  | None => 0
  end.

Definition rf_write (f : reg -> Z) (r : reg) (v : Z) : reg -> Z :=
  match to_qword r with
  | Some q =>
      upd f q (if (view_width r =? 32) || (view_width r =? 64) then v
               else set_field (f q) v (view_lo r) (view_width r))
  | None => f
  end.

(* ---- histories of register-API calls and their specification ---- *)
Inductive rop := RW (bits : Z) (r : reg) (v : Z) | RR (bits : Z) (r : reg).

Definition rop_wf (o : rop) : Prop :=
  match o with
  | RW bits r v => In r all_views /\ In bits (8 :: 16 :: 32 :: 64 :: nil) /\ 0 <= v < 2 ^ 64
  | RR bits r => In r all_views /\ In bits (8 :: 16 :: 32 :: 64 :: nil)
  end.


Definition spec_rop (o : rop) (f : reg -> Z) : outcome Z * (reg -> Z) :=
  match o with
  | RW bits r v =>
      if (view_width r =? bits) && (v <? 2 ^ bits) then (Ok 0, rf_write f r v) else (Err EFatal, f)
  | RR bits r =>
      if view_width r =? bits then (Ok (rf_read f r), f) else (Err EFatal, f)
  end.


Fixpoint run_spec (ops : list rop) (f : reg -> Z) : list (outcome Z) * (reg -> Z) :=
  match ops with
  | nil => (nil, f)
  | o :: ops' => let '(r, f1) := spec_rop o f in
                 let '(rs, f2) := run_spec ops' f1 in (r :: rs, f2)
  end.

