(* The specification's reading of each implemented iced Code: which operation at which width.
   Generated once by a script from the code names (Intel mnemonic + operand signature),
   then committed and reviewed as part of the specification.  [pinned_forms] is the list of
   forms the pinned tree executes: the set must not shrink (C01). *)
From Coq Require Import ZArith List.
From AxV Require Import Codes ISA.
Local Open Scope Z_scope.

Definition code_sem (c : code) : option sem :=
  match c with
  | C_Adc_rm8_r8 => Some (SAlu ADC 8)
  | C_Adc_rm16_r16 => Some (SAlu ADC 16)
  | C_Adc_rm32_r32 => Some (SAlu ADC 32)
  | C_Adc_rm64_r64 => Some (SAlu ADC 64)
  | C_Adc_r8_rm8 => Some (SAlu ADC 8)
  | C_Adc_r16_rm16 => Some (SAlu ADC 16)
  | C_Adc_r32_rm32 => Some (SAlu ADC 32)
  | C_Adc_r64_rm64 => Some (SAlu ADC 64)
  | C_Adc_AL_imm8 => Some (SAlu ADC 8)
  | C_Adc_AX_imm16 => Some (SAlu ADC 16)
  | C_Adc_EAX_imm32 => Some (SAlu ADC 32)
  | C_Adc_RAX_imm32 => Some (SAlu ADC 64)
  | C_Adc_rm8_imm8 => Some (SAlu ADC 8)
  | C_Adc_rm16_imm16 => Some (SAlu ADC 16)
  | C_Adc_rm32_imm32 => Some (SAlu ADC 32)
  | C_Adc_rm64_imm32 => Some (SAlu ADC 64)
  | C_Adc_rm8_imm8_82 => Some (SAlu ADC 8)
  | C_Adc_rm16_imm8 => Some (SAlu ADC 16)
  | C_Adc_rm32_imm8 => Some (SAlu ADC 32)
  | C_Adc_rm64_imm8 => Some (SAlu ADC 64)
  | C_Add_rm8_r8 => Some (SAlu ADD 8)
  | C_Add_rm16_r16 => Some (SAlu ADD 16)
  | C_Add_rm32_r32 => Some (SAlu ADD 32)
  | C_Add_rm64_r64 => Some (SAlu ADD 64)
  | C_Add_r8_rm8 => Some (SAlu ADD 8)
  | C_Add_r16_rm16 => Some (SAlu ADD 16)
  | C_Add_r32_rm32 => Some (SAlu ADD 32)
  | C_Add_r64_rm64 => Some (SAlu ADD 64)
  | C_Add_AL_imm8 => Some (SAlu ADD 8)
  | C_Add_AX_imm16 => Some (SAlu ADD 16)
  | C_Add_EAX_imm32 => Some (SAlu ADD 32)
  | C_Add_RAX_imm32 => Some (SAlu ADD 64)
  | C_Add_rm8_imm8 => Some (SAlu ADD 8)
  | C_Add_rm16_imm16 => Some (SAlu ADD 16)
  | C_Add_rm32_imm32 => Some (SAlu ADD 32)
  | C_Add_rm64_imm32 => Some (SAlu ADD 64)
  | C_Add_rm8_imm8_82 => Some (SAlu ADD 8)
  | C_Add_rm16_imm8 => Some (SAlu ADD 16)
  | C_Add_rm32_imm8 => Some (SAlu ADD 32)
  | C_Add_rm64_imm8 => Some (SAlu ADD 64)
  | C_And_rm8_r8 => Some (SAlu AND 8)
  | C_And_rm16_r16 => Some (SAlu AND 16)
  | C_And_rm32_r32 => Some (SAlu AND 32)
  | C_And_rm64_r64 => Some (SAlu AND 64)
  | C_And_r8_rm8 => Some (SAlu AND 8)
  | C_And_r16_rm16 => Some (SAlu AND 16)
  | C_And_r32_rm32 => Some (SAlu AND 32)
  | C_And_r64_rm64 => Some (SAlu AND 64)
  | C_And_AL_imm8 => Some (SAlu AND 8)
  | C_And_AX_imm16 => Some (SAlu AND 16)
  | C_And_EAX_imm32 => Some (SAlu AND 32)
  | C_And_RAX_imm32 => Some (SAlu AND 64)
  | C_And_rm8_imm8 => Some (SAlu AND 8)
  | C_And_rm16_imm16 => Some (SAlu AND 16)
  | C_And_rm32_imm32 => Some (SAlu AND 32)
  | C_And_rm64_imm32 => Some (SAlu AND 64)
  | C_And_rm8_imm8_82 => Some (SAlu AND 8)
  | C_And_rm16_imm8 => Some (SAlu AND 16)
  | C_And_rm32_imm8 => Some (SAlu AND 32)
  | C_And_rm64_imm8 => Some (SAlu AND 64)
  | C_Call_rel32_64 => Some (SCallRel)
  | C_Call_rm64 => Some (SCallRm)
  | C_Cdq => Some (SCwd 32)
  | C_Cdqe => Some (SCdqe)
  | C_Cld => Some (SCld)
  | C_Cmovae_r16_rm16 => Some (SCmov CC_AE 16)
  | C_Cmovae_r32_rm32 => Some (SCmov CC_AE 32)
  | C_Cmovae_r64_rm64 => Some (SCmov CC_AE 64)
  | C_Cmove_r16_rm16 => Some (SCmov CC_E 16)
  | C_Cmove_r32_rm32 => Some (SCmov CC_E 32)
  | C_Cmove_r64_rm64 => Some (SCmov CC_E 64)
  | C_Cmovne_r16_rm16 => Some (SCmov CC_NE 16)
  | C_Cmovne_r32_rm32 => Some (SCmov CC_NE 32)
  | C_Cmovne_r64_rm64 => Some (SCmov CC_NE 64)
  | C_Cmp_rm8_r8 => Some (SAlu CMP 8)
  | C_Cmp_rm16_r16 => Some (SAlu CMP 16)
  | C_Cmp_rm32_r32 => Some (SAlu CMP 32)
  | C_Cmp_rm64_r64 => Some (SAlu CMP 64)
  | C_Cmp_r8_rm8 => Some (SAlu CMP 8)
  | C_Cmp_r16_rm16 => Some (SAlu CMP 16)
  | C_Cmp_r32_rm32 => Some (SAlu CMP 32)
  | C_Cmp_r64_rm64 => Some (SAlu CMP 64)
  | C_Cmp_AL_imm8 => Some (SAlu CMP 8)
  | C_Cmp_AX_imm16 => Some (SAlu CMP 16)
  | C_Cmp_EAX_imm32 => Some (SAlu CMP 32)
  | C_Cmp_RAX_imm32 => Some (SAlu CMP 64)
  | C_Cmp_rm8_imm8 => Some (SAlu CMP 8)
  | C_Cmp_rm16_imm16 => Some (SAlu CMP 16)
  | C_Cmp_rm32_imm32 => Some (SAlu CMP 32)
  | C_Cmp_rm64_imm32 => Some (SAlu CMP 64)
  | C_Cmp_rm8_imm8_82 => Some (SAlu CMP 8)
  | C_Cmp_rm16_imm8 => Some (SAlu CMP 16)
  | C_Cmp_rm32_imm8 => Some (SAlu CMP 32)
  | C_Cmp_rm64_imm8 => Some (SAlu CMP 64)
  | C_Cpuid => Some (SCpuid)
  | C_Cqo => Some (SCwd 64)
  | C_Cwd => Some (SCwd 16)
  | C_Dec_rm8 => Some (SUn DEC 8)
  | C_Dec_rm16 => Some (SUn DEC 16)
  | C_Dec_rm32 => Some (SUn DEC 32)
  | C_Dec_rm64 => Some (SUn DEC 64)
  | C_Div_rm8 => Some (SDiv 8)
  | C_Div_rm16 => Some (SDiv 16)
  | C_Div_rm32 => Some (SDiv 32)
  | C_Div_rm64 => Some (SDiv 64)
  | C_Endbr64 => Some (SNop)
  | C_Idiv_rm8 => Some (SIdiv 8)
  | C_Idiv_rm16 => Some (SIdiv 16)
  | C_Idiv_rm32 => Some (SIdiv 32)
  | C_Idiv_rm64 => Some (SIdiv 64)
  | C_Imul_r16_rm16_imm16 => Some (SImul3 16)
  | C_Imul_r32_rm32_imm32 => Some (SImul3 32)
  | C_Imul_r64_rm64_imm32 => Some (SImul3 64)
  | C_Imul_r16_rm16_imm8 => Some (SImul3 16)
  | C_Imul_r32_rm32_imm8 => Some (SImul3 32)
  | C_Imul_r64_rm64_imm8 => Some (SImul3 64)
  | C_Imul_rm8 => Some (SImul1 8)
  | C_Imul_rm16 => Some (SImul1 16)
  | C_Imul_rm32 => Some (SImul1 32)
  | C_Imul_rm64 => Some (SImul1 64)
  | C_Imul_r16_rm16 => Some (SImul2 16)
  | C_Imul_r32_rm32 => Some (SImul2 32)
  | C_Imul_r64_rm64 => Some (SImul2 64)
  | C_Inc_rm8 => Some (SUn INC 8)
  | C_Inc_rm16 => Some (SUn INC 16)
  | C_Inc_rm32 => Some (SUn INC 32)
  | C_Inc_rm64 => Some (SUn INC 64)
  | C_Int_imm8 => Some (SOs)
  | C_Int1 => Some (SOs)
  | C_Int3 => Some (SOs)
  | C_Ja_rel8_64 => Some (SJcc CC_A)
  | C_Ja_rel32_64 => Some (SJcc CC_A)
  | C_Jae_rel8_64 => Some (SJcc CC_AE)
  | C_Jae_rel32_64 => Some (SJcc CC_AE)
  | C_Jb_rel8_64 => Some (SJcc CC_B)
  | C_Jb_rel32_64 => Some (SJcc CC_B)
  | C_Jbe_rel8_64 => Some (SJcc CC_BE)
  | C_Jbe_rel32_64 => Some (SJcc CC_BE)
  | C_Je_rel8_64 => Some (SJcc CC_E)
  | C_Je_rel32_64 => Some (SJcc CC_E)
  | C_Jecxz_rel8_64 => Some (SJecxz)
  | C_Jg_rel8_64 => Some (SJcc CC_G)
  | C_Jg_rel32_64 => Some (SJcc CC_G)
  | C_Jge_rel8_64 => Some (SJcc CC_GE)
  | C_Jge_rel32_64 => Some (SJcc CC_GE)
  | C_Jl_rel8_64 => Some (SJcc CC_L)
  | C_Jl_rel32_64 => Some (SJcc CC_L)
  | C_Jle_rel8_64 => Some (SJcc CC_LE)
  | C_Jle_rel32_64 => Some (SJcc CC_LE)
  | C_Jmp_rel32_64 => Some (SJmpRel)
  | C_Jmp_rel8_16 => Some (SJmpRel)
  | C_Jmp_rel8_64 => Some (SJmpRel)
  | C_Jmp_rm64 => Some (SJmpRm)
  | C_Jne_rel8_64 => Some (SJcc CC_NE)
  | C_Jne_rel32_64 => Some (SJcc CC_NE)
  | C_Jno_rel8_64 => Some (SJcc CC_NO)
  | C_Jno_rel32_64 => Some (SJcc CC_NO)
  | C_Jnp_rel8_64 => Some (SJcc CC_NP)
  | C_Jnp_rel32_64 => Some (SJcc CC_NP)
  | C_Jns_rel8_64 => Some (SJcc CC_NS)
  | C_Jns_rel32_64 => Some (SJcc CC_NS)
  | C_Jo_rel8_64 => Some (SJcc CC_O)
  | C_Jo_rel32_64 => Some (SJcc CC_O)
  | C_Jp_rel8_64 => Some (SJcc CC_P)
  | C_Jp_rel32_64 => Some (SJcc CC_P)
  | C_Jrcxz_rel8_64 => Some (SJrcxz)
  | C_Js_rel8_64 => Some (SJcc CC_S)
  | C_Js_rel32_64 => Some (SJcc CC_S)
  | C_Lea_r16_m => Some (SLea 16)
  | C_Lea_r32_m => Some (SLea 32)
  | C_Lea_r64_m => Some (SLea 64)
  | C_Mov_rm8_r8 => Some (SMov 8)
  | C_Mov_rm16_r16 => Some (SMov 16)
  | C_Mov_rm32_r32 => Some (SMov 32)
  | C_Mov_rm64_r64 => Some (SMov 64)
  | C_Mov_r8_rm8 => Some (SMov 8)
  | C_Mov_r16_rm16 => Some (SMov 16)
  | C_Mov_r32_rm32 => Some (SMov 32)
  | C_Mov_r64_rm64 => Some (SMov 64)
  | C_Mov_AL_moffs8 => Some (SMov 8)
  | C_Mov_AX_moffs16 => Some (SMov 16)
  | C_Mov_EAX_moffs32 => Some (SMov 32)
  | C_Mov_RAX_moffs64 => Some (SMov 64)
  | C_Mov_moffs8_AL => Some (SMov 8)
  | C_Mov_moffs16_AX => Some (SMov 16)
  | C_Mov_moffs32_EAX => Some (SMov 32)
  | C_Mov_moffs64_RAX => Some (SMov 64)
  | C_Mov_r8_imm8 => Some (SMov 8)
  | C_Mov_r16_imm16 => Some (SMov 16)
  | C_Mov_r32_imm32 => Some (SMov 32)
  | C_Mov_r64_imm64 => Some (SMov 64)
  | C_Mov_rm8_imm8 => Some (SMov 8)
  | C_Mov_rm16_imm16 => Some (SMov 16)
  | C_Mov_rm32_imm32 => Some (SMov 32)
  | C_Mov_rm64_imm32 => Some (SMov 64)
  | C_Movd_xmm_rm32 => Some (SMovdToXmm)
  | C_Movd_rm32_xmm => Some (SMovdFromXmm)
  | C_Movsxd_r64_rm32 => Some (SMovsxd)
  | C_Movups_xmm_xmmm128 => Some (SMovups)
  | C_Movups_xmmm128_xmm => Some (SMovups)
  | C_Movzx_r16_rm8 => Some (SMovzx 16 8)
  | C_Movzx_r32_rm8 => Some (SMovzx 32 8)
  | C_Movzx_r64_rm8 => Some (SMovzx 64 8)
  | C_Movzx_r32_rm16 => Some (SMovzx 32 16)
  | C_Movzx_r64_rm16 => Some (SMovzx 64 16)
  | C_Mul_rm8 => Some (SMul 8)
  | C_Mul_rm16 => Some (SMul 16)
  | C_Mul_rm32 => Some (SMul 32)
  | C_Mul_rm64 => Some (SMul 64)
  | C_Neg_rm8 => Some (SUn NEG 8)
  | C_Neg_rm16 => Some (SUn NEG 16)
  | C_Neg_rm32 => Some (SUn NEG 32)
  | C_Neg_rm64 => Some (SUn NEG 64)
  | C_Nopw => Some (SNop)
  | C_Nopd => Some (SNop)
  | C_Nopq => Some (SNop)
  | C_Nop_rm16 => Some (SNop)
  | C_Nop_rm32 => Some (SNop)
  | C_Nop_rm64 => Some (SNop)
  | C_Not_rm8 => Some (SUn NOT 8)
  | C_Not_rm16 => Some (SUn NOT 16)
  | C_Not_rm32 => Some (SUn NOT 32)
  | C_Not_rm64 => Some (SUn NOT 64)
  | C_Pop_r16 => Some (SPop 16)
  | C_Pop_r64 => Some (SPop 64)
  | C_Push_r16 => Some (SPush 16)
  | C_Push_r64 => Some (SPush 64)
  | C_Push_imm16 => Some (SPush 16)
  | C_Push_rm16 => Some (SPush 16)
  | C_Pushq_imm8 => Some (SPushq)
  | C_Pushq_imm32 => Some (SPushq)
  | C_Retnq => Some (SRet)
  | C_Setb_rm8 => Some (SSet CC_B)
  | C_Sete_rm8 => Some (SSet CC_E)
  | C_Setne_rm8 => Some (SSet CC_NE)
  | C_Shl_rm8_imm8 => Some (SShift true 8 CntImm)
  | C_Shl_rm16_imm8 => Some (SShift true 16 CntImm)
  | C_Shl_rm32_imm8 => Some (SShift true 32 CntImm)
  | C_Shl_rm64_imm8 => Some (SShift true 64 CntImm)
  | C_Shl_rm8_1 => Some (SShift true 8 CntOne)
  | C_Shl_rm16_1 => Some (SShift true 16 CntOne)
  | C_Shl_rm32_1 => Some (SShift true 32 CntOne)
  | C_Shl_rm64_1 => Some (SShift true 64 CntOne)
  | C_Shl_rm8_CL => Some (SShift true 8 CntCL)
  | C_Shl_rm16_CL => Some (SShift true 16 CntCL)
  | C_Shl_rm32_CL => Some (SShift true 32 CntCL)
  | C_Shl_rm64_CL => Some (SShift true 64 CntCL)
  | C_Shr_rm8_imm8 => Some (SShift false 8 CntImm)
  | C_Shr_rm16_imm8 => Some (SShift false 16 CntImm)
  | C_Shr_rm32_imm8 => Some (SShift false 32 CntImm)
  | C_Shr_rm64_imm8 => Some (SShift false 64 CntImm)
  | C_Shr_rm8_1 => Some (SShift false 8 CntOne)
  | C_Shr_rm16_1 => Some (SShift false 16 CntOne)
  | C_Shr_rm32_1 => Some (SShift false 32 CntOne)
  | C_Shr_rm64_1 => Some (SShift false 64 CntOne)
  | C_Shr_rm8_CL => Some (SShift false 8 CntCL)
  | C_Shr_rm16_CL => Some (SShift false 16 CntCL)
  | C_Shr_rm32_CL => Some (SShift false 32 CntCL)
  | C_Shr_rm64_CL => Some (SShift false 64 CntCL)
  | C_Sub_rm8_r8 => Some (SAlu SUB 8)
  | C_Sub_rm16_r16 => Some (SAlu SUB 16)
  | C_Sub_rm32_r32 => Some (SAlu SUB 32)
  | C_Sub_rm64_r64 => Some (SAlu SUB 64)
  | C_Sub_r8_rm8 => Some (SAlu SUB 8)
  | C_Sub_r16_rm16 => Some (SAlu SUB 16)
  | C_Sub_r32_rm32 => Some (SAlu SUB 32)
  | C_Sub_r64_rm64 => Some (SAlu SUB 64)
  | C_Sub_AL_imm8 => Some (SAlu SUB 8)
  | C_Sub_AX_imm16 => Some (SAlu SUB 16)
  | C_Sub_EAX_imm32 => Some (SAlu SUB 32)
  | C_Sub_RAX_imm32 => Some (SAlu SUB 64)
  | C_Sub_rm8_imm8 => Some (SAlu SUB 8)
  | C_Sub_rm16_imm16 => Some (SAlu SUB 16)
  | C_Sub_rm32_imm32 => Some (SAlu SUB 32)
  | C_Sub_rm64_imm32 => Some (SAlu SUB 64)
  | C_Sub_rm8_imm8_82 => Some (SAlu SUB 8)
  | C_Sub_rm16_imm8 => Some (SAlu SUB 16)
  | C_Sub_rm32_imm8 => Some (SAlu SUB 32)
  | C_Sub_rm64_imm8 => Some (SAlu SUB 64)
  | C_Syscall => Some (SOs)
  | C_Test_rm8_r8 => Some (SAlu TEST 8)
  | C_Test_rm16_r16 => Some (SAlu TEST 16)
  | C_Test_rm32_r32 => Some (SAlu TEST 32)
  | C_Test_rm64_r64 => Some (SAlu TEST 64)
  | C_Test_AL_imm8 => Some (SAlu TEST 8)
  | C_Test_AX_imm16 => Some (SAlu TEST 16)
  | C_Test_EAX_imm32 => Some (SAlu TEST 32)
  | C_Test_RAX_imm32 => Some (SAlu TEST 64)
  | C_Test_rm8_imm8 => Some (SAlu TEST 8)
  | C_Test_rm16_imm16 => Some (SAlu TEST 16)
  | C_Test_rm32_imm32 => Some (SAlu TEST 32)
  | C_Test_rm64_imm32 => Some (SAlu TEST 64)
  | C_Xor_rm8_r8 => Some (SAlu XOR 8)
  | C_Xor_rm16_r16 => Some (SAlu XOR 16)
  | C_Xor_rm32_r32 => Some (SAlu XOR 32)
  | C_Xor_rm64_r64 => Some (SAlu XOR 64)
  | C_Xor_r8_rm8 => Some (SAlu XOR 8)
  | C_Xor_r16_rm16 => Some (SAlu XOR 16)
  | C_Xor_r32_rm32 => Some (SAlu XOR 32)
  | C_Xor_r64_rm64 => Some (SAlu XOR 64)
  | C_Xor_AL_imm8 => Some (SAlu XOR 8)
  | C_Xor_AX_imm16 => Some (SAlu XOR 16)
  | C_Xor_EAX_imm32 => Some (SAlu XOR 32)
  | C_Xor_RAX_imm32 => Some (SAlu XOR 64)
  | C_Xor_rm8_imm8 => Some (SAlu XOR 8)
  | C_Xor_rm16_imm16 => Some (SAlu XOR 16)
  | C_Xor_rm32_imm32 => Some (SAlu XOR 32)
  | C_Xor_rm64_imm32 => Some (SAlu XOR 64)
  | C_Xor_rm8_imm8_82 => Some (SAlu XOR 8)
  | C_Xor_rm16_imm8 => Some (SAlu XOR 16)
  | C_Xor_rm32_imm8 => Some (SAlu XOR 32)
  | C_Xor_rm64_imm8 => Some (SAlu XOR 64)
  | C_Xorps_xmm_xmmm128 => Some (SXorps)
  | _ => None
  end.

Definition pinned_forms : list code :=
  C_Adc_rm8_r8 ::
  C_Adc_rm16_r16 ::
  C_Adc_rm32_r32 ::
  C_Adc_rm64_r64 ::
  C_Adc_r8_rm8 ::
  C_Adc_r16_rm16 ::
  C_Adc_r32_rm32 ::
  C_Adc_r64_rm64 ::
  C_Adc_AL_imm8 ::
  C_Adc_AX_imm16 ::
  C_Adc_EAX_imm32 ::
  C_Adc_RAX_imm32 ::
  C_Adc_rm8_imm8 ::
  C_Adc_rm16_imm16 ::
  C_Adc_rm32_imm32 ::
  C_Adc_rm64_imm32 ::
  C_Adc_rm8_imm8_82 ::
  C_Adc_rm16_imm8 ::
  C_Adc_rm32_imm8 ::
  C_Adc_rm64_imm8 ::
  C_Add_rm8_r8 ::
  C_Add_rm16_r16 ::
  C_Add_rm32_r32 ::
  C_Add_rm64_r64 ::
  C_Add_r8_rm8 ::
  C_Add_r16_rm16 ::
  C_Add_r32_rm32 ::
  C_Add_r64_rm64 ::
  C_Add_AL_imm8 ::
  C_Add_AX_imm16 ::
  C_Add_EAX_imm32 ::
  C_Add_RAX_imm32 ::
  C_Add_rm8_imm8 ::
  C_Add_rm16_imm16 ::
  C_Add_rm32_imm32 ::
  C_Add_rm64_imm32 ::
  C_Add_rm8_imm8_82 ::
  C_Add_rm16_imm8 ::
  C_Add_rm32_imm8 ::
  C_Add_rm64_imm8 ::
  C_And_rm8_r8 ::
  C_And_rm16_r16 ::
  C_And_rm32_r32 ::
  C_And_rm64_r64 ::
  C_And_r8_rm8 ::
  C_And_r16_rm16 ::
  C_And_r32_rm32 ::
  C_And_r64_rm64 ::
  C_And_AL_imm8 ::
  C_And_AX_imm16 ::
  C_And_EAX_imm32 ::
  C_And_RAX_imm32 ::
  C_And_rm8_imm8 ::
  C_And_rm16_imm16 ::
  C_And_rm32_imm32 ::
  C_And_rm64_imm32 ::
  C_And_rm8_imm8_82 ::
  C_And_rm16_imm8 ::
  C_And_rm32_imm8 ::
  C_And_rm64_imm8 ::
  C_Call_rel32_64 ::
  C_Call_rm64 ::
  C_Cdq ::
  C_Cdqe ::
  C_Cld ::
  C_Cmovae_r16_rm16 ::
  C_Cmovae_r32_rm32 ::
  C_Cmovae_r64_rm64 ::
  C_Cmove_r16_rm16 ::
  C_Cmove_r32_rm32 ::
  C_Cmove_r64_rm64 ::
  C_Cmovne_r16_rm16 ::
  C_Cmovne_r32_rm32 ::
  C_Cmovne_r64_rm64 ::
  C_Cmp_rm8_r8 ::
  C_Cmp_rm16_r16 ::
  C_Cmp_rm32_r32 ::
  C_Cmp_rm64_r64 ::
  C_Cmp_r8_rm8 ::
  C_Cmp_r16_rm16 ::
  C_Cmp_r32_rm32 ::
  C_Cmp_r64_rm64 ::
  C_Cmp_AL_imm8 ::
  C_Cmp_AX_imm16 ::
  C_Cmp_EAX_imm32 ::
  C_Cmp_RAX_imm32 ::
  C_Cmp_rm8_imm8 ::
  C_Cmp_rm16_imm16 ::
  C_Cmp_rm32_imm32 ::
  C_Cmp_rm64_imm32 ::
  C_Cmp_rm8_imm8_82 ::
  C_Cmp_rm16_imm8 ::
  C_Cmp_rm32_imm8 ::
  C_Cmp_rm64_imm8 ::
  C_Cpuid ::
  C_Cqo ::
  C_Cwd ::
  C_Dec_rm8 ::
  C_Dec_rm16 ::
  C_Dec_rm32 ::
  C_Dec_rm64 ::
  C_Div_rm8 ::
  C_Div_rm16 ::
  C_Div_rm32 ::
  C_Div_rm64 ::
  C_Endbr64 ::
  C_Idiv_rm8 ::
  C_Idiv_rm16 ::
  C_Idiv_rm32 ::
  C_Idiv_rm64 ::
  C_Imul_r16_rm16_imm16 ::
  C_Imul_r32_rm32_imm32 ::
  C_Imul_r64_rm64_imm32 ::
  C_Imul_r16_rm16_imm8 ::
  C_Imul_r32_rm32_imm8 ::
  C_Imul_r64_rm64_imm8 ::
  C_Imul_rm8 ::
  C_Imul_rm16 ::
  C_Imul_rm32 ::
  C_Imul_rm64 ::
  C_Imul_r16_rm16 ::
  C_Imul_r32_rm32 ::
  C_Imul_r64_rm64 ::
  C_Inc_rm8 ::
  C_Inc_rm16 ::
  C_Inc_rm32 ::
  C_Inc_rm64 ::
  C_Int_imm8 ::
  C_Int1 ::
  C_Int3 ::
  C_Ja_rel8_64 ::
  C_Ja_rel32_64 ::
  C_Jae_rel8_64 ::
  C_Jae_rel32_64 ::
  C_Jb_rel8_64 ::
  C_Jb_rel32_64 ::
  C_Jbe_rel8_64 ::
  C_Jbe_rel32_64 ::
  C_Je_rel8_64 ::
  C_Je_rel32_64 ::
  C_Jecxz_rel8_64 ::
  C_Jg_rel8_64 ::
  C_Jg_rel32_64 ::
  C_Jge_rel8_64 ::
  C_Jge_rel32_64 ::
  C_Jl_rel8_64 ::
  C_Jl_rel32_64 ::
  C_Jle_rel8_64 ::
  C_Jle_rel32_64 ::
  C_Jmp_rel32_64 ::
  C_Jmp_rel8_16 ::
  C_Jmp_rel8_64 ::
  C_Jmp_rm64 ::
  C_Jne_rel8_64 ::
  C_Jne_rel32_64 ::
  C_Jno_rel8_64 ::
  C_Jno_rel32_64 ::
  C_Jnp_rel8_64 ::
  C_Jnp_rel32_64 ::
  C_Jns_rel8_64 ::
  C_Jns_rel32_64 ::
  C_Jo_rel8_64 ::
  C_Jo_rel32_64 ::
  C_Jp_rel8_64 ::
  C_Jp_rel32_64 ::
  C_Jrcxz_rel8_64 ::
  C_Js_rel8_64 ::
  C_Js_rel32_64 ::
  C_Lea_r16_m ::
  C_Lea_r32_m ::
  C_Lea_r64_m ::
  C_Mov_rm8_r8 ::
  C_Mov_rm16_r16 ::
  C_Mov_rm32_r32 ::
  C_Mov_rm64_r64 ::
  C_Mov_r8_rm8 ::
  C_Mov_r16_rm16 ::
  C_Mov_r32_rm32 ::
  C_Mov_r64_rm64 ::
  C_Mov_AL_moffs8 ::
  C_Mov_AX_moffs16 ::
  C_Mov_EAX_moffs32 ::
  C_Mov_RAX_moffs64 ::
  C_Mov_moffs8_AL ::
  C_Mov_moffs16_AX ::
  C_Mov_moffs32_EAX ::
  C_Mov_moffs64_RAX ::
  C_Mov_r8_imm8 ::
  C_Mov_r16_imm16 ::
  C_Mov_r32_imm32 ::
  C_Mov_r64_imm64 ::
  C_Mov_rm8_imm8 ::
  C_Mov_rm16_imm16 ::
  C_Mov_rm32_imm32 ::
  C_Mov_rm64_imm32 ::
  C_Movd_xmm_rm32 ::
  C_Movd_rm32_xmm ::
  C_Movsxd_r64_rm32 ::
  C_Movups_xmm_xmmm128 ::
  C_Movups_xmmm128_xmm ::
  C_Movzx_r16_rm8 ::
  C_Movzx_r32_rm8 ::
  C_Movzx_r64_rm8 ::
  C_Movzx_r32_rm16 ::
  C_Movzx_r64_rm16 ::
  C_Mul_rm8 ::
  C_Mul_rm16 ::
  C_Mul_rm32 ::
  C_Mul_rm64 ::
  C_Neg_rm8 ::
  C_Neg_rm16 ::
  C_Neg_rm32 ::
  C_Neg_rm64 ::
  C_Nopw ::
  C_Nopd ::
  C_Nopq ::
  C_Nop_rm16 ::
  C_Nop_rm32 ::
  C_Nop_rm64 ::
  C_Not_rm8 ::
  C_Not_rm16 ::
  C_Not_rm32 ::
  C_Not_rm64 ::
  C_Pop_r16 ::
  C_Pop_r64 ::
  C_Push_r16 ::
  C_Push_r64 ::
  C_Push_imm16 ::
  C_Push_rm16 ::
  C_Pushq_imm8 ::
  C_Pushq_imm32 ::
  C_Retnq ::
  C_Setb_rm8 ::
  C_Sete_rm8 ::
  C_Setne_rm8 ::
  C_Shl_rm8_imm8 ::
  C_Shl_rm16_imm8 ::
  C_Shl_rm32_imm8 ::
  C_Shl_rm64_imm8 ::
  C_Shl_rm8_1 ::
  C_Shl_rm16_1 ::
  C_Shl_rm32_1 ::
  C_Shl_rm64_1 ::
  C_Shl_rm8_CL ::
  C_Shl_rm16_CL ::
  C_Shl_rm32_CL ::
  C_Shl_rm64_CL ::
  C_Shr_rm8_imm8 ::
  C_Shr_rm16_imm8 ::
  C_Shr_rm32_imm8 ::
  C_Shr_rm64_imm8 ::
  C_Shr_rm8_1 ::
  C_Shr_rm16_1 ::
  C_Shr_rm32_1 ::
  C_Shr_rm64_1 ::
  C_Shr_rm8_CL ::
  C_Shr_rm16_CL ::
  C_Shr_rm32_CL ::
  C_Shr_rm64_CL ::
  C_Sub_rm8_r8 ::
  C_Sub_rm16_r16 ::
  C_Sub_rm32_r32 ::
  C_Sub_rm64_r64 ::
  C_Sub_r8_rm8 ::
  C_Sub_r16_rm16 ::
  C_Sub_r32_rm32 ::
  C_Sub_r64_rm64 ::
  C_Sub_AL_imm8 ::
  C_Sub_AX_imm16 ::
  C_Sub_EAX_imm32 ::
  C_Sub_RAX_imm32 ::
  C_Sub_rm8_imm8 ::
  C_Sub_rm16_imm16 ::
  C_Sub_rm32_imm32 ::
  C_Sub_rm64_imm32 ::
  C_Sub_rm8_imm8_82 ::
  C_Sub_rm16_imm8 ::
  C_Sub_rm32_imm8 ::
  C_Sub_rm64_imm8 ::
  C_Syscall ::
  C_Test_rm8_r8 ::
  C_Test_rm16_r16 ::
  C_Test_rm32_r32 ::
  C_Test_rm64_r64 ::
  C_Test_AL_imm8 ::
  C_Test_AX_imm16 ::
  C_Test_EAX_imm32 ::
  C_Test_RAX_imm32 ::
  C_Test_rm8_imm8 ::
  C_Test_rm16_imm16 ::
  C_Test_rm32_imm32 ::
  C_Test_rm64_imm32 ::
  C_Xor_rm8_r8 ::
  C_Xor_rm16_r16 ::
  C_Xor_rm32_r32 ::
  C_Xor_rm64_r64 ::
  C_Xor_r8_rm8 ::
  C_Xor_r16_rm16 ::
  C_Xor_r32_rm32 ::
  C_Xor_r64_rm64 ::
  C_Xor_AL_imm8 ::
  C_Xor_AX_imm16 ::
  C_Xor_EAX_imm32 ::
  C_Xor_RAX_imm32 ::
  C_Xor_rm8_imm8 ::
  C_Xor_rm16_imm16 ::
  C_Xor_rm32_imm32 ::
  C_Xor_rm64_imm32 ::
  C_Xor_rm8_imm8_82 ::
  C_Xor_rm16_imm8 ::
  C_Xor_rm32_imm8 ::
  C_Xor_rm64_imm8 ::
  C_Xorps_xmm_xmmm128 :: nil.
