(* Reference semantics of the x86-64 instructions the emulator implements, written
   from the architecture manuals, independently of the emulator's code and generically
   in the operand width.  Operands are taken from the decoded-instruction record (iced's
   operand kinds, Intel operand order).  Validated against the host CPU by hw/hwrun
   (check `--hw`).  Memory follows the area discipline of C08 (an access must lie inside
   one mapped area that carries the permission).  AF is never modelled or compared.

   The semantics is given at the level of the emulator's dispatcher: RIP already holds
   the address of the next instruction. *)
From Coq Require Import ZArith Bool List.
From AxV Require Import Bits Outcome Codes Iced State Rt Mem BitsP RegFile.
Local Open Scope Z_scope.

(* ---- flags ---- *)
Definition CF : Z := 1.
Definition PF : Z := 4.
Definition AF : Z := 16.
Definition ZF : Z := 64.
Definition SF : Z := 128.
Definition DF : Z := 1024.
Definition OF : Z := 2048.
Definition STATUS : Z := CF + PF + AF + ZF + SF + OF.

Definition flag (rf m : Z) : bool := negb (Z.land rf m =? 0).
Definition b2f (b : bool) (m : Z) : Z := if b then m else 0.

Definition parity8 (v : Z) : bool :=
  negb (xorb (xorb (xorb (Z.testbit v 0) (Z.testbit v 1)) (xorb (Z.testbit v 2) (Z.testbit v 3)))
             (xorb (xorb (Z.testbit v 4) (Z.testbit v 5)) (xorb (Z.testbit v 6) (Z.testbit v 7)))).

Definition msb (w v : Z) : bool := Z.testbit v (w - 1).
Definition sgn (w v : Z) : Z := if v <? 2 ^ (w - 1) then v else v - 2 ^ w.
Definition fits_signed (w v : Z) : bool := (- 2 ^ (w - 1) <=? v) && (v <? 2 ^ (w - 1)).

(* SF, ZF, PF of a result *)
Definition szp (w r : Z) : Z := b2f (msb w r) SF + b2f (r =? 0) ZF + b2f (parity8 r) PF.

(* new rflags: the flags in [mask] are replaced by [bits], everything else is kept *)
Definition set_status (rf mask bits : Z) : Z := Z.lor (Z.land rf (Z.lnot mask)) (Z.land bits mask).

Inductive aluop := ADD | ADC | SUB | CMP | AND | XOR | TEST.
Inductive unop := INC | DEC | NEG | NOT.

(* result, flag bits (CF OF SF ZF PF), writes back? *)
Definition alu (op : aluop) (w a b : Z) (cf_in : bool) : Z * Z * bool :=
  match op with
  | ADD | ADC =>
      let c := if (match op with ADC => cf_in | _ => false end) then 1 else 0 in
      let full := a + b + c in
      let r := full mod 2 ^ w in
      (r, b2f (2 ^ w <=? full) CF + b2f (negb (fits_signed w (sgn w a + sgn w b + c))) OF + szp w r, true)
  | SUB | CMP =>
      let full := a - b in
      let r := full mod 2 ^ w in
      (r, b2f (a <? b) CF + b2f (negb (fits_signed w (sgn w a - sgn w b))) OF + szp w r,
       match op with SUB => true | _ => false end)
  | AND | TEST => let r := Z.land a b in (r, szp w r, match op with AND => true | _ => false end)
  | XOR => let r := Z.lxor a b in (r, szp w r, true)
  end.

(* ---- operands ---- *)
Inductive fault := FMem | FDivide | FAlign | FStack | FBranch | FUnsupported.

Inductive isa_result :=
  | IDone (s : mstate) (undef : Z)   (* [undef]: status flags the architecture leaves undefined *)
  | IFault (f : fault).

Definition seg_base (s : mstate) (r : reg) : Z :=
  match r with FS => fs s | GS => gs s | _ => 0 end.

Definition addr32 (i : instr) : bool :=
  is_gpr32 (i_memory_base i) || is_gpr32 (i_memory_index i) ||
  match i_memory_base i with EIP => true | _ => false end.

Definition reg_value (s : mstate) (r : reg) : Z :=
  match r with
  | RNone => 0
  | _ => rf_read (regs s) r
  end.

(* the offset part of the effective address (what LEA returns before truncation) *)
Definition ea_offset (i : instr) (s : mstate) : Z :=
  let m := if addr32 i then 2 ^ 32 else 2 ^ 64 in
  match i_memory_base i with
  | RIP | EIP => i_memory_displacement64 i mod m
  | b => (reg_value s b + reg_value s (i_memory_index i) * i_memory_index_scale i + i_memory_displacement64 i) mod m
  end.

Definition ea (i : instr) (s : mstate) : Z := (ea_offset i s + seg_base s (i_memory_segment i)) mod 2 ^ 64.

Definition load (n : nat) (a : Z) (s : mstate) : option Z :=
  match mem_read_n n a s with (Ok v, _) => Some v | _ => None end.
Definition store (n : nat) (a v : Z) (s : mstate) : option mstate :=
  match mem_write_bytes a (le_bytes n v) s with (Ok _, s') => Some s' | _ => None end.

Definition bytes_of (w : Z) : nat := Z.to_nat (w / 8).

Definition imm_of (i : instr) (k : opkind) : option Z :=
  match k with
  | OK_Immediate8 => Some (i_immediate8 i)
  | OK_Immediate8_2nd => Some (i_immediate8_2nd i)
  | OK_Immediate16 => Some (i_immediate16 i)
  | OK_Immediate32 => Some (i_immediate32 i)
  | OK_Immediate64 => Some (i_immediate64 i)
  | OK_Immediate8to16 => Some (i_immediate8to16 i)
  | OK_Immediate8to32 => Some (i_immediate8to32 i)
  | OK_Immediate8to64 => Some (i_immediate8to64 i)
  | OK_Immediate32to64 => Some (i_immediate32to64 i)
  | _ => None
  end.

(* read operand k as a w-bit value *)
Definition read_op (i : instr) (k w : Z) (s : mstate) : option Z :=
  match i_op_kind i k with
  | OK_Register => Some (rf_read (regs s) (i_op_register i k) mod 2 ^ w)
  | OK_Memory => load (bytes_of w) (ea i s) s
  | kd => match imm_of i kd with Some v => Some (v mod 2 ^ w) | None => None end
  end.

Definition write_reg (s : mstate) (r : reg) (v : Z) : mstate := set_regs s (rf_write (regs s) r v).

Definition write_op (i : instr) (k w v : Z) (s : mstate) : option mstate :=
  match i_op_kind i k with
  | OK_Register => Some (write_reg s (i_op_register i k) v)
  | OK_Memory => store (bytes_of w) (ea i s) v s
  | _ => None
  end.

Definition with_flags (s : mstate) (mask bits : Z) : mstate := set_rflags s (set_status (rflags s) mask bits).

Definition ARITH : Z := CF + OF + SF + ZF + PF.

(* ---- condition codes ---- *)
Inductive cc := CC_O | CC_NO | CC_B | CC_AE | CC_E | CC_NE | CC_BE | CC_A | CC_S | CC_NS | CC_P | CC_NP
              | CC_L | CC_GE | CC_LE | CC_G.

Definition cond (c : cc) (rf : Z) : bool :=
  let cf := flag rf CF in let zf := flag rf ZF in let sf := flag rf SF in
  let of_ := flag rf OF in let pf := flag rf PF in
  match c with
  | CC_O => of_ | CC_NO => negb of_ | CC_B => cf | CC_AE => negb cf | CC_E => zf | CC_NE => negb zf
  | CC_BE => cf || zf | CC_A => negb (cf || zf) | CC_S => sf | CC_NS => negb sf | CC_P => pf | CC_NP => negb pf
  | CC_L => xorb sf of_ | CC_GE => negb (xorb sf of_) | CC_LE => zf || xorb sf of_ | CC_G => negb (zf || xorb sf of_)
  end.

(* ---- semantic classes: the specification's reading of each iced Code (CodeSem.v) ---- *)
Inductive shcount := CntCL | CntImm | CntOne.

Inductive sem :=
  | SAlu (op : aluop) (w : Z)
  | SUn (op : unop) (w : Z)
  | SShift (left : bool) (w : Z) (cnt : shcount)
  | SMul (w : Z) | SImul1 (w : Z) | SImul2 (w : Z) | SImul3 (w : Z)
  | SDiv (w : Z) | SIdiv (w : Z)
  | SMov (w : Z) | SMovzx (wd ws : Z) | SMovsxd | SLea (w : Z)
  | SCmov (c : cc) (w : Z) | SSet (c : cc)
  | SJcc (c : cc) | SJmpRel | SJmpRm | SCallRel | SCallRm | SRet | SJrcxz | SJecxz
  | SPush (w : Z) | SPushq | SPop (w : Z)
  | SCwd (w : Z) | SCdqe
  | SCld | SNop | SCpuid
  | SXorps | SMovups | SMovdToXmm | SMovdFromXmm
  | SOs.   (* syscall / int / int1 / int3: OS interface, decided by hooks (C12) *)

Definition opt_done (o : option mstate) (undef : Z) : isa_result :=
  match o with Some s => IDone s undef | None => IFault FMem end.

(* 32-bit destinations zero-extend even when the value is unchanged; handled by rf_write *)

Definition exec_alu (op : aluop) (w : Z) (i : instr) (s : mstate) : isa_result :=
  match read_op i 0 w s, read_op i 1 w s with
  | Some a, Some b =>
      let '(r, fl, wb) := alu op w a b (flag (rflags s) CF) in
      let s1 := with_flags s ARITH fl in
      if wb then opt_done (write_op i 0 w r s1) 0 else IDone s1 0
  | _, _ => IFault FMem
  end.

Definition exec_un (op : unop) (w : Z) (i : instr) (s : mstate) : isa_result :=
  match read_op i 0 w s with
  | Some a =>
      match op with
      | INC =>
          let r := (a + 1) mod 2 ^ w in
          let fl := b2f (negb (fits_signed w (sgn w a + 1))) OF + szp w r in
          opt_done (write_op i 0 w r (with_flags s (OF + SF + ZF + PF) fl)) 0
      | DEC =>
          let r := (a - 1) mod 2 ^ w in
          let fl := b2f (negb (fits_signed w (sgn w a - 1))) OF + szp w r in
          opt_done (write_op i 0 w r (with_flags s (OF + SF + ZF + PF) fl)) 0
      | NEG =>
          let r := (- a) mod 2 ^ w in
          let fl := b2f (negb (a =? 0)) CF + b2f (negb (fits_signed w (- sgn w a))) OF + szp w r in
          opt_done (write_op i 0 w r (with_flags s ARITH fl)) 0
      | NOT => opt_done (write_op i 0 w (2 ^ w - 1 - a) s) 0
      end
  | None => IFault FMem
  end.

Definition shift_count (cnt : shcount) (w : Z) (i : instr) (s : mstate) : Z :=
  let raw := match cnt with
             | CntCL => rf_read (regs s) CL
             | CntImm => i_immediate8 i
             | CntOne => 1
             end in
  Z.land raw (if w =? 64 then 63 else 31).

Definition exec_shift (left : bool) (w : Z) (cnt : shcount) (i : instr) (s : mstate) : isa_result :=
  match read_op i 0 w s with
  | Some a =>
      let n := shift_count cnt w i s in
      if n =? 0 then
        (* flags unaffected; a 32-bit register destination is still zero-extended, a memory
           destination is still written *)
        opt_done (write_op i 0 w a s) 0
      else
        let r := if left then (a * 2 ^ n) mod 2 ^ w else a / 2 ^ n in
        let cf := if left then Z.testbit a (w - n) else Z.testbit a (n - 1) in
        let of_ := if left then xorb (msb w r) cf else msb w a in
        let fl := b2f cf CF + b2f of_ OF + szp w r in
        (* OF is defined only for 1-bit shifts; CF is undefined when the count reaches the width *)
        let undef := (if n =? 1 then 0 else OF) + (if w <=? n then CF else 0) in
        opt_done (write_op i 0 w r (with_flags s ARITH fl)) undef
  | None => IFault FMem
  end.

Definition acc (w : Z) : reg := if w =? 8 then AL else if w =? 16 then AX else if w =? 32 then EAX else RAX.
Definition hi_reg (w : Z) : reg := if w =? 8 then AH else if w =? 16 then DX else if w =? 32 then EDX else RDX.

Definition exec_mul (signed_ : bool) (w : Z) (i : instr) (s : mstate) : isa_result :=
  match read_op i 0 w s with
  | Some b =>
      let a := rf_read (regs s) (acc w) in
      let prod := if signed_ then sgn w a * sgn w b else a * b in
      let lo := prod mod 2 ^ w in
      let hi := (prod / 2 ^ w) mod 2 ^ w in
      let ov := if signed_ then negb (fits_signed w prod) else negb (hi =? 0) in
      let s1 := if w =? 8 then write_reg s AX (prod mod 2 ^ 16)
                else write_reg (write_reg s (acc w) lo) (hi_reg w) hi in
      IDone (with_flags s1 (CF + OF) (b2f ov CF + b2f ov OF)) (SF + ZF + PF)
  | None => IFault FMem
  end.

(* imul r, r/m  and  imul r, r/m, imm *)
Definition exec_imul23 (three : bool) (w : Z) (i : instr) (s : mstate) : isa_result :=
  let a_opt := if three then read_op i 1 w s else read_op i 0 w s in
  let b_opt := if three then read_op i 2 w s else read_op i 1 w s in
  match a_opt, b_opt with
  | Some a, Some b =>
      let prod := sgn w a * sgn w b in
      let ov := negb (fits_signed w prod) in
      IDone (with_flags (write_reg s (i_op_register i 0) (prod mod 2 ^ w)) (CF + OF) (b2f ov CF + b2f ov OF))
            (SF + ZF + PF)
  | _, _ => IFault FMem
  end.

Definition exec_div (signed_ : bool) (w : Z) (i : instr) (s : mstate) : isa_result :=
  match read_op i 0 w s with
  | Some d =>
      if d =? 0 then IFault FDivide else
      let lo := rf_read (regs s) (acc w) in
      let hi := if w =? 8 then rf_read (regs s) AH else rf_read (regs s) (hi_reg w) in
      let dividend := hi * 2 ^ w + lo in
      let '(q, r) := if signed_ then (Z.quot (sgn (2 * w) dividend) (sgn w d), Z.rem (sgn (2 * w) dividend) (sgn w d))
                     else (dividend / d, dividend mod d) in
      let ok := if signed_ then fits_signed w q else q <? 2 ^ w in
      if negb ok then IFault FDivide else
      let s1 := if w =? 8 then write_reg (write_reg s AL (q mod 2 ^ 8)) AH (r mod 2 ^ 8)
                else write_reg (write_reg s (acc w) (q mod 2 ^ w)) (hi_reg w) (r mod 2 ^ w) in
      IDone s1 ARITH
  | None => IFault FMem
  end.

(* ---- stack ---- *)
Definition push_val (n : nat) (v : Z) (s : mstate) : option mstate :=
  let rsp' := (regs s RSP - Z.of_nat n) mod 2 ^ 64 in
  match store n rsp' v s with
  | Some s1 => Some (set_regs s1 (upd (regs s1) RSP rsp'))
  | None => None
  end.

Definition pop_val (n : nat) (s : mstate) : option (Z * mstate) :=
  match load n (regs s RSP) s with
  | Some v => Some (v, set_regs s (upd (regs s) RSP ((regs s RSP + Z.of_nat n) mod 2 ^ 64)))
  | None => None
  end.

Definition set_rip (s : mstate) (v : Z) : mstate := set_regs s (upd (regs s) RIP v).

(* a control transfer to a non-canonical address raises #GP at the branch itself *)
Definition canonical (a : Z) : bool := (a <? 2 ^ 47) || (2 ^ 64 - 2 ^ 47 <=? a).
Definition branch_to (s : mstate) (t : Z) : isa_result :=
  if canonical t then IDone (set_rip s t) 0 else IFault FBranch.

Definition isa_exec (sm : sem) (i : instr) (s : mstate) : isa_result :=
  match sm with
  | SAlu op w => exec_alu op w i s
  | SUn op w => exec_un op w i s
  | SShift l w c => exec_shift l w c i s
  | SMul w => exec_mul false w i s
  | SImul1 w => exec_mul true w i s
  | SImul2 w => exec_imul23 false w i s
  | SImul3 w => exec_imul23 true w i s
  | SDiv w => exec_div false w i s
  | SIdiv w => exec_div true w i s
  | SMov w => match read_op i 1 w s with Some v => opt_done (write_op i 0 w v s) 0 | None => IFault FMem end
  | SMovzx wd ws => match read_op i 1 ws s with Some v => opt_done (write_op i 0 wd v s) 0 | None => IFault FMem end
  | SMovsxd => match read_op i 1 32 s with Some v => opt_done (write_op i 0 64 (sgn 32 v mod 2 ^ 64) s) 0 | None => IFault FMem end
  | SLea w => IDone (write_reg s (i_op_register i 0) (ea_offset i s mod 2 ^ w)) 0
  | SCmov c w =>
      (* the source is read (and may fault) even when the condition is false; a 32-bit
         destination is zero-extended in both cases *)
      match read_op i 1 w s with
      | Some v => let d := rf_read (regs s) (i_op_register i 0) mod 2 ^ w in
                  IDone (write_reg s (i_op_register i 0) (if cond c (rflags s) then v else d)) 0
      | None => IFault FMem
      end
  | SSet c => opt_done (write_op i 0 8 (if cond c (rflags s) then 1 else 0) s) 0
  | SJcc c => if cond c (rflags s) then branch_to s (i_near_branch64 i) else IDone s 0
  | SJmpRel => branch_to s (i_near_branch64 i)
  | SJmpRm => match read_op i 0 64 s with Some t => branch_to s t | None => IFault FMem end
  | SCallRel =>
      if negb (canonical (i_near_branch64 i)) then IFault FBranch else
      match push_val 8 (regs s RIP) s with Some s1 => IDone (set_rip s1 (i_near_branch64 i)) 0 | None => IFault FStack end
  | SCallRm =>
      match read_op i 0 64 s with
      | Some t => if negb (canonical t) then IFault FBranch else
                  match push_val 8 (regs s RIP) s with Some s1 => IDone (set_rip s1 t) 0 | None => IFault FStack end
      | None => IFault FMem
      end
  | SRet => match pop_val 8 s with Some (t, s1) => branch_to s1 t | None => IFault FStack end
  | SJrcxz => if regs s RCX =? 0 then branch_to s (i_near_branch64 i) else IDone s 0
  | SJecxz => if rf_read (regs s) ECX =? 0 then branch_to s (i_near_branch64 i) else IDone s 0
  | SPush w =>
      match read_op i 0 w s with
      | Some v => match push_val (bytes_of w) v s with Some s1 => IDone s1 0 | None => IFault FStack end
      | None => IFault FMem
      end
  | SPushq =>
      (* push imm8 / imm32 sign-extended to 64 bits *)
      match imm_of i (i_op0_kind i) with
      | Some v => match push_val 8 (v mod 2 ^ 64) s with Some s1 => IDone s1 0 | None => IFault FStack end
      | None => IFault FUnsupported
      end
  | SPop w =>
      match pop_val (bytes_of w) s with
      | Some (v, s1) => IDone (write_reg s1 (i_op_register i 0) v) 0
      | None => IFault FStack
      end
  | SCwd w =>
      let a := rf_read (regs s) (acc w) in
      IDone (write_reg s (hi_reg w) (if msb w a then 2 ^ w - 1 else 0)) 0
  | SCdqe => IDone (write_reg s RAX (sgn 32 (rf_read (regs s) EAX) mod 2 ^ 64)) 0
  | SCld => IDone (set_rflags s (Z.land (rflags s) (Z.lnot DF))) 0
  | SNop => IDone s 0
  | SCpuid => IDone s 0          (* outputs are model specific: EAX..EDX unconstrained, see CodeSem *)
  | SXorps =>
      match i_op_kind i 1 with
      | OK_Register => IDone (set_xmms s (upd (xmms s) (i_op_register i 0)
                                 (Z.lxor (xmms s (i_op_register i 0)) (xmms s (i_op_register i 1))))) 0
      | OK_Memory =>
          if negb (ea i s mod 16 =? 0) then IFault FAlign else
          match load 16 (ea i s) s with
          | Some v => IDone (set_xmms s (upd (xmms s) (i_op_register i 0) (Z.lxor (xmms s (i_op_register i 0)) v))) 0
          | None => IFault FMem
          end
      | _ => IFault FUnsupported
      end
  | SMovups =>
      match i_op_kind i 0, i_op_kind i 1 with
      | OK_Register, OK_Register => IDone (set_xmms s (upd (xmms s) (i_op_register i 0) (xmms s (i_op_register i 1)))) 0
      | OK_Register, OK_Memory =>
          match load 16 (ea i s) s with
          | Some v => IDone (set_xmms s (upd (xmms s) (i_op_register i 0) v)) 0
          | None => IFault FMem
          end
      | OK_Memory, OK_Register => opt_done (store 16 (ea i s) (xmms s (i_op_register i 1)) s) 0
      | _, _ => IFault FUnsupported
      end
  | SMovdToXmm =>
      match read_op i 1 32 s with
      | Some v => IDone (set_xmms s (upd (xmms s) (i_op_register i 0) v)) 0
      | None => IFault FMem
      end
  | SMovdFromXmm => opt_done (write_op i 0 32 (xmms s (i_op_register i 1) mod 2 ^ 32) s) 0
  | SOs => IDone s 0
  end.
