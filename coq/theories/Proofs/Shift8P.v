(* C01/C02: SHL / SHR r/m8 by CL and by imm8 (register or memory destination) against the ISA specification.
   As at 16 bits the masked count can exceed the operand width.  Generated from Shift16P.v / Shift32P.v by textual
   transformation and checked by Coq; the two helper adapters are specific to this width (the 8-bit shifts use
   the ordinary r/m8, r8 and r/m8, imm8 helpers). *)
From Coq Require Import ZArith Bool List Lia.
From AxV Require Import Bits Outcome Codes Iced State Rt Mem Trace BitsP ByteStore MemP RegFile RegsP ISA CodeSem ReadonlyTac
  OperandP FlagsP CfP MovP RmP AluP AluRmP AluMemP Alu32P AluImmP MovxP Alu8P AluImm8P ShiftP Shift32P.
From AxG Require Import Flags Regs Operand Helpers I_shl I_shr.
Local Open Scope Z_scope.
Ltac Zify.zify_post_hook ::= Z.div_mod_to_equations.

Lemma set_flags8_unaffected_any c fc v s : set_flags_u8 c FLAGS_UNAFFECTED fc v s = (Ok tt, s).
Proof. reflexivity. Qed.

Lemma shr8_small d k : 0 <= d < 2 ^ 8 -> 0 <= k < 8 -> checked_shr U8 d k = Some (d / 2 ^ k).
Proof.
  intros Hd Hk. unfold checked_shr. cbn [width]. destruct (Z.ltb_spec k 8); [|lia].
  unfold shr_raw, Bits.sem, enc, modulus; cbn [signed width]. f_equal. apply Z.mod_small.
  assert (P : 0 < 2 ^ k) by (apply Z.pow_pos_nonneg; lia).
  split; [apply Z.div_pos; lia|]. apply Z.le_lt_trans with d; [|lia]. apply Z.div_le_upper_bound; [exact P|]. nia.
Qed.

Definition shl8_op (c : cfg) (v_d v_s : Z) : outcome (Z * Z) :=
  (let v_count := (cast U8 U32 (Z.land v_s 31)) in
  (if (v_count =? 0) then (Ok ((v_d, FLAGS_UNAFFECTED))) else (let v_result := (match (checked_shl U8 v_d v_count) with Some x_ => x_ | None => 0 end) in
  t2_v <~ (if (v_count <=? 8) then (t1_v <~ (sub_chk c U32 8 v_count) ;;
  Ok ((negb ((Z.land (match (checked_shr U8 v_d t1_v) with Some x_ => x_ | None => 0 end) 1) =? 0)))) else (Ok (false))) ;;
  let v_cf := (if t2_v then FLAG_CF else 0) in
  let v_of := (if (negb (Bool.eqb (negb ((Z.land v_result 128) =? 0)) (negb (v_cf =? 0)))) then FLAG_OF else 0) in
  Ok ((v_result, (Z.lor v_cf v_of))))))%out.

Definition shr8_op (c : cfg) (v_d v_s : Z) : outcome (Z * Z) :=
  (let v_count := (cast U8 U32 (Z.land v_s 31)) in
  (if (v_count =? 0) then (Ok ((v_d, FLAGS_UNAFFECTED))) else (let v_result := (match (checked_shr U8 v_d v_count) with Some x_ => x_ | None => 0 end) in
  t2_v <~ (if (v_count <=? 8) then (t1_v <~ (sub_chk c U32 v_count 1) ;;
  Ok ((negb ((Z.land (match (checked_shr U8 v_d t1_v) with Some x_ => x_ | None => 0 end) 1) =? 0)))) else (Ok (false))) ;;
  let v_cf := (if t2_v then FLAG_CF else 0) in
  let v_of := (if (negb ((Z.land v_d 128) =? 0)) then FLAG_OF else 0) in
  Ok ((v_result, (Z.lor v_cf v_of))))))%out.

Lemma high_bits_zero8 d k : 0 <= d < 2 ^ 8 -> 8 <= k -> Z.testbit d k = false.
Proof.
  intros Hd Hk. destruct (Z.eq_dec d 0) as [->|N]; [apply Z.testbit_0_l|].
  apply Z.bits_above_log2; [lia|]. apply Z.lt_le_trans with 8; [|exact Hk]. apply Z.log2_lt_pow2; lia.
Qed.

Lemma shl_out8 d n : 8 <= n -> (d * 2 ^ n) mod 2 ^ 8 = 0.
Proof.
  intros H. replace n with ((n - 8) + 8) by lia. rewrite Z.pow_add_r by lia. rewrite Z.mul_assoc. apply Z.mod_mul. discriminate.
Qed.

Lemma shl8_op_spec c d v : 0 <= d < 2 ^ 8 -> 0 <= v ->
  shl8_op c d v =
  (let n := Z.land v 31 in
   if n =? 0 then Ok (d, FLAGS_UNAFFECTED)
   else let r := (d * 2 ^ n) mod 2 ^ 8 in let cf := Z.testbit d (8 - n) in
        Ok (r, Z.lor (b2f (xorb (msb 8 r) cf) FLAG_OF) (b2f cf FLAG_CF))).
Proof.
  intros Hd Hv. unfold shl8_op. cbv zeta. pose proof (land31_range v Hv) as Hn.
  rewrite (cast_u8_u32_small (Z.land v 31)) by lia. set (n := Z.land v 31) in *.
  destruct (Z.eqb_spec n 0) as [Zr|NZ]; [reflexivity|].
  destruct (Z_lt_le_dec n 8) as [Lt|Ge].
  - assert (L : (n <=? 8) = true) by (apply Z.leb_le; lia). rewrite L.
    rewrite (sub_small c 8 n) by lia. cbn [obind].
    assert (C1 : checked_shl U8 d n = Some ((d * 2 ^ n) mod 2 ^ 8)).
    { unfold checked_shl. cbn [width]. destruct (Z.ltb_spec n 8); [|lia]. reflexivity. }
    rewrite C1. rewrite (shr8_small d (8 - n) Hd ltac:(lia)).
    rewrite (testbit_div_land1 d (8 - n)) by lia. rewrite negb_involutive.
    set (r := (d * 2 ^ n) mod 2 ^ 8). set (cf := Z.testbit d (8 - n)).
    f_equal. f_equal. rewrite Z.lor_comm.
    change 128 with (2 ^ 7). rewrite land_pow2_testbit by lia. rewrite negb_involutive.
    unfold msb. change (8 - 1) with 7. destruct (Z.testbit r 7), cf; reflexivity.
  - assert (C1 : checked_shl U8 d n = None).
    { unfold checked_shl. cbn [width]. destruct (Z.ltb_spec n 8); [lia|reflexivity]. }
    rewrite C1. rewrite (shl_out8 d n Ge).
    destruct (Z.eq_dec n 8) as [E8|N8].
    + rewrite E8. change (8 <=? 8) with true. cbv iota. rewrite (sub_small c 8 8) by lia. cbn [obind].
      change (8 - 8) with 0. rewrite (shr8_small d 0 Hd ltac:(lia)).
      rewrite (testbit_div_land1 d 0) by lia. rewrite negb_involutive.
      f_equal. f_equal. rewrite Z.lor_comm. unfold msb. rewrite Z.testbit_0_l.
      destruct (Z.testbit d 0); reflexivity.
    + assert (L : (n <=? 8) = false) by (apply Z.leb_gt; lia). rewrite L. cbn [obind].
      rewrite (Z.testbit_neg_r d (8 - n)) by lia. unfold msb. rewrite Z.testbit_0_l. reflexivity.
Qed.

Lemma shr8_op_spec c d v : 0 <= d < 2 ^ 8 -> 0 <= v ->
  shr8_op c d v =
  (let n := Z.land v 31 in
   if n =? 0 then Ok (d, FLAGS_UNAFFECTED)
   else let r := d / 2 ^ n in let cf := Z.testbit d (n - 1) in
        Ok (r, Z.lor (b2f (msb 8 d) FLAG_OF) (b2f cf FLAG_CF))).
Proof.
  intros Hd Hv. unfold shr8_op. cbv zeta. pose proof (land31_range v Hv) as Hn.
  rewrite (cast_u8_u32_small (Z.land v 31)) by lia. set (n := Z.land v 31) in *.
  destruct (Z.eqb_spec n 0) as [Zr|NZ]; [reflexivity|].
  assert (OFe : (if negb (Z.land d 128 =? 0) then FLAG_OF else 0) = b2f (msb 8 d) FLAG_OF).
  { change 128 with (2 ^ 7). rewrite land_pow2_testbit by lia. rewrite negb_involutive. unfold msb. change (8 - 1) with 7.
    destruct (Z.testbit d 7); reflexivity. }
  rewrite OFe.
  destruct (Z_lt_le_dec n 8) as [Lt|Ge].
  - assert (L : (n <=? 8) = true) by (apply Z.leb_le; lia). rewrite L.
    rewrite (sub_small c n 1) by lia. cbn [obind].
    rewrite (shr8_small d n Hd ltac:(lia)). rewrite (shr8_small d (n - 1) Hd ltac:(lia)).
    rewrite (testbit_div_land1 d (n - 1)) by lia. rewrite negb_involutive.
    f_equal. f_equal. rewrite Z.lor_comm. destruct (Z.testbit d (n - 1)); reflexivity.
  - assert (C1 : checked_shr U8 d n = None).
    { unfold checked_shr. cbn [width]. destruct (Z.ltb_spec n 8); [lia|reflexivity]. }
    rewrite C1.
    assert (R0 : d / 2 ^ n = 0).
    { apply Z.div_small. split; [lia|]. apply Z.lt_le_trans with (2 ^ 8); [lia|]. apply Z.pow_le_mono_r; lia. }
    rewrite R0.
    destruct (Z.eq_dec n 8) as [E8|N8].
    + rewrite E8. change (8 <=? 8) with true. cbv iota. rewrite (sub_small c 8 1) by lia. cbn [obind].
      change (8 - 1) with 7. rewrite (shr8_small d 7 Hd ltac:(lia)).
      rewrite (testbit_div_land1 d 7) by lia. rewrite negb_involutive.
      f_equal. f_equal. rewrite Z.lor_comm. destruct (Z.testbit d 7); reflexivity.
    + assert (L : (n <=? 8) = false) by (apply Z.leb_gt; lia). rewrite L. cbn [obind].
      rewrite (high_bits_zero8 d (n - 1) Hd ltac:(lia)). rewrite Z.lor_comm. reflexivity.
Qed.

Section Shift8Helpers.
  Variables (c : cfg) (i : instr) (s : mstate).
  Hypothesis Hwf : wf_regs s.
  Hypothesis HI : Inv (mem s).
  Hypothesis Hn : i_op_count i = 2.
  Hypothesis Hs0 : rm8_shape i 0.

  Definition shift_tail8 (op : Z -> Z -> outcome (Z * Z)) fset fclear (v : Z) (run : outcome unit * mstate) : Prop :=
    match read_op i 0 8 s with
    | Some d =>
        0 <= d < 2 ^ 8 /\
        forall res fl, op d v = Ok (res, fl) -> Z.land fl NO_WRITEBACK = 0 ->
          run = bind (set_flags_u8 c (Z.lor fset fl) fclear res)
                     (fun _ => if Z.land fset NO_WRITEBACK =? 0 then dest_write8 c i res else ret tt) s
    | None => exists e, run = (Err e, s)
    end.

  Lemma calc_rm_r_8f_tail op fset fclear :
    i_op_kind i 1 = OK_Register -> i_op_register i 1 = CL ->
    shift_tail8 op fset fclear (rf_read (regs s) CL) (calculate_rm_r_8f c i op fset fclear s).
  Proof.
    intros K1 R1. unfold shift_tail8.
    assert (H1 : is_gpr8 (i_op_register i 1) = true) by (rewrite R1; reflexivity).
    pose proof (calc_rm_r_8f_shape c i s Hwf HI Hn K1 H1 op fset fclear Hs0) as SH. rewrite R1 in SH.
    destruct (read_op i 0 8 s) as [d|]; [|exact SH]. destruct SH as [Hd SH]. split; [exact Hd|exact SH].
  Qed.

  Lemma calc_rm_imm_8f_tail op fset fclear :
    i_op_kind i 1 = OK_Immediate8 -> 0 <= i_immediate8 i < 2 ^ 8 ->
    shift_tail8 op fset fclear (i_immediate8 i) (calculate_rm_imm_8f c i op fset fclear s).
  Proof.
    intros K1 R1. unfold shift_tail8.
    assert (Him : imm8_shape i) by (right; split; assumption).
    destruct (calc_rm_imm_8f_shape c i s Hwf HI Hn Hs0 Him op fset fclear) as (v & RV & Hv & SH).
    assert (Ev : v = i_immediate8 i).
    { unfold read_op in RV. rewrite K1 in RV. cbn [imm_of] in RV. rewrite Z.mod_small in RV by exact R1. congruence. }
    subst v.
    destruct (read_op i 0 8 s) as [d|]; [|exact SH]. destruct SH as [Hd SH]. split; [exact Hd|exact SH].
  Qed.
End Shift8Helpers.

Section Shift8Forms.
  Variables (c : cfg) (i : instr) (s : mstate).
  Hypothesis Hwf : wf_regs s.
  Hypothesis HI : Inv (mem s).
  Hypothesis Hrf : 0 <= rflags s < 2 ^ 64.
  Hypothesis Hn : i_op_count i = 2.
  Hypothesis Hs0 : rm8_shape i 0.

  Definition shift8_refines (left : bool) (cnt : shcount) (run : outcome unit * mstate) : Prop :=
    match isa_exec (SShift left 8 cnt) i s with
    | IDone s' _ => run = (Ok tt, s')
    | IFault FMem => exists e x, run = (Err e, s) \/ run = (Err e, set_rflags s x)
    | IFault _ => False
    end.

  (* common ending: write [res] with flags word [x] *)
  Lemma finish8 x res run0 u :
    0 <= res < 2 ^ 8 ->
    run0 = dest_write8 c i res (set_rflags s x) ->
    match opt_done (write_op i 0 8 res (set_rflags s x)) u with
    | IDone s' _ => run0 = (Ok tt, s')
    | IFault FMem => exists e y, run0 = (Err e, s) \/ run0 = (Err e, set_rflags s y)
    | IFault _ => False
    end.
  Proof.
    intros Hres ->. pose proof (dest_write8_spec c i s Hwf HI Hn Hs0 x res Hres) as W. cbv zeta in W.
    destruct (write_op i 0 8 res (set_rflags s x)) as [s2|]; cbn [opt_done].
    - exact W.
    - destruct W as [e W]. exists e, x. right. exact W.
  Qed.

  Lemma shift8_core (left : bool) cnt v run :
    0 <= v -> shift_count cnt 8 i s = Z.land v 31 ->
    shift_tail8 c i s (if left then shl8_op c else shr8_op c) (Z.lor (Z.lor FLAG_PF FLAG_ZF) FLAG_SF) (Z.lor FLAG_CF FLAG_OF) v run ->
    shift8_refines left cnt run.
  Proof.
    intros Hv Hcnt ST. unfold shift8_refines. cbn [isa_exec]. unfold exec_shift. rewrite Hcnt.
    unfold shift_tail8 in ST.
    destruct (read_op i 0 8 s) as [d|]; [|destruct ST as [e ST]; exists e, 0; left; exact ST]. destruct ST as [Hd ST].
    assert (SS : set_rflags s (rflags s) = s) by (destruct s; reflexivity).
    destruct left.
    - pose proof (shl8_op_spec c d v Hd Hv) as OP. cbv zeta in OP.
      destruct (Z.eqb_spec (Z.land v 31) 0) as [Zr|NZ].
      + rewrite (ST _ _ OP eq_refl).
        change (Z.lor (Z.lor (Z.lor FLAG_PF FLAG_ZF) FLAG_SF) FLAGS_UNAFFECTED) with FLAGS_UNAFFECTED.
        rewrite (bind_ok _ _ _ _ _ (set_flags8_unaffected_any c _ _ s)).
        change (Z.land (Z.lor (Z.lor FLAG_PF FLAG_ZF) FLAG_SF) NO_WRITEBACK =? 0) with true. cbv iota.
        pose proof (finish8 (rflags s) d _ 0 Hd (eq_refl _)) as F. rewrite SS in F. exact F.
      + set (n := Z.land v 31) in *.
        set (r := (d * 2 ^ n) mod 2 ^ 8) in *. set (cfb := Z.testbit d (8 - n)) in *. set (ofb := xorb (msb 8 r) cfb) in *.
        assert (Hfl : Z.land (Z.lor (b2f ofb FLAG_OF) (b2f cfb FLAG_CF)) NO_WRITEBACK = 0) by (destruct ofb, cfb; reflexivity).
        rewrite (ST _ _ OP Hfl).
        change (Z.lor (Z.lor (Z.lor FLAG_PF FLAG_ZF) FLAG_SF) (Z.lor (b2f ofb FLAG_OF) (b2f cfb FLAG_CF))) with (arith_fs cfb ofb).
        change (Z.lor FLAG_CF FLAG_OF) with 2049.
        rewrite (bind_ok _ _ _ _ _ (set_flags_u8_arith c cfb ofb _ s Hrf)).
        change (Z.land (Z.lor (Z.lor FLAG_PF FLAG_ZF) FLAG_SF) NO_WRITEBACK =? 0) with true. cbv iota zeta.
        fold r. fold cfb. fold ofb.
        assert (Hr : 0 <= r < 2 ^ 8) by (apply Z.mod_pos_bound; reflexivity).
        exact (finish8 _ r _ _ Hr (eq_refl _)).
    - pose proof (shr8_op_spec c d v Hd Hv) as OP. cbv zeta in OP.
      destruct (Z.eqb_spec (Z.land v 31) 0) as [Zr|NZ].
      + rewrite (ST _ _ OP eq_refl).
        change (Z.lor (Z.lor (Z.lor FLAG_PF FLAG_ZF) FLAG_SF) FLAGS_UNAFFECTED) with FLAGS_UNAFFECTED.
        rewrite (bind_ok _ _ _ _ _ (set_flags8_unaffected_any c _ _ s)).
        change (Z.land (Z.lor (Z.lor FLAG_PF FLAG_ZF) FLAG_SF) NO_WRITEBACK =? 0) with true. cbv iota.
        pose proof (finish8 (rflags s) d _ 0 Hd (eq_refl _)) as F. rewrite SS in F. exact F.
      + set (n := Z.land v 31) in *.
        set (r := d / 2 ^ n) in *. set (cfb := Z.testbit d (n - 1)) in *. set (ofb := msb 8 d) in *.
        assert (Hfl : Z.land (Z.lor (b2f ofb FLAG_OF) (b2f cfb FLAG_CF)) NO_WRITEBACK = 0) by (destruct ofb, cfb; reflexivity).
        rewrite (ST _ _ OP Hfl).
        change (Z.lor (Z.lor (Z.lor FLAG_PF FLAG_ZF) FLAG_SF) (Z.lor (b2f ofb FLAG_OF) (b2f cfb FLAG_CF))) with (arith_fs cfb ofb).
        change (Z.lor FLAG_CF FLAG_OF) with 2049.
        rewrite (bind_ok _ _ _ _ _ (set_flags_u8_arith c cfb ofb _ s Hrf)).
        change (Z.land (Z.lor (Z.lor FLAG_PF FLAG_ZF) FLAG_SF) NO_WRITEBACK =? 0) with true. cbv iota zeta.
        fold r. fold cfb. fold ofb.
        assert (Hr : 0 <= r < 2 ^ 8).
        { unfold r. assert (P : 0 < 2 ^ n) by (apply Z.pow_pos_nonneg; pose proof (land31_range v Hv); lia).
          split; [apply Z.div_pos; lia|]. apply Z.le_lt_trans with d; [|lia]. apply Z.div_le_upper_bound; [exact P|]. nia. }
        exact (finish8 _ r _ _ Hr (eq_refl _)).
  Qed.

  Theorem shift_rm8_refines :
    (i_op_kind i 1 = OK_Register -> i_op_register i 1 = CL ->
       (i_code i = C_Shl_rm8_CL -> shift8_refines true CntCL (instr_shl_rm8_cl c i s)) /\
       (i_code i = C_Shr_rm8_CL -> shift8_refines false CntCL (instr_shr_rm8_cl c i s))) /\
    (i_op_kind i 1 = OK_Immediate8 -> 0 <= i_immediate8 i < 2 ^ 8 ->
       (i_code i = C_Shl_rm8_imm8 -> shift8_refines true CntImm (instr_shl_rm8_imm8 c i s)) /\
       (i_code i = C_Shr_rm8_imm8 -> shift8_refines false CntImm (instr_shr_rm8_imm8 c i s))).
  Proof.
    split; intros K1 R1; split; intros Ec.
    - unfold instr_shl_rm8_cl. rewrite Ec. rewrite (bind_ok _ _ _ _ _ (dbg_code_ok c s _ eq_refl)).
      apply (shift8_core true CntCL (rf_read (regs s) CL)); [apply rf_read_range8; reflexivity|reflexivity|].
      exact (calc_rm_r_8f_tail c i s Hwf HI Hn Hs0 (shl8_op c) _ _ K1 R1).
    - unfold instr_shr_rm8_cl. rewrite Ec. rewrite (bind_ok _ _ _ _ _ (dbg_code_ok c s _ eq_refl)).
      apply (shift8_core false CntCL (rf_read (regs s) CL)); [apply rf_read_range8; reflexivity|reflexivity|].
      exact (calc_rm_r_8f_tail c i s Hwf HI Hn Hs0 (shr8_op c) _ _ K1 R1).
    - unfold instr_shl_rm8_imm8. rewrite Ec. rewrite (bind_ok _ _ _ _ _ (dbg_code_ok c s _ eq_refl)).
      apply (shift8_core true CntImm (i_immediate8 i)); [lia|reflexivity|].
      exact (calc_rm_imm_8f_tail c i s Hwf HI Hn Hs0 (shl8_op c) _ _ K1 R1).
    - unfold instr_shr_rm8_imm8. rewrite Ec. rewrite (bind_ok _ _ _ _ _ (dbg_code_ok c s _ eq_refl)).
      apply (shift8_core false CntImm (i_immediate8 i)); [lia|reflexivity|].
      exact (calc_rm_imm_8f_tail c i s Hwf HI Hn Hs0 (shr8_op c) _ _ K1 R1).
  Qed.
End Shift8Forms.

(* ---- the one-bit encodings (D1 /4, D1 /5; D0 /4, D0 /5 at 8 bits): SHL / SHR r/m8, 1 ---- *)
Definition shl8_1_op (c : cfg) (v_d v_s : Z) : outcome (Z * Z) :=
  (_ <~ (debug_assert_that c (v_s =? 1)) ;;
  let v_cf := (if ((Z.land v_d 128) =? 0) then 0 else FLAG_CF) in
  let v_of := (if (Bool.eqb ((Z.land v_d 64) =? 0) (v_cf =? 0)) then 0 else FLAG_OF) in
  Ok (((wshl U8 v_d 1), (Z.lor v_cf v_of))))%out.

Definition shr8_1_op (c : cfg) (v_d v_s : Z) : outcome (Z * Z) :=
  (_ <~ (debug_assert_that c (v_s =? 1)) ;;
  let v_cf := (if (negb ((Z.land v_d 1) =? 0)) then FLAG_CF else 0) in
  let v_of := (if (negb ((Z.land v_d 128) =? 0)) then FLAG_OF else 0) in
  Ok (((wshr U8 v_d 1), (Z.lor v_cf v_of))))%out.

Lemma shl8_1_op_spec c d : 0 <= d < 2 ^ 8 ->
  shl8_1_op c d 1 =
  (let r := (d * 2 ^ 1) mod 2 ^ 8 in let cf := Z.testbit d (8 - 1) in
   Ok (r, Z.lor (b2f (xorb (msb 8 r) cf) FLAG_OF) (b2f cf FLAG_CF))).
Proof.
  intros Hd. unfold shl8_1_op. cbv zeta.
  assert (DA : debug_assert_that c (1 =? 1) = Ok tt) by (unfold debug_assert_that, assert_that; destruct (dbg c); reflexivity).
  rewrite DA. cbn [obind].
  assert (W : wshl U8 d 1 = (d * 2 ^ 1) mod 2 ^ 8) by reflexivity. rewrite W.
  set (r := (d * 2 ^ 1) mod 2 ^ 8).
  change 128 with (2 ^ 7). change 64 with (2 ^ 6).
  rewrite !land_pow2_testbit by lia.
  assert (R : msb 8 r = Z.testbit d 6).
  { unfold msb, r. change (8 - 1) with 7. rewrite Z.mod_pow2_bits_low by lia. rewrite Z.mul_pow2_bits by lia. f_equal. }
  rewrite R. change (8 - 1) with 7.
  f_equal. f_equal. rewrite Z.lor_comm.
  destruct (Z.testbit d 7), (Z.testbit d 6); reflexivity.
Qed.

Lemma shr8_1_op_spec c d : 0 <= d < 2 ^ 8 ->
  shr8_1_op c d 1 =
  (let r := d / 2 ^ 1 in let cf := Z.testbit d (1 - 1) in
   Ok (r, Z.lor (b2f (msb 8 d) FLAG_OF) (b2f cf FLAG_CF))).
Proof.
  intros Hd. unfold shr8_1_op. cbv zeta.
  assert (DA : debug_assert_that c (1 =? 1) = Ok tt) by (unfold debug_assert_that, assert_that; destruct (dbg c); reflexivity).
  rewrite DA. cbn [obind].
  assert (W : wshr U8 d 1 = d / 2 ^ 1).
  { unfold wshr, shr_raw, Bits.sem, enc, modulus; cbn [signed width]. change (1 mod 8) with 1. apply Z.mod_small.
    change (2 ^ 1) with 2. change (2 ^ 8) with 256 in *. lia. }
  rewrite W. change (Z.land d 1) with (Z.land d (2 ^ 0)). rewrite (land_pow2_testbit d 0) by lia. rewrite negb_involutive.
  change 128 with (2 ^ 7). rewrite land_pow2_testbit by lia. rewrite negb_involutive.
  unfold msb. change (8 - 1) with 7. change (1 - 1) with 0.
  f_equal. f_equal. rewrite Z.lor_comm. destruct (Z.testbit d 7), (Z.testbit d 0); reflexivity.
Qed.

Section Shift8One.
  Variables (c : cfg) (i : instr) (s : mstate).
  Hypothesis Hwf : wf_regs s.
  Hypothesis HI : Inv (mem s).
  Hypothesis Hrf : 0 <= rflags s < 2 ^ 64.
  Hypothesis Hn : i_op_count i = 2.
  Hypothesis Hs0 : rm8_shape i 0.
  Hypothesis K1 : i_op_kind i 1 = OK_Immediate8.
  Hypothesis R1 : i_immediate8 i = 1.

  Lemma one_core8 (left : bool) run op :
    (forall d, 0 <= d < 2 ^ 8 ->
       op d 1 = (let r := if left then (d * 2 ^ 1) mod 2 ^ 8 else d / 2 ^ 1 in
                 let cf := if left then Z.testbit d (8 - 1) else Z.testbit d (1 - 1) in
                 let ofb := if left then xorb (msb 8 r) cf else msb 8 d in
                 Ok (r, Z.lor (b2f ofb FLAG_OF) (b2f cf FLAG_CF)))) ->
    shift_tail8 c i s op (Z.lor (Z.lor FLAG_PF FLAG_ZF) FLAG_SF) (Z.lor FLAG_CF FLAG_OF) 1 run ->
    shift8_refines i s left CntOne run.
  Proof.
    intros OPS ST. unfold shift8_refines. cbn [isa_exec]. unfold exec_shift.
    change (shift_count CntOne 8 i s) with 1. change (1 =? 0) with false. cbv iota.
    unfold shift_tail8 in ST.
    destruct (read_op i 0 8 s) as [d|]; [|destruct ST as [e ST]; exists e, 0; left; exact ST]. destruct ST as [Hd ST].
    pose proof (OPS d Hd) as OP. cbv zeta in OP.
    set (r := if left then (d * 2 ^ 1) mod 2 ^ 8 else d / 2 ^ 1) in *.
    set (cfb := if left then Z.testbit d (8 - 1) else Z.testbit d (1 - 1)) in *.
    set (ofb := if left then xorb (msb 8 r) cfb else msb 8 d) in *.
    assert (Hr : 0 <= r < 2 ^ 8).
    { unfold r. destruct left; [apply Z.mod_pos_bound; reflexivity|]. change (2 ^ 1) with 2. change (2 ^ 8) with 256 in *. lia. }
    assert (Hfl : Z.land (Z.lor (b2f ofb FLAG_OF) (b2f cfb FLAG_CF)) NO_WRITEBACK = 0) by (destruct ofb, cfb; reflexivity).
    rewrite (ST _ _ OP Hfl).
    change (Z.lor (Z.lor (Z.lor FLAG_PF FLAG_ZF) FLAG_SF) (Z.lor (b2f ofb FLAG_OF) (b2f cfb FLAG_CF))) with (arith_fs cfb ofb).
    change (Z.lor FLAG_CF FLAG_OF) with 2049.
    rewrite (bind_ok _ _ _ _ _ (set_flags_u8_arith c cfb ofb _ s Hrf)).
    change (Z.land (Z.lor (Z.lor FLAG_PF FLAG_ZF) FLAG_SF) NO_WRITEBACK =? 0) with true. cbv iota zeta.
    exact (finish8 c i s Hwf HI Hn Hs0 _ r _ _ Hr (eq_refl _)).
  Qed.

  Theorem shl_rm8_1_refines : i_code i = C_Shl_rm8_1 -> shift8_refines i s true CntOne (instr_shl_rm8_1 c i s).
  Proof.
    intros Ec. unfold instr_shl_rm8_1. rewrite Ec. rewrite (bind_ok _ _ _ _ _ (dbg_code_ok c s _ eq_refl)).
    apply (one_core8 true _ (shl8_1_op c)).
    - intros d Hd. exact (shl8_1_op_spec c d Hd).
    - pose proof (calc_rm_imm_8f_tail c i s Hwf HI Hn Hs0 (shl8_1_op c) (Z.lor (Z.lor FLAG_PF FLAG_ZF) FLAG_SF) (Z.lor FLAG_CF FLAG_OF) K1 ltac:(rewrite R1; cbn; lia)) as X.
      rewrite R1 in X. exact X.
  Qed.

  Theorem shr_rm8_1_refines : i_code i = C_Shr_rm8_1 -> shift8_refines i s false CntOne (instr_shr_rm8_1 c i s).
  Proof.
    intros Ec. unfold instr_shr_rm8_1. rewrite Ec. rewrite (bind_ok _ _ _ _ _ (dbg_code_ok c s _ eq_refl)).
    apply (one_core8 false _ (shr8_1_op c)).
    - intros d Hd. exact (shr8_1_op_spec c d Hd).
    - pose proof (calc_rm_imm_8f_tail c i s Hwf HI Hn Hs0 (shr8_1_op c) (Z.lor (Z.lor FLAG_PF FLAG_ZF) FLAG_SF) (Z.lor FLAG_CF FLAG_OF) K1 ltac:(rewrite R1; cbn; lia)) as X.
      rewrite R1 in X. exact X.
  Qed.
End Shift8One.
