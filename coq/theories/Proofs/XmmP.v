(* C01/C06: the vector-register forms - XORPS, MOVUPS (load, store, register), MOVD (to and from an XMM register) -
   against the ISA specification.  XORPS with a memory operand requires 16-byte alignment (the specification's
   #GP, the emulator's error); MOVUPS does not. *)
From Coq Require Import ZArith Bool List Lia.
From AxV Require Import Bits Outcome Codes Iced State Rt Mem Trace BitsP ByteStore MemP RegFile RegsP ISA CodeSem ReadonlyTac
  OperandP FlagsP CfP MovP RmP AluP Alu32P Div32P.
From AxG Require Import Flags Regs Operand Helpers I_xorps I_movups I_movd.
Local Open Scope Z_scope.
Ltac Zify.zify_post_hook ::= Z.div_mod_to_equations.

Lemma xmm_supported r : is_xmm r = true -> is_supported r = true.
Proof. destruct r; intros H; try discriminate H; reflexivity. Qed.

Lemma xmm_read_ok c r s : is_xmm r = true -> internal_reg_read_128 c r s = (Ok (xmms s r), s).
Proof.
  intros H. unfold internal_reg_read_128, iced_of_sup.
  assert (S : sup_to_iced_ok r = true) by (destruct r; try discriminate H; reflexivity).
  rewrite S. unfold bind, lift, assert_fatal_that, xmm_get, unwrap_o, ret. rewrite H. reflexivity.
Qed.

Lemma xmm_write_ok c r v s : is_xmm r = true -> internal_reg_write_128 c r v s = (Ok tt, set_xmms s (upd (xmms s) r v)).
Proof.
  intros H. unfold internal_reg_write_128, iced_of_sup.
  assert (S : sup_to_iced_ok r = true) by (destruct r; try discriminate H; reflexivity).
  rewrite S. unfold bind, lift, assert_fatal_that, xmm_insert, ret. rewrite H. reflexivity.
Qed.

Lemma ea_range i s : 0 <= ea i s < 2 ^ 64.
Proof. unfold ea. apply Z.mod_pos_bound. reflexivity. Qed.

Lemma rem16 a : 0 <= a < 2 ^ 64 -> rem_chk U64 a 16 = Ok (a mod 16).
Proof.
  intros H. unfold rem_chk. change (16 =? 0) with false. cbv iota. cbn [signed andb].
  unfold wrem, Bits.sem; cbn [signed]. rewrite Z.rem_mod_nonneg by lia. f_equal. apply enc_small.
  unfold modulus; cbn [width]. change (2 ^ 64) with 18446744073709551616 in *. lia.
Qed.

(* the vector operand: an XMM register, or memory *)
Definition xmmm_shape (i : instr) (k : Z) : Prop :=
  (i_op_kind i k = OK_Register /\ is_xmm (i_op_register i k) = true) \/
  (i_op_kind i k = OK_Memory /\ wf_mem_instr i).

Section Xmm.
  Variables (c : cfg) (i : instr) (s : mstate).
  Hypothesis Hwf : wf_regs s.
  Hypothesis HI : Inv (mem s).
  Hypothesis Hn : i_op_count i = 2.

  Definition xmm_refines (sm : sem) (run : outcome unit * mstate) : Prop :=
    match isa_exec sm i s with
    | IDone s' u => run = (Ok tt, s') /\ u = 0
    | IFault FMem => exists e, run = (Err e, s)
    | IFault FAlign => exists e, run = (Err e, s)
    | IFault _ => False
    end.

  Lemma op_xmm k : (k <? i_op_count i) = true -> i_op_kind i k = OK_Register -> is_xmm (i_op_register i k) = true ->
    instruction_operand c i k s = (Ok (OpRegister (i_op_register i k)), s).
  Proof. intros Hk K H. apply operand_register; [exact Hk|exact K|reflexivity|apply xmm_supported; exact H]. Qed.

  Lemma operands2 o0 o1 :
    instruction_operand c i 0 s = (Ok o0, s) -> instruction_operand c i 1 s = (Ok o1, s) ->
    instruction_operands_2 c i s = (Ok (o0, o1), s).
  Proof. intros A B. unfold instruction_operands_2. rewrite (bind_ok _ _ _ _ _ A). rewrite (bind_ok _ _ _ _ _ B). reflexivity. Qed.

  (* XORPS xmm, xmm/m128 *)
  Theorem xorps_refines :
    i_op_kind i 0 = OK_Register -> is_xmm (i_op_register i 0) = true -> xmmm_shape i 1 ->
    i_code i = C_Xorps_xmm_xmmm128 -> xmm_refines SXorps (instr_xorps_xmm_xmmm128 c i s).
  Proof.
    intros K0 H0 Hs1 Ec. unfold xmm_refines, instr_xorps_xmm_xmmm128. rewrite Ec.
    rewrite (bind_ok _ _ _ _ _ (dbg_code_ok c s _ eq_refl)).
    pose proof (op_xmm 0 ltac:(rewrite Hn; reflexivity) K0 H0) as O0.
    cbn [isa_exec].
    destruct Hs1 as [[K1 H1]|[K1 Hm]]; rewrite K1.
    - pose proof (op_xmm 1 ltac:(rewrite Hn; reflexivity) K1 H1) as O1.
      rewrite (bind_ok _ _ _ _ _ (operands2 _ _ O0 O1)). cbv beta iota.
      rewrite (bind_ok _ _ _ _ _ (eq_refl : lift (operand_to_reg (OpRegister (i_op_register i 0))) s = _)).
      rewrite (bind_ok _ _ _ _ _ (xmm_read_ok c _ s H1)).
      rewrite (bind_ok _ _ _ _ _ (xmm_read_ok c _ s H0)).
      rewrite (bind_ok _ _ _ _ _ (xmm_write_ok c _ _ s H0)). split; reflexivity.
    - destruct (operand_address c i 1 s Hwf Hm ltac:(rewrite Hn; reflexivity) K1) as (O1 & EA & _).
      rewrite (bind_ok _ _ _ _ _ (operands2 _ _ O0 O1)). cbv beta iota.
      rewrite (bind_ok _ _ _ _ _ (eq_refl : lift (operand_to_reg (OpRegister (i_op_register i 0))) s = _)).
      rewrite bind_assoc. rewrite (bind_ok _ _ _ _ _ EA).
      rewrite (rem16 _ (ea_range i s)). rewrite bind_assoc.
      rewrite (bind_ok _ _ _ _ _ (eq_refl : lift (Ok (ea i s mod 16)) s = _)).
      destruct (Z.eqb_spec (ea i s mod 16) 0) as [Al|NAl]; cbn [negb].
      + rewrite bind_assoc. rewrite (bind_ok _ _ _ _ _ (eq_refl : ret tt s = _)).
        unfold load. change internal_mem_read_128 with (mem_read_n 16).
        destruct (mem_read_n_cases 16 (ea i s) s HI) as [(v & E & R)|(e & E)]; rewrite E.
        * rewrite (bind_ok _ _ _ _ _ E).
          rewrite (bind_ok _ _ _ _ _ (xmm_read_ok c _ s H0)).
          rewrite (bind_ok _ _ _ _ _ (xmm_write_ok c _ _ s H0)). split; reflexivity.
        * exists e. rewrite (bind_err _ _ _ _ _ E). reflexivity.
      + eexists. rewrite bind_assoc. unfold bind at 1. unfold fail. reflexivity.
  Qed.

  (* MOVUPS xmm, xmm/m128 *)
  Theorem movups_load_refines :
    i_op_kind i 0 = OK_Register -> is_xmm (i_op_register i 0) = true -> xmmm_shape i 1 ->
    i_code i = C_Movups_xmm_xmmm128 -> xmm_refines SMovups (instr_movups_xmm_xmmm128 c i s).
  Proof.
    intros K0 H0 Hs1 Ec. unfold xmm_refines, instr_movups_xmm_xmmm128. rewrite Ec.
    rewrite (bind_ok _ _ _ _ _ (dbg_code_ok c s _ eq_refl)).
    pose proof (op_xmm 0 ltac:(rewrite Hn; reflexivity) K0 H0) as O0.
    cbn [isa_exec]. rewrite K0.
    destruct Hs1 as [[K1 H1]|[K1 Hm]]; rewrite K1.
    - pose proof (op_xmm 1 ltac:(rewrite Hn; reflexivity) K1 H1) as O1.
      rewrite (bind_ok _ _ _ _ _ (operands2 _ _ O0 O1)). cbv beta iota.
      rewrite (bind_ok _ _ _ _ _ (eq_refl : lift (operand_to_reg (OpRegister (i_op_register i 0))) s = _)).
      rewrite (bind_ok _ _ _ _ _ (xmm_read_ok c _ s H1)).
      rewrite (xmm_write_ok c _ _ s H0). split; reflexivity.
    - destruct (operand_address c i 1 s Hwf Hm ltac:(rewrite Hn; reflexivity) K1) as (O1 & EA & _).
      rewrite (bind_ok _ _ _ _ _ (operands2 _ _ O0 O1)). cbv beta iota.
      rewrite (bind_ok _ _ _ _ _ (eq_refl : lift (operand_to_reg (OpRegister (i_op_register i 0))) s = _)).
      rewrite bind_assoc. rewrite (bind_ok _ _ _ _ _ EA).
      unfold load. change internal_mem_read_128 with (mem_read_n 16).
      destruct (mem_read_n_cases 16 (ea i s) s HI) as [(v & E & R)|(e & E)]; rewrite E.
      + rewrite (bind_ok _ _ _ _ _ E). rewrite (xmm_write_ok c _ _ s H0). split; reflexivity.
      + exists e. rewrite (bind_err _ _ _ _ _ E). reflexivity.
  Qed.

  (* MOVUPS xmm/m128, xmm *)
  Theorem movups_store_refines :
    xmmm_shape i 0 -> i_op_kind i 1 = OK_Register -> is_xmm (i_op_register i 1) = true ->
    i_code i = C_Movups_xmmm128_xmm -> xmm_refines SMovups (instr_movups_xmmm128_xmm c i s).
  Proof.
    intros Hs0 K1 H1 Ec. unfold xmm_refines, instr_movups_xmmm128_xmm. rewrite Ec.
    rewrite (bind_ok _ _ _ _ _ (dbg_code_ok c s _ eq_refl)).
    pose proof (op_xmm 1 ltac:(rewrite Hn; reflexivity) K1 H1) as O1.
    cbn [isa_exec].
    destruct Hs0 as [[K0 H0]|[K0 Hm]]; rewrite K0, K1.
    - pose proof (op_xmm 0 ltac:(rewrite Hn; reflexivity) K0 H0) as O0.
      rewrite (bind_ok _ _ _ _ _ (operands2 _ _ O0 O1)). cbv beta iota.
      rewrite (bind_ok _ _ _ _ _ (eq_refl : lift (operand_to_reg (OpRegister (i_op_register i 1))) s = _)).
      rewrite (bind_ok _ _ _ _ _ (xmm_read_ok c _ s H1)).
      rewrite (xmm_write_ok c _ _ s H0). split; reflexivity.
    - destruct (operand_address c i 0 s Hwf Hm ltac:(rewrite Hn; reflexivity) K0) as (O0 & EA & _).
      rewrite (bind_ok _ _ _ _ _ (operands2 _ _ O0 O1)). cbv beta iota.
      rewrite (bind_ok _ _ _ _ _ (eq_refl : lift (operand_to_reg (OpRegister (i_op_register i 1))) s = _)).
      rewrite (bind_ok _ _ _ _ _ (xmm_read_ok c _ s H1)).
      rewrite (bind_ok _ _ _ _ _ EA).
      unfold store. change internal_mem_write_128 with mem_write_128. unfold mem_write_128.
      destruct (write_never_panics (ea i s) (le_bytes 16 (xmms s (i_op_register i 1))) s HI) as [(s2 & E)|(e & E)]; rewrite E; cbn [opt_done].
      + split; reflexivity.
      + exists e. reflexivity.
  Qed.

  (* MOVD xmm, r/m32: the 32-bit value zero-extended to 128 bits *)
  Theorem movd_to_xmm_refines :
    i_op_kind i 0 = OK_Register -> is_xmm (i_op_register i 0) = true -> rm32_shape i 1 ->
    i_code i = C_Movd_xmm_rm32 -> xmm_refines SMovdToXmm (instr_movd_xmm_rm32 c i s).
  Proof.
    intros K0 H0 Hs1 Ec. unfold xmm_refines, instr_movd_xmm_rm32. rewrite Ec.
    rewrite (bind_ok _ _ _ _ _ (dbg_code_ok c s _ eq_refl)).
    pose proof (op_xmm 0 ltac:(rewrite Hn; reflexivity) K0 H0) as O0.
    cbn [isa_exec]. unfold read_op.
    assert (C128 : forall v, 0 <= v < 2 ^ 32 -> cast U64 U128 v = v).
    { intros v Hv. unfold cast, Bits.sem, enc, modulus; cbn [signed width]. apply Z.mod_small.
      change (2 ^ 128) with 340282366920938463463374607431768211456. change (2 ^ 32) with 4294967296 in *. lia. }
    destruct Hs1 as [[K1 H1]|[K1 Hm]]; rewrite K1.
    - assert (O1 : instruction_operand c i 1 s = (Ok (OpRegister (i_op_register i 1)), s))
        by (apply operand_register; [rewrite Hn; reflexivity|exact K1|reflexivity|apply gpr32_supported; exact H1]).
      rewrite (bind_ok _ _ _ _ _ (operands2 _ _ O0 O1)). cbv beta iota.
      rewrite (bind_ok _ _ _ _ _ (reg_read_32_ok c _ s Hwf H1)). cbv zeta.
      rewrite rf_read_mod32 by exact H1.
      rewrite (C128 _ (rf_read_range32 (regs s) _ H1)).
      rewrite (xmm_write_ok c _ _ s H0). split; reflexivity.
    - destruct (operand_address c i 1 s Hwf Hm ltac:(rewrite Hn; reflexivity) K1) as (O1 & EA & _).
      rewrite (bind_ok _ _ _ _ _ (operands2 _ _ O0 O1)). cbv beta iota.
      rewrite bind_assoc. rewrite (bind_ok _ _ _ _ _ EA).
      unfold load. change (bytes_of 32) with 4%nat. change mem_read_32 with (mem_read_n 4).
      destruct (mem_read_n_cases 4 (ea i s) s HI) as [(v & E & R)|(e & E)]; rewrite E.
      + rewrite (bind_ok _ _ _ _ _ E). cbv zeta. rewrite (C128 v R).
        rewrite (xmm_write_ok c _ _ s H0). split; reflexivity.
      + exists e. rewrite (bind_err _ _ _ _ _ E). reflexivity.
  Qed.

  (* MOVD r/m32, xmm: the low 32 bits of the vector register (a register destination is zero-extended) *)
  Theorem movd_from_xmm_refines :
    rm32_shape i 0 -> i_op_kind i 1 = OK_Register -> is_xmm (i_op_register i 1) = true ->
    i_code i = C_Movd_rm32_xmm -> xmm_refines SMovdFromXmm (instr_movd_rm32_xmm c i s).
  Proof.
    intros Hs0 K1 H1 Ec. unfold xmm_refines, instr_movd_rm32_xmm. rewrite Ec.
    rewrite (bind_ok _ _ _ _ _ (dbg_code_ok c s _ eq_refl)).
    pose proof (op_xmm 1 ltac:(rewrite Hn; reflexivity) K1 H1) as O1.
    cbn [isa_exec]. unfold write_op.
    set (x := xmms s (i_op_register i 1)) in *.
    assert (LV : cast U128 U64 (Z.land x 4294967295) = x mod 2 ^ 32).
    { change 4294967295 with (Z.ones 32). rewrite Z.land_ones by lia.
      unfold cast, Bits.sem, enc, modulus; cbn [signed width]. apply Z.mod_small.
      pose proof (Z.mod_pos_bound x (2 ^ 32) ltac:(reflexivity)). change (2 ^ 64) with 18446744073709551616. change (2 ^ 32) with 4294967296 in *. lia. }
    assert (Rv : 0 <= x mod 2 ^ 32 < 2 ^ 32) by (apply Z.mod_pos_bound; reflexivity).
    destruct Hs0 as [[K0 H0]|[K0 Hm]]; rewrite K0.
    - assert (O0 : instruction_operand c i 0 s = (Ok (OpRegister (i_op_register i 0)), s))
        by (apply operand_register; [rewrite Hn; reflexivity|exact K0|reflexivity|apply gpr32_supported; exact H0]).
      rewrite (bind_ok _ _ _ _ _ (operands2 _ _ O0 O1)). cbv beta iota zeta.
      rewrite bind_assoc. rewrite (bind_ok _ _ _ _ _ (xmm_read_ok c _ s H1)). fold x.
      rewrite (bind_ok _ _ _ _ _ (eq_refl : ret (cast U128 U64 (Z.land x 4294967295)) s = _)). rewrite LV.
      rewrite (reg_write_32_ok c _ _ s H0 Rv). cbn [opt_done]. split; reflexivity.
    - destruct (operand_address c i 0 s Hwf Hm ltac:(rewrite Hn; reflexivity) K0) as (O0 & EA & _).
      rewrite (bind_ok _ _ _ _ _ (operands2 _ _ O0 O1)). cbv beta iota zeta.
      rewrite bind_assoc. rewrite (bind_ok _ _ _ _ _ (xmm_read_ok c _ s H1)). fold x.
      rewrite (bind_ok _ _ _ _ _ (eq_refl : ret (cast U128 U64 (Z.land x 4294967295)) s = _)). rewrite LV.
      rewrite (bind_ok _ _ _ _ _ EA).
      unfold store. change (bytes_of 32) with 4%nat.
      rewrite (typed_write_32_is_le (ea i s) (x mod 2 ^ 32) s Rv).
      destruct (write_never_panics (ea i s) (le_bytes 4 (x mod 2 ^ 32)) s HI) as [(s2 & E)|(e & E)]; rewrite E; cbn [opt_done].
      + split; reflexivity.
      + exists e. reflexivity.
  Qed.
End Xmm.
