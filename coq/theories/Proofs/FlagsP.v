(* C02: the generated flag helper (state/flags.rs set_flags!) against the specification's
   set_status / szp. *)
From Coq Require Import ZArith Bool List Lia.
From AxV Require Import Bits Outcome Codes Iced State Rt Mem Trace BitsP ISA.
From AxG Require Import Flags.
Local Open Scope Z_scope.

Lemma land_pow2_testbit r k : 0 <= k -> (Z.land r (2 ^ k) =? 0) = negb (Z.testbit r k).
Proof.
  intros Hk. destruct (Z.testbit r k) eqn:T; cbn [negb].
  - apply Z.eqb_neq. intros E. assert (X : Z.testbit (Z.land r (2 ^ k)) k = false) by (rewrite E; apply Z.testbit_0_l).
    rewrite Z.land_spec, T, Z.pow2_bits_true in X by lia. discriminate.
  - apply Z.eqb_eq. apply Z.bits_inj'. intros j Hj. rewrite Z.land_spec, Z.testbit_0_l.
    destruct (Z.eq_dec j k) as [->|N]; [rewrite T; reflexivity|]. rewrite Z.pow2_bits_false by lia. apply andb_false_r.
Qed.

Definition b2z (b : bool) : Z := if b then 1 else 0.
Definition popcount8 (r : Z) : Z :=
  b2z (Z.testbit r 0) + b2z (Z.testbit r 1) + b2z (Z.testbit r 2) + b2z (Z.testbit r 3) +
  b2z (Z.testbit r 4) + b2z (Z.testbit r 5) + b2z (Z.testbit r 6) + b2z (Z.testbit r 7).

Lemma parity8_popcount r : parity8 r = (popcount8 r mod 2 =? 0).
Proof.
  unfold parity8, popcount8, b2z.
  destruct (Z.testbit r 0), (Z.testbit r 1), (Z.testbit r 2), (Z.testbit r 3),
           (Z.testbit r 4), (Z.testbit r 5), (Z.testbit r 6), (Z.testbit r 7); reflexivity.
Qed.

Lemma shl1 c t k : 0 <= k < width t -> width t <= 64 -> shl_chk c t 1 k = Ok (2 ^ k).
Proof.
  intros H Hw. unfold shl_chk. destruct (Z.ltb_spec k (width t)); [|lia]. f_equal.
  unfold shl_raw. rewrite Z.mul_1_l. apply enc_small. unfold modulus.
  split; [apply Z.pow_nonneg; lia|apply Z.pow_lt_mono_r; lia].
Qed.

Lemma addc c k : 0 <= k < 100 -> add_chk c I32 k 1 = Ok (k + 1).
Proof.
  intros H. unfold add_chk.
  assert (S : Bits.sem I32 k = k) by (unfold Bits.sem; cbn [signed width]; change (2 ^ (32 - 1)) with 2147483648; destruct (Z.ltb_spec k 2147483648); [reflexivity|lia]).
  assert (S1 : Bits.sem I32 1 = 1) by reflexivity.
  assert (R : in_range I32 (Bits.sem I32 k + Bits.sem I32 1) = true).
  { rewrite S, S1. unfold in_range; cbn [signed width]. change (2 ^ (32 - 1)) with 2147483648. apply andb_true_iff. split; [apply Z.leb_le|apply Z.ltb_lt]; lia. }
  assert (W : wadd I32 k 1 = k + 1) by (unfold wadd; apply enc_small; unfold modulus; cbn [width]; change (2 ^ 32) with 4294967296; lia).
  destruct (ovf c); rewrite ?R, W; reflexivity.
Qed.

Lemma remc k : 0 <= k < 100 -> rem_chk I32 k 2 = Ok (k mod 2).
Proof.
  intros H. unfold rem_chk. change (2 =? 0) with false. cbv iota.
  assert (S : Bits.sem I32 k = k) by (unfold Bits.sem; cbn [signed width]; change (2 ^ (32 - 1)) with 2147483648; destruct (Z.ltb_spec k 2147483648); [reflexivity|lia]).
  assert (S2 : Bits.sem I32 2 = 2) by reflexivity.
  rewrite S, S2. cbn [signed andb]. change (2 =? -1) with false. rewrite andb_false_r. f_equal.
  unfold wrem. rewrite S, S2.
  rewrite Z.rem_mod_nonneg by lia. apply enc_small. unfold modulus; cbn [width]. change (2 ^ 32) with 4294967296.
  pose proof (Z.mod_pos_bound k 2 ltac:(lia)). lia.
Qed.

(* one round of the parity loop, with the test left symbolic *)
Lemma count_step {B} c (b : bool) k (F : Z -> MM B) s :
  0 <= k < 100 ->
  bind (if b then bind (lift (add_chk c I32 k 1)) (fun v => ret v) else ret k) F s = F (k + b2z b) s.
Proof.
  intros H. destruct b; cbn [b2z].
  - rewrite addc by exact H. unfold bind, lift, ret. reflexivity.
  - rewrite Z.add_0_r. reflexivity.
Qed.

Lemma bind_lift_ok {A B} (a : A) (F : A -> MM B) s : bind (lift (Ok a)) F s = F a s.
Proof. reflexivity. Qed.

(* the flag word the helper builds, as a function of the three result predicates *)
Definition emu_flags (rf fs fc : Z) (p sg z : bool) : Z :=
  let base := Z.land (Z.land rf (wnot U64 fs)) (wnot U64 fc) in
  let b1 := if negb (Z.land fs FLAG_CF =? 0) then Z.lor base FLAG_CF else base in
  let b2 := if negb (Z.land fs FLAG_OF =? 0) then Z.lor b1 FLAG_OF else b1 in
  let b3 := if z then Z.lor b2 FLAG_ZF else b2 in
  let b4 := if sg then Z.lor b3 FLAG_SF else b3 in
  if negb (Z.land fs FLAG_PF =? 0) then (if p then Z.lor b4 FLAG_PF else b4) else b4.

Lemma bind_assoc' {A B C} (m : MM A) (f : A -> MM B) (g : B -> MM C) s :
  bind (bind m f) g s = bind m (fun x => bind (f x) g) s.
Proof. unfold bind. destruct (m s) as [[a|e|p|] s1]; reflexivity. Qed.
Lemma bind_get_rflags {B} (F : Z -> MM B) s : bind get_rflags F s = F (rflags s) s.
Proof. reflexivity. Qed.

Lemma bind_ret_ok {A B} (a : A) (F : A -> MM B) s : bind (ret a) F s = F a s.
Proof. reflexivity. Qed.
Lemma bind_put_rflags {B} v (F : unit -> MM B) s : bind (put_rflags v) F s = F tt (set_rflags s v).
Proof. reflexivity. Qed.

Ltac closed_fs_tests :=
  repeat match goal with
  | |- context [Z.land (Z.lor 196 ?x) ?k =? 0] =>
      let v := eval vm_compute in (Z.land (Z.lor 196 x) k =? 0) in change (Z.land (Z.lor 196 x) k =? 0) with v
  | |- context [Z.land (Z.lor 9223372036854776004 ?x) ?k =? 0] =>
      let v := eval vm_compute in (Z.land (Z.lor 9223372036854776004 x) k =? 0) in change (Z.land (Z.lor 9223372036854776004 x) k =? 0) with v
  end.
Ltac small_count := unfold b2z; repeat match goal with |- context [if ?b then 1 else 0] => destruct b end; lia.

Ltac set_flags_eval F T K :=
  cbv zeta; unfold F;
  match goal with c : cfg |- _ =>
  match goal with |- context [b2f ?ofb FLAG_OF] => match goal with |- context [b2f ?cfb FLAG_CF] =>
  destruct cfb, ofb; cbn [b2f];
  (match goal with |- context [?a =? FLAGS_UNAFFECTED] => let b := eval vm_compute in (a =? FLAGS_UNAFFECTED) in change (a =? FLAGS_UNAFFECTED) with b end; cbv iota);
  closed_fs_tests; cbn [negb]; cbv iota zeta;
  repeat first
    [ rewrite bind_assoc'
    | rewrite bind_get_rflags; cbv beta
    | rewrite bind_lift_ok; cbv beta
    | rewrite (shl1 c T) by (cbn; lia)
    | rewrite count_step by small_count; cbv beta
    | rewrite remc by small_count
    | rewrite bind_ret_ok; cbv beta
    | rewrite bind_put_rflags; cbv beta ];
  unfold ret; f_equal; f_equal;
  unfold emu_flags; closed_fs_tests; cbn [negb]; cbv iota zeta;
  rewrite !land_pow2_testbit by lia; rewrite !negb_involutive;
  rewrite parity8_popcount; unfold popcount8; rewrite Z.add_0_l;
  reflexivity end end end.

Lemma set_flags_u64_eval c (cfb ofb : bool) r s :
  let fs := Z.lor 196 (Z.lor (b2f ofb FLAG_OF) (b2f cfb FLAG_CF)) in
  set_flags_u64 c fs 2049 r s
  = (Ok tt, set_rflags s (emu_flags (rflags s) fs 2049 (parity8 r) (Z.testbit r 63) (r =? 0))).
Proof. set_flags_eval set_flags_u64 U64 63. Qed.
Lemma set_flags_u32_eval c (cfb ofb : bool) r s :
  let fs := Z.lor 196 (Z.lor (b2f ofb FLAG_OF) (b2f cfb FLAG_CF)) in
  set_flags_u32 c fs 2049 r s
  = (Ok tt, set_rflags s (emu_flags (rflags s) fs 2049 (parity8 r) (Z.testbit r 31) (r =? 0))).
Proof. set_flags_eval set_flags_u32 U32 31. Qed.
Lemma set_flags_u16_eval c (cfb ofb : bool) r s :
  let fs := Z.lor 196 (Z.lor (b2f ofb FLAG_OF) (b2f cfb FLAG_CF)) in
  set_flags_u16 c fs 2049 r s
  = (Ok tt, set_rflags s (emu_flags (rflags s) fs 2049 (parity8 r) (Z.testbit r 15) (r =? 0))).
Proof. set_flags_eval set_flags_u16 U16 15. Qed.
Lemma set_flags_u8_eval c (cfb ofb : bool) r s :
  let fs := Z.lor 196 (Z.lor (b2f ofb FLAG_OF) (b2f cfb FLAG_CF)) in
  set_flags_u8 c fs 2049 r s
  = (Ok tt, set_rflags s (emu_flags (rflags s) fs 2049 (parity8 r) (Z.testbit r 7) (r =? 0))).
Proof. set_flags_eval set_flags_u8 U8 7. Qed.

Lemma land_trunc64 rf x : 0 <= rf < 2 ^ 64 -> Z.land rf x = Z.land rf (Z.land (Z.ones 64) x).
Proof.
  intros H. rewrite Z.land_assoc. f_equal. rewrite Z.land_ones by lia. symmetry. apply Z.mod_small. exact H.
Qed.

Lemma emu_flags_spec rf (cfb ofb p sg z : bool) :
  0 <= rf < 2 ^ 64 ->
  emu_flags rf (Z.lor 196 (Z.lor (b2f ofb FLAG_OF) (b2f cfb FLAG_CF))) 2049 p sg z
  = set_status rf ARITH (b2f cfb CF + b2f ofb OF + (b2f sg SF + b2f z ZF + b2f p PF)).
Proof.
  intros H. unfold set_status. rewrite (land_trunc64 rf (Z.lnot ARITH) H).
  destruct cfb, ofb, p, sg, z; cbn [b2f]; unfold emu_flags; closed_fs_tests; cbn [negb]; cbv iota zeta.
  all: repeat rewrite <- Z.lor_assoc; rewrite <- Z.land_assoc.
  all: try solve [apply (f_equal2 Z.lor); [apply (f_equal (Z.land rf)); vm_compute; reflexivity | vm_compute; reflexivity]].
  change (Z.land (0 + 0 + (0 + 0 + 0)) ARITH) with 0.
  rewrite (Z.lor_0_r (Z.land rf (Z.land (Z.ones 64) (Z.lnot ARITH)))).
  apply (f_equal (Z.land rf)). vm_compute. reflexivity.
Qed.

(* ---- C02: the arithmetic flag update of the emulator is the specification's ----
   For the four operand widths: with flags_to_set = SF|ZF|PF plus the carry / overflow bits the
   operation computed, and flags_to_clear = CF|OF, the helper replaces exactly the five
   arithmetic flags by (CF, OF, sign, zero, parity of the low byte) and keeps every other bit
   of RFLAGS - in both build configurations, for every result value. *)
Definition arith_fs (cfb ofb : bool) : Z := Z.lor 196 (Z.lor (b2f ofb FLAG_OF) (b2f cfb FLAG_CF)).

Theorem set_flags_u64_arith c cfb ofb r s : 0 <= rflags s < 2 ^ 64 ->
  set_flags_u64 c (arith_fs cfb ofb) 2049 r s = (Ok tt, with_flags s ARITH (b2f cfb CF + b2f ofb OF + szp 64 r)).
Proof. intros H. unfold arith_fs. rewrite set_flags_u64_eval. rewrite emu_flags_spec by exact H. reflexivity. Qed.
Theorem set_flags_u32_arith c cfb ofb r s : 0 <= rflags s < 2 ^ 64 ->
  set_flags_u32 c (arith_fs cfb ofb) 2049 r s = (Ok tt, with_flags s ARITH (b2f cfb CF + b2f ofb OF + szp 32 r)).
Proof. intros H. unfold arith_fs. rewrite set_flags_u32_eval. rewrite emu_flags_spec by exact H. reflexivity. Qed.
Theorem set_flags_u16_arith c cfb ofb r s : 0 <= rflags s < 2 ^ 64 ->
  set_flags_u16 c (arith_fs cfb ofb) 2049 r s = (Ok tt, with_flags s ARITH (b2f cfb CF + b2f ofb OF + szp 16 r)).
Proof. intros H. unfold arith_fs. rewrite set_flags_u16_eval. rewrite emu_flags_spec by exact H. reflexivity. Qed.
Theorem set_flags_u8_arith c cfb ofb r s : 0 <= rflags s < 2 ^ 64 ->
  set_flags_u8 c (arith_fs cfb ofb) 2049 r s = (Ok tt, with_flags s ARITH (b2f cfb CF + b2f ofb OF + szp 8 r)).
Proof. intros H. unfold arith_fs. rewrite set_flags_u8_eval. rewrite emu_flags_spec by exact H. reflexivity. Qed.

(* ---- the compare-only variant: flags_to_set additionally carries the emulator's NO_WRITEBACK
   marker (bit 63).  The marker is cleared from RFLAGS like a flag would be, so the statement
   needs the (architectural) fact that bit 63 of RFLAGS is reserved-zero. *)
Definition cmp_fs (cfb ofb : bool) : Z := Z.lor 9223372036854776004 (Z.lor (b2f ofb FLAG_OF) (b2f cfb FLAG_CF)).

Lemma set_flags_u64_eval_nw c (cfb ofb : bool) r s :
  let fs := Z.lor 9223372036854776004 (Z.lor (b2f ofb FLAG_OF) (b2f cfb FLAG_CF)) in
  set_flags_u64 c fs 2049 r s
  = (Ok tt, set_rflags s (emu_flags (rflags s) fs 2049 (parity8 r) (Z.testbit r 63) (r =? 0))).
Proof. set_flags_eval set_flags_u64 U64 63. Qed.

Lemma land_trunc63 rf x : 0 <= rf < 2 ^ 63 -> Z.land rf x = Z.land rf (Z.land (Z.ones 63) x).
Proof.
  intros H. rewrite Z.land_assoc. f_equal. rewrite Z.land_ones by lia. symmetry. apply Z.mod_small. exact H.
Qed.

Lemma emu_flags_spec_nw rf (cfb ofb p sg z : bool) :
  0 <= rf < 2 ^ 63 ->
  emu_flags rf (Z.lor 9223372036854776004 (Z.lor (b2f ofb FLAG_OF) (b2f cfb FLAG_CF))) 2049 p sg z
  = set_status rf ARITH (b2f cfb CF + b2f ofb OF + (b2f sg SF + b2f z ZF + b2f p PF)).
Proof.
  intros H. unfold set_status. rewrite (land_trunc63 rf (Z.lnot ARITH) H).
  destruct cfb, ofb, p, sg, z; cbn [b2f]; unfold emu_flags; closed_fs_tests; cbn [negb]; cbv iota zeta.
  all: repeat rewrite <- Z.lor_assoc; rewrite <- Z.land_assoc.
  all: rewrite (land_trunc63 rf (Z.land _ _) H).
  all: try solve [apply (f_equal2 Z.lor); [apply (f_equal (Z.land rf)); vm_compute; reflexivity | vm_compute; reflexivity]].
  change (Z.land (0 + 0 + (0 + 0 + 0)) ARITH) with 0.
  rewrite (Z.lor_0_r (Z.land rf (Z.land (Z.ones 63) (Z.lnot ARITH)))).
  apply (f_equal (Z.land rf)). vm_compute. reflexivity.
Qed.

Theorem set_flags_u64_cmp c cfb ofb r s : 0 <= rflags s < 2 ^ 63 ->
  set_flags_u64 c (cmp_fs cfb ofb) 2049 r s = (Ok tt, with_flags s ARITH (b2f cfb CF + b2f ofb OF + szp 64 r)).
Proof. intros H. unfold cmp_fs. rewrite set_flags_u64_eval_nw. rewrite emu_flags_spec_nw by exact H. reflexivity. Qed.

Lemma set_flags_u32_eval_nw c (cfb ofb : bool) r s :
  let fs := Z.lor 9223372036854776004 (Z.lor (b2f ofb FLAG_OF) (b2f cfb FLAG_CF)) in
  set_flags_u32 c fs 2049 r s
  = (Ok tt, set_rflags s (emu_flags (rflags s) fs 2049 (parity8 r) (Z.testbit r 31) (r =? 0))).
Proof. set_flags_eval set_flags_u32 U32 31. Qed.
Lemma set_flags_u16_eval_nw c (cfb ofb : bool) r s :
  let fs := Z.lor 9223372036854776004 (Z.lor (b2f ofb FLAG_OF) (b2f cfb FLAG_CF)) in
  set_flags_u16 c fs 2049 r s
  = (Ok tt, set_rflags s (emu_flags (rflags s) fs 2049 (parity8 r) (Z.testbit r 15) (r =? 0))).
Proof. set_flags_eval set_flags_u16 U16 15. Qed.
Lemma set_flags_u8_eval_nw c (cfb ofb : bool) r s :
  let fs := Z.lor 9223372036854776004 (Z.lor (b2f ofb FLAG_OF) (b2f cfb FLAG_CF)) in
  set_flags_u8 c fs 2049 r s
  = (Ok tt, set_rflags s (emu_flags (rflags s) fs 2049 (parity8 r) (Z.testbit r 7) (r =? 0))).
Proof. set_flags_eval set_flags_u8 U8 7. Qed.

Theorem set_flags_u32_cmp c cfb ofb r s : 0 <= rflags s < 2 ^ 63 ->
  set_flags_u32 c (cmp_fs cfb ofb) 2049 r s = (Ok tt, with_flags s ARITH (b2f cfb CF + b2f ofb OF + szp 32 r)).
Proof. intros H. unfold cmp_fs. rewrite set_flags_u32_eval_nw. rewrite emu_flags_spec_nw by exact H. reflexivity. Qed.
Theorem set_flags_u16_cmp c cfb ofb r s : 0 <= rflags s < 2 ^ 63 ->
  set_flags_u16 c (cmp_fs cfb ofb) 2049 r s = (Ok tt, with_flags s ARITH (b2f cfb CF + b2f ofb OF + szp 16 r)).
Proof. intros H. unfold cmp_fs. rewrite set_flags_u16_eval_nw. rewrite emu_flags_spec_nw by exact H. reflexivity. Qed.
Theorem set_flags_u8_cmp c cfb ofb r s : 0 <= rflags s < 2 ^ 63 ->
  set_flags_u8 c (cmp_fs cfb ofb) 2049 r s = (Ok tt, with_flags s ARITH (b2f cfb CF + b2f ofb OF + szp 8 r)).
Proof. intros H. unfold cmp_fs. rewrite set_flags_u8_eval_nw. rewrite emu_flags_spec_nw by exact H. reflexivity. Qed.
