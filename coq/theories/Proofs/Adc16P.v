(* C02: ADC at 16 bits (r16 <- r/m16; r/m16 <- r16; r/m16 <- imm16; the accumulator short form), register or memory
   destination.  Adc32P.v and the 32-bit half of AdcImmP.v at half the width (textual transformation, checked by Coq). *)
From Coq Require Import ZArith Bool List Lia.
From AxV Require Import Bits Outcome Codes Iced State Rt Mem Trace BitsP ByteStore MemP RegFile RegsP ISA CodeSem ReadonlyTac
  OperandP FlagsP CfP MovP RmP AluP AluRmP AluMemP MovxP Alu16P AluImm16P AdcP.
From AxG Require Import Flags Regs Operand Helpers I_adc.
Local Open Scope Z_scope.
Ltac Zify.zify_post_hook ::= Z.div_mod_to_equations.

Lemma cast_u16_u32_id v : 0 <= v < 2 ^ 16 -> cast U16 U32 v = v.
Proof. intros H. unfold cast, Bits.sem, enc, modulus; cbn [signed width]. change (2 ^ 16) with 65536 in *. change (2 ^ 32) with 4294967296.
  rewrite ?(Z.mod_small v 65536) by lia. rewrite ?Z.mod_small by lia. reflexivity. Qed.

Lemma adc16_closure d sv (cin : bool) :
  0 <= d < 2 ^ 16 -> 0 <= sv < 2 ^ 16 ->
  (let v_result := wadd U32 (wadd U32 (cast U16 U32 d) (cast U16 U32 sv)) (of_bool cin) in
   (cast U32 U16 v_result,
    Z.lor (if negb (Z.land v_result 32768 =? Z.land (cast U16 U32 d) 32768) &&
              negb (Z.land v_result 32768 =? Z.land (cast U16 U32 sv) 32768)
           then FLAG_OF else 0)
          (if negb (Z.land v_result 65536 =? 0) then FLAG_CF else 0)))
  = (let cz := if cin then 1 else 0 in
     ((d + sv + cz) mod 2 ^ 16,
      Z.lor (b2f (negb (fits_signed 16 (sgn 16 d + sgn 16 sv + cz))) FLAG_OF) (b2f (2 ^ 16 <=? d + sv + cz) FLAG_CF))).
Proof.
  intros Hd Hs. cbv zeta. rewrite (cast_u16_u32_id d Hd), (cast_u16_u32_id sv Hs).
  set (cz := if cin then 1 else 0). assert (Hc : 0 <= cz <= 1) by (unfold cz; destruct cin; lia).
  assert (OB : of_bool cin = cz) by (unfold cz; destruct cin; reflexivity). rewrite OB.
  assert (W : wadd U32 (wadd U32 d sv) cz = d + sv + cz).
  { unfold wadd, enc, modulus; cbn [width]. change (2 ^ 32) with 4294967296.
    change (2 ^ 16) with 65536 in *. rewrite (Z.mod_small (d + sv)) by lia. apply Z.mod_small. lia. }
  rewrite W. set (R := d + sv + cz).
  assert (HR : 0 <= R < 2 ^ 17) by (unfold R; change (2 ^ 17) with 131072; change (2 ^ 16) with 65536 in *; lia).
  assert (C64 : cast U32 U16 R = R mod 2 ^ 16).
  { unfold cast, Bits.sem, enc, modulus; cbn [signed width]. reflexivity. }
  rewrite C64. set (r := R mod 2 ^ 16). assert (Hr : 0 <= r < 2 ^ 16) by (apply Z.mod_pos_bound; reflexivity).
  change 32768 with (2 ^ 15). change 65536 with (2 ^ 16).
  (* bit 63 of the 65-bit sum is bit 63 of the truncated sum *)
  assert (B63 : Z.land R (2 ^ 15) = Z.land r (2 ^ 15)).
  { apply Z.bits_inj'. intros k Hk. rewrite !Z.land_spec. destruct (Z.eq_dec k 15) as [->|N].
    - unfold r. rewrite Z.mod_pow2_bits_low by lia. reflexivity.
    - rewrite Z.pow2_bits_false by lia. rewrite !andb_false_r. reflexivity. }
  rewrite B63.
  rewrite (land_signbit r 15), (land_signbit d 15), (land_signbit sv 15) by (try lia; assumption).
  rewrite (land_signbit R 16) by (try lia; exact HR).
  f_equal. f_equal.
  - unfold fits_signed, sgn. change (2 ^ (16 - 1)) with (2 ^ 15). unfold r, R in *.
    change (2 ^ 15) with 32768 in *. change (2 ^ 16) with 65536 in *.
    change (2 ^ 17) with 131072 in *.
    destruct (Z.leb_spec 32768 ((d + sv + cz) mod 65536));
      destruct (Z.leb_spec 32768 d); destruct (Z.leb_spec 32768 sv);
      destruct (Z.ltb_spec d 32768); destruct (Z.ltb_spec sv 32768); try lia;
      cbn [Z.eqb negb andb b2f];
      match goal with |- context [(?a <=? ?b) && (?x <? ?y)] => destruct (Z.leb_spec a b); destruct (Z.ltb_spec x y) end;
      cbn [negb andb b2f]; try reflexivity; lia.
  - destruct (2 ^ 16 <=? R); reflexivity.
Qed.

Section Adc16Forms.
  Variables (c : cfg) (i : instr) (s : mstate).
  Hypothesis Hwf : wf_regs s.
  Hypothesis HI : Inv (mem s).
  Hypothesis Hrf : 0 <= rflags s < 2 ^ 64.
  Hypothesis Hn : i_op_count i = 2.

  Let cin := flag (rflags s) CF.
  Let cz := if cin then 1 else 0.

  (* ADC r32, r/m32 *)
  Theorem adc_r16_rm16_refines :
    i_op_kind i 0 = OK_Register -> is_gpr16 (i_op_register i 0) = true -> rm16_shape i 1 ->
    i_code i = C_Adc_r16_rm16 -> rmw16_refines i s ADC (instr_adc_r16_rm16 c i s).
  Proof.
    intros K0 H0 Hs1 Ec. unfold rmw16_refines, instr_adc_r16_rm16. rewrite Ec.
    rewrite (bind_ok _ _ _ _ _ (dbg_code_ok c s _ eq_refl)).
    rewrite (bind_ok _ _ _ _ _ (eq_refl : get_rflags s = (Ok (rflags s), s))).
    cbn [isa_exec]. unfold exec_alu. unfold read_op at 1. rewrite K0. rewrite rf_read_mod16 by exact H0.
    match goal with |- context [calculate_r_rm_16f c i ?op ?fs ?fc s] =>
      pose proof (calc_r_rm_16f_shape c i s Hwf HI Hn K0 H0 Hs1 op fs fc) as SH end.
    destruct (read_op i 1 16 s) as [sv|]; [|destruct SH as [e SH]; exists e, 0; left; exact SH]. destruct SH as [Hsv SH].
    set (d := rf_read (regs s) (i_op_register i 0)) in *.
    assert (Hd : 0 <= d < 2 ^ 16) by (apply rf_read_range16; exact H0).
    change (negb (Z.land (rflags s) FLAG_CF =? 0)) with cin in *.
    set (cfb := 2 ^ 16 <=? d + sv + cz). set (ofb := negb (fits_signed 16 (sgn 16 d + sgn 16 sv + cz))).
    assert (Hfl : Z.land (Z.lor (b2f ofb FLAG_OF) (b2f cfb FLAG_CF)) NO_WRITEBACK = 0) by (destruct ofb, cfb; reflexivity).
    rewrite (SH _ _ (f_equal Ok (adc16_closure d sv cin Hd Hsv)) Hfl).
    change (Z.lor (Z.lor (Z.lor FLAG_SF FLAG_ZF) FLAG_PF) (Z.lor (b2f ofb FLAG_OF) (b2f cfb FLAG_CF))) with (arith_fs cfb ofb).
    change (Z.lor FLAG_OF FLAG_CF) with 2049.
    rewrite (bind_ok _ _ _ _ _ (set_flags_u16_arith c cfb ofb _ s Hrf)).
    change (Z.land (Z.lor (Z.lor FLAG_SF FLAG_ZF) FLAG_PF) NO_WRITEBACK =? 0) with true. cbv iota.
    cbv zeta. rewrite cast_u16_u64_id by (apply Z.mod_pos_bound; reflexivity).
    rewrite reg_write_16_ok by (first [exact Hwf|exact H0|apply Z.mod_pos_bound; reflexivity]).
    cbn [alu]. fold cin. fold cz. fold cfb ofb. unfold write_op. rewrite K0. cbn [opt_done]. split; reflexivity.
  Qed.

  (* ADC r/m32, r32 (register or memory destination) *)
  Theorem adc_rm16_r16_refines :
    rm16_shape i 0 -> i_op_kind i 1 = OK_Register -> is_gpr16 (i_op_register i 1) = true ->
    i_code i = C_Adc_rm16_r16 -> rmw16_refines i s ADC (instr_adc_rm16_r16 c i s).
  Proof.
    intros Hs0 K1 H1 Ec. unfold rmw16_refines, instr_adc_rm16_r16. rewrite Ec.
    rewrite (bind_ok _ _ _ _ _ (dbg_code_ok c s _ eq_refl)).
    rewrite (bind_ok _ _ _ _ _ (eq_refl : get_rflags s = (Ok (rflags s), s))).
    cbn [isa_exec]. unfold exec_alu. unfold read_op at 2. rewrite K1. rewrite rf_read_mod16 by exact H1.
    match goal with |- context [calculate_rm_r_16f c i ?op ?fs ?fc s] =>
      pose proof (calc_rm_r_16f_shape c i s Hwf HI Hn K1 H1 op fs fc Hs0) as SH end.
    destruct (read_op i 0 16 s) as [d|]; [|destruct SH as [e SH]; exists e, 0; left; exact SH]. destruct SH as [Hd SH].
    set (sv := rf_read (regs s) (i_op_register i 1)) in *.
    assert (Hsv : 0 <= sv < 2 ^ 16) by (apply rf_read_range16; exact H1).
    change (negb (Z.land (rflags s) FLAG_CF =? 0)) with cin in *.
    set (cfb := 2 ^ 16 <=? d + sv + cz). set (ofb := negb (fits_signed 16 (sgn 16 d + sgn 16 sv + cz))).
    assert (Hfl : Z.land (Z.lor (b2f ofb FLAG_OF) (b2f cfb FLAG_CF)) NO_WRITEBACK = 0) by (destruct ofb, cfb; reflexivity).
    rewrite (SH _ _ (f_equal Ok (adc16_closure d sv cin Hd Hsv)) Hfl).
    change (Z.lor (Z.lor (Z.lor FLAG_SF FLAG_ZF) FLAG_PF) (Z.lor (b2f ofb FLAG_OF) (b2f cfb FLAG_CF))) with (arith_fs cfb ofb).
    change (Z.lor FLAG_OF FLAG_CF) with 2049.
    rewrite (bind_ok _ _ _ _ _ (set_flags_u16_arith c cfb ofb _ s Hrf)).
    change (Z.land (Z.lor (Z.lor FLAG_SF FLAG_ZF) FLAG_PF) NO_WRITEBACK =? 0) with true. cbv iota.
    cbv zeta. cbn [alu]. fold cin. fold cz. fold cfb ofb.
    assert (Hres : 0 <= (d + sv + cz) mod 2 ^ 16 < 2 ^ 16) by (apply Z.mod_pos_bound; reflexivity).
    match goal with |- context [dest_write16 c i ?res (with_flags s ?mk ?bits)] =>
      pose proof (dest_write16_spec c i s Hwf HI Hn Hs0 (set_status (rflags s) mk bits) res Hres) as ST;
      cbv zeta in ST; fold (with_flags s mk bits) in ST;
      destruct (write_op i 0 16 res (with_flags s mk bits)) as [s2|];
      [rewrite ST; cbn [opt_done]; split; reflexivity
      |destruct ST as [e ST]; rewrite ST; cbn [opt_done]; exists e; eexists; right; reflexivity]
    end.
  Qed.
  Theorem adc_rm16_imm16_refines :
    rm16_shape i 0 -> imm16_shape i -> rmw16_refines i s ADC (instr_adc_rm16_imm16 c i s).
  Proof.
    intros Hs0 Him. unfold rmw16_refines, instr_adc_rm16_imm16.
    rewrite (bind_ok _ _ _ _ _ (eq_refl : get_rflags s = (Ok (rflags s), s))).
    cbn [isa_exec]. unfold exec_alu.
    match goal with |- context [calculate_rm_imm_16f c i ?op ?fs ?fc s] =>
      destruct (calc_rm_imm_16f_shape c i s Hwf HI Hn Hs0 Him op fs fc) as (v & RV & Hv & SH) end.
    rewrite RV.
    destruct (read_op i 0 16 s) as [d|]; [|destruct SH as [e SH]; exists e, 0; left; exact SH]. destruct SH as [Hd SH].
    change (negb (Z.land (rflags s) FLAG_CF =? 0)) with cin in *.
    set (cfb := 2 ^ 16 <=? d + v + cz). set (ofb := negb (fits_signed 16 (sgn 16 d + sgn 16 v + cz))).
    assert (Hfl : Z.land (Z.lor (b2f ofb FLAG_OF) (b2f cfb FLAG_CF)) NO_WRITEBACK = 0) by (destruct ofb, cfb; reflexivity).
    rewrite (SH _ _ (f_equal Ok (adc16_closure d v cin Hd Hv)) Hfl).
    change (Z.lor (Z.lor (Z.lor FLAG_SF FLAG_ZF) FLAG_PF) (Z.lor (b2f ofb FLAG_OF) (b2f cfb FLAG_CF))) with (arith_fs cfb ofb).
    change (Z.lor FLAG_OF FLAG_CF) with 2049.
    rewrite (bind_ok _ _ _ _ _ (set_flags_u16_arith c cfb ofb _ s Hrf)).
    change (Z.land (Z.lor (Z.lor FLAG_SF FLAG_ZF) FLAG_PF) NO_WRITEBACK =? 0) with true. cbv iota zeta.
    cbn [alu]. fold cin. fold cz. fold cfb ofb.
    assert (Hres : 0 <= (d + v + cz) mod 2 ^ 16 < 2 ^ 16) by (apply Z.mod_pos_bound; reflexivity).
    match goal with |- context [dest_write16 c i ?res (with_flags s ?mk ?bits)] =>
      pose proof (dest_write16_spec c i s Hwf HI Hn Hs0 (set_status (rflags s) mk bits) res Hres) as ST;
      cbv zeta in ST; fold (with_flags s mk bits) in ST;
      destruct (write_op i 0 16 res (with_flags s mk bits)) as [s2|];
      [rewrite ST; cbn [opt_done]; split; reflexivity
      |destruct ST as [e ST]; rewrite ST; cbn [opt_done]; exists e; eexists; right; reflexivity]
    end.
  Qed.

  Theorem adc_ax_imm16_refines :
    rm16_shape i 0 -> imm16_shape i -> i_code i = C_Adc_AX_imm16 -> rmw16_refines i s ADC (instr_adc_ax_imm16 c i s).
  Proof.
    intros Hs0 Him Ec. unfold instr_adc_ax_imm16. rewrite Ec. rewrite (bind_ok _ _ _ _ _ (dbg_code_ok c s _ eq_refl)).
    exact (adc_rm16_imm16_refines Hs0 Him).
  Qed.
End Adc16Forms.
