(* C09: permissions on every access path of the memory model. *)
From Coq Require Import ZArith Bool List Lia.
From AxV Require Import Bits Outcome Codes Iced State Rt Mem BitsP ListP ByteStore MemP LayoutP.
Local Open Scope Z_scope.
Import ListNotations.

Theorem read_requires_R a n s l s' :
  mem_read_bytes a n s = (Ok l, s') ->
  exists ar, owner (mem s) a = Some ar /\ Z.land (a_access ar) PROT_READ <> 0 /\ s' = s.
Proof.
  unfold mem_read_bytes, owner. destruct (find_area (mem s) a) as [ar|]; [|discriminate].
  destruct (a + n >? a_start ar + a_len ar); [discriminate|].
  destruct (Z.eqb_spec (Z.land (a_access ar) PROT_READ) 0); [discriminate|].
  destruct (a - a_start ar + n <=? zlen (a_data ar)); inversion 1; subst. eauto.
Qed.

Theorem write_requires_W a d s s' :
  mem_write_bytes a d s = (Ok tt, s') ->
  exists ar, owner (mem s) a = Some ar /\ Z.land (a_access ar) PROT_WRITE <> 0.
Proof.
  unfold mem_write_bytes, owner.
  destruct (find_area_idx (mem s) a) as [k|] eqn:Fk; [|discriminate].
  destruct (find_idx_some _ _ _ Fk) as (ar & Hk & F). rewrite Hk, F.
  destruct (a + zlen d >? a_start ar + a_len ar); [discriminate|].
  destruct (Z.eqb_spec (Z.land (a_access ar) PROT_WRITE) 0); [discriminate|].
  intros _. eauto.
Qed.

Theorem fetch_requires_X a s l s' :
  mem_read_executable_bytes a s = (Ok l, s') ->
  exists ar, owner (mem s) a = Some ar /\ Z.land (a_access ar) PROT_EXEC <> 0 /\ s' = s.
Proof.
  unfold mem_read_executable_bytes, owner. destruct (find_area (mem s) a) as [ar|]; [|discriminate].
  destruct (Z.eqb_spec (Z.land (a_access ar) PROT_EXEC) 0); [discriminate|].
  match goal with |- context [if ?c then _ else _] => destruct c end; inversion 1; subst. eauto.
Qed.

Theorem fetch_state_unchanged a s r s' : mem_read_executable_bytes a s = (r, s') -> s' = s.
Proof.
  unfold mem_read_executable_bytes. destruct (find_area (mem s) a) as [ar|]; [|inversion 1; reflexivity].
  repeat match goal with |- context [if ?c then _ else _] => destruct c end; inversion 1; reflexivity.
Qed.

Theorem fetch_never_panics a s :
  Inv (mem s) ->
  (exists l, mem_read_executable_bytes a s = (Ok l, s)) \/ (exists e, mem_read_executable_bytes a s = (Err e, s)).
Proof.
  intros HI. unfold mem_read_executable_bytes.
  destruct (find_area (mem s) a) as [ar|] eqn:F; [|right; eexists; reflexivity].
  destruct (find_area_some _ _ _ F) as [Hin Hc]. apply contains_range in Hc.
  destruct (inv_area_ok _ _ HI Hin) as (H0 & H1 & H2 & H3 & H4).
  destruct (Z.eqb_spec (Z.land (a_access ar) PROT_EXEC) 0); [right; eexists; reflexivity|].
  destruct (Z.leb_spec (a - a_start ar) (Z.min (a - a_start ar + 15) (zlen (a_data ar)))); [left; eexists; reflexivity|lia].
Qed.

(* a denied or out-of-range access changes nothing at all *)
Theorem denied_access_unchanged a d n s :
  (forall e s', mem_write_bytes a d s = (Err e, s') -> s' = s) /\
  (forall r s', mem_read_bytes a n s = (r, s') -> s' = s) /\
  (forall r s', mem_read_executable_bytes a s = (r, s') -> s' = s).
Proof.
  split; [intros; eapply write_err_unchanged; eauto|].
  split; [intros; eapply read_state_unchanged; eauto|intros; eapply fetch_state_unchanged; eauto].
Qed.

(* the eight masks: an access kind succeeds only with its own bit *)
Theorem permission_table p :
  0 <= p <= 7 ->
  (Z.land p PROT_READ <> 0 <-> Z.testbit p 0 = true) /\
  (Z.land p PROT_WRITE <> 0 <-> Z.testbit p 1 = true) /\
  (Z.land p PROT_EXEC <> 0 <-> Z.testbit p 2 = true).
Proof.
  intros H. assert (p = 0 \/ p = 1 \/ p = 2 \/ p = 3 \/ p = 4 \/ p = 5 \/ p = 6 \/ p = 7) by lia.
  repeat (destruct H0 as [->|H0]; [cbn; repeat split; intros; congruence|]). subst; cbn; repeat split; intros; congruence.
Qed.

(* mem_prot sets exactly the permission of the first area that starts at the address *)
Lemma prot_go_first start p : forall m m',
  prot_go start p m = Some m' ->
  exists k a, nth_error m k = Some a /\ a_start a = start /\
              (forall j b, (j < k)%nat -> nth_error m j = Some b -> a_start b <> start) /\
              m' = replace_nth m k (set_area_access a p).
Proof.
  induction m as [|x m IH]; intros m' H; cbn in H; [discriminate|].
  destruct (Z.eqb_spec start (a_start x)) as [E|E].
  - inversion H; subst. exists O, x. split; [reflexivity|]. split; [auto|]. split; [intros; lia|reflexivity].
  - destruct (prot_go start p m) as [r|] eqn:G; [|discriminate]. inversion H; subst.
    destruct (IH r eq_refl) as (k & a & Hk & Hs & Hb & ->).
    exists (S k), a. split; [exact Hk|]. split; [exact Hs|]. split; [|reflexivity].
    intros j b Hj Hn. destruct j; cbn in Hn; [inversion Hn; subst; auto|]. eapply Hb; [|exact Hn]. lia.
Qed.

(* the fetch window: every fetched byte is a byte of the ONE area that owns the address - which is
   executable - starting at the address and ending after 15 bytes or with that area's data, whichever
   comes first.  Nothing of a neighbouring area, whatever its permissions, is ever part of a fetched
   instruction. *)
Theorem fetch_window a s l s' :
  mem_read_executable_bytes a s = (Ok l, s') ->
  exists ar, owner (mem s) a = Some ar /\ Z.land (a_access ar) PROT_EXEC <> 0 /\
             l = slice (a_data ar) (a - a_start ar) (Z.min 15 (zlen (a_data ar) - (a - a_start ar))) /\
             zlen l <= 15.
Proof.
  unfold mem_read_executable_bytes, owner. destruct (find_area (mem s) a) as [ar|]; [|discriminate].
  destruct (Z.eqb_spec (Z.land (a_access ar) PROT_EXEC) 0); [discriminate|].
  cbv zeta.
  destruct (Z.leb_spec (a - a_start ar) (Z.min (a - a_start ar + 15) (zlen (a_data ar)))) as [Hle|Hgt]; [|discriminate].
  intros H. injection H as <- _. exists ar. split; [reflexivity|]. split; [assumption|].
  replace (Z.min (a - a_start ar + 15) (zlen (a_data ar)) - (a - a_start ar))
    with (Z.min 15 (zlen (a_data ar) - (a - a_start ar))) by lia.
  split; [reflexivity|].
  unfold slice, zlen. rewrite firstn_length. lia.
Qed.
