(* C01/C02: IMUL (two- and three-operand forms, one-operand forms) and MUL against the ISA specification.
   The architecture leaves SF, ZF and PF undefined after a multiplication; the emulator's flag helper is
   called with the constant result 0 and therefore always sets ZF and keeps SF and PF: the theorems say that
   the emulator's state is the specification's with ZF set, which is equality modulo the undefined flags. *)
From Coq Require Import ZArith Bool List Lia.
From AxV Require Import Bits Outcome Codes Iced State Rt Mem Trace BitsP ByteStore MemP RegFile RegsP ISA CodeSem ReadonlyTac
  OperandP FlagsP CfP MovP RmP AluP AluRmP Alu32P MovxP Alu16P Alu8P Div32P AluImm32P AluImm16P.
From AxG Require Import Flags Regs Operand Helpers I_imul I_mul.
Local Open Scope Z_scope.
Ltac Zify.zify_post_hook ::= Z.div_mod_to_equations.

Definition mul_flags (rf : Z) (ov : bool) : Z :=
  Z.lor (set_status rf (CF + OF) (b2f ov CF + b2f ov OF)) FLAG_ZF.

Ltac mul_tests :=
  repeat match goal with
  | |- context [Z.land 2049 ?k =? 0] => let v := eval vm_compute in (Z.land 2049 k =? 0) in change (Z.land 2049 k =? 0) with v
  | |- context [Z.land 0 ?k =? 0] => change (Z.land 0 k =? 0) with true
  end.

Ltac mul_flags_eval F T :=
  unfold F; cbv zeta;
  match goal with c : cfg |- _ =>
  match goal with |- context [if ?ov then Z.lor FLAG_CF FLAG_OF else 0] =>
  destruct ov; change (Z.lor FLAG_CF FLAG_OF) with 2049;
  [change (2049 =? FLAGS_UNAFFECTED) with false | change (0 =? FLAGS_UNAFFECTED) with false]; cbv iota;
  mul_tests; change (0 =? 0) with true; cbn [negb]; cbv iota;
  repeat first [ rewrite bind_assoc' | rewrite bind_get_rflags; cbv beta | rewrite bind_lift_ok; cbv beta
               | rewrite (shl1 c T) by (cbn; lia) | rewrite bind_ret_ok; cbv beta | rewrite bind_put_rflags; cbv beta ];
  mul_tests; cbn [negb]; cbv iota;
  repeat first [ rewrite bind_assoc' | rewrite bind_ret_ok; cbv beta | rewrite bind_put_rflags; cbv beta ]
  end end.

Ltac mul_flags_finish H :=
  unfold ret, mul_flags, set_status; f_equal; f_equal;
  match goal with |- context [Z.land ?rf (Z.lnot ?m)] => rewrite (land_trunc64 rf (Z.lnot m) H) end;
  rewrite <- ?Z.land_assoc; rewrite <- ?Z.lor_assoc;
  apply (f_equal2 Z.lor); [apply f_equal; vm_compute; reflexivity | vm_compute; reflexivity].

Lemma set_flags_u64_mul c (ov : bool) s : 0 <= rflags s < 2 ^ 64 ->
  set_flags_u64 c (if ov then Z.lor FLAG_CF FLAG_OF else 0) (if ov then 0 else Z.lor FLAG_CF FLAG_OF) 0 s
  = (Ok tt, set_rflags s (mul_flags (rflags s) ov)).
Proof.
  intros H. mul_flags_eval set_flags_u64 U64; mul_flags_finish H.
Qed.

Lemma set_flags_u32_mul c (ov : bool) s : 0 <= rflags s < 2 ^ 64 ->
  set_flags_u32 c (if ov then Z.lor FLAG_CF FLAG_OF else 0) (if ov then 0 else Z.lor FLAG_CF FLAG_OF) 0 s
  = (Ok tt, set_rflags s (mul_flags (rflags s) ov)).
Proof. intros H. mul_flags_eval set_flags_u32 U32; mul_flags_finish H. Qed.
Lemma set_flags_u16_mul c (ov : bool) s : 0 <= rflags s < 2 ^ 64 ->
  set_flags_u16 c (if ov then Z.lor FLAG_CF FLAG_OF else 0) (if ov then 0 else Z.lor FLAG_CF FLAG_OF) 0 s
  = (Ok tt, set_rflags s (mul_flags (rflags s) ov)).
Proof. intros H. mul_flags_eval set_flags_u16 U16; mul_flags_finish H. Qed.
Lemma set_flags_u8_mul c (ov : bool) s : 0 <= rflags s < 2 ^ 64 ->
  set_flags_u8 c (if ov then Z.lor FLAG_CF FLAG_OF else 0) (if ov then 0 else Z.lor FLAG_CF FLAG_OF) 0 s
  = (Ok tt, set_rflags s (mul_flags (rflags s) ov)).
Proof. intros H. mul_flags_eval set_flags_u8 U8; mul_flags_finish H. Qed.

(* ---- the double-width signed product of two sign-extended w-bit values, for every operand width ---- *)
Section MulGen.
  Variables (ts td tu : ity) (w : Z).
  Hypothesis Hw : 8 <= w <= 64.
  Hypothesis Wts : width ts = w.
  Hypothesis Sts : signed ts = true.
  Hypothesis Wtd : width td = 2 * w.
  Hypothesis Std : signed td = true.
  Hypothesis Wtu : width tu = w.
  Hypothesis Stu : signed tu = false.

  Let h := 2 ^ (w - 1).
  Lemma mg_hpos : 0 < h. Proof. unfold h. apply Z.pow_pos_nonneg; lia. Qed.
  Lemma mg_pw : 2 ^ w = 2 * h.
  Proof. unfold h. replace w with (Z.succ (w - 1)) at 1 by lia. apply Z.pow_succ_r. lia. Qed.
  Lemma mg_p2w : 2 ^ (2 * w) = 4 * h * h.
  Proof. replace (2 * w) with (w + w) by lia. rewrite Z.pow_add_r by lia. rewrite mg_pw. ring. Qed.
  Lemma mg_p2w1 : 2 ^ (2 * w - 1) = 2 * h * h.
  Proof. replace (2 * w - 1) with (w + (w - 1)) by lia. rewrite Z.pow_add_r by lia. rewrite mg_pw. fold h. ring. Qed.

  Lemma mg_sgn_range v : 0 <= v < 2 ^ w -> - h <= sgn w v < h.
  Proof. intros H. unfold sgn. fold h. rewrite mg_pw in *. destruct (Z.ltb_spec v h); lia. Qed.

  Lemma mg_u64_small v : 0 <= v < 2 ^ w -> v < 2 ^ 64.
  Proof. intros H. apply Z.lt_le_trans with (2 ^ w); [lia|]. apply Z.pow_le_mono_r; lia. Qed.

  (* `x as iW` of a value read as u64, then widened to the double width: the sign extension *)
  Lemma mg_sx v : 0 <= v < 2 ^ w -> cast ts td (cast U64 ts v) = sgn w v mod 2 ^ (2 * w).
  Proof.
    intros H. unfold cast, Bits.sem, enc, modulus, sgn. rewrite Sts, Wts, Wtd. cbn [signed].
    rewrite (Z.mod_small v (2 ^ w)) by lia. reflexivity.
  Qed.

  Lemma mg_sem_mod p : - (2 * h * h) <= p < 2 * h * h -> Bits.sem td (p mod 2 ^ (2 * w)) = p.
  Proof.
    intros H. unfold Bits.sem, modulus. rewrite Std, Wtd. rewrite mg_p2w1, mg_p2w.
    pose proof mg_hpos. assert (0 < h * h) by nia. set (g := h * h) in *.
    replace (4 * h * h) with (4 * g) by (unfold g; ring). replace (2 * h * h) with (2 * g) in * by (unfold g; ring).
    destruct (Z_lt_le_dec p 0) as [Neg|Pos].
    - assert (E : p mod (4 * g) = p + 4 * g) by (symmetry; apply (Z.mod_unique_pos _ _ (-1)); lia).
      rewrite E. destruct (Z.ltb_spec (p + 4 * g) (2 * g)); lia.
    - rewrite (Z.mod_small p (4 * g)) by lia. destruct (Z.ltb_spec p (2 * g)); lia.
  Qed.

  Section Operands.
    Variables d sv : Z.
    Hypothesis Hd : 0 <= d < 2 ^ w.
    Hypothesis Hs : 0 <= sv < 2 ^ w.
    Let P := sgn w d * sgn w sv.
    Let R := wmul td (cast ts td (cast U64 ts d)) (cast ts td (cast U64 ts sv)).

    Lemma mg_R : R = P mod 2 ^ (2 * w).
    Proof.
      unfold R, wmul, enc, modulus. rewrite Wtd. rewrite !mg_sx by assumption.
      rewrite <- Z.mul_mod; [reflexivity|]. rewrite mg_p2w. pose proof mg_hpos. nia.
    Qed.

    Lemma mg_Prange : - (h * h) <= P <= h * h.
    Proof. pose proof (mg_sgn_range d Hd). pose proof (mg_sgn_range sv Hs). unfold P. nia. Qed.

    Lemma mg_sem : Bits.sem td R = P.
    Proof. rewrite mg_R. apply mg_sem_mod. pose proof mg_Prange. pose proof mg_hpos. nia. Qed.

    Lemma mg_lo : cast td tu R = P mod 2 ^ w.
    Proof. unfold cast. rewrite mg_sem. unfold enc, modulus. rewrite Wtu. reflexivity. Qed.

    (* the whole double-width product, reinterpreted as unsigned (IMUL r/m8 writes it to AX) *)
    Lemma mg_full tdu : width tdu = 2 * w -> cast td tdu R = P mod 2 ^ (2 * w).
    Proof. intros Wd. unfold cast. rewrite mg_sem. unfold enc, modulus. rewrite Wd. reflexivity. Qed.

    Lemma mg_hi : cast td tu (shr_raw td R w) = (P / 2 ^ w) mod 2 ^ w.
    Proof.
      unfold cast, shr_raw. rewrite mg_sem. unfold enc, modulus. rewrite Wtd, Wtu.
      rewrite mg_sem_mod; [reflexivity|].
      pose proof mg_Prange as HP. rewrite mg_pw. pose proof mg_hpos. 
      assert (Q : P = (2 * h) * (P / (2 * h)) + P mod (2 * h)) by (apply Z.div_mod; lia).
      pose proof (Z.mod_pos_bound P (2 * h) ltac:(lia)). nia.
    Qed.

    (* the overflow test of the generated code: the bits above bit w-2 are neither all 0 nor all 1 *)
    Lemma mg_ov c (s : mstate) :
      (if negb (shr_raw td R (w - 1) =? 0) then (t <- lift (neg_chk c td 1) ;; ret (negb (shr_raw td R (w - 1) =? t))) else ret false)%M s
      = (Ok (negb (fits_signed w P)), s).
    Proof.
      pose proof mg_hpos as Hh.
      assert (M1 : 1 < 2 ^ (2 * w)) by (rewrite mg_p2w; nia).
      assert (N : neg_chk c td 1 = Ok (2 ^ (2 * w) - 1)).
      { unfold neg_chk, in_range, wneg, enc, Bits.sem, modulus. rewrite Std, Wtd.
        assert (L : (1 <? 2 ^ (2 * w - 1)) = true) by (apply Z.ltb_lt; rewrite mg_p2w1; nia).
        rewrite L.
        assert (E : -1 mod 2 ^ (2 * w) = 2 ^ (2 * w) - 1).
        { symmetry. apply (Z.mod_unique_pos _ _ (-1)); lia. }
        change (- (1)) with (-1). rewrite E.
        destruct (ovf c); [|reflexivity].
        assert (A : (- 2 ^ (2 * w - 1) <=? -1) && (-1 <? 2 ^ (2 * w - 1)) = true).
        { apply andb_true_iff. split; [apply Z.leb_le|apply Z.ltb_lt]; rewrite mg_p2w1; nia. }
        rewrite A. reflexivity. }
      rewrite N. unfold shr_raw. rewrite mg_sem. unfold enc, modulus. rewrite Wtd.
      pose proof mg_Prange as HP. unfold fits_signed. fold h. rewrite mg_p2w.
      set (q := P / h). assert (Hq : - h <= q <= h) by (unfold q; nia).
      assert (Q : P = h * q + P mod h) by (unfold q; apply Z.div_mod; lia).
      pose proof (Z.mod_pos_bound P h Hh) as Hm.
      assert (Hbig : h < 4 * h * h) by nia. set (M := 4 * h * h) in *.
      assert (QM : q mod M = if q <? 0 then q + M else q).
      { destruct (Z.ltb_spec q 0); [symmetry; apply (Z.mod_unique_pos _ _ (-1)); lia|apply Z.mod_small; lia]. }
      rewrite QM.
      assert (FS : (- h <=? P) && (P <? h) = (q =? 0) || (q =? -1)).
      { destruct (Z.leb_spec (- h) P); destruct (Z.ltb_spec P h); destruct (Z.eqb_spec q 0); destruct (Z.eqb_spec q (-1));
          cbn [andb orb]; try reflexivity; nia. }
      rewrite FS.
      destruct (Z.ltb_spec q 0) as [Neg|Pos].
      - assert (E0 : (q + M =? 0) = false) by (apply Z.eqb_neq; lia). rewrite E0. cbn [negb]. unfold bind, lift, ret.
        assert (E00 : (q =? 0) = false) by (apply Z.eqb_neq; lia). rewrite E00. cbn [orb].
        destruct (Z.eqb_spec q (-1)) as [->|Nq].
        + replace (-1 + M) with (M - 1) by ring. rewrite Z.eqb_refl. reflexivity.
        + assert (E1 : (q + M =? M - 1) = false) by (apply Z.eqb_neq; lia). rewrite E1. reflexivity.
      - destruct (Z.eqb_spec q 0) as [->|Nq]; cbn [negb orb]; [reflexivity|]. unfold bind, lift, ret.
        assert (E1 : (q =? M - 1) = false) by (apply Z.eqb_neq; lia). rewrite E1.
        assert (E2 : (q =? -1) = false) by (apply Z.eqb_neq; lia). rewrite E2. reflexivity.
    Qed.
  End Operands.
End MulGen.

(* ---- the unsigned double-width product ---- *)
Section UMulGen.
  Variables (td tu : ity) (w : Z).
  Hypothesis Hw : 8 <= w <= 64.
  Hypothesis Wtd : width td = 2 * w.
  Hypothesis Std : signed td = false.
  Hypothesis Wtu : width tu = w.
  Hypothesis Stu : signed tu = false.
  Variables a b : Z.
  Hypothesis Ha : 0 <= a < 2 ^ w.
  Hypothesis Hb : 0 <= b < 2 ^ w.

  Lemma um_p2w : 2 ^ (2 * w) = 2 ^ w * 2 ^ w.
  Proof. replace (2 * w) with (w + w) by lia. apply Z.pow_add_r; lia. Qed.

  Lemma um_prod_range : 0 <= a * b < 2 ^ (2 * w).
  Proof. rewrite um_p2w. nia. Qed.

  Lemma um_cast v : 0 <= v < 2 ^ w -> cast U64 td v = v.
  Proof.
    intros H. unfold cast, Bits.sem, enc, modulus. cbn [signed]. rewrite Wtd. apply Z.mod_small.
    rewrite um_p2w. assert (0 < 2 ^ w) by (apply Z.pow_pos_nonneg; lia). nia.
  Qed.

  Lemma um_R : wmul td a b = a * b.
  Proof. unfold wmul, enc, modulus. rewrite Wtd. apply Z.mod_small. exact um_prod_range. Qed.

  Lemma um_lo : cast td tu (a * b) = (a * b) mod 2 ^ w.
  Proof. unfold cast, Bits.sem, enc, modulus. rewrite Std, Wtu. reflexivity. Qed.

  Lemma um_full tdu : w <= 32 -> width tdu = 2 * w -> signed tdu = false -> cast tdu U64 (a * b) = a * b.
  Proof.
    intros W32 Wd Sd. unfold cast, Bits.sem, enc, modulus. rewrite Sd. cbn [width]. apply Z.mod_small.
    pose proof um_prod_range. split; [lia|]. apply Z.lt_le_trans with (2 ^ (2 * w)); [lia|].
    change 64 with (2 * 32). apply Z.pow_le_mono_r; lia.
  Qed.

  Lemma um_hi : cast td tu (shr_raw td (a * b) w) = (a * b / 2 ^ w) mod 2 ^ w.
  Proof.
    unfold cast, shr_raw, Bits.sem, enc, modulus. rewrite Std, Wtd, Wtu.
    assert (0 < 2 ^ w) by (apply Z.pow_pos_nonneg; lia). pose proof um_prod_range as R. rewrite um_p2w in *.
    rewrite (Z.mod_small (a * b / 2 ^ w)); [reflexivity|].
    split; [apply Z.div_pos; lia|]. apply Z.div_lt_upper_bound; [lia|]. nia.
  Qed.
End UMulGen.

(* the emulator's state after a multiplication: the specification's, with ZF set (ZF is undefined) *)
Definition mul_refines (sm : sem) (i : instr) (s : mstate) (run : outcome unit * mstate) : Prop :=
  match isa_exec sm i s with
  | IDone s' u => run = (Ok tt, set_rflags s' (Z.lor (rflags s') FLAG_ZF)) /\ u = SF + ZF + PF
  | IFault FMem => exists e, run = (Err e, s)
  | IFault _ => False
  end.

Section Imul2_64.
  Variables (c : cfg) (i : instr) (s : mstate).
  Hypothesis Hwf : wf_regs s.
  Hypothesis HI : Inv (mem s).
  Hypothesis Hrf : 0 <= rflags s < 2 ^ 64.
  Hypothesis Hn : i_op_count i = 2.
  Hypothesis K0 : i_op_kind i 0 = OK_Register.
  Hypothesis H0 : is_gpr64 (i_op_register i 0) = true.
  Hypothesis Hs1 : rm64_shape i 1.

  Theorem imul_r64_rm64_refines : i_code i = C_Imul_r64_rm64 -> mul_refines (SImul2 64) i s (instr_imul_r64_rm64 c i s).
  Proof.
    intros Ec. unfold mul_refines, instr_imul_r64_rm64. rewrite Ec.
    rewrite (bind_ok _ _ _ _ _ (dbg_code_ok c s _ eq_refl)).
    destruct (operands_2_r_rm c i s Hwf HI Hn K0 H0 Hs1) as (o1 & OP & RD).
    rewrite (bind_ok _ _ _ _ _ OP). cbv beta iota.
    cbn [isa_exec]. unfold exec_imul23. unfold read_op at 1. rewrite K0. rewrite rf_read_mod64 by exact H0.
    set (r0 := i_op_register i 0) in *. set (d := rf_read (regs s) r0).
    assert (Hd : 0 <= d < 2 ^ 64) by (apply (rf_read_range64 s); exact H0).
    destruct (read_op i 1 64 s) as [sv|].
    - destruct RD as (Hsv & RD).
      assert (SRC : (match o1 with
                     | OpRegister v_r => reg_read_64 c v_r
                     | OpMemory v_m => (t1_v <- mem_addr c v_m ;; mem_read_64 t1_v)%M
                     | _ => fail EFatal end) s = (Ok sv, s)).
      { destruct RD as [(r1 & -> & RR)|(m & -> & EA & MR)]; [exact RR|]. rewrite (bind_ok _ _ _ _ _ EA). exact MR. }
      rewrite (bind_ok _ _ _ _ _ SRC). cbv zeta.
      rewrite (bind_ok _ _ _ _ _ (reg_read_64_ok c r0 s Hwf H0)). fold d.
      rewrite (bind_ok _ _ _ _ _ (eq_refl : lift (operand_to_reg (OpRegister r0)) s = (Ok r0, s))).
      rewrite (bind_ok _ _ _ _ _ (reg_write_64_ok c r0 _ s H0)).
      rewrite (bind_ok _ _ _ _ _ (mg_ov I64 I128 64 ltac:(lia) eq_refl eq_refl eq_refl eq_refl d sv Hd Hsv c _)).
      rewrite (bind_ok _ _ _ _ _ (mg_ov I64 I128 64 ltac:(lia) eq_refl eq_refl eq_refl eq_refl d sv Hd Hsv c _)).
      match goal with |- context [bind (set_flags_u64 c _ _ 0) _ ?st] =>
        rewrite (bind_ok _ _ _ _ _ (set_flags_u64_mul c _ st Hrf)) end.
      rewrite (mg_lo I64 I128 U64 64 ltac:(lia) eq_refl eq_refl eq_refl eq_refl eq_refl d sv Hd Hsv). unfold ret. split; [|reflexivity].
      unfold with_flags, write_reg, mul_flags. destruct s; reflexivity.
    - destruct RD as (m & e & -> & EA & MR). exists e.
      assert (SRC : (t1_v <- mem_addr c m ;; mem_read_64 t1_v)%M s = (Err e, s)) by (rewrite (bind_ok _ _ _ _ _ EA); exact MR).
      rewrite (bind_err _ _ _ _ _ SRC). reflexivity.
  Qed.
End Imul2_64.

Section Imul2_32.
  Variables (c : cfg) (i : instr) (s : mstate).
  Hypothesis Hwf : wf_regs s.
  Hypothesis HI : Inv (mem s).
  Hypothesis Hrf : 0 <= rflags s < 2 ^ 64.
  Hypothesis Hn : i_op_count i = 2.
  Hypothesis K0 : i_op_kind i 0 = OK_Register.
  Hypothesis H0 : is_gpr32 (i_op_register i 0) = true.
  Hypothesis Hs1 : rm32_shape i 1.

  Theorem imul_r32_rm32_refines : i_code i = C_Imul_r32_rm32 -> mul_refines (SImul2 32) i s (instr_imul_r32_rm32 c i s).
  Proof.
    intros Ec. unfold mul_refines, instr_imul_r32_rm32. rewrite Ec.
    rewrite (bind_ok _ _ _ _ _ (dbg_code_ok c s _ eq_refl)).
    destruct (operands_2_r_rm32 c i s Hwf HI Hn K0 H0 Hs1) as (o1 & OP & RD).
    rewrite (bind_ok _ _ _ _ _ OP). cbv beta iota.
    cbn [isa_exec]. unfold exec_imul23. unfold read_op at 1. rewrite K0. rewrite rf_read_mod32 by exact H0.
    set (r0 := i_op_register i 0) in *. set (d := rf_read (regs s) r0).
    assert (Hd : 0 <= d < 2 ^ 32) by (apply rf_read_range32; exact H0).
    destruct (read_op i 1 32 s) as [sv|].
    - destruct RD as (Hsv & RD).
      assert (SRC : (match o1 with
                     | OpRegister v_r => reg_read_32 c v_r
                     | OpMemory v_m => (t1_v <- mem_addr c v_m ;; mem_read_32 t1_v)%M
                     | _ => fail EFatal end) s = (Ok sv, s)).
      { destruct RD as [(r1 & -> & RR)|(m & -> & EA & MR)]; [exact RR|]. rewrite (bind_ok _ _ _ _ _ EA). exact MR. }
      rewrite (bind_ok _ _ _ _ _ SRC). cbv zeta.
      rewrite (bind_ok _ _ _ _ _ (reg_read_32_ok c r0 s Hwf H0)). fold d.
      rewrite (bind_ok _ _ _ _ _ (eq_refl : lift (operand_to_reg (OpRegister r0)) s = (Ok r0, s))).
      rewrite (mg_lo I32 I64 U32 32 ltac:(lia) eq_refl eq_refl eq_refl eq_refl eq_refl d sv Hd Hsv).
      rewrite cast_u32_u64_id by (apply Z.mod_pos_bound; reflexivity).
      rewrite (bind_ok _ _ _ _ _ (reg_write_32_ok c r0 _ s H0 ltac:(apply Z.mod_pos_bound; reflexivity))).
      rewrite (bind_ok _ _ _ _ _ (mg_ov I32 I64 32 ltac:(lia) eq_refl eq_refl eq_refl eq_refl d sv Hd Hsv c _)).
      rewrite (bind_ok _ _ _ _ _ (mg_ov I32 I64 32 ltac:(lia) eq_refl eq_refl eq_refl eq_refl d sv Hd Hsv c _)).
      match goal with |- context [bind (set_flags_u32 c _ _ 0) _ ?st] =>
        rewrite (bind_ok _ _ _ _ _ (set_flags_u32_mul c _ st Hrf)) end.
      unfold ret. split; [|reflexivity].
      unfold with_flags, write_reg, mul_flags. destruct s; reflexivity.
    - destruct RD as (m & e & -> & EA & MR). exists e.
      assert (SRC : (t1_v <- mem_addr c m ;; mem_read_32 t1_v)%M s = (Err e, s)) by (rewrite (bind_ok _ _ _ _ _ EA); exact MR).
      rewrite (bind_err _ _ _ _ _ SRC). reflexivity.
  Qed.
End Imul2_32.

Section Imul2_16.
  Variables (c : cfg) (i : instr) (s : mstate).
  Hypothesis Hwf : wf_regs s.
  Hypothesis HI : Inv (mem s).
  Hypothesis Hrf : 0 <= rflags s < 2 ^ 64.
  Hypothesis Hn : i_op_count i = 2.
  Hypothesis K0 : i_op_kind i 0 = OK_Register.
  Hypothesis H0 : is_gpr16 (i_op_register i 0) = true.
  Hypothesis Hs1 : rm16_shape i 1.

  Theorem imul_r16_rm16_refines : i_code i = C_Imul_r16_rm16 -> mul_refines (SImul2 16) i s (instr_imul_r16_rm16 c i s).
  Proof.
    intros Ec. unfold mul_refines, instr_imul_r16_rm16. rewrite Ec.
    rewrite (bind_ok _ _ _ _ _ (dbg_code_ok c s _ eq_refl)).
    destruct (operands_2_r_rm16 c i s Hwf HI Hn K0 H0 Hs1) as (o1 & OP & RD).
    rewrite (bind_ok _ _ _ _ _ OP). cbv beta iota.
    cbn [isa_exec]. unfold exec_imul23. unfold read_op at 1. rewrite K0. rewrite rf_read_mod16 by exact H0.
    set (r0 := i_op_register i 0) in *. set (d := rf_read (regs s) r0).
    assert (Hd : 0 <= d < 2 ^ 16) by (apply rf_read_range16; exact H0).
    destruct (read_op i 1 16 s) as [sv|].
    - destruct RD as (Hsv & RD).
      assert (SRC : (match o1 with
                     | OpRegister v_r => reg_read_16 c v_r
                     | OpMemory v_m => (t1_v <- mem_addr c v_m ;; mem_read_16 t1_v)%M
                     | _ => fail EFatal end) s = (Ok sv, s)).
      { destruct RD as [(r1 & -> & RR)|(m & -> & EA & MR)]; [exact RR|]. rewrite (bind_ok _ _ _ _ _ EA). exact MR. }
      rewrite (bind_ok _ _ _ _ _ SRC). cbv zeta.
      rewrite (bind_ok _ _ _ _ _ (reg_read_16_ok c r0 s Hwf H0)). fold d.
      rewrite (bind_ok _ _ _ _ _ (eq_refl : lift (operand_to_reg (OpRegister r0)) s = (Ok r0, s))).
      rewrite (mg_lo I16 I32 U16 16 ltac:(lia) eq_refl eq_refl eq_refl eq_refl eq_refl d sv Hd Hsv).
      rewrite cast_u16_u64_id by (apply Z.mod_pos_bound; reflexivity).
      rewrite (bind_ok _ _ _ _ _ (reg_write_16_ok c r0 _ s Hwf H0 ltac:(apply Z.mod_pos_bound; reflexivity))).
      rewrite (bind_ok _ _ _ _ _ (mg_ov I16 I32 16 ltac:(lia) eq_refl eq_refl eq_refl eq_refl d sv Hd Hsv c _)).
      rewrite (bind_ok _ _ _ _ _ (mg_ov I16 I32 16 ltac:(lia) eq_refl eq_refl eq_refl eq_refl d sv Hd Hsv c _)).
      match goal with |- context [bind (set_flags_u16 c _ _ 0) _ ?st] =>
        rewrite (bind_ok _ _ _ _ _ (set_flags_u16_mul c _ st Hrf)) end.
      unfold ret. split; [|reflexivity].
      unfold with_flags, write_reg, mul_flags. destruct s; reflexivity.
    - destruct RD as (m & e & -> & EA & MR). exists e.
      assert (SRC : (t1_v <- mem_addr c m ;; mem_read_16 t1_v)%M s = (Err e, s)) by (rewrite (bind_ok _ _ _ _ _ EA); exact MR).
      rewrite (bind_err _ _ _ _ _ SRC). reflexivity.
  Qed.
End Imul2_16.

Definition read_rm16 (c : cfg) (i : instr) (k : Z) : MM Z :=
  bind (instruction_operand c i k) (fun op =>
    match op with
    | OpRegister r => reg_read_16 c r
    | OpMemory m => bind (mem_addr c m) (fun a => mem_read_16 a)
    | _ => fail EFatal
    end).

Section ReadRm16.
  Variables (c : cfg) (i : instr) (s : mstate) (k : Z).
  Hypothesis Hwf : wf_regs s.
  Hypothesis HI : Inv (mem s).
  Hypothesis Hk : 0 <= k < i_op_count i.
  Hypothesis Hs : rm16_shape i k.

  Theorem read_rm16_spec :
    match read_op i k 16 s with
    | Some d => read_rm16 c i k s = (Ok d, s) /\ 0 <= d < 2 ^ 16
    | None => exists e, read_rm16 c i k s = (Err e, s)
    end.
  Proof.
    unfold read_rm16, read_op. destruct Hs as [[K H]|[K Hm]]; rewrite K.
    - assert (O0 : instruction_operand c i k s = (Ok (OpRegister (i_op_register i k)), s))
        by (apply operand_register; [lia|exact K|reflexivity|apply gpr16_supported; exact H]).
      rewrite (bind_ok _ _ _ _ _ O0). rewrite (reg_read_16_ok c _ s Hwf H).
      rewrite rf_read_mod16 by exact H. split; [reflexivity|apply rf_read_range16; exact H].
    - destruct (operand_address c i k s Hwf Hm ltac:(lia) K) as (O1 & EA & _).
      rewrite (bind_ok _ _ _ _ _ O1). rewrite (bind_ok _ _ _ _ _ EA).
      unfold load. change (bytes_of 16) with 2%nat. change mem_read_16 with (mem_read_n 2).
      destruct (mem_read_n_cases 2 (ea i s) s HI) as [(v & E & R)|(e & E)]; rewrite E.
      + split; [reflexivity|exact R].
      + eexists; reflexivity.
  Qed.
End ReadRm16.


Definition read_rm8 (c : cfg) (i : instr) (k : Z) : MM Z :=
  bind (instruction_operand c i k) (fun op =>
    match op with
    | OpRegister r => reg_read_8 c r
    | OpMemory m => bind (mem_addr c m) (fun a => mem_read_8 a)
    | _ => fail EFatal
    end).

Section ReadRm8.
  Variables (c : cfg) (i : instr) (s : mstate) (k : Z).
  Hypothesis Hwf : wf_regs s.
  Hypothesis HI : Inv (mem s).
  Hypothesis Hk : 0 <= k < i_op_count i.
  Hypothesis Hs : rm8_shape i k.

  Theorem read_rm8_spec :
    match read_op i k 8 s with
    | Some d => read_rm8 c i k s = (Ok d, s) /\ 0 <= d < 2 ^ 8
    | None => exists e, read_rm8 c i k s = (Err e, s)
    end.
  Proof.
    unfold read_rm8, read_op. destruct Hs as [[K H]|[K Hm]]; rewrite K.
    - assert (O0 : instruction_operand c i k s = (Ok (OpRegister (i_op_register i k)), s))
        by (apply operand_register; [lia|exact K|reflexivity|apply gpr8_supported; exact H]).
      rewrite (bind_ok _ _ _ _ _ O0). rewrite (reg_read_8_ok c _ s Hwf H).
      rewrite rf_read_mod8 by exact H. split; [reflexivity|apply rf_read_range8; exact H].
    - destruct (operand_address c i k s Hwf Hm ltac:(lia) K) as (O1 & EA & _).
      rewrite (bind_ok _ _ _ _ _ O1). rewrite (bind_ok _ _ _ _ _ EA).
      unfold load. change (bytes_of 8) with 1%nat. change mem_read_8 with (mem_read_n 1).
      destruct (mem_read_n_cases 1 (ea i s) s HI) as [(v & E & R)|(e & E)]; rewrite E.
      + split; [reflexivity|exact R].
      + eexists; reflexivity.
  Qed.
End ReadRm8.


Section Mul1_64.
  Variables (c : cfg) (i : instr) (s : mstate).
  Hypothesis Hwf : wf_regs s.
  Hypothesis HI : Inv (mem s).
  Hypothesis Hrf : 0 <= rflags s < 2 ^ 64.
  Hypothesis Hn : i_op_count i = 1.
  Hypothesis Hs : rm64_shape i 0.

  Let a := rf_read (regs s) RAX.
  Let Ha : 0 <= a < 2 ^ 64. Proof. apply (rf_read_range64 s); reflexivity. Qed.

  Lemma wf_after_acc64 v : 0 <= v < 2 ^ 64 -> wf_regs (set_regs s (rf_write (regs s) RAX v)).
  Proof using Hwf. intros Hv q. cbn [regs set_regs]. apply rf_write_wf; [exact Hwf|cbn; repeat (first [left; reflexivity|right])|exact Hv]. Qed.

  (* IMUL r/m64: RDX:RAX <- RAX * r/m64 (signed) *)
  Theorem imul_rm64_refines : i_code i = C_Imul_rm64 -> mul_refines (SImul1 64) i s (instr_imul_rm64 c i s).
  Proof.
    intros Ec. unfold mul_refines, instr_imul_rm64. rewrite Ec.
    rewrite (bind_ok _ _ _ _ _ (dbg_code_ok c s _ eq_refl)).
    rewrite <- (bind_assoc (instruction_operand c i 0)). fold (read_rm64 c i 0).
    cbn [isa_exec]. unfold exec_mul.
    pose proof (read_rm64_spec c i s 0 Hwf HI ltac:(lia) Hs) as RD.
    destruct (read_op i 0 64 s) as [b|]; [destruct RD as [RD Hb]|destruct RD as [e RD]; exists e; rewrite (bind_err _ _ _ _ _ RD); reflexivity].
    rewrite (bind_ok _ _ _ _ _ RD). cbv beta zeta.
    rewrite (bind_ok _ _ _ _ _ (reg_read_64_ok c RAX s Hwf eq_refl)).
    change (acc 64) with RAX. change (hi_reg 64) with RDX. change (64 =? 8) with false. cbv iota. fold a.
    rewrite (mg_lo I64 I128 U64 64 ltac:(lia) eq_refl eq_refl eq_refl eq_refl eq_refl a b Ha Hb).
    rewrite (mg_hi I64 I128 U64 64 ltac:(lia) eq_refl eq_refl eq_refl eq_refl eq_refl a b Ha Hb).
    
    set (lo := (sgn 64 a * sgn 64 b) mod 2 ^ 64). set (hi := (sgn 64 a * sgn 64 b / 2 ^ 64) mod 2 ^ 64).
    assert (Hlo : 0 <= lo < 2 ^ 64) by (apply Z.mod_pos_bound; reflexivity).
    assert (Hhi : 0 <= hi < 2 ^ 64) by (apply Z.mod_pos_bound; reflexivity).
    rewrite (bind_ok _ _ _ _ _ (reg_write_64_ok c RAX lo s eq_refl)).
    rewrite (bind_ok _ _ _ _ _ (reg_write_64_ok c RDX hi _ eq_refl)).
    rewrite (bind_ok _ _ _ _ _ (mg_ov I64 I128 64 ltac:(lia) eq_refl eq_refl eq_refl eq_refl a b Ha Hb c _)).
    rewrite (bind_ok _ _ _ _ _ (mg_ov I64 I128 64 ltac:(lia) eq_refl eq_refl eq_refl eq_refl a b Ha Hb c _)).
    match goal with |- context [bind (set_flags_u64 c _ _ 0) _ ?st] =>
      rewrite (bind_ok _ _ _ _ _ (set_flags_u64_mul c _ st Hrf)) end.
    unfold ret. split; [|reflexivity].
    unfold with_flags, write_reg, mul_flags. destruct s; reflexivity.
  Qed.

  (* MUL r/m64: RDX:RAX <- RAX * r/m64 (unsigned) *)
  Theorem mul_rm64_refines : i_code i = C_Mul_rm64 -> mul_refines (SMul 64) i s (instr_mul_rm64 c i s).
  Proof.
    intros Ec. unfold mul_refines, instr_mul_rm64. rewrite Ec.
    rewrite (bind_ok _ _ _ _ _ (dbg_code_ok c s _ eq_refl)).
    rewrite <- (bind_assoc (instruction_operand c i 0)). fold (read_rm64 c i 0).
    cbn [isa_exec]. unfold exec_mul.
    pose proof (read_rm64_spec c i s 0 Hwf HI ltac:(lia) Hs) as RD.
    destruct (read_op i 0 64 s) as [b|]; [destruct RD as [RD Hb]|destruct RD as [e RD]; exists e; rewrite (bind_err _ _ _ _ _ RD); reflexivity].
    rewrite (bind_ok _ _ _ _ _ RD). cbv beta zeta.
    rewrite (bind_ok _ _ _ _ _ (reg_read_64_ok c RAX s Hwf eq_refl)).
    change (acc 64) with RAX. change (hi_reg 64) with RDX. change (64 =? 8) with false. cbv iota. fold a.
    rewrite (um_cast U128 64 ltac:(lia) eq_refl a Ha), (um_cast U128 64 ltac:(lia) eq_refl b Hb).
    rewrite (um_R U128 64 ltac:(lia) eq_refl a b Ha Hb).
    rewrite (um_lo U128 U64 64 eq_refl eq_refl a b).
    rewrite (um_hi U128 U64 64 ltac:(lia) eq_refl eq_refl eq_refl a b Ha Hb).
    
    set (lo := (a * b) mod 2 ^ 64). set (hi := (a * b / 2 ^ 64) mod 2 ^ 64).
    assert (Hlo : 0 <= lo < 2 ^ 64) by (apply Z.mod_pos_bound; reflexivity).
    assert (Hhi : 0 <= hi < 2 ^ 64) by (apply Z.mod_pos_bound; reflexivity).
    rewrite (bind_ok _ _ _ _ _ (reg_write_64_ok c RAX lo s eq_refl)).
    rewrite (bind_ok _ _ _ _ _ (reg_write_64_ok c RDX hi _ eq_refl)).
    match goal with |- context [bind (set_flags_u8 c _ _ 0) _ ?st] =>
      pose proof (set_flags_u8_mul c (negb (hi =? 0)) st Hrf) as F end.
    destruct (hi =? 0); cbn [negb] in F |- *; cbv iota in F; rewrite (bind_ok _ _ _ _ _ F);
      (unfold ret; split; [|reflexivity]; unfold with_flags, write_reg, mul_flags; destruct s; reflexivity).
  Qed.
End Mul1_64.

Section Mul1_32.
  Variables (c : cfg) (i : instr) (s : mstate).
  Hypothesis Hwf : wf_regs s.
  Hypothesis HI : Inv (mem s).
  Hypothesis Hrf : 0 <= rflags s < 2 ^ 64.
  Hypothesis Hn : i_op_count i = 1.
  Hypothesis Hs : rm32_shape i 0.

  Let a := rf_read (regs s) EAX.
  Let Ha : 0 <= a < 2 ^ 32. Proof. apply rf_read_range32; reflexivity. Qed.

  Lemma wf_after_acc32 v : 0 <= v < 2 ^ 32 -> wf_regs (set_regs s (rf_write (regs s) EAX v)).
  Proof using Hwf. intros Hv q. cbn [regs set_regs]. apply rf_write_wf; [exact Hwf|cbn; repeat (first [left; reflexivity|right])|exact Hv]. Qed.

  (* IMUL r/m32: EDX:EAX <- EAX * r/m32 (signed) *)
  Theorem imul_rm32_refines : i_code i = C_Imul_rm32 -> mul_refines (SImul1 32) i s (instr_imul_rm32 c i s).
  Proof.
    intros Ec. unfold mul_refines, instr_imul_rm32. rewrite Ec.
    rewrite (bind_ok _ _ _ _ _ (dbg_code_ok c s _ eq_refl)).
    rewrite <- (bind_assoc (instruction_operand c i 0)). fold (read_rm32 c i 0).
    cbn [isa_exec]. unfold exec_mul.
    pose proof (read_rm32_spec c i s 0 Hwf HI ltac:(lia) Hs) as RD.
    destruct (read_op i 0 32 s) as [b|]; [destruct RD as [RD Hb]|destruct RD as [e RD]; exists e; rewrite (bind_err _ _ _ _ _ RD); reflexivity].
    rewrite (bind_ok _ _ _ _ _ RD). cbv beta zeta.
    rewrite (bind_ok _ _ _ _ _ (reg_read_32_ok c EAX s Hwf eq_refl)).
    change (acc 32) with EAX. change (hi_reg 32) with EDX. change (32 =? 8) with false. cbv iota. fold a.
    rewrite (mg_lo I32 I64 U32 32 ltac:(lia) eq_refl eq_refl eq_refl eq_refl eq_refl a b Ha Hb).
    rewrite (mg_hi I32 I64 U32 32 ltac:(lia) eq_refl eq_refl eq_refl eq_refl eq_refl a b Ha Hb).
    rewrite !cast_u32_u64_id by (apply Z.mod_pos_bound; reflexivity).
    set (lo := (sgn 32 a * sgn 32 b) mod 2 ^ 32). set (hi := (sgn 32 a * sgn 32 b / 2 ^ 32) mod 2 ^ 32).
    assert (Hlo : 0 <= lo < 2 ^ 32) by (apply Z.mod_pos_bound; reflexivity).
    assert (Hhi : 0 <= hi < 2 ^ 32) by (apply Z.mod_pos_bound; reflexivity).
    rewrite (bind_ok _ _ _ _ _ (reg_write_32_ok c EAX lo s eq_refl Hlo)).
    rewrite (bind_ok _ _ _ _ _ (reg_write_32_ok c EDX hi _ eq_refl Hhi)).
    rewrite (bind_ok _ _ _ _ _ (mg_ov I32 I64 32 ltac:(lia) eq_refl eq_refl eq_refl eq_refl a b Ha Hb c _)).
    rewrite (bind_ok _ _ _ _ _ (mg_ov I32 I64 32 ltac:(lia) eq_refl eq_refl eq_refl eq_refl a b Ha Hb c _)).
    match goal with |- context [bind (set_flags_u32 c _ _ 0) _ ?st] =>
      rewrite (bind_ok _ _ _ _ _ (set_flags_u32_mul c _ st Hrf)) end.
    unfold ret. split; [|reflexivity].
    unfold with_flags, write_reg, mul_flags. destruct s; reflexivity.
  Qed.

  (* MUL r/m32: EDX:EAX <- EAX * r/m32 (unsigned) *)
  Theorem mul_rm32_refines : i_code i = C_Mul_rm32 -> mul_refines (SMul 32) i s (instr_mul_rm32 c i s).
  Proof.
    intros Ec. unfold mul_refines, instr_mul_rm32. rewrite Ec.
    rewrite (bind_ok _ _ _ _ _ (dbg_code_ok c s _ eq_refl)).
    rewrite <- (bind_assoc (instruction_operand c i 0)). fold (read_rm32 c i 0).
    cbn [isa_exec]. unfold exec_mul.
    pose proof (read_rm32_spec c i s 0 Hwf HI ltac:(lia) Hs) as RD.
    destruct (read_op i 0 32 s) as [b|]; [destruct RD as [RD Hb]|destruct RD as [e RD]; exists e; rewrite (bind_err _ _ _ _ _ RD); reflexivity].
    rewrite (bind_ok _ _ _ _ _ RD). cbv beta zeta.
    rewrite (bind_ok _ _ _ _ _ (reg_read_32_ok c EAX s Hwf eq_refl)).
    change (acc 32) with EAX. change (hi_reg 32) with EDX. change (32 =? 8) with false. cbv iota. fold a.
    
    rewrite (um_R U64 32 ltac:(lia) eq_refl a b Ha Hb).
    rewrite (um_lo U64 U32 32 eq_refl eq_refl a b).
    rewrite (um_hi U64 U32 32 ltac:(lia) eq_refl eq_refl eq_refl a b Ha Hb).
    rewrite !cast_u32_u64_id by (apply Z.mod_pos_bound; reflexivity).
    set (lo := (a * b) mod 2 ^ 32). set (hi := (a * b / 2 ^ 32) mod 2 ^ 32).
    assert (Hlo : 0 <= lo < 2 ^ 32) by (apply Z.mod_pos_bound; reflexivity).
    assert (Hhi : 0 <= hi < 2 ^ 32) by (apply Z.mod_pos_bound; reflexivity).
    rewrite (bind_ok _ _ _ _ _ (reg_write_32_ok c EAX lo s eq_refl Hlo)).
    rewrite (bind_ok _ _ _ _ _ (reg_write_32_ok c EDX hi _ eq_refl Hhi)).
    match goal with |- context [bind (set_flags_u8 c _ _ 0) _ ?st] =>
      pose proof (set_flags_u8_mul c (negb (hi =? 0)) st Hrf) as F end.
    destruct (hi =? 0); cbn [negb] in F |- *; cbv iota in F; rewrite (bind_ok _ _ _ _ _ F);
      (unfold ret; split; [|reflexivity]; unfold with_flags, write_reg, mul_flags; destruct s; reflexivity).
  Qed.
End Mul1_32.

Section Mul1_16.
  Variables (c : cfg) (i : instr) (s : mstate).
  Hypothesis Hwf : wf_regs s.
  Hypothesis HI : Inv (mem s).
  Hypothesis Hrf : 0 <= rflags s < 2 ^ 64.
  Hypothesis Hn : i_op_count i = 1.
  Hypothesis Hs : rm16_shape i 0.

  Let a := rf_read (regs s) AX.
  Let Ha : 0 <= a < 2 ^ 16. Proof. apply rf_read_range16; reflexivity. Qed.

  Lemma wf_after_acc16 v : 0 <= v < 2 ^ 16 -> wf_regs (set_regs s (rf_write (regs s) AX v)).
  Proof using Hwf. intros Hv q. cbn [regs set_regs]. apply rf_write_wf; [exact Hwf|cbn; repeat (first [left; reflexivity|right])|exact Hv]. Qed.

  (* IMUL r/m16: DX:AX <- AX * r/m16 (signed) *)
  Theorem imul_rm16_refines : i_code i = C_Imul_rm16 -> mul_refines (SImul1 16) i s (instr_imul_rm16 c i s).
  Proof.
    intros Ec. unfold mul_refines, instr_imul_rm16. rewrite Ec.
    rewrite (bind_ok _ _ _ _ _ (dbg_code_ok c s _ eq_refl)).
    rewrite <- (bind_assoc (instruction_operand c i 0)). fold (read_rm16 c i 0).
    cbn [isa_exec]. unfold exec_mul.
    pose proof (read_rm16_spec c i s 0 Hwf HI ltac:(lia) Hs) as RD.
    destruct (read_op i 0 16 s) as [b|]; [destruct RD as [RD Hb]|destruct RD as [e RD]; exists e; rewrite (bind_err _ _ _ _ _ RD); reflexivity].
    rewrite (bind_ok _ _ _ _ _ RD). cbv beta zeta.
    rewrite (bind_ok _ _ _ _ _ (reg_read_16_ok c AX s Hwf eq_refl)).
    change (acc 16) with AX. change (hi_reg 16) with DX. change (16 =? 8) with false. cbv iota. fold a.
    rewrite (mg_lo I16 I32 U16 16 ltac:(lia) eq_refl eq_refl eq_refl eq_refl eq_refl a b Ha Hb).
    rewrite (mg_hi I16 I32 U16 16 ltac:(lia) eq_refl eq_refl eq_refl eq_refl eq_refl a b Ha Hb).
    rewrite !cast_u16_u64_id by (apply Z.mod_pos_bound; reflexivity).
    set (lo := (sgn 16 a * sgn 16 b) mod 2 ^ 16). set (hi := (sgn 16 a * sgn 16 b / 2 ^ 16) mod 2 ^ 16).
    assert (Hlo : 0 <= lo < 2 ^ 16) by (apply Z.mod_pos_bound; reflexivity).
    assert (Hhi : 0 <= hi < 2 ^ 16) by (apply Z.mod_pos_bound; reflexivity).
    rewrite (bind_ok _ _ _ _ _ (reg_write_16_ok c AX lo s Hwf eq_refl Hlo)).
    rewrite (bind_ok _ _ _ _ _ (reg_write_16_ok c DX hi _ (wf_after_acc16 lo Hlo) eq_refl Hhi)).
    rewrite (bind_ok _ _ _ _ _ (mg_ov I16 I32 16 ltac:(lia) eq_refl eq_refl eq_refl eq_refl a b Ha Hb c _)).
    rewrite (bind_ok _ _ _ _ _ (mg_ov I16 I32 16 ltac:(lia) eq_refl eq_refl eq_refl eq_refl a b Ha Hb c _)).
    match goal with |- context [bind (set_flags_u16 c _ _ 0) _ ?st] =>
      rewrite (bind_ok _ _ _ _ _ (set_flags_u16_mul c _ st Hrf)) end.
    unfold ret. split; [|reflexivity].
    unfold with_flags, write_reg, mul_flags. destruct s; reflexivity.
  Qed.

  (* MUL r/m16: DX:AX <- AX * r/m16 (unsigned) *)
  Theorem mul_rm16_refines : i_code i = C_Mul_rm16 -> mul_refines (SMul 16) i s (instr_mul_rm16 c i s).
  Proof.
    intros Ec. unfold mul_refines, instr_mul_rm16. rewrite Ec.
    rewrite (bind_ok _ _ _ _ _ (dbg_code_ok c s _ eq_refl)).
    rewrite <- (bind_assoc (instruction_operand c i 0)). fold (read_rm16 c i 0).
    cbn [isa_exec]. unfold exec_mul.
    pose proof (read_rm16_spec c i s 0 Hwf HI ltac:(lia) Hs) as RD.
    destruct (read_op i 0 16 s) as [b|]; [destruct RD as [RD Hb]|destruct RD as [e RD]; exists e; rewrite (bind_err _ _ _ _ _ RD); reflexivity].
    rewrite (bind_ok _ _ _ _ _ RD). cbv beta zeta.
    rewrite (bind_ok _ _ _ _ _ (reg_read_16_ok c AX s Hwf eq_refl)).
    change (acc 16) with AX. change (hi_reg 16) with DX. change (16 =? 8) with false. cbv iota. fold a.
    rewrite (um_cast U32 16 ltac:(lia) eq_refl a Ha), (um_cast U32 16 ltac:(lia) eq_refl b Hb).
    rewrite (um_R U32 16 ltac:(lia) eq_refl a b Ha Hb).
    rewrite (um_lo U32 U16 16 eq_refl eq_refl a b).
    rewrite (um_hi U32 U16 16 ltac:(lia) eq_refl eq_refl eq_refl a b Ha Hb).
    rewrite !cast_u16_u64_id by (apply Z.mod_pos_bound; reflexivity).
    set (lo := (a * b) mod 2 ^ 16). set (hi := (a * b / 2 ^ 16) mod 2 ^ 16).
    assert (Hlo : 0 <= lo < 2 ^ 16) by (apply Z.mod_pos_bound; reflexivity).
    assert (Hhi : 0 <= hi < 2 ^ 16) by (apply Z.mod_pos_bound; reflexivity).
    rewrite (bind_ok _ _ _ _ _ (reg_write_16_ok c AX lo s Hwf eq_refl Hlo)).
    rewrite (bind_ok _ _ _ _ _ (reg_write_16_ok c DX hi _ (wf_after_acc16 lo Hlo) eq_refl Hhi)).
    match goal with |- context [bind (set_flags_u8 c _ _ 0) _ ?st] =>
      pose proof (set_flags_u8_mul c (negb (hi =? 0)) st Hrf) as F end.
    destruct (hi =? 0); cbn [negb] in F |- *; cbv iota in F; rewrite (bind_ok _ _ _ _ _ F);
      (unfold ret; split; [|reflexivity]; unfold with_flags, write_reg, mul_flags; destruct s; reflexivity).
  Qed.
End Mul1_16.

Section Mul1_8.
  Variables (c : cfg) (i : instr) (s : mstate).
  Hypothesis Hwf : wf_regs s.
  Hypothesis HI : Inv (mem s).
  Hypothesis Hrf : 0 <= rflags s < 2 ^ 64.
  Hypothesis Hn : i_op_count i = 1.
  Hypothesis Hs : rm8_shape i 0.

  Let a := rf_read (regs s) AL.
  Let Ha : 0 <= a < 2 ^ 8. Proof. apply rf_read_range8; reflexivity. Qed.

  (* IMUL r/m8: AX <- AL * r/m8 (signed) *)
  Theorem imul_rm8_refines : i_code i = C_Imul_rm8 -> mul_refines (SImul1 8) i s (instr_imul_rm8 c i s).
  Proof.
    intros Ec. unfold mul_refines, instr_imul_rm8. rewrite Ec.
    rewrite (bind_ok _ _ _ _ _ (dbg_code_ok c s _ eq_refl)).
    rewrite <- (bind_assoc (instruction_operand c i 0)). fold (read_rm8 c i 0).
    cbn [isa_exec]. unfold exec_mul.
    pose proof (read_rm8_spec c i s 0 Hwf HI ltac:(lia) Hs) as RD.
    destruct (read_op i 0 8 s) as [b|]; [destruct RD as [RD Hb]|destruct RD as [e RD]; exists e; rewrite (bind_err _ _ _ _ _ RD); reflexivity].
    rewrite (bind_ok _ _ _ _ _ RD). cbv beta zeta.
    rewrite (bind_ok _ _ _ _ _ (reg_read_8_ok c AL s Hwf eq_refl)).
    change (acc 8) with AL. change (8 =? 8) with true. cbv iota. fold a.
    rewrite (mg_full I8 I16 8 ltac:(lia) eq_refl eq_refl eq_refl eq_refl a b Ha Hb U16 eq_refl).
    change (2 ^ (2 * 8)) with (2 ^ 16).
    set (pr := (sgn 8 a * sgn 8 b) mod 2 ^ 16).
    assert (Hpr : 0 <= pr < 2 ^ 16) by (apply Z.mod_pos_bound; reflexivity).
    rewrite (cast_u16_u64_id pr Hpr).
    rewrite (bind_ok _ _ _ _ _ (reg_write_16_ok c AX pr s Hwf eq_refl Hpr)).
    rewrite (bind_ok _ _ _ _ _ (mg_ov I8 I16 8 ltac:(lia) eq_refl eq_refl eq_refl eq_refl a b Ha Hb c _)).
    rewrite (bind_ok _ _ _ _ _ (mg_ov I8 I16 8 ltac:(lia) eq_refl eq_refl eq_refl eq_refl a b Ha Hb c _)).
    match goal with |- context [bind (set_flags_u8 c _ _ 0) _ ?st] =>
      rewrite (bind_ok _ _ _ _ _ (set_flags_u8_mul c _ st Hrf)) end.
    unfold ret. split; [|reflexivity].
    unfold with_flags, write_reg, mul_flags. destruct s; reflexivity.
  Qed.

  (* MUL r/m8: AX <- AL * r/m8 (unsigned) *)
  Theorem mul_rm8_refines : i_code i = C_Mul_rm8 -> mul_refines (SMul 8) i s (instr_mul_rm8 c i s).
  Proof.
    intros Ec. unfold mul_refines, instr_mul_rm8. rewrite Ec.
    rewrite (bind_ok _ _ _ _ _ (dbg_code_ok c s _ eq_refl)).
    rewrite <- (bind_assoc (instruction_operand c i 0)). fold (read_rm8 c i 0).
    cbn [isa_exec]. unfold exec_mul.
    pose proof (read_rm8_spec c i s 0 Hwf HI ltac:(lia) Hs) as RD.
    destruct (read_op i 0 8 s) as [b|]; [destruct RD as [RD Hb]|destruct RD as [e RD]; exists e; rewrite (bind_err _ _ _ _ _ RD); reflexivity].
    rewrite (bind_ok _ _ _ _ _ RD). cbv beta zeta.
    rewrite (bind_ok _ _ _ _ _ (reg_read_8_ok c AL s Hwf eq_refl)).
    change (acc 8) with AL. change (8 =? 8) with true. cbv iota. fold a.
    rewrite (um_cast U16 8 ltac:(lia) eq_refl a Ha), (um_cast U16 8 ltac:(lia) eq_refl b Hb).
    rewrite (um_R U16 8 ltac:(lia) eq_refl a b Ha Hb).
    rewrite (um_hi U16 U8 8 ltac:(lia) eq_refl eq_refl eq_refl a b Ha Hb).
    rewrite (um_full 8 ltac:(lia) a b Ha Hb U16 ltac:(lia) eq_refl eq_refl).
    pose proof (um_prod_range 8 ltac:(lia) a b Ha Hb) as PR. change (2 ^ (2 * 8)) with (2 ^ 16) in PR.
    rewrite (Z.mod_small (a * b) (2 ^ 16) PR).
    set (hi := (a * b / 2 ^ 8) mod 2 ^ 8).
    rewrite (bind_ok _ _ _ _ _ (reg_write_16_ok c AX (a * b) s Hwf eq_refl PR)).
    match goal with |- context [bind (set_flags_u8 c _ _ 0) _ ?st] =>
      pose proof (set_flags_u8_mul c (negb (hi =? 0)) st Hrf) as F end.
    destruct (hi =? 0); cbn [negb] in F |- *; cbv iota in F; rewrite (bind_ok _ _ _ _ _ F);
      (unfold ret; split; [|reflexivity]; unfold with_flags, write_reg, mul_flags; destruct s; reflexivity).
  Qed.
End Mul1_8.

(* ---- the three-operand forms: IMUL r, r/m, imm ---- *)
Lemma cast_s_u ts tu w y :
  0 < w -> width ts = w -> signed ts = true -> width tu = w -> signed tu = false -> 0 <= y < 2 ^ w -> cast ts tu y = y.
Proof.
  intros Hw Ws Ss Wu Su Hy. unfold cast, Bits.sem, enc, modulus. rewrite Ss, Ws, Wu.
  assert (P : 2 ^ w = 2 * 2 ^ (w - 1)) by (replace w with (Z.succ (w - 1)) at 1 by lia; apply Z.pow_succ_r; lia).
  destruct (Z.ltb_spec y (2 ^ (w - 1))).
  - apply Z.mod_small. lia.
  - symmetry. apply (Z.mod_unique_pos _ _ (-1)); lia.
Qed.

Section Imul3_64.
  Variables (c : cfg) (i : instr) (s : mstate).
  Hypothesis Hwf : wf_regs s.
  Hypothesis HI : Inv (mem s).
  Hypothesis Hrf : 0 <= rflags s < 2 ^ 64.
  Hypothesis Hn : i_op_count i = 3.
  Hypothesis K0 : i_op_kind i 0 = OK_Register.
  Hypothesis H0 : is_gpr64 (i_op_register i 0) = true.
  Hypothesis Hs1 : rm64_shape i 1.

  Let r0 := i_op_register i 0.

  Lemma operands_3_r_rm64 :
    exists o1, instruction_operands_2 c i s = (Ok (OpRegister r0, o1), s) /\
      match read_op i 1 64 s with
      | Some sv =>
          0 <= sv < 2 ^ 64 /\
          ((exists r1, o1 = OpRegister r1 /\ reg_read_64 c r1 s = (Ok sv, s)) \/
           (exists m, o1 = OpMemory m /\ mem_addr c m s = (Ok (ea i s), s) /\ mem_read_64 (ea i s) s = (Ok sv, s)))
      | None => exists m e, o1 = OpMemory m /\ mem_addr c m s = (Ok (ea i s), s) /\ mem_read_64 (ea i s) s = (Err e, s)
      end.
  Proof.
    assert (S0 : is_supported r0 = true) by (unfold r0; destruct (i_op_register i 0); try discriminate H0; reflexivity).
    assert (O0 : instruction_operand c i 0 s = (Ok (OpRegister r0), s))
      by (apply operand_register; [rewrite Hn; reflexivity|exact K0|reflexivity|exact S0]).
    unfold instruction_operands_2, read_op.
    destruct Hs1 as [[K1 H1]|[K1 Hm]]; rewrite K1.
    - assert (S1 : is_supported (i_op_register i 1) = true) by (destruct (i_op_register i 1); try discriminate H1; reflexivity).
      assert (O1 : instruction_operand c i 1 s = (Ok (OpRegister (i_op_register i 1)), s))
        by (apply operand_register; [rewrite Hn; reflexivity|exact K1|reflexivity|exact S1]).
      eexists. split.
      + rewrite (bind_ok _ _ _ _ _ O0). rewrite (bind_ok _ _ _ _ _ O1). reflexivity.
      + rewrite rf_read_mod64 by exact H1. split; [apply (rf_read_range64 s); exact H1|].
        left. eexists. split; [reflexivity|]. apply reg_read_64_ok; assumption.
    - destruct (operand_address c i 1 s Hwf Hm ltac:(rewrite Hn; reflexivity) K1) as (O1 & EA & _).
      eexists. split.
      + rewrite (bind_ok _ _ _ _ _ O0). rewrite (bind_ok _ _ _ _ _ O1). reflexivity.
      + unfold load. change (bytes_of 64) with 8%nat. change mem_read_64 with (mem_read_n 8).
        destruct (mem_read_n_cases 8 (ea i s) s HI) as [(v & E & R)|(e & E)]; rewrite E.
        * split; [exact R|]. right. eexists. split; [reflexivity|]. split; [exact EA|reflexivity].
        * eexists. eexists. split; [reflexivity|]. split; [exact EA|reflexivity].
  Qed.

  (* the immediate: imm8 sign-extended to the operand size, or a full-size immediate *)
  Definition imm3_shape64 : Prop :=
    (i_op_kind i 2 = OK_Immediate8to64 /\ 0 <= i_immediate8to64 i < 2 ^ 64) \/
    (i_op_kind i 2 = OK_Immediate32to64 /\ 0 <= i_immediate32to64 i < 2 ^ 64).
  Hypothesis Him : imm3_shape64.

  Lemma imm3_operand64 :
    exists D n v, instruction_operand c i 2 s = (Ok (OpImmediate D n), s) /\ cast U64 I64 D = v /\
                  read_op i 2 64 s = Some v /\ 0 <= v < 2 ^ 64.
  Proof.
    unfold instruction_operand, read_op, assert_that. rewrite Hn. cbn [Z.ltb Z.compare].
    destruct Him as [[K R]|[K R]]; rewrite K; cbn [imm_of].
    - eexists. eexists. exists (i_immediate8to64 i). split; [reflexivity|]. split; [|split; [rewrite Z.mod_small by exact R; reflexivity|exact R]].
      rewrite (cast_s_u I64 U64 64 _ ltac:(lia) eq_refl eq_refl eq_refl eq_refl R). unfold cast, Bits.sem, enc, modulus; cbn [signed width]. apply Z.mod_small. exact R.
    - eexists. eexists. exists (i_immediate32to64 i). split; [reflexivity|]. split; [|split; [rewrite Z.mod_small by exact R; reflexivity|exact R]].
      rewrite (cast_s_u I64 U64 64 _ ltac:(lia) eq_refl eq_refl eq_refl eq_refl R). unfold cast, Bits.sem, enc, modulus; cbn [signed width]. apply Z.mod_small. exact R.
  Qed.

  Lemma imul3_run64 (F : MM unit) :
    F = (fun st =>
      ('(v_dest_op, v_src_op) <- (instruction_operands_2 c i) ;;
      v_imm_op <- (instruction_operand c i 2) ;;
      t2_v <- (match v_src_op with
      | OpRegister v_r => ((reg_read_64 c v_r))
      | OpMemory v_m => (t1_v <- (mem_addr c v_m) ;;
      (mem_read_64 t1_v))
      | _ => ((fail EFatal))
      end) ;;
      let v_src_value := (cast U64 I64 t2_v) in
      v_imm_value <- (match v_imm_op with
      | OpImmediate v_data _ => (ret ((cast U64 I64 v_data)))
      | _ => ((fail EFatal))
      end) ;;
      let '(v_result, v_overflow) := (omul I64 v_src_value v_imm_value) in
      t3_v <- lift ((operand_to_reg v_dest_op)) ;;
      _ <- (reg_write_64 c t3_v (cast I64 U64 v_result)) ;;
      _ <- (if v_overflow then (_ <- (set_flags_u8 c (Z.lor FLAG_CF FLAG_OF) 0 0) ;;
      ret (tt)) else (_ <- (set_flags_u8 c 0 (Z.lor FLAG_CF FLAG_OF) 0) ;;
      ret (tt))) ;;
      ret (tt))%M st) ->
    mul_refines (SImul3 64) i s (F s).
  Proof.
    intros ->. unfold mul_refines.
    destruct operands_3_r_rm64 as (o1 & OP & RD).
    destruct imm3_operand64 as (D & n & v & O2 & CV & RV & Hv).
    rewrite (bind_ok _ _ _ _ _ OP). cbv beta iota.
    rewrite (bind_ok _ _ _ _ _ O2).
    cbn [isa_exec]. unfold exec_imul23. rewrite RV.
    destruct (read_op i 1 64 s) as [sv|].
    - destruct RD as (Hsv & RD).
      assert (SRC : (match o1 with
                     | OpRegister v_r => reg_read_64 c v_r
                     | OpMemory v_m => (t1_v <- mem_addr c v_m ;; mem_read_64 t1_v)%M
                     | _ => fail EFatal end) s = (Ok sv, s)).
      { destruct RD as [(r1 & -> & RR)|(m & -> & EA & MR)]; [exact RR|]. rewrite (bind_ok _ _ _ _ _ EA). exact MR. }
      rewrite (bind_ok _ _ _ _ _ SRC). cbv zeta.
      rewrite (bind_ok _ _ _ _ _ (eq_refl : ret (cast U64 I64 D) s = _)). rewrite CV.
      assert (CS : cast U64 I64 sv = sv).
      { unfold cast, Bits.sem, enc, modulus; cbn [signed width]. apply Z.mod_small. exact Hsv. }
      rewrite CS.
      change (omul I64 sv v) with ((sgn 64 sv * sgn 64 v) mod 2 ^ 64, negb (fits_signed 64 (sgn 64 sv * sgn 64 v))).
      cbv beta iota.
      rewrite (bind_ok _ _ _ _ _ (eq_refl : lift (operand_to_reg (OpRegister r0)) s = (Ok r0, s))).
      set (res := (sgn 64 sv * sgn 64 v) mod 2 ^ 64).
      assert (Hres : 0 <= res < 2 ^ 64) by (apply Z.mod_pos_bound; reflexivity).
      rewrite (cast_s_u I64 U64 64 res ltac:(lia) eq_refl eq_refl eq_refl eq_refl Hres).
      rewrite (bind_ok _ _ _ _ _ (reg_write_64_ok c r0 res s H0)).
      match goal with |- context [set_flags_u8 c _ _ 0] =>
        pose proof (set_flags_u8_mul c (negb (fits_signed 64 (sgn 64 sv * sgn 64 v))) (set_regs s (rf_write (regs s) r0 res)) Hrf) as F end.
      destruct (fits_signed 64 (sgn 64 sv * sgn 64 v)); cbn [negb] in F |- *; cbv iota in F;
        rewrite bind_assoc; rewrite (bind_ok _ _ _ _ _ F);
        (unfold ret; split; [|reflexivity]; unfold with_flags, write_reg, mul_flags; destruct s; reflexivity).
    - destruct RD as (m & e & -> & EA & MR). exists e.
      assert (SRC : (t1_v <- mem_addr c m ;; mem_read_64 t1_v)%M s = (Err e, s)) by (rewrite (bind_ok _ _ _ _ _ EA); exact MR).
      rewrite (bind_err _ _ _ _ _ SRC). reflexivity.
  Qed.

  Theorem imul_r64_rm64_imm8_refines :
    i_code i = C_Imul_r64_rm64_imm8 -> mul_refines (SImul3 64) i s (instr_imul_r64_rm64_imm8 c i s).
  Proof.
    intros Ec. unfold instr_imul_r64_rm64_imm8. rewrite Ec. rewrite (bind_ok _ _ _ _ _ (dbg_code_ok c s _ eq_refl)).
    apply (imul3_run64 _ eq_refl).
  Qed.
  Theorem imul_r64_rm64_imm32_refines :
    i_code i = C_Imul_r64_rm64_imm32 -> mul_refines (SImul3 64) i s (instr_imul_r64_rm64_imm32 c i s).
  Proof.
    intros Ec. unfold instr_imul_r64_rm64_imm32. rewrite Ec. rewrite (bind_ok _ _ _ _ _ (dbg_code_ok c s _ eq_refl)).
    apply (imul3_run64 _ eq_refl).
  Qed.
End Imul3_64.

Section Imul3_32.
  Variables (c : cfg) (i : instr) (s : mstate).
  Hypothesis Hwf : wf_regs s.
  Hypothesis HI : Inv (mem s).
  Hypothesis Hrf : 0 <= rflags s < 2 ^ 64.
  Hypothesis Hn : i_op_count i = 3.
  Hypothesis K0 : i_op_kind i 0 = OK_Register.
  Hypothesis H0 : is_gpr32 (i_op_register i 0) = true.
  Hypothesis Hs1 : rm32_shape i 1.

  Let r0 := i_op_register i 0.

  Lemma operands_3_r_rm32 :
    exists o1, instruction_operands_2 c i s = (Ok (OpRegister r0, o1), s) /\
      match read_op i 1 32 s with
      | Some sv =>
          0 <= sv < 2 ^ 32 /\
          ((exists r1, o1 = OpRegister r1 /\ reg_read_32 c r1 s = (Ok sv, s)) \/
           (exists m, o1 = OpMemory m /\ mem_addr c m s = (Ok (ea i s), s) /\ mem_read_32 (ea i s) s = (Ok sv, s)))
      | None => exists m e, o1 = OpMemory m /\ mem_addr c m s = (Ok (ea i s), s) /\ mem_read_32 (ea i s) s = (Err e, s)
      end.
  Proof.
    assert (O0 : instruction_operand c i 0 s = (Ok (OpRegister r0), s))
      by (apply operand_register; [rewrite Hn; reflexivity|exact K0|reflexivity|apply gpr32_supported; exact H0]).
    unfold instruction_operands_2, read_op.
    destruct Hs1 as [[K1 H1]|[K1 Hm]]; rewrite K1.
    - assert (O1 : instruction_operand c i 1 s = (Ok (OpRegister (i_op_register i 1)), s))
        by (apply operand_register; [rewrite Hn; reflexivity|exact K1|reflexivity|apply gpr32_supported; exact H1]).
      eexists. split.
      + rewrite (bind_ok _ _ _ _ _ O0). rewrite (bind_ok _ _ _ _ _ O1). reflexivity.
      + rewrite rf_read_mod32 by exact H1. split; [apply rf_read_range32; exact H1|].
        left. eexists. split; [reflexivity|]. apply reg_read_32_ok; assumption.
    - destruct (operand_address c i 1 s Hwf Hm ltac:(rewrite Hn; reflexivity) K1) as (O1 & EA & _).
      eexists. split.
      + rewrite (bind_ok _ _ _ _ _ O0). rewrite (bind_ok _ _ _ _ _ O1). reflexivity.
      + unfold load. change (bytes_of 32) with 4%nat. change mem_read_32 with (mem_read_n 4).
        destruct (mem_read_n_cases 4 (ea i s) s HI) as [(v & E & R)|(e & E)]; rewrite E.
        * split; [exact R|]. right. eexists. split; [reflexivity|]. split; [exact EA|reflexivity].
        * eexists. eexists. split; [reflexivity|]. split; [exact EA|reflexivity].
  Qed.

  (* the immediate: imm8 sign-extended to the operand size, or a full-size immediate *)
  Definition imm3_shape32 : Prop :=
    (i_op_kind i 2 = OK_Immediate8to32 /\ 0 <= i_immediate8to32 i < 2 ^ 32) \/
    (i_op_kind i 2 = OK_Immediate32 /\ 0 <= i_immediate32 i < 2 ^ 32).
  Hypothesis Him : imm3_shape32.

  Lemma imm3_operand32 :
    exists D n v, instruction_operand c i 2 s = (Ok (OpImmediate D n), s) /\ cast U64 I32 D = v /\
                  read_op i 2 32 s = Some v /\ 0 <= v < 2 ^ 32.
  Proof.
    unfold instruction_operand, read_op, assert_that. rewrite Hn. cbn [Z.ltb Z.compare].
    destruct Him as [[K R]|[K R]]; rewrite K; cbn [imm_of].
    - eexists. eexists. exists (i_immediate8to32 i). split; [reflexivity|]. split; [|split; [rewrite Z.mod_small by exact R; reflexivity|exact R]].
      change (cast U64 I32 ?x) with (cast U64 U32 x). apply imm8to32_roundtrip. exact R.
    - eexists. eexists. exists (i_immediate32 i). split; [reflexivity|]. split; [|split; [rewrite Z.mod_small by exact R; reflexivity|exact R]].
      change (cast U64 I32 ?x) with (cast U64 U32 x). apply imm32_roundtrip. exact R.
  Qed.

  Lemma imul3_run32 (F : MM unit) :
    F = (fun st =>
      ('(v_dest_op, v_src_op) <- (instruction_operands_2 c i) ;;
      v_imm_op <- (instruction_operand c i 2) ;;
      t2_v <- (match v_src_op with
      | OpRegister v_r => ((reg_read_32 c v_r))
      | OpMemory v_m => (t1_v <- (mem_addr c v_m) ;;
      (mem_read_32 t1_v))
      | _ => ((fail EFatal))
      end) ;;
      let v_src_value := (cast U64 I32 t2_v) in
      v_imm_value <- (match v_imm_op with
      | OpImmediate v_data _ => (ret ((cast U64 I32 v_data)))
      | _ => ((fail EFatal))
      end) ;;
      let '(v_result, v_overflow) := (omul I32 v_src_value v_imm_value) in
      t3_v <- lift ((operand_to_reg v_dest_op)) ;;
      _ <- (reg_write_32 c t3_v (cast U32 U64 (cast I32 U32 v_result))) ;;
      _ <- (if v_overflow then (_ <- (set_flags_u8 c (Z.lor FLAG_CF FLAG_OF) 0 0) ;;
      ret (tt)) else (_ <- (set_flags_u8 c 0 (Z.lor FLAG_CF FLAG_OF) 0) ;;
      ret (tt))) ;;
      ret (tt))%M st) ->
    mul_refines (SImul3 32) i s (F s).
  Proof.
    intros ->. unfold mul_refines.
    destruct operands_3_r_rm32 as (o1 & OP & RD).
    destruct imm3_operand32 as (D & n & v & O2 & CV & RV & Hv).
    rewrite (bind_ok _ _ _ _ _ OP). cbv beta iota.
    rewrite (bind_ok _ _ _ _ _ O2).
    cbn [isa_exec]. unfold exec_imul23. rewrite RV.
    destruct (read_op i 1 32 s) as [sv|].
    - destruct RD as (Hsv & RD).
      assert (SRC : (match o1 with
                     | OpRegister v_r => reg_read_32 c v_r
                     | OpMemory v_m => (t1_v <- mem_addr c v_m ;; mem_read_32 t1_v)%M
                     | _ => fail EFatal end) s = (Ok sv, s)).
      { destruct RD as [(r1 & -> & RR)|(m & -> & EA & MR)]; [exact RR|]. rewrite (bind_ok _ _ _ _ _ EA). exact MR. }
      rewrite (bind_ok _ _ _ _ _ SRC). cbv zeta.
      rewrite (bind_ok _ _ _ _ _ (eq_refl : ret (cast U64 I32 D) s = _)). rewrite CV.
      assert (CS : cast U64 I32 sv = sv).
      { unfold cast, Bits.sem, enc, modulus; cbn [signed width]. apply Z.mod_small. exact Hsv. }
      rewrite CS.
      change (omul I32 sv v) with ((sgn 32 sv * sgn 32 v) mod 2 ^ 32, negb (fits_signed 32 (sgn 32 sv * sgn 32 v))).
      cbv beta iota.
      rewrite (bind_ok _ _ _ _ _ (eq_refl : lift (operand_to_reg (OpRegister r0)) s = (Ok r0, s))).
      set (res := (sgn 32 sv * sgn 32 v) mod 2 ^ 32).
      assert (Hres : 0 <= res < 2 ^ 32) by (apply Z.mod_pos_bound; reflexivity).
      rewrite (cast_s_u I32 U32 32 res ltac:(lia) eq_refl eq_refl eq_refl eq_refl Hres). rewrite (cast_u32_u64_id res Hres).
      rewrite (bind_ok _ _ _ _ _ (reg_write_32_ok c r0 res s H0 Hres)).
      match goal with |- context [set_flags_u8 c _ _ 0] =>
        pose proof (set_flags_u8_mul c (negb (fits_signed 32 (sgn 32 sv * sgn 32 v))) (set_regs s (rf_write (regs s) r0 res)) Hrf) as F end.
      destruct (fits_signed 32 (sgn 32 sv * sgn 32 v)); cbn [negb] in F |- *; cbv iota in F;
        rewrite bind_assoc; rewrite (bind_ok _ _ _ _ _ F);
        (unfold ret; split; [|reflexivity]; unfold with_flags, write_reg, mul_flags; destruct s; reflexivity).
    - destruct RD as (m & e & -> & EA & MR). exists e.
      assert (SRC : (t1_v <- mem_addr c m ;; mem_read_32 t1_v)%M s = (Err e, s)) by (rewrite (bind_ok _ _ _ _ _ EA); exact MR).
      rewrite (bind_err _ _ _ _ _ SRC). reflexivity.
  Qed.

  Theorem imul_r32_rm32_imm8_refines :
    i_code i = C_Imul_r32_rm32_imm8 -> mul_refines (SImul3 32) i s (instr_imul_r32_rm32_imm8 c i s).
  Proof.
    intros Ec. unfold instr_imul_r32_rm32_imm8. rewrite Ec. rewrite (bind_ok _ _ _ _ _ (dbg_code_ok c s _ eq_refl)).
    apply (imul3_run32 _ eq_refl).
  Qed.
  Theorem imul_r32_rm32_imm32_refines :
    i_code i = C_Imul_r32_rm32_imm32 -> mul_refines (SImul3 32) i s (instr_imul_r32_rm32_imm32 c i s).
  Proof.
    intros Ec. unfold instr_imul_r32_rm32_imm32. rewrite Ec. rewrite (bind_ok _ _ _ _ _ (dbg_code_ok c s _ eq_refl)).
    apply (imul3_run32 _ eq_refl).
  Qed.
End Imul3_32.

Section Imul3_16.
  Variables (c : cfg) (i : instr) (s : mstate).
  Hypothesis Hwf : wf_regs s.
  Hypothesis HI : Inv (mem s).
  Hypothesis Hrf : 0 <= rflags s < 2 ^ 64.
  Hypothesis Hn : i_op_count i = 3.
  Hypothesis K0 : i_op_kind i 0 = OK_Register.
  Hypothesis H0 : is_gpr16 (i_op_register i 0) = true.
  Hypothesis Hs1 : rm16_shape i 1.

  Let r0 := i_op_register i 0.

  Lemma operands_3_r_rm16 :
    exists o1, instruction_operands_2 c i s = (Ok (OpRegister r0, o1), s) /\
      match read_op i 1 16 s with
      | Some sv =>
          0 <= sv < 2 ^ 16 /\
          ((exists r1, o1 = OpRegister r1 /\ reg_read_16 c r1 s = (Ok sv, s)) \/
           (exists m, o1 = OpMemory m /\ mem_addr c m s = (Ok (ea i s), s) /\ mem_read_16 (ea i s) s = (Ok sv, s)))
      | None => exists m e, o1 = OpMemory m /\ mem_addr c m s = (Ok (ea i s), s) /\ mem_read_16 (ea i s) s = (Err e, s)
      end.
  Proof.
    assert (O0 : instruction_operand c i 0 s = (Ok (OpRegister r0), s))
      by (apply operand_register; [rewrite Hn; reflexivity|exact K0|reflexivity|apply gpr16_supported; exact H0]).
    unfold instruction_operands_2, read_op.
    destruct Hs1 as [[K1 H1]|[K1 Hm]]; rewrite K1.
    - assert (O1 : instruction_operand c i 1 s = (Ok (OpRegister (i_op_register i 1)), s))
        by (apply operand_register; [rewrite Hn; reflexivity|exact K1|reflexivity|apply gpr16_supported; exact H1]).
      eexists. split.
      + rewrite (bind_ok _ _ _ _ _ O0). rewrite (bind_ok _ _ _ _ _ O1). reflexivity.
      + rewrite rf_read_mod16 by exact H1. split; [apply rf_read_range16; exact H1|].
        left. eexists. split; [reflexivity|]. apply reg_read_16_ok; assumption.
    - destruct (operand_address c i 1 s Hwf Hm ltac:(rewrite Hn; reflexivity) K1) as (O1 & EA & _).
      eexists. split.
      + rewrite (bind_ok _ _ _ _ _ O0). rewrite (bind_ok _ _ _ _ _ O1). reflexivity.
      + unfold load. change (bytes_of 16) with 2%nat. change mem_read_16 with (mem_read_n 2).
        destruct (mem_read_n_cases 2 (ea i s) s HI) as [(v & E & R)|(e & E)]; rewrite E.
        * split; [exact R|]. right. eexists. split; [reflexivity|]. split; [exact EA|reflexivity].
        * eexists. eexists. split; [reflexivity|]. split; [exact EA|reflexivity].
  Qed.

  (* the immediate: imm8 sign-extended to the operand size, or a full-size immediate *)
  Definition imm3_shape16 : Prop :=
    (i_op_kind i 2 = OK_Immediate8to16 /\ 0 <= i_immediate8to16 i < 2 ^ 16) \/
    (i_op_kind i 2 = OK_Immediate16 /\ 0 <= i_immediate16 i < 2 ^ 16).
  Hypothesis Him : imm3_shape16.

  Lemma imm3_operand16 :
    exists D n v, instruction_operand c i 2 s = (Ok (OpImmediate D n), s) /\ cast U64 I16 D = v /\
                  read_op i 2 16 s = Some v /\ 0 <= v < 2 ^ 16.
  Proof.
    unfold instruction_operand, read_op, assert_that. rewrite Hn. cbn [Z.ltb Z.compare].
    destruct Him as [[K R]|[K R]]; rewrite K; cbn [imm_of].
    - eexists. eexists. exists (i_immediate8to16 i). split; [reflexivity|]. split; [|split; [rewrite Z.mod_small by exact R; reflexivity|exact R]].
      change (cast U64 I16 ?x) with (cast U64 U16 x). apply imm8to16_roundtrip. exact R.
    - eexists. eexists. exists (i_immediate16 i). split; [reflexivity|]. split; [|split; [rewrite Z.mod_small by exact R; reflexivity|exact R]].
      change (cast U64 I16 ?x) with (cast U64 U16 x). apply imm16_roundtrip. exact R.
  Qed.

  Lemma imul3_run16 (F : MM unit) :
    F = (fun st =>
      ('(v_dest_op, v_src_op) <- (instruction_operands_2 c i) ;;
      v_imm_op <- (instruction_operand c i 2) ;;
      t2_v <- (match v_src_op with
      | OpRegister v_r => ((reg_read_16 c v_r))
      | OpMemory v_m => (t1_v <- (mem_addr c v_m) ;;
      (mem_read_16 t1_v))
      | _ => ((fail EFatal))
      end) ;;
      let v_src_value := (cast U64 I16 t2_v) in
      v_imm_value <- (match v_imm_op with
      | OpImmediate v_data _ => (ret ((cast U64 I16 v_data)))
      | _ => ((fail EFatal))
      end) ;;
      let '(v_result, v_overflow) := (omul I16 v_src_value v_imm_value) in
      t3_v <- lift ((operand_to_reg v_dest_op)) ;;
      _ <- (reg_write_16 c t3_v (cast U16 U64 (cast I16 U16 v_result))) ;;
      _ <- (if v_overflow then (_ <- (set_flags_u8 c (Z.lor FLAG_CF FLAG_OF) 0 0) ;;
      ret (tt)) else (_ <- (set_flags_u8 c 0 (Z.lor FLAG_CF FLAG_OF) 0) ;;
      ret (tt))) ;;
      ret (tt))%M st) ->
    mul_refines (SImul3 16) i s (F s).
  Proof.
    intros ->. unfold mul_refines.
    destruct operands_3_r_rm16 as (o1 & OP & RD).
    destruct imm3_operand16 as (D & n & v & O2 & CV & RV & Hv).
    rewrite (bind_ok _ _ _ _ _ OP). cbv beta iota.
    rewrite (bind_ok _ _ _ _ _ O2).
    cbn [isa_exec]. unfold exec_imul23. rewrite RV.
    destruct (read_op i 1 16 s) as [sv|].
    - destruct RD as (Hsv & RD).
      assert (SRC : (match o1 with
                     | OpRegister v_r => reg_read_16 c v_r
                     | OpMemory v_m => (t1_v <- mem_addr c v_m ;; mem_read_16 t1_v)%M
                     | _ => fail EFatal end) s = (Ok sv, s)).
      { destruct RD as [(r1 & -> & RR)|(m & -> & EA & MR)]; [exact RR|]. rewrite (bind_ok _ _ _ _ _ EA). exact MR. }
      rewrite (bind_ok _ _ _ _ _ SRC). cbv zeta.
      rewrite (bind_ok _ _ _ _ _ (eq_refl : ret (cast U64 I16 D) s = _)). rewrite CV.
      assert (CS : cast U64 I16 sv = sv).
      { unfold cast, Bits.sem, enc, modulus; cbn [signed width]. apply Z.mod_small. exact Hsv. }
      rewrite CS.
      change (omul I16 sv v) with ((sgn 16 sv * sgn 16 v) mod 2 ^ 16, negb (fits_signed 16 (sgn 16 sv * sgn 16 v))).
      cbv beta iota.
      rewrite (bind_ok _ _ _ _ _ (eq_refl : lift (operand_to_reg (OpRegister r0)) s = (Ok r0, s))).
      set (res := (sgn 16 sv * sgn 16 v) mod 2 ^ 16).
      assert (Hres : 0 <= res < 2 ^ 16) by (apply Z.mod_pos_bound; reflexivity).
      rewrite (cast_s_u I16 U16 16 res ltac:(lia) eq_refl eq_refl eq_refl eq_refl Hres). rewrite (cast_u16_u64_id res Hres).
      rewrite (bind_ok _ _ _ _ _ (reg_write_16_ok c r0 res s Hwf H0 Hres)).
      match goal with |- context [set_flags_u8 c _ _ 0] =>
        pose proof (set_flags_u8_mul c (negb (fits_signed 16 (sgn 16 sv * sgn 16 v))) (set_regs s (rf_write (regs s) r0 res)) Hrf) as F end.
      destruct (fits_signed 16 (sgn 16 sv * sgn 16 v)); cbn [negb] in F |- *; cbv iota in F;
        rewrite bind_assoc; rewrite (bind_ok _ _ _ _ _ F);
        (unfold ret; split; [|reflexivity]; unfold with_flags, write_reg, mul_flags; destruct s; reflexivity).
    - destruct RD as (m & e & -> & EA & MR). exists e.
      assert (SRC : (t1_v <- mem_addr c m ;; mem_read_16 t1_v)%M s = (Err e, s)) by (rewrite (bind_ok _ _ _ _ _ EA); exact MR).
      rewrite (bind_err _ _ _ _ _ SRC). reflexivity.
  Qed.

  Theorem imul_r16_rm16_imm8_refines :
    i_code i = C_Imul_r16_rm16_imm8 -> mul_refines (SImul3 16) i s (instr_imul_r16_rm16_imm8 c i s).
  Proof.
    intros Ec. unfold instr_imul_r16_rm16_imm8. rewrite Ec. rewrite (bind_ok _ _ _ _ _ (dbg_code_ok c s _ eq_refl)).
    apply (imul3_run16 _ eq_refl).
  Qed.
  Theorem imul_r16_rm16_imm16_refines :
    i_code i = C_Imul_r16_rm16_imm16 -> mul_refines (SImul3 16) i s (instr_imul_r16_rm16_imm16 c i s).
  Proof.
    intros Ec. unfold instr_imul_r16_rm16_imm16. rewrite Ec. rewrite (bind_ok _ _ _ _ _ (dbg_code_ok c s _ eq_refl)).
    apply (imul3_run16 _ eq_refl).
  Qed.
End Imul3_16.
