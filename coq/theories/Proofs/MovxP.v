(* C01: MOVSXD r64, r/m32 and MOVZX r32/r64, r/m8 (register or memory source) against the ISA
   specification. *)
From Coq Require Import ZArith Bool List Lia.
From AxV Require Import Bits Outcome Codes Iced State Rt Mem Trace BitsP ByteStore MemP RegFile RegsP ISA CodeSem ReadonlyTac
  OperandP FlagsP CfP MovP RmP AluP AluRmP AluMemP Alu32P.
From AxG Require Import Flags Regs Operand Helpers I_movsxd I_movzx.
Local Open Scope Z_scope.
Ltac Zify.zify_post_hook ::= Z.div_mod_to_equations.

Lemma movsxd_value v : 0 <= v < 2 ^ 32 -> cast I64 U64 (cast I32 I64 (cast U32 I32 v)) = sgn 32 v mod 2 ^ 64.
Proof.
  intros H. unfold cast, Bits.sem, enc, modulus, sgn; cbn [signed width].
  change (2 ^ (32 - 1)) with 2147483648. change (2 ^ (64 - 1)) with 9223372036854775808.
  change (2 ^ 32) with 4294967296 in *. change (2 ^ 64) with 18446744073709551616.
  repeat match goal with |- context [if ?b then _ else _] => destruct b eqn:? end; lia.
Qed.

Section Movsxd.
  Variables (c : cfg) (i : instr) (s : mstate).
  Hypothesis Hwf : wf_regs s.
  Hypothesis HI : Inv (mem s).
  Hypothesis Hn : i_op_count i = 2.
  Hypothesis K0 : i_op_kind i 0 = OK_Register.
  Hypothesis H0 : is_gpr64 (i_op_register i 0) = true.
  Hypothesis Hs1 : rm32_shape i 1.

  Theorem movsxd_r64_rm32_refines :
    i_code i = C_Movsxd_r64_rm32 ->
    match isa_exec SMovsxd i s with
    | IDone s' u => instr_movsxd_r64_rm32 c i s = (Ok tt, s') /\ u = 0
    | IFault FMem => exists e, instr_movsxd_r64_rm32 c i s = (Err e, s)
    | IFault _ => False
    end.
  Proof.
    intros Ec. unfold instr_movsxd_r64_rm32. rewrite Ec.
    rewrite (bind_ok _ _ _ _ _ (dbg_code_ok c s _ eq_refl)).
    assert (S0 : is_supported (i_op_register i 0) = true) by (destruct (i_op_register i 0); try discriminate H0; reflexivity).
    assert (O0 : instruction_operand c i 0 s = (Ok (OpRegister (i_op_register i 0)), s))
      by (apply operand_register; [rewrite Hn; reflexivity|exact K0|reflexivity|exact S0]).
    assert (TR : lift (operand_to_reg (OpRegister (i_op_register i 0))) s = (Ok (i_op_register i 0), s)) by reflexivity.
    cbn [isa_exec]. unfold calculate_r_rm_64_32, read_op, write_op. rewrite K0.
    destruct Hs1 as [[K1 H1]|[K1 Hm]]; rewrite K1.
    - assert (O1 : instruction_operand c i 1 s = (Ok (OpRegister (i_op_register i 1)), s))
        by (apply operand_register; [rewrite Hn; reflexivity|exact K1|reflexivity|apply gpr32_supported; exact H1]).
      assert (OP : instruction_operands_2 c i s = (Ok (OpRegister (i_op_register i 0), OpRegister (i_op_register i 1)), s)).
      { unfold instruction_operands_2. rewrite (bind_ok _ _ _ _ _ O0). rewrite (bind_ok _ _ _ _ _ O1). reflexivity. }
      assert (Hv : 0 <= rf_read (regs s) (i_op_register i 1) < 2 ^ 32) by (apply rf_read_range32; exact H1).
      rewrite (bind_ok _ _ _ _ _ OP). cbv beta iota.
      rewrite (bind_ok _ _ _ _ _ (reg_read_32_ok c _ s Hwf H1)).
      rewrite (bind_ok _ _ _ _ _ TR). rewrite (bind_ok _ _ _ _ _ (reg_read_64_ok c _ s Hwf H0)).
      rewrite (cast_u64_u32_id _ Hv). rewrite (movsxd_value _ Hv).
      rewrite (bind_ok _ _ _ _ _ (eq_refl : lift (Ok _) s = _)).
      rewrite (bind_ok _ _ _ _ _ (set_flags_unaffected c _ s)).
      change (Z.land FLAGS_UNAFFECTED NO_WRITEBACK =? 0) with true. cbv iota.
      rewrite ?bind_assoc. rewrite (bind_ok _ _ _ _ _ (reg_write_64_ok c _ _ s H0)).
      rewrite rf_read_mod32 by exact H1. cbn [opt_done]. split; reflexivity.
    - destruct (operand_address c i 1 s Hwf Hm ltac:(rewrite Hn; reflexivity) K1) as (O1 & EA & _).
      assert (OP : instruction_operands_2 c i s = (Ok (OpRegister (i_op_register i 0), OpMemory (memop_of i)), s)).
      { unfold instruction_operands_2. rewrite (bind_ok _ _ _ _ _ O0). rewrite (bind_ok _ _ _ _ _ O1). reflexivity. }
      rewrite (bind_ok _ _ _ _ _ OP). cbv beta iota.
      rewrite bind_assoc. rewrite (bind_ok _ _ _ _ _ EA).
      unfold load. change (bytes_of 32) with 4%nat. change mem_read_32 with (mem_read_n 4).
      destruct (mem_read_n_cases 4 (ea i s) s HI) as [(v & E & R)|(e & E)]; rewrite E.
      + rewrite (bind_ok _ _ _ _ _ E).
        rewrite (bind_ok _ _ _ _ _ TR). rewrite (bind_ok _ _ _ _ _ (reg_read_64_ok c _ s Hwf H0)).
        rewrite (cast_u64_u32_id _ R). rewrite (movsxd_value _ R).
        rewrite (bind_ok _ _ _ _ _ (eq_refl : lift (Ok _) s = _)).
        rewrite (bind_ok _ _ _ _ _ (set_flags_unaffected c _ s)).
        change (Z.land FLAGS_UNAFFECTED NO_WRITEBACK =? 0) with true. cbv iota.
        rewrite ?bind_assoc. rewrite (bind_ok _ _ _ _ _ (reg_write_64_ok c _ _ s H0)).
        cbn [opt_done]. split; reflexivity.
      + exists e. rewrite (bind_err _ _ _ _ _ E). reflexivity.
  Qed.
End Movsxd.

Definition rm8_shape (i : instr) (k : Z) : Prop :=
  (i_op_kind i k = OK_Register /\ is_gpr8 (i_op_register i k) = true) \/
  (i_op_kind i k = OK_Memory /\ wf_mem_instr i).

Lemma gpr8_supported r : is_gpr8 r = true -> is_supported r = true.
Proof. destruct r; intros H; try discriminate H; reflexivity. Qed.

Lemma rf_read_range8 f r : is_gpr8 r = true -> 0 <= rf_read f r < 2 ^ 8.
Proof.
  intros H. unfold rf_read. destruct r; try discriminate H; cbn [to_qword view_lo view_width is_gpr8 is_gpr16 is_gpr32];
    apply Z.mod_pos_bound; reflexivity.
Qed.

Section Movzx8.
  Variables (c : cfg) (i : instr) (s : mstate).
  Hypothesis Hwf : wf_regs s.
  Hypothesis HI : Inv (mem s).
  Hypothesis Hn : i_op_count i = 2.
  Hypothesis K0 : i_op_kind i 0 = OK_Register.
  Hypothesis Hs1 : rm8_shape i 1.

  (* the byte source, as the specification reads it *)
  Lemma read_rm8 o0 :
    instruction_operand c i 0 s = (Ok o0, s) ->
    exists o1, instruction_operands_2 c i s = (Ok (o0, o1), s) /\
      match read_op i 1 8 s with
      | Some v => 0 <= v < 2 ^ 8 /\
          (match o1 with
           | OpRegister v_r => reg_read_8 c v_r
           | OpMemory v_m => bind (mem_addr c v_m) (fun t1_v => mem_read_8 t1_v)
           | _ => fail EFatal end) s = (Ok v, s)
      | None => exists e,
          (match o1 with
           | OpRegister v_r => reg_read_8 c v_r
           | OpMemory v_m => bind (mem_addr c v_m) (fun t1_v => mem_read_8 t1_v)
           | _ => fail EFatal end) s = (Err e, s)
      end.
  Proof.
    intros O0. unfold instruction_operands_2, read_op.
    destruct Hs1 as [[K1 H1]|[K1 Hm]]; rewrite K1.
    - assert (O1 : instruction_operand c i 1 s = (Ok (OpRegister (i_op_register i 1)), s))
        by (apply operand_register; [rewrite Hn; reflexivity|exact K1|reflexivity|apply gpr8_supported; exact H1]).
      eexists. split; [rewrite (bind_ok _ _ _ _ _ O0); rewrite (bind_ok _ _ _ _ _ O1); reflexivity|].
      rewrite Z.mod_small by (apply rf_read_range8; exact H1).
      split; [apply rf_read_range8; exact H1|]. apply reg_read_8_ok; assumption.
    - destruct (operand_address c i 1 s Hwf Hm ltac:(rewrite Hn; reflexivity) K1) as (O1 & EA & _).
      eexists. split; [rewrite (bind_ok _ _ _ _ _ O0); rewrite (bind_ok _ _ _ _ _ O1); reflexivity|].
      unfold load. change (bytes_of 8) with 1%nat. change mem_read_8 with (mem_read_n 1).
      destruct (mem_read_n_cases 1 (ea i s) s HI) as [(v & E & R)|(e & E)]; rewrite E.
      + split; [exact R|]. rewrite (bind_ok _ _ _ _ _ EA). exact E.
      + exists e. rewrite (bind_ok _ _ _ _ _ EA). exact E.
  Qed.

  Theorem movzx_r32_rm8_refines :
    i_code i = C_Movzx_r32_rm8 -> is_gpr32 (i_op_register i 0) = true ->
    match isa_exec (SMovzx 32 8) i s with
    | IDone s' u => instr_movzx_r32_rm8 c i s = (Ok tt, s') /\ u = 0
    | IFault FMem => exists e, instr_movzx_r32_rm8 c i s = (Err e, s)
    | IFault _ => False
    end.
  Proof.
    intros Ec H0. unfold instr_movzx_r32_rm8. rewrite Ec.
    rewrite (bind_ok _ _ _ _ _ (dbg_code_ok c s _ eq_refl)).
    assert (O0 : instruction_operand c i 0 s = (Ok (OpRegister (i_op_register i 0)), s))
      by (apply operand_register; [rewrite Hn; reflexivity|exact K0|reflexivity|apply gpr32_supported; exact H0]).
    destruct (read_rm8 _ O0) as (o1 & OP & RD).
    cbn [isa_exec]. rewrite (bind_ok _ _ _ _ _ OP). cbv beta iota.
    destruct (read_op i 1 8 s) as [v|].
    - destruct RD as [Hv RD]. rewrite (bind_ok _ _ _ _ _ RD).
      rewrite (bind_ok _ _ _ _ _ (eq_refl : lift (operand_to_reg (OpRegister (i_op_register i 0))) s = _)).
      rewrite reg_write_32_ok by (first [exact H0|change (2 ^ 8) with 256 in Hv; change (2 ^ 32) with 4294967296; lia]).
      unfold write_op. rewrite K0. cbn [opt_done]. split; reflexivity.
    - destruct RD as [e RD]. exists e. rewrite (bind_err _ _ _ _ _ RD). reflexivity.
  Qed.

  Theorem movzx_r64_rm8_refines :
    i_code i = C_Movzx_r64_rm8 -> is_gpr64 (i_op_register i 0) = true ->
    match isa_exec (SMovzx 64 8) i s with
    | IDone s' u => instr_movzx_r64_rm8 c i s = (Ok tt, s') /\ u = 0
    | IFault FMem => exists e, instr_movzx_r64_rm8 c i s = (Err e, s)
    | IFault _ => False
    end.
  Proof.
    intros Ec H0. unfold instr_movzx_r64_rm8. rewrite Ec.
    rewrite (bind_ok _ _ _ _ _ (dbg_code_ok c s _ eq_refl)).
    assert (S0 : is_supported (i_op_register i 0) = true) by (destruct (i_op_register i 0); try discriminate H0; reflexivity).
    assert (O0 : instruction_operand c i 0 s = (Ok (OpRegister (i_op_register i 0)), s))
      by (apply operand_register; [rewrite Hn; reflexivity|exact K0|reflexivity|exact S0]).
    destruct (read_rm8 _ O0) as (o1 & OP & RD).
    cbn [isa_exec]. rewrite (bind_ok _ _ _ _ _ OP). cbv beta iota.
    destruct (read_op i 1 8 s) as [v|].
    - destruct RD as [Hv RD]. rewrite (bind_ok _ _ _ _ _ RD).
      rewrite (bind_ok _ _ _ _ _ (eq_refl : lift (operand_to_reg (OpRegister (i_op_register i 0))) s = _)).
      rewrite reg_write_64_ok by exact H0.
      unfold write_op. rewrite K0. cbn [opt_done]. split; reflexivity.
    - destruct RD as [e RD]. exists e. rewrite (bind_err _ _ _ _ _ RD). reflexivity.
  Qed.
End Movzx8.

(* ---- MOVZX r32/r64, r/m16 ---- *)
Definition rm16_shape (i : instr) (k : Z) : Prop :=
  (i_op_kind i k = OK_Register /\ is_gpr16 (i_op_register i k) = true) \/
  (i_op_kind i k = OK_Memory /\ wf_mem_instr i).

Lemma gpr16_supported r : is_gpr16 r = true -> is_supported r = true.
Proof. destruct r; intros H; try discriminate H; reflexivity. Qed.
Lemma rf_read_range16 f r : is_gpr16 r = true -> 0 <= rf_read f r < 2 ^ 16.
Proof.
  intros H. unfold rf_read. destruct r; try discriminate H; cbn [to_qword view_lo view_width is_gpr8 is_gpr16 is_gpr32];
    apply Z.mod_pos_bound; reflexivity.
Qed.
Lemma cast_u64_u16_id v : 0 <= v < 2 ^ 16 -> cast U64 U16 v = v.
Proof. intros H. unfold cast, Bits.sem, enc, modulus; cbn [signed width]. apply Z.mod_small. exact H. Qed.
Lemma cast_u16_u32_id v : 0 <= v < 2 ^ 16 -> cast U16 U32 v = v.
Proof.
  intros H. unfold cast, Bits.sem, enc, modulus; cbn [signed width]. apply Z.mod_small.
  change (2 ^ 16) with 65536 in H. change (2 ^ 32) with 4294967296. lia.
Qed.
Lemma cast_u16_u64_id v : 0 <= v < 2 ^ 16 -> cast U16 U64 v = v.
Proof.
  intros H. unfold cast, Bits.sem, enc, modulus; cbn [signed width]. apply Z.mod_small.
  change (2 ^ 16) with 65536 in H. change (2 ^ 64) with 18446744073709551616. lia.
Qed.

Section Movzx16.
  Variables (c : cfg) (i : instr) (s : mstate).
  Hypothesis Hwf : wf_regs s.
  Hypothesis HI : Inv (mem s).
  Hypothesis Hn : i_op_count i = 2.
  Hypothesis K0 : i_op_kind i 0 = OK_Register.
  Hypothesis Hs1 : rm16_shape i 1.

  Lemma read_rm16 o0 :
    instruction_operand c i 0 s = (Ok o0, s) ->
    exists o1, instruction_operands_2 c i s = (Ok (o0, o1), s) /\
      match read_op i 1 16 s with
      | Some v => 0 <= v < 2 ^ 16 /\
          (match o1 with
           | OpMemory v_m => bind (mem_addr c v_m) (fun t1_v => mem_read_16 t1_v)
           | OpRegister v_r => reg_read_16 c v_r
           | _ => fail EFatal end) s = (Ok v, s)
      | None => exists e,
          (match o1 with
           | OpMemory v_m => bind (mem_addr c v_m) (fun t1_v => mem_read_16 t1_v)
           | OpRegister v_r => reg_read_16 c v_r
           | _ => fail EFatal end) s = (Err e, s)
      end.
  Proof.
    intros O0. unfold instruction_operands_2, read_op.
    destruct Hs1 as [[K1 H1]|[K1 Hm]]; rewrite K1.
    - assert (O1 : instruction_operand c i 1 s = (Ok (OpRegister (i_op_register i 1)), s))
        by (apply operand_register; [rewrite Hn; reflexivity|exact K1|reflexivity|apply gpr16_supported; exact H1]).
      eexists. split; [rewrite (bind_ok _ _ _ _ _ O0); rewrite (bind_ok _ _ _ _ _ O1); reflexivity|].
      rewrite Z.mod_small by (apply rf_read_range16; exact H1).
      split; [apply rf_read_range16; exact H1|]. apply reg_read_16_ok; assumption.
    - destruct (operand_address c i 1 s Hwf Hm ltac:(rewrite Hn; reflexivity) K1) as (O1 & EA & _).
      eexists. split; [rewrite (bind_ok _ _ _ _ _ O0); rewrite (bind_ok _ _ _ _ _ O1); reflexivity|].
      unfold load. change (bytes_of 16) with 2%nat. change mem_read_16 with (mem_read_n 2).
      destruct (mem_read_n_cases 2 (ea i s) s HI) as [(v & E & R)|(e & E)]; rewrite E.
      + split; [exact R|]. rewrite (bind_ok _ _ _ _ _ EA). exact E.
      + exists e. rewrite (bind_ok _ _ _ _ _ EA). exact E.
  Qed.

  Theorem movzx_r32_rm16_refines :
    i_code i = C_Movzx_r32_rm16 -> is_gpr32 (i_op_register i 0) = true ->
    match isa_exec (SMovzx 32 16) i s with
    | IDone s' u => instr_movzx_r32_rm16 c i s = (Ok tt, s') /\ u = 0
    | IFault FMem => exists e, instr_movzx_r32_rm16 c i s = (Err e, s)
    | IFault _ => False
    end.
  Proof.
    intros Ec H0. unfold instr_movzx_r32_rm16. rewrite Ec.
    rewrite (bind_ok _ _ _ _ _ (dbg_code_ok c s _ eq_refl)).
    assert (O0 : instruction_operand c i 0 s = (Ok (OpRegister (i_op_register i 0)), s))
      by (apply operand_register; [rewrite Hn; reflexivity|exact K0|reflexivity|apply gpr32_supported; exact H0]).
    destruct (read_rm16 _ O0) as (o1 & OP & RD).
    cbn [isa_exec]. unfold calculate_r_rm_32_16. rewrite (bind_ok _ _ _ _ _ OP). cbv beta iota.
    destruct (read_op i 1 16 s) as [v|].
    - destruct RD as [Hv RD]. rewrite (bind_ok _ _ _ _ _ RD).
      rewrite (bind_ok _ _ _ _ _ (eq_refl : lift (operand_to_reg (OpRegister (i_op_register i 0))) s = _)).
      rewrite (bind_ok _ _ _ _ _ (reg_read_32_ok c _ s Hwf H0)).
      rewrite (cast_u64_u16_id v Hv). rewrite (cast_u16_u32_id v Hv).
      rewrite (bind_ok _ _ _ _ _ (eq_refl : lift (Ok v) s = _)).
      rewrite (bind_ok _ _ _ _ _ (set_flags32_unaffected c _ s)).
      change (Z.land FLAGS_UNAFFECTED NO_WRITEBACK =? 0) with true. cbv iota.
      assert (Hv32 : 0 <= v < 2 ^ 32) by (change (2 ^ 16) with 65536 in Hv; change (2 ^ 32) with 4294967296; lia).
      rewrite (cast_u32_u64_id v Hv32).
      rewrite ?bind_assoc. rewrite (bind_ok _ _ _ _ _ (reg_write_32_ok c _ _ s H0 Hv32)).
      unfold write_op. rewrite K0. cbn [opt_done]. split; reflexivity.
    - destruct RD as [e RD]. exists e. rewrite (bind_err _ _ _ _ _ RD). reflexivity.
  Qed.

  Theorem movzx_r64_rm16_refines :
    i_code i = C_Movzx_r64_rm16 -> is_gpr64 (i_op_register i 0) = true ->
    match isa_exec (SMovzx 64 16) i s with
    | IDone s' u => instr_movzx_r64_rm16 c i s = (Ok tt, s') /\ u = 0
    | IFault FMem => exists e, instr_movzx_r64_rm16 c i s = (Err e, s)
    | IFault _ => False
    end.
  Proof.
    intros Ec H0. unfold instr_movzx_r64_rm16. rewrite Ec.
    rewrite (bind_ok _ _ _ _ _ (dbg_code_ok c s _ eq_refl)).
    assert (S0 : is_supported (i_op_register i 0) = true) by (destruct (i_op_register i 0); try discriminate H0; reflexivity).
    assert (O0 : instruction_operand c i 0 s = (Ok (OpRegister (i_op_register i 0)), s))
      by (apply operand_register; [rewrite Hn; reflexivity|exact K0|reflexivity|exact S0]).
    destruct (read_rm16 _ O0) as (o1 & OP & RD).
    cbn [isa_exec]. unfold calculate_r_rm_64_16. rewrite (bind_ok _ _ _ _ _ OP). cbv beta iota.
    destruct (read_op i 1 16 s) as [v|].
    - destruct RD as [Hv RD]. rewrite (bind_ok _ _ _ _ _ RD).
      rewrite (bind_ok _ _ _ _ _ (eq_refl : lift (operand_to_reg (OpRegister (i_op_register i 0))) s = _)).
      rewrite (bind_ok _ _ _ _ _ (reg_read_64_ok c _ s Hwf H0)).
      rewrite (cast_u64_u16_id v Hv). rewrite (cast_u16_u64_id v Hv).
      rewrite (bind_ok _ _ _ _ _ (eq_refl : lift (Ok v) s = _)).
      rewrite (bind_ok _ _ _ _ _ (set_flags_unaffected c _ s)).
      change (Z.land FLAGS_UNAFFECTED NO_WRITEBACK =? 0) with true. cbv iota.
      rewrite ?bind_assoc. rewrite (bind_ok _ _ _ _ _ (reg_write_64_ok c _ _ s H0)).
      unfold write_op. rewrite K0. cbn [opt_done]. split; reflexivity.
    - destruct RD as [e RD]. exists e. rewrite (bind_err _ _ _ _ _ RD). reflexivity.
  Qed.
End Movzx16.
