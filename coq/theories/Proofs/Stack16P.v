(* C04: PUSH r/m16 (register or memory source). *)
From Coq Require Import ZArith Bool List Lia.
From AxV Require Import Bits Outcome Codes Iced State Rt Mem Trace BitsP ByteStore MemP RegFile RegsP ISA CodeSem ReadonlyTac
  OperandP FlagsP CfP MovP RmP AluP MovxP StackP CallRetP Div32P MulP.
From AxG Require Import Flags Regs Operand Helpers I_push I_pop.
Local Open Scope Z_scope.

(* PUSH r/m16: the 16-bit register or the two bytes at the operand's address are pushed *)
Theorem push_rm16_exact c i s :
  wf_regs s -> Inv (mem s) -> i_op_count i = 1 -> rm16_shape i 0 -> i_code i = C_Push_rm16 ->
  match read_op i 0 16 s with
  | Some v =>
      (exists s', emu_push 2 v s = Some s' /\ instr_push_rm16 c i s = (Ok tt, s')) \/
      (emu_push 2 v s = None /\ exists e, instr_push_rm16 c i s = (Err e, s))
  | None => exists e, instr_push_rm16 c i s = (Err e, s)
  end.
Proof.
  intros Hwf HI Hn Hs Ec. unfold instr_push_rm16. rewrite Ec.
  rewrite (bind_ok _ _ _ _ _ (dbg_code_ok c s _ eq_refl)).
  rewrite <- (bind_assoc (instruction_operand c i 0)). fold (read_rm16 c i 0).
  pose proof (read_rm16_spec c i s 0 Hwf HI ltac:(lia) Hs) as RD.
  destruct (read_op i 0 16 s) as [v|]; [destruct RD as [RD Rv]|destruct RD as [e RD]; exists e; rewrite (bind_err _ _ _ _ _ RD); reflexivity].
  rewrite (bind_ok _ _ _ _ _ RD).
  rewrite (bind_ok _ _ _ _ _ (rr64_rsp c s)).
  unfold emu_push, store.
  destruct (write_never_panics (regs s RSP) (le_bytes 2 v) s HI) as [[s1 W]|[e W]].
  - left. rewrite W. eexists. split; [reflexivity|].
    assert (E' : mem_write_16 (regs s RSP) v s = (Ok tt, s1)) by (rewrite typed_write_16_is_le by exact Rv; exact W).
    rewrite (bind_ok _ _ _ _ _ E'). rewrite (bind_ok _ _ _ _ _ (rw64_rsp c _ s1)). unfold ret. reflexivity.
  - right. rewrite W. split; [reflexivity|]. exists e.
    assert (E' : mem_write_16 (regs s RSP) v s = (Err e, s)) by (rewrite typed_write_16_is_le by exact Rv; exact W).
    unfold bind. rewrite E'. reflexivity.
Qed.

(* PUSH r32 / POP r32 do not exist in 64-bit mode (the decoder never produces them); the emulator's arms return
   a fatal error value and change nothing *)
Theorem push_pop_r32_rejected c i s :
  (i_code i = C_Push_r32 -> instr_push_r32 c i s = (Err EFatal, s)) /\
  (i_code i = C_Pop_r32 -> instr_pop_r32 c i s = (Err EFatal, s)).
Proof.
  split; intros Ec; [unfold instr_push_r32|unfold instr_pop_r32]; rewrite Ec;
    rewrite (bind_ok _ _ _ _ _ (dbg_code_ok c s _ eq_refl)); reflexivity.
Qed.
