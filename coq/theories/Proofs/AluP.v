(* C01/C02: refinement of 64-bit register-register ALU forms (ADD, AND, XOR) against the ISA
   specification: result, all five arithmetic flags, every other flag bit, nothing else. *)
From Coq Require Import ZArith Bool List Lia.
From AxV Require Import Bits Outcome Codes Iced State Rt Mem Trace BitsP RegFile RegsP ISA CodeSem ReadonlyTac
  OperandP FlagsP CfP MovP.
From AxG Require Import Flags Regs Operand Helpers I_add I_and I_xor.
Local Open Scope Z_scope.
Ltac Zify.zify_post_hook ::= Z.div_mod_to_equations.

Section RegReg64.
  Variables (c : cfg) (i : instr) (s : mstate).
  Hypothesis Hwf : wf_regs s.
  Hypothesis Hn : i_op_count i = 2.
  Hypothesis K0 : i_op_kind i 0 = OK_Register.
  Hypothesis K1 : i_op_kind i 1 = OK_Register.
  Hypothesis H0 : is_gpr64 (i_op_register i 0) = true.
  Hypothesis H1 : is_gpr64 (i_op_register i 1) = true.

  Let r0 := i_op_register i 0.
  Let r1 := i_op_register i 1.
  Let d := rf_read (regs s) r0.
  Let sv := rf_read (regs s) r1.

  (* what calculate_rm_r_64f does on two 64-bit registers, for any operation closure *)
  Lemma calc_rm_r_64f_regreg (op : Z -> Z -> outcome (Z * Z)) fset fclear res fl :
    op d sv = Ok (res, fl) -> Z.land fl NO_WRITEBACK = 0 ->
    calculate_rm_r_64f c i op fset fclear s =
    bind (set_flags_u64 c (Z.lor fset fl) fclear res)
         (fun _ => if Z.land fset NO_WRITEBACK =? 0 then reg_write_64 c r0 res else ret tt) s.
  Proof.
    intros Hop Hfl.
    assert (S0 : is_supported r0 = true) by (unfold r0; destruct (i_op_register i 0); try discriminate H0; reflexivity).
    assert (S1 : is_supported r1 = true) by (unfold r1; destruct (i_op_register i 1); try discriminate H1; reflexivity).
    assert (O0 : instruction_operand c i 0 s = (Ok (OpRegister r0), s))
      by (apply operand_register; [rewrite Hn; reflexivity|exact K0|reflexivity|exact S0]).
    assert (O1 : instruction_operand c i 1 s = (Ok (OpRegister r1), s))
      by (apply operand_register; [rewrite Hn; reflexivity|exact K1|reflexivity|exact S1]).
    unfold calculate_rm_r_64f, instruction_operands_2. rewrite !bind_assoc.
    rewrite (bind_ok _ _ _ _ _ O0). rewrite ?bind_assoc. rewrite (bind_ok _ _ _ _ _ O1).
    unfold ret at 1. cbv beta iota.
    rewrite (bind_ok _ _ _ _ _ (eq_refl : (fun s0 => (Ok (OpRegister r0, OpRegister r1), s0)) s = _)).
    cbv beta iota.
    assert (TR : lift (operand_to_reg (OpRegister r1)) s = (Ok r1, s)) by reflexivity.
    rewrite (bind_ok _ _ _ _ _ TR).
    rewrite (bind_ok _ _ _ _ _ (reg_read_64_ok c _ s Hwf H1)).
    rewrite (bind_ok _ _ _ _ _ (reg_read_64_ok c _ s Hwf H0)).
    fold r0 r1 d sv. rewrite Hop.
    rewrite (bind_ok _ _ _ _ _ (eq_refl : lift (Ok (res, fl)) s = _)). cbv beta iota.
    assert (DA : lift (debug_assert_that c (Z.land fl NO_WRITEBACK =? 0)) s = (Ok tt, s)).
    { unfold lift, debug_assert_that, assert_that. rewrite Hfl. destruct (dbg c); reflexivity. }
    rewrite (bind_ok _ _ _ _ _ DA).
    unfold bind at 1. unfold bind at 3.
    destruct (set_flags_u64 c (Z.lor fset fl) fclear res s) as [[[]|e|p|] s1]; try reflexivity.
    destruct (Z.land fset NO_WRITEBACK =? 0).
    - rewrite ?bind_assoc. unfold bind. destruct (reg_write_64 c r0 res s1) as [[[]|e|p|] s2]; reflexivity.
    - reflexivity.
  Qed.
End RegReg64.

Section Alu64.
  Variables (c : cfg) (i : instr) (s : mstate).
  Hypothesis Hwf : wf_regs s.
  Hypothesis Hrf : 0 <= rflags s < 2 ^ 64.
  Hypothesis Hn : i_op_count i = 2.
  Hypothesis K0 : i_op_kind i 0 = OK_Register.
  Hypothesis K1 : i_op_kind i 1 = OK_Register.
  Hypothesis H0 : is_gpr64 (i_op_register i 0) = true.
  Hypothesis H1 : is_gpr64 (i_op_register i 1) = true.

  Lemma dbg_code_ok (b : bool) : b = true ->
    lift (debug_assert_that c b) s = (Ok tt, s).
  Proof. intros ->. unfold lift, debug_assert_that, assert_that. destruct (dbg c); reflexivity. Qed.

  (* AND r/m64, r64 on registers *)
  Theorem and_rm64_r64_refines :
    i_code i = C_And_rm64_r64 ->
    exists s', instr_and_rm64_r64 c i s = (Ok tt, s') /\ isa_exec (SAlu AND 64) i s = IDone s' 0.
  Proof.
    intros Ec. unfold instr_and_rm64_r64. rewrite Ec.
    rewrite (bind_ok _ _ _ _ _ (dbg_code_ok _ eq_refl)).
    rewrite (calc_rm_r_64f_regreg c i s Hwf Hn K0 K1 H0 H1 _ _ _ _ 0 eq_refl eq_refl).
    change (Z.lor (Z.lor (Z.lor FLAG_SF FLAG_ZF) FLAG_PF) 0) with (arith_fs false false).
    change (Z.lor FLAG_OF FLAG_CF) with 2049.
    rewrite (bind_ok _ _ _ _ _ (set_flags_u64_arith c false false _ s Hrf)).
    change (Z.land (Z.lor (Z.lor FLAG_SF FLAG_ZF) FLAG_PF) NO_WRITEBACK =? 0) with true. cbv iota.
    rewrite (reg_write_64_ok c _ _ _ H0).
    eexists. split; [reflexivity|].
    cbn [isa_exec]. unfold exec_alu, read_op, write_op. rewrite K0, K1. rewrite !rf_read_mod64 by assumption.
    cbn [alu b2f]. cbn [opt_done]. reflexivity.
  Qed.
End Alu64.

(* ---- ADD ---- *)
Lemma testbit_top x k : 0 <= k -> 0 <= x < 2 ^ (k + 1) -> Z.testbit x k = (2 ^ k <=? x).
Proof.
  intros Hk Hx. rewrite Z.testbit_eqb by lia.
  assert (P : 0 < 2 ^ k) by (apply Z.pow_pos_nonneg; lia).
  rewrite Z.pow_add_r in Hx by lia. change (2 ^ 1) with 2 in Hx.
  destruct (Z.leb_spec (2 ^ k) x).
  - assert (E1 : x / 2 ^ k = 1) by (symmetry; apply Z.div_unique with (x - 2 ^ k); lia). rewrite E1. reflexivity.
  - rewrite Z.div_small by lia. reflexivity.
Qed.

Lemma land_signbit x k : 0 <= k -> 0 <= x < 2 ^ (k + 1) -> Z.land x (2 ^ k) = if 2 ^ k <=? x then 2 ^ k else 0.
Proof.
  intros Hk Hx. pose proof (land_pow2_testbit x k Hk) as T. rewrite (testbit_top x k Hk Hx) in T.
  destruct (2 ^ k <=? x) eqn:E; cbn [negb] in T.
  - apply Z.eqb_neq in T. apply Z.bits_inj'. intros j Hj. rewrite Z.land_spec.
    destruct (Z.eq_dec j k) as [->|N].
    + rewrite Z.pow2_bits_true by lia. rewrite andb_true_r. rewrite (testbit_top x k Hk Hx). exact E.
    + rewrite Z.pow2_bits_false by lia. apply andb_false_r.
  - apply Z.eqb_eq in T. exact T.
Qed.

Lemma add64_closure c d sv :
  0 <= d < 2 ^ 64 -> 0 <= sv < 2 ^ 64 ->
  (let v_result := wadd U64 d sv in
   t1_v <~ add_chk c U128 (cast U64 U128 d) (cast U64 U128 sv) ;;
   Ok (v_result,
       Z.lor (if negb (Z.land v_result 9223372036854775808 =? Z.land d 9223372036854775808) &&
                 negb (Z.land v_result 9223372036854775808 =? Z.land sv 9223372036854775808)
              then FLAG_OF else 0)
             (if negb (Z.land t1_v 18446744073709551616 =? 0) then FLAG_CF else 0)))%out
  = Ok ((d + sv) mod 2 ^ 64,
        Z.lor (b2f (negb (fits_signed 64 (sgn 64 d + sgn 64 sv))) FLAG_OF) (b2f (2 ^ 64 <=? d + sv) FLAG_CF)).
Proof.
  intros Hd Hs. cbv zeta.
  assert (C1 : cast U64 U128 d = d) by (unfold cast, Bits.sem, enc, modulus; cbn [signed width]; apply Z.mod_small; change (2 ^ 128) with 340282366920938463463374607431768211456; change (2 ^ 64) with 18446744073709551616 in *; lia).
  assert (C2 : cast U64 U128 sv = sv) by (unfold cast, Bits.sem, enc, modulus; cbn [signed width]; apply Z.mod_small; change (2 ^ 128) with 340282366920938463463374607431768211456; change (2 ^ 64) with 18446744073709551616 in *; lia).
  rewrite C1, C2.
  assert (A : add_chk c U128 d sv = Ok (d + sv)).
  { unfold add_chk.
    assert (R : in_range U128 (Bits.sem U128 d + Bits.sem U128 sv) = true).
    { unfold in_range, Bits.sem, modulus; cbn [signed width]. change (2 ^ 128) with 340282366920938463463374607431768211456.
      change (2 ^ 64) with 18446744073709551616 in *. apply andb_true_iff. split; [apply Z.leb_le|apply Z.ltb_lt]; lia. }
    assert (W : wadd U128 d sv = d + sv) by (unfold wadd; apply enc_small; unfold modulus; cbn [width]; change (2 ^ 128) with 340282366920938463463374607431768211456; change (2 ^ 64) with 18446744073709551616 in *; lia).
    destruct (ovf c); rewrite ?R, W; reflexivity. }
  rewrite A. cbn [obind].
  assert (W : wadd U64 d sv = (d + sv) mod 2 ^ 64) by reflexivity. rewrite W.
  set (r := (d + sv) mod 2 ^ 64).
  assert (Hr : 0 <= r < 2 ^ 64) by (apply Z.mod_pos_bound; reflexivity).
  change 9223372036854775808 with (2 ^ 63). change 18446744073709551616 with (2 ^ 64).
  rewrite (land_signbit r 63), (land_signbit d 63), (land_signbit sv 63) by (try lia; assumption).
  rewrite (land_signbit (d + sv) 64) by (try lia; change (2 ^ (64 + 1)) with 36893488147419103232; change (2 ^ 64) with 18446744073709551616 in *; lia).
  f_equal. f_equal. f_equal.
  - (* OF *)
    unfold fits_signed, sgn. change (2 ^ (64 - 1)) with (2 ^ 63). unfold r in *.
    change (2 ^ 63) with 9223372036854775808 in *. change (2 ^ 64) with 18446744073709551616 in *.
    destruct (Z.leb_spec 9223372036854775808 ((d + sv) mod 18446744073709551616));
      destruct (Z.leb_spec 9223372036854775808 d); destruct (Z.leb_spec 9223372036854775808 sv);
      destruct (Z.ltb_spec d 9223372036854775808); destruct (Z.ltb_spec sv 9223372036854775808); try lia;
      cbn [Z.eqb negb andb b2f];
      match goal with |- context [(?a <=? ?b) && (?x <? ?y)] => destruct (Z.leb_spec a b); destruct (Z.ltb_spec x y) end;
      cbn [negb andb b2f]; try reflexivity; lia.
  - (* CF *)
    destruct (2 ^ 64 <=? d + sv); reflexivity.
Qed.

Section Add64.
  Variables (c : cfg) (i : instr) (s : mstate).
  Hypothesis Hwf : wf_regs s.
  Hypothesis Hrf : 0 <= rflags s < 2 ^ 64.
  Hypothesis Hn : i_op_count i = 2.
  Hypothesis K0 : i_op_kind i 0 = OK_Register.
  Hypothesis K1 : i_op_kind i 1 = OK_Register.
  Hypothesis H0 : is_gpr64 (i_op_register i 0) = true.
  Hypothesis H1 : is_gpr64 (i_op_register i 1) = true.

  Lemma rf_read_range64 r : is_gpr64 r = true -> 0 <= rf_read (regs s) r < 2 ^ 64.
  Proof.
    intros H. rewrite <- (rf_read_mod64 (regs s) r H). apply Z.mod_pos_bound. reflexivity.
  Qed.

  (* ADD r/m64, r64 on registers: sum modulo 2^64, CF = unsigned carry, OF = signed overflow,
     SF/ZF/PF from the result, every other flag bit kept, nothing else touched *)
  Theorem add_rm64_r64_refines :
    i_code i = C_Add_rm64_r64 ->
    exists s', instr_add_rm64_r64 c i s = (Ok tt, s') /\ isa_exec (SAlu ADD 64) i s = IDone s' 0.
  Proof.
    intros Ec. unfold instr_add_rm64_r64. rewrite Ec.
    rewrite (bind_ok _ _ _ _ _ (dbg_code_ok c s _ eq_refl)).
    set (d := rf_read (regs s) (i_op_register i 0)). set (sv := rf_read (regs s) (i_op_register i 1)).
    assert (Hd : 0 <= d < 2 ^ 64) by (apply rf_read_range64; exact H0).
    assert (Hs : 0 <= sv < 2 ^ 64) by (apply rf_read_range64; exact H1).
    set (cfb := 2 ^ 64 <=? d + sv). set (ofb := negb (fits_signed 64 (sgn 64 d + sgn 64 sv))).
    assert (Hfl : Z.land (Z.lor (b2f ofb FLAG_OF) (b2f cfb FLAG_CF)) NO_WRITEBACK = 0) by (destruct ofb, cfb; reflexivity).
    rewrite (calc_rm_r_64f_regreg c i s Hwf Hn K0 K1 H0 H1 _ _ _ _ _ (add64_closure c d sv Hd Hs) Hfl).
    change (Z.lor (Z.lor (Z.lor FLAG_SF FLAG_ZF) FLAG_PF) (Z.lor (b2f ofb FLAG_OF) (b2f cfb FLAG_CF))) with (arith_fs cfb ofb).
    change (Z.lor FLAG_OF FLAG_CF) with 2049.
    rewrite (bind_ok _ _ _ _ _ (set_flags_u64_arith c cfb ofb _ s Hrf)).
    change (Z.land (Z.lor (Z.lor FLAG_SF FLAG_ZF) FLAG_PF) NO_WRITEBACK =? 0) with true. cbv iota.
    rewrite (reg_write_64_ok c _ _ _ H0).
    eexists. split; [reflexivity|].
    cbn [isa_exec]. unfold exec_alu, read_op, write_op. rewrite K0, K1. rewrite !rf_read_mod64 by assumption.
    fold d sv. cbn [alu]. rewrite !Z.add_0_r. fold cfb ofb. cbn [opt_done]. reflexivity.
  Qed.
End Add64.

(* ---- SUB ---- *)
From AxG Require Import I_sub.

Lemma cast_u64_i128 x : 0 <= x < 2 ^ 64 -> cast U64 I128 x = x.
Proof.
  intros H. unfold cast, Bits.sem, enc, modulus; cbn [signed width]. apply Z.mod_small.
  change (2 ^ 128) with 340282366920938463463374607431768211456. change (2 ^ 64) with 18446744073709551616 in *. lia.
Qed.

Lemma sub_result d sv : 0 <= d < 2 ^ 64 -> 0 <= sv < 2 ^ 64 ->
  cast I64 U64 (wsub I64 (cast U64 I64 d) (cast U64 I64 sv)) = (d - sv) mod 2 ^ 64.
Proof.
  intros Hd Hs. unfold cast, wsub, Bits.sem, enc, modulus; cbn [signed width].
  change (2 ^ (64 - 1)) with 9223372036854775808. change (2 ^ 64) with 18446744073709551616 in *.
  repeat match goal with |- context [if ?b then _ else _] => destruct b end; lia.
Qed.

Lemma bit63_of_land_lxor d sv r :
  0 <= d < 2 ^ 64 -> 0 <= sv < 2 ^ 64 -> 0 <= r < 2 ^ 64 ->
  (Z.land (Z.land (Z.lxor d sv) (Z.lxor d r)) (2 ^ 63) =? 0) =
  negb (xorb (2 ^ 63 <=? d) (2 ^ 63 <=? sv) && xorb (2 ^ 63 <=? d) (2 ^ 63 <=? r)).
Proof.
  intros Hd Hs Hr. rewrite land_pow2_testbit by lia. rewrite Z.land_spec, !Z.lxor_spec.
  rewrite !(testbit_top _ 63) by (try lia; assumption). reflexivity.
Qed.

Lemma lor_pow2_add d n : 0 <= n -> 0 <= d < 2 ^ n -> Z.lor d (2 ^ n) = d + 2 ^ n.
Proof.
  intros Hn Hd.
  assert (Z : Z.land d (2 ^ n) = 0).
  { apply Z.bits_inj'. intros k Hk. rewrite Z.land_spec, Z.testbit_0_l.
    destruct (Z.eq_dec k n) as [->|N]; [|rewrite Z.pow2_bits_false by lia; apply andb_false_r].
    destruct (Z.eq_dec d 0) as [->|Nz]; [rewrite Z.testbit_0_l; reflexivity|].
    rewrite (Z.bits_above_log2 d n); [reflexivity|lia|apply Z.log2_lt_pow2; lia]. }
  rewrite <- Z.lxor_lor by exact Z. rewrite <- Z.add_nocarry_lxor by exact Z. reflexivity.
Qed.

Lemma sub64_closure d sv :
  0 <= d < 2 ^ 64 -> 0 <= sv < 2 ^ 64 ->
  (let v_result := cast I64 U64 (wsub I64 (cast U64 I64 d) (cast U64 I64 sv)) in
   (v_result,
    Z.lor (if negb (Z.land (Z.land (Z.lxor (cast U64 I128 d) (cast U64 I128 sv)) (Z.lxor (cast U64 I128 d) (cast U64 I128 v_result)))
                           9223372036854775808 =? 0) then FLAG_OF else 0)
          (if Z.land (wsub I128 (Z.lor (cast U64 I128 d) 18446744073709551616) (cast U64 I128 sv)) 18446744073709551616 =? 0
           then FLAG_CF else 0)))
  = ((d - sv) mod 2 ^ 64,
     Z.lor (b2f (negb (fits_signed 64 (sgn 64 d - sgn 64 sv))) FLAG_OF) (b2f (d <? sv) FLAG_CF)).
Proof.
  intros Hd Hs. cbv zeta. rewrite sub_result by assumption.
  set (r := (d - sv) mod 2 ^ 64). assert (Hr : 0 <= r < 2 ^ 64) by (apply Z.mod_pos_bound; reflexivity).
  rewrite !cast_u64_i128 by assumption.
  change 9223372036854775808 with (2 ^ 63). rewrite (bit63_of_land_lxor d sv r Hd Hs Hr).
  f_equal. f_equal.
  - (* OF *)
    f_equal. unfold fits_signed, sgn. change (2 ^ (64 - 1)) with (2 ^ 63). unfold r in *.
    change (2 ^ 63) with 9223372036854775808 in *. change (2 ^ 64) with 18446744073709551616 in *.
    destruct (Z.leb_spec 9223372036854775808 ((d - sv) mod 18446744073709551616));
      destruct (Z.leb_spec 9223372036854775808 d); destruct (Z.leb_spec 9223372036854775808 sv);
      destruct (Z.ltb_spec d 9223372036854775808); destruct (Z.ltb_spec sv 9223372036854775808); try lia;
      cbn [xorb negb andb];
      match goal with |- context [(?a <=? ?b) && (?x <? ?y)] => destruct (Z.leb_spec a b); destruct (Z.ltb_spec x y) end;
      cbn [negb andb]; try reflexivity; lia.
  - (* CF: the borrow *)
    assert (L : Z.lor d 18446744073709551616 = d + 18446744073709551616) by (apply (lor_pow2_add d 64); [lia|assumption]).
    rewrite L.
    assert (W : wsub I128 (d + 18446744073709551616) sv = d + 18446744073709551616 - sv).
    { unfold wsub, Bits.sem, enc, modulus; cbn [signed width]. change (2 ^ (128 - 1)) with 170141183460469231731687303715884105728.
      change (2 ^ 128) with 340282366920938463463374607431768211456. change (2 ^ 64) with 18446744073709551616 in *.
      repeat match goal with |- context [if ?b then _ else _] => destruct b eqn:? end;
        try (apply Z.ltb_ge in Heqb; lia); try (apply Z.ltb_ge in Heqb0; lia); apply Z.mod_small; lia. }
    rewrite W. change 18446744073709551616 with (2 ^ 64).
    rewrite (land_signbit (d + 2 ^ 64 - sv) 64) by (try lia; change (2 ^ (64 + 1)) with 36893488147419103232; change (2 ^ 64) with 18446744073709551616 in *; lia).
    change (2 ^ 64) with 18446744073709551616 in *.
    destruct (Z.leb_spec 18446744073709551616 (d + 18446744073709551616 - sv)); destruct (Z.ltb_spec d sv); try lia; reflexivity.
Qed.

Section Sub64.
  Variables (c : cfg) (i : instr) (s : mstate).
  Hypothesis Hwf : wf_regs s.
  Hypothesis Hrf : 0 <= rflags s < 2 ^ 64.
  Hypothesis Hn : i_op_count i = 2.
  Hypothesis K0 : i_op_kind i 0 = OK_Register.
  Hypothesis K1 : i_op_kind i 1 = OK_Register.
  Hypothesis H0 : is_gpr64 (i_op_register i 0) = true.
  Hypothesis H1 : is_gpr64 (i_op_register i 1) = true.

  (* SUB r/m64, r64 on registers: difference modulo 2^64, CF = unsigned borrow, OF = signed overflow,
     SF/ZF/PF from the result, every other flag bit kept, nothing else touched *)
  Theorem sub_rm64_r64_refines :
    i_code i = C_Sub_rm64_r64 ->
    exists s', instr_sub_rm64_r64 c i s = (Ok tt, s') /\ isa_exec (SAlu SUB 64) i s = IDone s' 0.
  Proof.
    intros Ec. unfold instr_sub_rm64_r64. rewrite Ec.
    rewrite (bind_ok _ _ _ _ _ (dbg_code_ok c s _ eq_refl)).
    set (d := rf_read (regs s) (i_op_register i 0)). set (sv := rf_read (regs s) (i_op_register i 1)).
    assert (Hd : 0 <= d < 2 ^ 64) by (apply (rf_read_range64 s); exact H0).
    assert (Hs : 0 <= sv < 2 ^ 64) by (apply (rf_read_range64 s); exact H1).
    set (cfb := d <? sv). set (ofb := negb (fits_signed 64 (sgn 64 d - sgn 64 sv))).
    assert (Hfl : Z.land (Z.lor (b2f ofb FLAG_OF) (b2f cfb FLAG_CF)) NO_WRITEBACK = 0) by (destruct ofb, cfb; reflexivity).
    rewrite (calc_rm_r_64f_regreg c i s Hwf Hn K0 K1 H0 H1 _ _ _ _ _ (f_equal Ok (sub64_closure d sv Hd Hs)) Hfl).
    change (Z.lor (Z.lor (Z.lor FLAG_SF FLAG_ZF) FLAG_PF) (Z.lor (b2f ofb FLAG_OF) (b2f cfb FLAG_CF))) with (arith_fs cfb ofb).
    change (Z.lor FLAG_CF FLAG_OF) with 2049.
    rewrite (bind_ok _ _ _ _ _ (set_flags_u64_arith c cfb ofb _ s Hrf)).
    change (Z.land (Z.lor (Z.lor FLAG_SF FLAG_ZF) FLAG_PF) NO_WRITEBACK =? 0) with true. cbv iota.
    rewrite (reg_write_64_ok c _ _ _ H0).
    eexists. split; [reflexivity|].
    cbn [isa_exec]. unfold exec_alu, read_op, write_op. rewrite K0, K1. rewrite !rf_read_mod64 by assumption.
    fold d sv. cbn [alu]. fold cfb ofb. cbn [opt_done]. reflexivity.
  Qed.
End Sub64.

(* ---- CMP ---- *)
From AxG Require Import I_cmp.

Section Cmp64.
  Variables (c : cfg) (i : instr) (s : mstate).
  Hypothesis Hwf : wf_regs s.
  Hypothesis Hrf : 0 <= rflags s < 2 ^ 63.
  Hypothesis Hn : i_op_count i = 2.
  Hypothesis K0 : i_op_kind i 0 = OK_Register.
  Hypothesis K1 : i_op_kind i 1 = OK_Register.
  Hypothesis H0 : is_gpr64 (i_op_register i 0) = true.
  Hypothesis H1 : is_gpr64 (i_op_register i 1) = true.

  (* CMP r/m64, r64 on registers: the flags of the subtraction, no register written.
     (The emulator marks "no write-back" in bit 63 of the flag set and clears that bit from
     RFLAGS with the others; bit 63 of RFLAGS is reserved-zero, hence [Hrf].) *)
  Theorem cmp_rm64_r64_refines :
    i_code i = C_Cmp_rm64_r64 ->
    exists s', instr_cmp_rm64_r64 c i s = (Ok tt, s') /\ isa_exec (SAlu CMP 64) i s = IDone s' 0.
  Proof.
    intros Ec. unfold instr_cmp_rm64_r64. rewrite Ec.
    rewrite (bind_ok _ _ _ _ _ (dbg_code_ok c s _ eq_refl)).
    set (d := rf_read (regs s) (i_op_register i 0)). set (sv := rf_read (regs s) (i_op_register i 1)).
    assert (Hd : 0 <= d < 2 ^ 64) by (apply (rf_read_range64 s); exact H0).
    assert (Hs : 0 <= sv < 2 ^ 64) by (apply (rf_read_range64 s); exact H1).
    set (cfb := d <? sv). set (ofb := negb (fits_signed 64 (sgn 64 d - sgn 64 sv))).
    assert (Hfl : Z.land (Z.lor (b2f ofb FLAG_OF) (b2f cfb FLAG_CF)) NO_WRITEBACK = 0) by (destruct ofb, cfb; reflexivity).
    rewrite (calc_rm_r_64f_regreg c i s Hwf Hn K0 K1 H0 H1 _ _ _ _ _ (f_equal Ok (sub64_closure d sv Hd Hs)) Hfl).
    change (Z.lor (Z.lor (Z.lor (Z.lor NO_WRITEBACK FLAG_SF) FLAG_ZF) FLAG_PF) (Z.lor (b2f ofb FLAG_OF) (b2f cfb FLAG_CF))) with (cmp_fs cfb ofb).
    change (Z.lor FLAG_CF FLAG_OF) with 2049.
    rewrite (bind_ok _ _ _ _ _ (set_flags_u64_cmp c cfb ofb _ s Hrf)).
    change (Z.land (Z.lor (Z.lor (Z.lor NO_WRITEBACK FLAG_SF) FLAG_ZF) FLAG_PF) NO_WRITEBACK =? 0) with false. cbv iota.
    eexists. split; [reflexivity|].
    cbn [isa_exec]. unfold exec_alu, read_op, write_op. rewrite K0, K1. rewrite !rf_read_mod64 by assumption.
    fold d sv. cbn [alu]. fold cfb ofb. cbn [opt_done]. reflexivity.
  Qed.
End Cmp64.

(* ---- the helper without operation flags (XOR, OR, ...) ---- *)
Section RegReg64NoFlags.
  Variables (c : cfg) (i : instr) (s : mstate).
  Hypothesis Hwf : wf_regs s.
  Hypothesis Hn : i_op_count i = 2.
  Hypothesis K0 : i_op_kind i 0 = OK_Register.
  Hypothesis K1 : i_op_kind i 1 = OK_Register.
  Hypothesis H0 : is_gpr64 (i_op_register i 0) = true.
  Hypothesis H1 : is_gpr64 (i_op_register i 1) = true.

  Let r0 := i_op_register i 0.
  Let r1 := i_op_register i 1.
  Let d := rf_read (regs s) r0.
  Let sv := rf_read (regs s) r1.

  Lemma calc_rm_r_64_regreg (op : Z -> Z -> outcome Z) fset fclear res :
    op d sv = Ok res ->
    calculate_rm_r_64 c i op fset fclear s =
    bind (set_flags_u64 c fset fclear res)
         (fun _ => if Z.land fset NO_WRITEBACK =? 0 then reg_write_64 c r0 res else ret tt) s.
  Proof.
    intros Hop.
    assert (S0 : is_supported r0 = true) by (unfold r0; destruct (i_op_register i 0); try discriminate H0; reflexivity).
    assert (S1 : is_supported r1 = true) by (unfold r1; destruct (i_op_register i 1); try discriminate H1; reflexivity).
    assert (O0 : instruction_operand c i 0 s = (Ok (OpRegister r0), s))
      by (apply operand_register; [rewrite Hn; reflexivity|exact K0|reflexivity|exact S0]).
    assert (O1 : instruction_operand c i 1 s = (Ok (OpRegister r1), s))
      by (apply operand_register; [rewrite Hn; reflexivity|exact K1|reflexivity|exact S1]).
    unfold calculate_rm_r_64, instruction_operands_2. rewrite !bind_assoc.
    rewrite (bind_ok _ _ _ _ _ O0). rewrite ?bind_assoc. rewrite (bind_ok _ _ _ _ _ O1).
    unfold ret at 1. cbv beta iota.
    rewrite (bind_ok _ _ _ _ _ (eq_refl : (fun s0 => (Ok (OpRegister r0, OpRegister r1), s0)) s = _)).
    cbv beta iota.
    assert (TR : lift (operand_to_reg (OpRegister r1)) s = (Ok r1, s)) by reflexivity.
    rewrite (bind_ok _ _ _ _ _ TR).
    rewrite (bind_ok _ _ _ _ _ (reg_read_64_ok c _ s Hwf H1)).
    rewrite (bind_ok _ _ _ _ _ (reg_read_64_ok c _ s Hwf H0)).
    fold r0 r1 d sv. rewrite Hop.
    rewrite (bind_ok _ _ _ _ _ (eq_refl : lift (Ok res) s = _)). cbv beta iota.
    unfold bind at 1. unfold bind at 3.
    destruct (set_flags_u64 c fset fclear res s) as [[[]|e|p|] s1]; try reflexivity.
    destruct (Z.land fset NO_WRITEBACK =? 0).
    - rewrite ?bind_assoc. unfold bind. destruct (reg_write_64 c r0 res s1) as [[[]|e|p|] s2]; reflexivity.
    - reflexivity.
  Qed.
End RegReg64NoFlags.

Section Xor64.
  Variables (c : cfg) (i : instr) (s : mstate).
  Hypothesis Hwf : wf_regs s.
  Hypothesis Hrf : 0 <= rflags s < 2 ^ 64.
  Hypothesis Hn : i_op_count i = 2.
  Hypothesis K0 : i_op_kind i 0 = OK_Register.
  Hypothesis K1 : i_op_kind i 1 = OK_Register.
  Hypothesis H0 : is_gpr64 (i_op_register i 0) = true.
  Hypothesis H1 : is_gpr64 (i_op_register i 1) = true.

  (* XOR r/m64, r64 on registers: bitwise result, CF = OF = 0, SF/ZF/PF from the result *)
  Theorem xor_rm64_r64_refines :
    i_code i = C_Xor_rm64_r64 ->
    exists s', instr_xor_rm64_r64 c i s = (Ok tt, s') /\ isa_exec (SAlu XOR 64) i s = IDone s' 0.
  Proof.
    intros Ec. unfold instr_xor_rm64_r64. rewrite Ec.
    rewrite (bind_ok _ _ _ _ _ (dbg_code_ok c s _ eq_refl)).
    rewrite (calc_rm_r_64_regreg c i s Hwf Hn K0 K1 H0 H1 _ _ _ _ eq_refl).
    change (Z.lor (Z.lor FLAG_ZF FLAG_SF) FLAG_PF) with (arith_fs false false).
    change (Z.lor FLAG_OF FLAG_CF) with 2049.
    rewrite (bind_ok _ _ _ _ _ (set_flags_u64_arith c false false _ s Hrf)).
    change (Z.land (arith_fs false false) NO_WRITEBACK =? 0) with true. cbv iota.
    rewrite (reg_write_64_ok c _ _ _ H0).
    eexists. split; [reflexivity|].
    cbn [isa_exec]. unfold exec_alu, read_op, write_op. rewrite K0, K1. rewrite !rf_read_mod64 by assumption.
    cbn [alu b2f]. cbn [opt_done]. reflexivity.
  Qed.
End Xor64.
