(* C02: ADC r/m64, r64 and ADC r64, r/m64 (register or memory operands) against the ISA
   specification - the carry-in participates in the sum, in the carry-out and in the overflow. *)
From Coq Require Import ZArith Bool List Lia.
From AxV Require Import Bits Outcome Codes Iced State Rt Mem Trace BitsP ByteStore MemP RegFile RegsP ISA CodeSem ReadonlyTac
  OperandP FlagsP CfP MovP RmP AluP AluRmP AluMemP AluImmP.
From AxG Require Import Flags Regs Operand Helpers I_adc.
Local Open Scope Z_scope.
Ltac Zify.zify_post_hook ::= Z.div_mod_to_equations.

Lemma cast_u64_u128 x : 0 <= x < 2 ^ 64 -> cast U64 U128 x = x.
Proof.
  intros H. unfold cast, Bits.sem, enc, modulus; cbn [signed width]. apply Z.mod_small.
  change (2 ^ 128) with 340282366920938463463374607431768211456. change (2 ^ 64) with 18446744073709551616 in *. lia.
Qed.

Lemma adc64_closure d sv (cin : bool) :
  0 <= d < 2 ^ 64 -> 0 <= sv < 2 ^ 64 ->
  (let v_result := wadd U128 (wadd U128 (cast U64 U128 d) (cast U64 U128 sv)) (of_bool cin) in
   (cast U128 U64 v_result,
    Z.lor (if negb (Z.land v_result 9223372036854775808 =? Z.land (cast U64 U128 d) 9223372036854775808) &&
              negb (Z.land v_result 9223372036854775808 =? Z.land (cast U64 U128 sv) 9223372036854775808)
           then FLAG_OF else 0)
          (if negb (Z.land v_result 18446744073709551616 =? 0) then FLAG_CF else 0)))
  = (let cz := if cin then 1 else 0 in
     ((d + sv + cz) mod 2 ^ 64,
      Z.lor (b2f (negb (fits_signed 64 (sgn 64 d + sgn 64 sv + cz))) FLAG_OF) (b2f (2 ^ 64 <=? d + sv + cz) FLAG_CF))).
Proof.
  intros Hd Hs. cbv zeta. rewrite (cast_u64_u128 d Hd), (cast_u64_u128 sv Hs).
  set (cz := if cin then 1 else 0). assert (Hc : 0 <= cz <= 1) by (unfold cz; destruct cin; lia).
  assert (OB : of_bool cin = cz) by (unfold cz; destruct cin; reflexivity). rewrite OB.
  assert (W : wadd U128 (wadd U128 d sv) cz = d + sv + cz).
  { unfold wadd, enc, modulus; cbn [width]. change (2 ^ 128) with 340282366920938463463374607431768211456.
    change (2 ^ 64) with 18446744073709551616 in *. rewrite (Z.mod_small (d + sv)) by lia. apply Z.mod_small. lia. }
  rewrite W. set (R := d + sv + cz).
  assert (HR : 0 <= R < 2 ^ 65) by (unfold R; change (2 ^ 65) with 36893488147419103232; change (2 ^ 64) with 18446744073709551616 in *; lia).
  assert (C64 : cast U128 U64 R = R mod 2 ^ 64).
  { unfold cast, Bits.sem, enc, modulus; cbn [signed width]. reflexivity. }
  rewrite C64. set (r := R mod 2 ^ 64). assert (Hr : 0 <= r < 2 ^ 64) by (apply Z.mod_pos_bound; reflexivity).
  change 9223372036854775808 with (2 ^ 63). change 18446744073709551616 with (2 ^ 64).
  (* bit 63 of the 65-bit sum is bit 63 of the truncated sum *)
  assert (B63 : Z.land R (2 ^ 63) = Z.land r (2 ^ 63)).
  { apply Z.bits_inj'. intros k Hk. rewrite !Z.land_spec. destruct (Z.eq_dec k 63) as [->|N].
    - unfold r. rewrite Z.mod_pow2_bits_low by lia. reflexivity.
    - rewrite Z.pow2_bits_false by lia. rewrite !andb_false_r. reflexivity. }
  rewrite B63.
  rewrite (land_signbit r 63), (land_signbit d 63), (land_signbit sv 63) by (try lia; assumption).
  rewrite (land_signbit R 64) by (try lia; exact HR).
  f_equal. f_equal.
  - unfold fits_signed, sgn. change (2 ^ (64 - 1)) with (2 ^ 63). unfold r, R in *.
    change (2 ^ 63) with 9223372036854775808 in *. change (2 ^ 64) with 18446744073709551616 in *.
    change (2 ^ 65) with 36893488147419103232 in *.
    destruct (Z.leb_spec 9223372036854775808 ((d + sv + cz) mod 18446744073709551616));
      destruct (Z.leb_spec 9223372036854775808 d); destruct (Z.leb_spec 9223372036854775808 sv);
      destruct (Z.ltb_spec d 9223372036854775808); destruct (Z.ltb_spec sv 9223372036854775808); try lia;
      cbn [Z.eqb negb andb b2f];
      match goal with |- context [(?a <=? ?b) && (?x <? ?y)] => destruct (Z.leb_spec a b); destruct (Z.ltb_spec x y) end;
      cbn [negb andb b2f]; try reflexivity; lia.
  - destruct (2 ^ 64 <=? R); reflexivity.
Qed.

(* rm64_r64 needs a unified destination lemma: register destination from AluP, memory from AluMemP *)
Section AdcForms.
  Variables (c : cfg) (i : instr) (s : mstate).
  Hypothesis Hwf : wf_regs s.
  Hypothesis HI : Inv (mem s).
  Hypothesis Hrf : 0 <= rflags s < 2 ^ 64.
  Hypothesis Hn : i_op_count i = 2.

  Let cin := flag (rflags s) CF.
  Let cz := if cin then 1 else 0.

  Definition adc_refines (run : outcome unit * mstate) : Prop :=
    match isa_exec (SAlu ADC 64) i s with
    | IDone s' u => run = (Ok tt, s') /\ u = 0
    | IFault FMem => exists e x, run = (Err e, s) \/ run = (Err e, set_rflags s x)
    | IFault _ => False
    end.

  (* ADC r64, r/m64 *)
  Theorem adc_r64_rm64_refines :
    i_op_kind i 0 = OK_Register -> is_gpr64 (i_op_register i 0) = true -> rm64_shape i 1 ->
    i_code i = C_Adc_r64_rm64 -> adc_refines (instr_adc_r64_rm64 c i s).
  Proof.
    intros K0 H0 Hs1 Ec. unfold adc_refines, instr_adc_r64_rm64. rewrite Ec.
    rewrite (bind_ok _ _ _ _ _ (dbg_code_ok c s _ eq_refl)).
    rewrite (bind_ok _ _ _ _ _ (eq_refl : get_rflags s = (Ok (rflags s), s))).
    cbn [isa_exec]. unfold exec_alu. unfold read_op at 1. rewrite K0. rewrite rf_read_mod64 by exact H0.
    match goal with |- context [calculate_r_rm_64f c i ?op ?fs ?fc s] =>
      pose proof (calc_r_rm_64f_shape c i s Hwf HI Hn K0 H0 Hs1 op fs fc) as SH end.
    destruct (read_op i 1 64 s) as [sv|]; [|destruct SH as [e SH]; exists e, 0; left; exact SH]. destruct SH as [Hsv SH].
    set (d := rf_read (regs s) (i_op_register i 0)) in *.
    assert (Hd : 0 <= d < 2 ^ 64) by (apply (rf_read_range64 s); exact H0).
    change (negb (Z.land (rflags s) FLAG_CF =? 0)) with cin in *.
    set (cfb := 2 ^ 64 <=? d + sv + cz). set (ofb := negb (fits_signed 64 (sgn 64 d + sgn 64 sv + cz))).
    assert (Hfl : Z.land (Z.lor (b2f ofb FLAG_OF) (b2f cfb FLAG_CF)) NO_WRITEBACK = 0) by (destruct ofb, cfb; reflexivity).
    rewrite (SH _ _ (f_equal Ok (adc64_closure d sv cin Hd Hsv)) Hfl).
    change (Z.lor (Z.lor (Z.lor FLAG_SF FLAG_ZF) FLAG_PF) (Z.lor (b2f ofb FLAG_OF) (b2f cfb FLAG_CF))) with (arith_fs cfb ofb).
    change (Z.lor FLAG_OF FLAG_CF) with 2049.
    rewrite (bind_ok _ _ _ _ _ (set_flags_u64_arith c cfb ofb _ s Hrf)).
    change (Z.land (Z.lor (Z.lor FLAG_SF FLAG_ZF) FLAG_PF) NO_WRITEBACK =? 0) with true. cbv iota.
    rewrite (reg_write_64_ok c _ _ _ H0).
    cbn [alu]. fold cin. fold cz. fold cfb ofb. unfold write_op. rewrite K0. cbn [opt_done]. split; reflexivity.
  Qed.

  (* ADC r/m64, r64 with a register destination *)
  Theorem adc_rm64_r64_reg_refines :
    i_op_kind i 0 = OK_Register -> i_op_kind i 1 = OK_Register ->
    is_gpr64 (i_op_register i 0) = true -> is_gpr64 (i_op_register i 1) = true ->
    i_code i = C_Adc_rm64_r64 -> adc_refines (instr_adc_rm64_r64 c i s).
  Proof.
    intros K0 K1 H0 H1 Ec. unfold adc_refines, instr_adc_rm64_r64. rewrite Ec.
    rewrite (bind_ok _ _ _ _ _ (dbg_code_ok c s _ eq_refl)).
    rewrite (bind_ok _ _ _ _ _ (eq_refl : get_rflags s = (Ok (rflags s), s))).
    cbn [isa_exec]. unfold exec_alu, read_op, write_op. rewrite K0, K1. rewrite !rf_read_mod64 by assumption.
    set (d := rf_read (regs s) (i_op_register i 0)). set (sv := rf_read (regs s) (i_op_register i 1)).
    assert (Hd : 0 <= d < 2 ^ 64) by (apply (rf_read_range64 s); exact H0).
    assert (Hsv : 0 <= sv < 2 ^ 64) by (apply (rf_read_range64 s); exact H1).
    change (negb (Z.land (rflags s) FLAG_CF =? 0)) with cin.
    set (cfb := 2 ^ 64 <=? d + sv + cz). set (ofb := negb (fits_signed 64 (sgn 64 d + sgn 64 sv + cz))).
    assert (Hfl : Z.land (Z.lor (b2f ofb FLAG_OF) (b2f cfb FLAG_CF)) NO_WRITEBACK = 0) by (destruct ofb, cfb; reflexivity).
    rewrite (calc_rm_r_64f_regreg c i s Hwf Hn K0 K1 H0 H1 _ _ _ _ _ (f_equal Ok (adc64_closure d sv cin Hd Hsv)) Hfl).
    change (Z.lor (Z.lor (Z.lor FLAG_SF FLAG_ZF) FLAG_PF) (Z.lor (b2f ofb FLAG_OF) (b2f cfb FLAG_CF))) with (arith_fs cfb ofb).
    change (Z.lor FLAG_OF FLAG_CF) with 2049.
    rewrite (bind_ok _ _ _ _ _ (set_flags_u64_arith c cfb ofb _ s Hrf)).
    change (Z.land (Z.lor (Z.lor FLAG_SF FLAG_ZF) FLAG_PF) NO_WRITEBACK =? 0) with true. cbv iota.
    rewrite (reg_write_64_ok c _ _ _ H0).
    cbn [alu]. fold cin. fold cz. fold cfb ofb. cbn [opt_done]. split; reflexivity.
  Qed.

  (* ADC [m64], r64 *)
  Theorem adc_m64_r64_refines :
    i_op_kind i 0 = OK_Memory -> wf_mem_instr i -> i_op_kind i 1 = OK_Register -> is_gpr64 (i_op_register i 1) = true ->
    i_code i = C_Adc_rm64_r64 -> adc_refines (instr_adc_rm64_r64 c i s).
  Proof.
    intros K0 Hm K1 H1 Ec. unfold adc_refines, instr_adc_rm64_r64. rewrite Ec.
    rewrite (bind_ok _ _ _ _ _ (dbg_code_ok c s _ eq_refl)).
    rewrite (bind_ok _ _ _ _ _ (eq_refl : get_rflags s = (Ok (rflags s), s))).
    cbn [isa_exec]. unfold exec_alu. unfold read_op at 2. rewrite K1. rewrite rf_read_mod64 by exact H1.
    match goal with |- context [calculate_rm_r_64f c i ?op ?fs ?fc s] =>
      pose proof (calc_rm_r_64f_mem c i s Hwf HI Hn K0 Hm K1 H1 op fs fc) as SH end.
    destruct (read_op i 0 64 s) as [d|]; [|destruct SH as [e SH]; exists e, 0; left; exact SH]. destruct SH as [Hd SH].
    set (sv := rf_read (regs s) (i_op_register i 1)) in *.
    assert (Hsv : 0 <= sv < 2 ^ 64) by (apply (rf_read_range64 s); exact H1).
    change (negb (Z.land (rflags s) FLAG_CF =? 0)) with cin in *.
    set (cfb := 2 ^ 64 <=? d + sv + cz). set (ofb := negb (fits_signed 64 (sgn 64 d + sgn 64 sv + cz))).
    assert (Hfl : Z.land (Z.lor (b2f ofb FLAG_OF) (b2f cfb FLAG_CF)) NO_WRITEBACK = 0) by (destruct ofb, cfb; reflexivity).
    rewrite (SH _ _ (f_equal Ok (adc64_closure d sv cin Hd Hsv)) Hfl).
    change (Z.lor (Z.lor (Z.lor FLAG_SF FLAG_ZF) FLAG_PF) (Z.lor (b2f ofb FLAG_OF) (b2f cfb FLAG_CF))) with (arith_fs cfb ofb).
    change (Z.lor FLAG_OF FLAG_CF) with 2049.
    rewrite (bind_ok _ _ _ _ _ (set_flags_u64_arith c cfb ofb _ s Hrf)).
    change (Z.land (Z.lor (Z.lor FLAG_SF FLAG_ZF) FLAG_PF) NO_WRITEBACK =? 0) with true. cbv iota.
    cbn [alu]. fold cin. fold cz. fold cfb ofb.
    unfold write_op. rewrite K0.
    match goal with |- context [store_tail c i ?res (with_flags s ?mk ?bits)] =>
      pose proof (store_tail_spec c i s Hwf HI Hn K0 Hm (set_status (rflags s) mk bits) res) as ST;
      cbv zeta in ST; fold (with_flags s mk bits) in ST;
      destruct (store (bytes_of 64) (ea i (with_flags s mk bits)) res (with_flags s mk bits)) as [s2|];
      [rewrite ST; cbn [opt_done]; split; reflexivity
      |destruct ST as [e ST]; rewrite ST; cbn [opt_done]; exists e; eexists; right; reflexivity]
    end.
  Qed.
End AdcForms.
