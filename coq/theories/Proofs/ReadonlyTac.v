(* Read-only computations: the machine state is returned exactly as it was, whatever the
   outcome.  The lemmas for the generated definitions that do not (transitively) mention a
   writing primitive are emitted into gen/Readonly.v and proved by [readonly_tac]: operand
   decoding, effective-address computation, register and memory reads, flag tests. *)
From Coq Require Import ZArith Bool List Lia.
From AxV Require Import Bits Outcome Codes Iced State Rt Mem Trace.
Local Open Scope Z_scope.

Definition readonly {A} (m : MM A) : Prop := forall s, snd (m s) = s.

Lemma readonly_ret {A} (a : A) : readonly (ret a). Proof. intros s. reflexivity. Qed.
Lemma readonly_lift {A} (x : outcome A) : readonly (lift x). Proof. intros s. unfold lift. destruct x; reflexivity. Qed.
Lemma readonly_fail {A} e : readonly (@fail mstate A e). Proof. intros s. reflexivity. Qed.
Lemma readonly_panic {A} p : readonly (@panic mstate A p). Proof. intros s. reflexivity. Qed.

Lemma readonly_bind {A B} (m : MM A) (f : A -> MM B) :
  readonly m -> (forall a, readonly (f a)) -> readonly (bind m f).
Proof.
  intros Hm Hf s. unfold bind. specialize (Hm s).
  destruct (m s) as [[a|e|p|] s1]; cbn [snd] in *; try exact Hm.
  subst s1. apply Hf.
Qed.

Lemma readonly_expect_m {A} (m : MM A) : readonly m -> readonly (expect_m m).
Proof. intros Hm s. unfold expect_m. specialize (Hm s). destruct (m s) as [[a|e|p|] s1]; exact Hm. Qed.

Lemma readonly_get_rflags : readonly get_rflags. Proof. intros s; reflexivity. Qed.
Lemma readonly_get_fs : readonly get_fs. Proof. intros s; reflexivity. Qed.
Lemma readonly_get_gs : readonly get_gs. Proof. intros s; reflexivity. Qed.
Lemma readonly_get_stack_top : readonly get_stack_top. Proof. intros s; reflexivity. Qed.
Lemma readonly_get_finished : readonly get_finished. Proof. intros s; reflexivity. Qed.
Lemma readonly_regs_get r : readonly (regs_get r). Proof. intros s; reflexivity. Qed.
Lemma readonly_xmm_get r : readonly (xmm_get r). Proof. intros s; reflexivity. Qed.
Lemma readonly_has_mnemonic_hooks m : readonly (has_mnemonic_hooks m). Proof. intros s; reflexivity. Qed.

Lemma readonly_mem_read_bytes a n : readonly (mem_read_bytes a n).
Proof.
  intros s. unfold mem_read_bytes. destruct (find_area (mem s) a); [|reflexivity].
  repeat match goal with |- context [if ?c then _ else _] => destruct c end; reflexivity.
Qed.
Lemma readonly_mem_read_n n a : readonly (mem_read_n n a).
Proof.
  intros s. unfold mem_read_n. pose proof (readonly_mem_read_bytes a (Z.of_nat n) s) as H.
  destruct (mem_read_bytes a (Z.of_nat n) s) as [[l|e|p|] s1]; exact H.
Qed.
Lemma readonly_mem_read_8 a : readonly (mem_read_8 a). Proof. apply readonly_mem_read_n. Qed.
Lemma readonly_mem_read_16 a : readonly (mem_read_16 a). Proof. apply readonly_mem_read_n. Qed.
Lemma readonly_mem_read_32 a : readonly (mem_read_32 a). Proof. apply readonly_mem_read_n. Qed.
Lemma readonly_mem_read_64 a : readonly (mem_read_64 a). Proof. apply readonly_mem_read_n. Qed.
Lemma readonly_mem_read_128 a : readonly (internal_mem_read_128 a). Proof. apply readonly_mem_read_n. Qed.

Create HintDb readonlydb discriminated.
#[export] Hint Constants Opaque : readonlydb.
#[export] Hint Variables Opaque : readonlydb.
#[export] Hint Resolve readonly_ret readonly_lift readonly_fail readonly_panic readonly_expect_m
  readonly_get_rflags readonly_get_fs readonly_get_gs readonly_get_stack_top readonly_get_finished
  readonly_regs_get readonly_xmm_get readonly_has_mnemonic_hooks
  readonly_mem_read_8 readonly_mem_read_16 readonly_mem_read_32 readonly_mem_read_64 readonly_mem_read_128 : readonlydb.

Ltac readonly_step :=
  match goal with
  | |- readonly (bind _ _) => apply readonly_bind; [|intros]
  | |- readonly (let x := _ in _) => intro
  | |- readonly (let '(_, _) := ?x in _) => destruct x
  | |- readonly (if ?c then _ else _) => destruct c
  | |- readonly (match ?x with _ => _ end) => destruct x
  | |- readonly _ => solve [auto with readonlydb]
  | |- forall _, _ => intro
  end.

Ltac readonly_tac := cbv zeta; repeat readonly_step.
