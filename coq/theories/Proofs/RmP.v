(* Reading an r/m64 source operand: the emulator's operand read is the specification's read_op,
   a fault exactly when the specification's load faults, never a panic, state unchanged. *)
From Coq Require Import ZArith Bool List Lia.
From AxV Require Import Bits Outcome Codes Iced State Rt Mem Trace BitsP ListP ByteStore MemP RegFile RegsP ISA CodeSem
  ReadonlyTac OperandP CfP MovP.
From AxG Require Import Flags Regs Operand Helpers Readonly.
Local Open Scope Z_scope.
Ltac Zify.zify_post_hook ::= Z.div_mod_to_equations.

Lemma of_le_bytes_bound l : Forall (fun b => 0 <= b < 256) l -> 0 <= of_le_bytes l < 2 ^ (8 * Z.of_nat (length l)).
Proof.
  induction 1 as [|x l Hx Hl IH]; cbn [of_le_bytes length]; [cbn; lia|].
  rewrite Nat2Z.inj_succ. replace (8 * Z.succ (Z.of_nat (length l))) with (8 + 8 * Z.of_nat (length l)) by lia.
  rewrite Z.pow_add_r by lia. change (2 ^ 8) with 256. lia.
Qed.

Lemma Forall_firstn {A} (P : A -> Prop) n l : Forall P l -> Forall P (firstn n l).
Proof. intros H. apply Forall_forall. intros x Hx. rewrite Forall_forall in H. apply H. eapply In_firstn; exact Hx. Qed.
Lemma Forall_skipn {A} (P : A -> Prop) n l : Forall P l -> Forall P (skipn n l).
Proof. intros H. apply Forall_forall. intros x Hx. rewrite Forall_forall in H. apply H. eapply In_skipn; exact Hx. Qed.

(* a typed read returns Ok of a value below 2^(8n), or an error; never a panic; state unchanged *)
Theorem mem_read_n_cases n a s :
  Inv (mem s) ->
  (exists v, mem_read_n n a s = (Ok v, s) /\ 0 <= v < 2 ^ (8 * Z.of_nat n)) \/
  (exists e, mem_read_n n a s = (Err e, s)).
Proof.
  intros HI. unfold mem_read_n, mem_read_bytes.
  destruct (find_area (mem s) a) as [ar|] eqn:F; [|right; eexists; reflexivity].
  destruct (find_area_some _ _ _ F) as [Hin Hc]. apply contains_range in Hc.
  destruct (inv_area_ok _ _ HI Hin) as (H0 & H1 & H2 & H3 & H4).
  destruct (Z.gtb_spec (a + Z.of_nat n) (a_start ar + a_len ar)); [right; eexists; reflexivity|].
  destruct (Z.eqb_spec (Z.land (a_access ar) PROT_READ) 0); [right; eexists; reflexivity|].
  destruct (Z.leb_spec (a - a_start ar + Z.of_nat n) (zlen (a_data ar))); [|lia].
  left. eexists. split; [reflexivity|].
  set (l := slice (a_data ar) (a - a_start ar) (Z.of_nat n)).
  assert (L : Z.of_nat (length l) = Z.of_nat n) by (unfold l; rewrite slice_length by lia; lia).
  rewrite <- L. apply of_le_bytes_bound. unfold l, slice. apply Forall_firstn, Forall_skipn. exact H4.
Qed.

Definition read_rm64 (c : cfg) (i : instr) (k : Z) : MM Z :=
  bind (instruction_operand c i k) (fun op =>
    match op with
    | OpRegister r => reg_read_64 c r
    | OpMemory m => bind (mem_addr c m) (fun a => mem_read_64 a)
    | _ => fail EFatal
    end).

(* the operand is a 64-bit general register, or a memory operand of a well-formed instruction *)
Definition rm64_shape (i : instr) (k : Z) : Prop :=
  (i_op_kind i k = OK_Register /\ is_gpr64 (i_op_register i k) = true) \/
  (i_op_kind i k = OK_Memory /\ wf_mem_instr i).

Section ReadRm64.
  Variables (c : cfg) (i : instr) (s : mstate) (k : Z).
  Hypothesis Hwf : wf_regs s.
  Hypothesis HI : Inv (mem s).
  Hypothesis Hk : 0 <= k < i_op_count i.
  Hypothesis Hs : rm64_shape i k.

  Theorem read_rm64_spec :
    match read_op i k 64 s with
    | Some d => read_rm64 c i k s = (Ok d, s) /\ 0 <= d < 2 ^ 64
    | None => exists e, read_rm64 c i k s = (Err e, s)
    end.
  Proof.
    unfold read_rm64, read_op. destruct Hs as [[K H]|[K Hm]]; rewrite K.
    - assert (S0 : is_supported (i_op_register i k) = true) by (destruct (i_op_register i k); try discriminate H; reflexivity).
      assert (O0 : instruction_operand c i k s = (Ok (OpRegister (i_op_register i k)), s))
        by (apply operand_register; [lia|exact K|reflexivity|exact S0]).
      rewrite (bind_ok _ _ _ _ _ O0). rewrite (reg_read_64_ok c _ s Hwf H).
      rewrite rf_read_mod64 by exact H. split; [reflexivity|].
      rewrite <- (rf_read_mod64 (regs s) _ H). apply Z.mod_pos_bound. reflexivity.
    - destruct (operand_address c i k s Hwf Hm ltac:(lia) K) as (O1 & EA & _).
      rewrite (bind_ok _ _ _ _ _ O1). rewrite (bind_ok _ _ _ _ _ EA).
      unfold load. change (bytes_of 64) with 8%nat. change mem_read_64 with (mem_read_n 8).
      destruct (mem_read_n_cases 8 (ea i s) s HI) as [(v & E & R)|(e & E)]; rewrite E.
      + split; [reflexivity|exact R].
      + eexists; reflexivity.
  Qed.
End ReadRm64.
