(* C02: the flag update of INC / DEC - OF, SF, ZF, PF replaced, CF and every other bit kept. *)
From Coq Require Import ZArith Bool List Lia.
From AxV Require Import Bits Outcome Codes Iced State Rt Mem Trace BitsP ISA FlagsP.
From AxG Require Import Flags Regs.
Local Open Scope Z_scope.
Ltac Zify.zify_post_hook ::= Z.div_mod_to_equations.

Definition INCF : Z := OF + SF + ZF + PF.

Lemma set_flags_u64_eval_inc c (ofb : bool) r s :
  let fs := Z.lor 196 (Z.lor (b2f ofb FLAG_OF) (b2f false FLAG_CF)) in
  set_flags_u64 c fs 2048 r s
  = (Ok tt, set_rflags s (emu_flags (rflags s) fs 2048 (parity8 r) (Z.testbit r 63) (r =? 0))).
Proof. set_flags_eval set_flags_u64 U64 63. Qed.
Lemma set_flags_u32_eval_inc c (ofb : bool) r s :
  let fs := Z.lor 196 (Z.lor (b2f ofb FLAG_OF) (b2f false FLAG_CF)) in
  set_flags_u32 c fs 2048 r s
  = (Ok tt, set_rflags s (emu_flags (rflags s) fs 2048 (parity8 r) (Z.testbit r 31) (r =? 0))).
Proof. set_flags_eval set_flags_u32 U32 31. Qed.

Lemma emu_flags_spec_inc rf (ofb p sg z : bool) :
  0 <= rf < 2 ^ 64 ->
  emu_flags rf (Z.lor 196 (Z.lor (b2f ofb FLAG_OF) (b2f false FLAG_CF))) 2048 p sg z
  = set_status rf INCF (b2f ofb OF + (b2f sg SF + b2f z ZF + b2f p PF)).
Proof.
  intros H. unfold set_status. rewrite (land_trunc64 rf (Z.lnot INCF) H).
  destruct ofb, p, sg, z; cbn [b2f]; unfold emu_flags; closed_fs_tests; cbn [negb]; cbv iota zeta.
  all: repeat rewrite <- Z.lor_assoc; rewrite <- Z.land_assoc.
  all: try solve [apply (f_equal2 Z.lor); [apply (f_equal (Z.land rf)); vm_compute; reflexivity | vm_compute; reflexivity]].
  change (Z.land (0 + (0 + 0 + 0)) INCF) with 0.
  rewrite (Z.lor_0_r (Z.land rf (Z.land (Z.ones 64) (Z.lnot INCF)))).
  apply (f_equal (Z.land rf)). vm_compute. reflexivity.
Qed.

Definition inc_fs (ofb : bool) : Z := Z.lor 196 (Z.lor (b2f ofb FLAG_OF) (b2f false FLAG_CF)).

Theorem set_flags_u64_incdec c ofb r s : 0 <= rflags s < 2 ^ 64 ->
  set_flags_u64 c (inc_fs ofb) 2048 r s = (Ok tt, with_flags s INCF (b2f ofb OF + szp 64 r)).
Proof. intros H. unfold inc_fs. rewrite set_flags_u64_eval_inc. rewrite emu_flags_spec_inc by exact H. reflexivity. Qed.
Theorem set_flags_u32_incdec c ofb r s : 0 <= rflags s < 2 ^ 64 ->
  set_flags_u32 c (inc_fs ofb) 2048 r s = (Ok tt, with_flags s INCF (b2f ofb OF + szp 32 r)).
Proof. intros H. unfold inc_fs. rewrite set_flags_u32_eval_inc. rewrite emu_flags_spec_inc by exact H. reflexivity. Qed.

Lemma set_flags_u16_eval_inc c (ofb : bool) r s :
  let fs := Z.lor 196 (Z.lor (b2f ofb FLAG_OF) (b2f false FLAG_CF)) in
  set_flags_u16 c fs 2048 r s
  = (Ok tt, set_rflags s (emu_flags (rflags s) fs 2048 (parity8 r) (Z.testbit r 15) (r =? 0))).
Proof. set_flags_eval set_flags_u16 U16 15. Qed.
Lemma set_flags_u8_eval_inc c (ofb : bool) r s :
  let fs := Z.lor 196 (Z.lor (b2f ofb FLAG_OF) (b2f false FLAG_CF)) in
  set_flags_u8 c fs 2048 r s
  = (Ok tt, set_rflags s (emu_flags (rflags s) fs 2048 (parity8 r) (Z.testbit r 7) (r =? 0))).
Proof. set_flags_eval set_flags_u8 U8 7. Qed.
Theorem set_flags_u16_incdec c ofb r s : 0 <= rflags s < 2 ^ 64 ->
  set_flags_u16 c (inc_fs ofb) 2048 r s = (Ok tt, with_flags s INCF (b2f ofb OF + szp 16 r)).
Proof. intros H. unfold inc_fs. rewrite set_flags_u16_eval_inc. rewrite emu_flags_spec_inc by exact H. reflexivity. Qed.
Theorem set_flags_u8_incdec c ofb r s : 0 <= rflags s < 2 ^ 64 ->
  set_flags_u8 c (inc_fs ofb) 2048 r s = (Ok tt, with_flags s INCF (b2f ofb OF + szp 8 r)).
Proof. intros H. unfold inc_fs. rewrite set_flags_u8_eval_inc. rewrite emu_flags_spec_inc by exact H. reflexivity. Qed.
