(* C02: TEST r/m64, r64 and TEST r/m32, r32 (register or memory first operand) against the ISA
   specification: flags of the AND, nothing written. *)
From Coq Require Import ZArith Bool List Lia.
From AxV Require Import Bits Outcome Codes Iced State Rt Mem Trace BitsP ByteStore MemP RegFile RegsP ISA CodeSem ReadonlyTac
  OperandP FlagsP CfP MovP RmP AluP AluRmP AluMemP Alu32P.
From AxG Require Import Flags Regs Operand Helpers I_test.
Local Open Scope Z_scope.
Ltac Zify.zify_post_hook ::= Z.div_mod_to_equations.

Section Test64.
  Variables (c : cfg) (i : instr) (s : mstate).
  Hypothesis Hwf : wf_regs s.
  Hypothesis HI : Inv (mem s).
  Hypothesis Hrf : 0 <= rflags s < 2 ^ 64.
  Hypothesis Hn : i_op_count i = 2.
  Hypothesis Hs0 : rm64_shape i 0.
  Hypothesis K1 : i_op_kind i 1 = OK_Register.
  Hypothesis H1 : is_gpr64 (i_op_register i 1) = true.

  Theorem test_rm64_r64_refines :
    i_code i = C_Test_rm64_r64 ->
    match isa_exec (SAlu TEST 64) i s with
    | IDone s' u => instr_test_rm64_r64 c i s = (Ok tt, s') /\ u = 0
    | IFault FMem => exists e, instr_test_rm64_r64 c i s = (Err e, s)
    | IFault _ => False
    end.
  Proof.
    intros Ec. unfold instr_test_rm64_r64. rewrite Ec.
    rewrite (bind_ok _ _ _ _ _ (dbg_code_ok c s _ eq_refl)).
    assert (S1 : is_supported (i_op_register i 1) = true) by (destruct (i_op_register i 1); try discriminate H1; reflexivity).
    assert (O1 : instruction_operand c i 1 s = (Ok (OpRegister (i_op_register i 1)), s))
      by (apply operand_register; [rewrite Hn; reflexivity|exact K1|reflexivity|exact S1]).
    cbn [isa_exec]. unfold exec_alu. unfold read_op at 2. rewrite K1. rewrite rf_read_mod64 by exact H1.
    unfold read_op.
    destruct Hs0 as [[K0 H0]|[K0 Hm]]; rewrite K0.
    - assert (S0 : is_supported (i_op_register i 0) = true) by (destruct (i_op_register i 0); try discriminate H0; reflexivity).
      assert (O0 : instruction_operand c i 0 s = (Ok (OpRegister (i_op_register i 0)), s))
        by (apply operand_register; [rewrite Hn; reflexivity|exact K0|reflexivity|exact S0]).
      assert (OP : instruction_operands_2 c i s = (Ok (OpRegister (i_op_register i 0), OpRegister (i_op_register i 1)), s)).
      { unfold instruction_operands_2. rewrite (bind_ok _ _ _ _ _ O0). rewrite (bind_ok _ _ _ _ _ O1). reflexivity. }
      rewrite (bind_ok _ _ _ _ _ OP). cbv beta iota.
      rewrite (bind_ok _ _ _ _ _ (reg_read_64_ok c _ s Hwf H1)).
      rewrite (bind_ok _ _ _ _ _ (reg_read_64_ok c _ s Hwf H0)). cbv zeta.
      rewrite rf_read_mod64 by exact H0.
      change (Z.lor (Z.lor FLAG_SF FLAG_ZF) FLAG_PF) with (arith_fs false false). change (Z.lor FLAG_OF FLAG_CF) with 2049.
      rewrite (bind_ok _ _ _ _ _ (set_flags_u64_arith c false false _ s Hrf)).
      cbn [alu b2f]. change (0 + 0) with 0. rewrite !Z.add_0_l. split; reflexivity.
    - destruct (operand_address c i 0 s Hwf Hm ltac:(rewrite Hn; reflexivity) K0) as (O0 & EA & _).
      assert (OP : instruction_operands_2 c i s = (Ok (OpMemory (memop_of i), OpRegister (i_op_register i 1)), s)).
      { unfold instruction_operands_2. rewrite (bind_ok _ _ _ _ _ O0). rewrite (bind_ok _ _ _ _ _ O1). reflexivity. }
      rewrite (bind_ok _ _ _ _ _ OP). cbv beta iota.
      rewrite (bind_ok _ _ _ _ _ (reg_read_64_ok c _ s Hwf H1)).
      rewrite bind_assoc. rewrite (bind_ok _ _ _ _ _ EA).
      unfold load. change (bytes_of 64) with 8%nat. change mem_read_64 with (mem_read_n 8).
      destruct (mem_read_n_cases 8 (ea i s) s HI) as [(d & E & R)|(e & E)]; rewrite E.
      + rewrite (bind_ok _ _ _ _ _ E). cbv zeta.
        change (Z.lor (Z.lor FLAG_SF FLAG_ZF) FLAG_PF) with (arith_fs false false). change (Z.lor FLAG_OF FLAG_CF) with 2049.
        rewrite (bind_ok _ _ _ _ _ (set_flags_u64_arith c false false _ s Hrf)).
        cbn [alu b2f]. change (0 + 0) with 0. rewrite !Z.add_0_l. split; reflexivity.
      + exists e. rewrite (bind_err _ _ _ _ _ E). reflexivity.
  Qed.
End Test64.

Section Test32.
  Variables (c : cfg) (i : instr) (s : mstate).
  Hypothesis Hwf : wf_regs s.
  Hypothesis HI : Inv (mem s).
  Hypothesis Hrf : 0 <= rflags s < 2 ^ 64.
  Hypothesis Hn : i_op_count i = 2.
  Hypothesis Hs0 : rm32_shape i 0.
  Hypothesis K1 : i_op_kind i 1 = OK_Register.
  Hypothesis H1 : is_gpr32 (i_op_register i 1) = true.

  Theorem test_rm32_r32_refines :
    i_code i = C_Test_rm32_r32 ->
    match isa_exec (SAlu TEST 32) i s with
    | IDone s' u => instr_test_rm32_r32 c i s = (Ok tt, s') /\ u = 0
    | IFault FMem => exists e, instr_test_rm32_r32 c i s = (Err e, s)
    | IFault _ => False
    end.
  Proof.
    intros Ec. unfold instr_test_rm32_r32. rewrite Ec.
    rewrite (bind_ok _ _ _ _ _ (dbg_code_ok c s _ eq_refl)).
    assert (O1 : instruction_operand c i 1 s = (Ok (OpRegister (i_op_register i 1)), s))
      by (apply operand_register; [rewrite Hn; reflexivity|exact K1|reflexivity|apply gpr32_supported; exact H1]).
    assert (Hsv : 0 <= rf_read (regs s) (i_op_register i 1) < 2 ^ 32) by (apply rf_read_range32; exact H1).
    cbn [isa_exec]. unfold exec_alu. unfold read_op at 2. rewrite K1. rewrite rf_read_mod32 by exact H1.
    unfold read_op.
    destruct Hs0 as [[K0 H0]|[K0 Hm]]; rewrite K0.
    - assert (O0 : instruction_operand c i 0 s = (Ok (OpRegister (i_op_register i 0)), s))
        by (apply operand_register; [rewrite Hn; reflexivity|exact K0|reflexivity|apply gpr32_supported; exact H0]).
      assert (OP : instruction_operands_2 c i s = (Ok (OpRegister (i_op_register i 0), OpRegister (i_op_register i 1)), s)).
      { unfold instruction_operands_2. rewrite (bind_ok _ _ _ _ _ O0). rewrite (bind_ok _ _ _ _ _ O1). reflexivity. }
      assert (Hd : 0 <= rf_read (regs s) (i_op_register i 0) < 2 ^ 32) by (apply rf_read_range32; exact H0).
      rewrite (bind_ok _ _ _ _ _ OP). cbv beta iota.
      rewrite (bind_ok _ _ _ _ _ (reg_read_32_ok c _ s Hwf H1)). cbv zeta.
      rewrite (bind_ok _ _ _ _ _ (reg_read_32_ok c _ s Hwf H0)).
      rewrite rf_read_mod32 by exact H0. rewrite !cast_u64_u32_id by assumption.
      change (Z.lor (Z.lor FLAG_SF FLAG_ZF) FLAG_PF) with (arith_fs false false). change (Z.lor FLAG_OF FLAG_CF) with 2049.
      rewrite (bind_ok _ _ _ _ _ (set_flags_u32_arith c false false _ s Hrf)).
      cbn [alu b2f]. change (0 + 0) with 0. rewrite !Z.add_0_l. split; reflexivity.
    - destruct (operand_address c i 0 s Hwf Hm ltac:(rewrite Hn; reflexivity) K0) as (O0 & EA & _).
      assert (OP : instruction_operands_2 c i s = (Ok (OpMemory (memop_of i), OpRegister (i_op_register i 1)), s)).
      { unfold instruction_operands_2. rewrite (bind_ok _ _ _ _ _ O0). rewrite (bind_ok _ _ _ _ _ O1). reflexivity. }
      rewrite (bind_ok _ _ _ _ _ OP). cbv beta iota.
      rewrite (bind_ok _ _ _ _ _ (reg_read_32_ok c _ s Hwf H1)). cbv zeta.
      rewrite bind_assoc. rewrite (bind_ok _ _ _ _ _ EA).
      unfold load. change (bytes_of 32) with 4%nat. change mem_read_32 with (mem_read_n 4).
      destruct (mem_read_n_cases 4 (ea i s) s HI) as [(d & E & R)|(e & E)]; rewrite E.
      + rewrite (bind_ok _ _ _ _ _ E). rewrite !cast_u64_u32_id by assumption.
        change (Z.lor (Z.lor FLAG_SF FLAG_ZF) FLAG_PF) with (arith_fs false false). change (Z.lor FLAG_OF FLAG_CF) with 2049.
        rewrite (bind_ok _ _ _ _ _ (set_flags_u32_arith c false false _ s Hrf)).
        cbn [alu b2f]. change (0 + 0) with 0. rewrite !Z.add_0_l. split; reflexivity.
      + exists e. rewrite (bind_err _ _ _ _ _ E). reflexivity.
  Qed.
End Test32.

(* ---- TEST r/m64, imm32 (sign-extended) and TEST RAX, imm32; TEST r/m32, imm32 and TEST EAX, imm32 ---- *)
From AxV Require Import AluImmP AluImm32P.

Section TestImm64.
  Variables (c : cfg) (i : instr) (s : mstate).
  Hypothesis Hwf : wf_regs s.
  Hypothesis HI : Inv (mem s).
  Hypothesis Hrf : 0 <= rflags s < 2 ^ 64.
  Hypothesis Hn : i_op_count i = 2.
  Hypothesis Hs0 : rm64_shape i 0.
  Hypothesis Him : imm64_shape i.

  Definition test_refines (w : Z) (run : outcome unit * mstate) : Prop :=
    match isa_exec (SAlu TEST w) i s with
    | IDone s' u => run = (Ok tt, s') /\ u = 0
    | IFault FMem => exists e, run = (Err e, s)
    | IFault _ => False
    end.

  Theorem test_rm64_imm32_refines : test_refines 64 (instr_test_rm64_imm32 c i s).
  Proof.
    unfold test_refines, instr_test_rm64_imm32.
    destruct (imm_operand c i s Hn Him) as (v & O1 & RV & Hv).
    assert (SA : lift (debug_assert_that c (8 =? 8)) s = (Ok tt, s)) by (unfold lift, debug_assert_that, assert_that; destruct (dbg c); reflexivity).
    cbn [isa_exec]. unfold exec_alu. rewrite RV. unfold read_op.
    destruct Hs0 as [[K0 H0]|[K0 Hm]]; rewrite K0.
    - assert (S0 : is_supported (i_op_register i 0) = true) by (destruct (i_op_register i 0); try discriminate H0; reflexivity).
      assert (O0 : instruction_operand c i 0 s = (Ok (OpRegister (i_op_register i 0)), s))
        by (apply operand_register; [rewrite Hn; reflexivity|exact K0|reflexivity|exact S0]).
      assert (OP : instruction_operands_2 c i s = (Ok (OpRegister (i_op_register i 0), OpImmediate v 8), s)).
      { unfold instruction_operands_2. rewrite (bind_ok _ _ _ _ _ O0). rewrite (bind_ok _ _ _ _ _ O1). reflexivity. }
      rewrite (bind_ok _ _ _ _ _ OP). cbv beta iota.
      rewrite bind_assoc. rewrite (bind_ok _ _ _ _ _ SA). rewrite (bind_ok _ _ _ _ _ (eq_refl : ret v s = _)).
      rewrite (bind_ok _ _ _ _ _ (reg_read_64_ok c _ s Hwf H0)). cbv zeta.
      rewrite rf_read_mod64 by exact H0.
      change (Z.lor (Z.lor FLAG_SF FLAG_ZF) FLAG_PF) with (arith_fs false false). change (Z.lor FLAG_OF FLAG_CF) with 2049.
      rewrite (bind_ok _ _ _ _ _ (set_flags_u64_arith c false false _ s Hrf)).
      cbn [alu b2f]. change (0 + 0) with 0. rewrite !Z.add_0_l. split; reflexivity.
    - destruct (operand_address c i 0 s Hwf Hm ltac:(rewrite Hn; reflexivity) K0) as (O0 & EA & _).
      assert (OP : instruction_operands_2 c i s = (Ok (OpMemory (memop_of i), OpImmediate v 8), s)).
      { unfold instruction_operands_2. rewrite (bind_ok _ _ _ _ _ O0). rewrite (bind_ok _ _ _ _ _ O1). reflexivity. }
      rewrite (bind_ok _ _ _ _ _ OP). cbv beta iota.
      rewrite bind_assoc. rewrite (bind_ok _ _ _ _ _ SA). rewrite (bind_ok _ _ _ _ _ (eq_refl : ret v s = _)).
      rewrite bind_assoc. rewrite (bind_ok _ _ _ _ _ EA).
      unfold load. change (bytes_of 64) with 8%nat. change mem_read_64 with (mem_read_n 8).
      destruct (mem_read_n_cases 8 (ea i s) s HI) as [(d & E & R)|(e & E)]; rewrite E.
      + rewrite (bind_ok _ _ _ _ _ E). cbv zeta.
        change (Z.lor (Z.lor FLAG_SF FLAG_ZF) FLAG_PF) with (arith_fs false false). change (Z.lor FLAG_OF FLAG_CF) with 2049.
        rewrite (bind_ok _ _ _ _ _ (set_flags_u64_arith c false false _ s Hrf)).
        cbn [alu b2f]. change (0 + 0) with 0. rewrite !Z.add_0_l. split; reflexivity.
      + exists e. rewrite (bind_err _ _ _ _ _ E). reflexivity.
  Qed.

  Theorem test_rax_imm32_refines : i_code i = C_Test_RAX_imm32 -> test_refines 64 (instr_test_rax_imm32 c i s).
  Proof.
    intros Ec. unfold instr_test_rax_imm32. rewrite Ec. rewrite (bind_ok _ _ _ _ _ (dbg_code_ok c s _ eq_refl)).
    exact test_rm64_imm32_refines.
  Qed.
End TestImm64.

Section TestImm32.
  Variables (c : cfg) (i : instr) (s : mstate).
  Hypothesis Hwf : wf_regs s.
  Hypothesis HI : Inv (mem s).
  Hypothesis Hrf : 0 <= rflags s < 2 ^ 64.
  Hypothesis Hn : i_op_count i = 2.
  Hypothesis Hs0 : rm32_shape i 0.
  Hypothesis Him : imm32_shape i.

  Theorem test_rm32_imm32_refines : test_refines i s 32 (instr_test_rm32_imm32 c i s).
  Proof.
    unfold test_refines, instr_test_rm32_imm32.
    destruct (imm32_operand c i s Hn Him) as (dd & v & O1 & CV & RV & Hv).
    assert (SA : lift (debug_assert_that c (4 =? 4)) s = (Ok tt, s)) by (unfold lift, debug_assert_that, assert_that; destruct (dbg c); reflexivity).
    cbn [isa_exec]. unfold exec_alu. rewrite RV. unfold read_op.
    destruct Hs0 as [[K0 H0]|[K0 Hm]]; rewrite K0.
    - assert (O0 : instruction_operand c i 0 s = (Ok (OpRegister (i_op_register i 0)), s))
        by (apply operand_register; [rewrite Hn; reflexivity|exact K0|reflexivity|apply gpr32_supported; exact H0]).
      assert (OP : instruction_operands_2 c i s = (Ok (OpRegister (i_op_register i 0), OpImmediate dd 4), s)).
      { unfold instruction_operands_2. rewrite (bind_ok _ _ _ _ _ O0). rewrite (bind_ok _ _ _ _ _ O1). reflexivity. }
      assert (Hd : 0 <= rf_read (regs s) (i_op_register i 0) < 2 ^ 32) by (apply rf_read_range32; exact H0).
      rewrite (bind_ok _ _ _ _ _ OP). cbv beta iota.
      rewrite bind_assoc. rewrite (bind_ok _ _ _ _ _ SA). rewrite (bind_ok _ _ _ _ _ (eq_refl : ret (cast U64 U32 dd) s = _)).
      rewrite CV.
      rewrite (bind_ok _ _ _ _ _ (reg_read_32_ok c _ s Hwf H0)). cbv zeta.
      rewrite rf_read_mod32 by exact H0. rewrite (cast_u64_u32_id _ Hd).
      change (Z.lor (Z.lor FLAG_SF FLAG_ZF) FLAG_PF) with (arith_fs false false). change (Z.lor FLAG_OF FLAG_CF) with 2049.
      rewrite (bind_ok _ _ _ _ _ (set_flags_u32_arith c false false _ s Hrf)).
      cbn [alu b2f]. change (0 + 0) with 0. rewrite !Z.add_0_l. split; reflexivity.
    - destruct (operand_address c i 0 s Hwf Hm ltac:(rewrite Hn; reflexivity) K0) as (O0 & EA & _).
      assert (OP : instruction_operands_2 c i s = (Ok (OpMemory (memop_of i), OpImmediate dd 4), s)).
      { unfold instruction_operands_2. rewrite (bind_ok _ _ _ _ _ O0). rewrite (bind_ok _ _ _ _ _ O1). reflexivity. }
      rewrite (bind_ok _ _ _ _ _ OP). cbv beta iota.
      rewrite bind_assoc. rewrite (bind_ok _ _ _ _ _ SA). rewrite (bind_ok _ _ _ _ _ (eq_refl : ret (cast U64 U32 dd) s = _)).
      rewrite CV.
      rewrite bind_assoc. rewrite (bind_ok _ _ _ _ _ EA).
      unfold load. change (bytes_of 32) with 4%nat. change mem_read_32 with (mem_read_n 4).
      destruct (mem_read_n_cases 4 (ea i s) s HI) as [(d & E & R)|(e & E)]; rewrite E.
      + rewrite (bind_ok _ _ _ _ _ E). cbv zeta. rewrite (cast_u64_u32_id _ R).
        change (Z.lor (Z.lor FLAG_SF FLAG_ZF) FLAG_PF) with (arith_fs false false). change (Z.lor FLAG_OF FLAG_CF) with 2049.
        rewrite (bind_ok _ _ _ _ _ (set_flags_u32_arith c false false _ s Hrf)).
        cbn [alu b2f]. change (0 + 0) with 0. rewrite !Z.add_0_l. split; reflexivity.
      + exists e. rewrite (bind_err _ _ _ _ _ E). reflexivity.
  Qed.

  Theorem test_eax_imm32_refines : i_code i = C_Test_EAX_imm32 -> test_refines i s 32 (instr_test_eax_imm32 c i s).
  Proof.
    intros Ec. unfold instr_test_eax_imm32. rewrite Ec. rewrite (bind_ok _ _ _ _ _ (dbg_code_ok c s _ eq_refl)).
    exact test_rm32_imm32_refines.
  Qed.
End TestImm32.
