(* C02: TEST r/m64, r64 and TEST r/m32, r32 (register or memory first operand) against the ISA
   specification: flags of the AND, nothing written. *)
From Coq Require Import ZArith Bool List Lia.
From AxV Require Import Bits Outcome Codes Iced State Rt Mem Trace BitsP ByteStore MemP RegFile RegsP ISA CodeSem ReadonlyTac
  OperandP FlagsP CfP MovP RmP AluP AluRmP AluMemP Alu32P.
From AxG Require Import Flags Regs Operand Helpers I_test.
Local Open Scope Z_scope.
Ltac Zify.zify_post_hook ::= Z.div_mod_to_equations.

Section Test64.
  Variables (c : cfg) (i : instr) (s : mstate).
  Hypothesis Hwf : wf_regs s.
  Hypothesis HI : Inv (mem s).
  Hypothesis Hrf : 0 <= rflags s < 2 ^ 64.
  Hypothesis Hn : i_op_count i = 2.
  Hypothesis Hs0 : rm64_shape i 0.
  Hypothesis K1 : i_op_kind i 1 = OK_Register.
  Hypothesis H1 : is_gpr64 (i_op_register i 1) = true.

  Theorem test_rm64_r64_refines :
    i_code i = C_Test_rm64_r64 ->
    match isa_exec (SAlu TEST 64) i s with
    | IDone s' u => instr_test_rm64_r64 c i s = (Ok tt, s') /\ u = 0
    | IFault FMem => exists e, instr_test_rm64_r64 c i s = (Err e, s)
    | IFault _ => False
    end.
  Proof.
    intros Ec. unfold instr_test_rm64_r64. rewrite Ec.
    rewrite (bind_ok _ _ _ _ _ (dbg_code_ok c s _ eq_refl)).
    assert (S1 : is_supported (i_op_register i 1) = true) by (destruct (i_op_register i 1); try discriminate H1; reflexivity).
    assert (O1 : instruction_operand c i 1 s = (Ok (OpRegister (i_op_register i 1)), s))
      by (apply operand_register; [rewrite Hn; reflexivity|exact K1|reflexivity|exact S1]).
    cbn [isa_exec]. unfold exec_alu. unfold read_op at 2. rewrite K1. rewrite rf_read_mod64 by exact H1.
    unfold read_op.
    destruct Hs0 as [[K0 H0]|[K0 Hm]]; rewrite K0.
    - assert (S0 : is_supported (i_op_register i 0) = true) by (destruct (i_op_register i 0); try discriminate H0; reflexivity).
      assert (O0 : instruction_operand c i 0 s = (Ok (OpRegister (i_op_register i 0)), s))
        by (apply operand_register; [rewrite Hn; reflexivity|exact K0|reflexivity|exact S0]).
      assert (OP : instruction_operands_2 c i s = (Ok (OpRegister (i_op_register i 0), OpRegister (i_op_register i 1)), s)).
      { unfold instruction_operands_2. rewrite (bind_ok _ _ _ _ _ O0). rewrite (bind_ok _ _ _ _ _ O1). reflexivity. }
      rewrite (bind_ok _ _ _ _ _ OP). cbv beta iota.
      rewrite (bind_ok _ _ _ _ _ (reg_read_64_ok c _ s Hwf H1)).
      rewrite (bind_ok _ _ _ _ _ (reg_read_64_ok c _ s Hwf H0)). cbv zeta.
      rewrite rf_read_mod64 by exact H0.
      change (Z.lor (Z.lor FLAG_SF FLAG_ZF) FLAG_PF) with (arith_fs false false). change (Z.lor FLAG_OF FLAG_CF) with 2049.
      rewrite (bind_ok _ _ _ _ _ (set_flags_u64_arith c false false _ s Hrf)).
      cbn [alu b2f]. change (0 + 0) with 0. rewrite !Z.add_0_l. split; reflexivity.
    - destruct (operand_address c i 0 s Hwf Hm ltac:(rewrite Hn; reflexivity) K0) as (O0 & EA & _).
      assert (OP : instruction_operands_2 c i s = (Ok (OpMemory (memop_of i), OpRegister (i_op_register i 1)), s)).
      { unfold instruction_operands_2. rewrite (bind_ok _ _ _ _ _ O0). rewrite (bind_ok _ _ _ _ _ O1). reflexivity. }
      rewrite (bind_ok _ _ _ _ _ OP). cbv beta iota.
      rewrite (bind_ok _ _ _ _ _ (reg_read_64_ok c _ s Hwf H1)).
      rewrite bind_assoc. rewrite (bind_ok _ _ _ _ _ EA).
      unfold load. change (bytes_of 64) with 8%nat. change mem_read_64 with (mem_read_n 8).
      destruct (mem_read_n_cases 8 (ea i s) s HI) as [(d & E & R)|(e & E)]; rewrite E.
      + rewrite (bind_ok _ _ _ _ _ E). cbv zeta.
        change (Z.lor (Z.lor FLAG_SF FLAG_ZF) FLAG_PF) with (arith_fs false false). change (Z.lor FLAG_OF FLAG_CF) with 2049.
        rewrite (bind_ok _ _ _ _ _ (set_flags_u64_arith c false false _ s Hrf)).
        cbn [alu b2f]. change (0 + 0) with 0. rewrite !Z.add_0_l. split; reflexivity.
      + exists e. rewrite (bind_err _ _ _ _ _ E). reflexivity.
  Qed.
End Test64.

Section Test32.
  Variables (c : cfg) (i : instr) (s : mstate).
  Hypothesis Hwf : wf_regs s.
  Hypothesis HI : Inv (mem s).
  Hypothesis Hrf : 0 <= rflags s < 2 ^ 64.
  Hypothesis Hn : i_op_count i = 2.
  Hypothesis Hs0 : rm32_shape i 0.
  Hypothesis K1 : i_op_kind i 1 = OK_Register.
  Hypothesis H1 : is_gpr32 (i_op_register i 1) = true.

  Theorem test_rm32_r32_refines :
    i_code i = C_Test_rm32_r32 ->
    match isa_exec (SAlu TEST 32) i s with
    | IDone s' u => instr_test_rm32_r32 c i s = (Ok tt, s') /\ u = 0
    | IFault FMem => exists e, instr_test_rm32_r32 c i s = (Err e, s)
    | IFault _ => False
    end.
  Proof.
    intros Ec. unfold instr_test_rm32_r32. rewrite Ec.
    rewrite (bind_ok _ _ _ _ _ (dbg_code_ok c s _ eq_refl)).
    assert (O1 : instruction_operand c i 1 s = (Ok (OpRegister (i_op_register i 1)), s))
      by (apply operand_register; [rewrite Hn; reflexivity|exact K1|reflexivity|apply gpr32_supported; exact H1]).
    assert (Hsv : 0 <= rf_read (regs s) (i_op_register i 1) < 2 ^ 32) by (apply rf_read_range32; exact H1).
    cbn [isa_exec]. unfold exec_alu. unfold read_op at 2. rewrite K1. rewrite rf_read_mod32 by exact H1.
    unfold read_op.
    destruct Hs0 as [[K0 H0]|[K0 Hm]]; rewrite K0.
    - assert (O0 : instruction_operand c i 0 s = (Ok (OpRegister (i_op_register i 0)), s))
        by (apply operand_register; [rewrite Hn; reflexivity|exact K0|reflexivity|apply gpr32_supported; exact H0]).
      assert (OP : instruction_operands_2 c i s = (Ok (OpRegister (i_op_register i 0), OpRegister (i_op_register i 1)), s)).
      { unfold instruction_operands_2. rewrite (bind_ok _ _ _ _ _ O0). rewrite (bind_ok _ _ _ _ _ O1). reflexivity. }
      assert (Hd : 0 <= rf_read (regs s) (i_op_register i 0) < 2 ^ 32) by (apply rf_read_range32; exact H0).
      rewrite (bind_ok _ _ _ _ _ OP). cbv beta iota.
      rewrite (bind_ok _ _ _ _ _ (reg_read_32_ok c _ s Hwf H1)). cbv zeta.
      rewrite (bind_ok _ _ _ _ _ (reg_read_32_ok c _ s Hwf H0)).
      rewrite rf_read_mod32 by exact H0. rewrite !cast_u64_u32_id by assumption.
      change (Z.lor (Z.lor FLAG_SF FLAG_ZF) FLAG_PF) with (arith_fs false false). change (Z.lor FLAG_OF FLAG_CF) with 2049.
      rewrite (bind_ok _ _ _ _ _ (set_flags_u32_arith c false false _ s Hrf)).
      cbn [alu b2f]. change (0 + 0) with 0. rewrite !Z.add_0_l. split; reflexivity.
    - destruct (operand_address c i 0 s Hwf Hm ltac:(rewrite Hn; reflexivity) K0) as (O0 & EA & _).
      assert (OP : instruction_operands_2 c i s = (Ok (OpMemory (memop_of i), OpRegister (i_op_register i 1)), s)).
      { unfold instruction_operands_2. rewrite (bind_ok _ _ _ _ _ O0). rewrite (bind_ok _ _ _ _ _ O1). reflexivity. }
      rewrite (bind_ok _ _ _ _ _ OP). cbv beta iota.
      rewrite (bind_ok _ _ _ _ _ (reg_read_32_ok c _ s Hwf H1)). cbv zeta.
      rewrite bind_assoc. rewrite (bind_ok _ _ _ _ _ EA).
      unfold load. change (bytes_of 32) with 4%nat. change mem_read_32 with (mem_read_n 4).
      destruct (mem_read_n_cases 4 (ea i s) s HI) as [(d & E & R)|(e & E)]; rewrite E.
      + rewrite (bind_ok _ _ _ _ _ E). rewrite !cast_u64_u32_id by assumption.
        change (Z.lor (Z.lor FLAG_SF FLAG_ZF) FLAG_PF) with (arith_fs false false). change (Z.lor FLAG_OF FLAG_CF) with 2049.
        rewrite (bind_ok _ _ _ _ _ (set_flags_u32_arith c false false _ s Hrf)).
        cbn [alu b2f]. change (0 + 0) with 0. rewrite !Z.add_0_l. split; reflexivity.
      + exists e. rewrite (bind_err _ _ _ _ _ E). reflexivity.
  Qed.
End Test32.
