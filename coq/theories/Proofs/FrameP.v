(* Instantiation of the frame facts for the generated dispatcher. *)
From Coq Require Import ZArith Bool List Lia.
From AxV Require Import Bits Outcome Codes Iced State Rt Mem Trace Exec ExecP FrameTac.
From AxG Require Import Flags Regs Operand Helpers Dispatch Frame.
Local Open Scope Z_scope.

Theorem dispatch_framed : forall c i, framed (switch_instruction_mnemonic c i).
Proof. intros. apply frame_switch_instruction_mnemonic. Qed.

Theorem dispatch_keeps_counters : forall c i s, keeps_counters s (snd (switch_instruction_mnemonic c i s)).
Proof.
  intros c i s. destruct (dispatch_framed c i s) as (A1&A2&A3&A4&_). repeat split; assumption.
Qed.

Theorem supported_pure : forall c m s, snd (supported_mnemonic_try_from c m s) = s.
Proof. intros c m s. unfold supported_mnemonic_try_from. destruct m; reflexivity. Qed.

(* SupportedMnemonic::try_from is the identity on the 65 dispatched mnemonics *)
Theorem supported_identity : forall c m s m', fst (supported_mnemonic_try_from c m s) = Ok m' -> m' = m.
Proof. intros c m s m'. unfold supported_mnemonic_try_from. destruct m; cbn; intros H; inversion H; reflexivity. Qed.

(* the OS-interface instructions succeed exactly when hooks are registered for their own
   mnemonic, and change nothing *)
From AxG Require Import I_syscall I_int I_int1 I_int3.
Definition os_form (mn : mnemonic) (F : MM unit) : Prop :=
  forall s, F s = ((if hooked s mn then Ok tt else Err EOther), s).

Lemma os_syscall c i : i_code i = C_Syscall -> os_form M_Syscall (instr_syscall c i).
Proof. intros Ec s. unfold instr_syscall, debug_assert_that, assert_that. rewrite Ec. cbn [code_eqb].
  destruct (dbg c); cbn; unfold has_mnemonic_hooks, ret, fail; cbn; destruct (hooked s M_Syscall); reflexivity. Qed.
Lemma os_int c i : i_code i = C_Int_imm8 -> os_form M_Int (instr_int_imm8 c i).
Proof. intros Ec s. unfold instr_int_imm8, debug_assert_that, assert_that. rewrite Ec. cbn [code_eqb].
  destruct (dbg c); cbn; unfold has_mnemonic_hooks, ret, fail; cbn; destruct (hooked s M_Int); reflexivity. Qed.
Lemma os_int1 c i : i_code i = C_Int1 -> os_form M_Int1 (instr_int1 c i).
Proof. intros Ec s. unfold instr_int1, debug_assert_that, assert_that. rewrite Ec. cbn [code_eqb].
  destruct (dbg c); cbn; unfold has_mnemonic_hooks, ret, fail; cbn; destruct (hooked s M_Int1); reflexivity. Qed.
Lemma os_int3 c i : i_code i = C_Int3 -> os_form M_Int3 (instr_int3 c i).
Proof. intros Ec s. unfold instr_int3, debug_assert_that, assert_that. rewrite Ec. cbn [code_eqb].
  destruct (dbg c); cbn; unfold has_mnemonic_hooks, ret, fail; cbn; destruct (hooked s M_Int3); reflexivity. Qed.
