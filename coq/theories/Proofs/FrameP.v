(* Instantiation of the frame facts for the generated dispatcher. *)
From Coq Require Import ZArith Bool List Lia.
From AxV Require Import Bits Outcome Codes Iced State Rt Mem Trace Exec ExecP FrameTac.
From AxG Require Import Flags Regs Operand Helpers Dispatch Frame.
Local Open Scope Z_scope.

Theorem dispatch_framed : forall c i, framed (switch_instruction_mnemonic c i).
Proof. intros. apply frame_switch_instruction_mnemonic. Qed.

Theorem dispatch_keeps_counters : forall c i s, keeps_counters s (snd (switch_instruction_mnemonic c i s)).
Proof.
  intros c i s. destruct (dispatch_framed c i s) as (A1&A2&A3&A4&_). repeat split; assumption.
Qed.

Theorem supported_pure : forall c m s, snd (supported_mnemonic_try_from c m s) = s.
Proof. intros c m s. unfold supported_mnemonic_try_from. destruct m; reflexivity. Qed.

(* SupportedMnemonic::try_from is the identity on the 65 dispatched mnemonics *)
Theorem supported_identity : forall c m s m', fst (supported_mnemonic_try_from c m s) = Ok m' -> m' = m.
Proof. intros c m s m'. unfold supported_mnemonic_try_from. destruct m; cbn; intros H; inversion H; reflexivity. Qed.
