(* C06: DIV r/m32 (register or memory divisor): fails exactly on a zero divisor, on a quotient of
   EDX:EAX that does not fit 32 bits, or on an unloadable divisor; otherwise EAX/EDX receive the
   architectural quotient and remainder, zero-extended; no third outcome in either build configuration. *)
From Coq Require Import ZArith Bool List Lia.
From AxV Require Import Bits Outcome Codes Iced State Rt Mem Trace BitsP RegFile RegsP ISA CodeSem ReadonlyTac
  OperandP FlagsP CfP MovP AluP ByteStore MemP RmP Alu32P DivP.
From AxG Require Import Flags Regs Operand Helpers I_div.
Local Open Scope Z_scope.
Ltac Zify.zify_post_hook ::= Z.div_mod_to_equations.

Definition read_rm32 (c : cfg) (i : instr) (k : Z) : MM Z :=
  bind (instruction_operand c i k) (fun op =>
    match op with
    | OpRegister r => reg_read_32 c r
    | OpMemory m => bind (mem_addr c m) (fun a => mem_read_32 a)
    | _ => fail EFatal
    end).

Section ReadRm32.
  Variables (c : cfg) (i : instr) (s : mstate) (k : Z).
  Hypothesis Hwf : wf_regs s.
  Hypothesis HI : Inv (mem s).
  Hypothesis Hk : 0 <= k < i_op_count i.
  Hypothesis Hs : rm32_shape i k.

  Theorem read_rm32_spec :
    match read_op i k 32 s with
    | Some d => read_rm32 c i k s = (Ok d, s) /\ 0 <= d < 2 ^ 32
    | None => exists e, read_rm32 c i k s = (Err e, s)
    end.
  Proof.
    unfold read_rm32, read_op. destruct Hs as [[K H]|[K Hm]]; rewrite K.
    - assert (O0 : instruction_operand c i k s = (Ok (OpRegister (i_op_register i k)), s))
        by (apply operand_register; [lia|exact K|reflexivity|apply gpr32_supported; exact H]).
      rewrite (bind_ok _ _ _ _ _ O0). rewrite (reg_read_32_ok c _ s Hwf H).
      rewrite rf_read_mod32 by exact H. split; [reflexivity|apply rf_read_range32; exact H].
    - destruct (operand_address c i k s Hwf Hm ltac:(lia) K) as (O1 & EA & _).
      rewrite (bind_ok _ _ _ _ _ O1). rewrite (bind_ok _ _ _ _ _ EA).
      unfold load. change (bytes_of 32) with 4%nat. change mem_read_32 with (mem_read_n 4).
      destruct (mem_read_n_cases 4 (ea i s) s HI) as [(v & E & R)|(e & E)]; rewrite E.
      + split; [reflexivity|exact R].
      + eexists; reflexivity.
  Qed.
End ReadRm32.

Section Div32.
  Variables (c : cfg) (i : instr) (s : mstate).
  Hypothesis Hwf : wf_regs s.
  Hypothesis HI : Inv (mem s).
  Hypothesis Hn : i_op_count i = 1.
  Hypothesis Hs : rm32_shape i 0.

  Theorem div_rm32_refines :
    i_code i = C_Div_rm32 ->
    match isa_exec (SDiv 32) i s with
    | IDone s' _ => instr_div_rm32 c i s = (Ok tt, s')
    | IFault FDivide => instr_div_rm32 c i s = (Err EDivZero, s)
    | IFault FMem => exists e, instr_div_rm32 c i s = (Err e, s)
    | IFault _ => False
    end.
  Proof.
    intros Ec. unfold instr_div_rm32. rewrite Ec.
    rewrite (bind_ok _ _ _ _ _ (dbg_code_ok c s _ eq_refl)).
    rewrite <- (bind_assoc (instruction_operand c i 0)). fold (read_rm32 c i 0).
    cbn [isa_exec]. unfold exec_div.
    pose proof (read_rm32_spec c i s 0 Hwf HI ltac:(lia) Hs) as RD.
    destruct (read_op i 0 32 s) as [d|]; [destruct RD as [RD Hd]|destruct RD as [e RD]];
      [|eexists; rewrite (bind_err _ _ _ _ _ RD); reflexivity].
    rewrite (bind_ok _ _ _ _ _ RD). cbv beta zeta.
    destruct (Z.eqb_spec d 0) as [Z|NZ]; [reflexivity|].
    rewrite (bind_ok _ _ _ _ _ (reg_read_32_ok c EAX s Hwf eq_refl)).
    rewrite (bind_ok _ _ _ _ _ (reg_read_32_ok c EDX s Hwf eq_refl)).
    change (acc 32) with EAX. change (hi_reg 32) with EDX. change (32 =? 8) with false. cbv iota.
    set (lo := rf_read (regs s) EAX). set (hi := rf_read (regs s) EDX).
    assert (Hlo : 0 <= lo < 2 ^ 32) by (apply rf_read_range32; reflexivity).
    assert (Hhi : 0 <= hi < 2 ^ 32) by (apply rf_read_range32; reflexivity).
    assert (SH : shl_raw U64 hi 32 = hi * 2 ^ 32).
    { unfold shl_raw. apply enc_small. unfold modulus; cbn [width].
      change (2 ^ 64) with 18446744073709551616. change (2 ^ 32) with 4294967296 in *. lia. }
    rewrite SH. rewrite (lor_add_shift lo hi 32) by lia.
    set (D := lo + hi * 2 ^ 32). replace (hi * 2 ^ 32 + lo) with D by (unfold D; ring).
    assert (HD : 0 <= D < 2 ^ 64).
    { unfold D. change (2 ^ 64) with 18446744073709551616. change (2 ^ 32) with 4294967296 in *. lia. }
    assert (Q : div_chk U64 D d = Ok (D / d)).
    { unfold div_chk. destruct (Z.eqb_spec d 0); [contradiction|]. cbn [signed andb].
      unfold wdiv, Bits.sem; cbn [signed]. rewrite Z.quot_div_nonneg by lia. f_equal. apply enc_small.
      unfold modulus; cbn [width]. split; [apply Z.div_pos; lia|].
      apply Z.le_lt_trans with D; [|lia]. apply Z.div_le_upper_bound; nia. }
    assert (R : rem_chk U64 D d = Ok (D mod d)).
    { unfold rem_chk. destruct (Z.eqb_spec d 0); [contradiction|]. cbn [signed andb].
      unfold wrem, Bits.sem; cbn [signed]. rewrite Z.rem_mod_nonneg by lia. f_equal. apply enc_small.
      unfold modulus; cbn [width]. pose proof (Z.mod_pos_bound D d ltac:(lia)).
      change (2 ^ 64) with 18446744073709551616. change (2 ^ 32) with 4294967296 in *. lia. }
    rewrite Q, R.
    rewrite (bind_ok _ _ _ _ _ (eq_refl : lift (Ok (D / d)) s = _)).
    rewrite (bind_ok _ _ _ _ _ (eq_refl : lift (Ok (D mod d)) s = _)).
    change (cast U32 U64 (2 ^ 32 - 1)) with (2 ^ 32 - 1).
    assert (C32 : forall x, cast U32 U64 (cast U64 U32 x) = x mod 2 ^ 32).
    { intros x. assert (E : cast U64 U32 x = x mod 2 ^ 32) by reflexivity. rewrite E. apply cast_u32_u64_id. apply Z.mod_pos_bound. reflexivity. }
    rewrite !C32.
    destruct (Z.ltb_spec (D / d) (2 ^ 32)) as [L|G]; cbn [negb].
    - destruct (Z.ltb_spec (2 ^ 32 - 1) (D / d)); [lia|].
      assert (R1 : 0 <= (D / d) mod 2 ^ 32 < 2 ^ 32) by (apply Z.mod_pos_bound; reflexivity).
      assert (R2 : 0 <= (D mod d) mod 2 ^ 32 < 2 ^ 32) by (apply Z.mod_pos_bound; reflexivity).
      rewrite (bind_ok _ _ _ _ _ (reg_write_32_ok c EAX _ s eq_refl R1)).
      rewrite (bind_ok _ _ _ _ _ (reg_write_32_ok c EDX _ _ eq_refl R2)).
      reflexivity.
    - destruct (Z.ltb_spec (2 ^ 32 - 1) (D / d)); [reflexivity|lia].
  Qed.
End Div32.

(* ---- IDIV r/m32: signed, complete (the divisor is sign-extended, unlike the 64-bit form) ---- *)
From AxG Require Import I_idiv.

Lemma src32_pattern d : 0 <= d < 2 ^ 32 ->
  cast I32 I64 (cast U32 I32 (cast U64 U32 d)) = sgn 32 d mod 2 ^ 64.
Proof.
  intros H. unfold cast, Bits.sem, enc, modulus, sgn; cbn [signed width].
  change (2 ^ (32 - 1)) with 2147483648. change (2 ^ 32) with 4294967296 in *. change (2 ^ 64) with 18446744073709551616.
  repeat match goal with |- context [if ?b then _ else _] => destruct b eqn:? end; lia.
Qed.

Lemma sem_i128_of_i64 v : - 2 ^ 63 <= v < 2 ^ 63 -> Bits.sem I128 (cast I64 I128 (v mod 2 ^ 64)) = v.
Proof.
  intros H. unfold cast, Bits.sem, enc, modulus; cbn [signed width].
  change (2 ^ (64 - 1)) with 9223372036854775808. change (2 ^ (128 - 1)) with 170141183460469231731687303715884105728.
  change (2 ^ 63) with 9223372036854775808 in *. change (2 ^ 64) with 18446744073709551616.
  change (2 ^ 128) with 340282366920938463463374607431768211456.
  repeat match goal with |- context [if ?b then _ else _] => destruct b eqn:? end; lia.
Qed.

Section Idiv32.
  Variables (c : cfg) (i : instr) (s : mstate).
  Hypothesis Hwf : wf_regs s.
  Hypothesis HI : Inv (mem s).
  Hypothesis Hn : i_op_count i = 1.
  Hypothesis Hs : rm32_shape i 0.

  Theorem idiv_rm32_refines :
    i_code i = C_Idiv_rm32 ->
    match isa_exec (SIdiv 32) i s with
    | IDone s' _ => instr_idiv_rm32 c i s = (Ok tt, s')
    | IFault FDivide => instr_idiv_rm32 c i s = (Err EDivZero, s)
    | IFault FMem => exists e, instr_idiv_rm32 c i s = (Err e, s)
    | IFault _ => False
    end.
  Proof.
    intros Ec. unfold instr_idiv_rm32. rewrite Ec.
    rewrite (bind_ok _ _ _ _ _ (dbg_code_ok c s _ eq_refl)).
    rewrite <- (bind_assoc (instruction_operand c i 0)). fold (read_rm32 c i 0).
    cbn [isa_exec]. unfold exec_div.
    pose proof (read_rm32_spec c i s 0 Hwf HI ltac:(lia) Hs) as RD.
    destruct (read_op i 0 32 s) as [d|]; [destruct RD as [RD Hd]|destruct RD as [e RD]];
      [|eexists; rewrite (bind_err _ _ _ _ _ RD); reflexivity].
    rewrite (bind_ok _ _ _ _ _ RD). cbv beta zeta.
    rewrite (src32_pattern d Hd).
    set (sd := sgn 32 d).
    assert (Hsd : - 2 ^ 31 <= sd < 2 ^ 31).
    { unfold sd, sgn. change (2 ^ (32 - 1)) with (2 ^ 31). change (2 ^ 31) with 2147483648. change (2 ^ 32) with 4294967296 in *.
      destruct (Z.ltb_spec d 2147483648); lia. }
    assert (Zd : (sd mod 2 ^ 64 =? 0) = (d =? 0)).
    { unfold sd, sgn. change (2 ^ (32 - 1)) with 2147483648. change (2 ^ 32) with 4294967296 in *. change (2 ^ 64) with 18446744073709551616.
      destruct (Z.ltb_spec d 2147483648); destruct (Z.eqb_spec d 0);
        match goal with |- (?x =? 0) = _ => destruct (Z.eqb_spec x 0) end; try reflexivity; lia. }
    rewrite Zd. destruct (Z.eqb_spec d 0) as [Z|NZ]; [reflexivity|].
    assert (Nsd : sd <> 0).
    { unfold sd, sgn. change (2 ^ (32 - 1)) with 2147483648. change (2 ^ 32) with 4294967296 in *. destruct (Z.ltb_spec d 2147483648); lia. }
    rewrite (bind_ok _ _ _ _ _ (reg_read_32_ok c EAX s Hwf eq_refl)).
    rewrite (bind_ok _ _ _ _ _ (reg_read_32_ok c EDX s Hwf eq_refl)).
    change (acc 32) with EAX. change (hi_reg 32) with EDX. change (32 =? 8) with false. cbv iota.
    set (lo := rf_read (regs s) EAX). set (hi := rf_read (regs s) EDX).
    assert (Hlo : 0 <= lo < 2 ^ 32) by (apply rf_read_range32; reflexivity).
    assert (Hhi : 0 <= hi < 2 ^ 32) by (apply rf_read_range32; reflexivity).
    assert (SH : shl_raw U64 hi 32 = hi * 2 ^ 32).
    { unfold shl_raw. apply enc_small. unfold modulus; cbn [width].
      change (2 ^ 64) with 18446744073709551616. change (2 ^ 32) with 4294967296 in *. lia. }
    rewrite SH. rewrite (lor_add_shift lo hi 32) by lia.
    set (D := lo + hi * 2 ^ 32). replace (hi * 2 ^ 32 + lo) with D by (unfold D; ring).
    assert (HD : 0 <= D < 2 ^ 64).
    { unfold D. change (2 ^ 64) with 18446744073709551616. change (2 ^ 32) with 4294967296 in *. lia. }
    change (2 * 32) with 64.
    set (SD := sgn 64 D).
    assert (HSD : - 2 ^ 63 <= SD < 2 ^ 63).
    { unfold SD, sgn. change (2 ^ (64 - 1)) with (2 ^ 63). destruct (Z.ltb_spec D (2 ^ 63));
      change (2 ^ 63) with 9223372036854775808 in *; change (2 ^ 64) with 18446744073709551616 in *; lia. }
    assert (CD : cast U64 I64 D = SD mod 2 ^ 64).
    { unfold cast, Bits.sem, enc, modulus, SD, sgn; cbn [signed width]. change (2 ^ (64 - 1)) with 9223372036854775808.
      change (2 ^ 64) with 18446744073709551616 in *.
      destruct (Z.ltb_spec D 9223372036854775808); lia. }
    rewrite CD.
    set (A := cast I64 I128 (SD mod 2 ^ 64)). set (B := cast I64 I128 (sd mod 2 ^ 64)).
    assert (SA : Bits.sem I128 A = SD) by (apply sem_i128_of_i64; exact HSD).
    assert (SB : Bits.sem I128 B = sd).
    { apply sem_i128_of_i64. change (2 ^ 31) with 2147483648 in Hsd. change (2 ^ 63) with 9223372036854775808. lia. }
    assert (NB : (B =? 0) = false).
    { destruct (Z.eqb_spec B 0) as [E|]; [|reflexivity]. exfalso. apply Nsd. rewrite <- SB. rewrite E. reflexivity. }
    assert (Hq : - 2 ^ 127 <= Z.quot SD sd < 2 ^ 127).
    { pose proof (Z.quot_abs SD sd ltac:(lia)) as QA.
      assert (B1 : Z.abs (Z.quot SD sd) <= Z.abs SD).
      { rewrite <- QA. rewrite Z.quot_div_nonneg by lia. apply Z.div_le_upper_bound; [lia|]. pose proof (Z.abs_nonneg SD). nia. }
      change (2 ^ 127) with 170141183460469231731687303715884105728. change (2 ^ 63) with 9223372036854775808 in *. lia. }
    assert (Hr : - 2 ^ 127 <= Z.rem SD sd < 2 ^ 127).
    { pose proof (Z.rem_bound_abs SD sd ltac:(lia)) as RB. change (2 ^ 127) with 170141183460469231731687303715884105728.
      change (2 ^ 31) with 2147483648 in *. lia. }
    assert (Q : div_chk I128 A B = Ok (enc I128 (Z.quot SD sd))).
    { unfold div_chk. rewrite NB. rewrite SA, SB.
      destruct (Z.eqb_spec SD (- 2 ^ (width I128 - 1))) as [E|_].
      - exfalso. cbn [width] in E. change (2 ^ (128 - 1)) with 170141183460469231731687303715884105728 in E.
        change (2 ^ 63) with 9223372036854775808 in *. lia.
      - rewrite andb_false_r. cbn [andb]. unfold wdiv. rewrite SA, SB. reflexivity. }
    assert (R : rem_chk I128 A B = Ok (enc I128 (Z.rem SD sd))).
    { unfold rem_chk. rewrite NB. rewrite SA, SB.
      destruct (Z.eqb_spec SD (- 2 ^ (width I128 - 1))) as [E|_].
      - exfalso. cbn [width] in E. change (2 ^ (128 - 1)) with 170141183460469231731687303715884105728 in E.
        change (2 ^ 63) with 9223372036854775808 in *. lia.
      - rewrite andb_false_r. cbn [andb]. unfold wrem. rewrite SA, SB. reflexivity. }
    rewrite Q, R.
    rewrite (bind_ok _ _ _ _ _ (eq_refl : lift (Ok (enc I128 (Z.quot SD sd))) s = _)).
    rewrite (bind_ok _ _ _ _ _ (eq_refl : lift (Ok (enc I128 (Z.rem SD sd))) s = _)).
    cbv beta iota. unfold lt. rewrite !sem_enc_i128 by assumption.
    assert (K1 : Bits.sem I128 (cast I32 I128 (2 ^ 31)) = - 2 ^ 31) by (vm_compute; reflexivity).
    assert (K2 : Bits.sem I128 (cast I32 I128 (2 ^ 31 - 1)) = 2 ^ 31 - 1) by (vm_compute; reflexivity).
    rewrite K1, K2.
    assert (W : forall v, - 2 ^ 127 <= v < 2 ^ 127 -> cast U32 U64 (cast I128 U32 (enc I128 v)) = v mod 2 ^ 32).
    { intros v Hv. assert (E : cast I128 U32 (enc I128 v) = v mod 2 ^ 32) by (unfold cast; rewrite sem_enc_i128 by exact Hv; reflexivity).
      rewrite E. apply cast_u32_u64_id. apply Z.mod_pos_bound. reflexivity. }
    rewrite !W by assumption.
    unfold fits_signed. change (2 ^ (32 - 1)) with (2 ^ 31).
    fold sd. fold SD.
    destruct (Z.ltb_spec (Z.quot SD sd) (- 2 ^ 31)) as [L1|G1]; destruct (Z.ltb_spec (2 ^ 31 - 1) (Z.quot SD sd)) as [L2|G2];
      destruct (Z.leb_spec (- 2 ^ 31) (Z.quot SD sd)); destruct (Z.ltb_spec (Z.quot SD sd) (2 ^ 31)); try lia;
      cbn [orb andb negb]; try reflexivity.
    assert (R1 : 0 <= Z.quot SD sd mod 2 ^ 32 < 2 ^ 32) by (apply Z.mod_pos_bound; reflexivity).
    assert (R2 : 0 <= Z.rem SD sd mod 2 ^ 32 < 2 ^ 32) by (apply Z.mod_pos_bound; reflexivity).
    rewrite (bind_ok _ _ _ _ _ (reg_write_32_ok c EAX _ s eq_refl R1)).
    rewrite (bind_ok _ _ _ _ _ (reg_write_32_ok c EDX _ _ eq_refl R2)).
    reflexivity.
  Qed.
End Idiv32.
