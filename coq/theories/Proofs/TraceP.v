(* C18: the recorded trace describes the executed control flow. *)
From Coq Require Import ZArith Bool List Lia.
From AxV Require Import Bits Outcome Codes Iced State Rt Mem Trace BitsP.
Local Open Scope Z_scope.
Import ListNotations.

(* an executed (taken) control transfer *)
Record event := { e_ip : Z; e_target : Z; e_variant : tvariant }.

(* what the trace stands for: every entry repeated [count] times *)
Definition expand1 (t : trace_entry) : list event :=
  repeat {| e_ip := t_ip t; e_target := t_target t; e_variant := t_variant t |} (Z.to_nat (t_count t)).
Definition expand (tr : list trace_entry) : list event := flat_map expand1 tr.

(* nesting depth after a list of events: calls minus returns *)
Definition delta (v : tvariant) : Z := match v with TCall => 1 | TReturn => -1 | TJump => 0 end.
Fixpoint depth (evs : list event) : Z :=
  match evs with nil => 0 | e :: r => delta (e_variant e) + depth r end.

Lemma depth_app a b : depth (a ++ b) = depth a + depth b.
Proof. induction a as [|e a IH]; cbn; [reflexivity|]. rewrite IH. ring. Qed.

Lemma depth_repeat e n : depth (repeat e n) = Z.of_nat n * delta (e_variant e).
Proof. induction n as [|n IH]; cbn [repeat depth]; [reflexivity|]. rewrite IH. lia. Qed.

(* well-formed trace: counts are positive, only jumps are run-length compressed, every
   entry's level is the depth of everything before it, and the compression is maximal *)
Fixpoint levels_ok (before : list event) (tr : list trace_entry) : Prop :=
  match tr with
  | nil => True
  | t :: r => sem I16 (t_level t) = depth before /\ 1 <= t_count t /\
              (t_variant t <> TJump -> t_count t = 1) /\
              levels_ok (before ++ expand1 t) r
  end.

Definition same_jump (a b : trace_entry) : bool :=
  (t_ip a =? t_ip b) && (t_target a =? t_target b) && tvariant_eqb (t_variant a) TJump && tvariant_eqb (t_variant b) TJump.

Fixpoint maximal (tr : list trace_entry) : Prop :=
  match tr with
  | a :: ((b :: _) as r) => same_jump a b = false /\ maximal r
  | _ => True
  end.

Definition small_depths (evs : list event) : Prop :=
  forall k, -32768 < depth (firstn k evs) < 32767.

Lemma expand_app a b : expand (a ++ b) = expand a ++ expand b.
Proof. unfold expand. apply flat_map_app. Qed.

Lemma levels_ok_app before a b :
  levels_ok before (a ++ b) <-> levels_ok before a /\ levels_ok (before ++ expand a) b.
Proof.
  revert before. induction a as [|t a IH]; intros before.
  - unfold expand; cbn. rewrite app_nil_r. tauto.
  - change ((t :: a) ++ b) with (t :: (a ++ b)). cbn [levels_ok].
    rewrite IH. unfold expand; cbn [flat_map]. rewrite <- app_assoc. tauto.
Qed.

Ltac Zify.zify_post_hook ::= Z.div_mod_to_equations.

Lemma sat_add_small x d : -32768 < sem I16 x + d < 32767 -> 0 <= x < 2 ^ 16 ->
  sem I16 (sat_add_i16 x d) = sem I16 x + d.
Proof.
  intros H Hx. unfold sat_add_i16.
  rewrite Z.max_r by lia. rewrite Z.min_r by lia.
  revert H. unfold sem, enc, modulus; cbn [signed width]. change (2 ^ (16 - 1)) with 32768. change (2 ^ 16) with 65536 in *.
  intros H.
  destruct (Z.ltb_spec x 32768);
    match goal with |- context [?a mod 65536 <? 32768] => destruct (Z.ltb_spec (a mod 65536) 32768) end; lia.
Qed.

Definition entries_ok (tr : list trace_entry) : Prop :=
  Forall (fun t => 0 <= t_level t < 2 ^ 16) tr.

Lemma expand1_length t : 0 <= t_count t -> Z.of_nat (length (expand1 t)) = t_count t.
Proof. intros H. unfold expand1. rewrite repeat_length. lia. Qed.

Lemma maximal_app_one tr last x :
  maximal (tr ++ [last]) -> same_jump last x = false -> maximal ((tr ++ [last]) ++ [x]).
Proof.
  induction tr as [|a tr IH]; intros Hm Hs; cbn in *.
  - split; [exact Hs|exact I].
  - destruct (tr ++ [last]) as [|b r] eqn:E; [destruct tr; discriminate|].
    destruct Hm as [H1 H2]. cbn. split; [exact H1|]. apply IH; assumption.
Qed.

Lemma maximal_replace_last tr last last' :
  maximal (tr ++ [last]) -> t_ip last' = t_ip last -> t_target last' = t_target last ->
  t_variant last' = t_variant last -> maximal (tr ++ [last']).
Proof.
  induction tr as [|a tr IH]; intros Hm E1 E2 E3; cbn in *; [exact I|].
  destruct (tr ++ [last]) as [|b r] eqn:E; [destruct tr; discriminate|].
  destruct Hm as [H1 H2]. specialize (IH H2 E1 E2 E3).
  destruct (tr ++ [last']) as [|b' r'] eqn:E'; [destruct tr; discriminate|].
  split; [|exact IH].
  (* the head of the two lists is the same entry, or last/last' with the same ip/target/variant *)
  destruct tr as [|c tr']; cbn in E, E'.
  - inversion E; inversion E'; subst. unfold same_jump in *. rewrite E1, E2, E3. exact H1.
  - inversion E; inversion E'; subst. exact H1.
Qed.

Lemma expand1_single t : t_count t = 1 ->
  expand1 t = [{| e_ip := t_ip t; e_target := t_target t; e_variant := t_variant t |}].
Proof. intros H. unfold expand1. rewrite H. reflexivity. Qed.

Lemma expand1_bump t :
  1 <= t_count t ->
  expand1 (set_count t (t_count t + 1)) =
  expand1 t ++ [{| e_ip := t_ip t; e_target := t_target t; e_variant := t_variant t |}].
Proof.
  intros H. unfold expand1, set_count. cbn [t_ip t_target t_variant t_count].
  replace (Z.to_nat (t_count t + 1)) with (Z.to_nat (t_count t) + 1)%nat by lia.
  rewrite repeat_app. reflexivity.
Qed.

Theorem add_trace_spec c i target v s :
  let e := {| e_ip := regs s RIP - i_len i; e_target := target; e_variant := v |} in
  0 <= i_len i <= regs s RIP -> regs s RIP < 2 ^ 64 ->
  levels_ok [] (trace s) -> maximal (trace s) -> entries_ok (trace s) ->
  small_depths (expand (trace s) ++ [e]) ->
  Z.of_nat (length (expand (trace s))) + 1 < 2 ^ 64 ->
  exists s', add_trace c i target v s = (Ok tt, s') /\
    s' = set_trace s (trace s') /\
    expand (trace s') = expand (trace s) ++ [e] /\
    levels_ok [] (trace s') /\ maximal (trace s') /\ entries_ok (trace s').
Proof.
  intros e Hlen Hrip Hlv Hmax Hent Hsmall Hmany.
  unfold add_trace.
  assert (Hsub : sub_chk c U64 (regs s RIP) (i_len i) = Ok (regs s RIP - i_len i)).
  { unfold sub_chk.
    assert (R : in_range U64 (sem U64 (regs s RIP) - sem U64 (i_len i)) = true).
    { unfold in_range, sem, modulus; cbn [signed width]. apply andb_true_iff. split; [apply Z.leb_le|apply Z.ltb_lt]; lia. }
    assert (W : wsub U64 (regs s RIP) (i_len i) = regs s RIP - i_len i) by (unfold wsub; apply enc_small; unfold modulus; cbn [width]; lia).
    destruct (ovf c); rewrite ?R, W; reflexivity. }
  rewrite Hsub.
  destruct (rev (trace s)) as [|last before] eqn:Erev.
  - (* empty trace *)
    assert (Et : trace s = []) by (apply (f_equal (@rev _)) in Erev; rewrite rev_involutive in Erev; exact Erev).
    eexists. split; [reflexivity|]. cbn [trace set_trace]. rewrite Et. cbn [app].
    split; [destruct s; cbn in *; subst; reflexivity|].
    split; [unfold expand; cbn; unfold expand1; cbn; reflexivity|].
    split; [cbn; repeat split; try lia; discriminate || auto|].
    split; [exact I|]. constructor; [cbn; lia|constructor].
  - assert (Et : trace s = rev before ++ [last]).
    { apply (f_equal (@rev _)) in Erev. rewrite rev_involutive in Erev. exact Erev. }
    rewrite Et in Hlv, Hmax, Hent, Hsmall, Hmany.
    apply levels_ok_app in Hlv. destruct Hlv as [Hlvb Hlvl]. cbn [levels_ok app] in Hlvl.
    destruct Hlvl as (Hl1 & Hl2 & Hl3 & _).
    apply Forall_app in Hent. destruct Hent as [Hentb Hentl]. inversion Hentl as [|x l0 Hrange _]; subst.
    assert (Hcnt : t_count last + 1 < 2 ^ 64).
    { rewrite expand_app, app_length in Hmany. unfold expand at 2 in Hmany. cbn [flat_map] in Hmany. rewrite app_nil_r in Hmany.
      rewrite Nat2Z.inj_add, expand1_length in Hmany by lia. lia. }
    rewrite expand_app in Hsmall. unfold expand at 2 in Hsmall. cbn [flat_map] in Hsmall. rewrite app_nil_r in Hsmall.
    (* depth facts from small_depths at two prefixes *)
    set (pre := expand (rev before)) in *.
    assert (Hd_all : -32768 < depth (pre ++ expand1 last) < 32767).
    { specialize (Hsmall (length (pre ++ expand1 last))).
      rewrite firstn_app, firstn_all, Nat.sub_diag in Hsmall. cbn [firstn] in Hsmall. rewrite app_nil_r in Hsmall. exact Hsmall. }
    assert (Hd_pre : -32768 < depth pre < 32767).
    { specialize (Hsmall (length pre)).
      rewrite <- app_assoc in Hsmall. rewrite firstn_app, firstn_all, Nat.sub_diag in Hsmall. cbn [firstn] in Hsmall.
      rewrite app_nil_r in Hsmall. exact Hsmall. }
    rewrite depth_app in Hd_all.
    assert (Hpush : forall lvl,
      0 <= lvl < 2 ^ 16 -> sem I16 lvl = depth (pre ++ expand1 last) -> same_jump last {| t_ip := regs s RIP - i_len i; t_target := target; t_variant := v; t_level := lvl; t_count := 1 |} = false ->
      exists s', (Ok tt, set_trace s (trace s ++ [{| t_ip := regs s RIP - i_len i; t_target := target; t_variant := v; t_level := lvl; t_count := 1 |}])) = (Ok tt, s') /\
        s' = set_trace s (trace s') /\ expand (trace s') = expand (trace s) ++ [e] /\
        levels_ok [] (trace s') /\ maximal (trace s') /\ entries_ok (trace s')).
    { intros lvl Hlr Hld Hsj. eexists. split; [reflexivity|]. cbn [trace set_trace].
      split; [destruct s; reflexivity|]. rewrite Et.
      split; [rewrite expand_app; unfold expand at 2; cbn [flat_map]; rewrite app_nil_r; rewrite expand1_single by reflexivity; reflexivity|].
      split.
      - apply levels_ok_app. split.
        + apply levels_ok_app. split; [exact Hlvb|]. cbn [levels_ok app]. repeat split; auto.
        + cbn [levels_ok]. rewrite expand_app. unfold expand at 2. cbn [flat_map]. rewrite app_nil_r. cbn [app].
          fold pre. cbn [t_level t_count t_variant]. split; [exact Hld|]. split; [lia|]. split; [reflexivity|]. exact I.
      - split.
        + apply maximal_app_one; assumption.
        + apply Forall_app. split; [apply Forall_app; split; [exact Hentb|constructor; [assumption|constructor]]|].
          constructor; [cbn; exact Hlr|constructor]. }
    destruct (t_variant last) eqn:Ev.
    + (* after a call: one level deeper *)
      specialize (Hl3 ltac:(discriminate)).
      rewrite (expand1_single last Hl3) in Hd_all. cbn [depth e_variant] in Hd_all. rewrite Ev in Hd_all. cbn [delta] in Hd_all.
      apply Hpush.
      * unfold sat_add_i16, enc, modulus; cbn [width]. apply Z.mod_pos_bound. reflexivity.
      * rewrite sat_add_small by lia. rewrite depth_app, (expand1_single last Hl3). cbn [depth e_variant]. rewrite Ev. cbn [delta]. lia.
      * unfold same_jump. rewrite Ev. cbn. rewrite andb_false_r. reflexivity.
    + specialize (Hl3 ltac:(discriminate)).
      rewrite (expand1_single last Hl3) in Hd_all. cbn [depth e_variant] in Hd_all. rewrite Ev in Hd_all. cbn [delta] in Hd_all.
      apply Hpush.
      * unfold sat_add_i16, enc, modulus; cbn [width]. apply Z.mod_pos_bound. reflexivity.
      * rewrite sat_add_small by lia. rewrite depth_app, (expand1_single last Hl3). cbn [depth e_variant]. rewrite Ev. cbn [delta]. lia.
      * unfold same_jump. rewrite Ev. cbn. rewrite andb_false_r. reflexivity.
    + (* after a jump: merge or append at the same level *)
      assert (Hdj : depth (expand1 last) = 0).
      { unfold expand1. rewrite depth_repeat. cbn [e_variant]. rewrite Ev. cbn. lia. }
      destruct ((t_ip last =? regs s RIP - i_len i) && (t_target last =? target) && tvariant_eqb TJump v) eqn:Esame.
      * apply andb_true_iff in Esame. destruct Esame as [Esame Ev2]. apply andb_true_iff in Esame. destruct Esame as [E1 E2].
        apply Z.eqb_eq in E1. apply Z.eqb_eq in E2. destruct v; try discriminate.
        unfold add_chk.
        assert (R : in_range U64 (sem U64 (t_count last) + sem U64 1) = true).
        { unfold in_range, sem, modulus; cbn [signed width]. apply andb_true_iff. split; [apply Z.leb_le|apply Z.ltb_lt]; lia. }
        assert (W : wadd U64 (t_count last) 1 = t_count last + 1) by (unfold wadd; apply enc_small; unfold modulus; cbn [width]; lia).
        assert (Hres : (if ovf c then if in_range U64 (sem U64 (t_count last) + sem U64 1) then Ok (wadd U64 (t_count last) 1) else Panic PArith
                        else Ok (wadd U64 (t_count last) 1)) = Ok (t_count last + 1)) by (destruct (ovf c); rewrite ?R, W; reflexivity).
        rewrite Hres. eexists. split; [reflexivity|]. cbn [trace set_trace rev].
        split; [destruct s; reflexivity|].
        assert (Ee : e = {| e_ip := t_ip last; e_target := t_target last; e_variant := t_variant last |}).
        { unfold e. rewrite Ev, E1, E2. reflexivity. }
        split.
        { rewrite Et. rewrite !expand_app. unfold expand at 2 4. cbn [flat_map]. rewrite !app_nil_r.
          rewrite expand1_bump by lia. rewrite Ee. rewrite app_assoc. reflexivity. }
        split.
        { apply levels_ok_app. split; [exact Hlvb|]. cbn [levels_ok app]. unfold set_count; cbn [t_level t_count t_variant].
          repeat split; auto; try lia. intros Hn. rewrite Ev in Hn. contradiction. }
        split.
        { eapply maximal_replace_last; [exact Hmax| | |]; reflexivity. }
        { apply Forall_app. split; [exact Hentb|]. constructor; [|constructor]. unfold set_count; cbn.
          exact Hrange. }
      * apply Hpush.
        -- exact Hrange.
        -- rewrite depth_app, Hdj. lia.
        -- unfold same_jump. cbn [t_ip t_target t_variant]. rewrite Ev.
           destruct v; cbn [tvariant_eqb] in *; rewrite ?andb_true_r, ?andb_false_r in *; try reflexivity.
           exact Esame.
Qed.

(* ---- rendering is total ---- *)
From AxV Require Import TraceRender.

Lemma render_entry_indent_total t :
  0 <= t_level t < 2 ^ 16 ->
  render_entry_indent t = Ok (2 * Z.max 0 (sem I16 (t_level t))).
Proof.
  intros H. unfold render_entry_indent, str_repeat_len, cast.
  assert (R : -32768 <= sem I16 (t_level t) < 32768).
  { unfold sem; cbn [signed width]. change (2 ^ (16 - 1)) with 32768. unfold modulus; cbn [width].
    change (2 ^ 16) with 65536 in *. destruct (t_level t <? 32768) eqn:E; lia. }
  set (l := Z.max (sem I16 (t_level t)) 0). assert (Hl : 0 <= l < 32768) by (unfold l; lia).
  assert (E1 : enc I16 l = l) by (apply enc_small; unfold modulus; cbn [width]; change (2 ^ 16) with 65536; lia).
  rewrite E1.
  assert (E2 : sem I16 l = l).
  { unfold sem; cbn [signed width]. change (2 ^ (16 - 1)) with 32768. destruct (Z.ltb_spec l 32768); [reflexivity|lia]. }
  rewrite E2.
  assert (E3 : enc U64 l = l) by (apply enc_small; unfold modulus; cbn [width]; change (2 ^ 64) with 18446744073709551616; lia).
  rewrite E3. change (2 ^ 63) with 9223372036854775808.
  destruct (Z.ltb_spec (2 * l) 9223372036854775808); [|lia]. f_equal. unfold l. lia.
Qed.

Theorem render_trace_total tr :
  entries_ok tr ->
  render_trace_indents tr = Ok (map (fun t => 2 * Z.max 0 (sem I16 (t_level t))) tr).
Proof.
  induction tr as [|t r IH]; intros H; cbn [render_trace_indents map]; [reflexivity|].
  inversion H as [|? ? Ht Hr]; subst. rewrite (render_entry_indent_total t Ht), (IH Hr). reflexivity.
Qed.

Theorem render_stack_total cs : forall k, 0 <= k -> k + Z.of_nat (length cs) < 2 ^ 62 ->
  exists l, render_stack_indents k cs = Ok l /\ length l = length cs.
Proof.
  induction cs as [|x r IH]; intros k Hk Hb; cbn [render_stack_indents].
  - exists []. split; reflexivity.
  - cbn [length] in Hb. unfold str_repeat_len.
    change (2 ^ 63) with 9223372036854775808. change (2 ^ 62) with 4611686018427387904 in Hb.
    destruct (Z.ltb_spec (2 * k) 9223372036854775808); [|lia].
    destruct (IH (k + 1)) as (l & E & L); [lia|change (2 ^ 62) with 4611686018427387904; lia|].
    rewrite E. eexists. split; [reflexivity|]. cbn. rewrite L. reflexivity.
Qed.
