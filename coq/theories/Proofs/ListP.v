(* List lemmas for slice / splice / replace_nth (byte arrays as lists). *)
From Coq Require Import ZArith Bool List Lia.
From AxV Require Import Bits Mem.
Local Open Scope Z_scope.
Import ListNotations.

Lemma zlen_nonneg {A} (l : list A) : 0 <= zlen l.
Proof. unfold zlen. lia. Qed.

Lemma zlen_app {A} (l1 l2 : list A) : zlen (l1 ++ l2) = zlen l1 + zlen l2.
Proof. unfold zlen. rewrite app_length. lia. Qed.

Lemma zlen_repeat {A} (x : A) n : zlen (repeat x n) = Z.of_nat n.
Proof. unfold zlen. rewrite repeat_length. reflexivity. Qed.

Lemma zlen_zeros n : 0 <= n -> zlen (zeros n) = n.
Proof. intros. unfold zeros. rewrite zlen_repeat. lia. Qed.

Lemma slice_length {A} (l : list A) off n :
  0 <= off -> 0 <= n -> off + n <= zlen l -> length (slice l off n) = Z.to_nat n.
Proof.
  intros Ho Hn H. unfold slice, zlen in *. rewrite firstn_length, skipn_length. lia.
Qed.

Lemma nth_error_firstn {A} (l : list A) n i : (i < n)%nat -> nth_error (firstn n l) i = nth_error l i.
Proof.
  revert l i. induction n as [|n IH]; intros l i Hi; [lia|].
  destruct l as [|x l]; [destruct i; reflexivity|]. destruct i as [|i]; [reflexivity|].
  cbn. apply IH. lia.
Qed.

Lemma nth_error_firstn_ge {A} (l : list A) n i : (n <= i)%nat -> nth_error (firstn n l) i = None.
Proof.
  intros H. apply nth_error_None. rewrite firstn_length. lia.
Qed.

Lemma nth_error_skipn {A} (l : list A) n i : nth_error (skipn n l) i = nth_error l (n + i).
Proof.
  revert l. induction n as [|n IH]; intros l; [reflexivity|].
  destruct l as [|x l]; [destruct i; reflexivity|]. cbn. apply IH.
Qed.

Lemma slice_nth {A} (l : list A) off n i :
  0 <= off -> (i < Z.to_nat n)%nat ->
  nth_error (slice l off n) i = nth_error l (Z.to_nat off + i).
Proof.
  intros Ho Hi. unfold slice. rewrite nth_error_firstn by exact Hi. apply nth_error_skipn.
Qed.

Lemma splice_length {A} (l d : list A) off :
  0 <= off -> off + zlen d <= zlen l -> length (splice l off d) = length l.
Proof.
  intros Ho H. unfold splice, zlen in *. rewrite !app_length, firstn_length, skipn_length. lia.
Qed.

Lemma splice_nth {A} (l d : list A) off i :
  0 <= off -> off + zlen d <= zlen l ->
  nth_error (splice l off d) i =
  if (Z.to_nat off <=? i)%nat && (i <? Z.to_nat off + length d)%nat
  then nth_error d (i - Z.to_nat off) else nth_error l i.
Proof.
  intros Ho H. unfold splice, zlen in *.
  destruct (Nat.leb_spec (Z.to_nat off) i) as [Hle|Hlt]; cbn [andb].
  - rewrite nth_error_app2 by (rewrite firstn_length; lia).
    rewrite firstn_length. replace (Nat.min (Z.to_nat off) (length l)) with (Z.to_nat off) by lia.
    destruct (Nat.ltb_spec i (Z.to_nat off + length d)) as [Hi|Hi].
    + apply nth_error_app1. lia.
    + rewrite nth_error_app2 by lia. rewrite nth_error_skipn. f_equal. lia.
  - rewrite nth_error_app1 by (rewrite firstn_length; lia). apply nth_error_firstn. lia.
Qed.

Lemma replace_nth_length {A} (l : list A) k x : length (replace_nth l k x) = length l.
Proof.
  revert k. induction l as [|y l IH]; intros k; [reflexivity|]. destruct k; cbn; [reflexivity|]. f_equal. apply IH.
Qed.

Lemma replace_nth_nth {A} (l : list A) k x j :
  (k < length l)%nat ->
  nth_error (replace_nth l k x) j = if Nat.eqb j k then Some x else nth_error l j.
Proof.
  revert k j. induction l as [|y l IH]; intros k j Hk; [cbn in Hk; lia|].
  destruct k as [|k]; destruct j as [|j]; cbn; try reflexivity.
  apply IH. cbn in Hk. lia.
Qed.

Lemma Forall_nth_error {A} (P : A -> Prop) l i x : Forall P l -> nth_error l i = Some x -> P x.
Proof.
  intros H E. rewrite Forall_forall in H. apply H. eapply nth_error_In. exact E.
Qed.

Lemma Forall_replace_nth {A} (P : A -> Prop) l k x : Forall P l -> P x -> Forall P (replace_nth l k x).
Proof.
  revert k. induction l as [|y l IH]; intros k Hl Hx; [constructor|].
  inversion Hl; subst. destruct k; cbn; constructor; auto.
Qed.

Lemma nth_error_ext_len {A} (l1 l2 : list A) :
  length l1 = length l2 -> (forall i, (i < length l1)%nat -> nth_error l1 i = nth_error l2 i) -> l1 = l2.
Proof.
  revert l2. induction l1 as [|x l1 IH]; intros [|y l2] Hl H; cbn in *; try discriminate; [reflexivity|].
  f_equal.
  - specialize (H O ltac:(lia)). cbn in H. congruence.
  - apply IH; [lia|]. intros i Hi. apply (H (S i)). lia.
Qed.
