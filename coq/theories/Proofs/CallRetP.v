(* C03/C04: CALL rel32 and RET, characterised exactly over the regenerated Gallina: which cell is
   written / read, what RSP and RIP become, what is logged, when the step fails - and their relation
   to the ISA specification (the hardware operation conjugated by RSP + 8, KF-C04-stack-convention). *)
From Coq Require Import ZArith Bool List Lia FunctionalExtensionality.
From AxV Require Import Bits Outcome Codes Iced State Rt Mem Trace BitsP RegFile RegsP ISA MemP ByteStore MovP AluP
  ReadonlyTac QuietTac TraceP CfP StackP RmP.
From AxG Require Import Flags Regs Operand Helpers I_call I_ret.
Local Open Scope Z_scope.
Import ListNotations.
Ltac Zify.zify_post_hook ::= Z.div_mod_to_equations.

(* equality of everything a guest can observe: registers, vector registers, flags, segment bases, memory *)
Definition same_data (a b : mstate) : Prop :=
  regs a = regs b /\ xmms a = xmms b /\ rflags a = rflags b /\ fs a = fs b /\ gs a = gs b /\ mem a = mem b.

Lemma store_data n a v s s1 : store n a v s = Some s1 ->
  regs s1 = regs s /\ xmms s1 = xmms s /\ rflags s1 = rflags s /\ fs s1 = fs s /\ gs s1 = gs s /\
  trace s1 = trace s /\ call_stack s1 = call_stack s.
Proof.
  unfold store, mem_write_bytes.
  destruct (find_area_idx (mem s) a) as [k|]; [|discriminate].
  destruct (nth_error (mem s) k) as [ar|]; [|discriminate].
  repeat match goal with |- context [if ?c then _ else _] => destruct c end; try discriminate;
    inversion 1; subst; repeat split.
Qed.

Section Call.
  Variables (c : cfg) (i : instr) (s : mstate).
  Hypothesis Ec : i_code i = C_Call_rel32_64.
  Hypothesis K0 : i_op0_kind i = OK_NearBranch64.
  Hypothesis Hnb : 0 <= i_near_branch64 i < 2 ^ 64.
  Hypothesis HI : Inv (mem s).
  Hypothesis Hpre : pre i s.

  Let tgt := i_near_branch64 i.

  (* CALL rel32: the return address (RIP, already advanced) is stored at the OLD stack pointer,
     RSP decreases by 8 (wrapping), RIP becomes the target, one call event is logged and the target
     is pushed on the call stack; if the store is refused the step fails and nothing changes *)
  Theorem call_rel32_exact :
    match emu_push 8 (regs s RIP) s with
    | Some s1 => exists s', instr_call_rel32_64 c i s = (Ok tt, s') /\
                            same_data s' (set_rip s1 tgt) /\ recorded i s s' TCall
    | None => exists e, instr_call_rel32_64 c i s = (Err e, s)
    end.
  Proof.
    unfold instr_call_rel32_64. rewrite Ec, K0. cbn [code_eqb].
    unfold debug_assert_that, assert_that.
    assert (D : lift (if dbg c then if true then Ok tt else Panic PAssert else Ok tt) s = (Ok tt, s)) by (unfold lift; destruct (dbg c); reflexivity).
    rewrite (bind_ok _ _ _ _ _ D). cbv zeta. rewrite (cast_u64_i64_u64 _ Hnb). fold tgt.
    rewrite !bind_assoc.
    rewrite (bind_ok _ _ _ _ _ (rr64_rip c s)). rewrite !bind_assoc.
    rewrite (bind_ok _ _ _ _ _ (rr64_rsp c s)). rewrite !bind_assoc.
    unfold emu_push, store.
    destruct (write_never_panics (regs s RSP) (le_bytes 8 (regs s RIP)) s HI) as [[s1 E]|[e E]]; rewrite E.
    - assert (E' : mem_write_64 (regs s RSP) (regs s RIP) s = (Ok tt, s1)) by (rewrite typed_write_64_is_le; exact E).
      assert (SD : store 8 (regs s RSP) (regs s RIP) s = Some s1) by (unfold store; rewrite E; reflexivity).
      destruct (store_data _ _ _ _ _ SD) as (D1 & D2 & D3 & D4 & D5 & D6 & D7).
      rewrite (bind_ok _ _ _ _ _ E'). rewrite !bind_assoc. rewrite (bind_ok _ _ _ _ _ (rw64_rsp c _ s1)).
      rewrite (bind_ok _ _ _ _ _ (eq_refl : ret tt _ = (Ok tt, _))).
      set (s2 := set_regs s1 (upd (regs s1) RSP (wsub U64 (regs s RSP) 8))).
      assert (T2 : trace s2 = trace s) by exact D6.
      assert (R2 : regs s2 RIP = regs s RIP) by (unfold s2; cbn [regs set_regs]; rewrite D1; reflexivity).
      destruct (record_from c i tgt TCall s s2 Hpre T2 R2) as (s3 & E3 & Es3 & X & W1 & W2 & W3).
      unfold trace_call. rewrite (bind_ok _ _ _ _ _ E3). rewrite (bind_ok _ _ _ _ _ (rw64_rip c _ s3)).
      unfold bind, call_stack_push, ret. eexists. split; [reflexivity|]. split.
      + unfold same_data, set_rip. cbn [regs xmms rflags fs gs mem set_regs set_call_stack].
        rewrite Es3. cbn [regs xmms rflags fs gs mem set_trace]. unfold s2. cbn [regs xmms rflags fs gs mem set_regs].
        repeat split.
      + unfold recorded. cbn [regs set_regs set_call_stack trace call_stack]. rewrite upd_same.
        split; [exact X|]. split; [repeat split; assumption|].
        rewrite Es3. cbn [call_stack set_trace]. unfold s2. cbn [call_stack set_regs]. rewrite D7. reflexivity.
    - exists e.
      assert (E' : mem_write_64 (regs s RSP) (regs s RIP) s = (Err e, s)) by (rewrite typed_write_64_is_le; exact E).
      unfold bind. rewrite E'. reflexivity.
  Qed.
End Call.

Section Ret.
  Variables (c : cfg) (i : instr) (s : mstate).
  Hypothesis Ec : i_code i = C_Retnq.
  Hypothesis HI : Inv (mem s).
  Hypothesis Hpre : pre i s.

  Let a := (regs s RSP + 8) mod 2 ^ 64.

  (* RET: the return address is loaded from RSP+8 (the cell CALL wrote), RSP becomes RSP+8
     (wrapping), RIP the loaded value; one return event is logged and the call stack popped.  A
     return whose new stack pointer equals the initial stack top ends the program (Err EFinish is
     turned into "finished" by the step).  If the load is refused the step fails, nothing changes. *)
  Theorem ret_exact :
    if a =? stack_top s then instr_retnq c i s = (Err EFinish, s)
    else match emu_pop 8 s with
         | Some (v, s1) => exists s', instr_retnq c i s = (Ok tt, s') /\
                                      same_data s' (set_rip s1 v) /\ recorded i s s' TReturn
         | None => exists e, instr_retnq c i s = (Err e, s)
         end.
  Proof.
    unfold instr_retnq. rewrite Ec. cbn [code_eqb].
    unfold debug_assert_that, assert_that.
    assert (D : lift (if dbg c then if true then Ok tt else Panic PAssert else Ok tt) s = (Ok tt, s)) by (unfold lift; destruct (dbg c); reflexivity).
    rewrite (bind_ok _ _ _ _ _ D).
    rewrite (bind_ok _ _ _ _ _ (rr64_rsp c s)). cbv zeta.
    rewrite (bind_ok _ _ _ _ _ (eq_refl : get_stack_top s = (Ok (stack_top s), s))).
    change (wadd U64 (regs s RSP) 8) with a.
    destruct (a =? stack_top s); [reflexivity|].
    unfold emu_pop. change ((regs s RSP + Z.of_nat 8) mod 2 ^ 64) with a. cbv zeta. unfold load. change mem_read_64 with (mem_read_n 8).
    destruct (RmP.mem_read_n_cases 8 a s HI) as [(v & E & R)|(e & E)]; rewrite E.
    - rewrite (bind_ok _ _ _ _ _ E).
      set (s2 := match rev (call_stack s) with [] => s | _ :: r => set_call_stack s (rev r) end).
      assert (P : call_stack_pop s = (Ok (match rev (call_stack s) with [] => None | x :: _ => Some x end), s2)).
      { unfold s2, call_stack_pop. destruct (rev (call_stack s)); reflexivity. }
      rewrite (bind_ok _ _ _ _ _ P).
      assert (T2 : trace s2 = trace s) by (unfold s2; destruct (rev (call_stack s)); reflexivity).
      assert (R2 : regs s2 RIP = regs s RIP) by (unfold s2; destruct (rev (call_stack s)); reflexivity).
      assert (DD : regs s2 = regs s /\ xmms s2 = xmms s /\ rflags s2 = rflags s /\ fs s2 = fs s /\ gs s2 = gs s /\ mem s2 = mem s)
        by (unfold s2; destruct (rev (call_stack s)); repeat split).
      destruct DD as (D1 & D2 & D3 & D4 & D5 & D6).
      assert (C2 : call_stack s2 = removelast (call_stack s)).
      { unfold s2. destruct (rev (call_stack s)) as [|x r] eqn:Er.
        - assert (H : call_stack s = []) by (rewrite <- (rev_involutive (call_stack s)), Er; reflexivity).
          rewrite H. reflexivity.
        - cbn [call_stack set_call_stack]. apply (rev_removelast _ x). exact Er. }
      destruct (record_from c i v TReturn s s2 Hpre T2 R2) as (s3 & E3 & Es3 & X & W1 & W2 & W3).
      unfold trace_return. rewrite (bind_ok _ _ _ _ _ E3). rewrite (bind_ok _ _ _ _ _ (rw64_rip c _ s3)).
      rewrite (bind_ok _ _ _ _ _ (rw64_rsp c _ _)). unfold ret. eexists. split; [reflexivity|]. split.
      + unfold same_data, set_rip. cbn [regs xmms rflags fs gs mem set_regs].
        rewrite Es3. cbn [regs xmms rflags fs gs mem set_trace]. rewrite D1, D2, D3, D4, D5, D6.
        repeat split. apply functional_extensionality. intros q. unfold upd.
        destruct (reg_eqb RSP q) eqn:Q1; destruct (reg_eqb RIP q) eqn:Q2; try reflexivity.
        destruct q; discriminate.
      + unfold recorded. cbn [regs set_regs trace call_stack].
        assert (U : upd (upd (regs s3) RIP v) RSP a RIP = v) by reflexivity. rewrite U.
        split; [exact X|]. split; [repeat split; assumption|].
        rewrite Es3. cbn [call_stack set_trace]. exact C2.
    - exists e. unfold bind. rewrite E. reflexivity.
  Qed.
End Ret.

(* ---- relation to the ISA specification: the hardware CALL / RET conjugated by RSP + 8 ---- *)
Lemma same_data_shift_rip sh d t : same_data (set_rip (shift d sh) t) (shift d (set_rip sh t)).
Proof.
  unfold same_data, set_rip, shift. cbn [regs xmms rflags fs gs mem set_regs]. repeat split.
  apply functional_extensionality. intros q. unfold upd.
  destruct (reg_eqb RIP q) eqn:Q1; destruct (reg_eqb RSP q) eqn:Q2; try reflexivity.
  destruct q; discriminate.
Qed.

Lemma same_data_trans a b c0 : same_data a b -> same_data b c0 -> same_data a c0.
Proof.
  intros (A1 & A2 & A3 & A4 & A5 & A6) (B1 & B2 & B3 & B4 & B5 & B6).
  repeat split; etransitivity; eassumption.
Qed.

Section CallSpec.
  Variables (c : cfg) (i : instr) (s : mstate).
  Hypothesis Ec : i_code i = C_Call_rel32_64.
  Hypothesis K0 : i_op0_kind i = OK_NearBranch64.
  Hypothesis Hnb : 0 <= i_near_branch64 i < 2 ^ 64.
  Hypothesis Hcan : canonical (i_near_branch64 i) = true.
  Hypothesis Hwf : wf_regs s.
  Hypothesis HI : Inv (mem s).
  Hypothesis Hpre : pre i s.

  (* run the CPU's CALL on the state with RSP+8; move RSP back by 8 afterwards: that is what the
     emulator computes (registers, flags, memory) - plus the control-flow log *)
  Theorem call_rel32_is_conjugated_hardware :
    match isa_exec SCallRel i (shift 8 s) with
    | IDone sh _ => exists s', instr_call_rel32_64 c i s = (Ok tt, s') /\ same_data s' (shift (-8) sh) /\ recorded i s s' TCall
    | IFault FStack => exists e, instr_call_rel32_64 c i s = (Err e, s)
    | IFault _ => False
    end.
  Proof.
    pose proof (call_rel32_exact c i s Ec K0 Hnb HI Hpre) as X.
    cbn [isa_exec]. rewrite Hcan. cbn [negb].
    assert (RIPs : regs (shift 8 s) RIP = regs s RIP) by reflexivity. rewrite RIPs.
    rewrite (emu_push_is_conjugate 8 (regs s RIP) s (Hwf RSP)) in X.
    change (Z.of_nat 8) with 8 in X.
    destruct (push_val 8 (regs s RIP) (shift 8 s)) as [sh1|]; cbn [option_map] in X; [|exact X].
    destruct X as (s' & E & SD & R). exists s'. split; [exact E|]. split; [|exact R].
    eapply same_data_trans; [exact SD|]. apply same_data_shift_rip.
  Qed.
End CallSpec.

Section RetSpec.
  Variables (c : cfg) (i : instr) (s : mstate).
  Hypothesis Ec : i_code i = C_Retnq.
  Hypothesis Hwf : wf_regs s.
  Hypothesis HI : Inv (mem s).
  Hypothesis Hpre : pre i s.
  Hypothesis Hnf : ((regs s RSP + 8) mod 2 ^ 64 =? stack_top s) = false.   (* not the final return *)

  (* the CPU's RET (pop the target, jump) on the state with RSP+8, RSP moved back by 8 afterwards.
     The target is not checked for canonicity (KF-C03-noncanonical-target): [set_rip] here where the
     specification has [branch_to]. *)
  Theorem ret_is_conjugated_hardware :
    match pop_val 8 (shift 8 s) with
    | Some (t, sh1) => exists s', instr_retnq c i s = (Ok tt, s') /\ same_data s' (shift (-8) (set_rip sh1 t)) /\ recorded i s s' TReturn
    | None => exists e, instr_retnq c i s = (Err e, s)
    end.
  Proof.
    pose proof (ret_exact c i s Ec HI Hpre) as X. cbv zeta in X. rewrite Hnf in X.
    rewrite (emu_pop_is_conjugate 8 s (Hwf RSP)) in X. change (Z.of_nat 8) with 8 in X.
    destruct (pop_val 8 (shift 8 s)) as [[t sh1]|]; cbn [option_map] in X; [|exact X].
    destruct X as (s' & E & SD & R). exists s'. split; [exact E|]. split; [|exact R].
    eapply same_data_trans; [exact SD|]. apply same_data_shift_rip.
  Qed.
End RetSpec.

(* ---- JMP r/m64 (indirect), exactly ---- *)
From AxG Require Import I_jmp.

Lemma jump_tail_exact c i tgt s :
  pre i s ->
  exists s', (trace_jump c i tgt;;; reg_write_64 c RIP tgt;;; ret tt)%M s = (Ok tt, s') /\
             same_data s' (set_rip s tgt) /\ recorded i s s' TJump.
Proof.
  intros Hpre. destruct (record_from c i tgt TJump s s Hpre eq_refl eq_refl) as (s1 & E & Es1 & X & W1 & W2 & W3).
  eexists. unfold bind, trace_jump. rewrite E. rewrite rw64_rip. cbn [ret]. split; [reflexivity|]. split.
  - unfold same_data, set_rip. cbn [regs xmms rflags fs gs mem set_regs]. rewrite Es1. cbn [regs xmms rflags fs gs mem set_trace].
    repeat split.
  - unfold recorded. cbn [regs set_regs trace call_stack]. rewrite upd_same.
    split; [exact X|]. split; [repeat split; assumption|]. rewrite Es1. reflexivity.
Qed.

Section JmpRm.
  Variables (c : cfg) (i : instr) (s : mstate).
  Hypothesis Ec : i_code i = C_Jmp_rm64.
  Hypothesis Hwf : wf_regs s.
  Hypothesis HI : Inv (mem s).
  Hypothesis Hn : 0 < i_op_count i.
  Hypothesis Hs0 : rm64_shape i 0.
  Hypothesis Hpre : pre i s.

  (* the target is the 64-bit register or the eight bytes at the operand's address; RIP takes it, one
     jump event is logged, nothing else changes; an unreadable operand fails the step and changes
     nothing.  (No canonicity check: KF-C03-noncanonical-target.) *)
  Theorem jmp_rm64_exact :
    match read_op i 0 64 s with
    | Some t => exists s', instr_jmp_rm64 c i s = (Ok tt, s') /\ same_data s' (set_rip s t) /\ recorded i s s' TJump
    | None => exists e, instr_jmp_rm64 c i s = (Err e, s)
    end.
  Proof.
    unfold instr_jmp_rm64. rewrite Ec.
    rewrite (bind_ok _ _ _ _ _ (dbg_code_ok c s _ eq_refl)).
    rewrite <- (bind_assoc (instruction_operand c i 0)). fold (read_rm64 c i 0).
    pose proof (read_rm64_spec c i s 0 Hwf HI ltac:(lia) Hs0) as RD.
    destruct (read_op i 0 64 s) as [t|]; [destruct RD as [RD Ht]|destruct RD as [e RD]].
    - rewrite (bind_ok _ _ _ _ _ RD). exact (jump_tail_exact c i t s Hpre).
    - exists e. rewrite (bind_err _ _ _ _ _ RD). reflexivity.
  Qed.

  (* against the specification: the same, minus the #GP on a non-canonical target *)
  Theorem jmp_rm64_refines :
    match isa_exec SJmpRm i s with
    | IDone s1 _ => exists s', instr_jmp_rm64 c i s = (Ok tt, s') /\ same_data s' s1 /\ recorded i s s' TJump
    | IFault FMem => exists e, instr_jmp_rm64 c i s = (Err e, s)
    | IFault FBranch => True          (* known finding: the emulator completes the jump *)
    | IFault _ => False
    end.
  Proof.
    pose proof jmp_rm64_exact as X. cbn [isa_exec]. destruct (read_op i 0 64 s) as [t|]; [|exact X].
    unfold branch_to. destruct (canonical t); [exact X|exact I].
  Qed.
End JmpRm.

(* ---- CALL r/m64 (indirect), exactly ---- *)
Lemma call_tail_exact c i tgt s :
  Inv (mem s) -> pre i s ->
  let F := (_ <- (v_rip <- (reg_read_64 c RIP) ;;
                  v_rsp <- (reg_read_64 c RSP) ;;
                  _ <- (mem_write_64 v_rsp v_rip) ;;
                  _ <- (reg_write_64 c RSP (wsub U64 v_rsp 8)) ;;
                  ret (tt)) ;;
            _ <- (trace_call c i tgt) ;;
            _ <- (reg_write_64 c RIP tgt) ;;
            _ <- (call_stack_push tgt) ;;
            ret (tt))%M in
  match emu_push 8 (regs s RIP) s with
  | Some s1 => exists s', F s = (Ok tt, s') /\ same_data s' (set_rip s1 tgt) /\ recorded i s s' TCall
  | None => exists e, F s = (Err e, s)
  end.
Proof.
  intros HI Hpre. cbv zeta. rewrite !bind_assoc.
  rewrite (bind_ok _ _ _ _ _ (rr64_rip c s)). rewrite !bind_assoc.
  rewrite (bind_ok _ _ _ _ _ (rr64_rsp c s)). rewrite !bind_assoc.
  unfold emu_push, store.
  destruct (write_never_panics (regs s RSP) (le_bytes 8 (regs s RIP)) s HI) as [[s1 E]|[e E]]; rewrite E.
  - assert (E' : mem_write_64 (regs s RSP) (regs s RIP) s = (Ok tt, s1)) by (rewrite typed_write_64_is_le; exact E).
    assert (SD : store 8 (regs s RSP) (regs s RIP) s = Some s1) by (unfold store; rewrite E; reflexivity).
    destruct (store_data _ _ _ _ _ SD) as (D1 & D2 & D3 & D4 & D5 & D6 & D7).
    rewrite (bind_ok _ _ _ _ _ E'). rewrite !bind_assoc. rewrite (bind_ok _ _ _ _ _ (rw64_rsp c _ s1)).
    rewrite (bind_ok _ _ _ _ _ (eq_refl : ret tt _ = (Ok tt, _))).
    set (s2 := set_regs s1 (upd (regs s1) RSP (wsub U64 (regs s RSP) 8))).
    assert (T2 : trace s2 = trace s) by exact D6.
    assert (R2 : regs s2 RIP = regs s RIP) by (unfold s2; cbn [regs set_regs]; rewrite D1; reflexivity).
    destruct (record_from c i tgt TCall s s2 Hpre T2 R2) as (s3 & E3 & Es3 & X & W1 & W2 & W3).
    unfold trace_call. rewrite (bind_ok _ _ _ _ _ E3). rewrite (bind_ok _ _ _ _ _ (rw64_rip c _ s3)).
    unfold bind, call_stack_push, ret. eexists. split; [reflexivity|]. split.
    + unfold same_data, set_rip. cbn [regs xmms rflags fs gs mem set_regs set_call_stack].
      rewrite Es3. cbn [regs xmms rflags fs gs mem set_trace]. unfold s2. cbn [regs xmms rflags fs gs mem set_regs].
      repeat split.
    + unfold recorded. cbn [regs set_regs set_call_stack trace call_stack]. rewrite upd_same.
      split; [exact X|]. split; [repeat split; assumption|].
      rewrite Es3. cbn [call_stack set_trace]. unfold s2. cbn [call_stack set_regs]. rewrite D7. reflexivity.
  - exists e.
    assert (E' : mem_write_64 (regs s RSP) (regs s RIP) s = (Err e, s)) by (rewrite typed_write_64_is_le; exact E).
    unfold bind. rewrite E'. reflexivity.
Qed.

Section CallRm.
  Variables (c : cfg) (i : instr) (s : mstate).
  Hypothesis Ec : i_code i = C_Call_rm64.
  Hypothesis Hwf : wf_regs s.
  Hypothesis HI : Inv (mem s).
  Hypothesis Hn : 0 < i_op_count i.
  Hypothesis Hs0 : rm64_shape i 0.
  Hypothesis Hpre : pre i s.

  (* the target is read first (an unreadable operand fails the step with nothing changed), then the
     call proceeds as CALL rel32 does *)
  Theorem call_rm64_exact :
    match read_op i 0 64 s with
    | Some t =>
        match emu_push 8 (regs s RIP) s with
        | Some s1 => exists s', instr_call_rm64 c i s = (Ok tt, s') /\ same_data s' (set_rip s1 t) /\ recorded i s s' TCall
        | None => exists e, instr_call_rm64 c i s = (Err e, s)
        end
    | None => exists e, instr_call_rm64 c i s = (Err e, s)
    end.
  Proof.
    unfold instr_call_rm64. rewrite Ec.
    rewrite (bind_ok _ _ _ _ _ (dbg_code_ok c s _ eq_refl)).
    rewrite <- (bind_assoc (instruction_operand c i 0)). fold (read_rm64 c i 0).
    pose proof (read_rm64_spec c i s 0 Hwf HI ltac:(lia) Hs0) as RD.
    destruct (read_op i 0 64 s) as [t|]; [destruct RD as [RD Ht]|destruct RD as [e RD]].
    - rewrite (bind_ok _ _ _ _ _ RD). exact (call_tail_exact c i t s HI Hpre).
    - exists e. rewrite (bind_err _ _ _ _ _ RD). reflexivity.
  Qed.
End CallRm.

(* ---- PUSH imm32 / PUSH imm8 (sign-extended to 64 bits by the decoder), exactly ---- *)
From AxG Require Import I_push.

Section PushImm.
  Variables (c : cfg) (i : instr) (s : mstate).
  Hypothesis HI : Inv (mem s).

  Lemma push64_tail v :
    (exists s', emu_push 8 v s = Some s' /\
       (v_rsp <- reg_read_64 c RSP;; _ <- mem_write_64 v_rsp v;; _ <- reg_write_64 c RSP (wsub U64 v_rsp 8);; ret tt)%M s = (Ok tt, s')) \/
    (emu_push 8 v s = None /\ exists e,
       (v_rsp <- reg_read_64 c RSP;; _ <- mem_write_64 v_rsp v;; _ <- reg_write_64 c RSP (wsub U64 v_rsp 8);; ret tt)%M s = (Err e, s)).
  Proof.
    rewrite (bind_ok _ _ _ _ _ (rr64_rsp c s)). unfold emu_push, store.
    destruct (write_never_panics (regs s RSP) (le_bytes 8 v) s HI) as [[s1 E]|[e E]].
    - left. rewrite E. eexists. split; [reflexivity|].
      assert (E' : mem_write_64 (regs s RSP) v s = (Ok tt, s1)) by (rewrite typed_write_64_is_le; exact E).
      rewrite (bind_ok _ _ _ _ _ E'). rewrite (bind_ok _ _ _ _ _ (rw64_rsp c _ s1)). unfold ret. reflexivity.
    - right. rewrite E. split; [reflexivity|]. exists e.
      assert (E' : mem_write_64 (regs s RSP) v s = (Err e, s)) by (rewrite typed_write_64_is_le; exact E).
      unfold bind. rewrite E'. reflexivity.
  Qed.

  Theorem pushq_imm32_exact :
    i_code i = C_Pushq_imm32 -> i_op0_kind i = OK_Immediate32to64 -> 0 <= i_immediate32to64 i < 2 ^ 64 ->
    let v := i_immediate32to64 i in
    (exists s', emu_push 8 v s = Some s' /\ instr_pushq_imm64 c i s = (Ok tt, s')) \/
    (emu_push 8 v s = None /\ exists e, instr_pushq_imm64 c i s = (Err e, s)).
  Proof.
    intros Ec K R v. unfold instr_pushq_imm64. rewrite Ec, K.
    rewrite (bind_ok _ _ _ _ _ (dbg_code_ok c s _ eq_refl)). cbv zeta.
    assert (E : cast I64 U64 (i_immediate32to64 i) = v).
    { unfold v, cast, Bits.sem, enc, modulus; cbn [signed width]. change (2 ^ (64 - 1)) with 9223372036854775808.
      change (2 ^ 64) with 18446744073709551616 in *. destruct (i_immediate32to64 i <? 9223372036854775808); lia. }
    rewrite E.
    destruct (push64_tail v) as [(s' & P & T)|(P & e & T)].
    - left. exists s'. split; [exact P|]. rewrite (bind_ok _ _ _ _ _ T). reflexivity.
    - right. split; [exact P|]. exists e. unfold bind at 1. rewrite T. reflexivity.
  Qed.

  Theorem pushq_imm8_exact :
    i_code i = C_Pushq_imm8 -> i_op0_kind i = OK_Immediate8to64 -> 0 <= i_immediate8to64 i < 2 ^ 64 ->
    let v := i_immediate8to64 i in
    (exists s', emu_push 8 v s = Some s' /\ instr_pushq_imm8 c i s = (Ok tt, s')) \/
    (emu_push 8 v s = None /\ exists e, instr_pushq_imm8 c i s = (Err e, s)).
  Proof.
    intros Ec K R v. unfold instr_pushq_imm8. rewrite Ec, K.
    rewrite (bind_ok _ _ _ _ _ (dbg_code_ok c s _ eq_refl)). cbv zeta.
    assert (E : cast I64 U64 (i_immediate8to64 i) = v).
    { unfold v, cast, Bits.sem, enc, modulus; cbn [signed width]. change (2 ^ (64 - 1)) with 9223372036854775808.
      change (2 ^ 64) with 18446744073709551616 in *. destruct (i_immediate8to64 i <? 9223372036854775808); lia. }
    rewrite E.
    destruct (push64_tail v) as [(s' & P & T)|(P & e & T)].
    - left. exists s'. split; [exact P|]. rewrite (bind_ok _ _ _ _ _ T). reflexivity.
    - right. split; [exact P|]. exists e. unfold bind at 1. rewrite T. reflexivity.
  Qed.
End PushImm.

(* ---- PUSH r16 / POP r16, exactly (operand-size prefix: two bytes, RSP moves by 2) ---- *)
From AxG Require Import I_pop.
From AxV Require Import MovxP.

Lemma sup_of_gpr16 r : is_gpr16 r = true -> sup_of_iced r = Ok r.
Proof. intros H. unfold sup_of_iced. destruct r; try discriminate H; reflexivity. Qed.

Section Stack16.
  Variables (c : cfg) (i : instr) (s : mstate).
  Hypothesis Hwf : wf_regs s.
  Hypothesis HI : Inv (mem s).
  Hypothesis Hr : is_gpr16 (i_op0_register i) = true.

  Let r := i_op0_register i.

  (* POP r16: two bytes are loaded from RSP+2 (nothing beyond them is touched - the step succeeds whenever
     those two bytes are readable), the low 16 bits of the destination are replaced, RSP becomes RSP+2 *)
  Theorem pop_r16_exact :
    i_code i = C_Pop_r16 ->
    match emu_pop 2 s with
    | Some (v, _) =>
        instr_pop_r16 c i s = (Ok tt, set_regs s (upd (rf_write (regs s) r v) RSP ((regs s RSP + 2) mod 2 ^ 64)))
    | None => exists e, instr_pop_r16 c i s = (Err e, s)
    end.
  Proof.
    intros Ec. unfold instr_pop_r16. rewrite Ec.
    rewrite (bind_ok _ _ _ _ _ (dbg_code_ok c s _ eq_refl)).
    assert (S1 : lift (sup_of_iced (i_op0_register i)) s = (Ok r, s)) by (unfold lift, r; rewrite sup_of_gpr16 by exact Hr; reflexivity).
    rewrite (bind_ok _ _ _ _ _ S1). rewrite (bind_ok _ _ _ _ _ (rr64_rsp c s)). cbv zeta.
    unfold emu_pop, load. change (wadd U64 (regs s RSP) 2) with ((regs s RSP + 2) mod 2 ^ 64).
    change (Z.of_nat 2) with 2. change mem_read_16 with (mem_read_n 2).
    destruct (RmP.mem_read_n_cases 2 ((regs s RSP + 2) mod 2 ^ 64) s HI) as [(v & E & R)|(e & E)]; rewrite E.
    - rewrite (bind_ok _ _ _ _ _ E).
      assert (Rv : 0 <= v < 2 ^ 16) by exact R.
      rewrite (bind_ok _ _ _ _ _ (reg_write_16_ok c r v s Hwf Hr Rv)).
      rewrite (bind_ok _ _ _ _ _ (rw64_rsp c _ _)). unfold ret. cbn [regs set_regs]. rewrite set_regs_set_regs. reflexivity.
    - exists e. unfold bind. rewrite E. reflexivity.
  Qed.

  (* PUSH r16: the 16-bit register value is stored in two bytes at the old RSP, RSP becomes RSP-2 *)
  Theorem push_r16_exact :
    i_code i = C_Push_r16 ->
    let v := rf_read (regs s) r in
    (exists s', emu_push 2 v s = Some s' /\ instr_push_r16 c i s = (Ok tt, s')) \/
    (emu_push 2 v s = None /\ exists e, instr_push_r16 c i s = (Err e, s)).
  Proof.
    intros Ec v. unfold instr_push_r16. rewrite Ec.
    rewrite (bind_ok _ _ _ _ _ (dbg_code_ok c s _ eq_refl)).
    assert (S1 : lift (sup_of_iced (i_op0_register i)) s = (Ok r, s)) by (unfold lift, r; rewrite sup_of_gpr16 by exact Hr; reflexivity).
    rewrite (bind_ok _ _ _ _ _ S1).
    rewrite (bind_ok _ _ _ _ _ (reg_read_16_ok c r s Hwf Hr)). fold v.
    rewrite (bind_ok _ _ _ _ _ (rr64_rsp c s)).
    assert (Rv : 0 <= v < 2 ^ 16) by (apply rf_read_range16; exact Hr).
    unfold emu_push, store.
    destruct (write_never_panics (regs s RSP) (le_bytes 2 v) s HI) as [[s1 E]|[e E]].
    - left. rewrite E. eexists. split; [reflexivity|].
      assert (E' : mem_write_16 (regs s RSP) v s = (Ok tt, s1)) by (rewrite typed_write_16_is_le by exact Rv; exact E).
      rewrite (bind_ok _ _ _ _ _ E'). rewrite (bind_ok _ _ _ _ _ (rw64_rsp c _ s1)). unfold ret. reflexivity.
    - right. rewrite E. split; [reflexivity|]. exists e.
      assert (E' : mem_write_16 (regs s RSP) v s = (Err e, s)) by (rewrite typed_write_16_is_le by exact Rv; exact E).
      unfold bind. rewrite E'. reflexivity.
  Qed.
End Stack16.

(* PUSH imm16 *)
Theorem push_imm16_exact c i s :
  Inv (mem s) -> i_code i = C_Push_imm16 -> 0 <= i_immediate16 i < 2 ^ 16 ->
  let v := i_immediate16 i in
  (exists s', emu_push 2 v s = Some s' /\ instr_push_imm16 c i s = (Ok tt, s')) \/
  (emu_push 2 v s = None /\ exists e, instr_push_imm16 c i s = (Err e, s)).
Proof.
  intros HI Ec R v. unfold instr_push_imm16. rewrite Ec.
  rewrite (bind_ok _ _ _ _ _ (dbg_code_ok c s _ eq_refl)). cbv zeta.
  assert (E : cast U16 U64 (i_immediate16 i) = v).
  { unfold v, cast, Bits.sem, enc, modulus; cbn [signed width]. change (2 ^ 16) with 65536 in *.
    change (2 ^ 64) with 18446744073709551616. rewrite ?(Z.mod_small (i_immediate16 i) 65536) by lia. rewrite ?Z.mod_small by lia. reflexivity. }
  rewrite E. rewrite (bind_ok _ _ _ _ _ (rr64_rsp c s)).
  unfold emu_push, store.
  destruct (write_never_panics (regs s RSP) (le_bytes 2 v) s HI) as [[s1 W]|[e W]].
  - left. rewrite W. eexists. split; [reflexivity|].
    assert (E' : mem_write_16 (regs s RSP) v s = (Ok tt, s1)) by (rewrite typed_write_16_is_le by exact R; exact W).
    rewrite (bind_ok _ _ _ _ _ E'). rewrite (bind_ok _ _ _ _ _ (rw64_rsp c _ s1)). unfold ret. reflexivity.
  - right. rewrite W. split; [reflexivity|]. exists e.
    assert (E' : mem_write_16 (regs s RSP) v s = (Err e, s)) by (rewrite typed_write_16_is_le by exact R; exact W).
    unfold bind. rewrite E'. reflexivity.
Qed.
