(* Refinement of the ISA specification by the generated instruction model (C01-C06, C19).
   Built family by family. *)
From Coq Require Import ZArith Bool List Lia.
From AxV Require Import Bits Outcome Codes Iced State Rt Mem Trace BitsP RegFile ISA CodeSem.
Local Open Scope Z_scope.

(* the 16 condition codes on all 64 combinations of the status flags they read, against the
   architecture's table written with explicit flag tests: an exhaustive check lifted to every
   rflags value by masking *)
Definition cond_sdm (c : cc) (cf pf zf sf of_ : bool) : bool :=
  match c with
  | CC_O => of_ | CC_NO => negb of_ | CC_B => cf | CC_AE => negb cf | CC_E => zf | CC_NE => negb zf
  | CC_BE => cf || zf | CC_A => negb cf && negb zf | CC_S => sf | CC_NS => negb sf
  | CC_P => pf | CC_NP => negb pf | CC_L => negb (Bool.eqb sf of_) | CC_GE => Bool.eqb sf of_
  | CC_LE => zf || negb (Bool.eqb sf of_) | CC_G => negb zf && Bool.eqb sf of_
  end.

Lemma cond_matches_sdm c rf :
  cond c rf = cond_sdm c (flag rf CF) (flag rf PF) (flag rf ZF) (flag rf SF) (flag rf OF).
Proof.
  unfold cond. destruct c, (flag rf CF), (flag rf PF), (flag rf ZF), (flag rf SF), (flag rf OF); reflexivity.
Qed.
