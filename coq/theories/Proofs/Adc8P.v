(* C02: ADC at 8 bits (r8 <- r/m8; r/m8 <- r8; r/m8 <- imm8; the accumulator short form), register or memory
   destination.  Adc32P.v and the 32-bit half of AdcImmP.v at a quarter of the width (textual transformation, checked by Coq). *)
From Coq Require Import ZArith Bool List Lia.
From AxV Require Import Bits Outcome Codes Iced State Rt Mem Trace BitsP ByteStore MemP RegFile RegsP ISA CodeSem ReadonlyTac
  OperandP FlagsP CfP MovP RmP AluP AluRmP AluMemP MovxP Alu8P AluImm8P AdcP.
From AxG Require Import Flags Regs Operand Helpers I_adc.
Local Open Scope Z_scope.
Ltac Zify.zify_post_hook ::= Z.div_mod_to_equations.

Lemma cast_u8_u16_id v : 0 <= v < 2 ^ 8 -> cast U8 U16 v = v.
Proof. intros H. unfold cast, Bits.sem, enc, modulus; cbn [signed width]. change (2 ^ 8) with 256 in *. change (2 ^ 16) with 65536.
  rewrite ?(Z.mod_small v 256) by lia. rewrite ?Z.mod_small by lia. reflexivity. Qed.

Lemma adc8_closure d sv (cin : bool) :
  0 <= d < 2 ^ 8 -> 0 <= sv < 2 ^ 8 ->
  (let v_result := wadd U16 (wadd U16 (cast U8 U16 d) (cast U8 U16 sv)) (of_bool cin) in
   (cast U16 U8 v_result,
    Z.lor (if negb (Z.land v_result 128 =? Z.land (cast U8 U16 d) 128) &&
              negb (Z.land v_result 128 =? Z.land (cast U8 U16 sv) 128)
           then FLAG_OF else 0)
          (if negb (Z.land v_result 256 =? 0) then FLAG_CF else 0)))
  = (let cz := if cin then 1 else 0 in
     ((d + sv + cz) mod 2 ^ 8,
      Z.lor (b2f (negb (fits_signed 8 (sgn 8 d + sgn 8 sv + cz))) FLAG_OF) (b2f (2 ^ 8 <=? d + sv + cz) FLAG_CF))).
Proof.
  intros Hd Hs. cbv zeta. rewrite (cast_u8_u16_id d Hd), (cast_u8_u16_id sv Hs).
  set (cz := if cin then 1 else 0). assert (Hc : 0 <= cz <= 1) by (unfold cz; destruct cin; lia).
  assert (OB : of_bool cin = cz) by (unfold cz; destruct cin; reflexivity). rewrite OB.
  assert (W : wadd U16 (wadd U16 d sv) cz = d + sv + cz).
  { unfold wadd, enc, modulus; cbn [width]. change (2 ^ 16) with 65536.
    change (2 ^ 8) with 256 in *. rewrite (Z.mod_small (d + sv)) by lia. apply Z.mod_small. lia. }
  rewrite W. set (R := d + sv + cz).
  assert (HR : 0 <= R < 2 ^ 9) by (unfold R; change (2 ^ 9) with 512; change (2 ^ 8) with 256 in *; lia).
  assert (C64 : cast U16 U8 R = R mod 2 ^ 8).
  { unfold cast, Bits.sem, enc, modulus; cbn [signed width]. reflexivity. }
  rewrite C64. set (r := R mod 2 ^ 8). assert (Hr : 0 <= r < 2 ^ 8) by (apply Z.mod_pos_bound; reflexivity).
  change 128 with (2 ^ 7). change 256 with (2 ^ 8).
  (* bit 63 of the 65-bit sum is bit 63 of the truncated sum *)
  assert (B63 : Z.land R (2 ^ 7) = Z.land r (2 ^ 7)).
  { apply Z.bits_inj'. intros k Hk. rewrite !Z.land_spec. destruct (Z.eq_dec k 7) as [->|N].
    - unfold r. rewrite Z.mod_pow2_bits_low by lia. reflexivity.
    - rewrite Z.pow2_bits_false by lia. rewrite !andb_false_r. reflexivity. }
  rewrite B63.
  rewrite (land_signbit r 7), (land_signbit d 7), (land_signbit sv 7) by (try lia; assumption).
  rewrite (land_signbit R 8) by (try lia; exact HR).
  f_equal. f_equal.
  - unfold fits_signed, sgn. change (2 ^ (8 - 1)) with (2 ^ 7). unfold r, R in *.
    change (2 ^ 7) with 128 in *. change (2 ^ 8) with 256 in *.
    change (2 ^ 9) with 512 in *.
    destruct (Z.leb_spec 128 ((d + sv + cz) mod 256));
      destruct (Z.leb_spec 128 d); destruct (Z.leb_spec 128 sv);
      destruct (Z.ltb_spec d 128); destruct (Z.ltb_spec sv 128); try lia;
      cbn [Z.eqb negb andb b2f];
      match goal with |- context [(?a <=? ?b) && (?x <? ?y)] => destruct (Z.leb_spec a b); destruct (Z.ltb_spec x y) end;
      cbn [negb andb b2f]; try reflexivity; lia.
  - destruct (2 ^ 8 <=? R); reflexivity.
Qed.

Section Adc8Forms.
  Variables (c : cfg) (i : instr) (s : mstate).
  Hypothesis Hwf : wf_regs s.
  Hypothesis HI : Inv (mem s).
  Hypothesis Hrf : 0 <= rflags s < 2 ^ 64.
  Hypothesis Hn : i_op_count i = 2.

  Let cin := flag (rflags s) CF.
  Let cz := if cin then 1 else 0.

  (* ADC r32, r/m32 *)
  Theorem adc_r8_rm8_refines :
    i_op_kind i 0 = OK_Register -> is_gpr8 (i_op_register i 0) = true -> rm8_shape i 1 ->
    i_code i = C_Adc_r8_rm8 -> rmw8_refines i s ADC (instr_adc_r8_rm8 c i s).
  Proof.
    intros K0 H0 Hs1 Ec. unfold rmw8_refines, instr_adc_r8_rm8. rewrite Ec.
    rewrite (bind_ok _ _ _ _ _ (dbg_code_ok c s _ eq_refl)).
    rewrite (bind_ok _ _ _ _ _ (eq_refl : get_rflags s = (Ok (rflags s), s))).
    cbn [isa_exec]. unfold exec_alu. unfold read_op at 1. rewrite K0. rewrite rf_read_mod8 by exact H0.
    match goal with |- context [calculate_r_rm_8f c i ?op ?fs ?fc s] =>
      pose proof (calc_r_rm_8f_shape c i s Hwf HI Hn K0 H0 Hs1 op fs fc) as SH end.
    destruct (read_op i 1 8 s) as [sv|]; [|destruct SH as [e SH]; exists e, 0; left; exact SH]. destruct SH as [Hsv SH].
    set (d := rf_read (regs s) (i_op_register i 0)) in *.
    assert (Hd : 0 <= d < 2 ^ 8) by (apply rf_read_range8; exact H0).
    change (negb (Z.land (rflags s) FLAG_CF =? 0)) with cin in *.
    set (cfb := 2 ^ 8 <=? d + sv + cz). set (ofb := negb (fits_signed 8 (sgn 8 d + sgn 8 sv + cz))).
    assert (Hfl : Z.land (Z.lor (b2f ofb FLAG_OF) (b2f cfb FLAG_CF)) NO_WRITEBACK = 0) by (destruct ofb, cfb; reflexivity).
    rewrite (SH _ _ (f_equal Ok (adc8_closure d sv cin Hd Hsv)) Hfl).
    change (Z.lor (Z.lor (Z.lor FLAG_SF FLAG_ZF) FLAG_PF) (Z.lor (b2f ofb FLAG_OF) (b2f cfb FLAG_CF))) with (arith_fs cfb ofb).
    change (Z.lor FLAG_OF FLAG_CF) with 2049.
    rewrite (bind_ok _ _ _ _ _ (set_flags_u8_arith c cfb ofb _ s Hrf)).
    change (Z.land (Z.lor (Z.lor FLAG_SF FLAG_ZF) FLAG_PF) NO_WRITEBACK =? 0) with true. cbv iota.
    cbv zeta. rewrite cast_u8_u64_id by (apply Z.mod_pos_bound; reflexivity).
    rewrite reg_write_8_ok by (first [exact Hwf|exact H0|apply Z.mod_pos_bound; reflexivity]).
    cbn [alu]. fold cin. fold cz. fold cfb ofb. unfold write_op. rewrite K0. cbn [opt_done]. split; reflexivity.
  Qed.

  (* ADC r/m32, r32 (register or memory destination) *)
  Theorem adc_rm8_r8_refines :
    rm8_shape i 0 -> i_op_kind i 1 = OK_Register -> is_gpr8 (i_op_register i 1) = true ->
    i_code i = C_Adc_rm8_r8 -> rmw8_refines i s ADC (instr_adc_rm8_r8 c i s).
  Proof.
    intros Hs0 K1 H1 Ec. unfold rmw8_refines, instr_adc_rm8_r8. rewrite Ec.
    rewrite (bind_ok _ _ _ _ _ (dbg_code_ok c s _ eq_refl)).
    rewrite (bind_ok _ _ _ _ _ (eq_refl : get_rflags s = (Ok (rflags s), s))).
    cbn [isa_exec]. unfold exec_alu. unfold read_op at 2. rewrite K1. rewrite rf_read_mod8 by exact H1.
    match goal with |- context [calculate_rm_r_8f c i ?op ?fs ?fc s] =>
      pose proof (calc_rm_r_8f_shape c i s Hwf HI Hn K1 H1 op fs fc Hs0) as SH end.
    destruct (read_op i 0 8 s) as [d|]; [|destruct SH as [e SH]; exists e, 0; left; exact SH]. destruct SH as [Hd SH].
    set (sv := rf_read (regs s) (i_op_register i 1)) in *.
    assert (Hsv : 0 <= sv < 2 ^ 8) by (apply rf_read_range8; exact H1).
    change (negb (Z.land (rflags s) FLAG_CF =? 0)) with cin in *.
    set (cfb := 2 ^ 8 <=? d + sv + cz). set (ofb := negb (fits_signed 8 (sgn 8 d + sgn 8 sv + cz))).
    assert (Hfl : Z.land (Z.lor (b2f ofb FLAG_OF) (b2f cfb FLAG_CF)) NO_WRITEBACK = 0) by (destruct ofb, cfb; reflexivity).
    rewrite (SH _ _ (f_equal Ok (adc8_closure d sv cin Hd Hsv)) Hfl).
    change (Z.lor (Z.lor (Z.lor FLAG_SF FLAG_ZF) FLAG_PF) (Z.lor (b2f ofb FLAG_OF) (b2f cfb FLAG_CF))) with (arith_fs cfb ofb).
    change (Z.lor FLAG_OF FLAG_CF) with 2049.
    rewrite (bind_ok _ _ _ _ _ (set_flags_u8_arith c cfb ofb _ s Hrf)).
    change (Z.land (Z.lor (Z.lor FLAG_SF FLAG_ZF) FLAG_PF) NO_WRITEBACK =? 0) with true. cbv iota.
    cbv zeta. cbn [alu]. fold cin. fold cz. fold cfb ofb.
    assert (Hres : 0 <= (d + sv + cz) mod 2 ^ 8 < 2 ^ 8) by (apply Z.mod_pos_bound; reflexivity).
    match goal with |- context [dest_write8 c i ?res (with_flags s ?mk ?bits)] =>
      pose proof (dest_write8_spec c i s Hwf HI Hn Hs0 (set_status (rflags s) mk bits) res Hres) as ST;
      cbv zeta in ST; fold (with_flags s mk bits) in ST;
      destruct (write_op i 0 8 res (with_flags s mk bits)) as [s2|];
      [rewrite ST; cbn [opt_done]; split; reflexivity
      |destruct ST as [e ST]; rewrite ST; cbn [opt_done]; exists e; eexists; right; reflexivity]
    end.
  Qed.
  Theorem adc_rm8_imm8_refines :
    rm8_shape i 0 -> imm8_shape i -> rmw8_refines i s ADC (instr_adc_rm8_imm8 c i s).
  Proof.
    intros Hs0 Him. unfold rmw8_refines, instr_adc_rm8_imm8.
    rewrite (bind_ok _ _ _ _ _ (eq_refl : get_rflags s = (Ok (rflags s), s))).
    cbn [isa_exec]. unfold exec_alu.
    match goal with |- context [calculate_rm_imm_8f c i ?op ?fs ?fc s] =>
      destruct (calc_rm_imm_8f_shape c i s Hwf HI Hn Hs0 Him op fs fc) as (v & RV & Hv & SH) end.
    rewrite RV.
    destruct (read_op i 0 8 s) as [d|]; [|destruct SH as [e SH]; exists e, 0; left; exact SH]. destruct SH as [Hd SH].
    change (negb (Z.land (rflags s) FLAG_CF =? 0)) with cin in *.
    set (cfb := 2 ^ 8 <=? d + v + cz). set (ofb := negb (fits_signed 8 (sgn 8 d + sgn 8 v + cz))).
    assert (Hfl : Z.land (Z.lor (b2f ofb FLAG_OF) (b2f cfb FLAG_CF)) NO_WRITEBACK = 0) by (destruct ofb, cfb; reflexivity).
    rewrite (SH _ _ (f_equal Ok (adc8_closure d v cin Hd Hv)) Hfl).
    change (Z.lor (Z.lor (Z.lor FLAG_SF FLAG_ZF) FLAG_PF) (Z.lor (b2f ofb FLAG_OF) (b2f cfb FLAG_CF))) with (arith_fs cfb ofb).
    change (Z.lor FLAG_OF FLAG_CF) with 2049.
    rewrite (bind_ok _ _ _ _ _ (set_flags_u8_arith c cfb ofb _ s Hrf)).
    change (Z.land (Z.lor (Z.lor FLAG_SF FLAG_ZF) FLAG_PF) NO_WRITEBACK =? 0) with true. cbv iota zeta.
    cbn [alu]. fold cin. fold cz. fold cfb ofb.
    assert (Hres : 0 <= (d + v + cz) mod 2 ^ 8 < 2 ^ 8) by (apply Z.mod_pos_bound; reflexivity).
    match goal with |- context [dest_write8 c i ?res (with_flags s ?mk ?bits)] =>
      pose proof (dest_write8_spec c i s Hwf HI Hn Hs0 (set_status (rflags s) mk bits) res Hres) as ST;
      cbv zeta in ST; fold (with_flags s mk bits) in ST;
      destruct (write_op i 0 8 res (with_flags s mk bits)) as [s2|];
      [rewrite ST; cbn [opt_done]; split; reflexivity
      |destruct ST as [e ST]; rewrite ST; cbn [opt_done]; exists e; eexists; right; reflexivity]
    end.
  Qed.

  Theorem adc_al_imm8_refines :
    rm8_shape i 0 -> imm8_shape i -> i_code i = C_Adc_AL_imm8 -> rmw8_refines i s ADC (instr_adc_al_imm8 c i s).
  Proof.
    intros Hs0 Him Ec. unfold instr_adc_al_imm8. rewrite Ec. rewrite (bind_ok _ _ _ _ _ (dbg_code_ok c s _ eq_refl)).
    exact (adc_rm8_imm8_refines Hs0 Him).
  Qed.

  Theorem adc_rm8_imm8_82_refines :
    rm8_shape i 0 -> imm8_shape i -> i_code i = C_Adc_rm8_imm8_82 -> rmw8_refines i s ADC (instr_adc_rm8_imm8_82 c i s).
  Proof.
    intros Hs0 Him Ec. unfold instr_adc_rm8_imm8_82. rewrite Ec. rewrite (bind_ok _ _ _ _ _ (dbg_code_ok c s _ eq_refl)).
    exact (adc_rm8_imm8_refines Hs0 Him).
  Qed.
End Adc8Forms.
