(* C02: ADC r/m64, imm32 and RAX, imm32; ADC r/m32, imm32 and EAX, imm32 (register or memory destination). *)
From Coq Require Import ZArith Bool List Lia.
From AxV Require Import Bits Outcome Codes Iced State Rt Mem Trace BitsP ByteStore MemP RegFile RegsP ISA CodeSem ReadonlyTac
  OperandP FlagsP CfP MovP RmP AluP AluRmP AluMemP Alu32P AluImmP AluImm32P AdcP Adc32P.
From AxG Require Import Flags Regs Operand Helpers I_adc.
Local Open Scope Z_scope.
Ltac Zify.zify_post_hook ::= Z.div_mod_to_equations.

Section AdcImm.
  Variables (c : cfg) (i : instr) (s : mstate).
  Hypothesis Hwf : wf_regs s.
  Hypothesis HI : Inv (mem s).
  Hypothesis Hrf : 0 <= rflags s < 2 ^ 64.
  Hypothesis Hn : i_op_count i = 2.

  Let cin := flag (rflags s) CF.
  Let cz := if cin then 1 else 0.

  Theorem adc_rm64_imm32_refines :
    rm64_shape i 0 -> imm64_shape i -> adc_refines i s (instr_adc_rm64_imm32 c i s).
  Proof.
    intros Hs0 Him. unfold adc_refines, instr_adc_rm64_imm32.
    rewrite (bind_ok _ _ _ _ _ (eq_refl : get_rflags s = (Ok (rflags s), s))).
    cbn [isa_exec]. unfold exec_alu.
    match goal with |- context [calculate_rm_imm_64f c i ?op ?fs ?fc s] =>
      destruct (calc_rm_imm_64f_shape c i s Hwf HI Hn Hs0 Him op fs fc) as (v & RV & Hv & SH) end.
    rewrite RV.
    destruct (read_op i 0 64 s) as [d|]; [|destruct SH as [e SH]; exists e, 0; left; exact SH]. destruct SH as [Hd SH].
    change (negb (Z.land (rflags s) FLAG_CF =? 0)) with cin in *.
    set (cfb := 2 ^ 64 <=? d + v + cz). set (ofb := negb (fits_signed 64 (sgn 64 d + sgn 64 v + cz))).
    assert (Hfl : Z.land (Z.lor (b2f ofb FLAG_OF) (b2f cfb FLAG_CF)) NO_WRITEBACK = 0) by (destruct ofb, cfb; reflexivity).
    rewrite (SH _ _ (f_equal Ok (adc64_closure d v cin Hd Hv)) Hfl).
    change (Z.lor (Z.lor (Z.lor FLAG_SF FLAG_ZF) FLAG_PF) (Z.lor (b2f ofb FLAG_OF) (b2f cfb FLAG_CF))) with (arith_fs cfb ofb).
    change (Z.lor FLAG_OF FLAG_CF) with 2049.
    rewrite (bind_ok _ _ _ _ _ (set_flags_u64_arith c cfb ofb _ s Hrf)).
    change (Z.land (Z.lor (Z.lor FLAG_SF FLAG_ZF) FLAG_PF) NO_WRITEBACK =? 0) with true. cbv iota zeta.
    cbn [alu]. fold cin. fold cz. fold cfb ofb.
    match goal with |- context [dest_write64 c i ?res (with_flags s ?mk ?bits)] =>
      pose proof (dest_write64_spec c i s Hwf HI Hn Hs0 (set_status (rflags s) mk bits) res) as ST;
      cbv zeta in ST; fold (with_flags s mk bits) in ST;
      destruct (write_op i 0 64 res (with_flags s mk bits)) as [s2|];
      [rewrite ST; cbn [opt_done]; split; reflexivity
      |destruct ST as [e ST]; rewrite ST; cbn [opt_done]; exists e; eexists; right; reflexivity]
    end.
  Qed.

  Theorem adc_rax_imm32_refines :
    rm64_shape i 0 -> imm64_shape i -> i_code i = C_Adc_RAX_imm32 -> adc_refines i s (instr_adc_rax_imm32 c i s).
  Proof.
    intros Hs0 Him Ec. unfold instr_adc_rax_imm32. rewrite Ec. rewrite (bind_ok _ _ _ _ _ (dbg_code_ok c s _ eq_refl)).
    exact (adc_rm64_imm32_refines Hs0 Him).
  Qed.

  Theorem adc_rm32_imm32_refines :
    rm32_shape i 0 -> imm32_shape i -> rmw32_refines i s ADC (instr_adc_rm32_imm32 c i s).
  Proof.
    intros Hs0 Him. unfold rmw32_refines, instr_adc_rm32_imm32.
    rewrite (bind_ok _ _ _ _ _ (eq_refl : get_rflags s = (Ok (rflags s), s))).
    cbn [isa_exec]. unfold exec_alu.
    match goal with |- context [calculate_rm_imm_32f c i ?op ?fs ?fc s] =>
      destruct (calc_rm_imm_32f_shape c i s Hwf HI Hn Hs0 Him op fs fc) as (v & RV & Hv & SH) end.
    rewrite RV.
    destruct (read_op i 0 32 s) as [d|]; [|destruct SH as [e SH]; exists e, 0; left; exact SH]. destruct SH as [Hd SH].
    change (negb (Z.land (rflags s) FLAG_CF =? 0)) with cin in *.
    set (cfb := 2 ^ 32 <=? d + v + cz). set (ofb := negb (fits_signed 32 (sgn 32 d + sgn 32 v + cz))).
    assert (Hfl : Z.land (Z.lor (b2f ofb FLAG_OF) (b2f cfb FLAG_CF)) NO_WRITEBACK = 0) by (destruct ofb, cfb; reflexivity).
    rewrite (SH _ _ (f_equal Ok (adc32_closure d v cin Hd Hv)) Hfl).
    change (Z.lor (Z.lor (Z.lor FLAG_SF FLAG_ZF) FLAG_PF) (Z.lor (b2f ofb FLAG_OF) (b2f cfb FLAG_CF))) with (arith_fs cfb ofb).
    change (Z.lor FLAG_OF FLAG_CF) with 2049.
    rewrite (bind_ok _ _ _ _ _ (set_flags_u32_arith c cfb ofb _ s Hrf)).
    change (Z.land (Z.lor (Z.lor FLAG_SF FLAG_ZF) FLAG_PF) NO_WRITEBACK =? 0) with true. cbv iota zeta.
    cbn [alu]. fold cin. fold cz. fold cfb ofb.
    assert (Hres : 0 <= (d + v + cz) mod 2 ^ 32 < 2 ^ 32) by (apply Z.mod_pos_bound; reflexivity).
    match goal with |- context [dest_write32 c i ?res (with_flags s ?mk ?bits)] =>
      pose proof (dest_write32_spec c i s Hwf HI Hn Hs0 (set_status (rflags s) mk bits) res Hres) as ST;
      cbv zeta in ST; fold (with_flags s mk bits) in ST;
      destruct (write_op i 0 32 res (with_flags s mk bits)) as [s2|];
      [rewrite ST; cbn [opt_done]; split; reflexivity
      |destruct ST as [e ST]; rewrite ST; cbn [opt_done]; exists e; eexists; right; reflexivity]
    end.
  Qed.

  Theorem adc_eax_imm32_refines :
    rm32_shape i 0 -> imm32_shape i -> i_code i = C_Adc_EAX_imm32 -> rmw32_refines i s ADC (instr_adc_eax_imm32 c i s).
  Proof.
    intros Hs0 Him Ec. unfold instr_adc_eax_imm32. rewrite Ec. rewrite (bind_ok _ _ _ _ _ (dbg_code_ok c s _ eq_refl)).
    exact (adc_rm32_imm32_refines Hs0 Him).
  Qed.
End AdcImm.
