(* The frame of instruction execution: the components of the machine that no
   generated function (instruction semantics, helpers, register API, flags)
   can change.  [framed m] is closed under the monad operations; the lemmas
   for the generated definitions are emitted by ax2coq (gen/Frame.v) and proved
   by [framed_tac]. *)
From Coq Require Import ZArith Bool List Lia.
From AxV Require Import Bits Outcome Codes Iced State Rt Mem Trace ByteStore.
Local Open Scope Z_scope.

Definition frame (s s' : mstate) : Prop :=
  icount s' = icount s /\ max_instr s' = max_instr s /\ code_end s' = code_end s /\
  hooks_running s' = hooks_running s /\ finished s' = finished s /\ sys s' = sys s /\
  stack_top s' = stack_top s /\ symbols s' = symbols s /\ hooked s' = hooked s /\
  layout (mem s') = layout (mem s).

Lemma frame_refl s : frame s s.
Proof. repeat split. Qed.

Lemma frame_trans a b c : frame a b -> frame b c -> frame a c.
Proof. unfold frame. intros (A1&A2&A3&A4&A5&A6&A7&A8&A9&A10) (B1&B2&B3&B4&B5&B6&B7&B8&B9&B10).
  repeat split; congruence. Qed.

Definition framed {A} (m : MM A) : Prop := forall s, frame s (snd (m s)).

Lemma framed_ret {A} (a : A) : framed (ret a).
Proof. intros s. apply frame_refl. Qed.
Lemma framed_lift {A} (x : outcome A) : framed (lift x).
Proof. intros s. apply frame_refl. Qed.
Lemma framed_fail {A} e : framed (@fail mstate A e).
Proof. intros s. apply frame_refl. Qed.
Lemma framed_panic {A} p : framed (@panic mstate A p).
Proof. intros s. apply frame_refl. Qed.

Lemma framed_bind {A B} (m : MM A) (f : A -> MM B) :
  framed m -> (forall a, framed (f a)) -> framed (bind m f).
Proof.
  intros Hm Hf s. unfold bind. specialize (Hm s).
  destruct (m s) as [[a|e|p|] s1]; cbn [snd] in *; try exact Hm.
  eapply frame_trans; [exact Hm|apply Hf].
Qed.

Lemma framed_expect_m {A} (m : MM A) : framed m -> framed (expect_m m).
Proof.
  intros Hm s. unfold expect_m. specialize (Hm s). destruct (m s) as [[a|e|p|] s1]; exact Hm.
Qed.

(* primitives of Rt *)
Lemma framed_get_rflags : framed get_rflags. Proof. intros s; apply frame_refl. Qed.
Lemma framed_put_rflags v : framed (put_rflags v). Proof. intros s; repeat split. Qed.
Lemma framed_get_fs : framed get_fs. Proof. intros s; apply frame_refl. Qed.
Lemma framed_get_gs : framed get_gs. Proof. intros s; apply frame_refl. Qed.
Lemma framed_put_fs v : framed (put_fs v). Proof. intros s; repeat split. Qed.
Lemma framed_put_gs v : framed (put_gs v). Proof. intros s; repeat split. Qed.
Lemma framed_get_stack_top : framed get_stack_top. Proof. intros s; apply frame_refl. Qed.
Lemma framed_get_finished : framed get_finished. Proof. intros s; apply frame_refl. Qed.
Lemma framed_regs_get r : framed (regs_get r). Proof. intros s; apply frame_refl. Qed.
Lemma framed_regs_insert r v : framed (regs_insert r v). Proof. intros s; repeat split. Qed.
Lemma framed_xmm_get r : framed (xmm_get r). Proof. intros s; apply frame_refl. Qed.
Lemma framed_xmm_insert r v : framed (xmm_insert r v). Proof. intros s; repeat split. Qed.
Lemma framed_call_stack_push v : framed (call_stack_push v). Proof. intros s; repeat split. Qed.
Lemma framed_call_stack_pop : framed call_stack_pop.
Proof. intros s. unfold call_stack_pop. destruct (rev (call_stack s)); cbn; repeat split. Qed.
Lemma framed_has_mnemonic_hooks m : framed (has_mnemonic_hooks m). Proof. intros s; apply frame_refl. Qed.

(* memory accessors: contents may change, the layout never does *)
Lemma framed_mem_read_bytes a n : framed (mem_read_bytes a n).
Proof.
  intros s. unfold mem_read_bytes. destruct (find_area (mem s) a); [|apply frame_refl].
  repeat match goal with |- context [if ?c then _ else _] => destruct c end; apply frame_refl.
Qed.

Lemma layout_replace_nth m k ar ar' :
  nth_error m k = Some ar -> shape ar' = shape ar -> layout (Mem.replace_nth m k ar') = layout m.
Proof.
  revert k. induction m as [|x m IH]; intros k H E; [destruct k; discriminate|].
  destruct k; cbn in *.
  - inversion H; subst. rewrite E. reflexivity.
  - f_equal. eapply IH; eauto.
Qed.

Lemma framed_mem_write_bytes a d : framed (mem_write_bytes a d).
Proof.
  intros s. unfold mem_write_bytes. destruct (find_area_idx (mem s) a) as [k|]; [|apply frame_refl].
  destruct (nth_error (mem s) k) as [ar|] eqn:E; [|apply frame_refl].
  repeat match goal with |- context [if ?c then _ else _] => destruct c end; try apply frame_refl.
  cbn. repeat split. eapply layout_replace_nth; eauto.
Qed.

Lemma framed_mem_read_n n a : framed (mem_read_n n a).
Proof.
  intros s. unfold mem_read_n. pose proof (framed_mem_read_bytes a (Z.of_nat n) s) as H.
  destruct (mem_read_bytes a (Z.of_nat n) s) as [[l|e|p|] s1]; exact H.
Qed.
Lemma framed_mem_read_8 a : framed (mem_read_8 a). Proof. apply framed_mem_read_n. Qed.
Lemma framed_mem_read_16 a : framed (mem_read_16 a). Proof. apply framed_mem_read_n. Qed.
Lemma framed_mem_read_32 a : framed (mem_read_32 a). Proof. apply framed_mem_read_n. Qed.
Lemma framed_mem_read_64 a : framed (mem_read_64 a). Proof. apply framed_mem_read_n. Qed.
Lemma framed_mem_read_128 a : framed (internal_mem_read_128 a). Proof. apply framed_mem_read_n. Qed.
Lemma framed_mem_write_64 a v : framed (mem_write_64 a v). Proof. apply framed_mem_write_bytes. Qed.
Lemma framed_mem_write_128 a v : framed (internal_mem_write_128 a v). Proof. apply framed_mem_write_bytes. Qed.
Lemma framed_mem_write_32 a v : framed (mem_write_32 a v).
Proof. unfold mem_write_32. destruct (v <=? 4294967295); [apply framed_mem_write_bytes|apply framed_fail]. Qed.
Lemma framed_mem_write_16 a v : framed (mem_write_16 a v).
Proof. unfold mem_write_16. destruct (v <=? 65535); [apply framed_mem_write_bytes|apply framed_fail]. Qed.
Lemma framed_mem_write_8 a v : framed (mem_write_8 a v).
Proof. unfold mem_write_8. destruct (v <=? 255); [apply framed_mem_write_bytes|apply framed_fail]. Qed.

(* trace recording only touches the trace *)
Lemma framed_add_trace c i t v : framed (add_trace c i t v).
Proof.
  intros s. unfold add_trace.
  destruct (sub_chk c U64 (regs s RIP) (i_len i)) as [ip|e|p|]; try apply frame_refl.
  destruct (rev (trace s)) as [|last before]; [cbn; repeat split|].
  destruct (t_variant last); [cbn; repeat split|cbn; repeat split|].
  destruct ((t_ip last =? ip) && (t_target last =? t) && tvariant_eqb TJump v); [|cbn; repeat split].
  destruct (add_chk c U64 (t_count last) 1); try apply frame_refl. cbn; repeat split.
Qed.
Lemma framed_trace_call c i t : framed (trace_call c i t). Proof. apply framed_add_trace. Qed.
Lemma framed_trace_return c i t : framed (trace_return c i t). Proof. apply framed_add_trace. Qed.
Lemma framed_trace_jump c i t : framed (trace_jump c i t). Proof. apply framed_add_trace. Qed.

Create HintDb framedb discriminated.
#[export] Hint Constants Opaque : framedb.
#[export] Hint Variables Opaque : framedb.
#[export] Hint Resolve framed_ret framed_lift framed_fail framed_panic framed_expect_m
  framed_get_rflags framed_put_rflags framed_get_fs framed_get_gs framed_put_fs framed_put_gs
  framed_get_stack_top framed_get_finished framed_regs_get framed_regs_insert framed_xmm_get framed_xmm_insert
  framed_call_stack_push framed_call_stack_pop framed_has_mnemonic_hooks
  framed_mem_read_8 framed_mem_read_16 framed_mem_read_32 framed_mem_read_64 framed_mem_read_128
  framed_mem_write_8 framed_mem_write_16 framed_mem_write_32 framed_mem_write_64 framed_mem_write_128
  framed_trace_call framed_trace_return framed_trace_jump : framedb.

Ltac framed_step :=
  match goal with
  | |- framed (bind _ _) => apply framed_bind; [|intros]
  | |- framed (let x := _ in _) => intro
  | |- framed (let '(_, _) := ?x in _) => destruct x
  | |- framed (if ?c then _ else _) => destruct c
  | |- framed (match ?x with _ => _ end) => destruct x
  | |- framed _ => solve [auto with framedb]
  | |- forall _, _ => intro
  end.

Ltac framed_tac := cbv zeta; repeat framed_step.
