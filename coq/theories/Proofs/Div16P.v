(* C01/C06/C19: DIV r/m16 (DX:AX / r/m16) and DIV r/m8 (AX / r/m8) against the ISA specification: quotient and
   remainder, #DE on a zero divisor or a quotient that does not fit, an unreadable operand fails the step;
   nothing changes on any failure. *)
From Coq Require Import ZArith Bool List Lia.
From AxV Require Import Bits Outcome Codes Iced State Rt Mem Trace BitsP ByteStore MemP RegFile RegsP ISA CodeSem ReadonlyTac
  OperandP FlagsP CfP MovP RmP AluP AluRmP Alu32P MovxP Alu16P Alu8P DivP Div32P MulP.
From AxG Require Import Flags Regs Operand Helpers I_div I_idiv.
Local Open Scope Z_scope.
Ltac Zify.zify_post_hook ::= Z.div_mod_to_equations.

Section Div16.
  Variables (c : cfg) (i : instr) (s : mstate).
  Hypothesis Hwf : wf_regs s.
  Hypothesis HI : Inv (mem s).
  Hypothesis Hn : i_op_count i = 1.
  Hypothesis Hs : rm16_shape i 0.

  Theorem div_rm16_refines :
    i_code i = C_Div_rm16 ->
    match isa_exec (SDiv 16) i s with
    | IDone s' _ => instr_div_rm16 c i s = (Ok tt, s')
    | IFault FDivide => instr_div_rm16 c i s = (Err EDivZero, s)
    | IFault FMem => exists e, instr_div_rm16 c i s = (Err e, s)
    | IFault _ => False
    end.
  Proof.
    intros Ec. unfold instr_div_rm16. rewrite Ec.
    rewrite (bind_ok _ _ _ _ _ (dbg_code_ok c s _ eq_refl)).
    rewrite <- (bind_assoc (instruction_operand c i 0)). fold (read_rm16 c i 0).
    cbn [isa_exec]. unfold exec_div.
    pose proof (read_rm16_spec c i s 0 Hwf HI ltac:(lia) Hs) as RD.
    destruct (read_op i 0 16 s) as [d|]; [destruct RD as [RD Hd]|destruct RD as [e RD]];
      [|eexists; rewrite (bind_err _ _ _ _ _ RD); reflexivity].
    rewrite (bind_ok _ _ _ _ _ RD). cbv beta zeta.
    rewrite (um_cast U32 16 ltac:(lia) eq_refl d Hd).
    destruct (Z.eqb_spec d 0) as [Zr|NZ]; [reflexivity|].
    rewrite (bind_ok _ _ _ _ _ (reg_read_16_ok c AX s Hwf eq_refl)).
    rewrite (bind_ok _ _ _ _ _ (reg_read_16_ok c DX s Hwf eq_refl)).
    change (acc 16) with AX. change (hi_reg 16) with DX. change (16 =? 8) with false. cbv iota.
    set (lo := rf_read (regs s) AX). set (hi := rf_read (regs s) DX).
    assert (Hlo : 0 <= lo < 2 ^ 16) by (apply rf_read_range16; reflexivity).
    assert (Hhi : 0 <= hi < 2 ^ 16) by (apply rf_read_range16; reflexivity).
    rewrite (um_cast U32 16 ltac:(lia) eq_refl lo Hlo), (um_cast U32 16 ltac:(lia) eq_refl hi Hhi).
    assert (SH : shl_raw U32 hi 16 = hi * 2 ^ 16).
    { unfold shl_raw. apply enc_small. unfold modulus; cbn [width].
      change (2 ^ 32) with 4294967296. change (2 ^ 16) with 65536 in *. lia. }
    rewrite SH. rewrite (lor_add_shift lo hi 16) by lia.
    set (D := lo + hi * 2 ^ 16). replace (hi * 2 ^ 16 + lo) with D by (unfold D; ring).
    assert (HD : 0 <= D < 2 ^ 32).
    { unfold D. change (2 ^ 32) with 4294967296. change (2 ^ 16) with 65536 in *. lia. }
    assert (Q : div_chk U32 D d = Ok (D / d)).
    { unfold div_chk. destruct (Z.eqb_spec d 0); [contradiction|]. cbn [signed andb].
      unfold wdiv, Bits.sem; cbn [signed]. rewrite Z.quot_div_nonneg by lia. f_equal. apply enc_small.
      unfold modulus; cbn [width]. split; [apply Z.div_pos; lia|].
      apply Z.le_lt_trans with D; [|lia]. apply Z.div_le_upper_bound; nia. }
    assert (R : rem_chk U32 D d = Ok (D mod d)).
    { unfold rem_chk. destruct (Z.eqb_spec d 0); [contradiction|]. cbn [signed andb].
      unfold wrem, Bits.sem; cbn [signed]. rewrite Z.rem_mod_nonneg by lia. f_equal. apply enc_small.
      unfold modulus; cbn [width]. pose proof (Z.mod_pos_bound D d ltac:(lia)).
      change (2 ^ 32) with 4294967296. change (2 ^ 16) with 65536 in *. lia. }
    rewrite Q, R.
    rewrite (bind_ok _ _ _ _ _ (eq_refl : lift (Ok (D / d)) s = _)).
    rewrite (bind_ok _ _ _ _ _ (eq_refl : lift (Ok (D mod d)) s = _)).
    change (cast U16 U32 (2 ^ 16 - 1)) with (2 ^ 16 - 1).
    assert (C16 : forall x, cast U16 U64 (cast U32 U16 x) = x mod 2 ^ 16).
    { intros x. assert (E : cast U32 U16 x = x mod 2 ^ 16) by reflexivity. rewrite E. apply cast_u16_u64_id. apply Z.mod_pos_bound. reflexivity. }
    rewrite !C16.
    destruct (Z.ltb_spec (D / d) (2 ^ 16)) as [L|G]; cbn [negb].
    - destruct (Z.ltb_spec (2 ^ 16 - 1) (D / d)); [lia|].
      assert (R1 : 0 <= (D / d) mod 2 ^ 16 < 2 ^ 16) by (apply Z.mod_pos_bound; reflexivity).
      assert (R2 : 0 <= (D mod d) mod 2 ^ 16 < 2 ^ 16) by (apply Z.mod_pos_bound; reflexivity).
      rewrite (bind_ok _ _ _ _ _ (reg_write_16_ok c AX _ s Hwf eq_refl R1)).
      rewrite (bind_ok _ _ _ _ _ (reg_write_16_ok c DX _ _ (wf_after_acc16 s Hwf _ R1) eq_refl R2)).
      reflexivity.
    - destruct (Z.ltb_spec (2 ^ 16 - 1) (D / d)); [reflexivity|lia].
  Qed.
End Div16.

(* ---- DIV r/m8: AX / r/m8 -> AL (quotient), AH (remainder) ---- *)
Lemma ax_is_ah_al f : rf_read f AX = rf_read f AH * 2 ^ 8 + rf_read f AL.
Proof.
  change (rf_read f AX) with ((f RAX / 2 ^ 0) mod 2 ^ 16).
  change (rf_read f AH) with ((f RAX / 2 ^ 8) mod 2 ^ 8).
  change (rf_read f AL) with ((f RAX / 2 ^ 0) mod 2 ^ 8).
  change (2 ^ 0) with 1. change (2 ^ 8) with 256. change (2 ^ 16) with 65536. rewrite Z.div_1_r. lia.
Qed.

Lemma wf_after_al s v : wf_regs s -> 0 <= v < 2 ^ 8 -> wf_regs (set_regs s (rf_write (regs s) AL v)).
Proof. intros Hwf Hv q. cbn [regs set_regs]. apply rf_write_wf; [exact Hwf|cbn; repeat (first [left; reflexivity|right])|exact Hv]. Qed.

Section Div8.
  Variables (c : cfg) (i : instr) (s : mstate).
  Hypothesis Hwf : wf_regs s.
  Hypothesis HI : Inv (mem s).
  Hypothesis Hn : i_op_count i = 1.
  Hypothesis Hs : rm8_shape i 0.

  Theorem div_rm8_refines :
    i_code i = C_Div_rm8 ->
    match isa_exec (SDiv 8) i s with
    | IDone s' _ => instr_div_rm8 c i s = (Ok tt, s')
    | IFault FDivide => instr_div_rm8 c i s = (Err EDivZero, s)
    | IFault FMem => exists e, instr_div_rm8 c i s = (Err e, s)
    | IFault _ => False
    end.
  Proof.
    intros Ec. unfold instr_div_rm8. rewrite Ec.
    rewrite (bind_ok _ _ _ _ _ (dbg_code_ok c s _ eq_refl)).
    rewrite (bind_ok _ _ _ _ _ (reg_read_16_ok c AX s Hwf eq_refl)). cbv zeta.
    rewrite <- (bind_assoc (instruction_operand c i 0)). fold (read_rm8 c i 0).
    cbn [isa_exec]. unfold exec_div.
    pose proof (read_rm8_spec c i s 0 Hwf HI ltac:(lia) Hs) as RD.
    destruct (read_op i 0 8 s) as [d|]; [destruct RD as [RD Hd]|destruct RD as [e RD]];
      [|eexists; rewrite (bind_err _ _ _ _ _ RD); reflexivity].
    rewrite (bind_ok _ _ _ _ _ RD). cbv beta zeta.
    rewrite (um_cast U16 8 ltac:(lia) eq_refl d Hd).
    destruct (Z.eqb_spec d 0) as [Zr|NZ]; [reflexivity|].
    change (acc 8) with AL. change (8 =? 8) with true. cbv iota.
    set (lo := rf_read (regs s) AL). set (hi := rf_read (regs s) AH).
    assert (Hlo : 0 <= lo < 2 ^ 8) by (apply rf_read_range8; reflexivity).
    assert (Hhi : 0 <= hi < 2 ^ 8) by (apply rf_read_range8; reflexivity).
    rewrite (ax_is_ah_al (regs s)). fold lo hi.
    set (D := hi * 2 ^ 8 + lo).
    assert (HD : 0 <= D < 2 ^ 16).
    { unfold D. change (2 ^ 16) with 65536. change (2 ^ 8) with 256 in *. lia. }
    assert (CD : cast U64 U16 D = D) by (unfold cast, Bits.sem, enc, modulus; cbn [signed width]; apply Z.mod_small; exact HD).
    rewrite CD.
    assert (Q : div_chk U16 D d = Ok (D / d)).
    { unfold div_chk. destruct (Z.eqb_spec d 0); [contradiction|]. cbn [signed andb].
      unfold wdiv, Bits.sem; cbn [signed]. rewrite Z.quot_div_nonneg by lia. f_equal. apply enc_small.
      unfold modulus; cbn [width]. split; [apply Z.div_pos; lia|].
      apply Z.le_lt_trans with D; [|lia]. apply Z.div_le_upper_bound; nia. }
    assert (R : rem_chk U16 D d = Ok (D mod d)).
    { unfold rem_chk. destruct (Z.eqb_spec d 0); [contradiction|]. cbn [signed andb].
      unfold wrem, Bits.sem; cbn [signed]. rewrite Z.rem_mod_nonneg by lia. f_equal. apply enc_small.
      unfold modulus; cbn [width]. pose proof (Z.mod_pos_bound D d ltac:(lia)).
      change (2 ^ 16) with 65536 in *. change (2 ^ 8) with 256 in *. lia. }
    rewrite Q, R.
    rewrite (bind_ok _ _ _ _ _ (eq_refl : lift (Ok (D / d)) s = _)).
    rewrite (bind_ok _ _ _ _ _ (eq_refl : lift (Ok (D mod d)) s = _)).
    change (cast U8 U16 (2 ^ 8 - 1)) with (2 ^ 8 - 1).
    assert (C8 : forall x, cast U8 U64 (cast U16 U8 x) = x mod 2 ^ 8).
    { intros x. assert (E : cast U16 U8 x = x mod 2 ^ 8) by reflexivity. rewrite E. apply cast_u8_u64_id. apply Z.mod_pos_bound. reflexivity. }
    rewrite !C8.
    destruct (Z.ltb_spec (D / d) (2 ^ 8)) as [L|G]; cbn [negb].
    - destruct (Z.ltb_spec (2 ^ 8 - 1) (D / d)); [lia|].
      assert (R1 : 0 <= (D / d) mod 2 ^ 8 < 2 ^ 8) by (apply Z.mod_pos_bound; reflexivity).
      assert (R2 : 0 <= (D mod d) mod 2 ^ 8 < 2 ^ 8) by (apply Z.mod_pos_bound; reflexivity).
      rewrite (bind_ok _ _ _ _ _ (reg_write_8_ok c AL _ s Hwf eq_refl R1)).
      rewrite (bind_ok _ _ _ _ _ (reg_write_8_ok c AH _ _ (wf_after_al s _ Hwf R1) eq_refl R2)).
      reflexivity.
    - destruct (Z.ltb_spec (2 ^ 8 - 1) (D / d)); [reflexivity|lia].
  Qed.
End Div8.

(* ---- IDIV r/m16: DX:AX / r/m16, signed (Div32P.v's IDIV r/m32 at half the width) ---- *)
Lemma sem_enc_i64 v : - 2 ^ 63 <= v < 2 ^ 63 -> Bits.sem I64 (enc I64 v) = v.
Proof.
  intros H. unfold Bits.sem, enc, modulus; cbn [signed width]. change (2 ^ (64 - 1)) with (2 ^ 63).
  change (2 ^ 63) with 9223372036854775808 in *.
  change (2 ^ 64) with 18446744073709551616.
  destruct (Z.ltb_spec (v mod 18446744073709551616) 9223372036854775808); lia.
Qed.


Lemma src16_pattern d : 0 <= d < 2 ^ 16 ->
  cast I16 I32 (cast U16 I16 (cast U64 U16 d)) = sgn 16 d mod 2 ^ 32.
Proof.
  intros H. unfold cast, Bits.sem, enc, modulus, sgn; cbn [signed width].
  change (2 ^ (16 - 1)) with 32768. change (2 ^ 16) with 65536 in *. change (2 ^ 32) with 4294967296.
  repeat match goal with |- context [if ?b then _ else _] => destruct b eqn:? end; lia.
Qed.

Lemma sem_i64_of_i32 v : - 2 ^ 31 <= v < 2 ^ 31 -> Bits.sem I64 (cast I32 I64 (v mod 2 ^ 32)) = v.
Proof.
  intros H. unfold cast, Bits.sem, enc, modulus; cbn [signed width].
  change (2 ^ (32 - 1)) with 2147483648. change (2 ^ (64 - 1)) with 9223372036854775808.
  change (2 ^ 31) with 2147483648 in *. change (2 ^ 32) with 4294967296.
  change (2 ^ 64) with 18446744073709551616.
  repeat match goal with |- context [if ?b then _ else _] => destruct b eqn:? end; lia.
Qed.

Section Idiv16.
  Variables (c : cfg) (i : instr) (s : mstate).
  Hypothesis Hwf : wf_regs s.
  Hypothesis HI : Inv (mem s).
  Hypothesis Hn : i_op_count i = 1.
  Hypothesis Hs : rm16_shape i 0.

  Theorem idiv_rm16_refines :
    i_code i = C_Idiv_rm16 ->
    match isa_exec (SIdiv 16) i s with
    | IDone s' _ => instr_idiv_rm16 c i s = (Ok tt, s')
    | IFault FDivide => instr_idiv_rm16 c i s = (Err EDivZero, s)
    | IFault FMem => exists e, instr_idiv_rm16 c i s = (Err e, s)
    | IFault _ => False
    end.
  Proof.
    intros Ec. unfold instr_idiv_rm16. rewrite Ec.
    rewrite (bind_ok _ _ _ _ _ (dbg_code_ok c s _ eq_refl)).
    rewrite <- (bind_assoc (instruction_operand c i 0)). fold (read_rm16 c i 0).
    cbn [isa_exec]. unfold exec_div.
    pose proof (read_rm16_spec c i s 0 Hwf HI ltac:(lia) Hs) as RD.
    destruct (read_op i 0 16 s) as [d|]; [destruct RD as [RD Hd]|destruct RD as [e RD]];
      [|eexists; rewrite (bind_err _ _ _ _ _ RD); reflexivity].
    rewrite (bind_ok _ _ _ _ _ RD). cbv beta zeta.
    rewrite (src16_pattern d Hd).
    set (sd := sgn 16 d).
    assert (Hsd : - 2 ^ 15 <= sd < 2 ^ 15).
    { unfold sd, sgn. change (2 ^ (16 - 1)) with (2 ^ 15). change (2 ^ 15) with 32768. change (2 ^ 16) with 65536 in *.
      destruct (Z.ltb_spec d 32768); lia. }
    assert (Zd : (sd mod 2 ^ 32 =? 0) = (d =? 0)).
    { unfold sd, sgn. change (2 ^ (16 - 1)) with 32768. change (2 ^ 16) with 65536 in *. change (2 ^ 32) with 4294967296.
      destruct (Z.ltb_spec d 32768); destruct (Z.eqb_spec d 0);
        match goal with |- (?x =? 0) = _ => destruct (Z.eqb_spec x 0) end; try reflexivity; lia. }
    rewrite Zd. destruct (Z.eqb_spec d 0) as [Z|NZ]; [reflexivity|].
    assert (Nsd : sd <> 0).
    { unfold sd, sgn. change (2 ^ (16 - 1)) with 32768. change (2 ^ 16) with 65536 in *. destruct (Z.ltb_spec d 32768); lia. }
    rewrite (bind_ok _ _ _ _ _ (reg_read_16_ok c AX s Hwf eq_refl)).
    rewrite (bind_ok _ _ _ _ _ (reg_read_16_ok c DX s Hwf eq_refl)).
    change (acc 16) with AX. change (hi_reg 16) with DX. change (16 =? 8) with false. cbv iota.
    set (lo := rf_read (regs s) AX). set (hi := rf_read (regs s) DX).
    assert (Hlo : 0 <= lo < 2 ^ 16) by (apply rf_read_range16; reflexivity).
    assert (Hhi : 0 <= hi < 2 ^ 16) by (apply rf_read_range16; reflexivity).
    rewrite (um_cast U32 16 ltac:(lia) eq_refl lo Hlo), (um_cast U32 16 ltac:(lia) eq_refl hi Hhi).
    assert (SH : shl_raw U32 hi 16 = hi * 2 ^ 16).
    { unfold shl_raw. apply enc_small. unfold modulus; cbn [width].
      change (2 ^ 32) with 4294967296. change (2 ^ 16) with 65536 in *. lia. }
    rewrite SH. rewrite (lor_add_shift lo hi 16) by lia.
    set (D := lo + hi * 2 ^ 16). replace (hi * 2 ^ 16 + lo) with D by (unfold D; ring).
    assert (HD : 0 <= D < 2 ^ 32).
    { unfold D. change (2 ^ 32) with 4294967296. change (2 ^ 16) with 65536 in *. lia. }
    change (2 * 16) with 32.
    set (SD := sgn 32 D).
    assert (HSD : - 2 ^ 31 <= SD < 2 ^ 31).
    { unfold SD, sgn. change (2 ^ (32 - 1)) with (2 ^ 31). destruct (Z.ltb_spec D (2 ^ 31));
      change (2 ^ 31) with 2147483648 in *; change (2 ^ 32) with 4294967296 in *; lia. }
    assert (CD : cast U32 I32 D = SD mod 2 ^ 32).
    { unfold cast, Bits.sem, enc, modulus, SD, sgn; cbn [signed width]. change (2 ^ (32 - 1)) with 2147483648.
      change (2 ^ 32) with 4294967296 in *.
      destruct (Z.ltb_spec D 2147483648); lia. }
    rewrite CD.
    set (A := cast I32 I64 (SD mod 2 ^ 32)). set (B := cast I32 I64 (sd mod 2 ^ 32)).
    assert (SA : Bits.sem I64 A = SD) by (apply sem_i64_of_i32; exact HSD).
    assert (SB : Bits.sem I64 B = sd).
    { apply sem_i64_of_i32. change (2 ^ 15) with 32768 in Hsd. change (2 ^ 31) with 2147483648. lia. }
    assert (NB : (B =? 0) = false).
    { destruct (Z.eqb_spec B 0) as [E|]; [|reflexivity]. exfalso. apply Nsd. rewrite <- SB. rewrite E. reflexivity. }
    assert (Hq : - 2 ^ 63 <= Z.quot SD sd < 2 ^ 63).
    { pose proof (Z.quot_abs SD sd ltac:(lia)) as QA.
      assert (B1 : Z.abs (Z.quot SD sd) <= Z.abs SD).
      { rewrite <- QA. rewrite Z.quot_div_nonneg by lia. apply Z.div_le_upper_bound; [lia|]. pose proof (Z.abs_nonneg SD). nia. }
      change (2 ^ 63) with 9223372036854775808. change (2 ^ 31) with 2147483648 in *. lia. }
    assert (Hr : - 2 ^ 63 <= Z.rem SD sd < 2 ^ 63).
    { pose proof (Z.rem_bound_abs SD sd ltac:(lia)) as RB. change (2 ^ 63) with 9223372036854775808.
      change (2 ^ 15) with 32768 in *. lia. }
    assert (Q : div_chk I64 A B = Ok (enc I64 (Z.quot SD sd))).
    { unfold div_chk. rewrite NB. rewrite SA, SB.
      destruct (Z.eqb_spec SD (- 2 ^ (width I64 - 1))) as [E|_].
      - exfalso. cbn [width] in E. change (2 ^ (64 - 1)) with 9223372036854775808 in E.
        change (2 ^ 31) with 2147483648 in *. lia.
      - rewrite andb_false_r. cbn [andb]. unfold wdiv. rewrite SA, SB. reflexivity. }
    assert (R : rem_chk I64 A B = Ok (enc I64 (Z.rem SD sd))).
    { unfold rem_chk. rewrite NB. rewrite SA, SB.
      destruct (Z.eqb_spec SD (- 2 ^ (width I64 - 1))) as [E|_].
      - exfalso. cbn [width] in E. change (2 ^ (64 - 1)) with 9223372036854775808 in E.
        change (2 ^ 31) with 2147483648 in *. lia.
      - rewrite andb_false_r. cbn [andb]. unfold wrem. rewrite SA, SB. reflexivity. }
    rewrite Q, R.
    rewrite (bind_ok _ _ _ _ _ (eq_refl : lift (Ok (enc I64 (Z.quot SD sd))) s = _)).
    rewrite (bind_ok _ _ _ _ _ (eq_refl : lift (Ok (enc I64 (Z.rem SD sd))) s = _)).
    cbv beta iota. unfold lt. rewrite !sem_enc_i64 by assumption.
    assert (K1 : Bits.sem I64 (cast I16 I64 (2 ^ 15)) = - 2 ^ 15) by (vm_compute; reflexivity).
    assert (K2 : Bits.sem I64 (cast I16 I64 (2 ^ 15 - 1)) = 2 ^ 15 - 1) by (vm_compute; reflexivity).
    rewrite K1, K2.
    assert (W : forall v, - 2 ^ 63 <= v < 2 ^ 63 -> cast U16 U64 (cast I64 U16 (enc I64 v)) = v mod 2 ^ 16).
    { intros v Hv. assert (E : cast I64 U16 (enc I64 v) = v mod 2 ^ 16) by (unfold cast; rewrite sem_enc_i64 by exact Hv; reflexivity).
      rewrite E. apply cast_u16_u64_id. apply Z.mod_pos_bound. reflexivity. }
    rewrite !W by assumption.
    unfold fits_signed. change (2 ^ (16 - 1)) with (2 ^ 15).
    fold sd. fold SD.
    destruct (Z.ltb_spec (Z.quot SD sd) (- 2 ^ 15)) as [L1|G1]; destruct (Z.ltb_spec (2 ^ 15 - 1) (Z.quot SD sd)) as [L2|G2];
      destruct (Z.leb_spec (- 2 ^ 15) (Z.quot SD sd)); destruct (Z.ltb_spec (Z.quot SD sd) (2 ^ 15)); try lia;
      cbn [orb andb negb]; try reflexivity.
    assert (R1 : 0 <= Z.quot SD sd mod 2 ^ 16 < 2 ^ 16) by (apply Z.mod_pos_bound; reflexivity).
    assert (R2 : 0 <= Z.rem SD sd mod 2 ^ 16 < 2 ^ 16) by (apply Z.mod_pos_bound; reflexivity).
    rewrite (bind_ok _ _ _ _ _ (reg_write_16_ok c AX _ s Hwf eq_refl R1)).
    rewrite (bind_ok _ _ _ _ _ (reg_write_16_ok c DX _ _ (wf_after_acc16 s Hwf _ R1) eq_refl R2)).
    reflexivity.
  Qed.
End Idiv16.

(* ---- IDIV r/m8: AX / r/m8, signed -> AL (quotient), AH (remainder) ---- *)
Lemma sem_enc_i32 v : - 2 ^ 31 <= v < 2 ^ 31 -> Bits.sem I32 (enc I32 v) = v.
Proof.
  intros H. unfold Bits.sem, enc, modulus; cbn [signed width]. change (2 ^ (32 - 1)) with (2 ^ 31).
  change (2 ^ 31) with 2147483648 in *. change (2 ^ 32) with 4294967296.
  destruct (Z.ltb_spec (v mod 4294967296) 2147483648); lia.
Qed.

Lemma src8_pattern d : 0 <= d < 2 ^ 8 ->
  cast I8 I16 (cast U8 I8 (cast U64 U8 d)) = sgn 8 d mod 2 ^ 16.
Proof.
  intros H. unfold cast, Bits.sem, enc, modulus, sgn; cbn [signed width].
  change (2 ^ (8 - 1)) with 128. change (2 ^ 8) with 256 in *. change (2 ^ 16) with 65536.
  repeat match goal with |- context [if ?b then _ else _] => destruct b eqn:? end; lia.
Qed.

Lemma sem_i32_of_i16 v : - 2 ^ 15 <= v < 2 ^ 15 -> Bits.sem I32 (cast I16 I32 (v mod 2 ^ 16)) = v.
Proof.
  intros H. unfold cast, Bits.sem, enc, modulus; cbn [signed width].
  change (2 ^ (16 - 1)) with 32768. change (2 ^ (32 - 1)) with 2147483648.
  change (2 ^ 15) with 32768 in *. change (2 ^ 16) with 65536. change (2 ^ 32) with 4294967296.
  repeat match goal with |- context [if ?b then _ else _] => destruct b eqn:? end; lia.
Qed.

Section Idiv8.
  Variables (c : cfg) (i : instr) (s : mstate).
  Hypothesis Hwf : wf_regs s.
  Hypothesis HI : Inv (mem s).
  Hypothesis Hn : i_op_count i = 1.
  Hypothesis Hs : rm8_shape i 0.

  Theorem idiv_rm8_refines :
    i_code i = C_Idiv_rm8 ->
    match isa_exec (SIdiv 8) i s with
    | IDone s' _ => instr_idiv_rm8 c i s = (Ok tt, s')
    | IFault FDivide => instr_idiv_rm8 c i s = (Err EDivZero, s)
    | IFault FMem => exists e, instr_idiv_rm8 c i s = (Err e, s)
    | IFault _ => False
    end.
  Proof.
    intros Ec. unfold instr_idiv_rm8. rewrite Ec.
    rewrite (bind_ok _ _ _ _ _ (dbg_code_ok c s _ eq_refl)).
    rewrite (bind_ok _ _ _ _ _ (reg_read_16_ok c AX s Hwf eq_refl)). cbv zeta.
    rewrite <- (bind_assoc (instruction_operand c i 0)). fold (read_rm8 c i 0).
    cbn [isa_exec]. unfold exec_div.
    pose proof (read_rm8_spec c i s 0 Hwf HI ltac:(lia) Hs) as RD.
    destruct (read_op i 0 8 s) as [d|]; [destruct RD as [RD Hd]|destruct RD as [e RD]];
      [|eexists; rewrite (bind_err _ _ _ _ _ RD); reflexivity].
    rewrite (bind_ok _ _ _ _ _ RD). cbv beta zeta.
    rewrite (src8_pattern d Hd).
    set (sd := sgn 8 d).
    assert (Hsd : - 2 ^ 7 <= sd < 2 ^ 7).
    { unfold sd, sgn. change (2 ^ (8 - 1)) with (2 ^ 7). change (2 ^ 7) with 128. change (2 ^ 8) with 256 in *.
      destruct (Z.ltb_spec d 128); lia. }
    assert (Zd : (sd mod 2 ^ 16 =? 0) = (d =? 0)).
    { unfold sd, sgn. change (2 ^ (8 - 1)) with 128. change (2 ^ 8) with 256 in *. change (2 ^ 16) with 65536.
      destruct (Z.ltb_spec d 128); destruct (Z.eqb_spec d 0);
        match goal with |- (?x =? 0) = _ => destruct (Z.eqb_spec x 0) end; try reflexivity; lia. }
    rewrite Zd. destruct (Z.eqb_spec d 0) as [Zr|NZ]; [reflexivity|].
    assert (Nsd : sd <> 0).
    { unfold sd, sgn. change (2 ^ (8 - 1)) with 128. change (2 ^ 8) with 256 in *. destruct (Z.ltb_spec d 128); lia. }
    change (acc 8) with AL. change (8 =? 8) with true. cbv iota.
    set (lo := rf_read (regs s) AL). set (hi := rf_read (regs s) AH).
    assert (Hlo : 0 <= lo < 2 ^ 8) by (apply rf_read_range8; reflexivity).
    assert (Hhi : 0 <= hi < 2 ^ 8) by (apply rf_read_range8; reflexivity).
    rewrite (ax_is_ah_al (regs s)). fold lo hi.
    set (D := hi * 2 ^ 8 + lo).
    assert (HD : 0 <= D < 2 ^ 16).
    { unfold D. change (2 ^ 16) with 65536. change (2 ^ 8) with 256 in *. lia. }
    change (2 * 8) with 16.
    set (SD := sgn 16 D).
    assert (HSD : - 2 ^ 15 <= SD < 2 ^ 15).
    { unfold SD, sgn. change (2 ^ (16 - 1)) with (2 ^ 15). destruct (Z.ltb_spec D (2 ^ 15));
      change (2 ^ 15) with 32768 in *; change (2 ^ 16) with 65536 in *; lia. }
    assert (CD : cast U64 I16 D = SD mod 2 ^ 16).
    { unfold cast, Bits.sem, enc, modulus, SD, sgn; cbn [signed width]. change (2 ^ (16 - 1)) with 32768.
      change (2 ^ 16) with 65536 in *.
      destruct (Z.ltb_spec D 32768); lia. }
    rewrite CD.
    set (A := cast I16 I32 (SD mod 2 ^ 16)). set (B := cast I16 I32 (sd mod 2 ^ 16)).
    assert (SA : Bits.sem I32 A = SD) by (apply sem_i32_of_i16; exact HSD).
    assert (SB : Bits.sem I32 B = sd).
    { apply sem_i32_of_i16. change (2 ^ 7) with 128 in Hsd. change (2 ^ 15) with 32768. lia. }
    assert (NB : (B =? 0) = false).
    { destruct (Z.eqb_spec B 0) as [E|]; [|reflexivity]. exfalso. apply Nsd. rewrite <- SB. rewrite E. reflexivity. }
    assert (Hq : - 2 ^ 31 <= Z.quot SD sd < 2 ^ 31).
    { pose proof (Z.quot_abs SD sd ltac:(lia)) as QA.
      assert (B1 : Z.abs (Z.quot SD sd) <= Z.abs SD).
      { rewrite <- QA. rewrite Z.quot_div_nonneg by lia. apply Z.div_le_upper_bound; [lia|]. pose proof (Z.abs_nonneg SD). nia. }
      change (2 ^ 31) with 2147483648. change (2 ^ 15) with 32768 in *. lia. }
    assert (Hr : - 2 ^ 31 <= Z.rem SD sd < 2 ^ 31).
    { pose proof (Z.rem_bound_abs SD sd ltac:(lia)) as RB. change (2 ^ 31) with 2147483648.
      change (2 ^ 7) with 128 in *. lia. }
    assert (Q : div_chk I32 A B = Ok (enc I32 (Z.quot SD sd))).
    { unfold div_chk. rewrite NB. rewrite SA, SB.
      destruct (Z.eqb_spec SD (- 2 ^ (width I32 - 1))) as [E|_].
      - exfalso. cbn [width] in E. change (2 ^ (32 - 1)) with 2147483648 in E.
        change (2 ^ 15) with 32768 in *. lia.
      - rewrite andb_false_r. cbn [andb]. unfold wdiv. rewrite SA, SB. reflexivity. }
    assert (R : rem_chk I32 A B = Ok (enc I32 (Z.rem SD sd))).
    { unfold rem_chk. rewrite NB. rewrite SA, SB.
      destruct (Z.eqb_spec SD (- 2 ^ (width I32 - 1))) as [E|_].
      - exfalso. cbn [width] in E. change (2 ^ (32 - 1)) with 2147483648 in E.
        change (2 ^ 15) with 32768 in *. lia.
      - rewrite andb_false_r. cbn [andb]. unfold wrem. rewrite SA, SB. reflexivity. }
    rewrite Q, R.
    rewrite (bind_ok _ _ _ _ _ (eq_refl : lift (Ok (enc I32 (Z.quot SD sd))) s = _)).
    rewrite (bind_ok _ _ _ _ _ (eq_refl : lift (Ok (enc I32 (Z.rem SD sd))) s = _)).
    cbv beta iota. unfold lt. rewrite !sem_enc_i32 by assumption.
    assert (K1 : Bits.sem I32 (cast I8 I32 (2 ^ 7)) = - 2 ^ 7) by (vm_compute; reflexivity).
    assert (K2 : Bits.sem I32 (cast I8 I32 (2 ^ 7 - 1)) = 2 ^ 7 - 1) by (vm_compute; reflexivity).
    rewrite K1, K2.
    assert (W : forall v, - 2 ^ 31 <= v < 2 ^ 31 -> cast U8 U64 (cast I32 U8 (enc I32 v)) = v mod 2 ^ 8).
    { intros v Hv. assert (E : cast I32 U8 (enc I32 v) = v mod 2 ^ 8) by (unfold cast; rewrite sem_enc_i32 by exact Hv; reflexivity).
      rewrite E. apply cast_u8_u64_id. apply Z.mod_pos_bound. reflexivity. }
    rewrite !W by assumption.
    unfold fits_signed. change (2 ^ (8 - 1)) with (2 ^ 7).
    fold sd. fold SD.
    destruct (Z.ltb_spec (Z.quot SD sd) (- 2 ^ 7)) as [L1|G1]; destruct (Z.ltb_spec (2 ^ 7 - 1) (Z.quot SD sd)) as [L2|G2];
      destruct (Z.leb_spec (- 2 ^ 7) (Z.quot SD sd)); destruct (Z.ltb_spec (Z.quot SD sd) (2 ^ 7)); try lia;
      cbn [orb andb negb]; try reflexivity.
    assert (R1 : 0 <= Z.quot SD sd mod 2 ^ 8 < 2 ^ 8) by (apply Z.mod_pos_bound; reflexivity).
    assert (R2 : 0 <= Z.rem SD sd mod 2 ^ 8 < 2 ^ 8) by (apply Z.mod_pos_bound; reflexivity).
    rewrite (bind_ok _ _ _ _ _ (reg_write_8_ok c AL _ s Hwf eq_refl R1)).
    rewrite (bind_ok _ _ _ _ _ (reg_write_8_ok c AH _ _ (wf_after_al s _ Hwf R1) eq_refl R2)).
    reflexivity.
  Qed.
End Idiv8.
