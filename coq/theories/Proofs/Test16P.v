(* C02: TEST at 16 bits (r/m, r and r/m, imm with the accumulator short form).  TestP.v at another width
   (textual transformation, checked by Coq). *)
From Coq Require Import ZArith Bool List Lia.
From AxV Require Import Bits Outcome Codes Iced State Rt Mem Trace BitsP ByteStore MemP RegFile RegsP ISA CodeSem ReadonlyTac
  OperandP FlagsP CfP MovP RmP AluP AluRmP AluMemP MovxP TestP Alu16P AluImm16P.
From AxG Require Import Flags Regs Operand Helpers I_test.
Local Open Scope Z_scope.
Ltac Zify.zify_post_hook ::= Z.div_mod_to_equations.

Section Test16.
  Variables (c : cfg) (i : instr) (s : mstate).
  Hypothesis Hwf : wf_regs s.
  Hypothesis HI : Inv (mem s).
  Hypothesis Hrf : 0 <= rflags s < 2 ^ 64.
  Hypothesis Hn : i_op_count i = 2.
  Hypothesis Hs0 : rm16_shape i 0.
  Hypothesis K1 : i_op_kind i 1 = OK_Register.
  Hypothesis H1 : is_gpr16 (i_op_register i 1) = true.

  Theorem test_rm16_r16_refines :
    i_code i = C_Test_rm16_r16 ->
    match isa_exec (SAlu TEST 16) i s with
    | IDone s' u => instr_test_rm16_r16 c i s = (Ok tt, s') /\ u = 0
    | IFault FMem => exists e, instr_test_rm16_r16 c i s = (Err e, s)
    | IFault _ => False
    end.
  Proof.
    intros Ec. unfold instr_test_rm16_r16. rewrite Ec.
    rewrite (bind_ok _ _ _ _ _ (dbg_code_ok c s _ eq_refl)).
    assert (O1 : instruction_operand c i 1 s = (Ok (OpRegister (i_op_register i 1)), s))
      by (apply operand_register; [rewrite Hn; reflexivity|exact K1|reflexivity|apply gpr16_supported; exact H1]).
    assert (Hsv : 0 <= rf_read (regs s) (i_op_register i 1) < 2 ^ 16) by (apply rf_read_range16; exact H1).
    cbn [isa_exec]. unfold exec_alu. unfold read_op at 2. rewrite K1. rewrite rf_read_mod16 by exact H1.
    unfold read_op.
    destruct Hs0 as [[K0 H0]|[K0 Hm]]; rewrite K0.
    - assert (O0 : instruction_operand c i 0 s = (Ok (OpRegister (i_op_register i 0)), s))
        by (apply operand_register; [rewrite Hn; reflexivity|exact K0|reflexivity|apply gpr16_supported; exact H0]).
      assert (OP : instruction_operands_2 c i s = (Ok (OpRegister (i_op_register i 0), OpRegister (i_op_register i 1)), s)).
      { unfold instruction_operands_2. rewrite (bind_ok _ _ _ _ _ O0). rewrite (bind_ok _ _ _ _ _ O1). reflexivity. }
      assert (Hd : 0 <= rf_read (regs s) (i_op_register i 0) < 2 ^ 16) by (apply rf_read_range16; exact H0).
      rewrite (bind_ok _ _ _ _ _ OP). cbv beta iota.
      rewrite (bind_ok _ _ _ _ _ (reg_read_16_ok c _ s Hwf H1)). cbv zeta.
      rewrite (bind_ok _ _ _ _ _ (reg_read_16_ok c _ s Hwf H0)).
      rewrite rf_read_mod16 by exact H0. rewrite !cast_u64_u16_id by assumption.
      change (Z.lor (Z.lor FLAG_SF FLAG_ZF) FLAG_PF) with (arith_fs false false). change (Z.lor FLAG_OF FLAG_CF) with 2049.
      rewrite (bind_ok _ _ _ _ _ (set_flags_u16_arith c false false _ s Hrf)).
      cbn [alu b2f]. change (0 + 0) with 0. rewrite !Z.add_0_l. split; reflexivity.
    - destruct (operand_address c i 0 s Hwf Hm ltac:(rewrite Hn; reflexivity) K0) as (O0 & EA & _).
      assert (OP : instruction_operands_2 c i s = (Ok (OpMemory (memop_of i), OpRegister (i_op_register i 1)), s)).
      { unfold instruction_operands_2. rewrite (bind_ok _ _ _ _ _ O0). rewrite (bind_ok _ _ _ _ _ O1). reflexivity. }
      rewrite (bind_ok _ _ _ _ _ OP). cbv beta iota.
      rewrite (bind_ok _ _ _ _ _ (reg_read_16_ok c _ s Hwf H1)). cbv zeta.
      rewrite bind_assoc. rewrite (bind_ok _ _ _ _ _ EA).
      unfold load. change (bytes_of 16) with 2%nat. change mem_read_16 with (mem_read_n 2).
      destruct (mem_read_n_cases 2 (ea i s) s HI) as [(d & E & R)|(e & E)]; rewrite E.
      + rewrite (bind_ok _ _ _ _ _ E). rewrite !cast_u64_u16_id by assumption.
        change (Z.lor (Z.lor FLAG_SF FLAG_ZF) FLAG_PF) with (arith_fs false false). change (Z.lor FLAG_OF FLAG_CF) with 2049.
        rewrite (bind_ok _ _ _ _ _ (set_flags_u16_arith c false false _ s Hrf)).
        cbn [alu b2f]. change (0 + 0) with 0. rewrite !Z.add_0_l. split; reflexivity.
      + exists e. rewrite (bind_err _ _ _ _ _ E). reflexivity.
  Qed.
End Test16.


Section TestImm16.
  Variables (c : cfg) (i : instr) (s : mstate).
  Hypothesis Hwf : wf_regs s.
  Hypothesis HI : Inv (mem s).
  Hypothesis Hrf : 0 <= rflags s < 2 ^ 64.
  Hypothesis Hn : i_op_count i = 2.
  Hypothesis Hs0 : rm16_shape i 0.
  Hypothesis Him : imm16_shape i.

  Theorem test_rm16_imm16_refines : test_refines i s 16 (instr_test_rm16_imm16 c i s).
  Proof.
    unfold test_refines, instr_test_rm16_imm16.
    destruct (imm16_operand c i s Hn Him) as (dd & v & O1 & CV & RV & Hv).
    assert (SA : lift (debug_assert_that c (2 =? 2)) s = (Ok tt, s)) by (unfold lift, debug_assert_that, assert_that; destruct (dbg c); reflexivity).
    cbn [isa_exec]. unfold exec_alu. rewrite RV. unfold read_op.
    destruct Hs0 as [[K0 H0]|[K0 Hm]]; rewrite K0.
    - assert (O0 : instruction_operand c i 0 s = (Ok (OpRegister (i_op_register i 0)), s))
        by (apply operand_register; [rewrite Hn; reflexivity|exact K0|reflexivity|apply gpr16_supported; exact H0]).
      assert (OP : instruction_operands_2 c i s = (Ok (OpRegister (i_op_register i 0), OpImmediate dd 2), s)).
      { unfold instruction_operands_2. rewrite (bind_ok _ _ _ _ _ O0). rewrite (bind_ok _ _ _ _ _ O1). reflexivity. }
      assert (Hd : 0 <= rf_read (regs s) (i_op_register i 0) < 2 ^ 16) by (apply rf_read_range16; exact H0).
      rewrite (bind_ok _ _ _ _ _ OP). cbv beta iota.
      rewrite bind_assoc. rewrite (bind_ok _ _ _ _ _ SA). rewrite (bind_ok _ _ _ _ _ (eq_refl : ret (cast U64 U16 dd) s = _)).
      rewrite CV.
      rewrite (bind_ok _ _ _ _ _ (reg_read_16_ok c _ s Hwf H0)). cbv zeta.
      rewrite rf_read_mod16 by exact H0. rewrite (cast_u64_u16_id _ Hd).
      change (Z.lor (Z.lor FLAG_SF FLAG_ZF) FLAG_PF) with (arith_fs false false). change (Z.lor FLAG_OF FLAG_CF) with 2049.
      rewrite (bind_ok _ _ _ _ _ (set_flags_u16_arith c false false _ s Hrf)).
      cbn [alu b2f]. change (0 + 0) with 0. rewrite !Z.add_0_l. split; reflexivity.
    - destruct (operand_address c i 0 s Hwf Hm ltac:(rewrite Hn; reflexivity) K0) as (O0 & EA & _).
      assert (OP : instruction_operands_2 c i s = (Ok (OpMemory (memop_of i), OpImmediate dd 2), s)).
      { unfold instruction_operands_2. rewrite (bind_ok _ _ _ _ _ O0). rewrite (bind_ok _ _ _ _ _ O1). reflexivity. }
      rewrite (bind_ok _ _ _ _ _ OP). cbv beta iota.
      rewrite bind_assoc. rewrite (bind_ok _ _ _ _ _ SA). rewrite (bind_ok _ _ _ _ _ (eq_refl : ret (cast U64 U16 dd) s = _)).
      rewrite CV.
      rewrite bind_assoc. rewrite (bind_ok _ _ _ _ _ EA).
      unfold load. change (bytes_of 16) with 2%nat. change mem_read_16 with (mem_read_n 2).
      destruct (mem_read_n_cases 2 (ea i s) s HI) as [(d & E & R)|(e & E)]; rewrite E.
      + rewrite (bind_ok _ _ _ _ _ E). cbv zeta. rewrite (cast_u64_u16_id _ R).
        change (Z.lor (Z.lor FLAG_SF FLAG_ZF) FLAG_PF) with (arith_fs false false). change (Z.lor FLAG_OF FLAG_CF) with 2049.
        rewrite (bind_ok _ _ _ _ _ (set_flags_u16_arith c false false _ s Hrf)).
        cbn [alu b2f]. change (0 + 0) with 0. rewrite !Z.add_0_l. split; reflexivity.
      + exists e. rewrite (bind_err _ _ _ _ _ E). reflexivity.
  Qed.

  Theorem test_ax_imm16_refines : i_code i = C_Test_AX_imm16 -> test_refines i s 16 (instr_test_ax_imm16 c i s).
  Proof.
    intros Ec. unfold instr_test_ax_imm16. rewrite Ec. rewrite (bind_ok _ _ _ _ _ (dbg_code_ok c s _ eq_refl)).
    exact test_rm16_imm16_refines.
  Qed.
End TestImm16.
