(* C20: the random register values of the constructor do not reach anything once the
   registers have been written explicitly. *)
From Coq Require Import ZArith Bool List Lia FunctionalExtensionality.
From AxV Require Import Bits Outcome Codes Iced State Rt Mem Trace Exec Machine.
Local Open Scope Z_scope.
Import ListNotations.

(* two states that differ at most in the register files *)
Definition reseed (s : mstate) (r x : reg -> Z) : mstate := set_xmms (set_regs s r) x.

Lemma init_area_reseed start data s r x :
  mem_init_area start data (reseed s r x) =
  (fst (mem_init_area start data s), reseed (snd (mem_init_area start data s)) r x).
Proof.
  unfold mem_init_area, reseed. cbn [mem set_regs set_xmms].
  destruct (start + zlen data >=? 2 ^ 64); [reflexivity|].
  destruct (existsb _ (mem s)); reflexivity.
Qed.

Lemma mem_prot_reseed start p s r x :
  mem_prot start p (reseed s r x) = (fst (mem_prot start p s), reseed (snd (mem_prot start p s)) r x).
Proof.
  unfold mem_prot, reseed. cbn [mem set_regs set_xmms].
  destruct (negb (p <=? 7)); [reflexivity|]. destruct (prot_go start p (mem s)); reflexivity.
Qed.

Section Det.
  Variable c : cfg.

  (* constructing from a state with other register files: the same machine with those register
     files (and RIP set to the entry point) *)
  Lemma new_reseed s r x code start rip ce :
    add_chk c U64 start (zlen code) = Ok ce ->
    ax_new_from c (reseed s r x) code start rip =
    (fst (ax_new_from c s code start rip),
     {| st := reseed (st (snd (ax_new_from c s code start rip))) (upd r RIP rip) x; henv := nil |}).
  Proof.
    intros Ea. unfold ax_new_from. rewrite Ea. cbv zeta.
    set (T := [{| t_ip := 0; t_target := rip; t_variant := TCall; t_level := 0; t_count := 1 |}]).
    set (S0 := set_trace (set_symbols (set_call_stack (set_regs (set_code_end s ce) (upd (regs (set_code_end s ce)) RIP rip)) [rip]) [(rip, START_NAME)]) T).
    assert (ES : set_trace (set_symbols (set_call_stack (set_regs (set_code_end (reseed s r x) ce)
                     (upd (regs (set_code_end (reseed s r x) ce)) RIP rip)) [rip]) [(rip, START_NAME)]) T
                 = reseed S0 (upd r RIP rip) x) by (destruct s; reflexivity).
    rewrite ES. rewrite init_area_reseed.
    destruct (mem_init_area start code S0) as [[u|e|p|] s6] eqn:E6; cbn [fst snd st]; try reflexivity.
    rewrite mem_prot_reseed.
    destruct (mem_prot start (Z.lor PROT_READ PROT_EXEC) s6) as [[u7|e|p|] s7]; cbn [fst snd st]; reflexivity.
  Qed.

  Lemma seed_is_reseed rnd rndx :
    seed_state rnd rndx = reseed empty_state (fun q => if is_gpr64 q then rnd q else 0) (fun q => if is_xmm q then rndx q else 0).
  Proof. reflexivity. Qed.

  (* writing all 16 general and all 16 XMM registers explicitly *)
  Definition write_all (vals xvals : list Z) (s : mstate) : mstate :=
    set_xmms (set_regs s (set_all gpr64_list vals (regs s))) (set_all xmm_list xvals (xmms s)).

  Lemma set_all_erases : forall rs vals f g,
    length vals = length rs -> (forall q, ~ In q rs -> f q = g q) ->
    forall q, set_all rs vals f q = set_all rs vals g q.
  Proof.
    induction rs as [|r rs IH]; intros vals f g Hl Hfg q; destruct vals as [|v vals]; try discriminate Hl.
    - cbn. apply Hfg. intros [].
    - cbn [set_all]. apply IH; [cbn in Hl; lia|]. intros q' Hq'. unfold upd.
      destruct (reg_eqb r q') eqn:E; [reflexivity|]. apply Hfg. intros [->|H]; [|exact (Hq' H)].
      assert (X : reg_eqb q' q' = true) by (destruct q'; try reflexivity; cbn; apply Z.eqb_refl). congruence.
  Qed.

  (* C20: two machines built with different random register seeds, after the same explicit
     writes of all registers, are the same machine - hence every later observation (registers,
     flags, memory, counts, traces, results and errors of any run) is identical *)
  Theorem explicit_writes_erase_the_seed rnd1 rndx1 rnd2 rndx2 code start rip vals xvals ce :
    add_chk c U64 start (zlen code) = Ok ce ->
    length vals = 16%nat -> length xvals = 16%nat ->
    let m1 := snd (ax_new_from c (seed_state rnd1 rndx1) code start rip) in
    let m2 := snd (ax_new_from c (seed_state rnd2 rndx2) code start rip) in
    fst (ax_new_from c (seed_state rnd1 rndx1) code start rip) = fst (ax_new_from c (seed_state rnd2 rndx2) code start rip) /\
    henv m1 = henv m2 /\
    write_all vals xvals (st m1) = write_all vals xvals (st m2).
  Proof.
    intros Ea Hv Hx. cbv zeta. rewrite !seed_is_reseed. rewrite !(new_reseed _ _ _ _ _ _ ce Ea). cbn [fst snd st henv].
    split; [reflexivity|]. split; [reflexivity|].
    set (S := st (snd (ax_new_from c empty_state code start rip))).
    unfold write_all, reseed. cbn [regs xmms set_regs set_xmms].
    assert (ER : set_all gpr64_list vals (upd (fun q => if is_gpr64 q then rnd1 q else 0) RIP rip)
               = set_all gpr64_list vals (upd (fun q => if is_gpr64 q then rnd2 q else 0) RIP rip)).
    { apply functional_extensionality. apply set_all_erases; [exact Hv|].
      intros q Hq. unfold upd. destruct (reg_eqb RIP q); [reflexivity|].
      destruct (is_gpr64 q) eqn:G; [|reflexivity]. exfalso. apply Hq. destruct q; try discriminate G; cbn; tauto. }
    assert (EX : set_all xmm_list xvals (fun q => if is_xmm q then rndx1 q else 0)
               = set_all xmm_list xvals (fun q => if is_xmm q then rndx2 q else 0)).
    { apply functional_extensionality. apply set_all_erases; [exact Hx|].
      intros q Hq. destruct (is_xmm q) eqn:G; [|reflexivity]. exfalso. apply Hq. destruct q; try discriminate G; cbn; tauto. }
    rewrite ER, EX. reflexivity.
  Qed.
End Det.
