(* C01: LEA r16, m and MOVZX r16, r/m8 - the 16-bit destinations keep the upper 48 bits of the register. *)
From Coq Require Import ZArith Bool List Lia.
From AxV Require Import Bits Outcome Codes Iced State Rt Mem Trace BitsP ByteStore MemP RegFile RegsP ISA CodeSem ReadonlyTac
  OperandP FlagsP CfP MovP RmP AluP Alu32P MovxP MovImmP.
From AxG Require Import Flags Regs Operand Helpers I_lea I_movzx.
Local Open Scope Z_scope.
Ltac Zify.zify_post_hook ::= Z.div_mod_to_equations.

(* LEA r16, m: the low 16 bits of the offset *)
Theorem lea16_refines c i s :
  i_code i = C_Lea_r16_m -> wf_regs s -> wf_mem_instr i ->
  i_op_count i = 2 -> i_op_kind i 0 = OK_Register -> i_op_kind i 1 = OK_Memory ->
  is_gpr16 (i_op_register i 0) = true ->
  exists s', instr_lea_r16_m c i s = (Ok tt, s') /\ isa_exec (SLea 16) i s = IDone s' 0.
Proof.
  intros Ec Hwf Hm Hn K0 K1 Hr. unfold instr_lea_r16_m. rewrite Ec.
  rewrite (bind_ok _ _ _ _ _ (dbg_code_ok c s _ eq_refl)).
  assert (O0 : instruction_operand c i 0 s = (Ok (OpRegister (i_op_register i 0)), s))
    by (apply operand_register; [rewrite Hn; reflexivity|exact K0|reflexivity|apply gpr16_supported; exact Hr]).
  destruct (operand_address c i 1 s Hwf Hm ltac:(rewrite Hn; reflexivity) K1) as (O1 & _ & OFF).
  assert (OP : instruction_operands_2 c i s = (Ok (OpRegister (i_op_register i 0), OpMemory (memop_of i)), s)).
  { unfold instruction_operands_2. rewrite (bind_ok _ _ _ _ _ O0). rewrite (bind_ok _ _ _ _ _ O1). reflexivity. }
  rewrite (bind_ok _ _ _ _ _ OP). cbv beta iota. rewrite (bind_ok _ _ _ _ _ OFF).
  rewrite (bind_ok _ _ _ _ _ (eq_refl : lift (operand_to_reg (OpRegister (i_op_register i 0))) s = _)).
  assert (V : cast U16 U64 (cast U64 U16 (ea_offset i s)) = ea_offset i s mod 2 ^ 16).
  { assert (R : 0 <= ea_offset i s mod 2 ^ 16 < 2 ^ 16) by (apply Z.mod_pos_bound; reflexivity).
    assert (E : cast U64 U16 (ea_offset i s) = ea_offset i s mod 2 ^ 16).
    { unfold cast, Bits.sem, enc, modulus; cbn [signed width]. reflexivity. }
    rewrite E. apply cast_u16_u64_id. exact R. }
  rewrite V.
  rewrite (bind_ok _ _ _ _ _ (reg_write_16_ok c _ _ s Hwf Hr ltac:(apply Z.mod_pos_bound; reflexivity))).
  eexists. split; [reflexivity|]. reflexivity.
Qed.

Section Movzx16_8.
  Variables (c : cfg) (i : instr) (s : mstate).
  Hypothesis Hwf : wf_regs s.
  Hypothesis HI : Inv (mem s).
  Hypothesis Hn : i_op_count i = 2.
  Hypothesis K0 : i_op_kind i 0 = OK_Register.
  Hypothesis Hs1 : rm8_shape i 1.

  Theorem movzx_r16_rm8_refines :
    i_code i = C_Movzx_r16_rm8 -> is_gpr16 (i_op_register i 0) = true ->
    match isa_exec (SMovzx 16 8) i s with
    | IDone s' u => instr_movzx_r16_rm8 c i s = (Ok tt, s') /\ u = 0
    | IFault FMem => exists e, instr_movzx_r16_rm8 c i s = (Err e, s)
    | IFault _ => False
    end.
  Proof.
    intros Ec H0. unfold instr_movzx_r16_rm8. rewrite Ec.
    rewrite (bind_ok _ _ _ _ _ (dbg_code_ok c s _ eq_refl)).
    assert (O0 : instruction_operand c i 0 s = (Ok (OpRegister (i_op_register i 0)), s))
      by (apply operand_register; [rewrite Hn; reflexivity|exact K0|reflexivity|apply gpr16_supported; exact H0]).
    destruct (read_rm8 c i s Hwf HI Hn Hs1 _ O0) as (o1 & OP & RD).
    cbn [isa_exec]. rewrite (bind_ok _ _ _ _ _ OP). cbv beta iota.
    destruct (read_op i 1 8 s) as [v|].
    - destruct RD as [Hv RD]. rewrite (bind_ok _ _ _ _ _ RD).
      rewrite (bind_ok _ _ _ _ _ (eq_refl : lift (operand_to_reg (OpRegister (i_op_register i 0))) s = _)).
      rewrite reg_write_16_ok by (first [exact Hwf|exact H0|change (2 ^ 8) with 256 in Hv; change (2 ^ 16) with 65536; lia]).
      unfold write_op. rewrite K0. cbn [opt_done]. split; reflexivity.
    - destruct RD as [e RD]. exists e. rewrite (bind_err _ _ _ _ _ RD). reflexivity.
  Qed.
End Movzx16_8.
