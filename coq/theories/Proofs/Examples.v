(* Concrete decoded instructions and states: non-vacuity of the refinement theorems' hypotheses
   and the witnesses of the refuted statements (known findings). *)
From Coq Require Import ZArith Bool List Lia.
Import ListNotations.
From AxV Require Import Bits Outcome Codes Iced State Rt Mem Trace BitsP ByteStore RegFile RegsP ISA CodeSem OperandP RmP.
From AxG Require Import Flags Regs Operand Helpers.
Local Open Scope Z_scope.

(* a decoded instruction with up to two register operands and nothing else *)
Definition reg_instr (cd : code) (mn : mnemonic) (n : Z) (r0 r1 : reg) : instr :=
  {| i_code := cd; i_mnemonic := mn; i_len := 3; i_ip := 4096; i_next_ip := 4099; i_op_count := n;
     i_op0_kind := OK_Register; i_op1_kind := OK_Register; i_op2_kind := OK_Register; i_op3_kind := OK_Register;
     i_op0_register := r0; i_op1_register := r1; i_op2_register := RNone; i_op3_register := RNone;
     i_memory_base := RNone; i_memory_index := RNone; i_memory_index_scale := 1; i_memory_displacement64 := 0;
     i_memory_segment := RNone;
     i_immediate8 := 0; i_immediate8_2nd := 0; i_immediate16 := 0; i_immediate32 := 0; i_immediate64 := 0;
     i_immediate8to16 := 0; i_immediate8to32 := 0; i_immediate8to64 := 0; i_immediate32to64 := 0;
     i_near_branch64 := 0 |}.

Definition regs3 (a d c : Z) : mstate :=
  set_regs empty_state (upd (upd (upd (regs empty_state) RAX a) RDX d) RCX c).

Lemma wf_regs_empty : wf_regs empty_state.
Proof. intros r. cbn. lia. Qed.

Lemma wf_regs_upd s r v : wf_regs s -> 0 <= v < 2 ^ 64 -> wf_regs (set_regs s (upd (regs s) r v)).
Proof.
  intros H Hv r'. cbn. unfold upd. destruct (reg_eqb r r'); [exact Hv|apply H].
Qed.

Lemma inv_empty : Inv (mem empty_state).
Proof. split; constructor. Qed.

From AxG Require Import I_idiv I_div I_add.

Definition idiv_rcx : instr := reg_instr C_Idiv_rm64 M_Idiv 1 RCX RNone.
Definition div_rcx : instr := reg_instr C_Div_rm64 M_Div 1 RCX RNone.
Definition add_rax_rcx : instr := reg_instr C_Add_rm64_r64 M_Add 2 RAX RCX.

Lemma regs3_wf a d c : 0 <= a < 2 ^ 64 -> 0 <= d < 2 ^ 64 -> 0 <= c < 2 ^ 64 -> wf_regs (regs3 a d c).
Proof.
  intros Ha Hd Hc. unfold regs3.
  intros r. cbn. unfold upd.
  destruct (reg_eqb RCX r); [exact Hc|]. destruct (reg_eqb RDX r); [exact Hd|]. destruct (reg_eqb RAX r); [exact Ha|].
  lia.
Qed.

(* hypotheses of the DIV / IDIV theorems are satisfiable *)
Example div_hyps : wf_regs (regs3 7 1 3) /\ Inv (mem (regs3 7 1 3)) /\ i_op_count div_rcx = 1 /\ rm64_shape div_rcx 0 /\
  i_code div_rcx = C_Div_rm64.
Proof.
  split; [apply regs3_wf; cbn; lia|]. split; [apply inv_empty|]. split; [reflexivity|]. split; [left; split; reflexivity|reflexivity].
Qed.

(* (2^64 + 7) / 3 = 6148914691236517207 rem 2 *)
Example div_runs : forall c,
  match instr_div_rm64 c div_rcx (regs3 7 1 3) with
  | (Ok tt, s') => regs s' RAX = 6148914691236517207 /\ regs s' RDX = 2
  | _ => False
  end.
Proof. intros [[|] [|]]; vm_compute; split; reflexivity. Qed.

(* KF-C01-idiv64-divisor, as a refuted statement: 10 / -1.  The CPU (and the specification) give
   quotient -10; the emulator, which zero-extends the divisor, gives 0 remainder 10 - in both
   build configurations, with every hypothesis of the refinement theorem except the sign
   restriction on the divisor satisfied. *)
Theorem idiv_rm64_negative_divisor_refuted :
  let s := regs3 10 0 (2 ^ 64 - 1) in
  wf_regs s /\ Inv (mem s) /\ i_op_count idiv_rcx = 1 /\ rm64_shape idiv_rcx 0 /\ i_code idiv_rcx = C_Idiv_rm64 /\
  match isa_exec (SIdiv 64) idiv_rcx s with
  | IDone s1 _ => regs s1 RAX = 2 ^ 64 - 10 /\ regs s1 RDX = 0
  | _ => False
  end /\
  forall c, match instr_idiv_rm64 c idiv_rcx s with
            | (Ok tt, s2) => regs s2 RAX = 0 /\ regs s2 RDX = 10
            | _ => False
            end.
Proof.
  cbv zeta. split; [apply regs3_wf; cbn; lia|]. split; [apply inv_empty|]. split; [reflexivity|].
  split; [left; split; reflexivity|]. split; [reflexivity|]. split.
  - vm_compute. split; reflexivity.
  - intros [[|] [|]]; vm_compute; split; reflexivity.
Qed.

(* KF-C03-noncanonical-target, as a refuted statement: JMP rel32 to 2^47.  The CPU raises #GP;
   the emulator completes the jump and sets RIP to the non-canonical address. *)
From AxG Require Import I_jmp.

Definition jmp_noncanonical : instr :=
  {| i_code := C_Jmp_rel32_64; i_mnemonic := M_Jmp; i_len := 5; i_ip := 4096; i_next_ip := 4101; i_op_count := 1;
     i_op0_kind := OK_NearBranch64; i_op1_kind := OK_Register; i_op2_kind := OK_Register; i_op3_kind := OK_Register;
     i_op0_register := RNone; i_op1_register := RNone; i_op2_register := RNone; i_op3_register := RNone;
     i_memory_base := RNone; i_memory_index := RNone; i_memory_index_scale := 1; i_memory_displacement64 := 0;
     i_memory_segment := RNone;
     i_immediate8 := 0; i_immediate8_2nd := 0; i_immediate16 := 0; i_immediate32 := 0; i_immediate64 := 0;
     i_immediate8to16 := 0; i_immediate8to32 := 0; i_immediate8to64 := 0; i_immediate32to64 := 0;
     i_near_branch64 := 2 ^ 47 |}.

(* the state in which [step] runs an instruction: RIP already advanced past it *)
Definition at_next (i : instr) : mstate := set_regs empty_state (upd (regs empty_state) RIP (i_next_ip i)).

Theorem jmp_noncanonical_target_refuted :
  let s := at_next jmp_noncanonical in
  isa_exec SJmpRel jmp_noncanonical s = IFault FBranch /\
  forall c, match instr_jmp_rel32_64 c jmp_noncanonical s with
            | (Ok tt, s') => regs s' RIP = 2 ^ 47
            | _ => False
            end.
Proof. split; [reflexivity|]. intros [[|] [|]]; vm_compute; reflexivity. Qed.

(* hypotheses of the 64-bit register-register ALU refinements are satisfiable, and the run gives
   the expected sum and flags: 2^64-1 + 1 = 0 with CF, ZF, PF set, OF and SF clear *)
Example alu_hyps :
  let s := regs3 (2 ^ 64 - 1) 0 1 in
  wf_regs s /\ 0 <= rflags s < 2 ^ 63 /\ i_op_count add_rax_rcx = 2 /\
  i_op_kind add_rax_rcx 0 = OK_Register /\ i_op_kind add_rax_rcx 1 = OK_Register /\
  is_gpr64 (i_op_register add_rax_rcx 0) = true /\ is_gpr64 (i_op_register add_rax_rcx 1) = true /\
  i_code add_rax_rcx = C_Add_rm64_r64 /\
  forall c, match instr_add_rm64_r64 c add_rax_rcx s with
            | (Ok tt, s') => regs s' RAX = 0 /\ rflags s' = CF + ZF + PF
            | _ => False
            end.
Proof.
  cbv zeta. split; [apply regs3_wf; cbn; lia|]. split; [cbn; lia|].
  repeat (split; [reflexivity|]). intros [[|] [|]]; vm_compute; split; reflexivity.
Qed.

(* KF-C06-store-reads-destination, as a refuted statement: MOV [RAX], RCX into an area that is
   writable but not readable.  The specification (and every CPU) completes the store; the emulator
   loads the destination first and fails with a permission error, in both build configurations. *)
From AxG Require Import I_mov.

Definition mov_store : instr :=
  {| i_code := C_Mov_rm64_r64; i_mnemonic := M_Mov; i_len := 3; i_ip := 4096; i_next_ip := 4099; i_op_count := 2;
     i_op0_kind := OK_Memory; i_op1_kind := OK_Register; i_op2_kind := OK_Register; i_op3_kind := OK_Register;
     i_op0_register := RNone; i_op1_register := RCX; i_op2_register := RNone; i_op3_register := RNone;
     i_memory_base := RAX; i_memory_index := RNone; i_memory_index_scale := 1; i_memory_displacement64 := 0;
     i_memory_segment := DS;
     i_immediate8 := 0; i_immediate8_2nd := 0; i_immediate16 := 0; i_immediate32 := 0; i_immediate64 := 0;
     i_immediate8to16 := 0; i_immediate8to32 := 0; i_immediate8to64 := 0; i_immediate32to64 := 0;
     i_near_branch64 := 0 |}.

Definition wo_area : area := {| a_start := 8192; a_len := 16; a_data := repeat 0 16; a_access := PROT_WRITE |}.
Definition wo_state : mstate := set_mem (regs3 8192 0 258) [wo_area].

Theorem store_to_write_only_refuted :
  wf_regs wo_state /\ Inv (mem wo_state) /\ wf_mem_instr mov_store /\
  match isa_exec (SMov 64) mov_store wo_state with
  | IDone s1 _ => byte_at (mem s1) 8192 = Some 2 /\ byte_at (mem s1) 8193 = Some 1
  | _ => False
  end /\
  forall c, instr_mov_rm64_r64 c mov_store wo_state = (Err EPerm, wo_state).
Proof.
  split; [apply (regs3_wf 8192 0 258); cbn; lia|].
  split.
  { split; [|cbn; auto]. constructor; [|constructor]. unfold area_ok, wo_area; cbn.
    repeat split; try lia. repeat constructor; lia. }
  split.
  { unfold wf_mem_instr, mov_store, addr_reg; cbn.
    repeat match goal with |- _ /\ _ => split end; try lia; try (intros [H|H]; discriminate H); try (intros H; discriminate H).
    - left; reflexivity.
    - right; left; reflexivity. }
  split; [vm_compute; split; reflexivity|].
  intros [[|] [|]]; vm_compute; reflexivity.
Qed.
