(* C01/C02: MOV r16 / r/m16, imm (register destination) and XOR r/m16, imm against the ISA specification.
   The 32-bit part of MovImmP.v at another width (textual transformation, checked by Coq). *)
From Coq Require Import ZArith Bool List Lia.
From AxV Require Import Bits Outcome Codes Iced State Rt Mem Trace BitsP ByteStore MemP RegFile RegsP ISA CodeSem ReadonlyTac
  OperandP FlagsP CfP MovP RmP AluP AluRmP AluMemP MovxP Alu16P AluImm16P.
From AxG Require Import Flags Regs Operand Helpers I_lea I_mov I_xor.
Local Open Scope Z_scope.
Ltac Zify.zify_post_hook ::= Z.div_mod_to_equations.

(* ---- the same at 32 bits ---- *)
Section RmImm16NoFlags.
  Variables (c : cfg) (i : instr) (s : mstate).
  Hypothesis Hwf : wf_regs s.
  Hypothesis HI : Inv (mem s).
  Hypothesis Hn : i_op_count i = 2.
  Hypothesis Hs0 : rm16_shape i 0.
  Hypothesis Him : imm16_shape i.

  Lemma calc_rm_imm_16_shape (op : Z -> Z -> outcome Z) fset fclear :
    exists v, read_op i 1 16 s = Some v /\ 0 <= v < 2 ^ 16 /\
    match read_op i 0 16 s with
    | Some d =>
        0 <= d < 2 ^ 16 /\
        forall res, op d v = Ok res ->
          calculate_rm_imm_16 c i op fset fclear s =
          bind (set_flags_u16 c fset fclear res)
               (fun _ => if Z.land fset NO_WRITEBACK =? 0 then dest_write16 c i res else ret tt) s
    | None => exists e, calculate_rm_imm_16 c i op fset fclear s = (Err e, s)
    end.
  Proof.
    destruct (imm16_operand c i s Hn Him) as (dd & v & O1 & CV & RV & Hv). exists v. split; [exact RV|]. split; [exact Hv|].
    assert (SA : lift (debug_assert_that c (2 =? 2)) s = (Ok tt, s)) by (unfold lift, debug_assert_that, assert_that; destruct (dbg c); reflexivity).
    unfold calculate_rm_imm_16, read_op, dest_write16.
    destruct Hs0 as [[K0 H0]|[K0 Hm]]; rewrite K0.
    - assert (O0 : instruction_operand c i 0 s = (Ok (OpRegister (i_op_register i 0)), s))
        by (apply operand_register; [rewrite Hn; reflexivity|exact K0|reflexivity|apply gpr16_supported; exact H0]).
      assert (OP : instruction_operands_2 c i s = (Ok (OpRegister (i_op_register i 0), OpImmediate dd 2), s)).
      { unfold instruction_operands_2. rewrite (bind_ok _ _ _ _ _ O0). rewrite (bind_ok _ _ _ _ _ O1). reflexivity. }
      rewrite rf_read_mod16 by exact H0.
      assert (Hd : 0 <= rf_read (regs s) (i_op_register i 0) < 2 ^ 16) by (apply rf_read_range16; exact H0).
      split; [exact Hd|]. intros res Hop.
      rewrite (bind_ok _ _ _ _ _ OP). cbv beta iota.
      rewrite bind_assoc. rewrite (bind_ok _ _ _ _ _ SA). rewrite (bind_ok _ _ _ _ _ (eq_refl : ret (cast U64 U16 dd) s = _)).
      rewrite CV.
      rewrite (bind_ok _ _ _ _ _ (reg_read_16_ok c _ s Hwf H0)). rewrite (cast_u64_u16_id _ Hd). rewrite Hop.
      rewrite (bind_ok _ _ _ _ _ (eq_refl : lift (Ok res) s = _)). unfold bind.
      destruct (set_flags_u16 c fset fclear res s) as [[[]|e|p|] s1]; try reflexivity.
      destruct (Z.land fset NO_WRITEBACK =? 0); [|reflexivity].
      destruct (reg_write_16 c (i_op_register i 0) (cast U16 U64 res) s1) as [[[]|e|p|] s2]; reflexivity.
    - destruct (operand_address c i 0 s Hwf Hm ltac:(rewrite Hn; reflexivity) K0) as (O0 & EA & _).
      assert (OP : instruction_operands_2 c i s = (Ok (OpMemory (memop_of i), OpImmediate dd 2), s)).
      { unfold instruction_operands_2. rewrite (bind_ok _ _ _ _ _ O0). rewrite (bind_ok _ _ _ _ _ O1). reflexivity. }
      unfold load. change (bytes_of 16) with 2%nat.
      rewrite (bind_ok _ _ _ _ _ OP). cbv beta iota.
      rewrite bind_assoc. rewrite (bind_ok _ _ _ _ _ SA). rewrite (bind_ok _ _ _ _ _ (eq_refl : ret (cast U64 U16 dd) s = _)).
      rewrite CV.
      rewrite (bind_ok _ _ _ _ _ EA). change mem_read_16 with (mem_read_n 2).
      destruct (mem_read_n_cases 2 (ea i s) s HI) as [(d & E & R)|(e & E)]; rewrite E.
      + split; [exact R|]. intros res Hop.
        rewrite (bind_ok _ _ _ _ _ E). rewrite (cast_u64_u16_id d R). rewrite Hop.
        rewrite (bind_ok _ _ _ _ _ (eq_refl : lift (Ok res) s = _)).
        destruct (Z.land fset NO_WRITEBACK =? 0); unfold store_tail16, bind;
          destruct (set_flags_u16 c fset fclear res s) as [[[]|e|p|] s1]; try reflexivity.
        destruct (mem_addr c (memop_of i) s1) as [[a|e|p|] s2]; try reflexivity.
        destruct (mem_write_16 a (cast U16 U64 res) s2) as [[[]|e|p|] s3]; reflexivity.
      + exists e. rewrite (bind_err _ _ _ _ _ E). reflexivity.
  Qed.
End RmImm16NoFlags.

Section MovImm16Forms.
  Variables (c : cfg) (i : instr) (s : mstate).
  Hypothesis Hwf : wf_regs s.
  Hypothesis HI : Inv (mem s).
  Hypothesis Hn : i_op_count i = 2.

  Lemma mov_reg_imm16_core :
    i_op_kind i 0 = OK_Register -> is_gpr16 (i_op_register i 0) = true -> imm16_shape i ->
    exists s', calculate_rm_imm_16 c i (fun _ v_s => Ok v_s) FLAGS_UNAFFECTED 0 s = (Ok tt, s') /\
               isa_exec (SMov 16) i s = IDone s' 0.
  Proof.
    intros K0 H0 Him.
    destruct (calc_rm_imm_16_shape c i s Hwf HI Hn (or_introl (conj K0 H0)) Him (fun _ v_s => Ok v_s) FLAGS_UNAFFECTED 0)
      as (v & RV & Hv & SH).
    unfold read_op in SH. rewrite K0 in SH. destruct SH as [Hd SH].
    rewrite (SH _ eq_refl). rewrite (bind_ok _ _ _ _ _ (set_flags16_unaffected c _ s)).
    change (Z.land FLAGS_UNAFFECTED NO_WRITEBACK =? 0) with true. cbv iota.
    unfold dest_write16. rewrite K0. rewrite (cast_u16_u64_id v Hv). rewrite (reg_write_16_ok c _ _ s Hwf H0 Hv).
    eexists. split; [reflexivity|]. cbn [isa_exec]. rewrite RV. unfold write_op. rewrite K0. reflexivity.
  Qed.

  Theorem mov_r16_imm16_refines :
    i_op_kind i 0 = OK_Register -> is_gpr16 (i_op_register i 0) = true -> imm16_shape i ->
    (i_code i = C_Mov_r16_imm16 -> exists s', instr_mov_r16_imm16 c i s = (Ok tt, s') /\ isa_exec (SMov 16) i s = IDone s' 0) /\
    (i_code i = C_Mov_rm16_imm16 -> exists s', instr_mov_rm16_imm16 c i s = (Ok tt, s') /\ isa_exec (SMov 16) i s = IDone s' 0).
  Proof.
    intros K0 H0 Him. split; intros Ec.
    - unfold instr_mov_r16_imm16. rewrite Ec. rewrite (bind_ok _ _ _ _ _ (dbg_code_ok c s _ eq_refl)). exact (mov_reg_imm16_core K0 H0 Him).
    - unfold instr_mov_rm16_imm16. rewrite Ec. rewrite (bind_ok _ _ _ _ _ (dbg_code_ok c s _ eq_refl)). exact (mov_reg_imm16_core K0 H0 Him).
  Qed.

  Lemma xor_imm16_core :
    0 <= rflags s < 2 ^ 64 -> rm16_shape i 0 -> imm16_shape i ->
    rmw16_refines i s XOR (calculate_rm_imm_16 c i (fun v_d v_s => Ok (Z.lxor v_d v_s)) (Z.lor (Z.lor FLAG_ZF FLAG_SF) FLAG_PF) (Z.lor FLAG_OF FLAG_CF) s).
  Proof.
    intros Hrf Hs0 Him. unfold rmw16_refines. cbn [isa_exec]. unfold exec_alu.
    destruct (calc_rm_imm_16_shape c i s Hwf HI Hn Hs0 Him (fun v_d v_s => Ok (Z.lxor v_d v_s)) (Z.lor (Z.lor FLAG_ZF FLAG_SF) FLAG_PF) (Z.lor FLAG_OF FLAG_CF))
      as (v & RV & Hv & SH).
    rewrite RV.
    destruct (read_op i 0 16 s) as [d|]; [|destruct SH as [e SH]; exists e, 0; left; exact SH]. destruct SH as [Hd SH].
    rewrite (SH _ eq_refl).
    change (Z.lor (Z.lor FLAG_ZF FLAG_SF) FLAG_PF) with (arith_fs false false).
    change (Z.lor FLAG_OF FLAG_CF) with 2049.
    rewrite (bind_ok _ _ _ _ _ (set_flags_u16_arith c false false _ s Hrf)).
    change (Z.land (arith_fs false false) NO_WRITEBACK =? 0) with true. cbv iota.
    cbn [alu b2f]. change (0 + 0) with 0. rewrite !Z.add_0_l.
    pose proof (lxor_range16 _ _ Hd Hv) as Hres.
    match goal with |- context [dest_write16 c i ?res (with_flags s ?mk ?bits)] =>
      pose proof (dest_write16_spec c i s Hwf HI Hn Hs0 (set_status (rflags s) mk bits) res Hres) as ST;
      cbv zeta in ST; fold (with_flags s mk bits) in ST;
      destruct (write_op i 0 16 res (with_flags s mk bits)) as [s2|];
      [rewrite ST; cbn [opt_done]; split; reflexivity
      |destruct ST as [e ST]; rewrite ST; cbn [opt_done]; exists e; eexists; right; reflexivity]
    end.
  Qed.

  Theorem xor_rm16_imm_refines :
    0 <= rflags s < 2 ^ 64 -> rm16_shape i 0 -> imm16_shape i ->
    (i_code i = C_Xor_rm16_imm8 -> rmw16_refines i s XOR (instr_xor_rm16_imm8 c i s)) /\
    rmw16_refines i s XOR (instr_xor_rm16_imm16 c i s) /\
    (i_code i = C_Xor_AX_imm16 -> rmw16_refines i s XOR (instr_xor_ax_imm16 c i s)).
  Proof.
    intros Hrf Hs0 Him. repeat split.
    - intros Ec. unfold instr_xor_rm16_imm8. rewrite Ec. rewrite (bind_ok _ _ _ _ _ (dbg_code_ok c s _ eq_refl)). exact (xor_imm16_core Hrf Hs0 Him).
    - exact (xor_imm16_core Hrf Hs0 Him).
    - intros Ec. unfold instr_xor_ax_imm16. rewrite Ec. rewrite (bind_ok _ _ _ _ _ (dbg_code_ok c s _ eq_refl)). exact (xor_imm16_core Hrf Hs0 Him).
  Qed.
End MovImm16Forms.
