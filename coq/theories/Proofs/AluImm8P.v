(* C01/C02/C06: the 8-bit ALU forms with an immediate source (r/m8, imm8; the AL, imm8 short forms; the 0x82
   aliases) against the ISA specification.  AluImm32P.v at a quarter of the width (textual transformation,
   checked by Coq). *)
From Coq Require Import ZArith Bool List Lia.
From AxV Require Import Bits Outcome Codes Iced State Rt Mem Trace BitsP ByteStore MemP RegFile RegsP ISA CodeSem ReadonlyTac
  OperandP FlagsP CfP MovP RmP AluP AluRmP AluMemP MovxP Alu8P.
From AxG Require Import Flags Regs Operand Helpers I_add I_and I_xor I_sub I_cmp.
Local Open Scope Z_scope.
Ltac Zify.zify_post_hook ::= Z.div_mod_to_equations.

Definition imm8_shape (i : instr) : Prop :=
  (i_op_kind i 1 = OK_Immediate8_2nd /\ 0 <= i_immediate8_2nd i < 2 ^ 8) \/
  (i_op_kind i 1 = OK_Immediate8 /\ 0 <= i_immediate8 i < 2 ^ 8).

Lemma imm8b_roundtrip v : 0 <= v < 2 ^ 8 -> cast U64 U8 (cast U8 U64 v) = v.
Proof.
  intros H. unfold cast, Bits.sem, enc, modulus; cbn [signed width].
  change (2 ^ (8 - 1)) with 128. change (2 ^ 8) with 256 in *. change (2 ^ 64) with 18446744073709551616.
  destruct (v <? 128); lia.
Qed.
Lemma imm8_roundtrip v : 0 <= v < 2 ^ 8 -> cast U64 U8 (cast U8 U64 v) = v.
Proof. intros H. rewrite (cast_u8_u64_id v H). apply cast_u64_u8_id. exact H. Qed.

Section RmImm8.
  Variables (c : cfg) (i : instr) (s : mstate).
  Hypothesis Hwf : wf_regs s.
  Hypothesis HI : Inv (mem s).
  Hypothesis Hn : i_op_count i = 2.
  Hypothesis Hs0 : rm8_shape i 0.
  Hypothesis Him : imm8_shape i.

  Lemma imm8_operand :
    exists d v, instruction_operand c i 1 s = (Ok (OpImmediate d 1), s) /\ cast U64 U8 d = v /\
                read_op i 1 8 s = Some v /\ 0 <= v < 2 ^ 8.
  Proof.
    unfold instruction_operand, read_op, assert_that. rewrite Hn. cbn [Z.ltb Z.compare].
    destruct Him as [[K R]|[K R]]; rewrite K; cbn [imm_of].
    - eexists. exists (i_immediate8_2nd i). split; [reflexivity|]. split; [apply imm8b_roundtrip; exact R|].
      split; [rewrite Z.mod_small by exact R; reflexivity|exact R].
    - eexists. exists (i_immediate8 i). split; [reflexivity|]. split; [apply imm8_roundtrip; exact R|].
      split; [rewrite Z.mod_small by exact R; reflexivity|exact R].
  Qed.

  Lemma calc_rm_imm_8f_shape (op : Z -> Z -> outcome (Z * Z)) fset fclear :
    exists v, read_op i 1 8 s = Some v /\ 0 <= v < 2 ^ 8 /\
    match read_op i 0 8 s with
    | Some d =>
        0 <= d < 2 ^ 8 /\
        forall res fl, op d v = Ok (res, fl) -> Z.land fl NO_WRITEBACK = 0 ->
          calculate_rm_imm_8f c i op fset fclear s =
          bind (set_flags_u8 c (Z.lor fset fl) fclear res)
               (fun _ => if Z.land fset NO_WRITEBACK =? 0 then dest_write8 c i res else ret tt) s
    | None => exists e, calculate_rm_imm_8f c i op fset fclear s = (Err e, s)
    end.
  Proof.
    destruct imm8_operand as (dd & v & O1 & CV & RV & Hv). exists v. split; [exact RV|]. split; [exact Hv|].
    assert (SA : lift (debug_assert_that c (1 =? 1)) s = (Ok tt, s)) by (unfold lift, debug_assert_that, assert_that; destruct (dbg c); reflexivity).
    unfold calculate_rm_imm_8f, read_op, dest_write8.
    destruct Hs0 as [[K0 H0]|[K0 Hm]]; rewrite K0.
    - assert (O0 : instruction_operand c i 0 s = (Ok (OpRegister (i_op_register i 0)), s))
        by (apply operand_register; [rewrite Hn; reflexivity|exact K0|reflexivity|apply gpr8_supported; exact H0]).
      assert (OP : instruction_operands_2 c i s = (Ok (OpRegister (i_op_register i 0), OpImmediate dd 1), s)).
      { unfold instruction_operands_2. rewrite (bind_ok _ _ _ _ _ O0). rewrite (bind_ok _ _ _ _ _ O1). reflexivity. }
      rewrite rf_read_mod8 by exact H0.
      assert (Hd : 0 <= rf_read (regs s) (i_op_register i 0) < 2 ^ 8) by (apply rf_read_range8; exact H0).
      split; [exact Hd|]. intros res fl Hop Hfl.
      rewrite (bind_ok _ _ _ _ _ OP). cbv beta iota.
      rewrite bind_assoc. rewrite (bind_ok _ _ _ _ _ SA). rewrite (bind_ok _ _ _ _ _ (eq_refl : ret (cast U64 U8 dd) s = _)).
      rewrite CV.
      rewrite (bind_ok _ _ _ _ _ (reg_read_8_ok c _ s Hwf H0)). rewrite (cast_u64_u8_id _ Hd). rewrite Hop.
      rewrite (bind_ok _ _ _ _ _ (eq_refl : lift (Ok (res, fl)) s = _)). cbv beta iota.
      assert (DA : lift (debug_assert_that c (Z.land fl NO_WRITEBACK =? 0)) s = (Ok tt, s)).
      { unfold lift, debug_assert_that, assert_that. rewrite Hfl. destruct (dbg c); reflexivity. }
      rewrite (bind_ok _ _ _ _ _ DA). unfold bind.
      destruct (set_flags_u8 c (Z.lor fset fl) fclear res s) as [[[]|e|p|] s1]; try reflexivity.
      destruct (Z.land fset NO_WRITEBACK =? 0); [|reflexivity].
      destruct (reg_write_8 c (i_op_register i 0) (cast U8 U64 res) s1) as [[[]|e|p|] s2]; reflexivity.
    - destruct (operand_address c i 0 s Hwf Hm ltac:(rewrite Hn; reflexivity) K0) as (O0 & EA & _).
      assert (OP : instruction_operands_2 c i s = (Ok (OpMemory (memop_of i), OpImmediate dd 1), s)).
      { unfold instruction_operands_2. rewrite (bind_ok _ _ _ _ _ O0). rewrite (bind_ok _ _ _ _ _ O1). reflexivity. }
      unfold load. change (bytes_of 8) with 1%nat.
      rewrite (bind_ok _ _ _ _ _ OP). cbv beta iota.
      rewrite bind_assoc. rewrite (bind_ok _ _ _ _ _ SA). rewrite (bind_ok _ _ _ _ _ (eq_refl : ret (cast U64 U8 dd) s = _)).
      rewrite CV.
      rewrite (bind_ok _ _ _ _ _ EA). change mem_read_8 with (mem_read_n 1).
      destruct (mem_read_n_cases 1 (ea i s) s HI) as [(d & E & R)|(e & E)]; rewrite E.
      + split; [exact R|]. intros res fl Hop Hfl.
        rewrite (bind_ok _ _ _ _ _ E). rewrite (cast_u64_u8_id d R). rewrite Hop.
        rewrite (bind_ok _ _ _ _ _ (eq_refl : lift (Ok (res, fl)) s = _)). cbv beta iota.
        assert (DA : lift (debug_assert_that c (Z.land fl NO_WRITEBACK =? 0)) s = (Ok tt, s)).
        { unfold lift, debug_assert_that, assert_that. rewrite Hfl. destruct (dbg c); reflexivity. }
        rewrite (bind_ok _ _ _ _ _ DA).
        destruct (Z.land fset NO_WRITEBACK =? 0); unfold store_tail8, bind;
          destruct (set_flags_u8 c (Z.lor fset fl) fclear res s) as [[[]|e|p|] s1]; try reflexivity.
        destruct (mem_addr c (memop_of i) s1) as [[a|e|p|] s2]; try reflexivity.
        destruct (mem_write_8 a (cast U8 U64 res) s2) as [[[]|e|p|] s3]; reflexivity.
      + exists e. rewrite (bind_err _ _ _ _ _ E). reflexivity.
  Qed.
End RmImm8.

Section Imm8Forms.
  Variables (c : cfg) (i : instr) (s : mstate).
  Hypothesis Hwf : wf_regs s.
  Hypothesis HI : Inv (mem s).
  Hypothesis Hrf : 0 <= rflags s < 2 ^ 63.
  Hypothesis Hn : i_op_count i = 2.
  Hypothesis Hs0 : rm8_shape i 0.
  Hypothesis Him : imm8_shape i.

  Let Hrf64 : 0 <= rflags s < 2 ^ 64.
  Proof. change (2 ^ 63) with 9223372036854775808 in Hrf. change (2 ^ 64) with 18446744073709551616. lia. Qed.

  Ltac finish Hres :=
    match goal with |- context [dest_write8 c i ?res (with_flags s ?mk ?bits)] =>
      let ST := fresh "ST" in
      pose proof (dest_write8_spec c i s Hwf HI Hn Hs0 (set_status (rflags s) mk bits) res Hres) as ST;
      cbv zeta in ST; fold (with_flags s mk bits) in ST;
      destruct (write_op i 0 8 res (with_flags s mk bits)) as [s2|];
      [rewrite ST; cbn [opt_done]; split; reflexivity
      |destruct ST as [e ST]; rewrite ST; cbn [opt_done]; exists e; eexists; right; reflexivity]
    end.

  Lemma add_imm8_core :
    rmw8_refines i s ADD (calculate_rm_imm_8f c i (fun v_d v_s => (let v_result := (wadd I8 (cast U8 I8 v_d) (cast U8 I8 v_s)) in
      t1_v <~ (add_chk c U16 (cast U8 U16 v_d) (cast U8 U16 v_s)) ;;
      Ok (((cast I8 U8 v_result), (Z.lor (if ((negb ((Z.land (cast I8 U8 v_result) 128) =? (Z.land v_d 128))) && (negb ((Z.land (cast I8 U8 v_result) 128) =? (Z.land v_s 128)))) then FLAG_OF else 0) (if (negb ((Z.land t1_v 256) =? 0)) then FLAG_CF else 0)))))%out)
      (Z.lor (Z.lor FLAG_SF FLAG_ZF) FLAG_PF) (Z.lor FLAG_OF FLAG_CF) s).
  Proof.
    unfold rmw8_refines; cbn [isa_exec]; unfold exec_alu.
    match goal with |- context [calculate_rm_imm_8f c i ?op ?fs ?fc s] =>
      destruct (calc_rm_imm_8f_shape c i s Hwf HI Hn Hs0 Him op fs fc) as (v & RV & Hv & SH) end.
    rewrite RV.
    destruct (read_op i 0 8 s) as [d|]; [|destruct SH as [e SH]; exists e, 0; left; exact SH]. destruct SH as [Hd SH].
    set (cfb := 2 ^ 8 <=? d + v). set (ofb := negb (fits_signed 8 (sgn 8 d + sgn 8 v))).
    assert (Hfl : Z.land (Z.lor (b2f ofb FLAG_OF) (b2f cfb FLAG_CF)) NO_WRITEBACK = 0) by (destruct ofb, cfb; reflexivity).
    rewrite (SH _ _ (add8_closure_i8 c d v Hd Hv) Hfl).
    change (Z.lor (Z.lor (Z.lor FLAG_SF FLAG_ZF) FLAG_PF) (Z.lor (b2f ofb FLAG_OF) (b2f cfb FLAG_CF))) with (arith_fs cfb ofb).
    change (Z.lor FLAG_OF FLAG_CF) with 2049.
    rewrite (bind_ok _ _ _ _ _ (set_flags_u8_arith c cfb ofb _ s Hrf64)).
    change (Z.land (Z.lor (Z.lor FLAG_SF FLAG_ZF) FLAG_PF) NO_WRITEBACK =? 0) with true. cbv iota.
    cbn [alu]. rewrite !Z.add_0_r. fold cfb ofb.
    assert (Hres : 0 <= (d + v) mod 2 ^ 8 < 2 ^ 8) by (apply Z.mod_pos_bound; reflexivity).
    finish Hres.
  Qed.

  Lemma sub_imm8_core :
    rmw8_refines i s SUB (calculate_rm_imm_8f c i (fun v_d v_s => (Ok ((let v_result := (cast I8 U8 (wsub I8 (cast U8 I8 v_d) (cast U8 I8 v_s))) in
      (v_result, (Z.lor (if (negb ((Z.land (Z.land (Z.lxor (cast U8 I16 v_d) (cast U8 I16 v_s)) (Z.lxor (cast U8 I16 v_d) (cast U8 I16 v_result))) 128) =? 0)) then FLAG_OF else 0) (if ((Z.land (wsub I16 (Z.lor (cast U8 I16 v_d) 256) (cast U8 I16 v_s)) 256) =? 0) then FLAG_CF else 0)))))))
      (Z.lor (Z.lor FLAG_SF FLAG_ZF) FLAG_PF) (Z.lor FLAG_CF FLAG_OF) s).
  Proof.
    unfold rmw8_refines; cbn [isa_exec]; unfold exec_alu.
    match goal with |- context [calculate_rm_imm_8f c i ?op ?fs ?fc s] =>
      destruct (calc_rm_imm_8f_shape c i s Hwf HI Hn Hs0 Him op fs fc) as (v & RV & Hv & SH) end.
    rewrite RV.
    destruct (read_op i 0 8 s) as [d|]; [|destruct SH as [e SH]; exists e, 0; left; exact SH]. destruct SH as [Hd SH].
    set (cfb := d <? v). set (ofb := negb (fits_signed 8 (sgn 8 d - sgn 8 v))).
    assert (Hfl : Z.land (Z.lor (b2f ofb FLAG_OF) (b2f cfb FLAG_CF)) NO_WRITEBACK = 0) by (destruct ofb, cfb; reflexivity).
    rewrite (SH _ _ (f_equal Ok (sub8_closure d v Hd Hv)) Hfl).
    change (Z.lor (Z.lor (Z.lor FLAG_SF FLAG_ZF) FLAG_PF) (Z.lor (b2f ofb FLAG_OF) (b2f cfb FLAG_CF))) with (arith_fs cfb ofb).
    change (Z.lor FLAG_CF FLAG_OF) with 2049.
    rewrite (bind_ok _ _ _ _ _ (set_flags_u8_arith c cfb ofb _ s Hrf64)).
    change (Z.land (Z.lor (Z.lor FLAG_SF FLAG_ZF) FLAG_PF) NO_WRITEBACK =? 0) with true. cbv iota.
    cbn [alu]. fold cfb ofb.
    assert (Hres : 0 <= (d - v) mod 2 ^ 8 < 2 ^ 8) by (apply Z.mod_pos_bound; reflexivity).
    finish Hres.
  Qed.

  Lemma cmp_imm8_core :
    rmw8_refines i s CMP (calculate_rm_imm_8f c i (fun v_d v_s => (Ok ((let v_result := (cast I8 U8 (wsub I8 (cast U8 I8 v_d) (cast U8 I8 v_s))) in
      (v_result, (Z.lor (if (negb ((Z.land (Z.land (Z.lxor (cast U8 I16 v_d) (cast U8 I16 v_s)) (Z.lxor (cast U8 I16 v_d) (cast U8 I16 v_result))) 128) =? 0)) then FLAG_OF else 0) (if ((Z.land (wsub I16 (Z.lor (cast U8 I16 v_d) 256) (cast U8 I16 v_s)) 256) =? 0) then FLAG_CF else 0)))))))
      (Z.lor (Z.lor (Z.lor NO_WRITEBACK FLAG_SF) FLAG_ZF) FLAG_PF) (Z.lor FLAG_CF FLAG_OF) s).
  Proof.
    unfold rmw8_refines; cbn [isa_exec]; unfold exec_alu.
    match goal with |- context [calculate_rm_imm_8f c i ?op ?fs ?fc s] =>
      destruct (calc_rm_imm_8f_shape c i s Hwf HI Hn Hs0 Him op fs fc) as (v & RV & Hv & SH) end.
    rewrite RV.
    destruct (read_op i 0 8 s) as [d|]; [|destruct SH as [e SH]; exists e, 0; left; exact SH]. destruct SH as [Hd SH].
    set (cfb := d <? v). set (ofb := negb (fits_signed 8 (sgn 8 d - sgn 8 v))).
    assert (Hfl : Z.land (Z.lor (b2f ofb FLAG_OF) (b2f cfb FLAG_CF)) NO_WRITEBACK = 0) by (destruct ofb, cfb; reflexivity).
    rewrite (SH _ _ (f_equal Ok (sub8_closure d v Hd Hv)) Hfl).
    change (Z.lor (Z.lor (Z.lor (Z.lor NO_WRITEBACK FLAG_SF) FLAG_ZF) FLAG_PF) (Z.lor (b2f ofb FLAG_OF) (b2f cfb FLAG_CF))) with (cmp_fs cfb ofb).
    change (Z.lor FLAG_CF FLAG_OF) with 2049.
    rewrite (bind_ok _ _ _ _ _ (set_flags_u8_cmp c cfb ofb _ s Hrf)).
    change (Z.land (Z.lor (Z.lor (Z.lor NO_WRITEBACK FLAG_SF) FLAG_ZF) FLAG_PF) NO_WRITEBACK =? 0) with false. cbv iota.
    cbn [alu]. fold cfb ofb. split; reflexivity.
  Qed.

  Lemma and_imm8_core :
    rmw8_refines i s AND (calculate_rm_imm_8f c i (fun v_s v_d => (Ok (((Z.land v_s v_d), 0))))
      (Z.lor (Z.lor FLAG_SF FLAG_ZF) FLAG_PF) (Z.lor FLAG_OF FLAG_CF) s).
  Proof.
    unfold rmw8_refines; cbn [isa_exec]; unfold exec_alu.
    match goal with |- context [calculate_rm_imm_8f c i ?op ?fs ?fc s] =>
      destruct (calc_rm_imm_8f_shape c i s Hwf HI Hn Hs0 Him op fs fc) as (v & RV & Hv & SH) end.
    rewrite RV.
    destruct (read_op i 0 8 s) as [d|]; [|destruct SH as [e SH]; exists e, 0; left; exact SH]. destruct SH as [Hd SH].
    rewrite (SH _ 0 eq_refl eq_refl).
    change (Z.lor (Z.lor (Z.lor FLAG_SF FLAG_ZF) FLAG_PF) 0) with (arith_fs false false).
    change (Z.lor FLAG_OF FLAG_CF) with 2049.
    rewrite (bind_ok _ _ _ _ _ (set_flags_u8_arith c false false _ s Hrf64)).
    change (Z.land (Z.lor (Z.lor FLAG_SF FLAG_ZF) FLAG_PF) NO_WRITEBACK =? 0) with true. cbv iota.
    cbn [alu b2f]. change (0 + 0) with 0. rewrite !Z.add_0_l.
    pose proof (land_range8 _ _ Hd Hv) as Hres.
    finish Hres.
  Qed.

  Ltac with_assert Ec f core := unfold f; rewrite Ec; rewrite (bind_ok _ _ _ _ _ (dbg_code_ok c s _ eq_refl)); exact core.

  Theorem add_rm8_imm8_82_refines : i_code i = C_Add_rm8_imm8_82 -> rmw8_refines i s ADD (instr_add_rm8_imm8_82 c i s).
  Proof. intros Ec. with_assert Ec instr_add_rm8_imm8_82 add_imm8_core. Qed.
  Theorem add_rm8_imm8_refines : rmw8_refines i s ADD (instr_add_rm8_imm8 c i s).
  Proof. exact add_imm8_core. Qed.
  Theorem add_al_imm8_refines : i_code i = C_Add_AL_imm8 -> rmw8_refines i s ADD (instr_add_al_imm8 c i s).
  Proof. intros Ec. with_assert Ec instr_add_al_imm8 add_imm8_core. Qed.
  Theorem sub_rm8_imm8_82_refines : i_code i = C_Sub_rm8_imm8_82 -> rmw8_refines i s SUB (instr_sub_rm8_imm8_82 c i s).
  Proof. intros Ec. with_assert Ec instr_sub_rm8_imm8_82 sub_imm8_core. Qed.
  Theorem sub_rm8_imm8_refines : rmw8_refines i s SUB (instr_sub_rm8_imm8 c i s).
  Proof. exact sub_imm8_core. Qed.
  Theorem sub_al_imm8_refines : i_code i = C_Sub_AL_imm8 -> rmw8_refines i s SUB (instr_sub_al_imm8 c i s).
  Proof. intros Ec. with_assert Ec instr_sub_al_imm8 sub_imm8_core. Qed.
  Theorem cmp_rm8_imm8_82_refines : i_code i = C_Cmp_rm8_imm8_82 -> rmw8_refines i s CMP (instr_cmp_rm8_imm8_82 c i s).
  Proof. intros Ec. with_assert Ec instr_cmp_rm8_imm8_82 cmp_imm8_core. Qed.
  Theorem cmp_rm8_imm8_refines : rmw8_refines i s CMP (instr_cmp_rm8_imm8 c i s).
  Proof. exact cmp_imm8_core. Qed.
  Theorem cmp_al_imm8_refines : i_code i = C_Cmp_AL_imm8 -> rmw8_refines i s CMP (instr_cmp_al_imm8 c i s).
  Proof. intros Ec. with_assert Ec instr_cmp_al_imm8 cmp_imm8_core. Qed.
  Theorem and_rm8_imm8_82_refines : i_code i = C_And_rm8_imm8_82 -> rmw8_refines i s AND (instr_and_rm8_imm8_82 c i s).
  Proof. intros Ec. with_assert Ec instr_and_rm8_imm8_82 and_imm8_core. Qed.
  Theorem and_rm8_imm8_refines : rmw8_refines i s AND (instr_and_rm8_imm8 c i s).
  Proof. exact and_imm8_core. Qed.
  Theorem and_al_imm8_refines : i_code i = C_And_AL_imm8 -> rmw8_refines i s AND (instr_and_al_imm8 c i s).
  Proof. intros Ec. with_assert Ec instr_and_al_imm8 and_imm8_core. Qed.
End Imm8Forms.
