(* C14: the built-in pipe handler implements FIFO byte streams. *)
From Coq Require Import ZArith Bool List Lia.
From AxV Require Import Bits Outcome Codes Iced State Rt Mem Exec Sys ListP.
Local Open Scope Z_scope.
Import ListNotations.

(* ---- association lists ---- *)
Lemma assoc_set_same {A} k (v : A) l : assoc k (assoc_set k v l) = Some v.
Proof.
  induction l as [|[k' v'] l IH]; cbn; [rewrite Z.eqb_refl; reflexivity|].
  destruct (Z.eqb_spec k k') as [->|Hne]; cbn; [rewrite Z.eqb_refl; reflexivity|].
  destruct (Z.eqb_spec k k'); [contradiction|]. exact IH.
Qed.

Lemma assoc_set_other {A} k k2 (v : A) l : k2 <> k -> assoc k2 (assoc_set k v l) = assoc k2 l.
Proof.
  intros Hne. induction l as [|[k' v'] l IH]; cbn.
  - destruct (Z.eqb_spec k2 k); [contradiction|reflexivity].
  - destruct (Z.eqb_spec k k') as [->|Hk]; cbn.
    + destruct (Z.eqb_spec k2 k'); [contradiction|reflexivity].
    + destruct (Z.eqb_spec k2 k'); [reflexivity|exact IH].
Qed.

(* the queue of a pipe, identified by its read end *)
Definition queue (s : mstate) (r : Z) : option (list Z) := assoc r (sy_contents (sys s)).
Definition write_end_of (s : mstate) (fd : Z) : option Z := assoc fd (sy_pipes_w (sys s)).

Lemma set_reg_sys s r v : sys (set_reg s r v) = sys s.
Proof. reflexivity. Qed.
Lemma set_reg_mem s r v : mem (set_reg s r v) = mem s.
Proof. reflexivity. Qed.

Lemma upd_same0 f r v : upd f r v r = v.
Proof. unfold upd. destruct r; try reflexivity. cbn. rewrite Z.eqb_refl. reflexivity. Qed.

Lemma read_bytes_pure a n s r s' : mem_read_bytes a n s = (r, s') -> s' = s.
Proof.
  unfold mem_read_bytes. destruct (find_area (mem s) a) as [ar|]; [|inversion 1; reflexivity].
  repeat match goal with |- context [if ?c then _ else _] => destruct c end; inversion 1; reflexivity.
Qed.

(* ---- write(2) on a pipe's write end ---- *)
Theorem pipe_write_spec s fd r bytes :
  regs s RAX = 1 -> write_end_of s fd = None \/ True ->
  regs s RDI = fd -> assoc fd (sy_pipes_w (sys s)) = Some r ->
  mem_read_bytes (regs s RSI) (regs s RDX) s = (Ok bytes, s) ->
  exists s', hook_pipe_write s = (Ok Handled, s') /\
    queue s' r = Some (match queue s r with Some q => q | None => nil end ++ bytes) /\
    (forall r', r' <> r -> queue s' r' = queue s r') /\
    regs s' RAX = regs s RDX /\ mem s' = mem s /\
    sy_pipes_w (sys s') = sy_pipes_w (sys s) /\ sy_pipes_r (sys s') = sy_pipes_r (sys s).
Proof.
  intros Hrax _ Hfd Hw Hr. unfold hook_pipe_write. rewrite Hrax. cbn [Z.eqb Pos.eqb negb].
  rewrite Hfd, Hw, Hr. eexists. split; [reflexivity|].
  unfold queue. cbn [sys set_reg set_regs upd_sys set_sys sys_set_pipes sy_contents regs mem sy_pipes_w sy_pipes_r].
  split; [apply assoc_set_same|]. split; [intros r' Hne; apply assoc_set_other; exact Hne|].
  split; [apply upd_same0|]. auto.
Qed.

(* ---- read(2) on a pipe's read end ---- *)
Theorem pipe_read_spec s fd avail s1 :
  regs s RAX = 0 -> regs s RDI = fd -> queue s fd = Some avail ->
  let k := Z.min (regs s RDX) (zlen avail) in
  mem_write_bytes (regs s RSI) (firstn (Z.to_nat k) avail) s = (Ok tt, s1) ->
  exists s', hook_pipe_read s = (Ok Handled, s') /\
    regs s' RAX = k /\ k <= regs s RDX /\ k <= zlen avail /\
    queue s' fd = Some (skipn (Z.to_nat k) avail) /\
    (forall r', r' <> fd -> queue s' r' = queue s1 r') /\
    mem s' = mem s1 /\
    sy_pipes_w (sys s') = sy_pipes_w (sys s1) /\ sy_pipes_r (sys s') = sy_pipes_r (sys s1).
Proof.
  intros Hrax Hfd Hq k Hw. unfold hook_pipe_read. rewrite Hrax. cbn [Z.eqb negb].
  unfold queue in Hq. rewrite Hfd, Hq. fold k. rewrite Hw. eexists. split; [reflexivity|].
  unfold queue. cbn [sys set_reg set_regs upd_sys set_sys sys_set_pipes sy_contents regs mem sy_pipes_w sy_pipes_r].
  split; [apply upd_same0|]. split; [unfold k; lia|]. split; [unfold k; lia|].
  split; [apply assoc_set_same|]. split; [intros r' Hne; apply assoc_set_other; exact Hne|]. auto.
Qed.

(* descriptors that are not pipe ends are left to other hooks, nothing changes *)
Theorem pipe_read_not_mine s : regs s RAX = 0 -> queue s (regs s RDI) = None -> hook_pipe_read s = (Ok Unhandled, s).
Proof. intros H Hq. unfold hook_pipe_read. rewrite H. cbn. unfold queue in Hq. rewrite Hq. reflexivity. Qed.

Theorem pipe_write_not_mine s : regs s RAX = 1 -> assoc (regs s RDI) (sy_pipes_w (sys s)) = None ->
  hook_pipe_write s = (Ok Unhandled, s).
Proof. intros H Hq. unfold hook_pipe_write. rewrite H. cbn. rewrite Hq. reflexivity. Qed.

Theorem pipe_hooks_other_syscalls s :
  (regs s RAX <> 0 -> hook_pipe_read s = (Ok Unhandled, s)) /\
  (regs s RAX <> 1 -> hook_pipe_write s = (Ok Unhandled, s)).
Proof.
  split; intros H.
  - unfold hook_pipe_read. destruct (Z.eqb_spec (regs s RAX) 0); [contradiction|reflexivity].
  - unfold hook_pipe_write. destruct (Z.eqb_spec (regs s RAX) 1); [contradiction|reflexivity].
Qed.

(* ---- FIFO over arbitrary interleavings ----
   Abstract operations on the pipe table: write bytes to a read end's queue, read up to
   n bytes from it.  [pipe_run] is what the handlers do to sy_contents (by the two
   theorems above); the stream law is proved for every operation sequence. *)
Inductive pop := PWrite (r : Z) (bytes : list Z) | PRead (r : Z) (count : Z).

Definition pstep (o : pop) (q : list (Z * list Z)) : list (Z * list Z) * list Z :=
  match o with
  | PWrite r bytes => (assoc_set r (match assoc r q with Some l => l | None => nil end ++ bytes) q, nil)
  | PRead r count =>
      match assoc r q with
      | Some avail => let k := Z.min count (zlen avail) in
                      (assoc_set r (skipn (Z.to_nat k) avail) q, firstn (Z.to_nat k) avail)
      | None => (q, nil)
      end
  end.

(* everything written to pipe r so far / everything read from it so far *)
Fixpoint written (r : Z) (ops : list pop) : list Z :=
  match ops with
  | nil => nil
  | PWrite r' b :: ops' => (if r =? r' then b else nil) ++ written r ops'
  | _ :: ops' => written r ops'
  end.

Fixpoint prun (ops : list pop) (q : list (Z * list Z)) : list (Z * list Z) * list (Z * list Z) :=
  (* returns the final table and, per read, (pipe, bytes returned) in order *)
  match ops with
  | nil => (q, nil)
  | o :: ops' =>
      let '(q1, out) := pstep o q in
      let '(q2, outs) := prun ops' q1 in
      (q2, match o with PRead r _ => (r, out) :: outs | _ => outs end)
  end.

Fixpoint reads_of (r : Z) (outs : list (Z * list Z)) : list Z :=
  match outs with
  | nil => nil
  | (r', b) :: outs' => (if r =? r' then b else nil) ++ reads_of r outs'
  end.

Definition qof (q : list (Z * list Z)) (r : Z) : list Z := match assoc r q with Some l => l | None => nil end.

(* stream law: (initial queue) ++ (all bytes written) = (all bytes read, in order) ++ (what is still queued) *)
Theorem fifo_stream r : forall ops q,
  assoc r q <> None ->
  let '(q', outs) := prun ops q in
  qof q r ++ written r ops = reads_of r outs ++ qof q' r /\ assoc r q' <> None.
Proof.
  induction ops as [|o ops IH]; intros q Hr; cbn [prun written].
  - cbn. rewrite app_nil_r. auto.
  - destruct o as [r' bytes | r' count]; cbn [pstep].
    + (* write *)
      set (q1 := assoc_set r' (match assoc r' q with Some l => l | None => nil end ++ bytes) q).
      assert (Hr1 : assoc r q1 <> None).
      { unfold q1. destruct (Z.eq_dec r r') as [->|Hne]; [rewrite assoc_set_same; discriminate|].
        rewrite assoc_set_other by exact Hne. exact Hr. }
      specialize (IH q1 Hr1). destruct (prun ops q1) as [q2 outs]. destruct IH as [IH Hn]. split; [|exact Hn].
      rewrite <- IH. unfold qof, q1.
      destruct (Z.eqb_spec r r') as [->|Hne].
      * rewrite assoc_set_same. rewrite app_assoc. reflexivity.
      * rewrite assoc_set_other by exact Hne. reflexivity.
    + (* read *)
      destruct (assoc r' q) as [avail|] eqn:Ea.
      * set (k := Z.min count (zlen avail)).
        set (q1 := assoc_set r' (skipn (Z.to_nat k) avail) q).
        assert (Hr1 : assoc r q1 <> None).
        { unfold q1. destruct (Z.eq_dec r r') as [->|Hne]; [rewrite assoc_set_same; discriminate|].
          rewrite assoc_set_other by exact Hne. exact Hr. }
        specialize (IH q1 Hr1). destruct (prun ops q1) as [q2 outs]. destruct IH as [IH Hn]. split; [|exact Hn].
        cbn [reads_of]. destruct (Z.eqb_spec r r') as [->|Hne].
        -- rewrite <- app_assoc. rewrite <- IH. unfold qof, q1. rewrite assoc_set_same, Ea.
           rewrite app_assoc. rewrite firstn_skipn. reflexivity.
        -- cbn [app]. rewrite <- IH. unfold qof, q1. rewrite assoc_set_other by exact Hne. reflexivity.
      * specialize (IH q Hr). destruct (prun ops q) as [q2 outs]. destruct IH as [IH Hn]. split; [|exact Hn].
        cbn [reads_of]. destruct (Z.eqb_spec r r') as [->|Hne]; [congruence|]. exact IH.
Qed.

(* a read returns at most the requested and at most the available number of bytes *)
Theorem fifo_read_bounds q r count :
  0 <= count ->
  let '(_, out) := pstep (PRead r count) q in zlen out <= count /\ zlen out <= zlen (qof q r).
Proof.
  intros Hc. cbn. unfold qof. destruct (assoc r q) as [avail|]; cbn; [|unfold zlen; cbn; lia].
  unfold zlen. rewrite firstn_length. lia.
Qed.

(* distinct pipes never share data *)
Theorem fifo_independent q o r : (match o with PWrite r' _ | PRead r' _ => r' <> r end) -> assoc r (fst (pstep o q)) = assoc r q.
Proof.
  destruct o as [r' b|r' n]; cbn; intros Hne.
  - apply assoc_set_other. auto.
  - destruct (assoc r' q); cbn; [apply assoc_set_other; auto|reflexivity].
Qed.

(* the handlers do exactly [pstep] to the pipe table *)
Theorem pipe_write_is_pstep s fd r bytes s' :
  regs s RAX = 1 -> regs s RDI = fd -> assoc fd (sy_pipes_w (sys s)) = Some r ->
  mem_read_bytes (regs s RSI) (regs s RDX) s = (Ok bytes, s) ->
  hook_pipe_write s = (Ok Handled, s') ->
  sy_contents (sys s') = fst (pstep (PWrite r bytes) (sy_contents (sys s))).
Proof.
  intros Hrax Hfd Hw Hr. unfold hook_pipe_write. rewrite Hrax. cbn [Z.eqb Pos.eqb negb].
  rewrite Hfd, Hw, Hr. inversion 1; subst. reflexivity.
Qed.

Theorem pipe_read_is_pstep s fd avail s1 s' :
  regs s RAX = 0 -> regs s RDI = fd -> queue s fd = Some avail ->
  mem_write_bytes (regs s RSI) (firstn (Z.to_nat (Z.min (regs s RDX) (zlen avail))) avail) s = (Ok tt, s1) ->
  sys s1 = sys s ->
  hook_pipe_read s = (Ok Handled, s') ->
  sy_contents (sys s') = fst (pstep (PRead fd (regs s RDX)) (sy_contents (sys s))) /\
  firstn (Z.to_nat (Z.min (regs s RDX) (zlen avail))) avail = snd (pstep (PRead fd (regs s RDX)) (sy_contents (sys s))).
Proof.
  intros Hrax Hfd Hq Hw Hsys. unfold hook_pipe_read. rewrite Hrax. cbn [Z.eqb negb].
  unfold queue in Hq. rewrite Hfd, Hq, Hw. inversion 1; subst.
  cbn [pstep]. rewrite Hq. cbn [fst snd sys set_reg set_regs upd_sys set_sys sys_set_pipes sy_contents].
  rewrite Hsys. auto.
Qed.
