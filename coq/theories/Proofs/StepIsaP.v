(* From an instruction function to the whole step: what Axecutor::step does with a decoded
   instruction whose (generated) instruction function returns Ok - RIP was advanced before the
   instruction ran, the instruction counter is incremented, the machine is marked finished when RIP
   reaches the end of the code.  Together with gen/DispatchEq.v (the dispatcher IS the instruction
   function) and the refinement theorems this gives: one step = the ISA specification's instruction on
   the state with RIP advanced, plus the bookkeeping. *)
From Coq Require Import ZArith Bool List Lia.
From AxV Require Import Bits Outcome Codes Iced State Rt Mem Exec ByteStore ListP MemP ExecP RegFile RegsP ISA CodeSem OperandP FlagsP AluP NoCrashP StepCrashP FrameTac FrameP.
From AxG Require Import Dispatch DispatchEq I_add.
Local Open Scope Z_scope.

Definition after_step (s1 : mstate) : mstate :=
  let s6 := set_icount s1 (icount s1 + 1) in
  if regs s6 RIP =? code_end s6 then set_finished s6 true else s6.

Section Bridge.
  Variable decode : Z -> list Z -> option instr.
  Variables (c : cfg) (env : hookenv) (s : mstate) (bytes : list Z) (i : instr).
  Hypothesis Hf : finished s = false.
  Hypothesis Hl : (match max_instr s with Some limit => limit <=? icount s | None => false end) = false.
  Hypothesis Hb : mem_read_executable_bytes (regs s RIP) s = (Ok bytes, s).
  Hypothesis Hd : decode (regs s RIP) bytes = Some i.
  Hypothesis Hsup : supported_mnemonic_try_from c (i_mnemonic i) (entered s i) = (Ok (i_mnemonic i), entered s i).
  Hypothesis Hnone : env (i_mnemonic i) = None.

  Notation step := (Exec.step decode switch_instruction_mnemonic supported_mnemonic_try_from).

  Theorem step_of_ok s1 :
    switch_instruction_mnemonic c i (entered s i) = (Ok tt, s1) ->
    0 <= icount s1 < 2 ^ 64 - 1 ->
    step c env s = (Ok (negb (finished (after_step s1))), after_step s1).
  Proof.
    intros Hdisp Hcnt. unfold Exec.step, decode_at. rewrite Hf, Hl, Hb, Hd. fold (entered s i).
    rewrite Hsup, Hnone, Hdisp.
    assert (A : add_chk c U64 (icount s1) 1 = Ok (icount s1 + 1)).
    { unfold add_chk, wadd, in_range, Bits.sem, enc, modulus; cbn [signed width].
      change (2 ^ 64) with 18446744073709551616 in *.
      rewrite Z.mod_small by lia.
      destruct (ovf c); [|reflexivity].
      destruct (Z.leb_spec 0 (icount s1 + 1)); destruct (Z.ltb_spec (icount s1 + 1) 18446744073709551616); cbn [andb]; try reflexivity; lia. }
    rewrite A. reflexivity.
  Qed.

  Theorem step_of_err s1 e :
    switch_instruction_mnemonic c i (entered s i) = (Err e, s1) -> e <> EFinish ->
    step c env s = (Err e, s1).
  Proof.
    intros Hdisp Hne. unfold Exec.step, decode_at. rewrite Hf, Hl, Hb, Hd. fold (entered s i).
    rewrite Hsup, Hnone, Hdisp. destruct e; try reflexivity. contradiction.
  Qed.

  (* instance: one step over ADD r/m64, r64 on registers is the specification's ADD on the state with
     RIP advanced, then the bookkeeping *)
  Theorem step_add_rm64_r64 :
    i_mnemonic i = M_Add -> i_code i = C_Add_rm64_r64 ->
    wf_regs s -> 0 <= i_next_ip i < 2 ^ 64 -> 0 <= rflags s < 2 ^ 64 -> 0 <= icount s < 2 ^ 64 - 1 ->
    i_op_count i = 2 -> i_op_kind i 0 = OK_Register -> i_op_kind i 1 = OK_Register ->
    is_gpr64 (i_op_register i 0) = true -> is_gpr64 (i_op_register i 1) = true ->
    exists s1, isa_exec (SAlu ADD 64) i (entered s i) = IDone s1 0 /\
               step c env s = (Ok (negb (finished (after_step s1))), after_step s1).
  Proof.
    intros Hm Hc Hwf Hnip Hrf Hic Hn K0 K1 H0 H1.
    assert (Hwf' : wf_regs (entered s i)).
    { intros r. unfold entered. cbn [regs set_regs]. unfold upd. destruct (reg_eqb RIP r); [exact Hnip|apply Hwf]. }
    destruct (add_rm64_r64_refines c i (entered s i) Hwf' Hrf Hn K0 K1 H0 H1 Hc) as (s1 & E & I).
    exists s1. split; [exact I|].
    apply step_of_ok.
    - rewrite (dispatch_instr_add_rm64_r64 c i _ Hm Hc). exact E.
    - pose proof (FrameP.dispatch_keeps_counters c i (entered s i)) as K.
      rewrite (dispatch_instr_add_rm64_r64 c i _ Hm Hc) in K. rewrite E in K. cbn [snd] in K.
      destruct K as (K & _). change (icount (entered s i)) with (icount s) in K. rewrite K. exact Hic.
  Qed.
End Bridge.
