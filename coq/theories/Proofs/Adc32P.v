(* C02: ADC at 32 bits (r32 <- r/m32; r/m32 <- r32 with register or memory destination).  The closure lemma is
   the 64-bit one of AdcP.v at half the width. *)
From Coq Require Import ZArith Bool List Lia.
From AxV Require Import Bits Outcome Codes Iced State Rt Mem Trace BitsP ByteStore MemP RegFile RegsP ISA CodeSem ReadonlyTac
  OperandP FlagsP CfP MovP RmP AluP AluRmP AluMemP Alu32P AluImmP AdcP.
From AxG Require Import Flags Regs Operand Helpers I_adc.
Local Open Scope Z_scope.
Ltac Zify.zify_post_hook ::= Z.div_mod_to_equations.

Lemma adc32_closure d sv (cin : bool) :
  0 <= d < 2 ^ 32 -> 0 <= sv < 2 ^ 32 ->
  (let v_result := wadd U64 (wadd U64 (cast U32 U64 d) (cast U32 U64 sv)) (of_bool cin) in
   (cast U64 U32 v_result,
    Z.lor (if negb (Z.land v_result 2147483648 =? Z.land (cast U32 U64 d) 2147483648) &&
              negb (Z.land v_result 2147483648 =? Z.land (cast U32 U64 sv) 2147483648)
           then FLAG_OF else 0)
          (if negb (Z.land v_result 4294967296 =? 0) then FLAG_CF else 0)))
  = (let cz := if cin then 1 else 0 in
     ((d + sv + cz) mod 2 ^ 32,
      Z.lor (b2f (negb (fits_signed 32 (sgn 32 d + sgn 32 sv + cz))) FLAG_OF) (b2f (2 ^ 32 <=? d + sv + cz) FLAG_CF))).
Proof.
  intros Hd Hs. cbv zeta. rewrite (cast_u32_u64_id d Hd), (cast_u32_u64_id sv Hs).
  set (cz := if cin then 1 else 0). assert (Hc : 0 <= cz <= 1) by (unfold cz; destruct cin; lia).
  assert (OB : of_bool cin = cz) by (unfold cz; destruct cin; reflexivity). rewrite OB.
  assert (W : wadd U64 (wadd U64 d sv) cz = d + sv + cz).
  { unfold wadd, enc, modulus; cbn [width]. change (2 ^ 64) with 18446744073709551616.
    change (2 ^ 32) with 4294967296 in *. rewrite (Z.mod_small (d + sv)) by lia. apply Z.mod_small. lia. }
  rewrite W. set (R := d + sv + cz).
  assert (HR : 0 <= R < 2 ^ 33) by (unfold R; change (2 ^ 33) with 8589934592; change (2 ^ 32) with 4294967296 in *; lia).
  assert (C64 : cast U64 U32 R = R mod 2 ^ 32).
  { unfold cast, Bits.sem, enc, modulus; cbn [signed width]. reflexivity. }
  rewrite C64. set (r := R mod 2 ^ 32). assert (Hr : 0 <= r < 2 ^ 32) by (apply Z.mod_pos_bound; reflexivity).
  change 2147483648 with (2 ^ 31). change 4294967296 with (2 ^ 32).
  (* bit 63 of the 65-bit sum is bit 63 of the truncated sum *)
  assert (B63 : Z.land R (2 ^ 31) = Z.land r (2 ^ 31)).
  { apply Z.bits_inj'. intros k Hk. rewrite !Z.land_spec. destruct (Z.eq_dec k 31) as [->|N].
    - unfold r. rewrite Z.mod_pow2_bits_low by lia. reflexivity.
    - rewrite Z.pow2_bits_false by lia. rewrite !andb_false_r. reflexivity. }
  rewrite B63.
  rewrite (land_signbit r 31), (land_signbit d 31), (land_signbit sv 31) by (try lia; assumption).
  rewrite (land_signbit R 32) by (try lia; exact HR).
  f_equal. f_equal.
  - unfold fits_signed, sgn. change (2 ^ (32 - 1)) with (2 ^ 31). unfold r, R in *.
    change (2 ^ 31) with 2147483648 in *. change (2 ^ 32) with 4294967296 in *.
    change (2 ^ 33) with 8589934592 in *.
    destruct (Z.leb_spec 2147483648 ((d + sv + cz) mod 4294967296));
      destruct (Z.leb_spec 2147483648 d); destruct (Z.leb_spec 2147483648 sv);
      destruct (Z.ltb_spec d 2147483648); destruct (Z.ltb_spec sv 2147483648); try lia;
      cbn [Z.eqb negb andb b2f];
      match goal with |- context [(?a <=? ?b) && (?x <? ?y)] => destruct (Z.leb_spec a b); destruct (Z.ltb_spec x y) end;
      cbn [negb andb b2f]; try reflexivity; lia.
  - destruct (2 ^ 32 <=? R); reflexivity.
Qed.

Section Adc32Forms.
  Variables (c : cfg) (i : instr) (s : mstate).
  Hypothesis Hwf : wf_regs s.
  Hypothesis HI : Inv (mem s).
  Hypothesis Hrf : 0 <= rflags s < 2 ^ 64.
  Hypothesis Hn : i_op_count i = 2.

  Let cin := flag (rflags s) CF.
  Let cz := if cin then 1 else 0.

  (* ADC r32, r/m32 *)
  Theorem adc_r32_rm32_refines :
    i_op_kind i 0 = OK_Register -> is_gpr32 (i_op_register i 0) = true -> rm32_shape i 1 ->
    i_code i = C_Adc_r32_rm32 -> rmw32_refines i s ADC (instr_adc_r32_rm32 c i s).
  Proof.
    intros K0 H0 Hs1 Ec. unfold rmw32_refines, instr_adc_r32_rm32. rewrite Ec.
    rewrite (bind_ok _ _ _ _ _ (dbg_code_ok c s _ eq_refl)).
    rewrite (bind_ok _ _ _ _ _ (eq_refl : get_rflags s = (Ok (rflags s), s))).
    cbn [isa_exec]. unfold exec_alu. unfold read_op at 1. rewrite K0. rewrite rf_read_mod32 by exact H0.
    match goal with |- context [calculate_r_rm_32f c i ?op ?fs ?fc s] =>
      pose proof (calc_r_rm_32f_shape c i s Hwf HI Hn K0 H0 Hs1 op fs fc) as SH end.
    destruct (read_op i 1 32 s) as [sv|]; [|destruct SH as [e SH]; exists e, 0; left; exact SH]. destruct SH as [Hsv SH].
    set (d := rf_read (regs s) (i_op_register i 0)) in *.
    assert (Hd : 0 <= d < 2 ^ 32) by (apply rf_read_range32; exact H0).
    change (negb (Z.land (rflags s) FLAG_CF =? 0)) with cin in *.
    set (cfb := 2 ^ 32 <=? d + sv + cz). set (ofb := negb (fits_signed 32 (sgn 32 d + sgn 32 sv + cz))).
    assert (Hfl : Z.land (Z.lor (b2f ofb FLAG_OF) (b2f cfb FLAG_CF)) NO_WRITEBACK = 0) by (destruct ofb, cfb; reflexivity).
    rewrite (SH _ _ (f_equal Ok (adc32_closure d sv cin Hd Hsv)) Hfl).
    change (Z.lor (Z.lor (Z.lor FLAG_SF FLAG_ZF) FLAG_PF) (Z.lor (b2f ofb FLAG_OF) (b2f cfb FLAG_CF))) with (arith_fs cfb ofb).
    change (Z.lor FLAG_OF FLAG_CF) with 2049.
    rewrite (bind_ok _ _ _ _ _ (set_flags_u32_arith c cfb ofb _ s Hrf)).
    change (Z.land (Z.lor (Z.lor FLAG_SF FLAG_ZF) FLAG_PF) NO_WRITEBACK =? 0) with true. cbv iota.
    cbv zeta. rewrite cast_u32_u64_id by (apply Z.mod_pos_bound; reflexivity).
    rewrite reg_write_32_ok by (first [exact H0|apply Z.mod_pos_bound; reflexivity]).
    cbn [alu]. fold cin. fold cz. fold cfb ofb. unfold write_op. rewrite K0. cbn [opt_done]. split; reflexivity.
  Qed.

  (* ADC r/m32, r32 (register or memory destination) *)
  Theorem adc_rm32_r32_refines :
    rm32_shape i 0 -> i_op_kind i 1 = OK_Register -> is_gpr32 (i_op_register i 1) = true ->
    i_code i = C_Adc_rm32_r32 -> rmw32_refines i s ADC (instr_adc_rm32_r32 c i s).
  Proof.
    intros Hs0 K1 H1 Ec. unfold rmw32_refines, instr_adc_rm32_r32. rewrite Ec.
    rewrite (bind_ok _ _ _ _ _ (dbg_code_ok c s _ eq_refl)).
    rewrite (bind_ok _ _ _ _ _ (eq_refl : get_rflags s = (Ok (rflags s), s))).
    cbn [isa_exec]. unfold exec_alu. unfold read_op at 2. rewrite K1. rewrite rf_read_mod32 by exact H1.
    match goal with |- context [calculate_rm_r_32f c i ?op ?fs ?fc s] =>
      pose proof (calc_rm_r_32f_shape c i s Hwf HI Hn K1 H1 op fs fc Hs0) as SH end.
    destruct (read_op i 0 32 s) as [d|]; [|destruct SH as [e SH]; exists e, 0; left; exact SH]. destruct SH as [Hd SH].
    set (sv := rf_read (regs s) (i_op_register i 1)) in *.
    assert (Hsv : 0 <= sv < 2 ^ 32) by (apply rf_read_range32; exact H1).
    change (negb (Z.land (rflags s) FLAG_CF =? 0)) with cin in *.
    set (cfb := 2 ^ 32 <=? d + sv + cz). set (ofb := negb (fits_signed 32 (sgn 32 d + sgn 32 sv + cz))).
    assert (Hfl : Z.land (Z.lor (b2f ofb FLAG_OF) (b2f cfb FLAG_CF)) NO_WRITEBACK = 0) by (destruct ofb, cfb; reflexivity).
    rewrite (SH _ _ (f_equal Ok (adc32_closure d sv cin Hd Hsv)) Hfl).
    change (Z.lor (Z.lor (Z.lor FLAG_SF FLAG_ZF) FLAG_PF) (Z.lor (b2f ofb FLAG_OF) (b2f cfb FLAG_CF))) with (arith_fs cfb ofb).
    change (Z.lor FLAG_OF FLAG_CF) with 2049.
    rewrite (bind_ok _ _ _ _ _ (set_flags_u32_arith c cfb ofb _ s Hrf)).
    change (Z.land (Z.lor (Z.lor FLAG_SF FLAG_ZF) FLAG_PF) NO_WRITEBACK =? 0) with true. cbv iota.
    cbv zeta. cbn [alu]. fold cin. fold cz. fold cfb ofb.
    assert (Hres : 0 <= (d + sv + cz) mod 2 ^ 32 < 2 ^ 32) by (apply Z.mod_pos_bound; reflexivity).
    match goal with |- context [dest_write32 c i ?res (with_flags s ?mk ?bits)] =>
      pose proof (dest_write32_spec c i s Hwf HI Hn Hs0 (set_status (rflags s) mk bits) res Hres) as ST;
      cbv zeta in ST; fold (with_flags s mk bits) in ST;
      destruct (write_op i 0 32 res (with_flags s mk bits)) as [s2|];
      [rewrite ST; cbn [opt_done]; split; reflexivity
      |destruct ST as [e ST]; rewrite ST; cbn [opt_done]; exists e; eexists; right; reflexivity]
    end.
  Qed.
End Adc32Forms.
