(* C18 at the level of step(): the log effect of a step is the log effect of dispatching the
   decoded instruction (hooks, decoding, counters never touch the log), and over any run the
   log expands to exactly the recorded events. *)
From Coq Require Import ZArith Bool List Lia.
From AxV Require Import Bits Outcome Codes Iced State Rt Mem Trace Exec BitsP RegFile ISA CodeSem
  ControlFlow TraceP QuietTac ReadonlyTac CfP.
From AxG Require Import Dispatch Quiet.
Local Open Scope Z_scope.
Import ListNotations.

Definition hook_quiet (f : hookfn) : Prop := forall s, same_log s (snd (f s)).
Definition hooks_quiet (env : hookenv) : Prop :=
  forall m h, env m = Some h -> Forall hook_quiet (h_before h) /\ Forall hook_quiet (h_after h).

Lemma run_functions_loop_quiet fs : Forall hook_quiet fs -> forall s, same_log s (snd (run_functions_loop fs s)).
Proof.
  induction fs as [|f fs IH]; intros H s; cbn [run_functions_loop].
  - split; reflexivity.
  - inversion H as [|? ? Hf Hfs]; subst. specialize (Hf s).
    destruct (f s) as [[res|e|p|] s1]; cbn [snd] in *; try exact Hf.
    destruct (finished s1 || _); [eapply same_log_trans; [exact Hf|split; reflexivity]|].
      eapply same_log_trans; [exact Hf|apply IH; assumption].
Qed.

Lemma run_functions_quiet fs : Forall hook_quiet fs -> forall s, same_log s (snd (run_functions fs s)).
Proof.
  intros H s. unfold run_functions.
  eapply same_log_trans; [|apply run_functions_loop_quiet; exact H]. split; reflexivity.
Qed.

Section StepLog.
  Variable decode : Z -> list Z -> option instr.

  Lemma decode_at_readonly a s : snd (decode_at decode a s) = s.
  Proof.
    unfold decode_at, mem_read_executable_bytes. destruct (find_area (mem s) a); [|reflexivity].
    repeat match goal with |- context [if ?c then _ else _] => destruct c end; cbn; try reflexivity.
    destruct (decode a _); reflexivity.
  Qed.

  Let step := Exec.step decode switch_instruction_mnemonic supported_mnemonic_try_from.

  (* either the step leaves the log alone, or it dispatched the instruction found at RIP from
     a state with the same log, and nothing after the dispatch touched the log *)
  Theorem step_log c env s :
    hooks_quiet env ->
    same_log s (snd (step c env s)) \/
    exists i s4,
      fst (decode_at decode (regs s RIP) s) = Ok i /\ same_log s s4 /\
      same_log (snd (switch_instruction_mnemonic c i s4)) (snd (step c env s)).
  Proof.
    intros HQ. unfold step, Exec.step.
    destruct (finished s); [left; apply same_log_refl|].
    destruct (match max_instr s with Some l => l <=? icount s | None => false end); [left; apply same_log_refl|].
    pose proof (decode_at_readonly (regs s RIP) s) as RO.
    destruct (decode_at decode (regs s RIP) s) as [[i|e|p|] s1]; cbn [snd fst] in *; subst s1;
      try (left; apply same_log_refl).
    set (s2 := set_regs s (upd (regs s) RIP (i_next_ip i))).
    pose proof (quiet_supported_mnemonic_try_from c (i_mnemonic i) s2) as QS.
    destruct (supported_mnemonic_try_from c (i_mnemonic i) s2) as [[mnem|e|p|] s3]; cbn [snd] in QS;
      try (left; eapply same_log_trans; [|exact QS]; split; reflexivity).
    assert (L3 : same_log s s3) by (eapply same_log_trans; [|exact QS]; split; reflexivity).
    assert (HB : forall s0, same_log s0 (snd (match env mnem with Some h => run_functions (h_before h) s0 | None => (Ok tt, s0) end))).
    { intros s0. destruct (env mnem) as [h|] eqn:E; [|apply same_log_refl]. apply run_functions_quiet. apply (HQ _ _ E). }
    assert (HA : forall s0, same_log s0 (snd (match env mnem with Some h => run_functions (h_after h) s0 | None => (Ok tt, s0) end))).
    { intros s0. destruct (env mnem) as [h|] eqn:E; [|apply same_log_refl]. apply run_functions_quiet. apply (HQ _ _ E). }
    specialize (HB s3).
    destruct (match env mnem with Some h => run_functions (h_before h) s3 | None => (Ok tt, s3) end) as [[[]|e|p|] s4];
      cbn [snd] in HB; try (left; eapply same_log_trans; eassumption).
    right. exists i, s4. split; [reflexivity|]. split; [eapply same_log_trans; eassumption|].
    destruct (switch_instruction_mnemonic c i s4) as [r5 s5]. cbn [snd].
    assert (Go : forall s5', same_log s5 s5' ->
      same_log s5 (snd (match add_chk c U64 (icount s5') 1 with
        | Ok n =>
            let s6 := set_icount s5' n in
            let s7 := if regs s6 RIP =? code_end s6 then set_finished s6 true else s6 in
            match (match env mnem with Some h => run_functions (h_after h) s7 | None => (Ok tt, s7) end) with
            | (Ok _, s8) => (Ok (negb (finished s8)), s8)
            | (Err e, s8) => (Err e, s8)
            | (Panic p, s8) => (Panic p, s8)
            | (Fuel, s8) => (Fuel, s8)
            end
        | Err e => (Err e, s5') | Panic p => (Panic p, s5') | Fuel => (Fuel, s5')
        end))).
    { intros s5' L. destruct (add_chk c U64 (icount s5') 1) as [n|e|p|]; cbn [snd]; try exact L.
      cbv zeta.
      set (s7 := if regs (set_icount s5' n) RIP =? code_end (set_icount s5' n) then set_finished (set_icount s5' n) true else set_icount s5' n).
      assert (L7 : same_log s5 s7).
      { eapply same_log_trans; [exact L|]. unfold s7. destruct (_ =? _); split; reflexivity. }
      specialize (HA s7).
      destruct (match env mnem with Some h => run_functions (h_after h) s7 | None => (Ok tt, s7) end) as [[[]|e|p|] s8];
        cbn [snd] in *; eapply same_log_trans; eassumption. }
    destruct r5 as [[]|e|p|]; cbn [snd]; try apply same_log_refl.
    - apply Go. apply same_log_refl.
    - destruct e; cbn [snd]; try apply same_log_refl. apply Go. split; reflexivity.
  Qed.
End StepLog.

(* ---- runs ---- *)
Inductive log_step : mstate -> list event -> mstate -> Prop :=
  | LS_quiet s s' : same_log s s' -> log_step s [] s'
  | LS_rec i s s' v : recorded i s s' v ->
      log_step s [{| e_ip := regs s RIP - i_len i; e_target := regs s' RIP; e_variant := v |}] s'.

Inductive log_run : mstate -> list event -> mstate -> Prop :=
  | LR_nil s : log_run s [] s
  | LR_cons s evs1 s1 evs s' : log_step s evs1 s1 -> log_run s1 evs s' -> log_run s (evs1 ++ evs) s'.

Definition cs_run (evs : list event) (cs : list Z) : list Z :=
  fold_left (fun cs e => cs_step (e_variant e) (e_target e) cs) evs cs.

Theorem log_run_spec s evs s' :
  log_run s evs s' ->
  expand (trace s') = expand (trace s) ++ evs /\
  call_stack s' = cs_run evs (call_stack s) /\
  (wf_log s -> wf_log s').
Proof.
  induction 1 as [s|s evs1 s1 evs s' Hstep Hrun (IH1 & IH2 & IH3)].
  - rewrite app_nil_r. split; [reflexivity|]. split; [reflexivity|]. intros W; exact W.
  - destruct Hstep as [s s1 (T & C)|i s s1 v (X & W & C)].
    + cbn [app]. rewrite IH1, IH2, T, C. split; [reflexivity|]. split; [reflexivity|].
      intros (W1 & W2 & W3). apply IH3. unfold wf_log. rewrite T. split; [assumption|]. split; assumption.
    + rewrite IH1, IH2, X, C. rewrite <- app_assoc. split; [reflexivity|]. split; [reflexivity|]. intros _. apply IH3. exact W.
Qed.

(* from an empty log: the trace stands for exactly the events of the run, every entry's
   level is the nesting depth of the events before it, and the call stack is the calls not
   yet returned from *)
Corollary log_run_from_empty s evs s' :
  trace s = [] -> call_stack s = [] -> log_run s evs s' ->
  expand (trace s') = evs /\ levels_ok [] (trace s') /\ maximal (trace s') /\
  call_stack s' = cs_run evs [].
Proof.
  intros T C H. destruct (log_run_spec _ _ _ H) as (E & CS & W).
  rewrite T in E. rewrite C in CS. cbn in E.
  assert (W0 : wf_log s) by (unfold wf_log; rewrite T; repeat split; constructor).
  destruct (W W0) as (W1 & W2 & _). repeat split; assumption.
Qed.

(* ---- C03: where a relative branch goes ---- *)
Theorem rel_branch_refines_isa c i sm s :
  is_cf_mnemonic (i_mnemonic i) = true -> pre i s ->
  code_sem (i_code i) = Some sm -> is_rel (Some sm) = true -> i_code i <> C_Jmp_rel8_16 ->
  0 <= i_near_branch64 i < 2 ^ 64 ->
  exists r s', switch_instruction_mnemonic c i s = (r, s') /\
    (r = Ok tt -> forall s1 u, isa_exec sm i s = IDone s1 u -> regs s' RIP = regs s1 RIP) /\
    (r = Ok tt -> taken (Some sm) s = false -> s' = s).
Proof.
  intros Hm Hpre Hsm Hrel Hcode Hnb.
  destruct (dispatch_cf c i Hm s Hpre) as (r & s' & E & H). cbv zeta in H. rewrite Hsm in H.
  exists r, s'. split; [exact E|].
  assert (Hrt : rel_target_of (Some sm) i = Some (i_near_branch64 i)).
  { unfold rel_target_of. rewrite Hrel. cbn [andb].
    destruct (code_eqb (i_code i) C_Jmp_rel8_16) eqn:Ce.
    - exfalso. apply Hcode. destruct (i_code i); try discriminate Ce. reflexivity.
    - cbn [negb]. unfold rel_target. rewrite cast_u64_i64_u64 by exact Hnb. reflexivity. }
  rewrite Hrt in H.
  split.
  - intros Hr s1 u Hisa. destruct (taken (Some sm) s) eqn:T.
    + destruct H as [(_ & _ & Hrip)|(Hn & _)]; [|contradiction]. rewrite Hrip.
      destruct sm; try discriminate Hrel; cbn [isa_exec taken] in *.
      * rewrite T in Hisa. unfold branch_to in Hisa. destruct (canonical _); inversion Hisa; subst. cbn. reflexivity.
      * unfold branch_to in Hisa. destruct (canonical _); inversion Hisa; subst. cbn. reflexivity.
      * destruct (negb (canonical _)); [discriminate|]. destruct (push_val 8 (regs s RIP) s); inversion Hisa; subst. cbn. reflexivity.
      * rewrite T in Hisa. unfold branch_to in Hisa. destruct (canonical _); inversion Hisa; subst. cbn. reflexivity.
      * rewrite T in Hisa. unfold branch_to in Hisa. destruct (canonical _); inversion Hisa; subst. cbn. reflexivity.
    + destruct H as [_ Hs]. rewrite (Hs Hr ltac:(discriminate)).
      destruct sm; try discriminate Hrel; cbn [isa_exec taken] in *; try discriminate T;
        rewrite T in Hisa; inversion Hisa; reflexivity.
  - intros Hr T. rewrite T in H. destruct H as [_ Hs]. apply Hs; [exact Hr|discriminate].
Qed.
