(* C18: the generated control-flow instructions record exactly the taken transfers. *)
From Coq Require Import ZArith Bool List Lia.
From AxV Require Import Bits Outcome Codes Iced State Rt Mem Trace BitsP RegFile RegsP ISA CodeSem
  ControlFlow TraceP QuietTac ReadonlyTac.
From AxG Require Import Flags Regs Operand Helpers Quiet Readonly
  I_call I_ret I_jmp I_ja I_jae I_jb I_jbe I_je I_jecxz I_jg I_jge I_jl I_jle I_jne I_jno I_jnp
  I_jns I_jo I_jp I_jrcxz I_js Dispatch.
Local Open Scope Z_scope.
Import ListNotations.

Definition wf_log (s : mstate) : Prop :=
  levels_ok [] (trace s) /\ maximal (trace s) /\ entries_ok (trace s).

(* room for one more event: nesting depths stay inside the i16 level, counts inside u64 *)
Definition room (s : mstate) : Prop :=
  (forall e, small_depths (expand (trace s) ++ [e])) /\
  Z.of_nat (length (expand (trace s))) + 1 < 2 ^ 64.

Definition pre (i : instr) (s : mstate) : Prop :=
  0 <= i_len i <= regs s RIP /\ regs s RIP < 2 ^ 64 /\ wf_log s /\ room s.

Definition recorded (i : instr) (s s' : mstate) (v : tvariant) : Prop :=
  expand (trace s') =
    expand (trace s) ++ [{| e_ip := regs s RIP - i_len i; e_target := regs s' RIP; e_variant := v |}] /\
  wf_log s' /\ call_stack s' = cs_step v (regs s' RIP) (call_stack s).

(* what an instruction may do to the log: record the one event and succeed, or fail and
   leave the log alone *)
Definition log_outcome (i : instr) (v : tvariant) (tgt : option Z) (s : mstate) (r : outcome unit) (s' : mstate) : Prop :=
  (r = Ok tt /\ recorded i s s' v /\ match tgt with Some t => regs s' RIP = t | None => True end) \/
  (r <> Ok tt /\ same_log s s').

(* relative forms: the target is the instruction's near-branch operand.  (JMP rel8 with a
   16-bit operand size is excluded: its truncation of RIP is vendor specific.) *)
Definition rel_target (i : instr) : Z := cast I64 U64 (cast U64 I64 (i_near_branch64 i)).
Definition is_rel (sm : option ISA.sem) : bool :=
  match sm with
  | Some (SJcc _) | Some SJmpRel | Some SCallRel | Some SJrcxz | Some SJecxz => true
  | _ => false
  end.
Definition rel_target_of (sm : option ISA.sem) (i : instr) : option Z :=
  if is_rel sm && negb (code_eqb (i_code i) C_Jmp_rel8_16) then Some (rel_target i) else None.

(* a taken transfer (by the ISA specification's branch condition) is recorded exactly once
   when the instruction completes; an untaken one leaves the log untouched *)
Definition cf_ok (i : instr) (F : MM unit) : Prop :=
  forall s, pre i s ->
    exists r s', F s = (r, s') /\
      let sm := code_sem (i_code i) in
      if taken sm s then log_outcome i (variant_of sm) (rel_target_of sm i) s r s'
      else same_log s s' /\ (r = Ok tt -> sm <> None -> s' = s).

Lemma log_outcome_weaken i v t s r s' : log_outcome i v (Some t) s r s' -> log_outcome i v None s r s'.
Proof. intros [(A & B & _)|H]; [left; split; [exact A|split; [exact B|exact I]]|right; exact H]. Qed.

(* recording one event from a state whose log and RIP are those of [s] *)
Lemma record_from c i tgt v s s0 :
  pre i s -> trace s0 = trace s -> regs s0 RIP = regs s RIP ->
  exists s1, add_trace c i tgt v s0 = (Ok tt, s1) /\ s1 = set_trace s0 (trace s1) /\
    expand (trace s1) = expand (trace s) ++ [{| e_ip := regs s RIP - i_len i; e_target := tgt; e_variant := v |}] /\
    levels_ok [] (trace s1) /\ maximal (trace s1) /\ entries_ok (trace s1).
Proof.
  intros (Hl & Hr & (W1 & W2 & W3) & (R1 & R2)) Et Er.
  pose proof (add_trace_spec c i tgt v s0) as H. cbv zeta in H. rewrite Et, Er in H.
  apply H; auto.
Qed.

Lemma rw64_rip c v s : reg_write_64 c RIP v s = (Ok tt, set_regs s (upd (regs s) RIP v)).
Proof. reflexivity. Qed.
Lemma rw64_rsp c v s : reg_write_64 c RSP v s = (Ok tt, set_regs s (upd (regs s) RSP v)).
Proof. reflexivity. Qed.
Lemma rr64_rip c s : reg_read_64 c RIP s = (Ok (regs s RIP), s).
Proof. reflexivity. Qed.
Lemma rr64_rsp c s : reg_read_64 c RSP s = (Ok (regs s RSP), s).
Proof. reflexivity. Qed.
Lemma rr64_rcx c s : reg_read_64 c RCX s = (Ok (regs s RCX), s).
Proof. reflexivity. Qed.


Ltac Zify.zify_post_hook ::= Z.div_mod_to_equations.
Lemma cast_u64_i64_u64 x : 0 <= x < 2 ^ 64 -> cast I64 U64 (cast U64 I64 x) = x.
Proof.
  intros H. unfold cast, Bits.sem, enc, modulus; cbn [signed width].
  change (2 ^ (64 - 1)) with 9223372036854775808. change (2 ^ 64) with 18446744073709551616 in *.
  destruct (x mod 18446744073709551616 <? 9223372036854775808); lia.
Qed.

(* the common tails *)
Lemma jump_tail c i tgt s :
  pre i s ->
  exists s', (trace_jump c i tgt;;; reg_write_64 c RIP tgt;;; ret tt)%M s = (Ok tt, s') /\
             regs s' RIP = tgt /\ recorded i s s' TJump.
Proof.
  intros Hpre. destruct (record_from c i tgt TJump s s Hpre eq_refl eq_refl) as (s1 & E & Es1 & X & W1 & W2 & W3).
  eexists. unfold bind, trace_jump. rewrite E. rewrite rw64_rip. cbn [ret]. split; [reflexivity|].
  unfold recorded. cbn [regs set_regs trace call_stack]. rewrite upd_same.
  split; [reflexivity|]. split; [exact X|]. split; [repeat split; assumption|].
  rewrite Es1. reflexivity.
Qed.

Lemma mem_write_bytes_keeps a d s :
  let s' := snd (mem_write_bytes a d s) in
  regs s' = regs s /\ trace s' = trace s /\ call_stack s' = call_stack s.
Proof.
  cbv zeta. unfold mem_write_bytes. destruct (find_area_idx (mem s) a) as [k|]; [|repeat split].
  destruct (nth_error (mem s) k) as [ar|]; [|repeat split].
  repeat match goal with |- context [if ?c then _ else _] => destruct c end; repeat split.
Qed.

Lemma rev_removelast {A} (l : list A) x r : rev l = x :: r -> rev r = removelast l.
Proof.
  intros H. assert (E : l = rev r ++ [x]).
  { rewrite <- (rev_involutive l), H. reflexivity. }
  rewrite E. rewrite removelast_last. reflexivity.
Qed.

Lemma bind_ok {A B} (m : MM A) (f : A -> MM B) s a s1 : m s = (Ok a, s1) -> bind m f s = f a s1.
Proof. intros H. unfold bind. rewrite H. reflexivity. Qed.
Lemma bind_assoc {A B C} (m : MM A) (f : A -> MM B) (g : B -> MM C) s :
  bind (bind m f) g s = bind m (fun x => bind (f x) g) s.
Proof. unfold bind. destruct (m s) as [[a|e|p|] s1]; reflexivity. Qed.
Lemma bind_ret_tt (m : MM unit) s : bind m (fun _ => ret tt) s = m s.
Proof. unfold bind, ret. destruct (m s) as [[[]|e|p|] s1]; reflexivity. Qed.

Lemma bind_notok {A B} (m : MM A) (f : A -> MM B) s r s1 :
  m s = (r, s1) -> (forall a, r <> Ok a) -> exists r', bind m f s = (r', s1) /\ (forall b, r' <> Ok b).
Proof.
  intros H N. unfold bind. rewrite H. destruct r as [a|e|p|]; [destruct (N a eq_refl)| | |];
    eexists; (split; [reflexivity|intros b; discriminate]).
Qed.

Lemma call_tail c i tgt s :
  pre i s ->
  let F := (_ <- (v_rip <- (reg_read_64 c RIP) ;;
                  v_rsp <- (reg_read_64 c RSP) ;;
                  _ <- (mem_write_64 v_rsp v_rip) ;;
                  _ <- (reg_write_64 c RSP (wsub U64 v_rsp 8)) ;;
                  ret (tt)) ;;
            _ <- (trace_call c i tgt) ;;
            _ <- (reg_write_64 c RIP tgt) ;;
            _ <- (call_stack_push tgt) ;;
            ret (tt))%M in
  exists r s', F s = (r, s') /\ log_outcome i TCall (Some tgt) s r s'.
Proof.
  intros Hpre. cbv zeta. rewrite !bind_assoc.
  rewrite (bind_ok _ _ _ _ _ (rr64_rip c s)). rewrite !bind_assoc.
  rewrite (bind_ok _ _ _ _ _ (rr64_rsp c s)). rewrite !bind_assoc.
  pose proof (mem_write_bytes_keeps (regs s RSP) (le_bytes 8 (regs s RIP)) s) as K. cbv zeta in K.
  change (mem_write_bytes (regs s RSP) (le_bytes 8 (regs s RIP)) s) with (mem_write_64 (regs s RSP) (regs s RIP) s) in K.
  destruct (mem_write_64 (regs s RSP) (regs s RIP) s) as [r1 s1] eqn:EM. cbn [snd] in K. destruct K as (K1 & K2 & K3).
  assert (D : (exists u, r1 = Ok u) \/ (forall a, r1 <> Ok a)).
  { destruct r1; [left; eexists; reflexivity|right; intros; discriminate ..]. }
  destruct D as [[[] ->]|N].
  2:{ destruct (bind_notok _ (fun _ => (_ <- (reg_write_64 c RSP (wsub U64 (regs s RSP) 8);;; ret tt);;
                                       _ <- trace_call c i tgt;; _ <- reg_write_64 c RIP tgt;; _ <- call_stack_push tgt;; ret tt)%M) _ _ _ EM N) as (r' & E' & N').
      exists r', s1. split; [exact E'|]. right. split; [apply N'|split; assumption]. }
  rewrite (bind_ok _ _ _ _ _ EM). rewrite !bind_assoc. rewrite (bind_ok _ _ _ _ _ (rw64_rsp c _ s1)).
  rewrite (bind_ok _ _ _ _ _ (eq_refl : ret tt _ = (Ok tt, _))).
  set (s2 := set_regs s1 (upd (regs s1) RSP (wsub U64 (regs s RSP) 8))).
  assert (T2 : trace s2 = trace s) by exact K2.
  assert (R2 : regs s2 RIP = regs s RIP) by (unfold s2; cbn [regs set_regs]; rewrite K1; reflexivity).
  destruct (record_from c i tgt TCall s s2 Hpre T2 R2) as (s3 & E & Es3 & X & W1 & W2 & W3).
  unfold trace_call. rewrite (bind_ok _ _ _ _ _ E). rewrite (bind_ok _ _ _ _ _ (rw64_rip c _ s3)).
  unfold bind, call_stack_push, ret. eexists. eexists. split; [reflexivity|]. left. split; [reflexivity|].
  unfold recorded. cbn [regs set_regs set_call_stack trace call_stack]. rewrite upd_same.
  split; [|reflexivity].
  split; [exact X|]. split; [repeat split; assumption|].
  rewrite Es3. cbn [call_stack set_trace]. unfold s2. cbn [call_stack set_regs]. rewrite K3. reflexivity.
Qed.

Lemma ret_tail c i rsp s :
  pre i s ->
  let F := (v_rip <- (mem_read_64 rsp) ;;
            t3_v <- call_stack_pop ;;
            _ <- (trace_return c i v_rip) ;;
            _ <- (reg_write_64 c RIP v_rip) ;;
            _ <- (reg_write_64 c RSP rsp) ;;
            ret (tt))%M in
  exists r s', F s = (r, s') /\ log_outcome i TReturn None s r s'.
Proof.
  intros Hpre. cbv zeta.
  pose proof (readonly_mem_read_64 rsp s) as RO.
  destruct (mem_read_64 rsp s) as [r1 s1] eqn:EM. cbn [snd] in RO. subst s1.
  assert (D : (exists u, r1 = Ok u) \/ (forall a, r1 <> Ok a)).
  { destruct r1; [left; eexists; reflexivity|right; intros; discriminate ..]. }
  destruct D as [[v ->]|N].
  2:{ destruct (bind_notok _ (fun v_rip => (t3_v <- call_stack_pop;; _ <- trace_return c i v_rip;; _ <- reg_write_64 c RIP v_rip;;
                                            _ <- reg_write_64 c RSP rsp;; ret tt)%M) _ _ _ EM N) as (r' & E' & N').
      exists r', s. split; [exact E'|]. right. split; [apply N'|apply same_log_refl]. }
  rewrite (bind_ok _ _ _ _ _ EM).
  set (s2 := match rev (call_stack s) with [] => s | _ :: r => set_call_stack s (rev r) end).
  assert (P : call_stack_pop s = (Ok (match rev (call_stack s) with [] => None | x :: _ => Some x end), s2)).
  { unfold s2, call_stack_pop. destruct (rev (call_stack s)); reflexivity. }
  rewrite (bind_ok _ _ _ _ _ P).
  assert (T2 : trace s2 = trace s) by (unfold s2; destruct (rev (call_stack s)); reflexivity).
  assert (R2 : regs s2 RIP = regs s RIP) by (unfold s2; destruct (rev (call_stack s)); reflexivity).
  assert (C2 : call_stack s2 = removelast (call_stack s)).
  { unfold s2. destruct (rev (call_stack s)) as [|x r] eqn:E.
    - assert (H : call_stack s = []) by (rewrite <- (rev_involutive (call_stack s)), E; reflexivity).
      rewrite H. reflexivity.
    - cbn [call_stack set_call_stack]. apply (rev_removelast _ x). exact E. }
  destruct (record_from c i v TReturn s s2 Hpre T2 R2) as (s3 & E & Es3 & X & W1 & W2 & W3).
  unfold trace_return. rewrite (bind_ok _ _ _ _ _ E). rewrite (bind_ok _ _ _ _ _ (rw64_rip c _ s3)).
  rewrite (bind_ok _ _ _ _ _ (rw64_rsp c _ _)). unfold ret. eexists. eexists. split; [reflexivity|]. left. split; [reflexivity|].
  unfold recorded. cbn [regs set_regs trace call_stack].
  assert (U : upd (upd (regs s3) RIP v) RSP rsp RIP = v) by reflexivity. rewrite U.
  split; [|exact I].
  split; [exact X|]. split; [repeat split; assumption|].
  rewrite Es3. cbn [call_stack set_trace]. exact C2.
Qed.

Lemma jump_outcome c i tgt s :
  pre i s ->
  exists r s', (trace_jump c i tgt;;; reg_write_64 c RIP tgt;;; ret tt)%M s = (r, s') /\ log_outcome i TJump (Some tgt) s r s'.
Proof.
  intros Hpre. destruct (jump_tail c i tgt s Hpre) as (s' & E & T & R).
  exists (Ok tt), s'. split; [exact E|left; split; [reflexivity|split; [exact R|exact T]]].
Qed.

Lemma rr32_ecx c s : reg_read_32 c ECX s = (Ok (rf_read (regs s) ECX), s).
Proof.
  unfold reg_read_32, bind, lift. cbn. unfold rf_read, ret. cbn.
  change 4294967295 with (Z.ones 32). rewrite Z.land_ones by lia. rewrite Z.div_1_r. reflexivity.
Qed.

Ltac flag_cases :=
  repeat (match goal with
          | |- context [Z.eqb (Z.land (rflags ?st) ?k) 0] => destruct (Z.eqb (Z.land (rflags st) k) 0)
          end; cbn [bind lift ret get_rflags fst snd negb orb andb xorb Bool.eqb]).

Ltac branch_cases Hpre :=
  match goal with
  | s : mstate |- _ =>
    try (exists (Ok tt), s; split; [reflexivity|split; [apply same_log_refl|intros; reflexivity]]);
    try (destruct (i_op0_kind _); try (apply jump_outcome; exact Hpre);
         try (exists (Err EFatal), s; split; [reflexivity|right; split; [discriminate|apply same_log_refl]]))
  end.

Ltac jcc_tac F :=
  let Ec := fresh "Ec" in let s := fresh "s" in let Hpre := fresh "Hpre" in
  intros Ec s Hpre; cbv zeta; unfold rel_target_of; rewrite Ec; cbn [code_sem taken variant_of rel_target_of is_rel code_eqb andb negb];
  unfold F; rewrite Ec; cbn [code_eqb]; unfold debug_assert_that, assert_that;
  destruct (dbg _); cbn [bind lift ret get_rflags fst snd];
  unfold cond, flag, CF, PF, ZF, SF, OF, FLAG_CF, FLAG_PF, FLAG_ZF, FLAG_SF, FLAG_OF;
  flag_cases; rewrite ?bind_ret_tt; branch_cases Hpre.

Lemma cf_ja_rel8_64 c i : i_code i = C_Ja_rel8_64 -> cf_ok i (instr_ja_rel8_64 c i).
Proof. jcc_tac instr_ja_rel8_64. Qed.
Lemma cf_ja_rel32_64 c i : i_code i = C_Ja_rel32_64 -> cf_ok i (instr_ja_rel32_64 c i).
Proof. jcc_tac instr_ja_rel32_64. Qed.
Lemma cf_jae_rel8_64 c i : i_code i = C_Jae_rel8_64 -> cf_ok i (instr_jae_rel8_64 c i).
Proof. jcc_tac instr_jae_rel8_64. Qed.
Lemma cf_jae_rel32_64 c i : i_code i = C_Jae_rel32_64 -> cf_ok i (instr_jae_rel32_64 c i).
Proof. jcc_tac instr_jae_rel32_64. Qed.
Lemma cf_jb_rel8_64 c i : i_code i = C_Jb_rel8_64 -> cf_ok i (instr_jb_rel8_64 c i).
Proof. jcc_tac instr_jb_rel8_64. Qed.
Lemma cf_jb_rel32_64 c i : i_code i = C_Jb_rel32_64 -> cf_ok i (instr_jb_rel32_64 c i).
Proof. jcc_tac instr_jb_rel32_64. Qed.
Lemma cf_jbe_rel8_64 c i : i_code i = C_Jbe_rel8_64 -> cf_ok i (instr_jbe_rel8_64 c i).
Proof. jcc_tac instr_jbe_rel8_64. Qed.
Lemma cf_jbe_rel32_64 c i : i_code i = C_Jbe_rel32_64 -> cf_ok i (instr_jbe_rel32_64 c i).
Proof. jcc_tac instr_jbe_rel32_64. Qed.
Lemma cf_je_rel8_64 c i : i_code i = C_Je_rel8_64 -> cf_ok i (instr_je_rel8_64 c i).
Proof. jcc_tac instr_je_rel8_64. Qed.
Lemma cf_je_rel32_64 c i : i_code i = C_Je_rel32_64 -> cf_ok i (instr_je_rel32_64 c i).
Proof. jcc_tac instr_je_rel32_64. Qed.
Lemma cf_jg_rel8_64 c i : i_code i = C_Jg_rel8_64 -> cf_ok i (instr_jg_rel8_64 c i).
Proof. jcc_tac instr_jg_rel8_64. Qed.
Lemma cf_jg_rel32_64 c i : i_code i = C_Jg_rel32_64 -> cf_ok i (instr_jg_rel32_64 c i).
Proof. jcc_tac instr_jg_rel32_64. Qed.
Lemma cf_jge_rel8_64 c i : i_code i = C_Jge_rel8_64 -> cf_ok i (instr_jge_rel8_64 c i).
Proof. jcc_tac instr_jge_rel8_64. Qed.
Lemma cf_jge_rel32_64 c i : i_code i = C_Jge_rel32_64 -> cf_ok i (instr_jge_rel32_64 c i).
Proof. jcc_tac instr_jge_rel32_64. Qed.
Lemma cf_jl_rel8_64 c i : i_code i = C_Jl_rel8_64 -> cf_ok i (instr_jl_rel8_64 c i).
Proof. jcc_tac instr_jl_rel8_64. Qed.
Lemma cf_jl_rel32_64 c i : i_code i = C_Jl_rel32_64 -> cf_ok i (instr_jl_rel32_64 c i).
Proof. jcc_tac instr_jl_rel32_64. Qed.
Lemma cf_jle_rel8_64 c i : i_code i = C_Jle_rel8_64 -> cf_ok i (instr_jle_rel8_64 c i).
Proof. jcc_tac instr_jle_rel8_64. Qed.
Lemma cf_jle_rel32_64 c i : i_code i = C_Jle_rel32_64 -> cf_ok i (instr_jle_rel32_64 c i).
Proof. jcc_tac instr_jle_rel32_64. Qed.
Lemma cf_jne_rel8_64 c i : i_code i = C_Jne_rel8_64 -> cf_ok i (instr_jne_rel8_64 c i).
Proof. jcc_tac instr_jne_rel8_64. Qed.
Lemma cf_jne_rel32_64 c i : i_code i = C_Jne_rel32_64 -> cf_ok i (instr_jne_rel32_64 c i).
Proof. jcc_tac instr_jne_rel32_64. Qed.
Lemma cf_jno_rel8_64 c i : i_code i = C_Jno_rel8_64 -> cf_ok i (instr_jno_rel8_64 c i).
Proof. jcc_tac instr_jno_rel8_64. Qed.
Lemma cf_jno_rel32_64 c i : i_code i = C_Jno_rel32_64 -> cf_ok i (instr_jno_rel32_64 c i).
Proof. jcc_tac instr_jno_rel32_64. Qed.
Lemma cf_jnp_rel8_64 c i : i_code i = C_Jnp_rel8_64 -> cf_ok i (instr_jnp_rel8_64 c i).
Proof. jcc_tac instr_jnp_rel8_64. Qed.
Lemma cf_jnp_rel32_64 c i : i_code i = C_Jnp_rel32_64 -> cf_ok i (instr_jnp_rel32_64 c i).
Proof. jcc_tac instr_jnp_rel32_64. Qed.
Lemma cf_jns_rel8_64 c i : i_code i = C_Jns_rel8_64 -> cf_ok i (instr_jns_rel8_64 c i).
Proof. jcc_tac instr_jns_rel8_64. Qed.
Lemma cf_jns_rel32_64 c i : i_code i = C_Jns_rel32_64 -> cf_ok i (instr_jns_rel32_64 c i).
Proof. jcc_tac instr_jns_rel32_64. Qed.
Lemma cf_jo_rel8_64 c i : i_code i = C_Jo_rel8_64 -> cf_ok i (instr_jo_rel8_64 c i).
Proof. jcc_tac instr_jo_rel8_64. Qed.
Lemma cf_jo_rel32_64 c i : i_code i = C_Jo_rel32_64 -> cf_ok i (instr_jo_rel32_64 c i).
Proof. jcc_tac instr_jo_rel32_64. Qed.
Lemma cf_jp_rel8_64 c i : i_code i = C_Jp_rel8_64 -> cf_ok i (instr_jp_rel8_64 c i).
Proof. jcc_tac instr_jp_rel8_64. Qed.
Lemma cf_jp_rel32_64 c i : i_code i = C_Jp_rel32_64 -> cf_ok i (instr_jp_rel32_64 c i).
Proof. jcc_tac instr_jp_rel32_64. Qed.
Lemma cf_js_rel8_64 c i : i_code i = C_Js_rel8_64 -> cf_ok i (instr_js_rel8_64 c i).
Proof. jcc_tac instr_js_rel8_64. Qed.
Lemma cf_js_rel32_64 c i : i_code i = C_Js_rel32_64 -> cf_ok i (instr_js_rel32_64 c i).
Proof. jcc_tac instr_js_rel32_64. Qed.

Ltac start_form F :=
  let Ec := fresh "Ec" in
  intros Ec s Hpre; cbv zeta; unfold rel_target_of; rewrite Ec; cbn [code_sem taken variant_of rel_target_of is_rel code_eqb andb negb];
  unfold F; rewrite Ec; cbn [code_eqb]; unfold debug_assert_that, assert_that;
  destruct (dbg _); cbn [bind lift ret fst snd].

Lemma cf_jmp_rel8_64 c i : i_code i = C_Jmp_rel8_64 -> cf_ok i (instr_jmp_rel8_64 c i).
Proof. start_form instr_jmp_rel8_64; branch_cases Hpre. Qed.
Lemma cf_jmp_rel32_64 c i : i_code i = C_Jmp_rel32_64 -> cf_ok i (instr_jmp_rel32_64 c i).
Proof. start_form instr_jmp_rel32_64; branch_cases Hpre. Qed.

Lemma cf_jmp_rel8_16 c i : i_code i = C_Jmp_rel8_16 -> cf_ok i (instr_jmp_rel8_16 c i).
Proof.
  start_form instr_jmp_rel8_16.
  all: rewrite (bind_ok _ _ _ _ _ (rr64_rip c s)); cbv zeta;
       match goal with |- exists r s', (trace_jump _ _ ?t;;; _)%M _ = _ /\ _ =>
         destruct (jump_outcome c i t s Hpre) as (r0 & s0 & E0 & L0); exists r0, s0; split; [exact E0|eapply log_outcome_weaken; exact L0] end.
Qed.

Lemma cf_jrcxz c i : i_code i = C_Jrcxz_rel8_64 -> cf_ok i (instr_jrcxz_rel8_64 c i).
Proof.
  start_form instr_jrcxz_rel8_64.
  all: rewrite (bind_ok _ _ _ _ _ (rr64_rcx c s)); destruct (regs s RCX =? 0); branch_cases Hpre.
Qed.

Lemma cf_jecxz c i : i_code i = C_Jecxz_rel8_64 -> cf_ok i (instr_jecxz_rel8_64 c i).
Proof.
  start_form instr_jecxz_rel8_64.
  all: rewrite (bind_ok _ _ _ _ _ (rr32_ecx c s)); destruct (rf_read (regs s) ECX =? 0); branch_cases Hpre.
Qed.

(* a read-only prefix: either it fails (state untouched) or it yields a value *)
Lemma readonly_cases {A} (m : MM A) s : readonly m ->
  (exists a, m s = (Ok a, s)) \/ (exists r, m s = (r, s) /\ forall a, r <> Ok a).
Proof.
  intros H. specialize (H s). destruct (m s) as [r s1]. cbn in H. subst s1.
  destruct r; [left; eexists; reflexivity|right; eexists; split; [reflexivity|intros; discriminate] ..].
Qed.

Lemma notok_outcome {B} i v (m : MM B) (f : B -> MM unit) s r :
  m s = (r, s) -> (forall a, r <> Ok a) ->
  exists r' s', bind m f s = (r', s') /\ log_outcome i v None s r' s'.
Proof.
  intros E N. destruct (bind_notok m f s r s E N) as (r' & E' & N').
  exists r', s. split; [exact E'|]. right. split; [apply N'|apply same_log_refl].
Qed.

Lemma cf_call_rel c i : i_code i = C_Call_rel32_64 -> cf_ok i (instr_call_rel32_64 c i).
Proof.
  start_form instr_call_rel32_64.
  all: destruct (i_op0_kind i); try (apply call_tail; exact Hpre).
  all: exists (Err EFatal), s; split; [reflexivity|right; split; [discriminate|apply same_log_refl]].
Qed.

Definition rm64_target c i : MM Z :=
  (t1_v <- (instruction_operand c i 0) ;;
   match t1_v with
   | OpMemory v_m => (v_addr <- (mem_addr c v_m) ;; (mem_read_64 v_addr))
   | OpRegister v_r => (reg_read_64 c v_r)
   | _ => (fail EFatal)
   end)%M.

Lemma readonly_rm64_target c i : readonly (rm64_target c i).
Proof.
  unfold rm64_target. apply readonly_bind; [apply readonly_instruction_operand|].
  intros [m|r|d sz]; try apply readonly_fail.
  - apply readonly_bind; [apply readonly_mem_addr|intros; apply readonly_mem_read_64].
  - apply readonly_reg_read_64.
Qed.

Lemma cf_jmp_rm64 c i : i_code i = C_Jmp_rm64 -> cf_ok i (instr_jmp_rm64 c i).
Proof.
  start_form instr_jmp_rm64.
  all: match goal with |- exists r s', ?X ?st = _ /\ _ =>
         replace (X st) with ((v_addr <- rm64_target c i;; _ <- trace_jump c i v_addr;; _ <- reg_write_64 c RIP v_addr;; ret tt)%M st)
           by (unfold rm64_target; rewrite bind_assoc; reflexivity) end.
  all: destruct (readonly_cases _ s (readonly_rm64_target c i)) as [[t E]|(r & E & N)];
       [rewrite (bind_ok _ _ _ _ _ E); destruct (jump_outcome c i t s Hpre) as (r0 & s0 & E0 & L0); exists r0, s0; split; [exact E0|eapply log_outcome_weaken; exact L0]|eapply notok_outcome; eassumption].
Qed.

Lemma cf_call_rm64 c i : i_code i = C_Call_rm64 -> cf_ok i (instr_call_rm64 c i).
Proof.
  start_form instr_call_rm64.
  all: match goal with |- exists r s', ?X ?st = _ /\ _ =>
         replace (X st) with ((v_target <- rm64_target c i;;
                 _ <- (v_rip <- (reg_read_64 c RIP) ;; v_rsp <- (reg_read_64 c RSP) ;;
                       _ <- (mem_write_64 v_rsp v_rip) ;; _ <- (reg_write_64 c RSP (wsub U64 v_rsp 8)) ;; ret (tt)) ;;
                 _ <- (trace_call c i v_target) ;; _ <- (reg_write_64 c RIP v_target) ;;
                 _ <- (call_stack_push v_target) ;; ret (tt))%M st)
           by (unfold rm64_target; rewrite bind_assoc; reflexivity) end.
  all: destruct (readonly_cases _ s (readonly_rm64_target c i)) as [[t E]|(r & E & N)];
       [rewrite (bind_ok _ _ _ _ _ E); destruct (call_tail c i t s Hpre) as (r0 & s0 & E0 & L0); exists r0, s0; split; [exact E0|eapply log_outcome_weaken; exact L0]|eapply notok_outcome; eassumption].
Qed.

Lemma cf_retnq c i : i_code i = C_Retnq -> cf_ok i (instr_retnq c i).
Proof.
  start_form instr_retnq.
  all: rewrite (bind_ok _ _ _ _ _ (rr64_rsp c s)); cbv zeta.
  all: rewrite (bind_ok _ _ _ _ _ (eq_refl : get_stack_top s = (Ok (stack_top s), s))).
  all: destruct (wadd U64 (regs s RSP) 8 =? stack_top s); [|apply ret_tail; exact Hpre].
  all: exists (Err EFinish), s; split; [reflexivity|right; split; [discriminate|apply same_log_refl]].
Qed.

(* ---- mnemonic level: every form of a control-flow mnemonic ---- *)
Ltac stuck_case :=
  match goal with
  | s : mstate |- exists r s', ?F _ = _ /\ _ =>
      eexists; exists s; split; [reflexivity|];
      match goal with
      | |- if ?t then _ else _ => destruct t; [right; split; [discriminate|apply same_log_refl]|split; [apply same_log_refl|intros; reflexivity]]
      end
  end.

Ltac quiet_case :=
  match goal with
  | |- exists r s', ?F ?st = _ /\ _ =>
      exists (fst (F st)), (snd (F st)); split; [apply surjective_pairing|];
      cbn [code_sem taken];
      split; [let H := fresh in assert (H : quiet F) by auto with quietdb; apply H
             |let Hn := fresh in intros _ Hn; destruct (Hn eq_refl)]
  end.

Ltac use_form L :=
  match goal with
  | Ec : i_code ?i = _, Hpre : pre ?i ?s |- _ =>
      let H := fresh in epose proof (L _ i Ec s Hpre) as H; cbv zeta in H; rewrite Ec in H; exact H
  end.

Ltac mnemonic_tac M :=
  intros s Hpre; unfold M, debug_assert_that, assert_that;
  destruct (dbg _); [destruct (mnemonic_eqb _ _)|]; cbn [bind lift fst snd];
  try stuck_case;
  (destruct (i_code _) eqn:Ec; cbv zeta; rewrite ?Ec;
   first [ stuck_case | quiet_case | idtac ]).

Lemma cf_mnemonic_ja c i : cf_ok i (mnemonic_ja c i).
Proof.
  mnemonic_tac mnemonic_ja.
  all: first [use_form cf_ja_rel8_64 | use_form cf_ja_rel32_64].
Qed.
Lemma cf_mnemonic_jae c i : cf_ok i (mnemonic_jae c i).
Proof.
  mnemonic_tac mnemonic_jae.
  all: first [use_form cf_jae_rel8_64 | use_form cf_jae_rel32_64].
Qed.
Lemma cf_mnemonic_jb c i : cf_ok i (mnemonic_jb c i).
Proof.
  mnemonic_tac mnemonic_jb.
  all: first [use_form cf_jb_rel8_64 | use_form cf_jb_rel32_64].
Qed.
Lemma cf_mnemonic_jbe c i : cf_ok i (mnemonic_jbe c i).
Proof.
  mnemonic_tac mnemonic_jbe.
  all: first [use_form cf_jbe_rel8_64 | use_form cf_jbe_rel32_64].
Qed.
Lemma cf_mnemonic_je c i : cf_ok i (mnemonic_je c i).
Proof.
  mnemonic_tac mnemonic_je.
  all: first [use_form cf_je_rel8_64 | use_form cf_je_rel32_64].
Qed.
Lemma cf_mnemonic_jg c i : cf_ok i (mnemonic_jg c i).
Proof.
  mnemonic_tac mnemonic_jg.
  all: first [use_form cf_jg_rel8_64 | use_form cf_jg_rel32_64].
Qed.
Lemma cf_mnemonic_jge c i : cf_ok i (mnemonic_jge c i).
Proof.
  mnemonic_tac mnemonic_jge.
  all: first [use_form cf_jge_rel8_64 | use_form cf_jge_rel32_64].
Qed.
Lemma cf_mnemonic_jl c i : cf_ok i (mnemonic_jl c i).
Proof.
  mnemonic_tac mnemonic_jl.
  all: first [use_form cf_jl_rel8_64 | use_form cf_jl_rel32_64].
Qed.
Lemma cf_mnemonic_jle c i : cf_ok i (mnemonic_jle c i).
Proof.
  mnemonic_tac mnemonic_jle.
  all: first [use_form cf_jle_rel8_64 | use_form cf_jle_rel32_64].
Qed.
Lemma cf_mnemonic_jne c i : cf_ok i (mnemonic_jne c i).
Proof.
  mnemonic_tac mnemonic_jne.
  all: first [use_form cf_jne_rel8_64 | use_form cf_jne_rel32_64].
Qed.
Lemma cf_mnemonic_jno c i : cf_ok i (mnemonic_jno c i).
Proof.
  mnemonic_tac mnemonic_jno.
  all: first [use_form cf_jno_rel8_64 | use_form cf_jno_rel32_64].
Qed.
Lemma cf_mnemonic_jnp c i : cf_ok i (mnemonic_jnp c i).
Proof.
  mnemonic_tac mnemonic_jnp.
  all: first [use_form cf_jnp_rel8_64 | use_form cf_jnp_rel32_64].
Qed.
Lemma cf_mnemonic_jns c i : cf_ok i (mnemonic_jns c i).
Proof.
  mnemonic_tac mnemonic_jns.
  all: first [use_form cf_jns_rel8_64 | use_form cf_jns_rel32_64].
Qed.
Lemma cf_mnemonic_jo c i : cf_ok i (mnemonic_jo c i).
Proof.
  mnemonic_tac mnemonic_jo.
  all: first [use_form cf_jo_rel8_64 | use_form cf_jo_rel32_64].
Qed.
Lemma cf_mnemonic_jp c i : cf_ok i (mnemonic_jp c i).
Proof.
  mnemonic_tac mnemonic_jp.
  all: first [use_form cf_jp_rel8_64 | use_form cf_jp_rel32_64].
Qed.
Lemma cf_mnemonic_js c i : cf_ok i (mnemonic_js c i).
Proof.
  mnemonic_tac mnemonic_js.
  all: first [use_form cf_js_rel8_64 | use_form cf_js_rel32_64].
Qed.
Lemma cf_mnemonic_call c i : cf_ok i (mnemonic_call c i).
Proof.
  mnemonic_tac mnemonic_call.
  all: first [use_form cf_call_rel | use_form cf_call_rm64].
Qed.
Lemma cf_mnemonic_ret c i : cf_ok i (mnemonic_ret c i).
Proof.
  mnemonic_tac mnemonic_ret.
  all: first [use_form cf_retnq].
Qed.
Lemma cf_mnemonic_jmp c i : cf_ok i (mnemonic_jmp c i).
Proof.
  mnemonic_tac mnemonic_jmp.
  all: first [use_form cf_jmp_rel8_64 | use_form cf_jmp_rel32_64 | use_form cf_jmp_rel8_16 | use_form cf_jmp_rm64].
Qed.
Lemma cf_mnemonic_jrcxz c i : cf_ok i (mnemonic_jrcxz c i).
Proof.
  mnemonic_tac mnemonic_jrcxz.
  all: first [use_form cf_jrcxz].
Qed.
Lemma cf_mnemonic_jecxz c i : cf_ok i (mnemonic_jecxz c i).
Proof.
  mnemonic_tac mnemonic_jecxz.
  all: first [use_form cf_jecxz].
Qed.

(* ---- dispatcher ---- *)
Definition is_cf_mnemonic (m : mnemonic) : bool :=
  match m with
  | M_Call | M_Ret | M_Jmp | M_Ja | M_Jae | M_Jb | M_Jbe | M_Je | M_Jg | M_Jge | M_Jl | M_Jle
  | M_Jne | M_Jno | M_Jnp | M_Jns | M_Jo | M_Jp | M_Js | M_Jrcxz | M_Jecxz => true
  | _ => false
  end.

Theorem dispatch_quiet c i : is_cf_mnemonic (i_mnemonic i) = false -> quiet (switch_instruction_mnemonic c i).
Proof.
  unfold switch_instruction_mnemonic. destruct (i_mnemonic i); cbn [is_cf_mnemonic]; intros H;
    try discriminate; auto with quietdb.
Qed.

Theorem dispatch_cf c i : is_cf_mnemonic (i_mnemonic i) = true -> cf_ok i (switch_instruction_mnemonic c i).
Proof.
  unfold switch_instruction_mnemonic. destruct (i_mnemonic i); cbn [is_cf_mnemonic]; intros H; try discriminate.
  - apply cf_mnemonic_call. - apply cf_mnemonic_ja. - apply cf_mnemonic_jae. - apply cf_mnemonic_jb.
  - apply cf_mnemonic_jbe. - apply cf_mnemonic_je. - apply cf_mnemonic_jecxz. - apply cf_mnemonic_jg.
  - apply cf_mnemonic_jge. - apply cf_mnemonic_jl. - apply cf_mnemonic_jle. - apply cf_mnemonic_jmp.
  - apply cf_mnemonic_jne. - apply cf_mnemonic_jno. - apply cf_mnemonic_jnp. - apply cf_mnemonic_jns.
  - apply cf_mnemonic_jo. - apply cf_mnemonic_jp. - apply cf_mnemonic_jrcxz. - apply cf_mnemonic_js.
  - apply cf_mnemonic_ret.
Qed.
