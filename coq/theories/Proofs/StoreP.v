(* C01/C06/C08: MOV r/m64, r64 and XOR r/m64, r64 with a MEMORY destination.  The helper loads the
   destination before it stores (also for MOV, whose closure ignores the loaded value), so:
   - when the destination is readable, MOV [m], r is exactly the specification's store;
   - when it is not (writable but not readable), the emulator fails although the specification
     completes: known finding KF-C06-store-reads-destination, here as the exact boundary of the
     refinement. *)
From Coq Require Import ZArith Bool List Lia.
From AxV Require Import Bits Outcome Codes Iced State Rt Mem Trace BitsP ByteStore MemP RegFile RegsP ISA CodeSem ReadonlyTac
  OperandP FlagsP CfP MovP RmP AluP AluRmP AluMemP.
From AxG Require Import Flags Regs Operand Helpers I_mov I_xor.
Local Open Scope Z_scope.
Ltac Zify.zify_post_hook ::= Z.div_mod_to_equations.

Section MemDestNoFlags.
  Variables (c : cfg) (i : instr) (s : mstate).
  Hypothesis Hwf : wf_regs s.
  Hypothesis HI : Inv (mem s).
  Hypothesis Hn : i_op_count i = 2.
  Hypothesis K0 : i_op_kind i 0 = OK_Memory.
  Hypothesis Hm : wf_mem_instr i.
  Hypothesis K1 : i_op_kind i 1 = OK_Register.
  Hypothesis H1 : is_gpr64 (i_op_register i 1) = true.

  Let r1 := i_op_register i 1.
  Let sv := rf_read (regs s) r1.
  Let m := memop_of i.

  Lemma calc_rm_r_64_mem (op : Z -> Z -> outcome Z) fset fclear :
    match load 8 (ea i s) s with
    | Some d =>
        0 <= d < 2 ^ 64 /\
        forall res, op d sv = Ok res ->
          calculate_rm_r_64 c i op fset fclear s =
          bind (set_flags_u64 c fset fclear res)
               (fun _ => if Z.land fset NO_WRITEBACK =? 0 then store_tail c i res else ret tt) s
    | None => exists e, calculate_rm_r_64 c i op fset fclear s = (Err e, s)
    end.
  Proof.
    assert (S1 : is_supported r1 = true) by (unfold r1; destruct (i_op_register i 1); try discriminate H1; reflexivity).
    assert (O1 : instruction_operand c i 1 s = (Ok (OpRegister r1), s))
      by (apply operand_register; [rewrite Hn; reflexivity|exact K1|reflexivity|exact S1]).
    destruct (operand_address c i 0 s Hwf Hm ltac:(rewrite Hn; reflexivity) K0) as (O0 & EA & _). fold m in O0, EA.
    assert (OP : instruction_operands_2 c i s = (Ok (OpMemory m, OpRegister r1), s)).
    { unfold instruction_operands_2. rewrite (bind_ok _ _ _ _ _ O0). rewrite (bind_ok _ _ _ _ _ O1). reflexivity. }
    assert (TR : lift (operand_to_reg (OpRegister r1)) s = (Ok r1, s)) by reflexivity.
    pose proof (reg_read_64_ok c r1 s Hwf H1) as RD. fold sv in RD.
    unfold calculate_rm_r_64, load.
    rewrite (bind_ok _ _ _ _ _ OP). cbv beta iota.
    rewrite (bind_ok _ _ _ _ _ TR). rewrite (bind_ok _ _ _ _ _ RD).
    rewrite (bind_ok _ _ _ _ _ EA). change mem_read_64 with (mem_read_n 8).
    destruct (mem_read_n_cases 8 (ea i s) s HI) as [(d & E & R)|(e & E)]; rewrite E.
    - split; [exact R|]. intros res Hop.
      rewrite (bind_ok _ _ _ _ _ E). rewrite Hop.
      rewrite (bind_ok _ _ _ _ _ (eq_refl : lift (Ok res) s = _)).
      destruct (Z.land fset NO_WRITEBACK =? 0); unfold store_tail, bind;
        destruct (set_flags_u64 c fset fclear res s) as [[[]|e|p|] s1]; try reflexivity.
      fold m. destruct (mem_addr c m s1) as [[a|e|p|] s2]; try reflexivity.
      destruct (mem_write_64 a res s2) as [[[]|e|p|] s3]; reflexivity.
    - exists e. rewrite (bind_err _ _ _ _ _ E). reflexivity.
  Qed.

  (* MOV [m], r64 *)
  Theorem mov_m64_r64_exact :
    i_code i = C_Mov_rm64_r64 ->
    match load 8 (ea i s) s with
    | Some _ =>                       (* destination readable: the specification's store *)
        match isa_exec (SMov 64) i s with
        | IDone s' u => instr_mov_rm64_r64 c i s = (Ok tt, s') /\ u = 0
        | IFault FMem => exists e, instr_mov_rm64_r64 c i s = (Err e, s)
        | IFault _ => False
        end
    | None =>                         (* not readable: the step fails, whatever the specification does *)
        exists e, instr_mov_rm64_r64 c i s = (Err e, s)
    end.
  Proof.
    intros Ec. unfold instr_mov_rm64_r64. rewrite Ec.
    rewrite (bind_ok _ _ _ _ _ (dbg_code_ok c s _ eq_refl)).
    pose proof (calc_rm_r_64_mem (fun _ v_s => Ok v_s) FLAGS_UNAFFECTED 0) as SH.
    destruct (load 8 (ea i s) s) as [d|]; [|exact SH]. destruct SH as [Hd SH].
    rewrite (SH _ eq_refl). rewrite (bind_ok _ _ _ _ _ (set_flags_unaffected c _ s)).
    change (Z.land FLAGS_UNAFFECTED NO_WRITEBACK =? 0) with true. cbv iota.
    cbn [isa_exec]. unfold read_op, write_op. rewrite K0, K1. rewrite rf_read_mod64 by exact H1. fold r1 sv.
    pose proof (store_tail_spec c i s Hwf HI Hn K0 Hm (rflags s) sv) as ST. cbv zeta in ST.
    assert (SS : set_rflags s (rflags s) = s) by (destruct s; reflexivity). rewrite SS in ST.
    destruct (store (bytes_of 64) (ea i s) sv s) as [s2|]; cbn [opt_done].
    - rewrite ST. split; reflexivity.
    - exact ST.
  Qed.

  (* the moffs encoding (A0..A3: accumulator and an absolute address): the same helper call *)
  Theorem mov_moffs64_rax_exact :
    i_code i = C_Mov_moffs64_RAX ->
    match load 8 (ea i s) s with
    | Some _ =>                       (* destination readable: the specification's store *)
        match isa_exec (SMov 64) i s with
        | IDone s' u => instr_mov_moffs64_rax c i s = (Ok tt, s') /\ u = 0
        | IFault FMem => exists e, instr_mov_moffs64_rax c i s = (Err e, s)
        | IFault _ => False
        end
    | None =>                         (* not readable: the step fails, whatever the specification does *)
        exists e, instr_mov_moffs64_rax c i s = (Err e, s)
    end.
  Proof.
    intros Ec. unfold instr_mov_moffs64_rax. rewrite Ec.
    rewrite (bind_ok _ _ _ _ _ (dbg_code_ok c s _ eq_refl)).
    pose proof (calc_rm_r_64_mem (fun _ v_s => Ok v_s) FLAGS_UNAFFECTED 0) as SH.
    destruct (load 8 (ea i s) s) as [d|]; [|exact SH]. destruct SH as [Hd SH].
    rewrite (SH _ eq_refl). rewrite (bind_ok _ _ _ _ _ (set_flags_unaffected c _ s)).
    change (Z.land FLAGS_UNAFFECTED NO_WRITEBACK =? 0) with true. cbv iota.
    cbn [isa_exec]. unfold read_op, write_op. rewrite K0, K1. rewrite rf_read_mod64 by exact H1. fold r1 sv.
    pose proof (store_tail_spec c i s Hwf HI Hn K0 Hm (rflags s) sv) as ST. cbv zeta in ST.
    assert (SS : set_rflags s (rflags s) = s) by (destruct s; reflexivity). rewrite SS in ST.
    destruct (store (bytes_of 64) (ea i s) sv s) as [s2|]; cbn [opt_done].
    - rewrite ST. split; reflexivity.
    - exact ST.
  Qed.
End MemDestNoFlags.

(* ---- C08 through guest instructions: what MOV [m], r64 stored is what a load reads back ---- *)
Lemma store_load_roundtrip a v s s' :
  Inv (mem s) -> 0 <= v < 2 ^ 64 ->
  store 8 a v s = Some s' -> (exists d, load 8 a s = Some d) -> load 8 a s' = Some v.
Proof.
  intros HI Hv Hst [d Hld].
  unfold store in Hst. destruct (mem_write_bytes a (le_bytes 8 v) s) as [[[]|e|p|] s1] eqn:W; try discriminate.
  inversion Hst; subst s1. clear Hst.
  destruct (write_ok_spec a (le_bytes 8 v) s s' HI (le_bytes_range 8 v) W) as (_ & Hlay & HI' & _).
  unfold load, mem_read_n in *.
  assert (Z8 : zlen (le_bytes 8 v) = 8) by (unfold zlen; rewrite le_bytes_length; reflexivity).
  (* the read before the store succeeded: same area shape afterwards, so it succeeds again *)
  assert (R' : exists l, mem_read_bytes a (Z.of_nat 8) s' = (Ok l, s')).
  { apply (proj2 (read_ok_iff a (Z.of_nat 8) s' HI' ltac:(lia))).
    assert (R : exists l, mem_read_bytes a (Z.of_nat 8) s = (Ok l, s)).
    { destruct (mem_read_bytes a (Z.of_nat 8) s) as [[l|e|p|] s2] eqn:E; try discriminate.
      pose proof (read_state_unchanged _ _ _ _ _ E). subst s2. eexists; reflexivity. }
    apply (proj1 (read_ok_iff a (Z.of_nat 8) s HI ltac:(lia))) in R.
    destruct R as (ar & Ho & Hfit & Hp). unfold accessible, owner in *.
    pose proof (find_area_layout (mem s) (mem s') a (eq_sym Hlay)) as FL. rewrite Ho in FL.
    destruct (find_area (mem s') a) as [ar'|]; [|contradiction].
    exists ar'. unfold shape in FL. inversion FL as [[E1 E2 E3]]. split; [reflexivity|]. rewrite <- ?E1, <- ?E2, <- ?E3. split; congruence. }
  destruct R' as [l R']. rewrite R'.
  change (Z.of_nat 8) with 8 in R'. rewrite <- Z8 in R'.
  rewrite (read_after_write a (le_bytes 8 v) s s' HI (le_bytes_range 8 v) W l R').
  rewrite of_le_bytes_le_bytes by lia. change (8 * Z.of_nat 8) with 64. rewrite Z.mod_small by exact Hv. reflexivity.
Qed.

Section GuestRoundtrip.
  Variables (c : cfg) (i : instr) (s s' : mstate).
  Hypothesis Hwf : wf_regs s.
  Hypothesis HI : Inv (mem s).
  Hypothesis Hn : i_op_count i = 2.
  Hypothesis K0 : i_op_kind i 0 = OK_Memory.
  Hypothesis Hm : wf_mem_instr i.
  Hypothesis K1 : i_op_kind i 1 = OK_Register.
  Hypothesis H1 : is_gpr64 (i_op_register i 1) = true.

  (* after a successful MOV [m], r64, the 8 bytes at the operand's address read back as the register *)
  Theorem mov_store_then_load :
    i_code i = C_Mov_rm64_r64 ->
    instr_mov_rm64_r64 c i s = (Ok tt, s') ->
    load 8 (ea i s) s' = Some (rf_read (regs s) (i_op_register i 1)).
  Proof.
    intros Ec Hok. pose proof (mov_m64_r64_exact c i s Hwf HI Hn K0 Hm K1 H1 Ec) as X.
    destruct (load 8 (ea i s) s) as [d|] eqn:L; [|destruct X as [e X]; rewrite X in Hok; discriminate].
    cbn [isa_exec] in X. unfold read_op, write_op in X. rewrite K0, K1 in X. rewrite rf_read_mod64 in X by exact H1.
    destruct (store (bytes_of 64) (ea i s) (rf_read (regs s) (i_op_register i 1)) s) as [s2|] eqn:ST; cbn [opt_done] in X.
    - destruct X as [X _]. rewrite X in Hok. inversion Hok; subst s2.
      apply (store_load_roundtrip _ _ s s' HI); [apply (rf_read_range64 s); exact H1|exact ST|eexists; exact L].
    - destruct X as [e X]. rewrite X in Hok. discriminate.
  Qed.
End GuestRoundtrip.

(* XOR [m64], r64 *)
Section XorMem.
  Variables (c : cfg) (i : instr) (s : mstate).
  Hypothesis Hwf : wf_regs s.
  Hypothesis HI : Inv (mem s).
  Hypothesis Hrf : 0 <= rflags s < 2 ^ 64.
  Hypothesis Hn : i_op_count i = 2.
  Hypothesis K0 : i_op_kind i 0 = OK_Memory.
  Hypothesis Hm : wf_mem_instr i.
  Hypothesis K1 : i_op_kind i 1 = OK_Register.
  Hypothesis H1 : is_gpr64 (i_op_register i 1) = true.

  Theorem xor_m64_r64_refines :
    i_code i = C_Xor_rm64_r64 ->
    match isa_exec (SAlu XOR 64) i s with
    | IDone s' u => instr_xor_rm64_r64 c i s = (Ok tt, s') /\ u = 0
    | IFault FMem => exists e x, instr_xor_rm64_r64 c i s = (Err e, s) \/ instr_xor_rm64_r64 c i s = (Err e, set_rflags s x)
    | IFault _ => False
    end.
  Proof.
    intros Ec. unfold instr_xor_rm64_r64. rewrite Ec.
    rewrite (bind_ok _ _ _ _ _ (dbg_code_ok c s _ eq_refl)).
    cbn [isa_exec]. unfold exec_alu. unfold read_op at 2. rewrite K1. rewrite rf_read_mod64 by exact H1.
    unfold read_op. rewrite K0. change (bytes_of 64) with 8%nat.
    match goal with |- context [calculate_rm_r_64 c i ?op ?fs ?fc s] =>
      pose proof (calc_rm_r_64_mem c i s Hwf HI Hn K0 Hm K1 H1 op fs fc) as SH end.
    destruct (load 8 (ea i s) s) as [d|]; [|destruct SH as [e SH]; exists e, 0; left; exact SH]. destruct SH as [Hd SH].
    rewrite (SH _ eq_refl).
    change (Z.lor (Z.lor FLAG_ZF FLAG_SF) FLAG_PF) with (arith_fs false false).
    change (Z.lor FLAG_OF FLAG_CF) with 2049.
    rewrite (bind_ok _ _ _ _ _ (set_flags_u64_arith c false false _ s Hrf)).
    change (Z.land (arith_fs false false) NO_WRITEBACK =? 0) with true. cbv iota.
    cbn [alu b2f]. change (0 + 0) with 0. rewrite !Z.add_0_l.
    unfold write_op. rewrite K0.
    match goal with |- context [store_tail c i ?res (with_flags s ?mk ?bits)] =>
      pose proof (store_tail_spec c i s Hwf HI Hn K0 Hm (set_status (rflags s) mk bits) res) as ST;
      cbv zeta in ST; fold (with_flags s mk bits) in ST;
      destruct (store (bytes_of 64) (ea i (with_flags s mk bits)) res (with_flags s mk bits)) as [s2|];
      [rewrite ST; cbn [opt_done]; split; reflexivity
      |destruct ST as [e ST]; rewrite ST; cbn [opt_done]; exists e; eexists; right; reflexivity]
    end.
  Qed.
End XorMem.
