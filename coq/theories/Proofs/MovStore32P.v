(* C01/C06: MOV r/m32, r32 (register or memory destination) and XOR r/m32, r32.  The helper reads the
   destination before it writes; for a register that is harmless, for memory it is the boundary of
   KF-C06-store-reads-destination: readable destination = the specification's store, otherwise an error. *)
From Coq Require Import ZArith Bool List Lia.
From AxV Require Import Bits Outcome Codes Iced State Rt Mem Trace BitsP ByteStore MemP RegFile RegsP ISA CodeSem ReadonlyTac
  OperandP FlagsP CfP MovP RmP AluP AluRmP AluMemP Alu32P.
From AxG Require Import Flags Regs Operand Helpers I_mov I_xor.
Local Open Scope Z_scope.
Ltac Zify.zify_post_hook ::= Z.div_mod_to_equations.

Section RmR32NoFlags.
  Variables (c : cfg) (i : instr) (s : mstate).
  Hypothesis Hwf : wf_regs s.
  Hypothesis HI : Inv (mem s).
  Hypothesis Hn : i_op_count i = 2.
  Hypothesis Hs0 : rm32_shape i 0.
  Hypothesis K1 : i_op_kind i 1 = OK_Register.
  Hypothesis H1 : is_gpr32 (i_op_register i 1) = true.

  Let r1 := i_op_register i 1.
  Let sv := rf_read (regs s) r1.

  Lemma calc_rm_r_32_shape (op : Z -> Z -> outcome Z) fset fclear :
    match read_op i 0 32 s with
    | Some d =>
        0 <= d < 2 ^ 32 /\
        forall res, op d sv = Ok res ->
          calculate_rm_r_32 c i op fset fclear s =
          bind (set_flags_u32 c fset fclear res)
               (fun _ => if Z.land fset NO_WRITEBACK =? 0 then dest_write32 c i res else ret tt) s
    | None => exists e, calculate_rm_r_32 c i op fset fclear s = (Err e, s)
    end.
  Proof.
    assert (O1 : instruction_operand c i 1 s = (Ok (OpRegister r1), s))
      by (apply operand_register; [rewrite Hn; reflexivity|exact K1|reflexivity|apply gpr32_supported; exact H1]).
    assert (TR : lift (operand_to_reg (OpRegister r1)) s = (Ok r1, s)) by reflexivity.
    pose proof (reg_read_32_ok c r1 s Hwf H1) as RD. fold sv in RD.
    assert (Hsv : 0 <= sv < 2 ^ 32) by (apply rf_read_range32; exact H1).
    unfold calculate_rm_r_32, read_op, dest_write32.
    destruct Hs0 as [[K0 H0]|[K0 Hm]]; rewrite K0.
    - assert (O0 : instruction_operand c i 0 s = (Ok (OpRegister (i_op_register i 0)), s))
        by (apply operand_register; [rewrite Hn; reflexivity|exact K0|reflexivity|apply gpr32_supported; exact H0]).
      assert (OP : instruction_operands_2 c i s = (Ok (OpRegister (i_op_register i 0), OpRegister r1), s)).
      { unfold instruction_operands_2. rewrite (bind_ok _ _ _ _ _ O0). rewrite (bind_ok _ _ _ _ _ O1). reflexivity. }
      rewrite rf_read_mod32 by exact H0.
      assert (Hd : 0 <= rf_read (regs s) (i_op_register i 0) < 2 ^ 32) by (apply rf_read_range32; exact H0).
      split; [exact Hd|]. intros res Hop.
      rewrite (bind_ok _ _ _ _ _ OP). cbv beta iota.
      rewrite (bind_ok _ _ _ _ _ TR). rewrite (bind_ok _ _ _ _ _ RD).
      rewrite (bind_ok _ _ _ _ _ (reg_read_32_ok c _ s Hwf H0)).
      rewrite (cast_u64_u32_id _ Hd), (cast_u64_u32_id sv Hsv). rewrite Hop.
      rewrite (bind_ok _ _ _ _ _ (eq_refl : lift (Ok res) s = _)). unfold bind.
      destruct (set_flags_u32 c fset fclear res s) as [[[]|e|p|] s1]; try reflexivity.
      destruct (Z.land fset NO_WRITEBACK =? 0); [|reflexivity].
      destruct (reg_write_32 c (i_op_register i 0) (cast U32 U64 res) s1) as [[[]|e|p|] s2]; reflexivity.
    - destruct (operand_address c i 0 s Hwf Hm ltac:(rewrite Hn; reflexivity) K0) as (O0 & EA & _).
      assert (OP : instruction_operands_2 c i s = (Ok (OpMemory (memop_of i), OpRegister r1), s)).
      { unfold instruction_operands_2. rewrite (bind_ok _ _ _ _ _ O0). rewrite (bind_ok _ _ _ _ _ O1). reflexivity. }
      unfold load. change (bytes_of 32) with 4%nat.
      rewrite (bind_ok _ _ _ _ _ OP). cbv beta iota.
      rewrite (bind_ok _ _ _ _ _ TR). rewrite (bind_ok _ _ _ _ _ RD).
      rewrite (bind_ok _ _ _ _ _ EA). change mem_read_32 with (mem_read_n 4).
      destruct (mem_read_n_cases 4 (ea i s) s HI) as [(d & E & R)|(e & E)]; rewrite E.
      + split; [exact R|]. intros res Hop.
        rewrite (bind_ok _ _ _ _ _ E). rewrite (cast_u64_u32_id d R), (cast_u64_u32_id sv Hsv). rewrite Hop.
        rewrite (bind_ok _ _ _ _ _ (eq_refl : lift (Ok res) s = _)).
        destruct (Z.land fset NO_WRITEBACK =? 0); unfold store_tail32, bind;
          destruct (set_flags_u32 c fset fclear res s) as [[[]|e|p|] s1]; try reflexivity.
        destruct (mem_addr c (memop_of i) s1) as [[a|e|p|] s2]; try reflexivity.
        destruct (mem_write_32 a (cast U32 U64 res) s2) as [[[]|e|p|] s3]; reflexivity.
      + exists e. rewrite (bind_err _ _ _ _ _ E). reflexivity.
  Qed.

  (* MOV r/m32, r32: when the destination can be read (always, for a register) the instruction is the
     specification's MOV; otherwise the step fails and changes nothing *)
  Theorem mov_rm32_r32_exact :
    i_code i = C_Mov_rm32_r32 ->
    match read_op i 0 32 s with
    | Some _ =>
        match isa_exec (SMov 32) i s with
        | IDone s' u => instr_mov_rm32_r32 c i s = (Ok tt, s') /\ u = 0
        | IFault FMem => exists e, instr_mov_rm32_r32 c i s = (Err e, s)
        | IFault _ => False
        end
    | None => exists e, instr_mov_rm32_r32 c i s = (Err e, s)
    end.
  Proof.
    intros Ec. unfold instr_mov_rm32_r32. rewrite Ec.
    rewrite (bind_ok _ _ _ _ _ (dbg_code_ok c s _ eq_refl)).
    pose proof (calc_rm_r_32_shape (fun _ v_s => Ok v_s) FLAGS_UNAFFECTED 0) as SH.
    destruct (read_op i 0 32 s) as [d|]; [|exact SH]. destruct SH as [Hd SH].
    rewrite (SH _ eq_refl). rewrite (bind_ok _ _ _ _ _ (set_flags32_unaffected c _ s)).
    change (Z.land FLAGS_UNAFFECTED NO_WRITEBACK =? 0) with true. cbv iota.
    cbn [isa_exec]. unfold read_op. rewrite K1. rewrite rf_read_mod32 by exact H1. fold r1 sv.
    assert (Hsv : 0 <= sv < 2 ^ 32) by (apply rf_read_range32; exact H1).
    assert (RS : Alu32P.rm32_shape i 0) by exact Hs0.
    pose proof (dest_write32_spec c i s Hwf HI Hn RS (rflags s) sv Hsv) as W. cbv zeta in W.
    assert (SS : set_rflags s (rflags s) = s) by (destruct s; reflexivity). rewrite SS in W.
    destruct (write_op i 0 32 sv s) as [s2|]; cbn [opt_done].
    - rewrite W. split; reflexivity.
    - exact W.
  Qed.

  (* the moffs encoding (A0..A3: accumulator and an absolute address): the same helper call *)
  Theorem mov_moffs32_eax_exact :
    i_code i = C_Mov_moffs32_EAX ->
    match read_op i 0 32 s with
    | Some _ =>
        match isa_exec (SMov 32) i s with
        | IDone s' u => instr_mov_moffs32_eax c i s = (Ok tt, s') /\ u = 0
        | IFault FMem => exists e, instr_mov_moffs32_eax c i s = (Err e, s)
        | IFault _ => False
        end
    | None => exists e, instr_mov_moffs32_eax c i s = (Err e, s)
    end.
  Proof.
    intros Ec. unfold instr_mov_moffs32_eax. rewrite Ec.
    rewrite (bind_ok _ _ _ _ _ (dbg_code_ok c s _ eq_refl)).
    pose proof (calc_rm_r_32_shape (fun _ v_s => Ok v_s) FLAGS_UNAFFECTED 0) as SH.
    destruct (read_op i 0 32 s) as [d|]; [|exact SH]. destruct SH as [Hd SH].
    rewrite (SH _ eq_refl). rewrite (bind_ok _ _ _ _ _ (set_flags32_unaffected c _ s)).
    change (Z.land FLAGS_UNAFFECTED NO_WRITEBACK =? 0) with true. cbv iota.
    cbn [isa_exec]. unfold read_op. rewrite K1. rewrite rf_read_mod32 by exact H1. fold r1 sv.
    assert (Hsv : 0 <= sv < 2 ^ 32) by (apply rf_read_range32; exact H1).
    assert (RS : Alu32P.rm32_shape i 0) by exact Hs0.
    pose proof (dest_write32_spec c i s Hwf HI Hn RS (rflags s) sv Hsv) as W. cbv zeta in W.
    assert (SS : set_rflags s (rflags s) = s) by (destruct s; reflexivity). rewrite SS in W.
    destruct (write_op i 0 32 sv s) as [s2|]; cbn [opt_done].
    - rewrite W. split; reflexivity.
    - exact W.
  Qed.

  Theorem xor_rm32_r32_refines :
    0 <= rflags s < 2 ^ 64 -> i_code i = C_Xor_rm32_r32 -> rmw32_refines i s XOR (instr_xor_rm32_r32 c i s).
  Proof.
    intros Hrf Ec. unfold rmw32_refines, instr_xor_rm32_r32. rewrite Ec.
    rewrite (bind_ok _ _ _ _ _ (dbg_code_ok c s _ eq_refl)).
    cbn [isa_exec]. unfold exec_alu. unfold read_op at 2. rewrite K1. rewrite rf_read_mod32 by exact H1. fold r1 sv.
    match goal with |- context [calculate_rm_r_32 c i ?op ?fs ?fc s] =>
      pose proof (calc_rm_r_32_shape op fs fc) as SH end.
    destruct (read_op i 0 32 s) as [d|]; [|destruct SH as [e SH]; exists e, 0; left; exact SH]. destruct SH as [Hd SH].
    assert (Hsv : 0 <= sv < 2 ^ 32) by (apply rf_read_range32; exact H1).
    rewrite (SH _ eq_refl).
    change (Z.lor (Z.lor FLAG_ZF FLAG_SF) FLAG_PF) with (arith_fs false false).
    change (Z.lor FLAG_OF FLAG_CF) with 2049.
    rewrite (bind_ok _ _ _ _ _ (set_flags_u32_arith c false false _ s Hrf)).
    change (Z.land (arith_fs false false) NO_WRITEBACK =? 0) with true. cbv iota.
    cbn [alu b2f]. change (0 + 0) with 0. rewrite !Z.add_0_l.
    pose proof (lxor_range32 _ _ Hd Hsv) as Hres.
    match goal with |- context [dest_write32 c i ?res (with_flags s ?mk ?bits)] =>
      pose proof (dest_write32_spec c i s Hwf HI Hn Hs0 (set_status (rflags s) mk bits) res Hres) as ST;
      cbv zeta in ST; fold (with_flags s mk bits) in ST;
      destruct (write_op i 0 32 res (with_flags s mk bits)) as [s2|];
      [rewrite ST; cbn [opt_done]; split; reflexivity
      |destruct ST as [e ST]; rewrite ST; cbn [opt_done]; exists e; eexists; right; reflexivity]
    end.
  Qed.
End RmR32NoFlags.
