(* C19: the refinement predicates of the 16/8-bit, shift, multiplication and vector families also imply that the
   step neither panics nor runs out of fuel (continuation of the list at the end of NoCrashP.v). *)
From Coq Require Import ZArith Bool List.
From AxV Require Import Bits Outcome Codes Iced State Rt Mem Trace ISA CodeSem NoCrashP
  Alu16P Alu8P Unary16P Unary8P ShiftP Shift32P Shift16P Shift8P MulP XmmP.
Local Open Scope Z_scope.

Lemma alu16_refines_no_crash i s op run : alu16_refines i s op run -> no_crash (fst run).
Proof. unfold alu16_refines. intros H. nc_from H. Qed.
Lemma alu8_refines_no_crash i s op run : alu8_refines i s op run -> no_crash (fst run).
Proof. unfold alu8_refines. intros H. nc_from H. Qed.
Lemma refines16_no_crash i s sm run : refines16 i s sm run -> no_crash (fst run).
Proof. unfold refines16. intros H. nc_from H. Qed.
Lemma refines8_no_crash i s sm run : refines8 i s sm run -> no_crash (fst run).
Proof. unfold refines8. intros H. nc_from H. Qed.
Lemma rmw16_refines_no_crash i s op run : rmw16_refines i s op run -> no_crash (fst run).
Proof. unfold rmw16_refines. intros H. nc_from H. Qed.
Lemma rmw8_refines_no_crash i s op run : rmw8_refines i s op run -> no_crash (fst run).
Proof. unfold rmw8_refines. intros H. nc_from H. Qed.
Lemma un16_refines_no_crash i s op run : un16_refines i s op run -> no_crash (fst run).
Proof. unfold un16_refines. intros H. nc_from H. Qed.
Lemma un8_refines_no_crash i s op run : un8_refines i s op run -> no_crash (fst run).
Proof. unfold un8_refines. intros H. nc_from H. Qed.
Lemma shift_refines_no_crash i s l cnt run : shift_refines i s l cnt run -> no_crash (fst run).
Proof. unfold shift_refines. intros H. nc_from H. Qed.
Lemma shift32_refines_no_crash i s l cnt run : shift32_refines i s l cnt run -> no_crash (fst run).
Proof. unfold shift32_refines. intros H. nc_from H. Qed.
Lemma shift16_refines_no_crash i s l cnt run : shift16_refines i s l cnt run -> no_crash (fst run).
Proof. unfold shift16_refines. intros H. nc_from H. Qed.
Lemma shift8_refines_no_crash i s l cnt run : shift8_refines i s l cnt run -> no_crash (fst run).
Proof. unfold shift8_refines. intros H. nc_from H. Qed.
Lemma mul_refines_no_crash sm i s run : mul_refines sm i s run -> no_crash (fst run).
Proof. unfold mul_refines. intros H. nc_from H. Qed.
Lemma xmm_refines_no_crash i s sm run : xmm_refines i s sm run -> no_crash (fst run).
Proof. unfold xmm_refines. intros H. nc_from H. Qed.
