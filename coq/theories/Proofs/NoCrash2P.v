(* C19: the refinement predicates of the 16/8-bit, shift, multiplication and vector families also imply that the
   step neither panics nor runs out of fuel (continuation of the list at the end of NoCrashP.v). *)
From Coq Require Import ZArith Bool List.
From AxV Require Import Bits Outcome Codes Iced State Rt Mem Trace ISA CodeSem NoCrashP
  RegsP ByteStore MovxP Alu32P Alu16P Alu8P Unary16P Unary8P ShiftP Shift32P Shift16P Shift8P MulP XmmP DivP Div32P Div16P.
From AxG Require Import I_div I_idiv.
Local Open Scope Z_scope.

Lemma alu16_refines_no_crash i s op run : alu16_refines i s op run -> no_crash (fst run).
Proof. unfold alu16_refines. intros H. nc_from H. Qed.
Lemma alu8_refines_no_crash i s op run : alu8_refines i s op run -> no_crash (fst run).
Proof. unfold alu8_refines. intros H. nc_from H. Qed.
Lemma refines16_no_crash i s sm run : refines16 i s sm run -> no_crash (fst run).
Proof. unfold refines16. intros H. nc_from H. Qed.
Lemma refines8_no_crash i s sm run : refines8 i s sm run -> no_crash (fst run).
Proof. unfold refines8. intros H. nc_from H. Qed.
Lemma rmw16_refines_no_crash i s op run : rmw16_refines i s op run -> no_crash (fst run).
Proof. unfold rmw16_refines. intros H. nc_from H. Qed.
Lemma rmw8_refines_no_crash i s op run : rmw8_refines i s op run -> no_crash (fst run).
Proof. unfold rmw8_refines. intros H. nc_from H. Qed.
Lemma un16_refines_no_crash i s op run : un16_refines i s op run -> no_crash (fst run).
Proof. unfold un16_refines. intros H. nc_from H. Qed.
Lemma un8_refines_no_crash i s op run : un8_refines i s op run -> no_crash (fst run).
Proof. unfold un8_refines. intros H. nc_from H. Qed.
Lemma shift_refines_no_crash i s l cnt run : shift_refines i s l cnt run -> no_crash (fst run).
Proof. unfold shift_refines. intros H. nc_from H. Qed.
Lemma shift32_refines_no_crash i s l cnt run : shift32_refines i s l cnt run -> no_crash (fst run).
Proof. unfold shift32_refines. intros H. nc_from H. Qed.
Lemma shift16_refines_no_crash i s l cnt run : shift16_refines i s l cnt run -> no_crash (fst run).
Proof. unfold shift16_refines. intros H. nc_from H. Qed.
Lemma shift8_refines_no_crash i s l cnt run : shift8_refines i s l cnt run -> no_crash (fst run).
Proof. unfold shift8_refines. intros H. nc_from H. Qed.
Lemma mul_refines_no_crash sm i s run : mul_refines sm i s run -> no_crash (fst run).
Proof. unfold mul_refines. intros H. nc_from H. Qed.
Lemma xmm_refines_no_crash i s sm run : xmm_refines i s sm run -> no_crash (fst run).
Proof. unfold xmm_refines. intros H. nc_from H. Qed.

(* the division theorems are stated as a match on the specification's result: every branch is Ok or Err *)
Lemma div_style_no_crash (r : isa_result) (s : mstate) (run : outcome unit * mstate) :
  match r with
  | IDone s' _ => run = (Ok tt, s')
  | IFault FDivide => run = (Err EDivZero, s)
  | IFault FMem => exists e, run = (Err e, s)
  | IFault _ => False
  end -> no_crash (fst run).
Proof.
  destruct r as [s' u|[]]; intros H; try contradiction; try (rewrite H; exact I); destruct H as [e H]; rewrite H; exact I.
Qed.

Theorem div_idiv_no_crash c i s :
  wf_regs s -> Inv (mem s) -> i_op_count i = 1 ->
  (rm32_shape i 0 -> i_code i = C_Div_rm32 -> no_crash (fst (instr_div_rm32 c i s))) /\
  (rm32_shape i 0 -> i_code i = C_Idiv_rm32 -> no_crash (fst (instr_idiv_rm32 c i s))) /\
  (rm16_shape i 0 -> i_code i = C_Div_rm16 -> no_crash (fst (instr_div_rm16 c i s))) /\
  (rm16_shape i 0 -> i_code i = C_Idiv_rm16 -> no_crash (fst (instr_idiv_rm16 c i s))) /\
  (rm8_shape i 0 -> i_code i = C_Div_rm8 -> no_crash (fst (instr_div_rm8 c i s))) /\
  (rm8_shape i 0 -> i_code i = C_Idiv_rm8 -> no_crash (fst (instr_idiv_rm8 c i s))).
Proof.
  intros Hwf HI Hn. repeat split; intros Hs Ec.
  - exact (div_style_no_crash _ s _ (div_rm32_refines c i s Hwf HI Hn Hs Ec)).
  - exact (div_style_no_crash _ s _ (idiv_rm32_refines c i s Hwf HI Hn Hs Ec)).
  - exact (div_style_no_crash _ s _ (div_rm16_refines c i s Hwf HI Hn Hs Ec)).
  - exact (div_style_no_crash _ s _ (idiv_rm16_refines c i s Hwf HI Hn Hs Ec)).
  - exact (div_style_no_crash _ s _ (div_rm8_refines c i s Hwf HI Hn Hs Ec)).
  - exact (div_style_no_crash _ s _ (idiv_rm8_refines c i s Hwf HI Hn Hs Ec)).
Qed.
