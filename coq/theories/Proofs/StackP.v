(* C04: the stack instructions of the emulator, characterised exactly, and their relation to
   the ISA specification: the hardware operation conjugated by RSP + size
   (known finding KF-C04-stack-convention stated as a theorem). *)
From Coq Require Import ZArith Bool List Lia FunctionalExtensionality.
From AxV Require Import Bits Outcome Codes Iced State Rt Mem Trace BitsP RegFile RegsP ISA MemP ByteStore
  ReadonlyTac QuietTac CfP.
From AxG Require Import Flags Regs Operand Helpers I_push I_pop.
Local Open Scope Z_scope.
Import ListNotations.
Ltac Zify.zify_post_hook ::= Z.div_mod_to_equations.

(* the emulator's convention: an empty-descending stack *)
Definition emu_push (n : nat) (v : Z) (s : mstate) : option mstate :=
  match store n (regs s RSP) v s with
  | Some s1 => Some (set_regs s1 (upd (regs s1) RSP ((regs s RSP - Z.of_nat n) mod 2 ^ 64)))
  | None => None
  end.
Definition emu_pop (n : nat) (s : mstate) : option (Z * mstate) :=
  let a := (regs s RSP + Z.of_nat n) mod 2 ^ 64 in
  match load n a s with
  | Some v => Some (v, set_regs s (upd (regs s) RSP a))
  | None => None
  end.

(* shifting the stack pointer *)
Definition shift (d : Z) (s : mstate) : mstate := set_regs s (upd (regs s) RSP ((regs s RSP + d) mod 2 ^ 64)).

Lemma store_regs n a v s s1 : store n a v s = Some s1 -> regs s1 = regs s.
Proof.
  unfold store. pose proof (mem_write_bytes_keeps a (le_bytes n v) s) as K. cbv zeta in K.
  destruct (mem_write_bytes a (le_bytes n v) s) as [[u|e|p|] s']; try discriminate. inversion 1; subst. apply K.
Qed.

Lemma store_shift n a v s d : store n a v (shift d s) = option_map (shift d) (store n a v s).
Proof.
  unfold store, shift, mem_write_bytes. cbn [mem set_regs].
  destruct (find_area_idx (mem s) a) as [k|]; [|reflexivity].
  destruct (nth_error (mem s) k) as [ar|]; [|reflexivity].
  repeat match goal with |- context [if ?c then _ else _] => destruct c end; reflexivity.
Qed.

Lemma set_regs_set_regs s f g : set_regs (set_regs s f) g = set_regs s g.
Proof. destruct s; reflexivity. Qed.
Lemma set_regs_ext s f g : (forall q, f q = g q) -> set_regs s f = set_regs s g.
Proof. intros H. f_equal. apply functional_extensionality. exact H. Qed.
Lemma upd_upd f r a b q : upd (upd f r a) r b q = upd f r b q.
Proof. unfold upd. destruct (reg_eqb r q); reflexivity. Qed.

(* KF-C04-stack-convention as a theorem: the emulator's push is the hardware's push
   conjugated by RSP + size *)
Theorem emu_push_is_conjugate n v s :
  0 <= regs s RSP < 2 ^ 64 ->
  emu_push n v s = option_map (shift (- Z.of_nat n)) (push_val n v (shift (Z.of_nat n) s)).
Proof.
  intros Hr. unfold emu_push, push_val.
  assert (E : (regs (shift (Z.of_nat n) s) RSP - Z.of_nat n) mod 2 ^ 64 = regs s RSP).
  { unfold shift. cbn [regs set_regs]. rewrite upd_same. rewrite Zminus_mod_idemp_l.
    replace (regs s RSP + Z.of_nat n - Z.of_nat n) with (regs s RSP) by ring. apply Z.mod_small. exact Hr. }
  rewrite E. rewrite store_shift.
  destruct (store n (regs s RSP) v s) as [s1|] eqn:S; cbn [option_map]; [|reflexivity].
  f_equal. pose proof (store_regs _ _ _ _ _ S) as R.
  unfold shift. cbn [regs set_regs]. rewrite !set_regs_set_regs. apply set_regs_ext. intros q.
  rewrite !upd_same. rewrite !upd_upd. rewrite R. unfold upd. destruct (reg_eqb RSP q); [|reflexivity].
  try (f_equal; ring).
Qed.

Theorem emu_pop_is_conjugate n s :
  0 <= regs s RSP < 2 ^ 64 ->
  emu_pop n s = option_map (fun '(v, s1) => (v, shift (- Z.of_nat n) s1)) (pop_val n (shift (Z.of_nat n) s)).
Proof.
  intros Hr. unfold emu_pop, pop_val.
  assert (E : regs (shift (Z.of_nat n) s) RSP = (regs s RSP + Z.of_nat n) mod 2 ^ 64) by (unfold shift; cbn [regs set_regs]; apply upd_same).
  rewrite E.
  assert (L : load n ((regs s RSP + Z.of_nat n) mod 2 ^ 64) (shift (Z.of_nat n) s) = load n ((regs s RSP + Z.of_nat n) mod 2 ^ 64) s).
  { unfold load, shift, mem_read_n, mem_read_bytes. cbn [mem set_regs].
    destruct (find_area (mem s) _); [|reflexivity].
    repeat match goal with |- context [if ?c then _ else _] => destruct c end; reflexivity. }
  rewrite L. destruct (load n _ s) as [v|]; cbn [option_map]; [|reflexivity].
  f_equal. f_equal. unfold shift. cbn [regs set_regs]. rewrite !set_regs_set_regs. apply set_regs_ext. intros q.
  rewrite !upd_same. rewrite !upd_upd. unfold upd. destruct (reg_eqb RSP q); [|reflexivity].
  set (A := (regs s RSP + Z.of_nat n) mod 2 ^ 64).
  rewrite Zplus_mod_idemp_l. replace (A + Z.of_nat n + - Z.of_nat n) with A by ring.
  unfold A. symmetry. apply Z.mod_mod. discriminate.
Qed.

(* ---- the generated PUSH r64 / POP r64, exactly ---- *)
Lemma sup_of_gpr64 r : is_gpr64 r = true -> sup_of_iced r = Ok r.
Proof. intros H. unfold sup_of_iced. destruct r; try discriminate H; reflexivity. Qed.

Lemma rf_read_gpr64 s r : wf_regs s -> is_gpr64 r = true -> rf_read (regs s) r = regs s r.
Proof.
  intros Hwf H. unfold rf_read. destruct r; try discriminate H; cbn; rewrite Z.div_1_r; apply Z.mod_small; apply Hwf.
Qed.

Theorem push_r64_exact c i s :
  i_code i = C_Push_r64 -> is_gpr64 (i_op0_register i) = true -> wf_regs s -> Inv (mem s) ->
  let v := regs s (i_op0_register i) in      (* read before RSP moves, also when the operand is RSP *)
  (exists s', emu_push 8 v s = Some s' /\ instr_push_r64 c i s = (Ok tt, s')) \/
  (emu_push 8 v s = None /\ exists e, instr_push_r64 c i s = (Err e, s)).
Proof.
  intros Ec Hr Hwf HI v. unfold instr_push_r64. rewrite Ec. cbn [code_eqb].
  unfold debug_assert_that, assert_that.
  assert (D : lift (if dbg c then if true then Ok tt else Panic PAssert else Ok tt) s = (Ok tt, s)) by (unfold lift; destruct (dbg c); reflexivity).
  rewrite (bind_ok _ _ _ _ _ D).
  assert (S1 : lift (sup_of_iced (i_op0_register i)) s = (Ok (i_op0_register i), s)) by (unfold lift; rewrite sup_of_gpr64 by exact Hr; reflexivity).
  rewrite (bind_ok _ _ _ _ _ S1).
  assert (R1 : reg_read_64 c (i_op0_register i) s = (Ok v, s)).
  { rewrite (reg_read_64_ok c _ s Hwf Hr). rewrite rf_read_gpr64 by assumption. reflexivity. }
  rewrite (bind_ok _ _ _ _ _ R1). rewrite (bind_ok _ _ _ _ _ (rr64_rsp c s)).
  unfold emu_push, store.
  destruct (write_never_panics (regs s RSP) (le_bytes 8 v) s HI) as [[s1 E]|[e E]].
  - left. rewrite E. eexists. split; [reflexivity|].
    assert (E' : mem_write_64 (regs s RSP) v s = (Ok tt, s1)) by (rewrite typed_write_64_is_le; exact E).
    rewrite (bind_ok _ _ _ _ _ E').
    rewrite (bind_ok _ _ _ _ _ (rw64_rsp c _ s1)). unfold ret. reflexivity.
  - right. rewrite E. split; [reflexivity|]. exists e.
    assert (E' : mem_write_64 (regs s RSP) v s = (Err e, s)) by (rewrite typed_write_64_is_le; exact E).
    unfold bind. rewrite E'. reflexivity.
Qed.

Theorem pop_r64_exact c i s :
  i_code i = C_Pop_r64 -> is_gpr64 (i_op0_register i) = true -> wf_regs s ->
  let r := i_op0_register i in
  match emu_pop 8 s with
  | Some (v, s1) =>
      (* the destination is written first, the stack pointer last (also when the destination is RSP) *)
      instr_pop_r64 c i s = (Ok tt, set_regs s (upd (upd (regs s) r v) RSP ((regs s RSP + 8) mod 2 ^ 64)))
  | None => exists e, instr_pop_r64 c i s = (e, s) /\ forall u, e <> Ok u
  end.
Proof.
  intros Ec Hr Hwf r. unfold instr_pop_r64. rewrite Ec. cbn [code_eqb].
  unfold debug_assert_that, assert_that.
  assert (D : lift (if dbg c then if true then Ok tt else Panic PAssert else Ok tt) s = (Ok tt, s)) by (unfold lift; destruct (dbg c); reflexivity).
  rewrite (bind_ok _ _ _ _ _ D).
  assert (S1 : lift (sup_of_iced (i_op0_register i)) s = (Ok r, s)) by (unfold lift, r; rewrite sup_of_gpr64 by exact Hr; reflexivity).
  rewrite (bind_ok _ _ _ _ _ S1). rewrite (bind_ok _ _ _ _ _ (rr64_rsp c s)). cbv zeta.
  unfold emu_pop, load. change (wadd U64 (regs s RSP) 8) with ((regs s RSP + 8) mod 2 ^ 64).
  change (Z.of_nat 8) with 8.
  pose proof (readonly_mem_read_64 ((regs s RSP + 8) mod 2 ^ 64) s) as RO.
  change mem_read_64 with (mem_read_n 8) in *.
  destruct (mem_read_n 8 ((regs s RSP + 8) mod 2 ^ 64) s) as [[v|e|p|] s1] eqn:E; cbn [snd] in RO; subst s1.
  - rewrite (bind_ok _ _ _ _ _ E). rewrite (bind_ok _ _ _ _ _ (reg_write_64_ok c r v s Hr)).
    rewrite (bind_ok _ _ _ _ _ (rw64_rsp c _ _)). unfold ret. f_equal.
    rewrite set_regs_set_regs. apply set_regs_ext. intros q. cbn [regs set_regs].
    unfold rf_write, r. destruct (i_op0_register i); try discriminate Hr; reflexivity.
  - eexists. split; [unfold bind; rewrite E; reflexivity|discriminate].
  - eexists. split; [unfold bind; rewrite E; reflexivity|discriminate].
  - eexists. split; [unfold bind; rewrite E; reflexivity|discriminate].
Qed.
