(* C01/C02: MOV r8 / r/m8, imm (register destination) and XOR r/m8, imm against the ISA specification.
   The 32-bit part of MovImmP.v at another width (textual transformation, checked by Coq). *)
From Coq Require Import ZArith Bool List Lia.
From AxV Require Import Bits Outcome Codes Iced State Rt Mem Trace BitsP ByteStore MemP RegFile RegsP ISA CodeSem ReadonlyTac
  OperandP FlagsP CfP MovP RmP AluP AluRmP AluMemP MovxP Alu8P AluImm8P.
From AxG Require Import Flags Regs Operand Helpers I_lea I_mov I_xor.
Local Open Scope Z_scope.
Ltac Zify.zify_post_hook ::= Z.div_mod_to_equations.

(* ---- the same at 32 bits ---- *)
Section RmImm8NoFlags.
  Variables (c : cfg) (i : instr) (s : mstate).
  Hypothesis Hwf : wf_regs s.
  Hypothesis HI : Inv (mem s).
  Hypothesis Hn : i_op_count i = 2.
  Hypothesis Hs0 : rm8_shape i 0.
  Hypothesis Him : imm8_shape i.

  Lemma calc_rm_imm_8_shape (op : Z -> Z -> outcome Z) fset fclear :
    exists v, read_op i 1 8 s = Some v /\ 0 <= v < 2 ^ 8 /\
    match read_op i 0 8 s with
    | Some d =>
        0 <= d < 2 ^ 8 /\
        forall res, op d v = Ok res ->
          calculate_rm_imm_8 c i op fset fclear s =
          bind (set_flags_u8 c fset fclear res)
               (fun _ => if Z.land fset NO_WRITEBACK =? 0 then dest_write8 c i res else ret tt) s
    | None => exists e, calculate_rm_imm_8 c i op fset fclear s = (Err e, s)
    end.
  Proof.
    destruct (imm8_operand c i s Hn Him) as (dd & v & O1 & CV & RV & Hv). exists v. split; [exact RV|]. split; [exact Hv|].
    assert (SA : lift (debug_assert_that c (1 =? 1)) s = (Ok tt, s)) by (unfold lift, debug_assert_that, assert_that; destruct (dbg c); reflexivity).
    unfold calculate_rm_imm_8, read_op, dest_write8.
    destruct Hs0 as [[K0 H0]|[K0 Hm]]; rewrite K0.
    - assert (O0 : instruction_operand c i 0 s = (Ok (OpRegister (i_op_register i 0)), s))
        by (apply operand_register; [rewrite Hn; reflexivity|exact K0|reflexivity|apply gpr8_supported; exact H0]).
      assert (OP : instruction_operands_2 c i s = (Ok (OpRegister (i_op_register i 0), OpImmediate dd 1), s)).
      { unfold instruction_operands_2. rewrite (bind_ok _ _ _ _ _ O0). rewrite (bind_ok _ _ _ _ _ O1). reflexivity. }
      rewrite rf_read_mod8 by exact H0.
      assert (Hd : 0 <= rf_read (regs s) (i_op_register i 0) < 2 ^ 8) by (apply rf_read_range8; exact H0).
      split; [exact Hd|]. intros res Hop.
      rewrite (bind_ok _ _ _ _ _ OP). cbv beta iota.
      rewrite bind_assoc. rewrite (bind_ok _ _ _ _ _ SA). rewrite (bind_ok _ _ _ _ _ (eq_refl : ret (cast U64 U8 dd) s = _)).
      rewrite CV.
      rewrite (bind_ok _ _ _ _ _ (reg_read_8_ok c _ s Hwf H0)). rewrite (cast_u64_u8_id _ Hd). rewrite Hop.
      rewrite (bind_ok _ _ _ _ _ (eq_refl : lift (Ok res) s = _)). unfold bind.
      destruct (set_flags_u8 c fset fclear res s) as [[[]|e|p|] s1]; try reflexivity.
      destruct (Z.land fset NO_WRITEBACK =? 0); [|reflexivity].
      destruct (reg_write_8 c (i_op_register i 0) (cast U8 U64 res) s1) as [[[]|e|p|] s2]; reflexivity.
    - destruct (operand_address c i 0 s Hwf Hm ltac:(rewrite Hn; reflexivity) K0) as (O0 & EA & _).
      assert (OP : instruction_operands_2 c i s = (Ok (OpMemory (memop_of i), OpImmediate dd 1), s)).
      { unfold instruction_operands_2. rewrite (bind_ok _ _ _ _ _ O0). rewrite (bind_ok _ _ _ _ _ O1). reflexivity. }
      unfold load. change (bytes_of 8) with 1%nat.
      rewrite (bind_ok _ _ _ _ _ OP). cbv beta iota.
      rewrite bind_assoc. rewrite (bind_ok _ _ _ _ _ SA). rewrite (bind_ok _ _ _ _ _ (eq_refl : ret (cast U64 U8 dd) s = _)).
      rewrite CV.
      rewrite (bind_ok _ _ _ _ _ EA). change mem_read_8 with (mem_read_n 1).
      destruct (mem_read_n_cases 1 (ea i s) s HI) as [(d & E & R)|(e & E)]; rewrite E.
      + split; [exact R|]. intros res Hop.
        rewrite (bind_ok _ _ _ _ _ E). rewrite (cast_u64_u8_id d R). rewrite Hop.
        rewrite (bind_ok _ _ _ _ _ (eq_refl : lift (Ok res) s = _)).
        destruct (Z.land fset NO_WRITEBACK =? 0); unfold store_tail8, bind;
          destruct (set_flags_u8 c fset fclear res s) as [[[]|e|p|] s1]; try reflexivity.
        destruct (mem_addr c (memop_of i) s1) as [[a|e|p|] s2]; try reflexivity.
        destruct (mem_write_8 a (cast U8 U64 res) s2) as [[[]|e|p|] s3]; reflexivity.
      + exists e. rewrite (bind_err _ _ _ _ _ E). reflexivity.
  Qed.
End RmImm8NoFlags.

Section MovImm8Forms.
  Variables (c : cfg) (i : instr) (s : mstate).
  Hypothesis Hwf : wf_regs s.
  Hypothesis HI : Inv (mem s).
  Hypothesis Hn : i_op_count i = 2.

  Lemma mov_reg_imm8_core :
    i_op_kind i 0 = OK_Register -> is_gpr8 (i_op_register i 0) = true -> imm8_shape i ->
    exists s', calculate_rm_imm_8 c i (fun _ v_s => Ok v_s) FLAGS_UNAFFECTED 0 s = (Ok tt, s') /\
               isa_exec (SMov 8) i s = IDone s' 0.
  Proof.
    intros K0 H0 Him.
    destruct (calc_rm_imm_8_shape c i s Hwf HI Hn (or_introl (conj K0 H0)) Him (fun _ v_s => Ok v_s) FLAGS_UNAFFECTED 0)
      as (v & RV & Hv & SH).
    unfold read_op in SH. rewrite K0 in SH. destruct SH as [Hd SH].
    rewrite (SH _ eq_refl). rewrite (bind_ok _ _ _ _ _ (set_flags8u_unaffected c _ s)).
    change (Z.land FLAGS_UNAFFECTED NO_WRITEBACK =? 0) with true. cbv iota.
    unfold dest_write8. rewrite K0. rewrite (cast_u8_u64_id v Hv). rewrite (reg_write_8_ok c _ _ s Hwf H0 Hv).
    eexists. split; [reflexivity|]. cbn [isa_exec]. rewrite RV. unfold write_op. rewrite K0. reflexivity.
  Qed.

  Theorem mov_r8_imm8_refines :
    i_op_kind i 0 = OK_Register -> is_gpr8 (i_op_register i 0) = true -> imm8_shape i ->
    (i_code i = C_Mov_r8_imm8 -> exists s', instr_mov_r8_imm8 c i s = (Ok tt, s') /\ isa_exec (SMov 8) i s = IDone s' 0) /\
    (i_code i = C_Mov_rm8_imm8 -> exists s', instr_mov_rm8_imm8 c i s = (Ok tt, s') /\ isa_exec (SMov 8) i s = IDone s' 0).
  Proof.
    intros K0 H0 Him. split; intros Ec.
    - unfold instr_mov_r8_imm8. rewrite Ec. rewrite (bind_ok _ _ _ _ _ (dbg_code_ok c s _ eq_refl)). exact (mov_reg_imm8_core K0 H0 Him).
    - unfold instr_mov_rm8_imm8. rewrite Ec. rewrite (bind_ok _ _ _ _ _ (dbg_code_ok c s _ eq_refl)). exact (mov_reg_imm8_core K0 H0 Him).
  Qed.

  Lemma xor_imm8_core :
    0 <= rflags s < 2 ^ 64 -> rm8_shape i 0 -> imm8_shape i ->
    rmw8_refines i s XOR (calculate_rm_imm_8 c i (fun v_d v_s => Ok (Z.lxor v_d v_s)) (Z.lor (Z.lor FLAG_ZF FLAG_SF) FLAG_PF) (Z.lor FLAG_OF FLAG_CF) s).
  Proof.
    intros Hrf Hs0 Him. unfold rmw8_refines. cbn [isa_exec]. unfold exec_alu.
    destruct (calc_rm_imm_8_shape c i s Hwf HI Hn Hs0 Him (fun v_d v_s => Ok (Z.lxor v_d v_s)) (Z.lor (Z.lor FLAG_ZF FLAG_SF) FLAG_PF) (Z.lor FLAG_OF FLAG_CF))
      as (v & RV & Hv & SH).
    rewrite RV.
    destruct (read_op i 0 8 s) as [d|]; [|destruct SH as [e SH]; exists e, 0; left; exact SH]. destruct SH as [Hd SH].
    rewrite (SH _ eq_refl).
    change (Z.lor (Z.lor FLAG_ZF FLAG_SF) FLAG_PF) with (arith_fs false false).
    change (Z.lor FLAG_OF FLAG_CF) with 2049.
    rewrite (bind_ok _ _ _ _ _ (set_flags_u8_arith c false false _ s Hrf)).
    change (Z.land (arith_fs false false) NO_WRITEBACK =? 0) with true. cbv iota.
    cbn [alu b2f]. change (0 + 0) with 0. rewrite !Z.add_0_l.
    pose proof (lxor_range8 _ _ Hd Hv) as Hres.
    match goal with |- context [dest_write8 c i ?res (with_flags s ?mk ?bits)] =>
      pose proof (dest_write8_spec c i s Hwf HI Hn Hs0 (set_status (rflags s) mk bits) res Hres) as ST;
      cbv zeta in ST; fold (with_flags s mk bits) in ST;
      destruct (write_op i 0 8 res (with_flags s mk bits)) as [s2|];
      [rewrite ST; cbn [opt_done]; split; reflexivity
      |destruct ST as [e ST]; rewrite ST; cbn [opt_done]; exists e; eexists; right; reflexivity]
    end.
  Qed.

  Theorem xor_rm8_imm_refines :
    0 <= rflags s < 2 ^ 64 -> rm8_shape i 0 -> imm8_shape i ->
    (i_code i = C_Xor_rm8_imm8_82 -> rmw8_refines i s XOR (instr_xor_rm8_imm8_82 c i s)) /\
    rmw8_refines i s XOR (instr_xor_rm8_imm8 c i s) /\
    (i_code i = C_Xor_AL_imm8 -> rmw8_refines i s XOR (instr_xor_al_imm8 c i s)).
  Proof.
    intros Hrf Hs0 Him. repeat split.
    - intros Ec. unfold instr_xor_rm8_imm8_82. rewrite Ec. rewrite (bind_ok _ _ _ _ _ (dbg_code_ok c s _ eq_refl)). exact (xor_imm8_core Hrf Hs0 Him).
    - exact (xor_imm8_core Hrf Hs0 Him).
    - intros Ec. unfold instr_xor_al_imm8. rewrite Ec. rewrite (bind_ok _ _ _ _ _ (dbg_code_ok c s _ eq_refl)). exact (xor_imm8_core Hrf Hs0 Him).
  Qed.
End MovImm8Forms.
