(* C07: the generated register API (gen/Regs.v, from src/state/registers.rs)
   refines the register-file specification. *)
From Coq Require Import ZArith Bool List Lia.
From AxV Require Import Bits Outcome Codes Iced State Rt BitsP RegFile.
From AxG Require Import Flags Regs.
Local Open Scope Z_scope.
Ltac Zify.zify_post_hook ::= Z.div_mod_to_equations.

Definition wf_regs (s : mstate) : Prop := forall r, 0 <= regs s r < 2 ^ 64.

Lemma shl_raw_small v n : 0 <= n -> 0 <= v -> v * 2 ^ n < 2 ^ 64 -> shl_raw U64 v n = Z.shiftl v n.
Proof.
  intros Hn Hv H. unfold shl_raw. rewrite enc_small.
  - rewrite Z.shiftl_mul_pow2 by lia. reflexivity.
  - unfold modulus; simpl width. split; [|exact H]. apply Z.mul_nonneg_nonneg; [lia|]. apply Z.pow_nonneg; lia.
Qed.

Ltac reg_cases r := destruct r; try discriminate.
Ltac ok_eq := match goal with |- (Ok ?a, ?s) = (Ok ?b, ?s) => cut (a = b); [let H := fresh in intros H; exact (f_equal (fun v => (Ok v, s)) H)|] end.

Lemma leb_true a b : a <= b -> (a <=? b) = true.
Proof. intros; apply Z.leb_le; assumption. Qed.
Lemma leb_false a b : b < a -> (a <=? b) = false.
Proof. intros; apply Z.leb_gt; assumption. Qed.

(* ---- writes ---- *)
Theorem reg_write_8_ok c r v s :
  wf_regs s -> is_gpr8 r = true -> 0 <= v < 2 ^ 8 ->
  reg_write_8 c r v s = (Ok tt, set_regs s (rf_write (regs s) r v)).
Proof.
  intros Hwf Hr Hv. unfold reg_write_8, bind, lift.
  rewrite (leb_true v 255) by lia. cbn [assert_fatal_that].
  reg_cases r; cbn;
  unfold rf_write, set_regs; cbn; repeat f_equal;
  match goal with
  | |- context [Z.lor (Z.land (regs s ?q) 18446744073709551360) v] =>
      change 18446744073709551360 with (Z.ldiff (Z.ones 64) (fmask 0 8));
      replace v with (Z.shiftl v 0) at 1 by apply Z.shiftl_0_r;
      rewrite (field_insert (regs s q) v 0 8 64) by (try apply Hwf; lia); reflexivity
  | |- context [Z.lor (Z.land (regs s ?q) 18446744073709486335) (shl_raw U64 v 8)] =>
      change 18446744073709486335 with (Z.ldiff (Z.ones 64) (fmask 8 8));
      rewrite shl_raw_small by lia;
      rewrite (field_insert (regs s q) v 8 8 64) by (try apply Hwf; lia); reflexivity
  end.
Qed.

Theorem reg_write_16_ok c r v s :
  wf_regs s -> is_gpr16 r = true -> 0 <= v < 2 ^ 16 ->
  reg_write_16 c r v s = (Ok tt, set_regs s (rf_write (regs s) r v)).
Proof.
  intros Hwf Hr Hv. unfold reg_write_16, bind, lift.
  rewrite (leb_true v 65535) by lia. cbn [assert_fatal_that].
  reg_cases r; cbn;
  unfold rf_write, set_regs; cbn; repeat f_equal;
  match goal with
  | |- context [Z.lor (Z.land (regs s ?q) 18446744073709486080) v] =>
      change 18446744073709486080 with (Z.ldiff (Z.ones 64) (fmask 0 16));
      replace v with (Z.shiftl v 0) at 1 by apply Z.shiftl_0_r;
      rewrite (field_insert (regs s q) v 0 16 64) by (try apply Hwf; lia); reflexivity
  end.
Qed.

Lemma cast_u64_u32_small v : 0 <= v < 2 ^ 32 -> cast U32 U64 (cast U64 U32 v) = v.
Proof.
  intros H. unfold cast, sem, enc, modulus; simpl.
  rewrite (Z.mod_small v) by lia. apply Z.mod_small. lia.
Qed.

Theorem reg_write_32_ok c r v s :
  is_gpr32 r = true -> 0 <= v < 2 ^ 32 ->
  reg_write_32 c r v s = (Ok tt, set_regs s (rf_write (regs s) r v)).
Proof.
  intros Hr Hv. unfold reg_write_32, bind, lift.
  rewrite (leb_true v 4294967295) by lia. cbn [assert_fatal_that].
  reg_cases r; cbn; unfold rf_write, set_regs; cbn; rewrite cast_u64_u32_small by lia; reflexivity.
Qed.

Theorem reg_write_64_ok c r v s :
  is_gpr64 r = true ->
  reg_write_64 c r v s = (Ok tt, set_regs s (rf_write (regs s) r v)).
Proof.
  intros Hr. unfold reg_write_64, bind, lift.
  reg_cases r; cbn; reflexivity.
Qed.

(* ---- reads ---- *)
Lemma read8_lo x : 0 <= x < 2 ^ 64 ->
  cast U8 U64 (cast U64 U8 (Z.land x 255)) = (x / 2 ^ 0) mod 2 ^ 8.
Proof.
  intros Hx. change 255 with (Z.ones 8). rewrite Z.land_ones by lia.
  unfold cast, sem, enc, modulus; cbn [signed width].
  change (2 ^ 0) with 1. change (2 ^ 8) with 256. change (2 ^ 64) with 18446744073709551616 in *. lia.
Qed.

Lemma read8_hi x : 0 <= x < 2 ^ 64 ->
  cast U8 U64 (cast U64 U8 (shr_raw U64 (Z.land x 65280) 8)) = (x / 2 ^ 8) mod 2 ^ 8.
Proof.
  intros Hx. change 65280 with (fmask 8 8). rewrite land_fmask by lia.
  unfold shr_raw, cast; unfold sem, enc, modulus; cbn [signed width].
  change (2 ^ 8) with 256. change (2 ^ 64) with 18446744073709551616 in *.
  assert (Hy : 0 <= (x / 256) mod 256 < 256) by (apply Z.mod_pos_bound; lia).
  remember ((x / 256) mod 256) as y.
  rewrite Z.div_mul by lia.
  rewrite (Z.mod_small y 18446744073709551616) by lia.
  rewrite (Z.mod_small y 256) by lia.
  apply Z.mod_small. lia.
Qed.

Theorem reg_read_8_ok c r s :
  wf_regs s -> is_gpr8 r = true ->
  reg_read_8 c r s = (Ok (rf_read (regs s) r), s).
Proof.
  intros Hwf Hr. unfold reg_read_8, bind, lift.
  reg_cases r; cbn; unfold rf_read, ret; cbn; ok_eq;
  first [ apply read8_lo; apply Hwf | apply read8_hi; apply Hwf ].
Qed.

Theorem reg_read_16_ok c r s :
  wf_regs s -> is_gpr16 r = true ->
  reg_read_16 c r s = (Ok (rf_read (regs s) r), s).
Proof.
  intros Hwf Hr. unfold reg_read_16, bind, lift.
  reg_cases r; cbn; unfold rf_read, ret; cbn; ok_eq;
  change 65535 with (Z.ones 16); rewrite Z.land_ones by lia; rewrite Z.div_1_r; reflexivity.
Qed.

Theorem reg_read_32_ok c r s :
  wf_regs s -> is_gpr32 r = true ->
  reg_read_32 c r s = (Ok (rf_read (regs s) r), s).
Proof.
  intros Hwf Hr. unfold reg_read_32, bind, lift.
  reg_cases r; cbn; unfold rf_read, ret; cbn; ok_eq;
  change 4294967295 with (Z.ones 32); rewrite Z.land_ones by lia; rewrite Z.div_1_r; reflexivity.
Qed.

Theorem reg_read_64_ok c r s :
  wf_regs s -> is_gpr64 r = true ->
  reg_read_64 c r s = (Ok (rf_read (regs s) r), s).
Proof.
  intros Hwf Hr. unfold reg_read_64, bind, lift.
  reg_cases r; cbn; unfold rf_read, ret; cbn; ok_eq;
  rewrite Z.div_1_r; symmetry; apply Z.mod_small; apply Hwf.
Qed.

(* ---- rejections leave the state unchanged ---- *)
Theorem reg_write_8_reject c r v s :
  is_supported r = true -> (is_gpr8 r = false \/ 2 ^ 8 <= v) ->
  reg_write_8 c r v s = (Err EFatal, s).
Proof.
  intros Hs H. unfold reg_write_8, bind, lift.
  destruct (Z.leb_spec v 255) as [Hle|Hgt]; cbn [assert_fatal_that]; [|reflexivity].
  destruct H as [H|H]; [|lia].
  destruct r; try discriminate; reflexivity.
Qed.

Theorem reg_write_16_reject c r v s :
  is_supported r = true -> (is_gpr16 r = false \/ 2 ^ 16 <= v) ->
  reg_write_16 c r v s = (Err EFatal, s).
Proof.
  intros Hs H. unfold reg_write_16, bind, lift.
  destruct (Z.leb_spec v 65535) as [Hle|Hgt]; cbn [assert_fatal_that]; [|reflexivity].
  destruct H as [H|H]; [|lia].
  destruct r; try discriminate; reflexivity.
Qed.

Theorem reg_write_32_reject c r v s :
  is_supported r = true -> (is_gpr32 r = false \/ 2 ^ 32 <= v) ->
  reg_write_32 c r v s = (Err EFatal, s).
Proof.
  intros Hs H. unfold reg_write_32, bind, lift.
  destruct (Z.leb_spec v 4294967295) as [Hle|Hgt]; cbn [assert_fatal_that]; [|reflexivity].
  destruct H as [H|H]; [|lia].
  destruct r; try discriminate; reflexivity.
Qed.

Theorem reg_write_64_reject c r v s :
  is_supported r = true -> is_gpr64 r = false -> r <> RIP -> r <> EIP ->
  reg_write_64 c r v s = (Err EFatal, s).
Proof.
  intros Hs H H1 H2. unfold reg_write_64, bind, lift.
  destruct r; try discriminate; try reflexivity; congruence.
Qed.

Theorem reg_read_reject c r s :
  is_supported r = true ->
  (is_gpr8 r = false -> reg_read_8 c r s = (Err EFatal, s)) /\
  (is_gpr16 r = false -> reg_read_16 c r s = (Err EFatal, s)) /\
  (is_gpr32 r = false -> reg_read_32 c r s = (Err EFatal, s)).
Proof.
  intros Hs. unfold reg_read_8, reg_read_16, reg_read_32, bind, lift.
  repeat split; intros H; destruct r; try discriminate; reflexivity.
Qed.

(* ---- the register-file laws (what a user relies on) ---- *)
Lemma upd_same f r v : upd f r v r = v.
Proof. unfold upd. destruct r; reflexivity || (cbn; rewrite Z.eqb_refl; reflexivity). Qed.

Lemma reg_eqb_eq a b : reg_eqb a b = true -> a = b.
Proof.
  destruct a, b; cbn; intros H; try discriminate; try reflexivity.
  apply Z.eqb_eq in H. subst. reflexivity.
Qed.

Lemma upd_other f r v r' : r <> r' -> upd f r v r' = f r'.
Proof.
  intros H. unfold upd. destruct (reg_eqb r r') eqn:E; [|reflexivity].
  apply reg_eqb_eq in E. contradiction.
Qed.

(* a write touches only the 64-bit register its view belongs to *)
Theorem rf_write_frame f r v q :
  to_qword r <> Some q -> rf_write f r v q = f q.
Proof.
  intros H. unfold rf_write. destruct (to_qword r) as [q'|] eqn:E; [|reflexivity].
  apply upd_other. congruence.
Qed.

(* read-after-write through the same view returns the written value *)
Theorem rf_read_write_same f r v :
  (forall q, 0 <= f q < 2 ^ 64) -> view_width r <> 0 -> 0 <= v < 2 ^ view_width r ->
  rf_read (rf_write f r v) r = v.
Proof.
  intros Hf Hw Hv. unfold rf_read, rf_write.
  destruct (to_qword r) as [q|] eqn:E.
  - rewrite upd_same.
    assert (Hcases : (view_width r = 8 /\ (view_lo r = 0 \/ view_lo r = 8)) \/ (view_width r = 16 /\ view_lo r = 0)
                     \/ (view_width r = 32 /\ view_lo r = 0) \/ (view_width r = 64 /\ view_lo r = 0)).
    { destruct r; cbn in *; try discriminate; try congruence; auto 10. }
    pose proof (Hf q) as Hq.
    destruct Hcases as [[Ew [El|El]]|[[Ew El]|[[Ew El]|[Ew El]]]]; rewrite Ew, El in *; cbn [Z.eqb orb Pos.eqb];
      unfold set_field; change (2 ^ 0) with 1; change (2 ^ 8) with 256 in *; change (2 ^ 16) with 65536 in *;
      change (2 ^ 32) with 4294967296 in *; change (2 ^ 64) with 18446744073709551616 in *; lia.
  - destruct r; cbn in *; try discriminate; congruence.
Qed.

(* ---- histories of register-API calls ---- *)
Definition unit_to_z (x : outcome unit * mstate) : outcome Z * mstate :=
  match x with
  | (Ok _, s) => (Ok 0, s) | (Err e, s) => (Err e, s) | (Panic p, s) => (Panic p, s) | (Fuel, s) => (Fuel, s)
  end.

Definition model_rop (c : cfg) (o : rop) (s : mstate) : outcome Z * mstate :=
  match o with
  | RW bits r v =>
      unit_to_z (if bits =? 8 then reg_write_8 c r v s else if bits =? 16 then reg_write_16 c r v s
                 else if bits =? 32 then reg_write_32 c r v s else reg_write_64 c r v s)
  | RR bits r =>
      if bits =? 8 then reg_read_8 c r s else if bits =? 16 then reg_read_16 c r s
      else if bits =? 32 then reg_read_32 c r s else reg_read_64 c r s
  end.

Fixpoint run_model (c : cfg) (ops : list rop) (s : mstate) : list (outcome Z) * mstate :=
  match ops with
  | nil => (nil, s)
  | o :: ops' => let '(r, s1) := model_rop c o s in
                 let '(rs, s2) := run_model c ops' s1 in (r :: rs, s2)
  end.

Lemma all_views_supported r : In r all_views -> is_supported r = true /\ view_width r <> 0 /\ r <> RIP /\ r <> EIP.
Proof.
  intros H. unfold all_views in H. cbn in H.
  repeat (destruct H as [<-|H]; [cbn; repeat split; congruence|]). contradiction.
Qed.

Lemma view_width_cases r : In r all_views ->
  (view_width r = 8 /\ is_gpr8 r = true /\ is_gpr16 r = false /\ is_gpr32 r = false /\ is_gpr64 r = false) \/
  (view_width r = 16 /\ is_gpr8 r = false /\ is_gpr16 r = true /\ is_gpr32 r = false /\ is_gpr64 r = false) \/
  (view_width r = 32 /\ is_gpr8 r = false /\ is_gpr16 r = false /\ is_gpr32 r = true /\ is_gpr64 r = false) \/
  (view_width r = 64 /\ is_gpr8 r = false /\ is_gpr16 r = false /\ is_gpr32 r = false /\ is_gpr64 r = true).
Proof.
  intros H. unfold all_views in H. cbn in H.
  repeat (destruct H as [<-|H]; [cbn; tauto|]). contradiction.
Qed.

Lemma rf_write_wf f r v :
  (forall q, 0 <= f q < 2 ^ 64) -> In r all_views -> 0 <= v < 2 ^ view_width r ->
  forall q, 0 <= rf_write f r v q < 2 ^ 64.
Proof.
  intros Hf Hr Hv q. unfold rf_write.
  destruct (to_qword r) as [q'|] eqn:E; [|apply Hf].
  unfold upd. destruct (reg_eqb q' q); [|apply Hf].
  assert (Hlo : (view_lo r = 0 \/ (view_lo r = 8 /\ view_width r = 8))).
  { unfold all_views in Hr. cbn in Hr.
    repeat (destruct Hr as [<-|Hr]; [cbn; auto|]). contradiction. }
  pose proof (Hf q') as Hq'.
  destruct (view_width_cases r Hr) as [[Ew _]|[[Ew _]|[[Ew _]|[Ew _]]]]; rewrite Ew in *; cbn [Z.eqb orb Pos.eqb].
  - destruct Hlo as [->|[-> _]]; apply set_field_range with (n := 64); lia.
  - destruct Hlo as [->|[_ E8]]; [|lia]. apply set_field_range with (n := 64); lia.
  - change (2 ^ 32) with 4294967296 in Hv. change (2 ^ 64) with 18446744073709551616. lia.
  - exact Hv.
Qed.

Lemma vw_eqb r : In r all_views ->
  (view_width r =? 8) = is_gpr8 r /\ (view_width r =? 16) = is_gpr16 r /\
  (view_width r =? 32) = is_gpr32 r /\ (view_width r =? 64) = is_gpr64 r.
Proof.
  intros H. unfold all_views in H. cbn in H.
  repeat (destruct H as [<-|H]; [cbn; tauto|]). contradiction.
Qed.

Lemma set_regs_same s : set_regs s (regs s) = s.
Proof. destruct s; reflexivity. Qed.

Lemma model_spec_step c o s :
  wf_regs s -> rop_wf o ->
  let '(r, s1) := model_rop c o s in
  let '(r', f1) := spec_rop o (regs s) in
  r = r' /\ s1 = set_regs s f1 /\ wf_regs s1.
Proof.
  intros Hwf Ho.
  destruct o as [bits r v | bits r]; cbn [rop_wf] in Ho.
  - destruct Ho as (Hr & Hb & Hv).
    destruct (all_views_supported r Hr) as (Hsup & Hw0 & Hrip & Heip).
    destruct (vw_eqb r Hr) as (E8 & E16 & E32 & E64).
    unfold model_rop, spec_rop.
    cbn in Hb; destruct Hb as [<-|[<-|[<-|[<-|[]]]]]; cbn [Z.eqb Pos.eqb].
    + rewrite E8. destruct (is_gpr8 r) eqn:G; cbn [andb].
      * destruct (Z.ltb_spec v (2 ^ 8)) as [Hlt|Hge].
        -- rewrite reg_write_8_ok by (try assumption; lia). cbn [unit_to_z].
           split; [reflexivity|split; [reflexivity|]]. intros q; cbn. apply rf_write_wf; try assumption.
           apply Z.eqb_eq in E8. rewrite E8. lia.
        -- rewrite reg_write_8_reject by (try assumption; right; lia). cbn [unit_to_z].
           split; [reflexivity|split; [symmetry; apply set_regs_same|exact Hwf]].
      * rewrite reg_write_8_reject by (try assumption; left; assumption). cbn [unit_to_z].
        split; [reflexivity|split; [symmetry; apply set_regs_same|exact Hwf]].
    + rewrite E16. destruct (is_gpr16 r) eqn:G; cbn [andb].
      * destruct (Z.ltb_spec v (2 ^ 16)) as [Hlt|Hge].
        -- rewrite reg_write_16_ok by (try assumption; lia). cbn [unit_to_z].
           split; [reflexivity|split; [reflexivity|]]. intros q; cbn. apply rf_write_wf; try assumption.
           apply Z.eqb_eq in E16. rewrite E16. lia.
        -- rewrite reg_write_16_reject by (try assumption; right; lia). cbn [unit_to_z].
           split; [reflexivity|split; [symmetry; apply set_regs_same|exact Hwf]].
      * rewrite reg_write_16_reject by (try assumption; left; assumption). cbn [unit_to_z].
        split; [reflexivity|split; [symmetry; apply set_regs_same|exact Hwf]].
    + rewrite E32. destruct (is_gpr32 r) eqn:G; cbn [andb].
      * destruct (Z.ltb_spec v (2 ^ 32)) as [Hlt|Hge].
        -- rewrite reg_write_32_ok by (try assumption; lia). cbn [unit_to_z].
           split; [reflexivity|split; [reflexivity|]]. intros q; cbn. apply rf_write_wf; try assumption.
           apply Z.eqb_eq in E32. rewrite E32. lia.
        -- rewrite reg_write_32_reject by (try assumption; right; lia). cbn [unit_to_z].
           split; [reflexivity|split; [symmetry; apply set_regs_same|exact Hwf]].
      * rewrite reg_write_32_reject by (try assumption; left; assumption). cbn [unit_to_z].
        split; [reflexivity|split; [symmetry; apply set_regs_same|exact Hwf]].
    + rewrite E64. destruct (is_gpr64 r) eqn:G; cbn [andb].
      * destruct (Z.ltb_spec v (2 ^ 64)) as [Hlt|Hge]; [|lia].
        rewrite reg_write_64_ok by assumption. cbn [unit_to_z].
        split; [reflexivity|split; [reflexivity|]]. intros q; cbn. apply rf_write_wf; try assumption.
        apply Z.eqb_eq in E64. rewrite E64. lia.
      * rewrite reg_write_64_reject by assumption. cbn [unit_to_z].
        split; [reflexivity|split; [symmetry; apply set_regs_same|exact Hwf]].
  - destruct Ho as (Hr & Hb).
    destruct (all_views_supported r Hr) as (Hsup & Hw0 & Hrip & Heip).
    destruct (reg_read_reject c r s Hsup) as (R8 & R16 & R32).
    destruct (vw_eqb r Hr) as (E8 & E16 & E32 & E64).
    unfold model_rop, spec_rop.
    cbn in Hb; destruct Hb as [<-|[<-|[<-|[<-|[]]]]]; cbn [Z.eqb Pos.eqb].
    + rewrite E8. destruct (is_gpr8 r) eqn:G.
      * rewrite reg_read_8_ok by assumption. split; [reflexivity|split; [symmetry; apply set_regs_same|exact Hwf]].
      * rewrite R8 by reflexivity. split; [reflexivity|split; [symmetry; apply set_regs_same|exact Hwf]].
    + rewrite E16. destruct (is_gpr16 r) eqn:G.
      * rewrite reg_read_16_ok by assumption. split; [reflexivity|split; [symmetry; apply set_regs_same|exact Hwf]].
      * rewrite R16 by reflexivity. split; [reflexivity|split; [symmetry; apply set_regs_same|exact Hwf]].
    + rewrite E32. destruct (is_gpr32 r) eqn:G.
      * rewrite reg_read_32_ok by assumption. split; [reflexivity|split; [symmetry; apply set_regs_same|exact Hwf]].
      * rewrite R32 by reflexivity. split; [reflexivity|split; [symmetry; apply set_regs_same|exact Hwf]].
    + rewrite E64. destruct (is_gpr64 r) eqn:G.
      * rewrite reg_read_64_ok by assumption. split; [reflexivity|split; [symmetry; apply set_regs_same|exact Hwf]].
      * unfold reg_read_64, bind, lift. destruct r; try discriminate; try congruence; cbn;
          (split; [reflexivity|split; [symmetry; apply set_regs_same|exact Hwf]]).
Qed.

Theorem reg_history c ops : forall s,
  wf_regs s -> Forall rop_wf ops ->
  let '(outs, s') := run_model c ops s in
  let '(outs', f') := run_spec ops (regs s) in
  outs = outs' /\ s' = set_regs s f'.
Proof.
  induction ops as [|o ops IH]; intros s Hwf Hall; cbn [run_model run_spec].
  - split; [reflexivity|]. destruct s; reflexivity.
  - inversion Hall as [|o' ops' Ho Hrest]; subst.
    pose proof (model_spec_step c o s Hwf Ho) as Hstep.
    destruct (model_rop c o s) as [r s1]. destruct (spec_rop o (regs s)) as [r' f1].
    destruct Hstep as (-> & -> & Hwf1).
    specialize (IH (set_regs s f1) Hwf1 Hrest).
    destruct (run_model c ops (set_regs s f1)) as [rs s2].
    cbn [regs set_regs] in IH.
    destruct (run_spec ops f1) as [rs' f2].
    destruct IH as (-> & ->). split; [reflexivity|]. destruct s; reflexivity.
Qed.
