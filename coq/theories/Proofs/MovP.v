(* C01: first full refinements of data instructions against the ISA specification:
   LEA r64, m and MOV r/m64, r64 / MOV r64, r/m64 (register and memory forms). *)
From Coq Require Import ZArith Bool List Lia.
From AxV Require Import Bits Outcome Codes Iced State Rt Mem Trace BitsP RegFile RegsP ISA CodeSem ReadonlyTac OperandP CfP.
From AxG Require Import Flags Regs Operand Helpers I_lea I_mov.
Local Open Scope Z_scope.

Lemma operand_register c i k s r :
  (k <? i_op_count i) = true -> i_op_kind i k = OK_Register -> i_op_register i k = r -> is_supported r = true ->
  instruction_operand c i k s = (Ok (OpRegister r), s).
Proof.
  intros Hk Hkind Hr Hs. unfold instruction_operand, assert_that. rewrite Hk, Hkind, Hr.
  unfold sup_of_iced. rewrite Hs. reflexivity.
Qed.

(* LEA r64, m: the destination receives the offset of the operand (no segment base), nothing else changes *)
Theorem lea64_refines c i s :
  i_code i = C_Lea_r64_m -> wf_regs s -> wf_mem_instr i ->
  i_op_count i = 2 -> i_op_kind i 0 = OK_Register -> i_op_kind i 1 = OK_Memory ->
  is_gpr64 (i_op_register i 0) = true ->
  exists s', instr_lea_r64_m c i s = (Ok tt, s') /\ isa_exec (SLea 64) i s = IDone s' 0.
Proof.
  intros Ec Hwf Hm Hn K0 K1 Hr. unfold instr_lea_r64_m. rewrite Ec. cbn [code_eqb].
  unfold debug_assert_that, assert_that.
  assert (D : lift (if dbg c then if true then Ok tt else Panic PAssert else Ok tt) s = (Ok tt, s)) by (unfold lift; destruct (dbg c); reflexivity).
  rewrite (bind_ok _ _ _ _ _ D).
  assert (Hsup : is_supported (i_op_register i 0) = true) by (destruct (i_op_register i 0); try discriminate Hr; reflexivity).
  assert (O0 : instruction_operand c i 0 s = (Ok (OpRegister (i_op_register i 0)), s))
    by (apply operand_register; [rewrite Hn; reflexivity|exact K0|reflexivity|exact Hsup]).
  destruct (operand_address c i 1 s Hwf Hm ltac:(rewrite Hn; reflexivity) K1) as (O1 & _ & OFF).
  unfold instruction_operands_2. rewrite !bind_assoc.
  rewrite (bind_ok _ _ _ _ _ O0). rewrite !bind_assoc. rewrite (bind_ok _ _ _ _ _ O1).
  unfold ret at 1. cbv beta iota. rewrite (bind_ok _ _ _ _ _ (eq_refl : (fun s0 => (Ok (OpRegister (i_op_register i 0), OpMemory (memop_of i)), s0)) s = _)).
  cbv beta iota. rewrite (bind_ok _ _ _ _ _ OFF).
  assert (TR : lift (operand_to_reg (OpRegister (i_op_register i 0))) s = (Ok (i_op_register i 0), s)) by reflexivity.
  rewrite (bind_ok _ _ _ _ _ TR). rewrite (bind_ok _ _ _ _ _ (reg_write_64_ok c _ _ s Hr)).
  eexists. split; [reflexivity|].
  cbn [isa_exec]. unfold write_reg. f_equal. f_equal. f_equal.
  apply Z.mod_small.
  unfold ea_offset. destruct (addr32 i); destruct (i_memory_base i);
    try (apply Z.mod_pos_bound; reflexivity);
    match goal with |- 0 <= ?x mod 2 ^ 32 < 2 ^ 64 =>
      pose proof (Z.mod_pos_bound x (2 ^ 32) ltac:(reflexivity)); change (2 ^ 32) with 4294967296 in *; change (2 ^ 64) with 18446744073709551616; lia end.
Qed.

Lemma bind_err {A B} (m : MM A) (f : A -> MM B) s e s1 : m s = (Err e, s1) -> bind m f s = (Err e, s1).
Proof. intros H. unfold bind. rewrite H. reflexivity. Qed.
Lemma bind_panic {A B} (m : MM A) (f : A -> MM B) s p s1 : m s = (Panic p, s1) -> bind m f s = (Panic p, s1).
Proof. intros H. unfold bind. rewrite H. reflexivity. Qed.
Lemma bind_fuel {A B} (m : MM A) (f : A -> MM B) s s1 : m s = (Fuel, s1) -> bind m f s = (Fuel, s1).
Proof. intros H. unfold bind. rewrite H. reflexivity. Qed.

Lemma set_flags_unaffected c v s : set_flags_u64 c FLAGS_UNAFFECTED 0 v s = (Ok tt, s).
Proof. reflexivity. Qed.

Lemma rf_read_mod64 f r : is_gpr64 r = true -> rf_read f r mod 2 ^ 64 = rf_read f r.
Proof.
  intros H. unfold rf_read. destruct r; try discriminate H; cbn; rewrite Z.div_1_r; apply Z.mod_mod; discriminate.
Qed.

(* MOV r/m64, r64 with a register destination *)
Theorem mov_rm64_r64_reg_refines c i s :
  i_code i = C_Mov_rm64_r64 -> wf_regs s ->
  i_op_count i = 2 -> i_op_kind i 0 = OK_Register -> i_op_kind i 1 = OK_Register ->
  is_gpr64 (i_op_register i 0) = true -> is_gpr64 (i_op_register i 1) = true ->
  exists s', instr_mov_rm64_r64 c i s = (Ok tt, s') /\ isa_exec (SMov 64) i s = IDone s' 0.
Proof.
  intros Ec Hwf Hn K0 K1 H0 H1. unfold instr_mov_rm64_r64. rewrite Ec. cbn [code_eqb].
  unfold debug_assert_that, assert_that.
  assert (D : lift (if dbg c then if true then Ok tt else Panic PAssert else Ok tt) s = (Ok tt, s)) by (unfold lift; destruct (dbg c); reflexivity).
  rewrite (bind_ok _ _ _ _ _ D).
  assert (S0 : is_supported (i_op_register i 0) = true) by (destruct (i_op_register i 0); try discriminate H0; reflexivity).
  assert (S1 : is_supported (i_op_register i 1) = true) by (destruct (i_op_register i 1); try discriminate H1; reflexivity).
  assert (O0 : instruction_operand c i 0 s = (Ok (OpRegister (i_op_register i 0)), s))
    by (apply operand_register; [rewrite Hn; reflexivity|exact K0|reflexivity|exact S0]).
  assert (O1 : instruction_operand c i 1 s = (Ok (OpRegister (i_op_register i 1)), s))
    by (apply operand_register; [rewrite Hn; reflexivity|exact K1|reflexivity|exact S1]).
  unfold calculate_rm_r_64, instruction_operands_2. rewrite !bind_assoc.
  rewrite (bind_ok _ _ _ _ _ O0). rewrite !bind_assoc. rewrite (bind_ok _ _ _ _ _ O1).
  unfold ret at 1. cbv beta iota.
  rewrite (bind_ok _ _ _ _ _ (eq_refl : (fun s0 => (Ok (OpRegister (i_op_register i 0), OpRegister (i_op_register i 1)), s0)) s = _)).
  cbv beta iota.
  assert (TR : lift (operand_to_reg (OpRegister (i_op_register i 1))) s = (Ok (i_op_register i 1), s)) by reflexivity.
  rewrite (bind_ok _ _ _ _ _ TR).
  rewrite (bind_ok _ _ _ _ _ (reg_read_64_ok c _ s Hwf H1)).
  rewrite (bind_ok _ _ _ _ _ (reg_read_64_ok c _ s Hwf H0)).
  rewrite (bind_ok _ _ _ _ _ (eq_refl : lift (Ok (rf_read (regs s) (i_op_register i 1))) s = _)).
  rewrite (bind_ok _ _ _ _ _ (set_flags_unaffected c _ s)).
  change (Z.land FLAGS_UNAFFECTED NO_WRITEBACK =? 0) with true. cbv iota.
  rewrite !bind_assoc. rewrite (bind_ok _ _ _ _ _ (reg_write_64_ok c _ _ s H0)).
  eexists. split; [reflexivity|].
  cbn [isa_exec]. unfold read_op, write_op. rewrite K0, K1. rewrite rf_read_mod64 by exact H1. reflexivity.
Qed.

(* MOV r64, r/m64 with a memory source *)
Section MovLoad.
  Variables (c : cfg) (i : instr) (s : mstate).
  Hypothesis Ec : i_code i = C_Mov_r64_rm64.
  Hypothesis Hwf : wf_regs s.
  Hypothesis Hm : wf_mem_instr i.
  Hypothesis Hn : i_op_count i = 2.
  Hypothesis K0 : i_op_kind i 0 = OK_Register.
  Hypothesis K1 : i_op_kind i 1 = OK_Memory.
  Hypothesis H0 : is_gpr64 (i_op_register i 0) = true.

  (* the instruction is: load 8 bytes at the effective address, then write the destination *)
  Lemma mov_load_shape :
    instr_mov_r64_rm64 c i s =
    bind (mem_read_n 8 (ea i s)) (fun v => reg_write_64 c (i_op_register i 0) v) s.
  Proof.
    unfold instr_mov_r64_rm64. rewrite Ec. cbn [code_eqb].
    unfold debug_assert_that, assert_that.
    assert (D : lift (if dbg c then if true then Ok tt else Panic PAssert else Ok tt) s = (Ok tt, s)) by (unfold lift; destruct (dbg c); reflexivity).
    rewrite (bind_ok _ _ _ _ _ D).
    assert (S0 : is_supported (i_op_register i 0) = true) by (destruct (i_op_register i 0); try discriminate H0; reflexivity).
    assert (O0 : instruction_operand c i 0 s = (Ok (OpRegister (i_op_register i 0)), s))
      by (apply operand_register; [rewrite Hn; reflexivity|exact K0|reflexivity|exact S0]).
    destruct (operand_address c i 1 s Hwf Hm ltac:(rewrite Hn; reflexivity) K1) as (O1 & EA & _).
    unfold calculate_r_rm_64, instruction_operands_2. rewrite ?bind_assoc.
    rewrite (bind_ok _ _ _ _ _ O0). rewrite ?bind_assoc. rewrite (bind_ok _ _ _ _ _ O1).
    unfold ret at 1. cbv beta iota.
    rewrite (bind_ok _ _ _ _ _ (eq_refl : (fun s0 => (Ok (OpRegister (i_op_register i 0), OpMemory (memop_of i)), s0)) s = _)).
    cbv beta iota. rewrite ?bind_assoc. rewrite (bind_ok _ _ _ _ _ EA).
    change (mem_read_64 (ea i s)) with (mem_read_n 8 (ea i s)).
    pose proof (readonly_mem_read_64 (ea i s) s) as RO. change mem_read_64 with (mem_read_n 8) in RO.
    destruct (mem_read_n 8 (ea i s) s) as [[v|e|p|] s1] eqn:E; cbn [snd] in RO; subst s1;
      [|rewrite !(bind_err _ _ _ _ _ E); reflexivity|rewrite !(bind_panic _ _ _ _ _ E); reflexivity|rewrite !(bind_fuel _ _ _ _ E); reflexivity].
    rewrite !(bind_ok _ _ _ _ _ E).
    assert (TR : lift (operand_to_reg (OpRegister (i_op_register i 0))) s = (Ok (i_op_register i 0), s)) by reflexivity.
    rewrite (bind_ok _ _ _ _ _ TR). rewrite (bind_ok _ _ _ _ _ (reg_read_64_ok c _ s Hwf H0)).
    rewrite (bind_ok _ _ _ _ _ (eq_refl : lift (Ok v) s = _)).
    rewrite (bind_ok _ _ _ _ _ (set_flags_unaffected c _ s)).
    change (Z.land FLAGS_UNAFFECTED NO_WRITEBACK =? 0) with true. cbv iota.
    rewrite ?bind_assoc. rewrite (bind_ok _ _ _ _ _ (reg_write_64_ok c _ _ s H0)).
    rewrite (reg_write_64_ok c _ _ s H0). reflexivity.
  Qed.

  (* the 8 bytes at the effective address, or a fault exactly when the specification's load
     faults; nothing changes on a fault *)
  Theorem mov_r64_m64_refines :
    match isa_exec (SMov 64) i s with
    | IDone s1 u => instr_mov_r64_rm64 c i s = (Ok tt, s1) /\ u = 0
    | IFault _ => exists r, instr_mov_r64_rm64 c i s = (r, s) /\ forall x, r <> Ok x
    end.
  Proof.
    rewrite mov_load_shape. cbn [isa_exec]. unfold read_op, write_op. rewrite K0, K1. unfold load.
    change (bytes_of 64) with 8%nat.
    pose proof (readonly_mem_read_64 (ea i s) s) as RO. change mem_read_64 with (mem_read_n 8) in RO.
    unfold bind.
    destruct (mem_read_n 8 (ea i s) s) as [[v|e|p|] s1] eqn:E; cbn [snd] in RO; subst s1.
    - rewrite (reg_write_64_ok c _ _ s H0). cbn [opt_done]. split; reflexivity.
    - eexists. split; [reflexivity|discriminate].
    - eexists. split; [reflexivity|discriminate].
    - eexists. split; [reflexivity|discriminate].
  Qed.
End MovLoad.
