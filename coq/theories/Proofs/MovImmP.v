(* C01/C02: LEA r32, m; MOV r64, imm64; MOV r/m64, imm32 and MOV r32, imm32 / r/m32, imm32 with a
   register destination; XOR r/m64, imm8/imm32 and RAX, imm32 (register or memory destination). *)
From Coq Require Import ZArith Bool List Lia.
From AxV Require Import Bits Outcome Codes Iced State Rt Mem Trace BitsP ByteStore MemP RegFile RegsP ISA CodeSem ReadonlyTac
  OperandP FlagsP CfP MovP RmP AluP AluRmP AluMemP Alu32P AluImmP AluImm32P.
From AxG Require Import Flags Regs Operand Helpers I_lea I_mov I_xor.
Local Open Scope Z_scope.
Ltac Zify.zify_post_hook ::= Z.div_mod_to_equations.

(* LEA r32, m: the low 32 bits of the offset, zero-extended *)
Theorem lea32_refines c i s :
  i_code i = C_Lea_r32_m -> wf_regs s -> wf_mem_instr i ->
  i_op_count i = 2 -> i_op_kind i 0 = OK_Register -> i_op_kind i 1 = OK_Memory ->
  is_gpr32 (i_op_register i 0) = true ->
  exists s', instr_lea_r32_m c i s = (Ok tt, s') /\ isa_exec (SLea 32) i s = IDone s' 0.
Proof.
  intros Ec Hwf Hm Hn K0 K1 Hr. unfold instr_lea_r32_m. rewrite Ec.
  rewrite (bind_ok _ _ _ _ _ (dbg_code_ok c s _ eq_refl)).
  assert (O0 : instruction_operand c i 0 s = (Ok (OpRegister (i_op_register i 0)), s))
    by (apply operand_register; [rewrite Hn; reflexivity|exact K0|reflexivity|apply gpr32_supported; exact Hr]).
  destruct (operand_address c i 1 s Hwf Hm ltac:(rewrite Hn; reflexivity) K1) as (O1 & _ & OFF).
  assert (OP : instruction_operands_2 c i s = (Ok (OpRegister (i_op_register i 0), OpMemory (memop_of i)), s)).
  { unfold instruction_operands_2. rewrite (bind_ok _ _ _ _ _ O0). rewrite (bind_ok _ _ _ _ _ O1). reflexivity. }
  rewrite (bind_ok _ _ _ _ _ OP). cbv beta iota. rewrite (bind_ok _ _ _ _ _ OFF).
  rewrite (bind_ok _ _ _ _ _ (eq_refl : lift (operand_to_reg (OpRegister (i_op_register i 0))) s = _)).
  assert (V : cast U32 U64 (cast U64 U32 (ea_offset i s)) = ea_offset i s mod 2 ^ 32).
  { assert (R : 0 <= ea_offset i s mod 2 ^ 32 < 2 ^ 32) by (apply Z.mod_pos_bound; reflexivity).
    assert (E : cast U64 U32 (ea_offset i s) = ea_offset i s mod 2 ^ 32).
    { unfold cast, Bits.sem, enc, modulus; cbn [signed width]. reflexivity. }
    rewrite E. apply cast_u32_u64_id. exact R. }
  rewrite V.
  rewrite (bind_ok _ _ _ _ _ (reg_write_32_ok c _ _ s Hr ltac:(apply Z.mod_pos_bound; reflexivity))).
  eexists. split; [reflexivity|]. reflexivity.
Qed.

Definition imm64x_shape (i : instr) : Prop :=
  imm64_shape i \/ (i_op_kind i 1 = OK_Immediate64 /\ 0 <= i_immediate64 i < 2 ^ 64).

Section RmImm64NoFlags.
  Variables (c : cfg) (i : instr) (s : mstate).
  Hypothesis Hwf : wf_regs s.
  Hypothesis HI : Inv (mem s).
  Hypothesis Hn : i_op_count i = 2.
  Hypothesis Hs0 : rm64_shape i 0.
  Hypothesis Him : imm64x_shape i.

  Lemma immx_operand :
    exists v, instruction_operand c i 1 s = (Ok (OpImmediate v 8), s) /\ read_op i 1 64 s = Some v /\ 0 <= v < 2 ^ 64.
  Proof.
    destruct Him as [H|[K R]]; [exact (imm_operand c i s Hn H)|].
    unfold instruction_operand, read_op, assert_that. rewrite Hn. cbn [Z.ltb Z.compare]. rewrite K. cbn [imm_of].
    exists (i_immediate64 i). split; [reflexivity|]. split; [rewrite Z.mod_small by exact R; reflexivity|exact R].
  Qed.

  Lemma calc_rm_imm_64_shape (op : Z -> Z -> outcome Z) fset fclear :
    exists v, read_op i 1 64 s = Some v /\ 0 <= v < 2 ^ 64 /\
    match read_op i 0 64 s with
    | Some d =>
        0 <= d < 2 ^ 64 /\
        forall res, op d v = Ok res ->
          calculate_rm_imm_64 c i op fset fclear s =
          bind (set_flags_u64 c fset fclear res)
               (fun _ => if Z.land fset NO_WRITEBACK =? 0 then dest_write64 c i res else ret tt) s
    | None => exists e, calculate_rm_imm_64 c i op fset fclear s = (Err e, s)
    end.
  Proof.
    destruct immx_operand as (v & O1 & RV & Hv). exists v. split; [exact RV|]. split; [exact Hv|].
    assert (SA : lift (debug_assert_that c (8 =? 8)) s = (Ok tt, s)) by (unfold lift, debug_assert_that, assert_that; destruct (dbg c); reflexivity).
    unfold calculate_rm_imm_64, read_op, dest_write64.
    destruct Hs0 as [[K0 H0]|[K0 Hm]]; rewrite K0.
    - assert (O0 : instruction_operand c i 0 s = (Ok (OpRegister (i_op_register i 0)), s)).
      { apply operand_register; [rewrite Hn; reflexivity|exact K0|reflexivity|].
        destruct (i_op_register i 0); try discriminate H0; reflexivity. }
      assert (OP : instruction_operands_2 c i s = (Ok (OpRegister (i_op_register i 0), OpImmediate v 8), s)).
      { unfold instruction_operands_2. rewrite (bind_ok _ _ _ _ _ O0). rewrite (bind_ok _ _ _ _ _ O1). reflexivity. }
      rewrite rf_read_mod64 by exact H0.
      assert (Hd : 0 <= rf_read (regs s) (i_op_register i 0) < 2 ^ 64) by (apply (rf_read_range64 s); exact H0).
      split; [exact Hd|]. intros res Hop.
      rewrite (bind_ok _ _ _ _ _ OP). cbv beta iota.
      rewrite bind_assoc. rewrite (bind_ok _ _ _ _ _ SA). rewrite (bind_ok _ _ _ _ _ (eq_refl : ret v s = _)).
      rewrite (bind_ok _ _ _ _ _ (reg_read_64_ok c _ s Hwf H0)). rewrite Hop.
      rewrite (bind_ok _ _ _ _ _ (eq_refl : lift (Ok res) s = _)). unfold bind.
      destruct (set_flags_u64 c fset fclear res s) as [[[]|e|p|] s1]; try reflexivity.
      destruct (Z.land fset NO_WRITEBACK =? 0); [|reflexivity].
      destruct (reg_write_64 c (i_op_register i 0) res s1) as [[[]|e|p|] s2]; reflexivity.
    - destruct (operand_address c i 0 s Hwf Hm ltac:(rewrite Hn; reflexivity) K0) as (O0 & EA & _).
      assert (OP : instruction_operands_2 c i s = (Ok (OpMemory (memop_of i), OpImmediate v 8), s)).
      { unfold instruction_operands_2. rewrite (bind_ok _ _ _ _ _ O0). rewrite (bind_ok _ _ _ _ _ O1). reflexivity. }
      unfold load. change (bytes_of 64) with 8%nat.
      rewrite (bind_ok _ _ _ _ _ OP). cbv beta iota.
      rewrite bind_assoc. rewrite (bind_ok _ _ _ _ _ SA). rewrite (bind_ok _ _ _ _ _ (eq_refl : ret v s = _)).
      rewrite (bind_ok _ _ _ _ _ EA). change mem_read_64 with (mem_read_n 8).
      destruct (mem_read_n_cases 8 (ea i s) s HI) as [(d & E & R)|(e & E)]; rewrite E.
      + split; [exact R|]. intros res Hop.
        rewrite (bind_ok _ _ _ _ _ E). rewrite Hop.
        rewrite (bind_ok _ _ _ _ _ (eq_refl : lift (Ok res) s = _)).
        destruct (Z.land fset NO_WRITEBACK =? 0); unfold store_tail, bind;
          destruct (set_flags_u64 c fset fclear res s) as [[[]|e|p|] s1]; try reflexivity.
        destruct (mem_addr c (memop_of i) s1) as [[a|e|p|] s2]; try reflexivity.
        destruct (mem_write_64 a res s2) as [[[]|e|p|] s3]; reflexivity.
      + exists e. rewrite (bind_err _ _ _ _ _ E). reflexivity.
  Qed.
End RmImm64NoFlags.

Section MovImmForms.
  Variables (c : cfg) (i : instr) (s : mstate).
  Hypothesis Hwf : wf_regs s.
  Hypothesis HI : Inv (mem s).
  Hypothesis Hn : i_op_count i = 2.

  (* MOV r64, imm64 and MOV r/m64, imm32 with a REGISTER destination (with a memory destination the
     helper loads the destination first: KF-C06-store-reads-destination) *)
  Lemma mov_reg_imm64_core :
    i_op_kind i 0 = OK_Register -> is_gpr64 (i_op_register i 0) = true -> imm64x_shape i ->
    exists s', calculate_rm_imm_64 c i (fun _ v_s => Ok v_s) FLAGS_UNAFFECTED 0 s = (Ok tt, s') /\
               isa_exec (SMov 64) i s = IDone s' 0.
  Proof.
    intros K0 H0 Him.
    destruct (calc_rm_imm_64_shape c i s Hwf HI Hn (or_introl (conj K0 H0)) Him (fun _ v_s => Ok v_s) FLAGS_UNAFFECTED 0)
      as (v & RV & Hv & SH).
    unfold read_op in SH. rewrite K0 in SH. destruct SH as [Hd SH].
    rewrite (SH _ eq_refl). rewrite (bind_ok _ _ _ _ _ (set_flags_unaffected c _ s)).
    change (Z.land FLAGS_UNAFFECTED NO_WRITEBACK =? 0) with true. cbv iota.
    unfold dest_write64. rewrite K0. rewrite (reg_write_64_ok c _ _ s H0).
    eexists. split; [reflexivity|]. cbn [isa_exec]. rewrite RV. unfold write_op. rewrite K0. reflexivity.
  Qed.

  Theorem mov_r64_imm64_refines :
    i_code i = C_Mov_r64_imm64 -> i_op_kind i 0 = OK_Register -> is_gpr64 (i_op_register i 0) = true -> imm64x_shape i ->
    exists s', instr_mov_r64_imm64 c i s = (Ok tt, s') /\ isa_exec (SMov 64) i s = IDone s' 0.
  Proof.
    intros Ec K0 H0 Him. unfold instr_mov_r64_imm64. rewrite Ec.
    rewrite (bind_ok _ _ _ _ _ (dbg_code_ok c s _ eq_refl)). exact (mov_reg_imm64_core K0 H0 Him).
  Qed.

  Theorem mov_r64_imm32_refines :
    i_code i = C_Mov_rm64_imm32 -> i_op_kind i 0 = OK_Register -> is_gpr64 (i_op_register i 0) = true -> imm64x_shape i ->
    exists s', instr_mov_rm64_imm32 c i s = (Ok tt, s') /\ isa_exec (SMov 64) i s = IDone s' 0.
  Proof.
    intros Ec K0 H0 Him. unfold instr_mov_rm64_imm32. rewrite Ec.
    rewrite (bind_ok _ _ _ _ _ (dbg_code_ok c s _ eq_refl)). exact (mov_reg_imm64_core K0 H0 Him).
  Qed.

  (* XOR r/m64, imm *)
  Definition xori_refines (run : outcome unit * mstate) : Prop :=
    match isa_exec (SAlu XOR 64) i s with
    | IDone s' u => run = (Ok tt, s') /\ u = 0
    | IFault FMem => exists e x, run = (Err e, s) \/ run = (Err e, set_rflags s x)
    | IFault _ => False
    end.

  Lemma xor_imm_core :
    0 <= rflags s < 2 ^ 64 -> rm64_shape i 0 -> imm64x_shape i ->
    xori_refines (calculate_rm_imm_64 c i (fun v_d v_s => Ok (Z.lxor v_d v_s)) (Z.lor (Z.lor FLAG_ZF FLAG_SF) FLAG_PF) (Z.lor FLAG_OF FLAG_CF) s).
  Proof.
    intros Hrf Hs0 Him. unfold xori_refines. cbn [isa_exec]. unfold exec_alu.
    destruct (calc_rm_imm_64_shape c i s Hwf HI Hn Hs0 Him (fun v_d v_s => Ok (Z.lxor v_d v_s)) (Z.lor (Z.lor FLAG_ZF FLAG_SF) FLAG_PF) (Z.lor FLAG_OF FLAG_CF))
      as (v & RV & Hv & SH).
    rewrite RV.
    destruct (read_op i 0 64 s) as [d|]; [|destruct SH as [e SH]; exists e, 0; left; exact SH]. destruct SH as [Hd SH].
    rewrite (SH _ eq_refl).
    change (Z.lor (Z.lor FLAG_ZF FLAG_SF) FLAG_PF) with (arith_fs false false).
    change (Z.lor FLAG_OF FLAG_CF) with 2049.
    rewrite (bind_ok _ _ _ _ _ (set_flags_u64_arith c false false _ s Hrf)).
    change (Z.land (arith_fs false false) NO_WRITEBACK =? 0) with true. cbv iota.
    cbn [alu b2f]. change (0 + 0) with 0. rewrite !Z.add_0_l.
    match goal with |- context [dest_write64 c i ?res (with_flags s ?mk ?bits)] =>
      pose proof (dest_write64_spec c i s Hwf HI Hn Hs0 (set_status (rflags s) mk bits) res) as ST;
      cbv zeta in ST; fold (with_flags s mk bits) in ST;
      destruct (write_op i 0 64 res (with_flags s mk bits)) as [s2|];
      [rewrite ST; cbn [opt_done]; split; reflexivity
      |destruct ST as [e ST]; rewrite ST; cbn [opt_done]; exists e; eexists; right; reflexivity]
    end.
  Qed.

  Theorem xor_rm64_imm_refines :
    0 <= rflags s < 2 ^ 64 -> rm64_shape i 0 -> imm64x_shape i ->
    (i_code i = C_Xor_rm64_imm8 -> xori_refines (instr_xor_rm64_imm8 c i s)) /\
    xori_refines (instr_xor_rm64_imm32 c i s) /\
    (i_code i = C_Xor_RAX_imm32 -> xori_refines (instr_xor_rax_imm32 c i s)).
  Proof.
    intros Hrf Hs0 Him. repeat split.
    - intros Ec. unfold instr_xor_rm64_imm8. rewrite Ec. rewrite (bind_ok _ _ _ _ _ (dbg_code_ok c s _ eq_refl)). exact (xor_imm_core Hrf Hs0 Him).
    - exact (xor_imm_core Hrf Hs0 Him).
    - intros Ec. unfold instr_xor_rax_imm32. rewrite Ec. rewrite (bind_ok _ _ _ _ _ (dbg_code_ok c s _ eq_refl)). exact (xor_imm_core Hrf Hs0 Him).
  Qed.
End MovImmForms.

(* ---- the same at 32 bits ---- *)
Section RmImm32NoFlags.
  Variables (c : cfg) (i : instr) (s : mstate).
  Hypothesis Hwf : wf_regs s.
  Hypothesis HI : Inv (mem s).
  Hypothesis Hn : i_op_count i = 2.
  Hypothesis Hs0 : rm32_shape i 0.
  Hypothesis Him : imm32_shape i.

  Lemma calc_rm_imm_32_shape (op : Z -> Z -> outcome Z) fset fclear :
    exists v, read_op i 1 32 s = Some v /\ 0 <= v < 2 ^ 32 /\
    match read_op i 0 32 s with
    | Some d =>
        0 <= d < 2 ^ 32 /\
        forall res, op d v = Ok res ->
          calculate_rm_imm_32 c i op fset fclear s =
          bind (set_flags_u32 c fset fclear res)
               (fun _ => if Z.land fset NO_WRITEBACK =? 0 then dest_write32 c i res else ret tt) s
    | None => exists e, calculate_rm_imm_32 c i op fset fclear s = (Err e, s)
    end.
  Proof.
    destruct (imm32_operand c i s Hn Him) as (dd & v & O1 & CV & RV & Hv). exists v. split; [exact RV|]. split; [exact Hv|].
    assert (SA : lift (debug_assert_that c (4 =? 4)) s = (Ok tt, s)) by (unfold lift, debug_assert_that, assert_that; destruct (dbg c); reflexivity).
    unfold calculate_rm_imm_32, read_op, dest_write32.
    destruct Hs0 as [[K0 H0]|[K0 Hm]]; rewrite K0.
    - assert (O0 : instruction_operand c i 0 s = (Ok (OpRegister (i_op_register i 0)), s))
        by (apply operand_register; [rewrite Hn; reflexivity|exact K0|reflexivity|apply gpr32_supported; exact H0]).
      assert (OP : instruction_operands_2 c i s = (Ok (OpRegister (i_op_register i 0), OpImmediate dd 4), s)).
      { unfold instruction_operands_2. rewrite (bind_ok _ _ _ _ _ O0). rewrite (bind_ok _ _ _ _ _ O1). reflexivity. }
      rewrite rf_read_mod32 by exact H0.
      assert (Hd : 0 <= rf_read (regs s) (i_op_register i 0) < 2 ^ 32) by (apply rf_read_range32; exact H0).
      split; [exact Hd|]. intros res Hop.
      rewrite (bind_ok _ _ _ _ _ OP). cbv beta iota.
      rewrite bind_assoc. rewrite (bind_ok _ _ _ _ _ SA). rewrite (bind_ok _ _ _ _ _ (eq_refl : ret (cast U64 U32 dd) s = _)).
      rewrite CV.
      rewrite (bind_ok _ _ _ _ _ (reg_read_32_ok c _ s Hwf H0)). rewrite (cast_u64_u32_id _ Hd). rewrite Hop.
      rewrite (bind_ok _ _ _ _ _ (eq_refl : lift (Ok res) s = _)). unfold bind.
      destruct (set_flags_u32 c fset fclear res s) as [[[]|e|p|] s1]; try reflexivity.
      destruct (Z.land fset NO_WRITEBACK =? 0); [|reflexivity].
      destruct (reg_write_32 c (i_op_register i 0) (cast U32 U64 res) s1) as [[[]|e|p|] s2]; reflexivity.
    - destruct (operand_address c i 0 s Hwf Hm ltac:(rewrite Hn; reflexivity) K0) as (O0 & EA & _).
      assert (OP : instruction_operands_2 c i s = (Ok (OpMemory (memop_of i), OpImmediate dd 4), s)).
      { unfold instruction_operands_2. rewrite (bind_ok _ _ _ _ _ O0). rewrite (bind_ok _ _ _ _ _ O1). reflexivity. }
      unfold load. change (bytes_of 32) with 4%nat.
      rewrite (bind_ok _ _ _ _ _ OP). cbv beta iota.
      rewrite bind_assoc. rewrite (bind_ok _ _ _ _ _ SA). rewrite (bind_ok _ _ _ _ _ (eq_refl : ret (cast U64 U32 dd) s = _)).
      rewrite CV.
      rewrite (bind_ok _ _ _ _ _ EA). change mem_read_32 with (mem_read_n 4).
      destruct (mem_read_n_cases 4 (ea i s) s HI) as [(d & E & R)|(e & E)]; rewrite E.
      + split; [exact R|]. intros res Hop.
        rewrite (bind_ok _ _ _ _ _ E). rewrite (cast_u64_u32_id d R). rewrite Hop.
        rewrite (bind_ok _ _ _ _ _ (eq_refl : lift (Ok res) s = _)).
        destruct (Z.land fset NO_WRITEBACK =? 0); unfold store_tail32, bind;
          destruct (set_flags_u32 c fset fclear res s) as [[[]|e|p|] s1]; try reflexivity.
        destruct (mem_addr c (memop_of i) s1) as [[a|e|p|] s2]; try reflexivity.
        destruct (mem_write_32 a (cast U32 U64 res) s2) as [[[]|e|p|] s3]; reflexivity.
      + exists e. rewrite (bind_err _ _ _ _ _ E). reflexivity.
  Qed.
End RmImm32NoFlags.

Section MovImm32Forms.
  Variables (c : cfg) (i : instr) (s : mstate).
  Hypothesis Hwf : wf_regs s.
  Hypothesis HI : Inv (mem s).
  Hypothesis Hn : i_op_count i = 2.

  Lemma mov_reg_imm32_core :
    i_op_kind i 0 = OK_Register -> is_gpr32 (i_op_register i 0) = true -> imm32_shape i ->
    exists s', calculate_rm_imm_32 c i (fun _ v_s => Ok v_s) FLAGS_UNAFFECTED 0 s = (Ok tt, s') /\
               isa_exec (SMov 32) i s = IDone s' 0.
  Proof.
    intros K0 H0 Him.
    destruct (calc_rm_imm_32_shape c i s Hwf HI Hn (or_introl (conj K0 H0)) Him (fun _ v_s => Ok v_s) FLAGS_UNAFFECTED 0)
      as (v & RV & Hv & SH).
    unfold read_op in SH. rewrite K0 in SH. destruct SH as [Hd SH].
    rewrite (SH _ eq_refl). rewrite (bind_ok _ _ _ _ _ (set_flags32_unaffected c _ s)).
    change (Z.land FLAGS_UNAFFECTED NO_WRITEBACK =? 0) with true. cbv iota.
    unfold dest_write32. rewrite K0. rewrite (cast_u32_u64_id v Hv). rewrite (reg_write_32_ok c _ _ s H0 Hv).
    eexists. split; [reflexivity|]. cbn [isa_exec]. rewrite RV. unfold write_op. rewrite K0. reflexivity.
  Qed.

  Theorem mov_r32_imm32_refines :
    i_op_kind i 0 = OK_Register -> is_gpr32 (i_op_register i 0) = true -> imm32_shape i ->
    (i_code i = C_Mov_r32_imm32 -> exists s', instr_mov_r32_imm32 c i s = (Ok tt, s') /\ isa_exec (SMov 32) i s = IDone s' 0) /\
    (i_code i = C_Mov_rm32_imm32 -> exists s', instr_mov_rm32_imm32 c i s = (Ok tt, s') /\ isa_exec (SMov 32) i s = IDone s' 0).
  Proof.
    intros K0 H0 Him. split; intros Ec.
    - unfold instr_mov_r32_imm32. rewrite Ec. rewrite (bind_ok _ _ _ _ _ (dbg_code_ok c s _ eq_refl)). exact (mov_reg_imm32_core K0 H0 Him).
    - unfold instr_mov_rm32_imm32. rewrite Ec. rewrite (bind_ok _ _ _ _ _ (dbg_code_ok c s _ eq_refl)). exact (mov_reg_imm32_core K0 H0 Him).
  Qed.

  Lemma xor_imm32_core :
    0 <= rflags s < 2 ^ 64 -> rm32_shape i 0 -> imm32_shape i ->
    rmw32_refines i s XOR (calculate_rm_imm_32 c i (fun v_d v_s => Ok (Z.lxor v_d v_s)) (Z.lor (Z.lor FLAG_ZF FLAG_SF) FLAG_PF) (Z.lor FLAG_OF FLAG_CF) s).
  Proof.
    intros Hrf Hs0 Him. unfold rmw32_refines. cbn [isa_exec]. unfold exec_alu.
    destruct (calc_rm_imm_32_shape c i s Hwf HI Hn Hs0 Him (fun v_d v_s => Ok (Z.lxor v_d v_s)) (Z.lor (Z.lor FLAG_ZF FLAG_SF) FLAG_PF) (Z.lor FLAG_OF FLAG_CF))
      as (v & RV & Hv & SH).
    rewrite RV.
    destruct (read_op i 0 32 s) as [d|]; [|destruct SH as [e SH]; exists e, 0; left; exact SH]. destruct SH as [Hd SH].
    rewrite (SH _ eq_refl).
    change (Z.lor (Z.lor FLAG_ZF FLAG_SF) FLAG_PF) with (arith_fs false false).
    change (Z.lor FLAG_OF FLAG_CF) with 2049.
    rewrite (bind_ok _ _ _ _ _ (set_flags_u32_arith c false false _ s Hrf)).
    change (Z.land (arith_fs false false) NO_WRITEBACK =? 0) with true. cbv iota.
    cbn [alu b2f]. change (0 + 0) with 0. rewrite !Z.add_0_l.
    pose proof (lxor_range32 _ _ Hd Hv) as Hres.
    match goal with |- context [dest_write32 c i ?res (with_flags s ?mk ?bits)] =>
      pose proof (dest_write32_spec c i s Hwf HI Hn Hs0 (set_status (rflags s) mk bits) res Hres) as ST;
      cbv zeta in ST; fold (with_flags s mk bits) in ST;
      destruct (write_op i 0 32 res (with_flags s mk bits)) as [s2|];
      [rewrite ST; cbn [opt_done]; split; reflexivity
      |destruct ST as [e ST]; rewrite ST; cbn [opt_done]; exists e; eexists; right; reflexivity]
    end.
  Qed.

  Theorem xor_rm32_imm_refines :
    0 <= rflags s < 2 ^ 64 -> rm32_shape i 0 -> imm32_shape i ->
    (i_code i = C_Xor_rm32_imm8 -> rmw32_refines i s XOR (instr_xor_rm32_imm8 c i s)) /\
    rmw32_refines i s XOR (instr_xor_rm32_imm32 c i s) /\
    (i_code i = C_Xor_EAX_imm32 -> rmw32_refines i s XOR (instr_xor_eax_imm32 c i s)).
  Proof.
    intros Hrf Hs0 Him. repeat split.
    - intros Ec. unfold instr_xor_rm32_imm8. rewrite Ec. rewrite (bind_ok _ _ _ _ _ (dbg_code_ok c s _ eq_refl)). exact (xor_imm32_core Hrf Hs0 Him).
    - exact (xor_imm32_core Hrf Hs0 Him).
    - intros Ec. unfold instr_xor_eax_imm32. rewrite Ec. rewrite (bind_ok _ _ _ _ _ (dbg_code_ok c s _ eq_refl)). exact (xor_imm32_core Hrf Hs0 Him).
  Qed.
End MovImm32Forms.
