(* C01/C02/C06: the 16-bit ALU forms with an immediate source (r/m16, imm8 sign-extended; r/m16, imm16; the
   AX, imm16 short forms) against the ISA specification.  AluImm32P.v at half the width (textual
   transformation, checked by Coq). *)
From Coq Require Import ZArith Bool List Lia.
From AxV Require Import Bits Outcome Codes Iced State Rt Mem Trace BitsP ByteStore MemP RegFile RegsP ISA CodeSem ReadonlyTac
  OperandP FlagsP CfP MovP RmP AluP AluRmP AluMemP MovxP Alu16P.
From AxG Require Import Flags Regs Operand Helpers I_add I_and I_xor I_sub I_cmp.
Local Open Scope Z_scope.
Ltac Zify.zify_post_hook ::= Z.div_mod_to_equations.

Definition imm16_shape (i : instr) : Prop :=
  (i_op_kind i 1 = OK_Immediate8to16 /\ 0 <= i_immediate8to16 i < 2 ^ 16) \/
  (i_op_kind i 1 = OK_Immediate16 /\ 0 <= i_immediate16 i < 2 ^ 16).

Lemma imm8to16_roundtrip v : 0 <= v < 2 ^ 16 -> cast U64 U16 (cast I16 U64 v) = v.
Proof.
  intros H. unfold cast, Bits.sem, enc, modulus; cbn [signed width].
  change (2 ^ (16 - 1)) with 32768. change (2 ^ 16) with 65536 in *. change (2 ^ 64) with 18446744073709551616.
  destruct (v <? 32768); lia.
Qed.
Lemma imm16_roundtrip v : 0 <= v < 2 ^ 16 -> cast U64 U16 (cast U16 U64 v) = v.
Proof. intros H. rewrite (cast_u16_u64_id v H). apply cast_u64_u16_id. exact H. Qed.

Section RmImm16.
  Variables (c : cfg) (i : instr) (s : mstate).
  Hypothesis Hwf : wf_regs s.
  Hypothesis HI : Inv (mem s).
  Hypothesis Hn : i_op_count i = 2.
  Hypothesis Hs0 : rm16_shape i 0.
  Hypothesis Him : imm16_shape i.

  Lemma imm16_operand :
    exists d v, instruction_operand c i 1 s = (Ok (OpImmediate d 2), s) /\ cast U64 U16 d = v /\
                read_op i 1 16 s = Some v /\ 0 <= v < 2 ^ 16.
  Proof.
    unfold instruction_operand, read_op, assert_that. rewrite Hn. cbn [Z.ltb Z.compare].
    destruct Him as [[K R]|[K R]]; rewrite K; cbn [imm_of].
    - eexists. exists (i_immediate8to16 i). split; [reflexivity|]. split; [apply imm8to16_roundtrip; exact R|].
      split; [rewrite Z.mod_small by exact R; reflexivity|exact R].
    - eexists. exists (i_immediate16 i). split; [reflexivity|]. split; [apply imm16_roundtrip; exact R|].
      split; [rewrite Z.mod_small by exact R; reflexivity|exact R].
  Qed.

  Lemma calc_rm_imm_16f_shape (op : Z -> Z -> outcome (Z * Z)) fset fclear :
    exists v, read_op i 1 16 s = Some v /\ 0 <= v < 2 ^ 16 /\
    match read_op i 0 16 s with
    | Some d =>
        0 <= d < 2 ^ 16 /\
        forall res fl, op d v = Ok (res, fl) -> Z.land fl NO_WRITEBACK = 0 ->
          calculate_rm_imm_16f c i op fset fclear s =
          bind (set_flags_u16 c (Z.lor fset fl) fclear res)
               (fun _ => if Z.land fset NO_WRITEBACK =? 0 then dest_write16 c i res else ret tt) s
    | None => exists e, calculate_rm_imm_16f c i op fset fclear s = (Err e, s)
    end.
  Proof.
    destruct imm16_operand as (dd & v & O1 & CV & RV & Hv). exists v. split; [exact RV|]. split; [exact Hv|].
    assert (SA : lift (debug_assert_that c (2 =? 2)) s = (Ok tt, s)) by (unfold lift, debug_assert_that, assert_that; destruct (dbg c); reflexivity).
    unfold calculate_rm_imm_16f, read_op, dest_write16.
    destruct Hs0 as [[K0 H0]|[K0 Hm]]; rewrite K0.
    - assert (O0 : instruction_operand c i 0 s = (Ok (OpRegister (i_op_register i 0)), s))
        by (apply operand_register; [rewrite Hn; reflexivity|exact K0|reflexivity|apply gpr16_supported; exact H0]).
      assert (OP : instruction_operands_2 c i s = (Ok (OpRegister (i_op_register i 0), OpImmediate dd 2), s)).
      { unfold instruction_operands_2. rewrite (bind_ok _ _ _ _ _ O0). rewrite (bind_ok _ _ _ _ _ O1). reflexivity. }
      rewrite rf_read_mod16 by exact H0.
      assert (Hd : 0 <= rf_read (regs s) (i_op_register i 0) < 2 ^ 16) by (apply rf_read_range16; exact H0).
      split; [exact Hd|]. intros res fl Hop Hfl.
      rewrite (bind_ok _ _ _ _ _ OP). cbv beta iota.
      rewrite bind_assoc. rewrite (bind_ok _ _ _ _ _ SA). rewrite (bind_ok _ _ _ _ _ (eq_refl : ret (cast U64 U16 dd) s = _)).
      rewrite CV.
      rewrite (bind_ok _ _ _ _ _ (reg_read_16_ok c _ s Hwf H0)). rewrite (cast_u64_u16_id _ Hd). rewrite Hop.
      rewrite (bind_ok _ _ _ _ _ (eq_refl : lift (Ok (res, fl)) s = _)). cbv beta iota.
      assert (DA : lift (debug_assert_that c (Z.land fl NO_WRITEBACK =? 0)) s = (Ok tt, s)).
      { unfold lift, debug_assert_that, assert_that. rewrite Hfl. destruct (dbg c); reflexivity. }
      rewrite (bind_ok _ _ _ _ _ DA). unfold bind.
      destruct (set_flags_u16 c (Z.lor fset fl) fclear res s) as [[[]|e|p|] s1]; try reflexivity.
      destruct (Z.land fset NO_WRITEBACK =? 0); [|reflexivity].
      destruct (reg_write_16 c (i_op_register i 0) (cast U16 U64 res) s1) as [[[]|e|p|] s2]; reflexivity.
    - destruct (operand_address c i 0 s Hwf Hm ltac:(rewrite Hn; reflexivity) K0) as (O0 & EA & _).
      assert (OP : instruction_operands_2 c i s = (Ok (OpMemory (memop_of i), OpImmediate dd 2), s)).
      { unfold instruction_operands_2. rewrite (bind_ok _ _ _ _ _ O0). rewrite (bind_ok _ _ _ _ _ O1). reflexivity. }
      unfold load. change (bytes_of 16) with 2%nat.
      rewrite (bind_ok _ _ _ _ _ OP). cbv beta iota.
      rewrite bind_assoc. rewrite (bind_ok _ _ _ _ _ SA). rewrite (bind_ok _ _ _ _ _ (eq_refl : ret (cast U64 U16 dd) s = _)).
      rewrite CV.
      rewrite (bind_ok _ _ _ _ _ EA). change mem_read_16 with (mem_read_n 2).
      destruct (mem_read_n_cases 2 (ea i s) s HI) as [(d & E & R)|(e & E)]; rewrite E.
      + split; [exact R|]. intros res fl Hop Hfl.
        rewrite (bind_ok _ _ _ _ _ E). rewrite (cast_u64_u16_id d R). rewrite Hop.
        rewrite (bind_ok _ _ _ _ _ (eq_refl : lift (Ok (res, fl)) s = _)). cbv beta iota.
        assert (DA : lift (debug_assert_that c (Z.land fl NO_WRITEBACK =? 0)) s = (Ok tt, s)).
        { unfold lift, debug_assert_that, assert_that. rewrite Hfl. destruct (dbg c); reflexivity. }
        rewrite (bind_ok _ _ _ _ _ DA).
        destruct (Z.land fset NO_WRITEBACK =? 0); unfold store_tail16, bind;
          destruct (set_flags_u16 c (Z.lor fset fl) fclear res s) as [[[]|e|p|] s1]; try reflexivity.
        destruct (mem_addr c (memop_of i) s1) as [[a|e|p|] s2]; try reflexivity.
        destruct (mem_write_16 a (cast U16 U64 res) s2) as [[[]|e|p|] s3]; reflexivity.
      + exists e. rewrite (bind_err _ _ _ _ _ E). reflexivity.
  Qed.
End RmImm16.

Section Imm16Forms.
  Variables (c : cfg) (i : instr) (s : mstate).
  Hypothesis Hwf : wf_regs s.
  Hypothesis HI : Inv (mem s).
  Hypothesis Hrf : 0 <= rflags s < 2 ^ 63.
  Hypothesis Hn : i_op_count i = 2.
  Hypothesis Hs0 : rm16_shape i 0.
  Hypothesis Him : imm16_shape i.

  Let Hrf64 : 0 <= rflags s < 2 ^ 64.
  Proof. change (2 ^ 63) with 9223372036854775808 in Hrf. change (2 ^ 64) with 18446744073709551616. lia. Qed.

  Ltac finish Hres :=
    match goal with |- context [dest_write16 c i ?res (with_flags s ?mk ?bits)] =>
      let ST := fresh "ST" in
      pose proof (dest_write16_spec c i s Hwf HI Hn Hs0 (set_status (rflags s) mk bits) res Hres) as ST;
      cbv zeta in ST; fold (with_flags s mk bits) in ST;
      destruct (write_op i 0 16 res (with_flags s mk bits)) as [s2|];
      [rewrite ST; cbn [opt_done]; split; reflexivity
      |destruct ST as [e ST]; rewrite ST; cbn [opt_done]; exists e; eexists; right; reflexivity]
    end.

  Lemma add_imm16_core :
    rmw16_refines i s ADD (calculate_rm_imm_16f c i (fun v_d v_s => (let v_result := (wadd I16 (cast U16 I16 v_d) (cast U16 I16 v_s)) in
      t1_v <~ (add_chk c U32 (cast U16 U32 v_d) (cast U16 U32 v_s)) ;;
      Ok (((cast I16 U16 v_result), (Z.lor (if ((negb ((Z.land (cast I16 U16 v_result) 32768) =? (Z.land v_d 32768))) && (negb ((Z.land (cast I16 U16 v_result) 32768) =? (Z.land v_s 32768)))) then FLAG_OF else 0) (if (negb ((Z.land t1_v 65536) =? 0)) then FLAG_CF else 0)))))%out)
      (Z.lor (Z.lor FLAG_SF FLAG_ZF) FLAG_PF) (Z.lor FLAG_OF FLAG_CF) s).
  Proof.
    unfold rmw16_refines; cbn [isa_exec]; unfold exec_alu.
    match goal with |- context [calculate_rm_imm_16f c i ?op ?fs ?fc s] =>
      destruct (calc_rm_imm_16f_shape c i s Hwf HI Hn Hs0 Him op fs fc) as (v & RV & Hv & SH) end.
    rewrite RV.
    destruct (read_op i 0 16 s) as [d|]; [|destruct SH as [e SH]; exists e, 0; left; exact SH]. destruct SH as [Hd SH].
    set (cfb := 2 ^ 16 <=? d + v). set (ofb := negb (fits_signed 16 (sgn 16 d + sgn 16 v))).
    assert (Hfl : Z.land (Z.lor (b2f ofb FLAG_OF) (b2f cfb FLAG_CF)) NO_WRITEBACK = 0) by (destruct ofb, cfb; reflexivity).
    rewrite (SH _ _ (add16_closure_i16 c d v Hd Hv) Hfl).
    change (Z.lor (Z.lor (Z.lor FLAG_SF FLAG_ZF) FLAG_PF) (Z.lor (b2f ofb FLAG_OF) (b2f cfb FLAG_CF))) with (arith_fs cfb ofb).
    change (Z.lor FLAG_OF FLAG_CF) with 2049.
    rewrite (bind_ok _ _ _ _ _ (set_flags_u16_arith c cfb ofb _ s Hrf64)).
    change (Z.land (Z.lor (Z.lor FLAG_SF FLAG_ZF) FLAG_PF) NO_WRITEBACK =? 0) with true. cbv iota.
    cbn [alu]. rewrite !Z.add_0_r. fold cfb ofb.
    assert (Hres : 0 <= (d + v) mod 2 ^ 16 < 2 ^ 16) by (apply Z.mod_pos_bound; reflexivity).
    finish Hres.
  Qed.

  Lemma sub_imm16_core :
    rmw16_refines i s SUB (calculate_rm_imm_16f c i (fun v_d v_s => (Ok ((let v_result := (cast I16 U16 (wsub I16 (cast U16 I16 v_d) (cast U16 I16 v_s))) in
      (v_result, (Z.lor (if (negb ((Z.land (Z.land (Z.lxor (cast U16 I32 v_d) (cast U16 I32 v_s)) (Z.lxor (cast U16 I32 v_d) (cast U16 I32 v_result))) 32768) =? 0)) then FLAG_OF else 0) (if ((Z.land (wsub I32 (Z.lor (cast U16 I32 v_d) 65536) (cast U16 I32 v_s)) 65536) =? 0) then FLAG_CF else 0)))))))
      (Z.lor (Z.lor FLAG_SF FLAG_ZF) FLAG_PF) (Z.lor FLAG_CF FLAG_OF) s).
  Proof.
    unfold rmw16_refines; cbn [isa_exec]; unfold exec_alu.
    match goal with |- context [calculate_rm_imm_16f c i ?op ?fs ?fc s] =>
      destruct (calc_rm_imm_16f_shape c i s Hwf HI Hn Hs0 Him op fs fc) as (v & RV & Hv & SH) end.
    rewrite RV.
    destruct (read_op i 0 16 s) as [d|]; [|destruct SH as [e SH]; exists e, 0; left; exact SH]. destruct SH as [Hd SH].
    set (cfb := d <? v). set (ofb := negb (fits_signed 16 (sgn 16 d - sgn 16 v))).
    assert (Hfl : Z.land (Z.lor (b2f ofb FLAG_OF) (b2f cfb FLAG_CF)) NO_WRITEBACK = 0) by (destruct ofb, cfb; reflexivity).
    rewrite (SH _ _ (f_equal Ok (sub16_closure d v Hd Hv)) Hfl).
    change (Z.lor (Z.lor (Z.lor FLAG_SF FLAG_ZF) FLAG_PF) (Z.lor (b2f ofb FLAG_OF) (b2f cfb FLAG_CF))) with (arith_fs cfb ofb).
    change (Z.lor FLAG_CF FLAG_OF) with 2049.
    rewrite (bind_ok _ _ _ _ _ (set_flags_u16_arith c cfb ofb _ s Hrf64)).
    change (Z.land (Z.lor (Z.lor FLAG_SF FLAG_ZF) FLAG_PF) NO_WRITEBACK =? 0) with true. cbv iota.
    cbn [alu]. fold cfb ofb.
    assert (Hres : 0 <= (d - v) mod 2 ^ 16 < 2 ^ 16) by (apply Z.mod_pos_bound; reflexivity).
    finish Hres.
  Qed.

  Lemma cmp_imm16_core :
    rmw16_refines i s CMP (calculate_rm_imm_16f c i (fun v_d v_s => (Ok ((let v_result := (cast I16 U16 (wsub I16 (cast U16 I16 v_d) (cast U16 I16 v_s))) in
      (v_result, (Z.lor (if (negb ((Z.land (Z.land (Z.lxor (cast U16 I32 v_d) (cast U16 I32 v_s)) (Z.lxor (cast U16 I32 v_d) (cast U16 I32 v_result))) 32768) =? 0)) then FLAG_OF else 0) (if ((Z.land (wsub I32 (Z.lor (cast U16 I32 v_d) 65536) (cast U16 I32 v_s)) 65536) =? 0) then FLAG_CF else 0)))))))
      (Z.lor (Z.lor (Z.lor NO_WRITEBACK FLAG_SF) FLAG_ZF) FLAG_PF) (Z.lor FLAG_CF FLAG_OF) s).
  Proof.
    unfold rmw16_refines; cbn [isa_exec]; unfold exec_alu.
    match goal with |- context [calculate_rm_imm_16f c i ?op ?fs ?fc s] =>
      destruct (calc_rm_imm_16f_shape c i s Hwf HI Hn Hs0 Him op fs fc) as (v & RV & Hv & SH) end.
    rewrite RV.
    destruct (read_op i 0 16 s) as [d|]; [|destruct SH as [e SH]; exists e, 0; left; exact SH]. destruct SH as [Hd SH].
    set (cfb := d <? v). set (ofb := negb (fits_signed 16 (sgn 16 d - sgn 16 v))).
    assert (Hfl : Z.land (Z.lor (b2f ofb FLAG_OF) (b2f cfb FLAG_CF)) NO_WRITEBACK = 0) by (destruct ofb, cfb; reflexivity).
    rewrite (SH _ _ (f_equal Ok (sub16_closure d v Hd Hv)) Hfl).
    change (Z.lor (Z.lor (Z.lor (Z.lor NO_WRITEBACK FLAG_SF) FLAG_ZF) FLAG_PF) (Z.lor (b2f ofb FLAG_OF) (b2f cfb FLAG_CF))) with (cmp_fs cfb ofb).
    change (Z.lor FLAG_CF FLAG_OF) with 2049.
    rewrite (bind_ok _ _ _ _ _ (set_flags_u16_cmp c cfb ofb _ s Hrf)).
    change (Z.land (Z.lor (Z.lor (Z.lor NO_WRITEBACK FLAG_SF) FLAG_ZF) FLAG_PF) NO_WRITEBACK =? 0) with false. cbv iota.
    cbn [alu]. fold cfb ofb. split; reflexivity.
  Qed.

  Lemma and_imm16_core :
    rmw16_refines i s AND (calculate_rm_imm_16f c i (fun v_s v_d => (Ok (((Z.land v_s v_d), 0))))
      (Z.lor (Z.lor FLAG_SF FLAG_ZF) FLAG_PF) (Z.lor FLAG_OF FLAG_CF) s).
  Proof.
    unfold rmw16_refines; cbn [isa_exec]; unfold exec_alu.
    match goal with |- context [calculate_rm_imm_16f c i ?op ?fs ?fc s] =>
      destruct (calc_rm_imm_16f_shape c i s Hwf HI Hn Hs0 Him op fs fc) as (v & RV & Hv & SH) end.
    rewrite RV.
    destruct (read_op i 0 16 s) as [d|]; [|destruct SH as [e SH]; exists e, 0; left; exact SH]. destruct SH as [Hd SH].
    rewrite (SH _ 0 eq_refl eq_refl).
    change (Z.lor (Z.lor (Z.lor FLAG_SF FLAG_ZF) FLAG_PF) 0) with (arith_fs false false).
    change (Z.lor FLAG_OF FLAG_CF) with 2049.
    rewrite (bind_ok _ _ _ _ _ (set_flags_u16_arith c false false _ s Hrf64)).
    change (Z.land (Z.lor (Z.lor FLAG_SF FLAG_ZF) FLAG_PF) NO_WRITEBACK =? 0) with true. cbv iota.
    cbn [alu b2f]. change (0 + 0) with 0. rewrite !Z.add_0_l.
    pose proof (land_range16 _ _ Hd Hv) as Hres.
    finish Hres.
  Qed.

  Ltac with_assert Ec f core := unfold f; rewrite Ec; rewrite (bind_ok _ _ _ _ _ (dbg_code_ok c s _ eq_refl)); exact core.

  Theorem add_rm16_imm8_refines : i_code i = C_Add_rm16_imm8 -> rmw16_refines i s ADD (instr_add_rm16_imm8 c i s).
  Proof. intros Ec. with_assert Ec instr_add_rm16_imm8 add_imm16_core. Qed.
  Theorem add_rm16_imm16_refines : rmw16_refines i s ADD (instr_add_rm16_imm16 c i s).
  Proof. exact add_imm16_core. Qed.
  Theorem add_ax_imm16_refines : i_code i = C_Add_AX_imm16 -> rmw16_refines i s ADD (instr_add_ax_imm16 c i s).
  Proof. intros Ec. with_assert Ec instr_add_ax_imm16 add_imm16_core. Qed.
  Theorem sub_rm16_imm8_refines : i_code i = C_Sub_rm16_imm8 -> rmw16_refines i s SUB (instr_sub_rm16_imm8 c i s).
  Proof. intros Ec. with_assert Ec instr_sub_rm16_imm8 sub_imm16_core. Qed.
  Theorem sub_rm16_imm16_refines : rmw16_refines i s SUB (instr_sub_rm16_imm16 c i s).
  Proof. exact sub_imm16_core. Qed.
  Theorem sub_ax_imm16_refines : i_code i = C_Sub_AX_imm16 -> rmw16_refines i s SUB (instr_sub_ax_imm16 c i s).
  Proof. intros Ec. with_assert Ec instr_sub_ax_imm16 sub_imm16_core. Qed.
  Theorem cmp_rm16_imm8_refines : i_code i = C_Cmp_rm16_imm8 -> rmw16_refines i s CMP (instr_cmp_rm16_imm8 c i s).
  Proof. intros Ec. with_assert Ec instr_cmp_rm16_imm8 cmp_imm16_core. Qed.
  Theorem cmp_rm16_imm16_refines : rmw16_refines i s CMP (instr_cmp_rm16_imm16 c i s).
  Proof. exact cmp_imm16_core. Qed.
  Theorem cmp_ax_imm16_refines : i_code i = C_Cmp_AX_imm16 -> rmw16_refines i s CMP (instr_cmp_ax_imm16 c i s).
  Proof. intros Ec. with_assert Ec instr_cmp_ax_imm16 cmp_imm16_core. Qed.
  Theorem and_rm16_imm8_refines : i_code i = C_And_rm16_imm8 -> rmw16_refines i s AND (instr_and_rm16_imm8 c i s).
  Proof. intros Ec. with_assert Ec instr_and_rm16_imm8 and_imm16_core. Qed.
  Theorem and_rm16_imm16_refines : rmw16_refines i s AND (instr_and_rm16_imm16 c i s).
  Proof. exact and_imm16_core. Qed.
  Theorem and_ax_imm16_refines : i_code i = C_And_AX_imm16 -> rmw16_refines i s AND (instr_and_ax_imm16 c i s).
  Proof. intros Ec. with_assert Ec instr_and_ax_imm16 and_imm16_core. Qed.
End Imm16Forms.
