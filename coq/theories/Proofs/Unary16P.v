(* C01/C02/C06: INC, DEC, NEG, NOT r/m16 (register or memory operand) against the ISA specification.
   Unary32P.v at another width (textual transformation, checked by Coq). *)
From Coq Require Import ZArith Bool List Lia.
From AxV Require Import Bits Outcome Codes Iced State Rt Mem Trace BitsP ByteStore MemP RegFile RegsP ISA CodeSem ReadonlyTac
  OperandP FlagsP FlagsUnP CfP MovP RmP AluP AluRmP AluMemP MovxP Alu16P.
From AxG Require Import Flags Regs Operand Helpers I_inc I_dec I_neg I_not.
Local Open Scope Z_scope.
Ltac Zify.zify_post_hook ::= Z.div_mod_to_equations.

Lemma inc16_closure v : 0 <= v < 2 ^ 16 ->
  (let v_result := wadd U16 v 1 in
   (v_result, if (Z.land v 32768 =? 0) && negb (Z.land v_result 32768 =? 0) then FLAG_OF else 0))
  = ((v + 1) mod 2 ^ 16, Z.lor (b2f (negb (fits_signed 16 (sgn 16 v + 1))) FLAG_OF) (b2f false FLAG_CF)).
Proof.
  intros Hv. cbv zeta. assert (W : wadd U16 v 1 = (v + 1) mod 2 ^ 16) by reflexivity. rewrite W.
  set (r := (v + 1) mod 2 ^ 16). assert (Hr : 0 <= r < 2 ^ 16) by (apply Z.mod_pos_bound; reflexivity).
  change 32768 with (2 ^ 15).
  rewrite (land_signbit v 15), (land_signbit r 15) by (try lia; assumption).
  f_equal. unfold fits_signed, sgn. change (2 ^ (16 - 1)) with (2 ^ 15). unfold r in *.
  change (2 ^ 15) with 32768 in *. change (2 ^ 16) with 65536 in *.
  destruct (Z.leb_spec 32768 v); destruct (Z.leb_spec 32768 ((v + 1) mod 65536));
    destruct (Z.ltb_spec v 32768); try lia; cbn [Z.eqb negb andb b2f];
    match goal with |- context [(?a <=? ?b) && (?x <? ?y)] => destruct (Z.leb_spec a b); destruct (Z.ltb_spec x y) end;
    cbn [negb andb b2f]; try reflexivity; lia.
Qed.

Lemma dec16_closure v : 0 <= v < 2 ^ 16 ->
  (let v_result := wsub U16 v 1 in
   (v_result, if negb (Z.land v 32768 =? 0) && (Z.land v_result 32768 =? 0) then FLAG_OF else 0))
  = ((v - 1) mod 2 ^ 16, Z.lor (b2f (negb (fits_signed 16 (sgn 16 v - 1))) FLAG_OF) (b2f false FLAG_CF)).
Proof.
  intros Hv. cbv zeta. assert (W : wsub U16 v 1 = (v - 1) mod 2 ^ 16) by reflexivity. rewrite W.
  set (r := (v - 1) mod 2 ^ 16). assert (Hr : 0 <= r < 2 ^ 16) by (apply Z.mod_pos_bound; reflexivity).
  change 32768 with (2 ^ 15).
  rewrite (land_signbit v 15), (land_signbit r 15) by (try lia; assumption).
  f_equal. unfold fits_signed, sgn. change (2 ^ (16 - 1)) with (2 ^ 15). unfold r in *.
  change (2 ^ 15) with 32768 in *. change (2 ^ 16) with 65536 in *.
  destruct (Z.leb_spec 32768 v); destruct (Z.leb_spec 32768 ((v - 1) mod 65536));
    destruct (Z.ltb_spec v 32768); try lia; cbn [Z.eqb negb andb b2f];
    match goal with |- context [(?a <=? ?b) && (?x <? ?y)] => destruct (Z.leb_spec a b); destruct (Z.ltb_spec x y) end;
    cbn [negb andb b2f]; try reflexivity; lia.
Qed.

Lemma neg16_closure v : 0 <= v < 2 ^ 16 ->
  (let '(v_r, _) := oadd U16 (wnot U16 v) 1 in
   (v_r, Z.lor (if v =? 0 then 0 else FLAG_CF) (if v_r =? 32768 then FLAG_OF else 0)))
  = ((- v) mod 2 ^ 16, Z.lor (b2f (negb (fits_signed 16 (- sgn 16 v))) FLAG_OF) (b2f (negb (v =? 0)) FLAG_CF)).
Proof.
  intros Hv. unfold oadd, wnot, Bits.sem, enc, modulus; cbn [signed width].
  assert (E : (2 ^ 16 - 1 - v + 1) mod 2 ^ 16 = (- v) mod 2 ^ 16).
  { change (2 ^ 16) with 65536 in *. lia. }
  rewrite E. f_equal. rewrite Z.lor_comm. f_equal.
  - unfold fits_signed, sgn. change (2 ^ (16 - 1)) with 32768. change (2 ^ 16) with 65536 in *.
    destruct (Z.eqb_spec ((- v) mod 65536) 32768);
      destruct (Z.ltb_spec v 32768);
      match goal with |- context [(?a <=? ?b) && (?x <? ?y)] => destruct (Z.leb_spec a b); destruct (Z.ltb_spec x y) end;
      cbn [negb andb b2f]; try reflexivity; lia.
  - destruct (v =? 0); reflexivity.
Qed.

Section Rm16Unary.
  Variables (c : cfg) (i : instr) (s : mstate).
  Hypothesis Hwf : wf_regs s.
  Hypothesis HI : Inv (mem s).
  Hypothesis Hn : i_op_count i = 1.
  Hypothesis Hs0 : rm16_shape i 0.

  Let Hn2 : (0 <? i_op_count i) = true.
  Proof. rewrite Hn. reflexivity. Qed.

  Lemma dest_write16_spec1 x res :
    0 <= res < 2 ^ 16 ->
    let s1 := set_rflags s x in
    match write_op i 0 16 res s1 with
    | Some s2 => dest_write16 c i res s1 = (Ok tt, s2)
    | None => exists e, dest_write16 c i res s1 = (Err e, s1)
    end.
  Proof.
    intros Hres. cbv zeta. unfold write_op, dest_write16.
    destruct Hs0 as [[K0 H0]|[K0 Hm]]; rewrite K0.
    - rewrite (cast_u16_u64_id res Hres). rewrite reg_write_16_ok by (first [exact Hwf|assumption]). reflexivity.
    - set (s1 := set_rflags s x).
      assert (Hwf1 : wf_regs s1) by exact Hwf.
      destruct (operand_address c i 0 s1 Hwf1 Hm Hn2 K0) as (_ & EA & _).
      unfold store_tail16, store. rewrite (bind_ok _ _ _ _ _ EA).
      rewrite (cast_u16_u64_id res Hres). change (bytes_of 16) with 2%nat.
      assert (HI1 : Inv (mem s1)) by exact HI.
      pose proof (typed_write_16_is_le (ea i s1) res s1 Hres) as TW.
      destruct (write_never_panics (ea i s1) (le_bytes 2 res) s1 HI1) as [(s2 & E)|(e & E)]; rewrite E.
      + rewrite <- TW in E. rewrite (bind_ok _ _ _ _ _ E). reflexivity.
      + exists e. rewrite <- TW in E. rewrite (bind_err _ _ _ _ _ E). reflexivity.
  Qed.

  Lemma calc_rm_16f_shape (op : Z -> outcome (Z * Z)) fset fclear :
    match read_op i 0 16 s with
    | Some d =>
        0 <= d < 2 ^ 16 /\
        forall res fl, op d = Ok (res, fl) -> Z.land fl NO_WRITEBACK = 0 ->
          calculate_rm_16f c i op fset fclear s =
          bind (set_flags_u16 c (Z.lor fset fl) fclear res)
               (fun _ => if Z.land fset NO_WRITEBACK =? 0 then dest_write16 c i res else ret tt) s
    | None => exists e, calculate_rm_16f c i op fset fclear s = (Err e, s)
    end.
  Proof.
    unfold calculate_rm_16f, read_op, dest_write16.
    destruct Hs0 as [[K0 H0]|[K0 Hm]]; rewrite K0.
    - assert (O0 : instruction_operand c i 0 s = (Ok (OpRegister (i_op_register i 0)), s))
        by (apply operand_register; [exact Hn2|exact K0|reflexivity|apply gpr16_supported; exact H0]).
      rewrite rf_read_mod16 by exact H0.
      assert (Hd : 0 <= rf_read (regs s) (i_op_register i 0) < 2 ^ 16) by (apply rf_read_range16; exact H0).
      split; [exact Hd|]. intros res fl Hop Hfl.
      rewrite (bind_ok _ _ _ _ _ O0). cbv beta iota.
      rewrite (bind_ok _ _ _ _ _ (reg_read_16_ok c _ s Hwf H0)). rewrite (cast_u64_u16_id _ Hd). rewrite Hop.
      rewrite (bind_ok _ _ _ _ _ (eq_refl : lift (Ok (res, fl)) s = _)). cbv beta iota.
      assert (DA : lift (debug_assert_that c (Z.land fl NO_WRITEBACK =? 0)) s = (Ok tt, s)).
      { unfold lift, debug_assert_that, assert_that. rewrite Hfl. destruct (dbg c); reflexivity. }
      rewrite (bind_ok _ _ _ _ _ DA). unfold bind.
      destruct (set_flags_u16 c (Z.lor fset fl) fclear res s) as [[[]|e|p|] s1]; try reflexivity.
      destruct (Z.land fset NO_WRITEBACK =? 0); [|reflexivity].
      destruct (reg_write_16 c (i_op_register i 0) (cast U16 U64 res) s1) as [[[]|e|p|] s2]; reflexivity.
    - destruct (operand_address c i 0 s Hwf Hm Hn2 K0) as (O0 & EA & _).
      unfold load. change (bytes_of 16) with 2%nat.
      rewrite (bind_ok _ _ _ _ _ O0). cbv beta iota.
      rewrite (bind_ok _ _ _ _ _ EA). change mem_read_16 with (mem_read_n 2).
      destruct (mem_read_n_cases 2 (ea i s) s HI) as [(d & E & R)|(e & E)]; rewrite E.
      + split; [exact R|]. intros res fl Hop Hfl.
        rewrite (bind_ok _ _ _ _ _ E). rewrite (cast_u64_u16_id d R). rewrite Hop.
        rewrite (bind_ok _ _ _ _ _ (eq_refl : lift (Ok (res, fl)) s = _)). cbv beta iota.
        assert (DA : lift (debug_assert_that c (Z.land fl NO_WRITEBACK =? 0)) s = (Ok tt, s)).
        { unfold lift, debug_assert_that, assert_that. rewrite Hfl. destruct (dbg c); reflexivity. }
        rewrite (bind_ok _ _ _ _ _ DA).
        destruct (Z.land fset NO_WRITEBACK =? 0); unfold store_tail16, bind;
          destruct (set_flags_u16 c (Z.lor fset fl) fclear res s) as [[[]|e|p|] s1]; try reflexivity.
        destruct (mem_addr c (memop_of i) s1) as [[a|e|p|] s2]; try reflexivity.
        destruct (mem_write_16 a (cast U16 U64 res) s2) as [[[]|e|p|] s3]; reflexivity.
      + exists e. rewrite (bind_err _ _ _ _ _ E). reflexivity.
  Qed.
End Rm16Unary.

Section Unary16Forms.
  Variables (c : cfg) (i : instr) (s : mstate).
  Hypothesis Hwf : wf_regs s.
  Hypothesis HI : Inv (mem s).
  Hypothesis Hrf : 0 <= rflags s < 2 ^ 64.
  Hypothesis Hn : i_op_count i = 1.
  Hypothesis Hs0 : rm16_shape i 0.

  Definition un16_refines (op : unop) (run : outcome unit * mstate) : Prop :=
    match isa_exec (SUn op 16) i s with
    | IDone s' u => run = (Ok tt, s') /\ u = 0
    | IFault FMem => exists e x, run = (Err e, s) \/ run = (Err e, set_rflags s x)
    | IFault _ => False
    end.

  Ltac finish Hres :=
    match goal with |- context [dest_write16 c i ?res (with_flags s ?mk ?bits)] =>
      let ST := fresh "ST" in
      pose proof (dest_write16_spec1 c i s Hwf HI Hn Hs0 (set_status (rflags s) mk bits) res Hres) as ST;
      cbv zeta in ST; fold (with_flags s mk bits) in ST;
      destruct (write_op i 0 16 res (with_flags s mk bits)) as [s2|];
      [rewrite ST; cbn [opt_done]; split; reflexivity
      |destruct ST as [e ST]; rewrite ST; cbn [opt_done]; exists e; eexists; right; reflexivity]
    end.

  Theorem inc_rm16_refines : i_code i = C_Inc_rm16 -> un16_refines INC (instr_inc_rm16 c i s).
  Proof.
    intros Ec. unfold un16_refines, instr_inc_rm16. rewrite Ec.
    rewrite (bind_ok _ _ _ _ _ (dbg_code_ok c s _ eq_refl)).
    cbn [isa_exec]. unfold exec_un.
    match goal with |- context [calculate_rm_16f c i ?op ?fs ?fc s] =>
      pose proof (calc_rm_16f_shape c i s Hwf HI Hn Hs0 op fs fc) as SH end.
    destruct (read_op i 0 16 s) as [d|]; [|destruct SH as [e SH]; exists e, 0; left; exact SH]. destruct SH as [Hd SH].
    set (ofb := negb (fits_signed 16 (sgn 16 d + 1))).
    assert (Hfl : Z.land (Z.lor (b2f ofb FLAG_OF) (b2f false FLAG_CF)) NO_WRITEBACK = 0) by (destruct ofb; reflexivity).
    rewrite (SH _ _ (f_equal Ok (inc16_closure d Hd)) Hfl).
    change (Z.lor (Z.lor (Z.lor FLAG_SF FLAG_ZF) FLAG_PF) (Z.lor (b2f ofb FLAG_OF) (b2f false FLAG_CF))) with (inc_fs ofb).
    change FLAG_OF with 2048.
    rewrite (bind_ok _ _ _ _ _ (set_flags_u16_incdec c ofb _ s Hrf)).
    change (Z.land (Z.lor (Z.lor FLAG_SF FLAG_ZF) FLAG_PF) NO_WRITEBACK =? 0) with true. cbv iota zeta.
    fold ofb. change (OF + SF + ZF + PF) with INCF.
    assert (Hres : 0 <= (d + 1) mod 2 ^ 16 < 2 ^ 16) by (apply Z.mod_pos_bound; reflexivity).
    finish Hres.
  Qed.

  Theorem dec_rm16_refines : i_code i = C_Dec_rm16 -> un16_refines DEC (instr_dec_rm16 c i s).
  Proof.
    intros Ec. unfold un16_refines, instr_dec_rm16. rewrite Ec.
    rewrite (bind_ok _ _ _ _ _ (dbg_code_ok c s _ eq_refl)).
    cbn [isa_exec]. unfold exec_un.
    match goal with |- context [calculate_rm_16f c i ?op ?fs ?fc s] =>
      pose proof (calc_rm_16f_shape c i s Hwf HI Hn Hs0 op fs fc) as SH end.
    destruct (read_op i 0 16 s) as [d|]; [|destruct SH as [e SH]; exists e, 0; left; exact SH]. destruct SH as [Hd SH].
    set (ofb := negb (fits_signed 16 (sgn 16 d - 1))).
    assert (Hfl : Z.land (Z.lor (b2f ofb FLAG_OF) (b2f false FLAG_CF)) NO_WRITEBACK = 0) by (destruct ofb; reflexivity).
    rewrite (SH _ _ (f_equal Ok (dec16_closure d Hd)) Hfl).
    change (Z.lor (Z.lor (Z.lor FLAG_SF FLAG_ZF) FLAG_PF) (Z.lor (b2f ofb FLAG_OF) (b2f false FLAG_CF))) with (inc_fs ofb).
    change FLAG_OF with 2048.
    rewrite (bind_ok _ _ _ _ _ (set_flags_u16_incdec c ofb _ s Hrf)).
    change (Z.land (Z.lor (Z.lor FLAG_SF FLAG_ZF) FLAG_PF) NO_WRITEBACK =? 0) with true. cbv iota zeta.
    fold ofb. change (OF + SF + ZF + PF) with INCF.
    assert (Hres : 0 <= (d - 1) mod 2 ^ 16 < 2 ^ 16) by (apply Z.mod_pos_bound; reflexivity).
    finish Hres.
  Qed.

  Theorem neg_rm16_refines : i_code i = C_Neg_rm16 -> un16_refines NEG (instr_neg_rm16 c i s).
  Proof.
    intros Ec. unfold un16_refines, instr_neg_rm16. rewrite Ec.
    rewrite (bind_ok _ _ _ _ _ (dbg_code_ok c s _ eq_refl)).
    cbn [isa_exec]. unfold exec_un.
    match goal with |- context [calculate_rm_16f c i ?op ?fs ?fc s] =>
      pose proof (calc_rm_16f_shape c i s Hwf HI Hn Hs0 op fs fc) as SH end.
    destruct (read_op i 0 16 s) as [d|]; [|destruct SH as [e SH]; exists e, 0; left; exact SH]. destruct SH as [Hd SH].
    set (ofb := negb (fits_signed 16 (- sgn 16 d))). set (cfb := negb (d =? 0)).
    assert (Hfl : Z.land (Z.lor (b2f ofb FLAG_OF) (b2f cfb FLAG_CF)) NO_WRITEBACK = 0) by (destruct ofb, cfb; reflexivity).
    rewrite (SH _ _ (f_equal Ok (neg16_closure d Hd)) Hfl).
    change (Z.lor (Z.lor (Z.lor FLAG_PF FLAG_ZF) FLAG_SF) (Z.lor (b2f ofb FLAG_OF) (b2f cfb FLAG_CF))) with (arith_fs cfb ofb).
    change (Z.lor FLAG_CF FLAG_OF) with 2049.
    rewrite (bind_ok _ _ _ _ _ (set_flags_u16_arith c cfb ofb _ s Hrf)).
    change (Z.land (Z.lor (Z.lor FLAG_PF FLAG_ZF) FLAG_SF) NO_WRITEBACK =? 0) with true. cbv iota zeta.
    fold ofb cfb.
    assert (Hres : 0 <= (- d) mod 2 ^ 16 < 2 ^ 16) by (apply Z.mod_pos_bound; reflexivity).
    finish Hres.
  Qed.

  Theorem not_rm16_refines : i_code i = C_Not_rm16 -> un16_refines NOT (instr_not_rm16 c i s).
  Proof.
    intros Ec. unfold un16_refines, instr_not_rm16. rewrite Ec.
    rewrite (bind_ok _ _ _ _ _ (dbg_code_ok c s _ eq_refl)).
    cbn [isa_exec]. unfold exec_un.
    match goal with |- context [calculate_rm_16f c i ?op ?fs ?fc s] =>
      pose proof (calc_rm_16f_shape c i s Hwf HI Hn Hs0 op fs fc) as SH end.
    destruct (read_op i 0 16 s) as [d|]; [|destruct SH as [e SH]; exists e, 0; left; exact SH]. destruct SH as [Hd SH].
    rewrite (SH _ 0 eq_refl eq_refl).
    change (Z.lor FLAGS_UNAFFECTED 0) with FLAGS_UNAFFECTED.
    rewrite (bind_ok _ _ _ _ _ (set_flags16_unaffected c _ s)).
    change (Z.land FLAGS_UNAFFECTED NO_WRITEBACK =? 0) with true. cbv iota.
    change (wnot U16 d) with (2 ^ 16 - 1 - d).
    assert (Hres : 0 <= 2 ^ 16 - 1 - d < 2 ^ 16) by (change (2 ^ 16) with 65536 in *; lia).
    pose proof (dest_write16_spec1 c i s Hwf HI Hn Hs0 (rflags s) (2 ^ 16 - 1 - d) Hres) as ST. cbv zeta in ST.
    assert (SS : set_rflags s (rflags s) = s) by (destruct s; reflexivity). rewrite SS in ST.
    destruct (write_op i 0 16 (2 ^ 16 - 1 - d) s) as [s2|].
    - rewrite ST. cbn [opt_done]. split; reflexivity.
    - destruct ST as [e ST]. rewrite ST. cbn [opt_done]. exists e, 0. left. reflexivity.
  Qed.
End Unary16Forms.
