(* C02: ADC r/m, imm8 (the immediate sign-extended to the operand size) at 64, 32 and 16 bits.  The generated code
   takes the low byte of the decoder's sign-extended immediate and sign-extends it again; the hypothesis Sim says
   that the decoder's value is a sign-extended byte (checked against iced on every run with the other shape
   hypotheses). *)
From Coq Require Import ZArith Bool List Lia.
From AxV Require Import Bits Outcome Codes Iced State Rt Mem Trace BitsP ByteStore MemP RegFile RegsP ISA CodeSem ReadonlyTac
  OperandP FlagsP CfP MovP RmP AluP AluRmP AluMemP Alu32P AluImmP AluImm32P MovxP Alu16P AluImm16P AdcP Adc32P Adc16P ShiftP Shift32P Shift16P.
From AxG Require Import Flags Regs Operand Helpers I_adc.
Local Open Scope Z_scope.
Ltac Zify.zify_post_hook ::= Z.div_mod_to_equations.

Lemma sx8_roundtrip64 v : 0 <= v < 2 ^ 64 -> (v < 128 \/ 2 ^ 64 - 128 <= v) ->
  cast I64 U64 (cast I8 I64 (cast U8 I8 (cast U64 U8 (cast I64 U64 v)))) = v.
Proof.
  intros H S. unfold cast, Bits.sem, enc, modulus; cbn [signed width].
  change (2 ^ (64 - 1)) with 9223372036854775808. change (2 ^ 64) with 18446744073709551616 in *. change (2 ^ 64) with 18446744073709551616.
  change (2 ^ (8 - 1)) with 128. change (2 ^ 8) with 256.
  repeat match goal with |- context [if ?b then _ else _] => destruct b eqn:? end; lia.
Qed.

Section AdcImm8_64.
  Variables (c : cfg) (i : instr) (s : mstate).
  Hypothesis Hwf : wf_regs s.
  Hypothesis HI : Inv (mem s).
  Hypothesis Hrf : 0 <= rflags s < 2 ^ 64.
  Hypothesis Hn : i_op_count i = 2.
  Hypothesis Hs0 : rm64_shape i 0.
  Hypothesis K1 : i_op_kind i 1 = OK_Immediate8to64.
  (* the decoder's imm8 sign-extended to 64 bits, as an unsigned 64-bit pattern *)
  Hypothesis Rim : 0 <= i_immediate8to64 i < 2 ^ 64.
  Hypothesis Sim : i_immediate8to64 i < 128 \/ 2 ^ 64 - 128 <= i_immediate8to64 i.

  Let cin := flag (rflags s) CF.
  Let cz := if cin then 1 else 0.
  Let v := i_immediate8to64 i.

  Lemma calc_rm_imm_64f_8sx_shape op fset fclear :
    shift_tail c i s op fset fclear (cast U64 U8 (cast I64 U64 v)) (calculate_rm_imm_64f_8 c i op fset fclear s).
  Proof.
    destruct (operand0 c i s Hwf Hn Hs0) as (o0 & O0 & Ho0).
    assert (O1 : instruction_operand c i 1 s = (Ok (OpImmediate (cast I64 U64 v) 8), s)).
    { unfold instruction_operand, assert_that. rewrite Hn. cbn [Z.ltb Z.compare]. rewrite K1. reflexivity. }
    assert (OP : instruction_operands_2 c i s = (Ok (o0, OpImmediate (cast I64 U64 v) 8), s)).
    { unfold instruction_operands_2. rewrite (bind_ok _ _ _ _ _ O0). rewrite (bind_ok _ _ _ _ _ O1). reflexivity. }
    unfold calculate_rm_imm_64f_8. rewrite (bind_ok _ _ _ _ _ OP). cbv beta iota.
    rewrite (bind_ok _ _ _ _ _ (eq_refl : ret (cast U64 U8 (cast I64 U64 v)) s = _)).
    exact (dest_part c i s Hwf HI Hn Hs0 op fset fclear _ o0 O0 Ho0).
  Qed.

  Theorem adc_rm64_imm8_refines : i_code i = C_Adc_rm64_imm8 -> adc_refines i s (instr_adc_rm64_imm8 c i s).
  Proof.
    intros Ec. unfold adc_refines, instr_adc_rm64_imm8. rewrite Ec.
    rewrite (bind_ok _ _ _ _ _ (dbg_code_ok c s _ eq_refl)).
    rewrite (bind_ok _ _ _ _ _ (eq_refl : get_rflags s = (Ok (rflags s), s))).
    cbn [isa_exec]. unfold exec_alu.
    match goal with |- context [calculate_rm_imm_64f_8 c i ?op ?fs ?fc s] =>
      pose proof (calc_rm_imm_64f_8sx_shape op fs fc) as ST; set (OPF := op) in * end.
    unfold shift_tail in ST.
    assert (RV : read_op i 1 64 s = Some v).
    { unfold read_op. rewrite K1. cbn [imm_of]. fold v. rewrite Z.mod_small by exact Rim. reflexivity. }
    rewrite RV.
    destruct (read_op i 0 64 s) as [d|]; [|destruct ST as [e ST]; exists e, 0; left; exact ST]. destruct ST as [Hd ST].
    change (negb (Z.land (rflags s) FLAG_CF =? 0)) with cin in *.
    set (cfb := 2 ^ 64 <=? d + v + cz). set (ofb := negb (fits_signed 64 (sgn 64 d + sgn 64 v + cz))).
    assert (Hfl : Z.land (Z.lor (b2f ofb FLAG_OF) (b2f cfb FLAG_CF)) NO_WRITEBACK = 0) by (destruct ofb, cfb; reflexivity).
    assert (CL : OPF d (cast U64 U8 (cast I64 U64 v)) =
                 Ok ((d + v + cz) mod 2 ^ 64, Z.lor (b2f ofb FLAG_OF) (b2f cfb FLAG_CF))).
    { unfold OPF. cbv beta zeta. rewrite (sx8_roundtrip64 v Rim Sim). exact (f_equal Ok (adc64_closure d v cin Hd Rim)). }
    rewrite (ST _ _ CL Hfl).
    change (Z.lor (Z.lor (Z.lor FLAG_SF FLAG_ZF) FLAG_PF) (Z.lor (b2f ofb FLAG_OF) (b2f cfb FLAG_CF))) with (arith_fs cfb ofb).
    change (Z.lor FLAG_OF FLAG_CF) with 2049.
    rewrite (bind_ok _ _ _ _ _ (set_flags_u64_arith c cfb ofb _ s Hrf)).
    change (Z.land (Z.lor (Z.lor FLAG_SF FLAG_ZF) FLAG_PF) NO_WRITEBACK =? 0) with true. cbv iota zeta.
    cbn [alu]. fold cin. fold cz. fold cfb ofb.
    assert (Hres : 0 <= (d + v + cz) mod 2 ^ 64 < 2 ^ 64) by (apply Z.mod_pos_bound; reflexivity).
    match goal with |- context [dest_write64 c i ?res (with_flags s ?mk ?bits)] =>
      pose proof (dest_write64_spec c i s Hwf HI Hn Hs0 (set_status (rflags s) mk bits) res) as WS;
      cbv zeta in WS; fold (with_flags s mk bits) in WS;
      destruct (write_op i 0 64 res (with_flags s mk bits)) as [s2|];
      [rewrite WS; cbn [opt_done]; split; reflexivity
      |destruct WS as [e WS]; rewrite WS; cbn [opt_done]; exists e; eexists; right; reflexivity]
    end.
  Qed.
End AdcImm8_64.

Lemma sx8_roundtrip32 v : 0 <= v < 2 ^ 32 -> (v < 128 \/ 2 ^ 32 - 128 <= v) ->
  cast I32 U32 (cast I8 I32 (cast U8 I8 (cast U64 U8 (cast I32 U64 v)))) = v.
Proof.
  intros H S. unfold cast, Bits.sem, enc, modulus; cbn [signed width].
  change (2 ^ (32 - 1)) with 2147483648. change (2 ^ 32) with 4294967296 in *. change (2 ^ 64) with 18446744073709551616.
  change (2 ^ (8 - 1)) with 128. change (2 ^ 8) with 256.
  repeat match goal with |- context [if ?b then _ else _] => destruct b eqn:? end; lia.
Qed.

Section AdcImm8_32.
  Variables (c : cfg) (i : instr) (s : mstate).
  Hypothesis Hwf : wf_regs s.
  Hypothesis HI : Inv (mem s).
  Hypothesis Hrf : 0 <= rflags s < 2 ^ 64.
  Hypothesis Hn : i_op_count i = 2.
  Hypothesis Hs0 : rm32_shape i 0.
  Hypothesis K1 : i_op_kind i 1 = OK_Immediate8to32.
  (* the decoder's imm8 sign-extended to 32 bits, as an unsigned 32-bit pattern *)
  Hypothesis Rim : 0 <= i_immediate8to32 i < 2 ^ 32.
  Hypothesis Sim : i_immediate8to32 i < 128 \/ 2 ^ 32 - 128 <= i_immediate8to32 i.

  Let cin := flag (rflags s) CF.
  Let cz := if cin then 1 else 0.
  Let v := i_immediate8to32 i.

  Lemma calc_rm_imm_32f_8sx_shape op fset fclear :
    shift_tail32 c i s op fset fclear (cast U64 U8 (cast I32 U64 v)) (calculate_rm_imm_32f_8 c i op fset fclear s).
  Proof.
    destruct (operand0_32 c i s Hwf Hn Hs0) as (o0 & O0).
    assert (O1 : instruction_operand c i 1 s = (Ok (OpImmediate (cast I32 U64 v) 4), s)).
    { unfold instruction_operand, assert_that. rewrite Hn. cbn [Z.ltb Z.compare]. rewrite K1. reflexivity. }
    assert (OP : instruction_operands_2 c i s = (Ok (o0, OpImmediate (cast I32 U64 v) 4), s)).
    { unfold instruction_operands_2. rewrite (bind_ok _ _ _ _ _ O0). rewrite (bind_ok _ _ _ _ _ O1). reflexivity. }
    unfold calculate_rm_imm_32f_8. rewrite (bind_ok _ _ _ _ _ OP). cbv beta iota.
    rewrite (bind_ok _ _ _ _ _ (eq_refl : ret (cast U64 U8 (cast I32 U64 v)) s = _)).
    exact (dest_part32 c i s Hwf HI Hn Hs0 op fset fclear _ o0 O0).
  Qed.

  Theorem adc_rm32_imm8_refines : i_code i = C_Adc_rm32_imm8 -> rmw32_refines i s ADC (instr_adc_rm32_imm8 c i s).
  Proof.
    intros Ec. unfold rmw32_refines, instr_adc_rm32_imm8. rewrite Ec.
    rewrite (bind_ok _ _ _ _ _ (dbg_code_ok c s _ eq_refl)).
    rewrite (bind_ok _ _ _ _ _ (eq_refl : get_rflags s = (Ok (rflags s), s))).
    cbn [isa_exec]. unfold exec_alu.
    match goal with |- context [calculate_rm_imm_32f_8 c i ?op ?fs ?fc s] =>
      pose proof (calc_rm_imm_32f_8sx_shape op fs fc) as ST; set (OPF := op) in * end.
    unfold shift_tail32 in ST.
    assert (RV : read_op i 1 32 s = Some v).
    { unfold read_op. rewrite K1. cbn [imm_of]. fold v. rewrite Z.mod_small by exact Rim. reflexivity. }
    rewrite RV.
    destruct (read_op i 0 32 s) as [d|]; [|destruct ST as [e ST]; exists e, 0; left; exact ST]. destruct ST as [Hd ST].
    change (negb (Z.land (rflags s) FLAG_CF =? 0)) with cin in *.
    set (cfb := 2 ^ 32 <=? d + v + cz). set (ofb := negb (fits_signed 32 (sgn 32 d + sgn 32 v + cz))).
    assert (Hfl : Z.land (Z.lor (b2f ofb FLAG_OF) (b2f cfb FLAG_CF)) NO_WRITEBACK = 0) by (destruct ofb, cfb; reflexivity).
    assert (CL : OPF d (cast U64 U8 (cast I32 U64 v)) =
                 Ok ((d + v + cz) mod 2 ^ 32, Z.lor (b2f ofb FLAG_OF) (b2f cfb FLAG_CF))).
    { unfold OPF. cbv beta zeta. rewrite (sx8_roundtrip32 v Rim Sim). exact (f_equal Ok (adc32_closure d v cin Hd Rim)). }
    rewrite (ST _ _ CL Hfl).
    change (Z.lor (Z.lor (Z.lor FLAG_SF FLAG_ZF) FLAG_PF) (Z.lor (b2f ofb FLAG_OF) (b2f cfb FLAG_CF))) with (arith_fs cfb ofb).
    change (Z.lor FLAG_OF FLAG_CF) with 2049.
    rewrite (bind_ok _ _ _ _ _ (set_flags_u32_arith c cfb ofb _ s Hrf)).
    change (Z.land (Z.lor (Z.lor FLAG_SF FLAG_ZF) FLAG_PF) NO_WRITEBACK =? 0) with true. cbv iota zeta.
    cbn [alu]. fold cin. fold cz. fold cfb ofb.
    assert (Hres : 0 <= (d + v + cz) mod 2 ^ 32 < 2 ^ 32) by (apply Z.mod_pos_bound; reflexivity).
    match goal with |- context [dest_write32 c i ?res (with_flags s ?mk ?bits)] =>
      pose proof (dest_write32_spec c i s Hwf HI Hn Hs0 (set_status (rflags s) mk bits) res Hres) as WS;
      cbv zeta in WS; fold (with_flags s mk bits) in WS;
      destruct (write_op i 0 32 res (with_flags s mk bits)) as [s2|];
      [rewrite WS; cbn [opt_done]; split; reflexivity
      |destruct WS as [e WS]; rewrite WS; cbn [opt_done]; exists e; eexists; right; reflexivity]
    end.
  Qed.
End AdcImm8_32.

Lemma sx8_roundtrip16 v : 0 <= v < 2 ^ 16 -> (v < 128 \/ 2 ^ 16 - 128 <= v) ->
  cast I16 U16 (cast I8 I16 (cast U8 I8 (cast U64 U8 (cast I16 U64 v)))) = v.
Proof.
  intros H S. unfold cast, Bits.sem, enc, modulus; cbn [signed width].
  change (2 ^ (16 - 1)) with 32768. change (2 ^ 16) with 65536 in *. change (2 ^ 64) with 18446744073709551616.
  change (2 ^ (8 - 1)) with 128. change (2 ^ 8) with 256.
  repeat match goal with |- context [if ?b then _ else _] => destruct b eqn:? end; lia.
Qed.

Section AdcImm8_16.
  Variables (c : cfg) (i : instr) (s : mstate).
  Hypothesis Hwf : wf_regs s.
  Hypothesis HI : Inv (mem s).
  Hypothesis Hrf : 0 <= rflags s < 2 ^ 64.
  Hypothesis Hn : i_op_count i = 2.
  Hypothesis Hs0 : rm16_shape i 0.
  Hypothesis K1 : i_op_kind i 1 = OK_Immediate8to16.
  (* the decoder's imm8 sign-extended to 16 bits, as an unsigned 16-bit pattern *)
  Hypothesis Rim : 0 <= i_immediate8to16 i < 2 ^ 16.
  Hypothesis Sim : i_immediate8to16 i < 128 \/ 2 ^ 16 - 128 <= i_immediate8to16 i.

  Let cin := flag (rflags s) CF.
  Let cz := if cin then 1 else 0.
  Let v := i_immediate8to16 i.

  Lemma calc_rm_imm_16f_8sx_shape op fset fclear :
    shift_tail16 c i s op fset fclear (cast U64 U8 (cast I16 U64 v)) (calculate_rm_imm_16f_8 c i op fset fclear s).
  Proof.
    destruct (operand0_16 c i s Hwf Hn Hs0) as (o0 & O0).
    assert (O1 : instruction_operand c i 1 s = (Ok (OpImmediate (cast I16 U64 v) 2), s)).
    { unfold instruction_operand, assert_that. rewrite Hn. cbn [Z.ltb Z.compare]. rewrite K1. reflexivity. }
    assert (OP : instruction_operands_2 c i s = (Ok (o0, OpImmediate (cast I16 U64 v) 2), s)).
    { unfold instruction_operands_2. rewrite (bind_ok _ _ _ _ _ O0). rewrite (bind_ok _ _ _ _ _ O1). reflexivity. }
    unfold calculate_rm_imm_16f_8. rewrite (bind_ok _ _ _ _ _ OP). cbv beta iota.
    rewrite (bind_ok _ _ _ _ _ (eq_refl : ret (cast U64 U8 (cast I16 U64 v)) s = _)).
    exact (dest_part16 c i s Hwf HI Hn Hs0 op fset fclear _ o0 O0).
  Qed.

  Theorem adc_rm16_imm8_refines : i_code i = C_Adc_rm16_imm8 -> rmw16_refines i s ADC (instr_adc_rm16_imm8 c i s).
  Proof.
    intros Ec. unfold rmw16_refines, instr_adc_rm16_imm8. rewrite Ec.
    rewrite (bind_ok _ _ _ _ _ (dbg_code_ok c s _ eq_refl)).
    rewrite (bind_ok _ _ _ _ _ (eq_refl : get_rflags s = (Ok (rflags s), s))).
    cbn [isa_exec]. unfold exec_alu.
    match goal with |- context [calculate_rm_imm_16f_8 c i ?op ?fs ?fc s] =>
      pose proof (calc_rm_imm_16f_8sx_shape op fs fc) as ST; set (OPF := op) in * end.
    unfold shift_tail16 in ST.
    assert (RV : read_op i 1 16 s = Some v).
    { unfold read_op. rewrite K1. cbn [imm_of]. fold v. rewrite Z.mod_small by exact Rim. reflexivity. }
    rewrite RV.
    destruct (read_op i 0 16 s) as [d|]; [|destruct ST as [e ST]; exists e, 0; left; exact ST]. destruct ST as [Hd ST].
    change (negb (Z.land (rflags s) FLAG_CF =? 0)) with cin in *.
    set (cfb := 2 ^ 16 <=? d + v + cz). set (ofb := negb (fits_signed 16 (sgn 16 d + sgn 16 v + cz))).
    assert (Hfl : Z.land (Z.lor (b2f ofb FLAG_OF) (b2f cfb FLAG_CF)) NO_WRITEBACK = 0) by (destruct ofb, cfb; reflexivity).
    assert (CL : OPF d (cast U64 U8 (cast I16 U64 v)) =
                 Ok ((d + v + cz) mod 2 ^ 16, Z.lor (b2f ofb FLAG_OF) (b2f cfb FLAG_CF))).
    { unfold OPF. cbv beta zeta. rewrite (sx8_roundtrip16 v Rim Sim). exact (f_equal Ok (adc16_closure d v cin Hd Rim)). }
    rewrite (ST _ _ CL Hfl).
    change (Z.lor (Z.lor (Z.lor FLAG_SF FLAG_ZF) FLAG_PF) (Z.lor (b2f ofb FLAG_OF) (b2f cfb FLAG_CF))) with (arith_fs cfb ofb).
    change (Z.lor FLAG_OF FLAG_CF) with 2049.
    rewrite (bind_ok _ _ _ _ _ (set_flags_u16_arith c cfb ofb _ s Hrf)).
    change (Z.land (Z.lor (Z.lor FLAG_SF FLAG_ZF) FLAG_PF) NO_WRITEBACK =? 0) with true. cbv iota zeta.
    cbn [alu]. fold cin. fold cz. fold cfb ofb.
    assert (Hres : 0 <= (d + v + cz) mod 2 ^ 16 < 2 ^ 16) by (apply Z.mod_pos_bound; reflexivity).
    match goal with |- context [dest_write16 c i ?res (with_flags s ?mk ?bits)] =>
      pose proof (dest_write16_spec c i s Hwf HI Hn Hs0 (set_status (rflags s) mk bits) res Hres) as WS;
      cbv zeta in WS; fold (with_flags s mk bits) in WS;
      destruct (write_op i 0 16 res (with_flags s mk bits)) as [s2|];
      [rewrite WS; cbn [opt_done]; split; reflexivity
      |destruct WS as [e WS]; rewrite WS; cbn [opt_done]; exists e; eexists; right; reflexivity]
    end.
  Qed.
End AdcImm8_16.
