(* C01/C02/C06: the 64-bit ALU forms "r64, r/m64" (register destination, register or memory
   source) against the ISA specification: result, flags, nothing else; an error exactly when the
   specification's load of the source faults, and then nothing changes. *)
From Coq Require Import ZArith Bool List Lia.
From AxV Require Import Bits Outcome Codes Iced State Rt Mem Trace BitsP ByteStore MemP RegFile RegsP ISA CodeSem ReadonlyTac
  OperandP FlagsP CfP MovP RmP AluP.
From AxG Require Import Flags Regs Operand Helpers I_add I_and I_xor I_sub I_cmp.
Local Open Scope Z_scope.
Ltac Zify.zify_post_hook ::= Z.div_mod_to_equations.

Section RRm64.
  Variables (c : cfg) (i : instr) (s : mstate).
  Hypothesis Hwf : wf_regs s.
  Hypothesis HI : Inv (mem s).
  Hypothesis Hn : i_op_count i = 2.
  Hypothesis K0 : i_op_kind i 0 = OK_Register.
  Hypothesis H0 : is_gpr64 (i_op_register i 0) = true.
  Hypothesis Hs1 : rm64_shape i 1.

  Let r0 := i_op_register i 0.
  Let d := rf_read (regs s) r0.

  (* the operand pair as decoded, and the source value *)
  Lemma operands_2_r_rm :
    exists o1, instruction_operands_2 c i s = (Ok (OpRegister r0, o1), s) /\
      match read_op i 1 64 s with
      | Some sv =>
          0 <= sv < 2 ^ 64 /\
          ((exists r1, o1 = OpRegister r1 /\ reg_read_64 c r1 s = (Ok sv, s)) \/
           (exists m, o1 = OpMemory m /\ mem_addr c m s = (Ok (ea i s), s) /\ mem_read_64 (ea i s) s = (Ok sv, s)))
      | None => exists m e, o1 = OpMemory m /\ mem_addr c m s = (Ok (ea i s), s) /\ mem_read_64 (ea i s) s = (Err e, s)
      end.
  Proof.
    assert (S0 : is_supported r0 = true) by (unfold r0; destruct (i_op_register i 0); try discriminate H0; reflexivity).
    assert (O0 : instruction_operand c i 0 s = (Ok (OpRegister r0), s))
      by (apply operand_register; [rewrite Hn; reflexivity|exact K0|reflexivity|exact S0]).
    unfold instruction_operands_2, read_op.
    destruct Hs1 as [[K1 H1]|[K1 Hm]]; rewrite K1.
    - assert (S1 : is_supported (i_op_register i 1) = true) by (destruct (i_op_register i 1); try discriminate H1; reflexivity).
      assert (O1 : instruction_operand c i 1 s = (Ok (OpRegister (i_op_register i 1)), s))
        by (apply operand_register; [rewrite Hn; reflexivity|exact K1|reflexivity|exact S1]).
      eexists. split.
      + rewrite (bind_ok _ _ _ _ _ O0). rewrite (bind_ok _ _ _ _ _ O1). reflexivity.
      + rewrite rf_read_mod64 by exact H1. split; [apply (rf_read_range64 s); exact H1|].
        left. eexists. split; [reflexivity|]. apply reg_read_64_ok; assumption.
    - destruct (operand_address c i 1 s Hwf Hm ltac:(rewrite Hn; reflexivity) K1) as (O1 & EA & _).
      eexists. split.
      + rewrite (bind_ok _ _ _ _ _ O0). rewrite (bind_ok _ _ _ _ _ O1). reflexivity.
      + unfold load. change (bytes_of 64) with 8%nat. change mem_read_64 with (mem_read_n 8).
        destruct (mem_read_n_cases 8 (ea i s) s HI) as [(v & E & R)|(e & E)]; rewrite E.
        * split; [exact R|]. right. eexists. split; [reflexivity|]. split; [exact EA|reflexivity].
        * eexists. eexists. split; [reflexivity|]. split; [exact EA|reflexivity].
  Qed.

  (* what calculate_r_rm_64f does, for any operation closure *)
  Lemma calc_r_rm_64f_shape (op : Z -> Z -> outcome (Z * Z)) fset fclear :
    match read_op i 1 64 s with
    | Some sv =>
        0 <= sv < 2 ^ 64 /\
        forall res fl, op d sv = Ok (res, fl) -> Z.land fl NO_WRITEBACK = 0 ->
          calculate_r_rm_64f c i op fset fclear s =
          bind (set_flags_u64 c (Z.lor fset fl) fclear res)
               (fun _ => if Z.land fset NO_WRITEBACK =? 0 then reg_write_64 c r0 res else ret tt) s
    | None => exists e, calculate_r_rm_64f c i op fset fclear s = (Err e, s)
    end.
  Proof.
    destruct operands_2_r_rm as (o1 & OP & SRC).
    assert (TR : lift (operand_to_reg (OpRegister r0)) s = (Ok r0, s)) by reflexivity.
    pose proof (reg_read_64_ok c r0 s Hwf H0) as RD. fold d in RD.
    unfold calculate_r_rm_64f.
    destruct (read_op i 1 64 s) as [sv|].
    - destruct SRC as [Hsv SRC]. split; [exact Hsv|]. intros res fl Hop Hfl.
      rewrite (bind_ok _ _ _ _ _ OP). cbv beta iota.
      rewrite (bind_ok _ _ _ _ _ TR). rewrite (bind_ok _ _ _ _ _ RD).
      assert (DA : lift (debug_assert_that c (Z.land fl NO_WRITEBACK =? 0)) s = (Ok tt, s)).
      { unfold lift, debug_assert_that, assert_that. rewrite Hfl. destruct (dbg c); reflexivity. }
      destruct SRC as [(r1 & -> & R1)|(m & -> & EA & R1)]; cbv iota.
      + rewrite (bind_ok _ _ _ _ _ R1). rewrite Hop.
        rewrite (bind_ok _ _ _ _ _ (eq_refl : lift (Ok (res, fl)) s = _)). cbv beta iota.
        rewrite (bind_ok _ _ _ _ _ DA).
        unfold bind at 1. unfold bind at 3.
        destruct (set_flags_u64 c (Z.lor fset fl) fclear res s) as [[[]|e|p|] s1]; try reflexivity.
        destruct (Z.land fset NO_WRITEBACK =? 0).
        * rewrite ?bind_assoc. unfold bind. destruct (reg_write_64 c r0 res s1) as [[[]|e|p|] s2]; reflexivity.
        * reflexivity.
      + rewrite (bind_ok _ _ _ _ _ EA). rewrite (bind_ok _ _ _ _ _ R1). rewrite Hop.
        rewrite (bind_ok _ _ _ _ _ (eq_refl : lift (Ok (res, fl)) s = _)). cbv beta iota.
        rewrite (bind_ok _ _ _ _ _ DA).
        unfold bind at 1. unfold bind at 3.
        destruct (set_flags_u64 c (Z.lor fset fl) fclear res s) as [[[]|e|p|] s1]; try reflexivity.
        destruct (Z.land fset NO_WRITEBACK =? 0).
        * rewrite ?bind_assoc. unfold bind. destruct (reg_write_64 c r0 res s1) as [[[]|e|p|] s2]; reflexivity.
        * reflexivity.
    - destruct SRC as (m & e & -> & EA & R1). exists e.
      rewrite (bind_ok _ _ _ _ _ OP). cbv beta iota.
      rewrite (bind_ok _ _ _ _ _ TR). rewrite (bind_ok _ _ _ _ _ RD).
      rewrite (bind_ok _ _ _ _ _ EA). rewrite (bind_err _ _ _ _ _ R1). reflexivity.
  Qed.
End RRm64.

Lemma add_result_i64 d sv : 0 <= d < 2 ^ 64 -> 0 <= sv < 2 ^ 64 ->
  cast I64 U64 (wadd I64 (cast U64 I64 d) (cast U64 I64 sv)) = wadd U64 d sv.
Proof.
  intros Hd Hs. unfold cast, wadd, Bits.sem, enc, modulus; cbn [signed width].
  change (2 ^ (64 - 1)) with 9223372036854775808. change (2 ^ 64) with 18446744073709551616 in *.
  repeat match goal with |- context [if ?b then _ else _] => destruct b end; lia.
Qed.

Lemma add64_closure_i64 c d sv : 0 <= d < 2 ^ 64 -> 0 <= sv < 2 ^ 64 ->
  (let v_result := wadd I64 (cast U64 I64 d) (cast U64 I64 sv) in
   t1_v <~ add_chk c U128 (cast U64 U128 d) (cast U64 U128 sv) ;;
   Ok (cast I64 U64 v_result,
       Z.lor (if negb (Z.land (cast I64 U64 v_result) 9223372036854775808 =? Z.land d 9223372036854775808) &&
                 negb (Z.land (cast I64 U64 v_result) 9223372036854775808 =? Z.land sv 9223372036854775808)
              then FLAG_OF else 0)
             (if negb (Z.land t1_v 18446744073709551616 =? 0) then FLAG_CF else 0)))%out
  = Ok ((d + sv) mod 2 ^ 64,
        Z.lor (b2f (negb (fits_signed 64 (sgn 64 d + sgn 64 sv))) FLAG_OF) (b2f (2 ^ 64 <=? d + sv) FLAG_CF)).
Proof.
  intros Hd Hs. cbv zeta. rewrite (add_result_i64 d sv Hd Hs). exact (add64_closure c d sv Hd Hs).
Qed.

Section Forms.
  Variables (c : cfg) (i : instr) (s : mstate).
  Hypothesis Hwf : wf_regs s.
  Hypothesis HI : Inv (mem s).
  Hypothesis Hrf : 0 <= rflags s < 2 ^ 63.
  Hypothesis Hn : i_op_count i = 2.
  Hypothesis K0 : i_op_kind i 0 = OK_Register.
  Hypothesis H0 : is_gpr64 (i_op_register i 0) = true.
  Hypothesis Hs1 : rm64_shape i 1.

  Let Hrf64 : 0 <= rflags s < 2 ^ 64.
  Proof. change (2 ^ 63) with 9223372036854775808 in Hrf. change (2 ^ 64) with 18446744073709551616. lia. Qed.

  Definition alu_refines (op : aluop) (run : outcome unit * mstate) : Prop :=
    match isa_exec (SAlu op 64) i s with
    | IDone s' u => run = (Ok tt, s') /\ u = 0
    | IFault FMem => exists e, run = (Err e, s)
    | IFault _ => False
    end.

  Ltac start Ec f :=
    unfold alu_refines, f; rewrite Ec;
    rewrite (bind_ok _ _ _ _ _ (dbg_code_ok c s _ eq_refl));
    cbn [isa_exec]; unfold exec_alu; unfold read_op at 1; rewrite K0; rewrite rf_read_mod64 by exact H0.

  Theorem add_r64_rm64_refines : i_code i = C_Add_r64_rm64 -> alu_refines ADD (instr_add_r64_rm64 c i s).
  Proof.
    intros Ec. start Ec instr_add_r64_rm64.
    match goal with |- context [calculate_r_rm_64f c i ?op ?fs ?fc s] =>
      pose proof (calc_r_rm_64f_shape c i s Hwf HI Hn K0 H0 Hs1 op fs fc) as SH end.
    destruct (read_op i 1 64 s) as [sv|]; [|exact SH]. destruct SH as [Hsv SH].
    set (d := rf_read (regs s) (i_op_register i 0)) in *.
    assert (Hd : 0 <= d < 2 ^ 64) by (apply (rf_read_range64 s); exact H0).
    set (cfb := 2 ^ 64 <=? d + sv). set (ofb := negb (fits_signed 64 (sgn 64 d + sgn 64 sv))).
    assert (Hfl : Z.land (Z.lor (b2f ofb FLAG_OF) (b2f cfb FLAG_CF)) NO_WRITEBACK = 0) by (destruct ofb, cfb; reflexivity).
    rewrite (SH _ _ (add64_closure_i64 c d sv Hd Hsv) Hfl).
    change (Z.lor (Z.lor (Z.lor FLAG_SF FLAG_ZF) FLAG_PF) (Z.lor (b2f ofb FLAG_OF) (b2f cfb FLAG_CF))) with (arith_fs cfb ofb).
    change (Z.lor FLAG_OF FLAG_CF) with 2049.
    rewrite (bind_ok _ _ _ _ _ (set_flags_u64_arith c cfb ofb _ s Hrf64)).
    change (Z.land (Z.lor (Z.lor FLAG_SF FLAG_ZF) FLAG_PF) NO_WRITEBACK =? 0) with true. cbv iota.
    rewrite (reg_write_64_ok c _ _ _ H0).
    cbn [alu]. rewrite !Z.add_0_r. fold cfb ofb. unfold write_op. rewrite K0. cbn [opt_done]. split; reflexivity.
  Qed.

  Theorem sub_r64_rm64_refines : i_code i = C_Sub_r64_rm64 -> alu_refines SUB (instr_sub_r64_rm64 c i s).
  Proof.
    intros Ec. start Ec instr_sub_r64_rm64.
    match goal with |- context [calculate_r_rm_64f c i ?op ?fs ?fc s] =>
      pose proof (calc_r_rm_64f_shape c i s Hwf HI Hn K0 H0 Hs1 op fs fc) as SH end.
    destruct (read_op i 1 64 s) as [sv|]; [|exact SH]. destruct SH as [Hsv SH].
    set (d := rf_read (regs s) (i_op_register i 0)) in *.
    assert (Hd : 0 <= d < 2 ^ 64) by (apply (rf_read_range64 s); exact H0).
    set (cfb := d <? sv). set (ofb := negb (fits_signed 64 (sgn 64 d - sgn 64 sv))).
    assert (Hfl : Z.land (Z.lor (b2f ofb FLAG_OF) (b2f cfb FLAG_CF)) NO_WRITEBACK = 0) by (destruct ofb, cfb; reflexivity).
    rewrite (SH _ _ (f_equal Ok (sub64_closure d sv Hd Hsv)) Hfl).
    change (Z.lor (Z.lor (Z.lor FLAG_SF FLAG_ZF) FLAG_PF) (Z.lor (b2f ofb FLAG_OF) (b2f cfb FLAG_CF))) with (arith_fs cfb ofb).
    change (Z.lor FLAG_CF FLAG_OF) with 2049.
    rewrite (bind_ok _ _ _ _ _ (set_flags_u64_arith c cfb ofb _ s Hrf64)).
    change (Z.land (Z.lor (Z.lor FLAG_SF FLAG_ZF) FLAG_PF) NO_WRITEBACK =? 0) with true. cbv iota.
    rewrite (reg_write_64_ok c _ _ _ H0).
    cbn [alu]. fold cfb ofb. unfold write_op. rewrite K0. cbn [opt_done]. split; reflexivity.
  Qed.

  Theorem cmp_r64_rm64_refines : i_code i = C_Cmp_r64_rm64 -> alu_refines CMP (instr_cmp_r64_rm64 c i s).
  Proof.
    intros Ec. start Ec instr_cmp_r64_rm64.
    match goal with |- context [calculate_r_rm_64f c i ?op ?fs ?fc s] =>
      pose proof (calc_r_rm_64f_shape c i s Hwf HI Hn K0 H0 Hs1 op fs fc) as SH end.
    destruct (read_op i 1 64 s) as [sv|]; [|exact SH]. destruct SH as [Hsv SH].
    set (d := rf_read (regs s) (i_op_register i 0)) in *.
    assert (Hd : 0 <= d < 2 ^ 64) by (apply (rf_read_range64 s); exact H0).
    set (cfb := d <? sv). set (ofb := negb (fits_signed 64 (sgn 64 d - sgn 64 sv))).
    assert (Hfl : Z.land (Z.lor (b2f ofb FLAG_OF) (b2f cfb FLAG_CF)) NO_WRITEBACK = 0) by (destruct ofb, cfb; reflexivity).
    rewrite (SH _ _ (f_equal Ok (sub64_closure d sv Hd Hsv)) Hfl).
    change (Z.lor (Z.lor (Z.lor (Z.lor NO_WRITEBACK FLAG_SF) FLAG_ZF) FLAG_PF) (Z.lor (b2f ofb FLAG_OF) (b2f cfb FLAG_CF))) with (cmp_fs cfb ofb).
    change (Z.lor FLAG_CF FLAG_OF) with 2049.
    rewrite (bind_ok _ _ _ _ _ (set_flags_u64_cmp c cfb ofb _ s Hrf)).
    change (Z.land (Z.lor (Z.lor (Z.lor NO_WRITEBACK FLAG_SF) FLAG_ZF) FLAG_PF) NO_WRITEBACK =? 0) with false. cbv iota.
    cbn [alu]. fold cfb ofb. split; reflexivity.
  Qed.

  Theorem and_r64_rm64_refines : i_code i = C_And_r64_rm64 -> alu_refines AND (instr_and_r64_rm64 c i s).
  Proof.
    intros Ec. start Ec instr_and_r64_rm64.
    match goal with |- context [calculate_r_rm_64f c i ?op ?fs ?fc s] =>
      pose proof (calc_r_rm_64f_shape c i s Hwf HI Hn K0 H0 Hs1 op fs fc) as SH end.
    destruct (read_op i 1 64 s) as [sv|]; [|exact SH]. destruct SH as [Hsv SH].
    rewrite (SH _ 0 eq_refl eq_refl).
    change (Z.lor (Z.lor (Z.lor FLAG_SF FLAG_ZF) FLAG_PF) 0) with (arith_fs false false).
    change (Z.lor FLAG_OF FLAG_CF) with 2049.
    rewrite (bind_ok _ _ _ _ _ (set_flags_u64_arith c false false _ s Hrf64)).
    change (Z.land (Z.lor (Z.lor FLAG_SF FLAG_ZF) FLAG_PF) NO_WRITEBACK =? 0) with true. cbv iota.
    rewrite (reg_write_64_ok c _ _ _ H0).
    cbn [alu b2f]. unfold write_op. rewrite K0. cbn [opt_done]. split; reflexivity.
  Qed.
End Forms.

(* ---- the helper without operation flags: XOR, CMOVcc, MOV ---- *)
Section RRm64NoFlags.
  Variables (c : cfg) (i : instr) (s : mstate).
  Hypothesis Hwf : wf_regs s.
  Hypothesis HI : Inv (mem s).
  Hypothesis Hn : i_op_count i = 2.
  Hypothesis K0 : i_op_kind i 0 = OK_Register.
  Hypothesis H0 : is_gpr64 (i_op_register i 0) = true.
  Hypothesis Hs1 : rm64_shape i 1.

  Let r0 := i_op_register i 0.
  Let d := rf_read (regs s) r0.

  Lemma calc_r_rm_64_shape (op : Z -> Z -> outcome Z) fset fclear :
    match read_op i 1 64 s with
    | Some sv =>
        0 <= sv < 2 ^ 64 /\
        forall res, op d sv = Ok res ->
          calculate_r_rm_64 c i op fset fclear s =
          bind (set_flags_u64 c fset fclear res)
               (fun _ => if Z.land fset NO_WRITEBACK =? 0 then reg_write_64 c r0 res else ret tt) s
    | None => exists e, calculate_r_rm_64 c i op fset fclear s = (Err e, s)
    end.
  Proof.
    destruct (operands_2_r_rm c i s Hwf HI Hn K0 H0 Hs1) as (o1 & OP & SRC). fold r0 in OP.
    assert (TR : lift (operand_to_reg (OpRegister r0)) s = (Ok r0, s)) by reflexivity.
    pose proof (reg_read_64_ok c r0 s Hwf H0) as RD. fold d in RD.
    unfold calculate_r_rm_64.
    destruct (read_op i 1 64 s) as [sv|].
    - destruct SRC as [Hsv SRC]. split; [exact Hsv|]. intros res Hop.
      rewrite (bind_ok _ _ _ _ _ OP). cbv beta iota.
      assert (RS : (match o1 with
                    | OpMemory v_m => bind (mem_addr c v_m) (fun t1_v => mem_read_64 t1_v)
                    | OpRegister v_r => reg_read_64 c v_r
                    | _ => fail EFatal end) s = (Ok sv, s)).
      { destruct SRC as [(r1 & -> & R1)|(m & -> & EA & R1)]; [exact R1|]. rewrite (bind_ok _ _ _ _ _ EA). exact R1. }
      rewrite (bind_ok _ _ _ _ _ RS).
      rewrite (bind_ok _ _ _ _ _ TR). rewrite (bind_ok _ _ _ _ _ RD). rewrite Hop.
      rewrite (bind_ok _ _ _ _ _ (eq_refl : lift (Ok res) s = _)).
      unfold bind at 1. unfold bind at 3.
      destruct (set_flags_u64 c fset fclear res s) as [[[]|e|p|] s1]; try reflexivity.
      destruct (Z.land fset NO_WRITEBACK =? 0).
      + rewrite ?bind_assoc. unfold bind. destruct (reg_write_64 c r0 res s1) as [[[]|e|p|] s2]; reflexivity.
      + reflexivity.
    - destruct SRC as (m & e & -> & EA & R1). exists e.
      rewrite (bind_ok _ _ _ _ _ OP). cbv beta iota.
      rewrite ?bind_assoc. rewrite (bind_ok _ _ _ _ _ EA). rewrite (bind_err _ _ _ _ _ R1). reflexivity.
  Qed.
End RRm64NoFlags.

From AxG Require Import I_cmovae I_cmove I_cmovne I_mov.

Section FormsNoFlags.
  Variables (c : cfg) (i : instr) (s : mstate).
  Hypothesis Hwf : wf_regs s.
  Hypothesis HI : Inv (mem s).
  Hypothesis Hrf : 0 <= rflags s < 2 ^ 64.
  Hypothesis Hn : i_op_count i = 2.
  Hypothesis K0 : i_op_kind i 0 = OK_Register.
  Hypothesis H0 : is_gpr64 (i_op_register i 0) = true.
  Hypothesis Hs1 : rm64_shape i 1.

  Definition refines (sm : sem) (run : outcome unit * mstate) : Prop :=
    match isa_exec sm i s with
    | IDone s' u => run = (Ok tt, s') /\ u = 0
    | IFault FMem => exists e, run = (Err e, s)
    | IFault _ => False
    end.

  Theorem xor_r64_rm64_refines : i_code i = C_Xor_r64_rm64 -> refines (SAlu XOR 64) (instr_xor_r64_rm64 c i s).
  Proof.
    intros Ec. unfold refines, instr_xor_r64_rm64. rewrite Ec.
    rewrite (bind_ok _ _ _ _ _ (dbg_code_ok c s _ eq_refl)).
    cbn [isa_exec]. unfold exec_alu. unfold read_op at 1. rewrite K0. rewrite rf_read_mod64 by exact H0.
    match goal with |- context [calculate_r_rm_64 c i ?op ?fs ?fc s] =>
      pose proof (calc_r_rm_64_shape c i s Hwf HI Hn K0 H0 Hs1 op fs fc) as SH end.
    destruct (read_op i 1 64 s) as [sv|]; [|exact SH]. destruct SH as [Hsv SH].
    rewrite (SH _ eq_refl).
    change (Z.lor (Z.lor FLAG_ZF FLAG_SF) FLAG_PF) with (arith_fs false false).
    change (Z.lor FLAG_OF FLAG_CF) with 2049.
    rewrite (bind_ok _ _ _ _ _ (set_flags_u64_arith c false false _ s Hrf)).
    change (Z.land (arith_fs false false) NO_WRITEBACK =? 0) with true. cbv iota.
    rewrite (reg_write_64_ok c _ _ _ H0).
    cbn [alu b2f]. unfold write_op. rewrite K0. cbn [opt_done]. split; reflexivity.
  Qed.

  (* MOV r64, r/m64 - register or memory source *)
  Theorem mov_r64_rm64_refines : i_code i = C_Mov_r64_rm64 -> refines (SMov 64) (instr_mov_r64_rm64 c i s).
  Proof.
    intros Ec. unfold refines, instr_mov_r64_rm64. rewrite Ec.
    rewrite (bind_ok _ _ _ _ _ (dbg_code_ok c s _ eq_refl)).
    cbn [isa_exec].
    match goal with |- context [calculate_r_rm_64 c i ?op ?fs ?fc s] =>
      pose proof (calc_r_rm_64_shape c i s Hwf HI Hn K0 H0 Hs1 op fs fc) as SH end.
    destruct (read_op i 1 64 s) as [sv|]; [|exact SH]. destruct SH as [Hsv SH].
    rewrite (SH _ eq_refl). rewrite (bind_ok _ _ _ _ _ (set_flags_unaffected c _ s)).
    change (Z.land FLAGS_UNAFFECTED NO_WRITEBACK =? 0) with true. cbv iota.
    rewrite (reg_write_64_ok c _ _ _ H0).
    unfold write_op. rewrite K0. cbn [opt_done]. split; reflexivity.
  Qed.

  (* the moffs encoding (A0..A3: accumulator and an absolute address): the same helper call *)
  Theorem mov_rax_moffs64_refines : i_code i = C_Mov_RAX_moffs64 -> refines (SMov 64) (instr_mov_rax_moffs64 c i s).
  Proof.
    intros Ec. unfold refines, instr_mov_rax_moffs64. rewrite Ec.
    rewrite (bind_ok _ _ _ _ _ (dbg_code_ok c s _ eq_refl)).
    cbn [isa_exec].
    match goal with |- context [calculate_r_rm_64 c i ?op ?fs ?fc s] =>
      pose proof (calc_r_rm_64_shape c i s Hwf HI Hn K0 H0 Hs1 op fs fc) as SH end.
    destruct (read_op i 1 64 s) as [sv|]; [|exact SH]. destruct SH as [Hsv SH].
    rewrite (SH _ eq_refl). rewrite (bind_ok _ _ _ _ _ (set_flags_unaffected c _ s)).
    change (Z.land FLAGS_UNAFFECTED NO_WRITEBACK =? 0) with true. cbv iota.
    rewrite (reg_write_64_ok c _ _ _ H0).
    unfold write_op. rewrite K0. cbn [opt_done]. split; reflexivity.
  Qed.

  (* CMOVcc r64, r/m64: the source is read (and may fault) whether or not the condition holds *)
  Lemma cmov_generic (b : bool) :
    match read_op i 1 64 s with
    | Some v => calculate_r_rm_64 c i (fun v_d v_s => Ok (if b then v_s else v_d)) FLAGS_UNAFFECTED 0 s
                = (Ok tt, write_reg s (i_op_register i 0) (if b then v else rf_read (regs s) (i_op_register i 0)))
    | None => exists e, calculate_r_rm_64 c i (fun v_d v_s => Ok (if b then v_s else v_d)) FLAGS_UNAFFECTED 0 s = (Err e, s)
    end.
  Proof.
    pose proof (calc_r_rm_64_shape c i s Hwf HI Hn K0 H0 Hs1 (fun v_d v_s => Ok (if b then v_s else v_d)) FLAGS_UNAFFECTED 0) as SH.
    destruct (read_op i 1 64 s) as [sv|]; [|exact SH]. destruct SH as [Hsv SH].
    rewrite (SH _ eq_refl). rewrite (bind_ok _ _ _ _ _ (set_flags_unaffected c _ s)).
    change (Z.land FLAGS_UNAFFECTED NO_WRITEBACK =? 0) with true. cbv iota.
    rewrite (reg_write_64_ok c _ _ _ H0). reflexivity.
  Qed.

  Lemma cmov_finish (cc0 : cc) (b : bool) run :
    cond cc0 (rflags s) = b ->
    run = calculate_r_rm_64 c i (fun v_d v_s => Ok (if b then v_s else v_d)) FLAGS_UNAFFECTED 0 s ->
    refines (SCmov cc0 64) run.
  Proof.
    intros Hc ->. unfold refines. cbn [isa_exec]. pose proof (cmov_generic b) as G.
    destruct (read_op i 1 64 s) as [v|]; [|exact G].
    rewrite G. rewrite Hc. rewrite rf_read_mod64 by exact H0. split; reflexivity.
  Qed.

  Theorem cmovae_r64_rm64_refines : i_code i = C_Cmovae_r64_rm64 -> refines (SCmov CC_AE 64) (instr_cmovae_r64_rm64 c i s).
  Proof.
    intros Ec. apply (cmov_finish CC_AE (Z.land (rflags s) FLAG_CF =? 0)).
    - unfold cond, flag. change FLAG_CF with CF. apply negb_involutive.
    - unfold instr_cmovae_r64_rm64. rewrite Ec. rewrite (bind_ok _ _ _ _ _ (dbg_code_ok c s _ eq_refl)). reflexivity.
  Qed.

  Theorem cmove_r64_rm64_refines : i_code i = C_Cmove_r64_rm64 -> refines (SCmov CC_E 64) (instr_cmove_r64_rm64 c i s).
  Proof.
    intros Ec. apply (cmov_finish CC_E (negb (Z.land (rflags s) FLAG_ZF =? 0))).
    - reflexivity.
    - unfold instr_cmove_r64_rm64. rewrite Ec. rewrite (bind_ok _ _ _ _ _ (dbg_code_ok c s _ eq_refl)). reflexivity.
  Qed.

  Theorem cmovne_r64_rm64_refines : i_code i = C_Cmovne_r64_rm64 -> refines (SCmov CC_NE 64) (instr_cmovne_r64_rm64 c i s).
  Proof.
    intros Ec. apply (cmov_finish CC_NE (Z.land (rflags s) FLAG_ZF =? 0)).
    - unfold cond, flag. change FLAG_ZF with ZF. apply negb_involutive.
    - unfold instr_cmovne_r64_rm64. rewrite Ec. rewrite (bind_ok _ _ _ _ _ (dbg_code_ok c s _ eq_refl)). reflexivity.
  Qed.
End FormsNoFlags.
