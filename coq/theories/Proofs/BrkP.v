(* C13: the built-in brk handler gives the guest a conventional program break. *)
From Coq Require Import ZArith Bool List Lia.
From AxV Require Import Bits Outcome Codes Iced State Rt Mem Exec Sys BitsP ListP ByteStore MemP LayoutP SysP.
Local Open Scope Z_scope.
Import ListNotations.

(* once initialised, the heap is the (last) area that starts at brk_start, it is
   brk_length long and readable + writable *)
Definition HeapInv (s : mstate) : Prop :=
  sy_brk_start (sys s) <> 0 ->
  exists k a, nth_error (mem s) k = Some a /\ a_start a = sy_brk_start (sys s) /\
              a_len a = sy_brk_len (sys s) /\ a_access a = 3 /\
              (forall j b, (k < j)%nat -> nth_error (mem s) j = Some b -> a_start b <> sy_brk_start (sys s)).

(* every byte between the heap base and the break is readable and writable *)
Theorem heap_accessible s a n :
  Inv (mem s) -> HeapInv s -> sy_brk_start (sys s) <> 0 ->
  sy_brk_start (sys s) <= a -> 0 < n -> a + n <= sy_brk_start (sys s) + sy_brk_len (sys s) ->
  accessible (mem s) a n PROT_READ /\ accessible (mem s) a n PROT_WRITE.
Proof.
  intros HI HH Hne Ha Hn Hend. destruct (HH Hne) as (k & ar & Hk & Hs & Hl & Hacc & _).
  assert (Hin : In ar (mem s)) by (eapply nth_error_In; eauto).
  assert (Hown : owner (mem s) a = Some ar).
  { apply owner_unique; auto. apply contains_range. lia. }
  split; exists ar; (split; [exact Hown|]); (split; [lia|]); rewrite Hacc; cbn; discriminate.
Qed.

(* brk(p) for p below the heap base (in particular brk(0)): returns the current break *)
Theorem brk_query fuel c s :
  regs s RAX = SYS_BRK -> sy_brk_start (sys s) <> 0 -> regs s RDI < sy_brk_start (sys s) ->
  0 <= sy_brk_start (sys s) -> 0 <= sy_brk_len (sys s) -> sy_brk_start (sys s) + sy_brk_len (sys s) < 2 ^ 64 ->
  hook_brk fuel c s = (Ok Handled, set_reg s RAX (sy_brk_start (sys s) + sy_brk_len (sys s))).
Proof.
  intros Hrax Hne Hlt H0 H1 H2. unfold hook_brk. rewrite Hrax. cbn [Z.eqb Pos.eqb negb SYS_BRK].
  destruct (Z.eqb_spec (sy_brk_start (sys s)) 0); [contradiction|].
  rewrite (proj2 (Z.ltb_lt _ _) Hlt).
  unfold add_chk.
  assert (R : in_range U64 (sem U64 (sy_brk_start (sys s)) + sem U64 (sy_brk_len (sys s))) = true).
  { unfold in_range, sem, modulus; cbn [signed width]. apply andb_true_iff. split; [apply Z.leb_le|apply Z.ltb_lt]; lia. }
  assert (W : wadd U64 (sy_brk_start (sys s)) (sy_brk_len (sys s)) = sy_brk_start (sys s) + sy_brk_len (sys s)).
  { unfold wadd. apply enc_small. unfold modulus; cbn [width]. lia. }
  destruct (ovf c); rewrite ?R, W; reflexivity.
Qed.

(* brk(p) for p at or above the base: the heap area is resized to p - base *)
Definition brk_moved (s s' : mstate) (p : Z) : Prop :=
  let start := sy_brk_start (sys s) in
  regs s' RAX = p /\ sy_brk_start (sys s') = start /\ sy_brk_len (sys s') = p - start /\
  Inv (mem s') /\ HeapInv s' /\
  (* the heap area keeps its prefix (what the guest wrote below the smaller of the two
     breaks), growth reads as zero, its permissions are unchanged; nothing else moves *)
  (exists k a, nth_error (mem s) k = Some a /\ a_start a = start /\ a_len a = sy_brk_len (sys s) /\
               mem s' = replace_nth (mem s) k (resized a (p - start))).

Lemma replace_nth_other {A} (l : list A) k x j : j <> k -> nth_error (replace_nth l k x) j = nth_error l j.
Proof.
  revert k j. induction l as [|y l IH]; intros k j Hne; [destruct k; reflexivity|].
  destruct k as [|k]; destruct j as [|j]; cbn; try reflexivity; try lia. apply IH. lia.
Qed.

Theorem brk_move fuel c s :
  Inv (mem s) -> HeapInv s ->
  regs s RAX = SYS_BRK -> sy_brk_start (sys s) <> 0 ->
  sy_brk_start (sys s) <= regs s RDI -> regs s RDI - sy_brk_start (sys s) <= alloc_limit ->
  0 <= sy_brk_start (sys s) -> regs s RDI < 2 ^ 64 ->
  match hook_brk fuel c s with
  | (Ok Handled, s') => brk_moved s s' (regs s RDI)
  | (Err _, s') => s' = s      (* the new extent would collide with another area *)
  | _ => False
  end.
Proof.
  intros HI HH Hrax Hne Hle Hlim Hs0 Hp.
  set (start := sy_brk_start (sys s)) in *. set (p := regs s RDI) in *.
  assert (Hres := resize_spec start (p - start) s HI ltac:(lia)).
  assert (R : in_range U64 (sem U64 p - sem U64 start) = true).
  { unfold in_range, sem, modulus; cbn [signed width]. apply andb_true_iff. split; [apply Z.leb_le|apply Z.ltb_lt]; lia. }
  assert (W : wsub U64 p start = p - start) by (unfold wsub; apply enc_small; unfold modulus; cbn [width]; lia).
  assert (R2 : in_range U64 (sem U64 start + sem U64 (p - start)) = true).
  { unfold in_range, sem, modulus; cbn [signed width]. apply andb_true_iff. split; [apply Z.leb_le|apply Z.ltb_lt]; lia. }
  assert (W2 : wadd U64 start (p - start) = p) by (unfold wadd; rewrite enc_small; [ring|unfold modulus; cbn [width]; lia]).
  assert (Hsub : sub_chk c U64 p start = Ok (p - start)) by (unfold sub_chk; destruct (ovf c); rewrite ?R, W; reflexivity).
  assert (Hadd : add_chk c U64 start (p - start) = Ok p) by (unfold add_chk; destruct (ovf c); rewrite ?R2, W2; reflexivity).
  unfold hook_brk. rewrite Hrax. cbn [Z.eqb Pos.eqb negb SYS_BRK].
  subst start p.
  destruct (Z.eqb_spec (sy_brk_start (sys s)) 0); [contradiction|].
  destruct (Z.ltb_spec (regs s RDI) (sy_brk_start (sys s))); [lia|]. rewrite Hsub.
  set (start := sy_brk_start (sys s)) in *. set (p := regs s RDI) in *.
  destruct (mem_resize_section start (p - start) s) as [[u|e|pp|] s2]; try contradiction; [|exact Hres].
  destruct Hres as (k & a & Hk & Hst & Hlast & Hno & Hm & Hs2 & HI2).
  assert (Hsys2 : sys s2 = sys s) by (rewrite Hs2; reflexivity).
  assert (Hstart2 : sy_brk_start (sys s2) = start) by (rewrite Hsys2; reflexivity).
  rewrite Hadd.
  destruct (HH Hne) as (k0 & a0 & Hk0 & Hs0' & Hl0 & Hacc0 & Hlast0). fold start in Hs0', Hlast0.
  assert (Hkk : k = k0).
  { destruct (Nat.lt_trichotomy k k0) as [Hlt|[Heq|Hgt]]; [|exact Heq|].
    - exfalso. apply (Hlast k0 a0 Hlt Hk0). exact Hs0'.
    - exfalso. apply (Hlast0 k a Hgt Hk). exact Hst. }
  subst k0. rewrite Hk in Hk0. inversion Hk0; subst a0.
  assert (Hklt : (k < length (mem s))%nat) by (apply nth_error_Some; congruence).
  unfold brk_moved. fold start.
  cbn [regs set_reg set_regs sys upd_sys set_sys sys_set_brk sy_brk_start sy_brk_len mem].
  split; [apply upd_same0|]. split; [reflexivity|]. split; [reflexivity|]. split; [exact HI2|].
  split.
  - unfold HeapInv. cbn [regs set_reg set_regs sys upd_sys set_sys sys_set_brk sy_brk_start sy_brk_len mem].
    intros _. exists k, (resized a (p - start)).
    split; [rewrite Hm; rewrite replace_nth_nth by exact Hklt; rewrite Nat.eqb_refl; reflexivity|].
    split; [exact Hst|]. split; [reflexivity|]. split; [exact Hacc0|].
    intros j b Hj Hb. rewrite Hm in Hb. rewrite replace_nth_other in Hb by lia. eapply Hlast0; eauto.
  - exists k, a. auto.
Qed.

(* what survives a move of the break: the common prefix; growth is zero-filled *)
Theorem resized_contents a n i :
  zlen (a_data a) = a_len a -> 0 <= n -> 0 <= i < n ->
  nth_error (a_data (resized a n)) (Z.to_nat i) =
  if i <? Z.min (a_len a) n then nth_error (a_data a) (Z.to_nat i) else Some 0.
Proof.
  intros Hl Hn Hi. unfold resized. cbn [a_data]. rewrite Hl.
  destruct (Z.ltb_spec i (Z.min (a_len a) n)) as [Hlt|Hge].
  - rewrite nth_error_app1 by (rewrite firstn_length; unfold zlen in Hl; lia).
    apply nth_error_firstn. lia.
  - rewrite nth_error_app2 by (rewrite firstn_length; unfold zlen in Hl; lia).
    unfold zeros. rewrite firstn_length. apply nth_error_repeat.
    unfold zlen in Hl. lia.
Qed.

(* the very first brk call creates the heap: one fresh zeroed page, readable and writable *)
Theorem brk_first_call c s :
  Inv (mem s) -> regs s RAX = SYS_BRK -> sy_brk_start (sys s) = 0 -> regs s RDI = 0 ->
  exists fuel0, forall fuel, (fuel0 <= fuel)%nat ->
    match hook_brk fuel c s with
    | (Ok Handled, s') =>
        sy_brk_start (sys s') <> 0 /\ sy_brk_len (sys s') = 4096 /\
        regs s' RAX = sy_brk_start (sys s') + 4096 /\ Inv (mem s') /\ HeapInv s' /\
        mem s' = mem s ++ [new_area (sy_brk_start (sys s')) (zeros 4096)]
    | (Ok Unhandled, _) => False
    | (Err _, s') => s' = s
    | (Panic _, s') => ovf c = true
    | (Fuel, _) => False
    end.
Proof.
  intros HI Hrax H0 Hrdi.
  assert (Hal : 0 <= 4096 <= alloc_limit) by (unfold alloc_limit; split; [lia|]; apply Z.leb_le; reflexivity).
  destruct (init_zero_anywhere_spec c 4096 s HI Hal) as [fuel0 Hf].
  exists fuel0. intros fuel Hfuel. specialize (Hf fuel Hfuel).
  unfold hook_brk. rewrite Hrax. cbn [Z.eqb Pos.eqb negb SYS_BRK]. rewrite H0. cbn [Z.eqb].
  destruct (mem_init_zero_anywhere fuel c 4096 s) as [[r|e|p|] s1]; try contradiction; try exact Hf.
  2: { destruct Hf as [_ Ho]. exact Ho. }
  destruct Hf as (Hr & Hm & Hs1 & HI1 & Hno).
  cbn [sys upd_sys set_sys sys_set_brk sy_brk_start sy_brk_len]. rewrite Hrdi.
  destruct (Z.ltb_spec 0 r); [|lia].
  assert (Hok : area_ok (new_area r (zeros 4096))).
  { destruct HI1 as [Hall _]. rewrite Hm in Hall. apply Forall_app in Hall. destruct Hall as [_ Hl]. inversion Hl; assumption. }
  destruct Hok as (_ & _ & Hend & _). unfold new_area in Hend; cbn [a_start a_len] in Hend. rewrite zlen_zeros in Hend by lia.
  change (2 ^ 64) with 18446744073709551616 in *.
  unfold add_chk.
  assert (R : in_range U64 (sem U64 r + sem U64 4096) = true).
  { unfold in_range, sem, modulus; cbn [signed width]. apply andb_true_iff. split; [apply Z.leb_le|apply Z.ltb_lt]; lia. }
  assert (W : wadd U64 r 4096 = r + 4096) by (unfold wadd; apply enc_small; unfold modulus; cbn [width]; lia).
  destruct (ovf c); rewrite ?R, W.
  all: cbn [regs set_reg set_regs sys upd_sys set_sys sys_set_brk sy_brk_start sy_brk_len mem].
  all: split; [lia|]; split; [reflexivity|]; split; [apply upd_same0|]; split; [exact HI1|]; split; [|exact Hm].
  all: unfold HeapInv; cbn [regs set_reg set_regs sys upd_sys set_sys sys_set_brk sy_brk_start sy_brk_len mem]; intros _.
  all: exists (length (mem s)), (new_area r (zeros 4096)); rewrite Hm.
  all: split; [rewrite nth_error_app2 by lia; rewrite Nat.sub_diag; reflexivity|].
  all: split; [reflexivity|]; split; [cbn; reflexivity|]; split; [reflexivity|].
  all: intros j b Hj Hb; exfalso; assert (nth_error (mem s ++ [new_area r (zeros 4096)]) j = None)
         by (apply nth_error_None; rewrite app_length; cbn; lia); congruence.
Qed.
