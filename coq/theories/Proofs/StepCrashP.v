(* C19 at the level of Axecutor::step (hand model Exec.v, tied to the code by the `exec`
   correspondence): what each stage of a step can return.  Undecodable bytes, unfetchable code,
   unsupported mnemonics and unimplemented forms are error VALUES; and the only ways a step can
   panic are (a) a panic inside the instruction function, (b) a panic inside a user hook, or (c) the
   instruction counter overflowing a u64 in an overflow-checked build. *)
From Coq Require Import ZArith Bool List Lia.
From AxV Require Import Bits Outcome Codes Iced State Rt Mem Exec ByteStore ListP MemP ExecP NoCrashP.
From AxG Require Import Dispatch Unimpl.
Local Open Scope Z_scope.

(* the code fetch: bytes or an error; never a panic *)
Lemma fetch_never_panics a s :
  Inv (mem s) ->
  (exists l, mem_read_executable_bytes a s = (Ok l, s)) \/ (exists e, mem_read_executable_bytes a s = (Err e, s)).
Proof.
  intros HI. unfold mem_read_executable_bytes.
  destruct (find_area (mem s) a) as [ar|] eqn:F; [|right; eexists; reflexivity].
  destruct (find_area_some _ _ _ F) as [Hin Hc]. apply contains_range in Hc.
  destruct (inv_area_ok _ _ HI Hin) as (H0 & H1 & H2 & H3 & H4).
  destruct (Z.land (a_access ar) PROT_EXEC =? 0); [right; eexists; reflexivity|].
  destruct (Z.leb_spec (a - a_start ar) (Z.min (a - a_start ar + 15) (zlen (a_data ar)))); [left; eexists; reflexivity|lia].
Qed.

Lemma supported_no_crash c m s : no_crash (fst (supported_mnemonic_try_from c m s)).
Proof. destruct m; exact I. Qed.

Lemma supported_pure c m s : snd (supported_mnemonic_try_from c m s) = s.
Proof. destruct m; reflexivity. Qed.

Definition hook_no_crash (f : hookfn) : Prop := forall s, no_crash (fst (f s)).

Lemma run_functions_no_crash fs s : Forall hook_no_crash fs -> no_crash (fst (run_functions fs s)).
Proof.
  intros H. unfold run_functions. generalize (set_hooks_running s true). clear s.
  induction H as [|f fs Hf Hfs IH]; intros s; cbn; [exact I|].
  specialize (Hf s). destruct (f s) as [[res|e|p|] s1]; cbn in Hf; try contradiction; [|exact I].
  destruct (finished s1 || match res with Handled => true | Unhandled => false end); [exact I|apply IH].
Qed.

Section Step.
  Variable decode : Z -> list Z -> option instr.
  Variable dispatch : cfg -> instr -> MM unit.
  Variable c : cfg.
  Notation step := (Exec.step decode dispatch supported_mnemonic_try_from).

  Definition env_no_crash (env : hookenv) : Prop :=
    forall m h, env m = Some h -> Forall hook_no_crash (h_before h) /\ Forall hook_no_crash (h_after h).

  (* undecodable bytes are an error value *)
  Theorem step_undecodable env s bytes :
    finished s = false ->
    (match max_instr s with Some limit => limit <=? icount s | None => false end) = false ->
    mem_read_executable_bytes (regs s RIP) s = (Ok bytes, s) ->
    decode (regs s RIP) bytes = None ->
    step c env s = (Err EDecode, s).
  Proof. intros Hf Hl Hb Hd. unfold Exec.step, decode_at. rewrite Hf, Hl, Hb, Hd. reflexivity. Qed.

  (* code that cannot be fetched (unmapped, not executable) is an error value *)
  Theorem step_unfetchable env s e :
    finished s = false ->
    (match max_instr s with Some limit => limit <=? icount s | None => false end) = false ->
    mem_read_executable_bytes (regs s RIP) s = (Err e, s) ->
    step c env s = (Err e, s).
  Proof. intros Hf Hl Hb. unfold Exec.step, decode_at. rewrite Hf, Hl, Hb. reflexivity. Qed.

  (* a mnemonic outside the supported set is an error value (nothing but RIP has changed) *)
  Theorem step_unsupported env s bytes i e :
    finished s = false ->
    (match max_instr s with Some limit => limit <=? icount s | None => false end) = false ->
    mem_read_executable_bytes (regs s RIP) s = (Ok bytes, s) ->
    decode (regs s RIP) bytes = Some i ->
    fst (supported_mnemonic_try_from c (i_mnemonic i) (entered s i)) = Err e ->
    step c env s = (Err e, entered s i).
  Proof.
    intros Hf Hl Hb Hd Hs. unfold Exec.step, decode_at. rewrite Hf, Hl, Hb, Hd. fold (entered s i).
    pose proof (supported_pure c (i_mnemonic i) (entered s i)) as Hp.
    destruct (supported_mnemonic_try_from c (i_mnemonic i) (entered s i)) as [r s3]. cbn in Hs, Hp. subst r s3. reflexivity.
  Qed.

  (* the sources of a crash: with a crash-free instruction function, crash-free hooks and an
     instruction counter that cannot overflow, a step returns Ok or Err *)
  Theorem step_no_crash env s :
    Inv (mem s) ->
    (forall i s', no_crash (fst (dispatch c i s'))) ->
    env_no_crash env ->
    (forall i s', 0 <= icount (snd (dispatch c i s')) < 2 ^ 64 - 1) ->
    no_crash (fst (step c env s)).
  Proof.
    intros HI Hd He Hcnt. unfold Exec.step.
    destruct (finished s); [exact I|].
    destruct (match max_instr s with Some limit => limit <=? icount s | None => false end); [exact I|].
    unfold decode_at.
    destruct (fetch_never_panics (regs s RIP) s HI) as [(l & E)|(e & E)]; rewrite E; [|exact I].
    destruct (decode (regs s RIP) l) as [i|]; [|exact I].
    set (s2 := set_regs s (upd (regs s) RIP (i_next_ip i))).
    pose proof (supported_no_crash c (i_mnemonic i) s2) as Hs.
    destruct (supported_mnemonic_try_from c (i_mnemonic i) s2) as [[m|e|p|] s3]; cbn in Hs; try contradiction; [|exact I].
    assert (Hb : forall st, no_crash (fst (match env m with Some h => run_functions (h_before h) st | None => (Ok tt, st) end))).
    { intros st. destruct (env m) as [h|] eqn:Em; [|exact I]. apply run_functions_no_crash. exact (proj1 (He m h Em)). }
    assert (Ha : forall st, no_crash (fst (match env m with Some h => run_functions (h_after h) st | None => (Ok tt, st) end))).
    { intros st. destruct (env m) as [h|] eqn:Em; [|exact I]. apply run_functions_no_crash. exact (proj2 (He m h Em)). }
    assert (Tail : forall s5, 0 <= icount s5 < 2 ^ 64 - 1 ->
      no_crash (fst (match add_chk c U64 (icount s5) 1 with
                     | Ok n =>
                         let s6 := set_icount s5 n in
                         let s7 := if regs s6 RIP =? code_end s6 then set_finished s6 true else s6 in
                         match (match env m with Some h => run_functions (h_after h) s7 | None => (Ok tt, s7) end) with
                         | (Ok _, s8) => (Ok (negb (finished s8)), s8)
                         | (Err e, s8) => (Err e, s8)
                         | (Panic p, s8) => (Panic p, s8)
                         | (Fuel, s8) => (Fuel, s8)
                         end
                     | Err e => (Err e, s5) | Panic p => (Panic p, s5) | Fuel => (Fuel, s5)
                     end))).
    { intros s5 H5.
      assert (A : add_chk c U64 (icount s5) 1 = Ok (wadd U64 (icount s5) 1)).
      { unfold add_chk. destruct (ovf c); [|reflexivity].
        unfold in_range, sem; cbn [signed]. unfold modulus; cbn [width].
        change (2 ^ 64) with 18446744073709551616 in *.
        destruct (Z.leb_spec 0 (icount s5 + 1)); destruct (Z.ltb_spec (icount s5 + 1) 18446744073709551616); cbn [andb]; try reflexivity; lia. }
      rewrite A. cbv zeta.
      match goal with |- context [match env m with Some h => run_functions (h_after h) ?st | None => (Ok tt, ?st) end] =>
        specialize (Ha st);
        destruct (match env m with Some h => run_functions (h_after h) st | None => (Ok tt, st) end) as [[[]|e|p|] s8] end;
        cbn in Ha; try contradiction; exact I. }
    specialize (Hb s3).
    destruct (match env m with Some h => run_functions (h_before h) s3 | None => (Ok tt, s3) end) as [[[]|e|p|] s4];
      cbn in Hb; try contradiction; [|exact I].
    specialize (Hd i s4). specialize (Hcnt i s4).
    destruct (dispatch c i s4) as [[[]|e|p|] s5]; cbn in Hd, Hcnt; try contradiction.
    - apply Tail. exact Hcnt.
    - destruct e; try exact I. apply (Tail (set_finished s5 true)). exact Hcnt.
  Qed.
End Step.

(* the generated dispatcher on a stubbed form, through the whole step: an error value, nothing but
   RIP changed *)
Theorem step_unimplemented decode c env s bytes i :
  finished s = false ->
  (match max_instr s with Some limit => limit <=? icount s | None => false end) = false ->
  mem_read_executable_bytes (regs s RIP) s = (Ok bytes, s) ->
  decode (regs s RIP) bytes = Some i ->
  In (i_mnemonic i, i_code i) unimpl_forms ->
  env (i_mnemonic i) = None ->
  Exec.step decode switch_instruction_mnemonic supported_mnemonic_try_from c env s = (Err EUnimpl, entered s i).
Proof.
  intros Hf Hl Hb Hd Hin Hnone.
  assert (Hs : supported_mnemonic_try_from c (i_mnemonic i) (entered s i) = (Ok (i_mnemonic i), entered s i)).
  { revert Hin. unfold unimpl_forms.
    generalize (i_code i). intros cd Hin.
    destruct (i_mnemonic i) eqn:Em; try reflexivity;
      exfalso; repeat (destruct Hin as [Hin|Hin]; [discriminate Hin|]); exact Hin. }
  unfold Exec.step, decode_at. rewrite Hf, Hl, Hb, Hd. fold (entered s i). rewrite Hs. rewrite Hnone.
  rewrite (unimpl_forms_error c i (entered s i) Hin). reflexivity.
Qed.
