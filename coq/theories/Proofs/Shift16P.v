(* C01/C02: SHL / SHR r/m16 by CL and by imm8 (register or memory destination) against the ISA specification.
   The count is masked to five bits, so it can reach and exceed the operand width: the result is then 0 and the
   carry is the last bit shifted out (count = width) or 0 (count > width), which is what the specification
   computes as well.  The helper part is Shift32P.v at half the width (textual transformation, checked by Coq). *)
From Coq Require Import ZArith Bool List Lia.
From AxV Require Import Bits Outcome Codes Iced State Rt Mem Trace BitsP ByteStore MemP RegFile RegsP ISA CodeSem ReadonlyTac
  OperandP FlagsP CfP MovP RmP AluP AluRmP AluMemP Alu32P AluImmP MovxP Alu16P ShiftP Shift32P.
From AxG Require Import Flags Regs Operand Helpers I_shl I_shr.
Local Open Scope Z_scope.
Ltac Zify.zify_post_hook ::= Z.div_mod_to_equations.

Lemma set_flags16_unaffected_any c fc v s : set_flags_u16 c FLAGS_UNAFFECTED fc v s = (Ok tt, s).
Proof. reflexivity. Qed.

Lemma shr16_small d k : 0 <= d < 2 ^ 16 -> 0 <= k < 16 -> checked_shr U16 d k = Some (d / 2 ^ k).
Proof.
  intros Hd Hk. unfold checked_shr. cbn [width]. destruct (Z.ltb_spec k 16); [|lia].
  unfold shr_raw, Bits.sem, enc, modulus; cbn [signed width]. f_equal. apply Z.mod_small.
  assert (P : 0 < 2 ^ k) by (apply Z.pow_pos_nonneg; lia).
  split; [apply Z.div_pos; lia|]. apply Z.le_lt_trans with d; [|lia]. apply Z.div_le_upper_bound; [exact P|]. nia.
Qed.

Definition shl16_op (c : cfg) (v_d v_s : Z) : outcome (Z * Z) :=
  (let v_count := (cast U8 U32 (Z.land v_s 31)) in
  (if (v_count =? 0) then (Ok ((v_d, FLAGS_UNAFFECTED))) else (let v_result := (match (checked_shl U16 v_d v_count) with Some x_ => x_ | None => 0 end) in
  t2_v <~ (if (v_count <=? 16) then (t1_v <~ (sub_chk c U32 16 v_count) ;;
  Ok ((negb ((Z.land (match (checked_shr U16 v_d t1_v) with Some x_ => x_ | None => 0 end) 1) =? 0)))) else (Ok (false))) ;;
  let v_cf := (if t2_v then FLAG_CF else 0) in
  let v_of := (if (negb (Bool.eqb (negb ((Z.land v_result 32768) =? 0)) (negb (v_cf =? 0)))) then FLAG_OF else 0) in
  Ok ((v_result, (Z.lor v_cf v_of))))))%out.

Definition shr16_op (c : cfg) (v_d v_s : Z) : outcome (Z * Z) :=
  (let v_count := (cast U8 U32 (Z.land v_s 31)) in
  (if (v_count =? 0) then (Ok ((v_d, FLAGS_UNAFFECTED))) else (let v_result := (match (checked_shr U16 v_d v_count) with Some x_ => x_ | None => 0 end) in
  t2_v <~ (if (v_count <=? 16) then (t1_v <~ (sub_chk c U32 v_count 1) ;;
  Ok ((negb ((Z.land (match (checked_shr U16 v_d t1_v) with Some x_ => x_ | None => 0 end) 1) =? 0)))) else (Ok (false))) ;;
  let v_cf := (if t2_v then FLAG_CF else 0) in
  let v_of := (if (negb ((Z.land v_d 32768) =? 0)) then FLAG_OF else 0) in
  Ok ((v_result, (Z.lor v_cf v_of))))))%out.

Lemma high_bits_zero16 d k : 0 <= d < 2 ^ 16 -> 16 <= k -> Z.testbit d k = false.
Proof.
  intros Hd Hk. destruct (Z.eq_dec d 0) as [->|N]; [apply Z.testbit_0_l|].
  apply Z.bits_above_log2; [lia|]. apply Z.lt_le_trans with 16; [|exact Hk]. apply Z.log2_lt_pow2; lia.
Qed.

Lemma shl_out16 d n : 16 <= n -> (d * 2 ^ n) mod 2 ^ 16 = 0.
Proof.
  intros H. replace n with ((n - 16) + 16) by lia. rewrite Z.pow_add_r by lia. rewrite Z.mul_assoc. apply Z.mod_mul. discriminate.
Qed.

Lemma shl16_op_spec c d v : 0 <= d < 2 ^ 16 -> 0 <= v ->
  shl16_op c d v =
  (let n := Z.land v 31 in
   if n =? 0 then Ok (d, FLAGS_UNAFFECTED)
   else let r := (d * 2 ^ n) mod 2 ^ 16 in let cf := Z.testbit d (16 - n) in
        Ok (r, Z.lor (b2f (xorb (msb 16 r) cf) FLAG_OF) (b2f cf FLAG_CF))).
Proof.
  intros Hd Hv. unfold shl16_op. cbv zeta. pose proof (land31_range v Hv) as Hn.
  rewrite (cast_u8_u32_small (Z.land v 31)) by lia. set (n := Z.land v 31) in *.
  destruct (Z.eqb_spec n 0) as [Zr|NZ]; [reflexivity|].
  destruct (Z_lt_le_dec n 16) as [Lt|Ge].
  - assert (L : (n <=? 16) = true) by (apply Z.leb_le; lia). rewrite L.
    rewrite (sub_small c 16 n) by lia. cbn [obind].
    assert (C1 : checked_shl U16 d n = Some ((d * 2 ^ n) mod 2 ^ 16)).
    { unfold checked_shl. cbn [width]. destruct (Z.ltb_spec n 16); [|lia]. reflexivity. }
    rewrite C1. rewrite (shr16_small d (16 - n) Hd ltac:(lia)).
    rewrite (testbit_div_land1 d (16 - n)) by lia. rewrite negb_involutive.
    set (r := (d * 2 ^ n) mod 2 ^ 16). set (cf := Z.testbit d (16 - n)).
    f_equal. f_equal. rewrite Z.lor_comm.
    change 32768 with (2 ^ 15). rewrite land_pow2_testbit by lia. rewrite negb_involutive.
    unfold msb. change (16 - 1) with 15. destruct (Z.testbit r 15), cf; reflexivity.
  - assert (C1 : checked_shl U16 d n = None).
    { unfold checked_shl. cbn [width]. destruct (Z.ltb_spec n 16); [lia|reflexivity]. }
    rewrite C1. rewrite (shl_out16 d n Ge).
    destruct (Z.eq_dec n 16) as [E16|N16].
    + rewrite E16. change (16 <=? 16) with true. cbv iota. rewrite (sub_small c 16 16) by lia. cbn [obind].
      change (16 - 16) with 0. rewrite (shr16_small d 0 Hd ltac:(lia)).
      rewrite (testbit_div_land1 d 0) by lia. rewrite negb_involutive.
      f_equal. f_equal. rewrite Z.lor_comm. unfold msb. rewrite Z.testbit_0_l.
      destruct (Z.testbit d 0); reflexivity.
    + assert (L : (n <=? 16) = false) by (apply Z.leb_gt; lia). rewrite L. cbn [obind].
      rewrite (Z.testbit_neg_r d (16 - n)) by lia. unfold msb. rewrite Z.testbit_0_l. reflexivity.
Qed.

Lemma shr16_op_spec c d v : 0 <= d < 2 ^ 16 -> 0 <= v ->
  shr16_op c d v =
  (let n := Z.land v 31 in
   if n =? 0 then Ok (d, FLAGS_UNAFFECTED)
   else let r := d / 2 ^ n in let cf := Z.testbit d (n - 1) in
        Ok (r, Z.lor (b2f (msb 16 d) FLAG_OF) (b2f cf FLAG_CF))).
Proof.
  intros Hd Hv. unfold shr16_op. cbv zeta. pose proof (land31_range v Hv) as Hn.
  rewrite (cast_u8_u32_small (Z.land v 31)) by lia. set (n := Z.land v 31) in *.
  destruct (Z.eqb_spec n 0) as [Zr|NZ]; [reflexivity|].
  assert (OFe : (if negb (Z.land d 32768 =? 0) then FLAG_OF else 0) = b2f (msb 16 d) FLAG_OF).
  { change 32768 with (2 ^ 15). rewrite land_pow2_testbit by lia. rewrite negb_involutive. unfold msb. change (16 - 1) with 15.
    destruct (Z.testbit d 15); reflexivity. }
  rewrite OFe.
  destruct (Z_lt_le_dec n 16) as [Lt|Ge].
  - assert (L : (n <=? 16) = true) by (apply Z.leb_le; lia). rewrite L.
    rewrite (sub_small c n 1) by lia. cbn [obind].
    rewrite (shr16_small d n Hd ltac:(lia)). rewrite (shr16_small d (n - 1) Hd ltac:(lia)).
    rewrite (testbit_div_land1 d (n - 1)) by lia. rewrite negb_involutive.
    f_equal. f_equal. rewrite Z.lor_comm. destruct (Z.testbit d (n - 1)); reflexivity.
  - assert (C1 : checked_shr U16 d n = None).
    { unfold checked_shr. cbn [width]. destruct (Z.ltb_spec n 16); [lia|reflexivity]. }
    rewrite C1.
    assert (R0 : d / 2 ^ n = 0).
    { apply Z.div_small. split; [lia|]. apply Z.lt_le_trans with (2 ^ 16); [lia|]. apply Z.pow_le_mono_r; lia. }
    rewrite R0.
    destruct (Z.eq_dec n 16) as [E16|N16].
    + rewrite E16. change (16 <=? 16) with true. cbv iota. rewrite (sub_small c 16 1) by lia. cbn [obind].
      change (16 - 1) with 15. rewrite (shr16_small d 15 Hd ltac:(lia)).
      rewrite (testbit_div_land1 d 15) by lia. rewrite negb_involutive.
      f_equal. f_equal. rewrite Z.lor_comm. destruct (Z.testbit d 15); reflexivity.
    + assert (L : (n <=? 16) = false) by (apply Z.leb_gt; lia). rewrite L. cbn [obind].
      rewrite (high_bits_zero16 d (n - 1) Hd ltac:(lia)). rewrite Z.lor_comm. reflexivity.
Qed.

Section Shift16Helpers.
  Variables (c : cfg) (i : instr) (s : mstate).
  Hypothesis Hwf : wf_regs s.
  Hypothesis HI : Inv (mem s).
  Hypothesis Hn : i_op_count i = 2.
  Hypothesis Hs0 : rm16_shape i 0.

  Definition shift_tail16 (op : Z -> Z -> outcome (Z * Z)) fset fclear (v : Z) (run : outcome unit * mstate) : Prop :=
    match read_op i 0 16 s with
    | Some d =>
        0 <= d < 2 ^ 16 /\
        forall res fl, op d v = Ok (res, fl) -> Z.land fl NO_WRITEBACK = 0 ->
          run = bind (set_flags_u16 c (Z.lor fset fl) fclear res)
                     (fun _ => if Z.land fset NO_WRITEBACK =? 0 then dest_write16 c i res else ret tt) s
    | None => exists e, run = (Err e, s)
    end.

  Lemma dest_part16 (op : Z -> Z -> outcome (Z * Z)) fset fclear v o0 :
    instruction_operand c i 0 s = (Ok o0, s) ->
    shift_tail16 op fset fclear v
      ((match o0 with
        | OpMemory v_m => ((t1_v <- (mem_addr c v_m) ;;
            v_dest_val <- (mem_read_16 t1_v) ;;
            '(v_result, v_flags) <- lift ((op (cast U64 U16 v_dest_val) v)) ;;
            _ <- lift ((debug_assert_that c ((Z.land v_flags NO_WRITEBACK) =? 0))) ;;
            _ <- (set_flags_u16 c (Z.lor fset v_flags) fclear v_result) ;;
            _ <- (if ((Z.land fset NO_WRITEBACK) =? 0) then (t2_v <- (mem_addr c v_m) ;;
            _ <- (mem_write_16 t2_v (cast U16 U64 v_result)) ;;
            ret (tt)) else (ret (tt))) ;;
            ret (tt)))
        | OpRegister v_r => ((v_dest_val <- (reg_read_16 c v_r) ;;
            '(v_result, v_flags) <- lift ((op (cast U64 U16 v_dest_val) v)) ;;
            _ <- lift ((debug_assert_that c ((Z.land v_flags NO_WRITEBACK) =? 0))) ;;
            _ <- (set_flags_u16 c (Z.lor fset v_flags) fclear v_result) ;;
            _ <- (if ((Z.land fset NO_WRITEBACK) =? 0) then (_ <- (reg_write_16 c v_r (cast U16 U64 v_result)) ;;
            ret (tt)) else (ret (tt))) ;;
            ret (tt)))
        | _ => ((fail EFatal))
        end)%M s).
  Proof.
    intros O0. unfold shift_tail16, read_op, dest_write16.
    destruct Hs0 as [[K0 H0]|[K0 Hm]]; rewrite K0.
    - assert (O0' : instruction_operand c i 0 s = (Ok (OpRegister (i_op_register i 0)), s))
        by (apply operand_register; [rewrite Hn; reflexivity|exact K0|reflexivity|apply gpr16_supported; exact H0]).
      rewrite O0 in O0'. inversion O0'; subst o0.
      rewrite rf_read_mod16 by exact H0.
      assert (Hd : 0 <= rf_read (regs s) (i_op_register i 0) < 2 ^ 16) by (apply rf_read_range16; exact H0).
      split; [exact Hd|]. intros res fl Hop Hfl.
      rewrite (bind_ok _ _ _ _ _ (reg_read_16_ok c _ s Hwf H0)). rewrite (cast_u64_u16_id _ Hd). rewrite Hop.
      rewrite (bind_ok _ _ _ _ _ (eq_refl : lift (Ok (res, fl)) s = _)). cbv beta iota.
      assert (DA : lift (debug_assert_that c (Z.land fl NO_WRITEBACK =? 0)) s = (Ok tt, s)).
      { unfold lift, debug_assert_that, assert_that. rewrite Hfl. destruct (dbg c); reflexivity. }
      rewrite (bind_ok _ _ _ _ _ DA). unfold bind.
      destruct (set_flags_u16 c (Z.lor fset fl) fclear res s) as [[[]|e|p|] s1]; try reflexivity.
      destruct (Z.land fset NO_WRITEBACK =? 0); [|reflexivity].
      destruct (reg_write_16 c (i_op_register i 0) (cast U16 U64 res) s1) as [[[]|e|p|] s2]; reflexivity.
    - destruct (operand_address c i 0 s Hwf Hm ltac:(rewrite Hn; reflexivity) K0) as (O0' & EA & _).
      rewrite O0 in O0'. inversion O0'; subst o0.
      unfold load. change (bytes_of 16) with 2%nat.
      rewrite (bind_ok _ _ _ _ _ EA). change mem_read_16 with (mem_read_n 2).
      destruct (mem_read_n_cases 2 (ea i s) s HI) as [(d & E & R)|(e & E)]; rewrite E.
      + split; [exact R|]. intros res fl Hop Hfl.
        rewrite (bind_ok _ _ _ _ _ E). rewrite (cast_u64_u16_id d R). rewrite Hop.
        rewrite (bind_ok _ _ _ _ _ (eq_refl : lift (Ok (res, fl)) s = _)). cbv beta iota.
        assert (DA : lift (debug_assert_that c (Z.land fl NO_WRITEBACK =? 0)) s = (Ok tt, s)).
        { unfold lift, debug_assert_that, assert_that. rewrite Hfl. destruct (dbg c); reflexivity. }
        rewrite (bind_ok _ _ _ _ _ DA).
        destruct (Z.land fset NO_WRITEBACK =? 0); unfold store_tail16, bind;
          destruct (set_flags_u16 c (Z.lor fset fl) fclear res s) as [[[]|e|p|] s1]; try reflexivity.
        destruct (mem_addr c (memop_of i) s1) as [[a|e|p|] s2]; try reflexivity.
        destruct (mem_write_16 a (cast U16 U64 res) s2) as [[[]|e|p|] s3]; reflexivity.
      + exists e. rewrite (bind_err _ _ _ _ _ E). reflexivity.
  Qed.

  Lemma operand0_16 : exists o0, instruction_operand c i 0 s = (Ok o0, s).
  Proof.
    destruct Hs0 as [[K0 H0]|[K0 Hm]].
    - eexists. apply operand_register; [rewrite Hn; reflexivity|exact K0|reflexivity|apply gpr16_supported; exact H0].
    - destruct (operand_address c i 0 s Hwf Hm ltac:(rewrite Hn; reflexivity) K0) as (O0 & _). eexists. exact O0.
  Qed.

  Lemma calc_rm_r_16f_8_shape op fset fclear :
    i_op_kind i 1 = OK_Register -> i_op_register i 1 = CL ->
    shift_tail16 op fset fclear (rf_read (regs s) CL) (calculate_rm_r_16f_8 c i op fset fclear s).
  Proof.
    intros K1 R1. destruct operand0_16 as (o0 & O0).
    assert (O1 : instruction_operand c i 1 s = (Ok (OpRegister CL), s))
      by (apply operand_register; [rewrite Hn; reflexivity|exact K1|exact R1|reflexivity]).
    assert (OP : instruction_operands_2 c i s = (Ok (o0, OpRegister CL), s)).
    { unfold instruction_operands_2. rewrite (bind_ok _ _ _ _ _ O0). rewrite (bind_ok _ _ _ _ _ O1). reflexivity. }
    unfold calculate_rm_r_16f_8. rewrite (bind_ok _ _ _ _ _ OP). cbv beta iota.
    rewrite (bind_ok _ _ _ _ _ (eq_refl : lift (operand_to_reg (OpRegister CL)) s = _)).
    rewrite (bind_ok _ _ _ _ _ (reg_read_8_ok c CL s Hwf eq_refl)).
    assert (CV : cast U64 U8 (rf_read (regs s) CL) = rf_read (regs s) CL).
    { unfold cast, Bits.sem, enc, modulus; cbn [signed width]. apply Z.mod_small. apply rf_read_range8. reflexivity. }
    rewrite CV. exact (dest_part16 op fset fclear _ o0 O0).
  Qed.

  Lemma calc_rm_imm_16f_8_shape op fset fclear :
    i_op_kind i 1 = OK_Immediate8 -> 0 <= i_immediate8 i < 2 ^ 8 ->
    shift_tail16 op fset fclear (i_immediate8 i) (calculate_rm_imm_16f_8 c i op fset fclear s).
  Proof.
    intros K1 R1. destruct operand0_16 as (o0 & O0).
    assert (O1 : instruction_operand c i 1 s = (Ok (OpImmediate (cast U8 U64 (i_immediate8 i)) 1), s)).
    { unfold instruction_operand, assert_that. rewrite Hn. cbn [Z.ltb Z.compare]. rewrite K1. reflexivity. }
    assert (OP : instruction_operands_2 c i s = (Ok (o0, OpImmediate (cast U8 U64 (i_immediate8 i)) 1), s)).
    { unfold instruction_operands_2. rewrite (bind_ok _ _ _ _ _ O0). rewrite (bind_ok _ _ _ _ _ O1). reflexivity. }
    unfold calculate_rm_imm_16f_8. rewrite (bind_ok _ _ _ _ _ OP). cbv beta iota.
    rewrite (bind_ok _ _ _ _ _ (eq_refl : ret (cast U64 U8 (cast U8 U64 (i_immediate8 i))) s = _)).
    assert (CV : cast U64 U8 (cast U8 U64 (i_immediate8 i)) = i_immediate8 i).
    { unfold cast, Bits.sem, enc, modulus; cbn [signed width]. change (2 ^ 8) with 256 in *. change (2 ^ 64) with 18446744073709551616.
      rewrite (Z.mod_small (i_immediate8 i) 18446744073709551616) by lia. apply Z.mod_small. lia. }
    rewrite CV. exact (dest_part16 op fset fclear _ o0 O0).
  Qed.
End Shift16Helpers.

Section Shift16Forms.
  Variables (c : cfg) (i : instr) (s : mstate).
  Hypothesis Hwf : wf_regs s.
  Hypothesis HI : Inv (mem s).
  Hypothesis Hrf : 0 <= rflags s < 2 ^ 64.
  Hypothesis Hn : i_op_count i = 2.
  Hypothesis Hs0 : rm16_shape i 0.

  Definition shift16_refines (left : bool) (cnt : shcount) (run : outcome unit * mstate) : Prop :=
    match isa_exec (SShift left 16 cnt) i s with
    | IDone s' _ => run = (Ok tt, s')
    | IFault FMem => exists e x, run = (Err e, s) \/ run = (Err e, set_rflags s x)
    | IFault _ => False
    end.

  (* common ending: write [res] with flags word [x] *)
  Lemma finish16 x res run0 u :
    0 <= res < 2 ^ 16 ->
    run0 = dest_write16 c i res (set_rflags s x) ->
    match opt_done (write_op i 0 16 res (set_rflags s x)) u with
    | IDone s' _ => run0 = (Ok tt, s')
    | IFault FMem => exists e y, run0 = (Err e, s) \/ run0 = (Err e, set_rflags s y)
    | IFault _ => False
    end.
  Proof.
    intros Hres ->. pose proof (dest_write16_spec c i s Hwf HI Hn Hs0 x res Hres) as W. cbv zeta in W.
    destruct (write_op i 0 16 res (set_rflags s x)) as [s2|]; cbn [opt_done].
    - exact W.
    - destruct W as [e W]. exists e, x. right. exact W.
  Qed.

  Lemma shift16_core (left : bool) cnt v run :
    0 <= v -> shift_count cnt 16 i s = Z.land v 31 ->
    shift_tail16 c i s (if left then shl16_op c else shr16_op c) (Z.lor (Z.lor FLAG_PF FLAG_ZF) FLAG_SF) (Z.lor FLAG_CF FLAG_OF) v run ->
    shift16_refines left cnt run.
  Proof.
    intros Hv Hcnt ST. unfold shift16_refines. cbn [isa_exec]. unfold exec_shift. rewrite Hcnt.
    unfold shift_tail16 in ST.
    destruct (read_op i 0 16 s) as [d|]; [|destruct ST as [e ST]; exists e, 0; left; exact ST]. destruct ST as [Hd ST].
    assert (SS : set_rflags s (rflags s) = s) by (destruct s; reflexivity).
    destruct left.
    - pose proof (shl16_op_spec c d v Hd Hv) as OP. cbv zeta in OP.
      destruct (Z.eqb_spec (Z.land v 31) 0) as [Zr|NZ].
      + rewrite (ST _ _ OP eq_refl).
        change (Z.lor (Z.lor (Z.lor FLAG_PF FLAG_ZF) FLAG_SF) FLAGS_UNAFFECTED) with FLAGS_UNAFFECTED.
        rewrite (bind_ok _ _ _ _ _ (set_flags16_unaffected_any c _ _ s)).
        change (Z.land (Z.lor (Z.lor FLAG_PF FLAG_ZF) FLAG_SF) NO_WRITEBACK =? 0) with true. cbv iota.
        pose proof (finish16 (rflags s) d _ 0 Hd (eq_refl _)) as F. rewrite SS in F. exact F.
      + set (n := Z.land v 31) in *.
        set (r := (d * 2 ^ n) mod 2 ^ 16) in *. set (cfb := Z.testbit d (16 - n)) in *. set (ofb := xorb (msb 16 r) cfb) in *.
        assert (Hfl : Z.land (Z.lor (b2f ofb FLAG_OF) (b2f cfb FLAG_CF)) NO_WRITEBACK = 0) by (destruct ofb, cfb; reflexivity).
        rewrite (ST _ _ OP Hfl).
        change (Z.lor (Z.lor (Z.lor FLAG_PF FLAG_ZF) FLAG_SF) (Z.lor (b2f ofb FLAG_OF) (b2f cfb FLAG_CF))) with (arith_fs cfb ofb).
        change (Z.lor FLAG_CF FLAG_OF) with 2049.
        rewrite (bind_ok _ _ _ _ _ (set_flags_u16_arith c cfb ofb _ s Hrf)).
        change (Z.land (Z.lor (Z.lor FLAG_PF FLAG_ZF) FLAG_SF) NO_WRITEBACK =? 0) with true. cbv iota zeta.
        fold r. fold cfb. fold ofb.
        assert (Hr : 0 <= r < 2 ^ 16) by (apply Z.mod_pos_bound; reflexivity).
        exact (finish16 _ r _ _ Hr (eq_refl _)).
    - pose proof (shr16_op_spec c d v Hd Hv) as OP. cbv zeta in OP.
      destruct (Z.eqb_spec (Z.land v 31) 0) as [Zr|NZ].
      + rewrite (ST _ _ OP eq_refl).
        change (Z.lor (Z.lor (Z.lor FLAG_PF FLAG_ZF) FLAG_SF) FLAGS_UNAFFECTED) with FLAGS_UNAFFECTED.
        rewrite (bind_ok _ _ _ _ _ (set_flags16_unaffected_any c _ _ s)).
        change (Z.land (Z.lor (Z.lor FLAG_PF FLAG_ZF) FLAG_SF) NO_WRITEBACK =? 0) with true. cbv iota.
        pose proof (finish16 (rflags s) d _ 0 Hd (eq_refl _)) as F. rewrite SS in F. exact F.
      + set (n := Z.land v 31) in *.
        set (r := d / 2 ^ n) in *. set (cfb := Z.testbit d (n - 1)) in *. set (ofb := msb 16 d) in *.
        assert (Hfl : Z.land (Z.lor (b2f ofb FLAG_OF) (b2f cfb FLAG_CF)) NO_WRITEBACK = 0) by (destruct ofb, cfb; reflexivity).
        rewrite (ST _ _ OP Hfl).
        change (Z.lor (Z.lor (Z.lor FLAG_PF FLAG_ZF) FLAG_SF) (Z.lor (b2f ofb FLAG_OF) (b2f cfb FLAG_CF))) with (arith_fs cfb ofb).
        change (Z.lor FLAG_CF FLAG_OF) with 2049.
        rewrite (bind_ok _ _ _ _ _ (set_flags_u16_arith c cfb ofb _ s Hrf)).
        change (Z.land (Z.lor (Z.lor FLAG_PF FLAG_ZF) FLAG_SF) NO_WRITEBACK =? 0) with true. cbv iota zeta.
        fold r. fold cfb. fold ofb.
        assert (Hr : 0 <= r < 2 ^ 16).
        { unfold r. assert (P : 0 < 2 ^ n) by (apply Z.pow_pos_nonneg; pose proof (land31_range v Hv); lia).
          split; [apply Z.div_pos; lia|]. apply Z.le_lt_trans with d; [|lia]. apply Z.div_le_upper_bound; [exact P|]. nia. }
        exact (finish16 _ r _ _ Hr (eq_refl _)).
  Qed.

  Theorem shift_rm16_refines :
    (i_op_kind i 1 = OK_Register -> i_op_register i 1 = CL ->
       (i_code i = C_Shl_rm16_CL -> shift16_refines true CntCL (instr_shl_rm16_cl c i s)) /\
       (i_code i = C_Shr_rm16_CL -> shift16_refines false CntCL (instr_shr_rm16_cl c i s))) /\
    (i_op_kind i 1 = OK_Immediate8 -> 0 <= i_immediate8 i < 2 ^ 8 ->
       (i_code i = C_Shl_rm16_imm8 -> shift16_refines true CntImm (instr_shl_rm16_imm8 c i s)) /\
       (i_code i = C_Shr_rm16_imm8 -> shift16_refines false CntImm (instr_shr_rm16_imm8 c i s))).
  Proof.
    split; intros K1 R1; split; intros Ec.
    - unfold instr_shl_rm16_cl. rewrite Ec. rewrite (bind_ok _ _ _ _ _ (dbg_code_ok c s _ eq_refl)).
      apply (shift16_core true CntCL (rf_read (regs s) CL)); [apply rf_read_range8; reflexivity|reflexivity|].
      exact (calc_rm_r_16f_8_shape c i s Hwf HI Hn Hs0 (shl16_op c) _ _ K1 R1).
    - unfold instr_shr_rm16_cl. rewrite Ec. rewrite (bind_ok _ _ _ _ _ (dbg_code_ok c s _ eq_refl)).
      apply (shift16_core false CntCL (rf_read (regs s) CL)); [apply rf_read_range8; reflexivity|reflexivity|].
      exact (calc_rm_r_16f_8_shape c i s Hwf HI Hn Hs0 (shr16_op c) _ _ K1 R1).
    - unfold instr_shl_rm16_imm8. rewrite Ec. rewrite (bind_ok _ _ _ _ _ (dbg_code_ok c s _ eq_refl)).
      apply (shift16_core true CntImm (i_immediate8 i)); [lia|reflexivity|].
      exact (calc_rm_imm_16f_8_shape c i s Hwf HI Hn Hs0 (shl16_op c) _ _ K1 R1).
    - unfold instr_shr_rm16_imm8. rewrite Ec. rewrite (bind_ok _ _ _ _ _ (dbg_code_ok c s _ eq_refl)).
      apply (shift16_core false CntImm (i_immediate8 i)); [lia|reflexivity|].
      exact (calc_rm_imm_16f_8_shape c i s Hwf HI Hn Hs0 (shr16_op c) _ _ K1 R1).
  Qed.
End Shift16Forms.

(* ---- the one-bit encodings (D1 /4, D1 /5; D0 /4, D0 /5 at 8 bits): SHL / SHR r/m16, 1 ---- *)
Definition shl16_1_op (c : cfg) (v_d v_s : Z) : outcome (Z * Z) :=
  (_ <~ (debug_assert_that c (v_s =? 1)) ;;
  let v_cf := (if ((Z.land v_d 32768) =? 0) then 0 else FLAG_CF) in
  let v_of := (if (Bool.eqb ((Z.land v_d 16384) =? 0) (v_cf =? 0)) then 0 else FLAG_OF) in
  Ok (((wshl U16 v_d 1), (Z.lor v_cf v_of))))%out.

Definition shr16_1_op (c : cfg) (v_d v_s : Z) : outcome (Z * Z) :=
  (_ <~ (debug_assert_that c (v_s =? 1)) ;;
  let v_cf := (if (negb ((Z.land v_d 1) =? 0)) then FLAG_CF else 0) in
  let v_of := (if (negb ((Z.land v_d 32768) =? 0)) then FLAG_OF else 0) in
  Ok (((wshr U16 v_d 1), (Z.lor v_cf v_of))))%out.

Lemma shl16_1_op_spec c d : 0 <= d < 2 ^ 16 ->
  shl16_1_op c d 1 =
  (let r := (d * 2 ^ 1) mod 2 ^ 16 in let cf := Z.testbit d (16 - 1) in
   Ok (r, Z.lor (b2f (xorb (msb 16 r) cf) FLAG_OF) (b2f cf FLAG_CF))).
Proof.
  intros Hd. unfold shl16_1_op. cbv zeta.
  assert (DA : debug_assert_that c (1 =? 1) = Ok tt) by (unfold debug_assert_that, assert_that; destruct (dbg c); reflexivity).
  rewrite DA. cbn [obind].
  assert (W : wshl U16 d 1 = (d * 2 ^ 1) mod 2 ^ 16) by reflexivity. rewrite W.
  set (r := (d * 2 ^ 1) mod 2 ^ 16).
  change 32768 with (2 ^ 15). change 16384 with (2 ^ 14).
  rewrite !land_pow2_testbit by lia.
  assert (R : msb 16 r = Z.testbit d 14).
  { unfold msb, r. change (16 - 1) with 15. rewrite Z.mod_pow2_bits_low by lia. rewrite Z.mul_pow2_bits by lia. f_equal. }
  rewrite R. change (16 - 1) with 15.
  f_equal. f_equal. rewrite Z.lor_comm.
  destruct (Z.testbit d 15), (Z.testbit d 14); reflexivity.
Qed.

Lemma shr16_1_op_spec c d : 0 <= d < 2 ^ 16 ->
  shr16_1_op c d 1 =
  (let r := d / 2 ^ 1 in let cf := Z.testbit d (1 - 1) in
   Ok (r, Z.lor (b2f (msb 16 d) FLAG_OF) (b2f cf FLAG_CF))).
Proof.
  intros Hd. unfold shr16_1_op. cbv zeta.
  assert (DA : debug_assert_that c (1 =? 1) = Ok tt) by (unfold debug_assert_that, assert_that; destruct (dbg c); reflexivity).
  rewrite DA. cbn [obind].
  assert (W : wshr U16 d 1 = d / 2 ^ 1).
  { unfold wshr, shr_raw, Bits.sem, enc, modulus; cbn [signed width]. change (1 mod 16) with 1. apply Z.mod_small.
    change (2 ^ 1) with 2. change (2 ^ 16) with 65536 in *. lia. }
  rewrite W. change (Z.land d 1) with (Z.land d (2 ^ 0)). rewrite (land_pow2_testbit d 0) by lia. rewrite negb_involutive.
  change 32768 with (2 ^ 15). rewrite land_pow2_testbit by lia. rewrite negb_involutive.
  unfold msb. change (16 - 1) with 15. change (1 - 1) with 0.
  f_equal. f_equal. rewrite Z.lor_comm. destruct (Z.testbit d 15), (Z.testbit d 0); reflexivity.
Qed.

Section Shift16One.
  Variables (c : cfg) (i : instr) (s : mstate).
  Hypothesis Hwf : wf_regs s.
  Hypothesis HI : Inv (mem s).
  Hypothesis Hrf : 0 <= rflags s < 2 ^ 64.
  Hypothesis Hn : i_op_count i = 2.
  Hypothesis Hs0 : rm16_shape i 0.
  Hypothesis K1 : i_op_kind i 1 = OK_Immediate8.
  Hypothesis R1 : i_immediate8 i = 1.

  Lemma one_core16 (left : bool) run op :
    (forall d, 0 <= d < 2 ^ 16 ->
       op d 1 = (let r := if left then (d * 2 ^ 1) mod 2 ^ 16 else d / 2 ^ 1 in
                 let cf := if left then Z.testbit d (16 - 1) else Z.testbit d (1 - 1) in
                 let ofb := if left then xorb (msb 16 r) cf else msb 16 d in
                 Ok (r, Z.lor (b2f ofb FLAG_OF) (b2f cf FLAG_CF)))) ->
    shift_tail16 c i s op (Z.lor (Z.lor FLAG_PF FLAG_ZF) FLAG_SF) (Z.lor FLAG_CF FLAG_OF) 1 run ->
    shift16_refines i s left CntOne run.
  Proof.
    intros OPS ST. unfold shift16_refines. cbn [isa_exec]. unfold exec_shift.
    change (shift_count CntOne 16 i s) with 1. change (1 =? 0) with false. cbv iota.
    unfold shift_tail16 in ST.
    destruct (read_op i 0 16 s) as [d|]; [|destruct ST as [e ST]; exists e, 0; left; exact ST]. destruct ST as [Hd ST].
    pose proof (OPS d Hd) as OP. cbv zeta in OP.
    set (r := if left then (d * 2 ^ 1) mod 2 ^ 16 else d / 2 ^ 1) in *.
    set (cfb := if left then Z.testbit d (16 - 1) else Z.testbit d (1 - 1)) in *.
    set (ofb := if left then xorb (msb 16 r) cfb else msb 16 d) in *.
    assert (Hr : 0 <= r < 2 ^ 16).
    { unfold r. destruct left; [apply Z.mod_pos_bound; reflexivity|]. change (2 ^ 1) with 2. change (2 ^ 16) with 65536 in *. lia. }
    assert (Hfl : Z.land (Z.lor (b2f ofb FLAG_OF) (b2f cfb FLAG_CF)) NO_WRITEBACK = 0) by (destruct ofb, cfb; reflexivity).
    rewrite (ST _ _ OP Hfl).
    change (Z.lor (Z.lor (Z.lor FLAG_PF FLAG_ZF) FLAG_SF) (Z.lor (b2f ofb FLAG_OF) (b2f cfb FLAG_CF))) with (arith_fs cfb ofb).
    change (Z.lor FLAG_CF FLAG_OF) with 2049.
    rewrite (bind_ok _ _ _ _ _ (set_flags_u16_arith c cfb ofb _ s Hrf)).
    change (Z.land (Z.lor (Z.lor FLAG_PF FLAG_ZF) FLAG_SF) NO_WRITEBACK =? 0) with true. cbv iota zeta.
    exact (finish16 c i s Hwf HI Hn Hs0 _ r _ _ Hr (eq_refl _)).
  Qed.

  Theorem shl_rm16_1_refines : i_code i = C_Shl_rm16_1 -> shift16_refines i s true CntOne (instr_shl_rm16_1 c i s).
  Proof.
    intros Ec. unfold instr_shl_rm16_1. rewrite Ec. rewrite (bind_ok _ _ _ _ _ (dbg_code_ok c s _ eq_refl)).
    apply (one_core16 true _ (shl16_1_op c)).
    - intros d Hd. exact (shl16_1_op_spec c d Hd).
    - pose proof (calc_rm_imm_16f_8_shape c i s Hwf HI Hn Hs0 (shl16_1_op c) (Z.lor (Z.lor FLAG_PF FLAG_ZF) FLAG_SF) (Z.lor FLAG_CF FLAG_OF) K1 ltac:(rewrite R1; cbn; lia)) as X.
      rewrite R1 in X. exact X.
  Qed.

  Theorem shr_rm16_1_refines : i_code i = C_Shr_rm16_1 -> shift16_refines i s false CntOne (instr_shr_rm16_1 c i s).
  Proof.
    intros Ec. unfold instr_shr_rm16_1. rewrite Ec. rewrite (bind_ok _ _ _ _ _ (dbg_code_ok c s _ eq_refl)).
    apply (one_core16 false _ (shr16_1_op c)).
    - intros d Hd. exact (shr16_1_op_spec c d Hd).
    - pose proof (calc_rm_imm_16f_8_shape c i s Hwf HI Hn Hs0 (shr16_1_op c) (Z.lor (Z.lor FLAG_PF FLAG_ZF) FLAG_SF) (Z.lor FLAG_CF FLAG_OF) K1 ltac:(rewrite R1; cbn; lia)) as X.
      rewrite R1 in X. exact X.
  Qed.
End Shift16One.
