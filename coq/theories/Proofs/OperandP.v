(* C05: operand decoding and effective-address computation of the generated helpers
   (helpers/operand.rs) against the ISA specification's [ea] / [ea_offset]. *)
From Coq Require Import ZArith Bool List Lia Znumtheory.
From AxV Require Import Bits Outcome Codes Iced State Rt Mem Trace BitsP RegFile RegsP ISA ReadonlyTac.
From AxG Require Import Flags Regs Operand Readonly.
Local Open Scope Z_scope.
Ltac Zify.zify_post_hook ::= Z.div_mod_to_equations.

Definition addr_reg (r : reg) : Prop := is_gpr64 r = true \/ is_gpr32 r = true.

Lemma read_addr_reg c r s :
  wf_regs s -> addr_reg r ->
  (t1_v <- lift (iced_of_sup r) ;;
   (if is_gpr32 t1_v then expect_m (reg_read_32 c r) else expect_m (reg_read_64 c r)))%M s
  = (Ok (rf_read (regs s) r), s).
Proof.
  intros Hwf [H|H].
  - assert (E : iced_of_sup r = Ok r) by (unfold iced_of_sup; destruct r; try discriminate H; reflexivity).
    unfold bind, lift. rewrite E.
    assert (N : is_gpr32 r = false) by (destruct r; try discriminate H; reflexivity).
    rewrite N. unfold expect_m. rewrite (reg_read_64_ok c r s Hwf H). reflexivity.
  - assert (E : iced_of_sup r = Ok r) by (unfold iced_of_sup; destruct r; try discriminate H; reflexivity).
    unfold bind, lift. rewrite E. rewrite H. unfold expect_m. rewrite (reg_read_32_ok c r s Hwf H). reflexivity.
Qed.

(* ---- the address of a decoded memory operand ---- *)
Definition opt_is32 (o : option reg) : bool := match o with Some r => is_gpr32 r | None => false end.
Definition opt_val (s : mstate) (o : option reg) : Z := match o with Some r => rf_read (regs s) r | None => 0 end.
Definition seg_val (s : mstate) (o : option segreg) : Z :=
  match o with Some SegFS => fs s | Some SegGS => gs s | _ => 0 end.

Definition memop_offset (m : memop) (s : mstate) : Z :=
  (opt_val s (mo_base m) + opt_val s (mo_index m) * mo_scale m + mo_displacement m)
    mod (if opt_is32 (mo_base m) || opt_is32 (mo_index m) then 2 ^ 32 else 2 ^ 64).
Definition memop_ea (m : memop) (s : mstate) : Z := (memop_offset m s + seg_val s (mo_segment m)) mod 2 ^ 64.

Definition wf_memop (m : memop) : Prop :=
  (forall r, mo_base m = Some r -> addr_reg r) /\ (forall r, mo_index m = Some r -> addr_reg r) /\
  0 <= mo_scale m < 2 ^ 32 /\ 0 <= mo_displacement m < 2 ^ 64.

Lemma wadd_mod x y : wadd U64 (x mod 2 ^ 64) y = (x + y) mod 2 ^ 64.
Proof. unfold wadd, enc, modulus; cbn [width]. apply Zplus_mod_idemp_l. Qed.
Lemma wadd0 y : wadd U64 0 y = y mod 2 ^ 64.
Proof. unfold wadd, enc, modulus; cbn [width]. reflexivity. Qed.
Lemma wmul_mod x y : wmul U64 x y = (x * y) mod 2 ^ 64.
Proof. reflexivity. Qed.
Lemma mod64_32 x : (x mod 2 ^ 64) mod 2 ^ 32 = x mod 2 ^ 32.
Proof. symmetry. apply Zmod_div_mod; try reflexivity. exists (2 ^ 32). reflexivity. Qed.

(* the block that reads one address register and notes a 32-bit address size *)
Lemma addr_reg_block c r (a32 : bool) s :
  wf_regs s -> addr_reg r ->
  (t_v <- lift (iced_of_sup r) ;;
   (if is_gpr32 t_v
    then (let v_address_size_32 := true in
          v <- expect_m (reg_read_32 c r) ;; ret (v_address_size_32, v))
    else (v <- expect_m (reg_read_64 c r) ;; ret (a32, v))))%M s
  = (Ok (a32 || is_gpr32 r, rf_read (regs s) r), s).
Proof.
  intros Hwf Hr.
  assert (E : iced_of_sup r = Ok r).
  { unfold iced_of_sup. destruct Hr as [H|H]; destruct r; try discriminate H; reflexivity. }
  unfold bind at 1. unfold lift. rewrite E.
  destruct Hr as [H|H].
  - assert (N : is_gpr32 r = false) by (destruct r; try discriminate H; reflexivity).
    rewrite N. unfold bind, expect_m. rewrite (reg_read_64_ok c r s Hwf H). rewrite orb_false_r. reflexivity.
  - rewrite H. cbv zeta. unfold bind, expect_m. rewrite (reg_read_32_ok c r s Hwf H). rewrite orb_true_r. reflexivity.
Qed.

Lemma mbind_ok {A B} (m : MM A) (f : A -> MM B) s a s1 : m s = (Ok a, s1) -> bind m f s = f a s1.
Proof. intros H. unfold bind. rewrite H. reflexivity. Qed.
Lemma mbind_assoc {A B C} (m : MM A) (f : A -> MM B) (g : B -> MM C) s :
  bind (bind m f) g s = bind m (fun x => bind (f x) g) s.
Proof. unfold bind. destruct (m s) as [[a|e|p|] s1]; reflexivity. Qed.

Lemma cast_scale sc : 0 <= sc < 2 ^ 32 -> cast U32 U64 sc = sc.
Proof.
  intros H. unfold cast, Bits.sem, enc, modulus; cbn [signed width]. apply Z.mod_small.
  change (2 ^ 32) with 4294967296 in H. change (2 ^ 64) with 18446744073709551616. lia.
Qed.

Lemma land32 x : Z.land x 4294967295 = x mod 2 ^ 32.
Proof. change 4294967295 with (Z.ones 32). apply Z.land_ones. lia. Qed.

(* the accumulated offset, whatever subset of base / index is present *)
Lemma offset_arith (a32 : bool) b ix sc d :
  (if a32 then Z.land (wadd U64 (wadd U64 (b mod 2 ^ 64) (wmul U64 ix sc)) d) 4294967295
   else wadd U64 (wadd U64 (b mod 2 ^ 64) (wmul U64 ix sc)) d)
  = (b + ix * sc + d) mod (if a32 then 2 ^ 32 else 2 ^ 64).
Proof.
  rewrite wmul_mod. rewrite wadd_mod. unfold wadd at 1 2, enc, modulus; cbn [width].
  rewrite Zplus_mod_idemp_r. rewrite Zplus_mod_idemp_l.
  destruct a32; [rewrite land32, mod64_32|]; reflexivity.
Qed.

Lemma offset_range m s : 0 <= memop_offset m s < 2 ^ 64.
Proof.
  unfold memop_offset. destruct (opt_is32 (mo_base m) || opt_is32 (mo_index m)).
  - assert (H : 0 <= (opt_val s (mo_base m) + opt_val s (mo_index m) * mo_scale m + mo_displacement m) mod 2 ^ 32 < 2 ^ 32)
      by (apply Z.mod_pos_bound; reflexivity).
    change (2 ^ 32) with 4294967296 in *. change (2 ^ 64) with 18446744073709551616. lia.
  - apply Z.mod_pos_bound. reflexivity.
Qed.

Theorem mem_addr_spec c m s :
  wf_regs s -> wf_memop m -> mem_addr c m s = (Ok (memop_ea m s), s).
Proof.
  intros Hwf (Hb & Hi & Hsc & Hd). unfold mem_addr. cbv zeta.
  (* base *)
  assert (B : (match mo_base m with
               | Some v_base =>
                   (t2_v <- lift (iced_of_sup v_base);;
                    '(v_address_size_32, v_base_value) <-
                      (if is_gpr32 t2_v
                       then (v_base_value <- expect_m (reg_read_32 c v_base);; ret (true, v_base_value))
                       else (v_base_value <- expect_m (reg_read_64 c v_base);; ret (false, v_base_value)));;
                    ret (v_address_size_32, wadd U64 0 v_base_value))%M
               | None => ret (false, 0)
               end) s = (Ok (opt_is32 (mo_base m), opt_val s (mo_base m) mod 2 ^ 64), s)).
  { destruct (mo_base m) as [b|]; [|reflexivity].
    pose proof (addr_reg_block c b false s Hwf (Hb b eq_refl)) as H. cbv zeta in H.
    rewrite <- mbind_assoc. rewrite (mbind_ok _ _ _ _ _ H). cbn [opt_is32 opt_val orb]. rewrite wadd0. reflexivity. }
  rewrite (mbind_ok _ _ _ _ _ B). clear B.
  set (a0 := opt_is32 (mo_base m)). set (acc0 := opt_val s (mo_base m) mod 2 ^ 64).
  assert (X : (match mo_index m with
               | Some v_index =>
                   (t4_v <- lift (iced_of_sup v_index);;
                    '(v_address_size_32, v_index_value) <-
                      (if is_gpr32 t4_v
                       then (v_index_value <- expect_m (reg_read_32 c v_index);; ret (true, v_index_value))
                       else (v_index_value <- expect_m (reg_read_64 c v_index);; ret (a0, v_index_value)));;
                    ret (v_address_size_32, wadd U64 acc0 (wmul U64 v_index_value (cast U32 U64 (mo_scale m)))))%M
               | None => ret (a0, acc0)
               end) s = (Ok (a0 || opt_is32 (mo_index m),
                             (opt_val s (mo_base m) + opt_val s (mo_index m) * mo_scale m) mod 2 ^ 64), s)).
  { destruct (mo_index m) as [ix|].
    - pose proof (addr_reg_block c ix a0 s Hwf (Hi ix eq_refl)) as H. cbv zeta in H.
      rewrite <- mbind_assoc. rewrite (mbind_ok _ _ _ _ _ H). cbn [opt_is32 opt_val]. unfold ret.
      rewrite cast_scale by exact Hsc. unfold acc0. rewrite wmul_mod, wadd_mod.
      unfold enc, modulus; cbn [width]. rewrite Zplus_mod_idemp_r. reflexivity.
    - cbn [opt_is32 opt_val]. unfold ret, acc0. rewrite orb_false_r. rewrite Z.mul_0_l, Z.add_0_r. reflexivity. }
  rewrite (mbind_ok _ _ _ _ _ X). clear X.
  set (a1 := a0 || opt_is32 (mo_index m)).
  set (acc1 := (opt_val s (mo_base m) + opt_val s (mo_index m) * mo_scale m) mod 2 ^ 64).
  assert (O : (if a1 then Z.land (wadd U64 acc1 (mo_displacement m)) 4294967295 else wadd U64 acc1 (mo_displacement m))
              = memop_offset m s).
  { unfold memop_offset. fold a0 a1. unfold acc1. rewrite wadd_mod. destruct a1; [rewrite land32, mod64_32|]; reflexivity. }
  rewrite O.
  unfold memop_ea.
  destruct (mo_segment m) as [[]|]; cbn [seg_val bind ret get_fs get_gs fst snd]; unfold wadd, enc, modulus; cbn [width];
    rewrite ?Z.add_0_r; try reflexivity.
  all: unfold ret; rewrite (Z.mod_small (memop_offset m s)) by apply offset_range; reflexivity.
Qed.

(* ---- from the decoded instruction to the operand ---- *)
Definition base_of (b : reg) : option reg := match b with RNone | RIP | EIP => None | r => Some r end.
Definition index_of (x : reg) : option reg := match x with RNone => None | r => Some r end.
Definition seg_of (g : reg) : option segreg :=
  match g with CS => Some SegCS | DS => Some SegDS | ES => Some SegES | SS => Some SegSS
             | FS => Some SegFS | GS => Some SegGS | _ => None end.

(* what the decoder guarantees about a memory operand *)
Definition wf_mem_instr (i : instr) : Prop :=
  (i_memory_base i = RNone \/ i_memory_base i = RIP \/ i_memory_base i = EIP \/ addr_reg (i_memory_base i)) /\
  (i_memory_index i = RNone \/ addr_reg (i_memory_index i)) /\
  ((i_memory_base i = RIP \/ i_memory_base i = EIP) -> i_memory_index i = RNone) /\
  (i_memory_base i = EIP -> i_memory_displacement64 i < 2 ^ 32) /\
  0 <= i_memory_index_scale i < 2 ^ 32 /\ 0 <= i_memory_displacement64 i < 2 ^ 64 /\
  (i_memory_segment i = CS \/ i_memory_segment i = DS \/ i_memory_segment i = ES \/ i_memory_segment i = SS \/
   i_memory_segment i = FS \/ i_memory_segment i = GS).

Lemma base_conv b s :
  (b = RNone \/ b = RIP \/ b = EIP \/ addr_reg b) ->
  (match b return MM (option reg) with
   | RNone => ret None | RIP => ret None | EIP => ret None
   | v_r => (t1_v <- lift (sup_of_iced v_r) ;; ret (Some t1_v))%M
   end) s = (Ok (base_of b), s).
Proof.
  intros [->|[->|[->|[H|H]]]]; try reflexivity; destruct b; try discriminate H; reflexivity.
Qed.

Lemma index_conv x s :
  (x = RNone \/ addr_reg x) ->
  (match x return MM (option reg) with
   | RNone => ret None
   | v_r => (t2_v <- lift (sup_of_iced v_r) ;; ret (Some t2_v))%M
   end) s = (Ok (index_of x), s).
Proof.
  intros [->|[H|H]]; try reflexivity; destruct x; try discriminate H; reflexivity.
Qed.

Definition memop_of (i : instr) : memop :=
  {| mo_base := base_of (i_memory_base i); mo_index := index_of (i_memory_index i);
     mo_segment := seg_of (i_memory_segment i); mo_scale := i_memory_index_scale i;
     mo_displacement := i_memory_displacement64 i |}.

Theorem operand_memory c i k s :
  wf_mem_instr i -> (k <? i_op_count i) = true -> i_op_kind i k = OK_Memory ->
  instruction_operand c i k s = (Ok (OpMemory (memop_of i)), s).
Proof.
  intros (Hb & Hx & _ & _ & _ & _ & Hg) Hk Hkind.
  unfold instruction_operand, assert_that, memop_of. rewrite Hk, Hkind.
  rewrite (mbind_ok _ _ _ _ _ (eq_refl : lift (Ok tt) s = (Ok tt, s))).
  generalize dependent (i_memory_base i). intros b Hb.
  generalize dependent (i_memory_index i). intros x Hx.
  match goal with |- bind ?M _ s = _ =>
    assert (EB : M s = (Ok (base_of b), s))
      by (destruct Hb as [->|[->|[->|[H|H]]]]; try reflexivity; destruct b; try discriminate H; reflexivity) end.
  rewrite (mbind_ok _ _ _ _ _ EB). clear EB.
  match goal with |- bind ?M _ s = _ =>
    assert (EX : M s = (Ok (index_of x), s))
      by (destruct Hx as [->|[H|H]]; try reflexivity; destruct x; try discriminate H; reflexivity) end.
  rewrite (mbind_ok _ _ _ _ _ EX). clear EX. cbv zeta.
  destruct Hg as [E|[E|[E|[E|[E|E]]]]]; rewrite E; cbn; reflexivity.
Qed.

Lemma wf_memop_of i : wf_mem_instr i -> wf_memop (memop_of i).
Proof.
  intros (Hb & Hx & _ & _ & Hs & Hd & _). unfold wf_memop, memop_of. cbn [mo_base mo_index mo_scale mo_displacement].
  split; [|split; [|split; assumption]].
  - intros r E. destruct Hb as [H|[H|[H|H]]]; try (rewrite H in E; discriminate E).
    destruct (i_memory_base i); try discriminate E; inversion E; subst; exact H.
  - intros r E. destruct Hx as [H|H]; try (rewrite H in E; discriminate E).
    destruct (i_memory_index i); try discriminate E; inversion E; subst; exact H.
Qed.

Lemma index_val s x : (x = RNone \/ addr_reg x) ->
  opt_val s (index_of x) = reg_value s x /\ opt_is32 (index_of x) = is_gpr32 x.
Proof.
  intros [->|[H|H]]; [split; reflexivity| |]; destruct x; try discriminate H; split; reflexivity.
Qed.

Theorem memop_offset_is_ea_offset i s :
  wf_mem_instr i ->
  memop_offset {| mo_base := base_of (i_memory_base i); mo_index := index_of (i_memory_index i);
                  mo_segment := None; mo_scale := i_memory_index_scale i;
                  mo_displacement := i_memory_displacement64 i |} s = ea_offset i s.
Proof.
  intros (Hb & Hx & Hrip & Heip & Hs & Hd & Hg).
  unfold memop_offset, ea_offset, addr32. cbn [mo_base mo_index mo_scale mo_displacement].
  destruct (index_val s (i_memory_index i) Hx) as [Ev E32]. rewrite Ev, E32.
  destruct Hb as [E|[E|[E|H]]].
  - rewrite E. cbn [base_of opt_val opt_is32 is_gpr32 orb reg_value]. rewrite orb_false_r. reflexivity.
  - rewrite E. rewrite (Hrip (or_introl E)). cbn [base_of opt_val opt_is32 is_gpr32 orb reg_value]. reflexivity.
  - rewrite E. rewrite (Hrip (or_intror E)). cbn [base_of opt_val opt_is32 is_gpr32 orb reg_value].
    specialize (Heip E). change (2 ^ 32) with 4294967296 in *. change (2 ^ 64) with 18446744073709551616 in *.
    rewrite !Z.mod_small by lia. reflexivity.
  - destruct H as [H|H]; destruct (i_memory_base i); try discriminate H;
      cbn [base_of opt_val opt_is32 is_gpr32 orb reg_value]; rewrite ?orb_false_r; reflexivity.
Qed.

Theorem memop_ea_is_ea i s :
  wf_mem_instr i -> memop_ea (memop_of i) s = ea i s.
Proof.
  intros Hwf. unfold memop_ea, ea.
  pose proof (memop_offset_is_ea_offset i s Hwf) as H. unfold memop_offset in *.
  cbn [mo_base mo_index mo_scale mo_displacement memop_of] in *. rewrite H.
  destruct Hwf as (_ & _ & _ & _ & _ & _ & Hg). unfold memop_of; cbn [mo_segment].
  destruct Hg as [E|[E|[E|[E|[E|E]]]]]; rewrite E; reflexivity.
Qed.

(* the two facts the instruction semantics rely on: a decoded memory operand's address is the
   specification's effective address, and LEA's offset is the specification's offset *)
Theorem operand_address c i k s :
  wf_regs s -> wf_mem_instr i -> (k <? i_op_count i) = true -> i_op_kind i k = OK_Memory ->
  instruction_operand c i k s = (Ok (OpMemory (memop_of i)), s) /\
  mem_addr c (memop_of i) s = (Ok (ea i s), s) /\
  mem_offset c (memop_of i) s = (Ok (ea_offset i s), s).
Proof.
  intros Hr Hwf Hk Hkind. split; [apply operand_memory; assumption|].
  split.
  - rewrite mem_addr_spec by (auto using wf_memop_of). rewrite memop_ea_is_ea by exact Hwf. reflexivity.
  - unfold mem_offset. cbn [mo_base mo_index mo_scale mo_displacement memop_of].
    rewrite mem_addr_spec.
    + unfold memop_ea. cbn [mo_segment seg_val]. rewrite Z.add_0_r.
      rewrite (memop_offset_is_ea_offset i s Hwf).
      rewrite Z.mod_small; [reflexivity|].
      rewrite <- (memop_offset_is_ea_offset i s Hwf). apply offset_range.
    + exact Hr.
    + pose proof (wf_memop_of i Hwf) as (A & B & C & D). unfold memop_of in *.
      cbn [mo_base mo_index mo_scale mo_displacement] in *. split; [exact A|]. split; [exact B|]. split; [exact C|exact D].
Qed.
