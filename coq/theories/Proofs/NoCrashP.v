(* C19, for the forms that have a complete refinement: the step function of the form returns
   success or an error value - never a panic, never fuel exhaustion - in both build
   configurations.  Corollaries of the refinement theorems. *)
From Coq Require Import ZArith Bool List Lia.
From AxV Require Import Bits Outcome Codes Iced State Rt Mem Trace ByteStore RegFile RegsP ISA CodeSem OperandP RmP MovP FlagsP AluP DivP.
From AxG Require Import Flags Regs Operand Helpers I_add I_sub I_cmp I_and I_xor I_div I_idiv I_mov.
Local Open Scope Z_scope.

Definition no_crash {A} (r : outcome A) : Prop :=
  match r with Ok _ | Err _ => True | Panic _ | Fuel => False end.

Section Alu.
  Variables (c : cfg) (i : instr) (s : mstate).
  Hypothesis Hwf : wf_regs s.
  Hypothesis Hrf : 0 <= rflags s < 2 ^ 63.
  Hypothesis Hn : i_op_count i = 2.
  Hypothesis K0 : i_op_kind i 0 = OK_Register.
  Hypothesis K1 : i_op_kind i 1 = OK_Register.
  Hypothesis H0 : is_gpr64 (i_op_register i 0) = true.
  Hypothesis H1 : is_gpr64 (i_op_register i 1) = true.

  Let Hrf64 : 0 <= rflags s < 2 ^ 64.
  Proof. change (2 ^ 63) with 9223372036854775808 in Hrf. change (2 ^ 64) with 18446744073709551616. lia. Qed.

  Theorem alu64_regreg_no_crash :
    (i_code i = C_Add_rm64_r64 -> no_crash (fst (instr_add_rm64_r64 c i s))) /\
    (i_code i = C_Sub_rm64_r64 -> no_crash (fst (instr_sub_rm64_r64 c i s))) /\
    (i_code i = C_Cmp_rm64_r64 -> no_crash (fst (instr_cmp_rm64_r64 c i s))) /\
    (i_code i = C_And_rm64_r64 -> no_crash (fst (instr_and_rm64_r64 c i s))) /\
    (i_code i = C_Xor_rm64_r64 -> no_crash (fst (instr_xor_rm64_r64 c i s))).
  Proof.
    repeat split; intros Ec.
    - destruct (add_rm64_r64_refines c i s Hwf Hrf64 Hn K0 K1 H0 H1 Ec) as (s' & E & _). rewrite E. exact I.
    - destruct (sub_rm64_r64_refines c i s Hwf Hrf64 Hn K0 K1 H0 H1 Ec) as (s' & E & _). rewrite E. exact I.
    - destruct (cmp_rm64_r64_refines c i s Hwf Hrf Hn K0 K1 H0 H1 Ec) as (s' & E & _). rewrite E. exact I.
    - destruct (and_rm64_r64_refines c i s Hwf Hrf64 Hn K0 K1 H0 H1 Ec) as (s' & E & _). rewrite E. exact I.
    - destruct (xor_rm64_r64_refines c i s Hwf Hrf64 Hn K0 K1 H0 H1 Ec) as (s' & E & _). rewrite E. exact I.
  Qed.
End Alu.

Section Div.
  Variables (c : cfg) (i : instr) (s : mstate).
  Hypothesis Hwf : wf_regs s.
  Hypothesis HI : Inv (mem s).
  Hypothesis Hn : i_op_count i = 1.
  Hypothesis Hs : rm64_shape i 0.

  (* every dividend, every divisor (zero included), register or memory operand, mapped or not *)
  Theorem div_rm64_no_crash : i_code i = C_Div_rm64 -> no_crash (fst (instr_div_rm64 c i s)).
  Proof.
    intros Ec. pose proof (div_rm64_refines c i s Hwf HI Hn Hs Ec) as R.
    destruct (isa_exec (SDiv 64) i s) as [s' u|[]]; try contradiction;
      try (rewrite R; exact I); destruct R as [e R]; rewrite R; exact I.
  Qed.

  Theorem rm64_read_no_crash k : 0 <= k < i_op_count i -> rm64_shape i k -> no_crash (fst (read_rm64 c i k s)).
  Proof.
    intros Hk Hsk. pose proof (read_rm64_spec c i s k Hwf HI Hk Hsk) as R.
    destruct (read_op i k 64 s); [destruct R as [R _]|destruct R as [e R]]; rewrite R; exact I.
  Qed.
End Div.
