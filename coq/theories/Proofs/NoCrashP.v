(* C19, for the forms that have a complete refinement: the step function of the form returns
   success or an error value - never a panic, never fuel exhaustion - in both build
   configurations.  Corollaries of the refinement theorems. *)
From Coq Require Import ZArith Bool List Lia.
From AxV Require Import Bits Outcome Codes Iced State Rt Mem Trace ByteStore RegFile RegsP ISA CodeSem OperandP RmP MovP FlagsP AluP DivP.
From AxG Require Import Flags Regs Operand Helpers I_add I_sub I_cmp I_and I_xor I_div I_idiv I_mov.
Local Open Scope Z_scope.

Definition no_crash {A} (r : outcome A) : Prop :=
  match r with Ok _ | Err _ => True | Panic _ | Fuel => False end.

Section Alu.
  Variables (c : cfg) (i : instr) (s : mstate).
  Hypothesis Hwf : wf_regs s.
  Hypothesis Hrf : 0 <= rflags s < 2 ^ 63.
  Hypothesis Hn : i_op_count i = 2.
  Hypothesis K0 : i_op_kind i 0 = OK_Register.
  Hypothesis K1 : i_op_kind i 1 = OK_Register.
  Hypothesis H0 : is_gpr64 (i_op_register i 0) = true.
  Hypothesis H1 : is_gpr64 (i_op_register i 1) = true.

  Let Hrf64 : 0 <= rflags s < 2 ^ 64.
  Proof. change (2 ^ 63) with 9223372036854775808 in Hrf. change (2 ^ 64) with 18446744073709551616. lia. Qed.

  Theorem alu64_regreg_no_crash :
    (i_code i = C_Add_rm64_r64 -> no_crash (fst (instr_add_rm64_r64 c i s))) /\
    (i_code i = C_Sub_rm64_r64 -> no_crash (fst (instr_sub_rm64_r64 c i s))) /\
    (i_code i = C_Cmp_rm64_r64 -> no_crash (fst (instr_cmp_rm64_r64 c i s))) /\
    (i_code i = C_And_rm64_r64 -> no_crash (fst (instr_and_rm64_r64 c i s))) /\
    (i_code i = C_Xor_rm64_r64 -> no_crash (fst (instr_xor_rm64_r64 c i s))).
  Proof.
    repeat split; intros Ec.
    - destruct (add_rm64_r64_refines c i s Hwf Hrf64 Hn K0 K1 H0 H1 Ec) as (s' & E & _). rewrite E. exact I.
    - destruct (sub_rm64_r64_refines c i s Hwf Hrf64 Hn K0 K1 H0 H1 Ec) as (s' & E & _). rewrite E. exact I.
    - destruct (cmp_rm64_r64_refines c i s Hwf Hrf Hn K0 K1 H0 H1 Ec) as (s' & E & _). rewrite E. exact I.
    - destruct (and_rm64_r64_refines c i s Hwf Hrf64 Hn K0 K1 H0 H1 Ec) as (s' & E & _). rewrite E. exact I.
    - destruct (xor_rm64_r64_refines c i s Hwf Hrf64 Hn K0 K1 H0 H1 Ec) as (s' & E & _). rewrite E. exact I.
  Qed.
End Alu.

Section Div.
  Variables (c : cfg) (i : instr) (s : mstate).
  Hypothesis Hwf : wf_regs s.
  Hypothesis HI : Inv (mem s).
  Hypothesis Hn : i_op_count i = 1.
  Hypothesis Hs : rm64_shape i 0.

  (* every dividend, every divisor (zero included), register or memory operand, mapped or not *)
  Theorem div_rm64_no_crash : i_code i = C_Div_rm64 -> no_crash (fst (instr_div_rm64 c i s)).
  Proof.
    intros Ec. pose proof (div_rm64_refines c i s Hwf HI Hn Hs Ec) as R.
    destruct (isa_exec (SDiv 64) i s) as [s' u|[]]; try contradiction;
      try (rewrite R; exact I); destruct R as [e R]; rewrite R; exact I.
  Qed.

  Theorem rm64_read_no_crash k : 0 <= k < i_op_count i -> rm64_shape i k -> no_crash (fst (read_rm64 c i k s)).
  Proof.
    intros Hk Hsk. pose proof (read_rm64_spec c i s k Hwf HI Hk Hsk) as R.
    destruct (read_op i k 64 s); [destruct R as [R _]|destruct R as [e R]]; rewrite R; exact I.
  Qed.
End Div.

(* Every refinement statement used in C01/C02/C06 implies "Ok or Err": whatever form is proved to refine
   the specification is thereby proved never to panic or run out of fuel, in either build configuration. *)
From AxV Require Import AluRmP AluMemP AluImmP Alu32P AluImm32P UnaryP Unary32P TestP AdcP MovImmP SetccP.

Ltac nc_from H :=
  match type of H with
  | match ?r with _ => _ end =>
      destruct r as [? ?|[]]; try contradiction;
      repeat match goal with
             | H : _ /\ _ |- _ => destruct H
             | H : exists _, _ |- _ => destruct H
             | H : _ \/ _ |- _ => destruct H
             end; subst; try exact I;
      match goal with H : ?run = _ |- no_crash (fst ?run) => rewrite H; exact I end
  end.

Lemma refines_no_crash i s sm run : refines i s sm run -> no_crash (fst run).
Proof. unfold refines. intros H. nc_from H. Qed.
Lemma refines32_no_crash i s sm run : refines32 i s sm run -> no_crash (fst run).
Proof. unfold refines32. intros H. nc_from H. Qed.
Lemma alu_refines_no_crash i s op run : alu_refines i s op run -> no_crash (fst run).
Proof. unfold alu_refines. intros H. nc_from H. Qed.
Lemma alu32_refines_no_crash i s op run : alu32_refines i s op run -> no_crash (fst run).
Proof. unfold alu32_refines. intros H. nc_from H. Qed.
Lemma rmw_refines_no_crash i s op run : rmw_refines i s op run -> no_crash (fst run).
Proof. unfold rmw_refines. intros H. nc_from H. Qed.
Lemma rmwi_refines_no_crash i s op run : rmwi_refines i s op run -> no_crash (fst run).
Proof. unfold rmwi_refines. intros H. nc_from H. Qed.
Lemma rmw32_refines_no_crash i s op run : rmw32_refines i s op run -> no_crash (fst run).
Proof. unfold rmw32_refines. intros H. nc_from H. Qed.
Lemma un_refines_no_crash i s op run : un_refines i s op run -> no_crash (fst run).
Proof. unfold un_refines. intros H. nc_from H. Qed.
Lemma un32_refines_no_crash i s op run : un32_refines i s op run -> no_crash (fst run).
Proof. unfold un32_refines. intros H. nc_from H. Qed.
Lemma test_refines_no_crash i s w run : test_refines i s w run -> no_crash (fst run).
Proof. unfold test_refines. intros H. nc_from H. Qed.
Lemma adc_refines_no_crash i s run : adc_refines i s run -> no_crash (fst run).
Proof. unfold adc_refines. intros H. nc_from H. Qed.
Lemma xori_refines_no_crash i s run : xori_refines i s run -> no_crash (fst run).
Proof. unfold xori_refines. intros H. nc_from H. Qed.
Lemma set_refines_no_crash i s cc0 run : set_refines i s cc0 run -> no_crash (fst run).
Proof. intros (s' & E & _). rewrite E. exact I. Qed.
