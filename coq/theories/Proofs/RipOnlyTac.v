(* "RIP-only" computations: memory, vector registers, flags, segment bases and every general register
   except RIP are left exactly as they were (the control-flow log may change).  Closed under the monad
   operations; the lemmas for the generated jump functions are emitted into gen/RipOnly.v and proved by
   [ripo_tac].  A jump that touches anything else fails its lemma. *)
From Coq Require Import ZArith Bool List Lia.
From AxV Require Import Bits Outcome Codes Iced State Rt Mem Trace ReadonlyTac.
From AxG Require Import Flags Regs Readonly.
Local Open Scope Z_scope.

Definition only_rip (s s' : mstate) : Prop :=
  mem s' = mem s /\ xmms s' = xmms s /\ rflags s' = rflags s /\ fs s' = fs s /\ gs s' = gs s /\
  forall r, r <> RIP -> regs s' r = regs s r.
Definition ripo {A} (m : MM A) : Prop := forall s, only_rip s (snd (m s)).

Lemma only_rip_refl s : only_rip s s. Proof. repeat split. Qed.
Lemma only_rip_trans a b c : only_rip a b -> only_rip b c -> only_rip a c.
Proof.
  intros (A1 & A2 & A3 & A4 & A5 & A6) (B1 & B2 & B3 & B4 & B5 & B6).
  repeat split; try congruence. intros r Hr. rewrite (B6 r Hr). apply A6. exact Hr.
Qed.

Lemma ripo_ret {A} (a : A) : ripo (ret a). Proof. intros s. apply only_rip_refl. Qed.
Lemma ripo_lift {A} (x : outcome A) : ripo (lift x). Proof. intros s. apply only_rip_refl. Qed.
Lemma ripo_fail {A} e : ripo (@fail mstate A e). Proof. intros s. apply only_rip_refl. Qed.
Lemma ripo_bind {A B} (m : MM A) (f : A -> MM B) : ripo m -> (forall a, ripo (f a)) -> ripo (bind m f).
Proof.
  intros Hm Hf s. unfold bind. specialize (Hm s).
  destruct (m s) as [[a|e|p|] s1]; cbn [snd] in *; try exact Hm.
  eapply only_rip_trans; [exact Hm|apply Hf].
Qed.
Lemma ripo_of_readonly {A} (m : MM A) : readonly m -> ripo m.
Proof. intros H s. rewrite (H s). apply only_rip_refl. Qed.
Lemma ripo_get_rflags : ripo get_rflags. Proof. intros s; apply only_rip_refl. Qed.
Lemma ripo_reg_read_64 c r : ripo (reg_read_64 c r). Proof. apply ripo_of_readonly. apply readonly_reg_read_64. Qed.
Lemma ripo_reg_read_32 c r : ripo (reg_read_32 c r). Proof. apply ripo_of_readonly. apply readonly_reg_read_32. Qed.
Lemma ripo_write_rip c v : ripo (reg_write_64 c RIP v).
Proof.
  intros s. change (snd (reg_write_64 c RIP v s)) with (set_regs s (upd (regs s) RIP v)).
  repeat split. intros r Hr. cbn [regs set_regs]. unfold upd. destruct (reg_eqb RIP r) eqn:E; [|reflexivity].
  destruct r; try discriminate E. contradiction.
Qed.
Lemma ripo_add_trace c i t v : ripo (add_trace c i t v).
Proof.
  intros s. unfold add_trace.
  destruct (sub_chk c U64 (regs s RIP) (i_len i)) as [ip|e|p|]; try apply only_rip_refl.
  destruct (rev (trace s)) as [|last before]; [repeat split|].
  destruct (t_variant last); [repeat split|repeat split|].
  match goal with |- context [if ?b then _ else _] => destruct b end; [|repeat split].
  destruct (add_chk c U64 (t_count last) 1); repeat split.
Qed.
Lemma ripo_trace_jump c i t : ripo (trace_jump c i t). Proof. apply ripo_add_trace. Qed.

Create HintDb ripodb discriminated.
#[export] Hint Resolve ripo_ret ripo_lift ripo_fail ripo_get_rflags ripo_reg_read_64 ripo_reg_read_32 ripo_write_rip ripo_trace_jump : ripodb.

Ltac ripo_step :=
  match goal with
  | |- ripo (bind _ _) => apply ripo_bind; [|intros]
  | |- ripo (if ?c then _ else _) => destruct c
  | |- ripo (match ?x with _ => _ end) => destruct x
  | |- ripo _ => solve [auto with ripodb]
  | |- forall _, _ => intro
  end.
Ltac ripo_tac := cbv zeta; repeat ripo_step.
