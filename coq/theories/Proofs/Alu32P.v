(* C01/C02/C06: the 32-bit ALU forms (ADD, SUB, CMP, AND, XOR; register-register, r32 <- r/m32,
   m32 <- r32) against the ISA specification.  A 32-bit destination register is zero-extended to
   64 bits.  The arithmetic lemmas are the 64-bit ones of AluP.v at half the width. *)
From Coq Require Import ZArith Bool List Lia.
From AxV Require Import Bits Outcome Codes Iced State Rt Mem Trace BitsP ByteStore MemP RegFile RegsP ISA CodeSem ReadonlyTac
  OperandP FlagsP CfP MovP RmP AluP AluRmP AluMemP.
From AxG Require Import Flags Regs Operand Helpers I_add I_and I_xor I_sub I_cmp.
Local Open Scope Z_scope.
Ltac Zify.zify_post_hook ::= Z.div_mod_to_equations.

Lemma add32_closure c d sv :
  0 <= d < 2 ^ 32 -> 0 <= sv < 2 ^ 32 ->
  (let v_result := wadd U32 d sv in
   t1_v <~ add_chk c U64 (cast U32 U64 d) (cast U32 U64 sv) ;;
   Ok (v_result,
       Z.lor (if negb (Z.land v_result 2147483648 =? Z.land d 2147483648) &&
                 negb (Z.land v_result 2147483648 =? Z.land sv 2147483648)
              then FLAG_OF else 0)
             (if negb (Z.land t1_v 4294967296 =? 0) then FLAG_CF else 0)))%out
  = Ok ((d + sv) mod 2 ^ 32,
        Z.lor (b2f (negb (fits_signed 32 (sgn 32 d + sgn 32 sv))) FLAG_OF) (b2f (2 ^ 32 <=? d + sv) FLAG_CF)).
Proof.
  intros Hd Hs. cbv zeta.
  assert (C1 : cast U32 U64 d = d) by (unfold cast, Bits.sem, enc, modulus; cbn [signed width]; apply Z.mod_small; change (2 ^ 64) with 18446744073709551616; change (2 ^ 32) with 4294967296 in *; lia).
  assert (C2 : cast U32 U64 sv = sv) by (unfold cast, Bits.sem, enc, modulus; cbn [signed width]; apply Z.mod_small; change (2 ^ 64) with 18446744073709551616; change (2 ^ 32) with 4294967296 in *; lia).
  rewrite C1, C2.
  assert (A : add_chk c U64 d sv = Ok (d + sv)).
  { unfold add_chk.
    assert (R : in_range U64 (Bits.sem U64 d + Bits.sem U64 sv) = true).
    { unfold in_range, Bits.sem, modulus; cbn [signed width]. change (2 ^ 64) with 18446744073709551616.
      change (2 ^ 32) with 4294967296 in *. apply andb_true_iff. split; [apply Z.leb_le|apply Z.ltb_lt]; lia. }
    assert (W : wadd U64 d sv = d + sv) by (unfold wadd; apply enc_small; unfold modulus; cbn [width]; change (2 ^ 64) with 18446744073709551616; change (2 ^ 32) with 4294967296 in *; lia).
    destruct (ovf c); rewrite ?R, W; reflexivity. }
  rewrite A. cbn [obind].
  assert (W : wadd U32 d sv = (d + sv) mod 2 ^ 32) by reflexivity. rewrite W.
  set (r := (d + sv) mod 2 ^ 32).
  assert (Hr : 0 <= r < 2 ^ 32) by (apply Z.mod_pos_bound; reflexivity).
  change 2147483648 with (2 ^ 31). change 4294967296 with (2 ^ 32).
  rewrite (land_signbit r 31), (land_signbit d 31), (land_signbit sv 31) by (try lia; assumption).
  rewrite (land_signbit (d + sv) 32) by (try lia; change (2 ^ (32 + 1)) with 8589934592; change (2 ^ 32) with 4294967296 in *; lia).
  f_equal. f_equal. f_equal.
  - (* OF *)
    unfold fits_signed, sgn. change (2 ^ (32 - 1)) with (2 ^ 31). unfold r in *.
    change (2 ^ 31) with 2147483648 in *. change (2 ^ 32) with 4294967296 in *.
    destruct (Z.leb_spec 2147483648 ((d + sv) mod 4294967296));
      destruct (Z.leb_spec 2147483648 d); destruct (Z.leb_spec 2147483648 sv);
      destruct (Z.ltb_spec d 2147483648); destruct (Z.ltb_spec sv 2147483648); try lia;
      cbn [Z.eqb negb andb b2f];
      match goal with |- context [(?a <=? ?b) && (?x <? ?y)] => destruct (Z.leb_spec a b); destruct (Z.ltb_spec x y) end;
      cbn [negb andb b2f]; try reflexivity; lia.
  - (* CF *)
    destruct (2 ^ 32 <=? d + sv); reflexivity.
Qed.

Lemma cast_u32_i64 x : 0 <= x < 2 ^ 32 -> cast U32 I64 x = x.
Proof.
  intros H. unfold cast, Bits.sem, enc, modulus; cbn [signed width]. apply Z.mod_small.
  change (2 ^ 64) with 18446744073709551616. change (2 ^ 32) with 4294967296 in *. lia.
Qed.

Lemma sub_result32 d sv : 0 <= d < 2 ^ 32 -> 0 <= sv < 2 ^ 32 ->
  cast I32 U32 (wsub I32 (cast U32 I32 d) (cast U32 I32 sv)) = (d - sv) mod 2 ^ 32.
Proof.
  intros Hd Hs. unfold cast, wsub, Bits.sem, enc, modulus; cbn [signed width].
  change (2 ^ (32 - 1)) with 2147483648. change (2 ^ 32) with 4294967296 in *.
  repeat match goal with |- context [if ?b then _ else _] => destruct b end; lia.
Qed.

Lemma bit31_of_land_lxor d sv r :
  0 <= d < 2 ^ 32 -> 0 <= sv < 2 ^ 32 -> 0 <= r < 2 ^ 32 ->
  (Z.land (Z.land (Z.lxor d sv) (Z.lxor d r)) (2 ^ 31) =? 0) =
  negb (xorb (2 ^ 31 <=? d) (2 ^ 31 <=? sv) && xorb (2 ^ 31 <=? d) (2 ^ 31 <=? r)).
Proof.
  intros Hd Hs Hr. rewrite land_pow2_testbit by lia. rewrite Z.land_spec, !Z.lxor_spec.
  rewrite !(testbit_top _ 31) by (try lia; assumption). reflexivity.
Qed.

Lemma sub32_closure d sv :
  0 <= d < 2 ^ 32 -> 0 <= sv < 2 ^ 32 ->
  (let v_result := cast I32 U32 (wsub I32 (cast U32 I32 d) (cast U32 I32 sv)) in
   (v_result,
    Z.lor (if negb (Z.land (Z.land (Z.lxor (cast U32 I64 d) (cast U32 I64 sv)) (Z.lxor (cast U32 I64 d) (cast U32 I64 v_result)))
                           2147483648 =? 0) then FLAG_OF else 0)
          (if Z.land (wsub I64 (Z.lor (cast U32 I64 d) 4294967296) (cast U32 I64 sv)) 4294967296 =? 0
           then FLAG_CF else 0)))
  = ((d - sv) mod 2 ^ 32,
     Z.lor (b2f (negb (fits_signed 32 (sgn 32 d - sgn 32 sv))) FLAG_OF) (b2f (d <? sv) FLAG_CF)).
Proof.
  intros Hd Hs. cbv zeta. rewrite sub_result32 by assumption.
  set (r := (d - sv) mod 2 ^ 32). assert (Hr : 0 <= r < 2 ^ 32) by (apply Z.mod_pos_bound; reflexivity).
  rewrite !cast_u32_i64 by assumption.
  change 2147483648 with (2 ^ 31). rewrite (bit31_of_land_lxor d sv r Hd Hs Hr).
  f_equal. f_equal.
  - (* OF *)
    f_equal. unfold fits_signed, sgn. change (2 ^ (32 - 1)) with (2 ^ 31). unfold r in *.
    change (2 ^ 31) with 2147483648 in *. change (2 ^ 32) with 4294967296 in *.
    destruct (Z.leb_spec 2147483648 ((d - sv) mod 4294967296));
      destruct (Z.leb_spec 2147483648 d); destruct (Z.leb_spec 2147483648 sv);
      destruct (Z.ltb_spec d 2147483648); destruct (Z.ltb_spec sv 2147483648); try lia;
      cbn [xorb negb andb];
      match goal with |- context [(?a <=? ?b) && (?x <? ?y)] => destruct (Z.leb_spec a b); destruct (Z.ltb_spec x y) end;
      cbn [negb andb]; try reflexivity; lia.
  - (* CF: the borrow *)
    assert (L : Z.lor d 4294967296 = d + 4294967296) by (apply (lor_pow2_add d 32); [lia|assumption]).
    rewrite L.
    assert (W : wsub I64 (d + 4294967296) sv = d + 4294967296 - sv).
    { unfold wsub, Bits.sem, enc, modulus; cbn [signed width]. change (2 ^ (64 - 1)) with 9223372036854775808.
      change (2 ^ 64) with 18446744073709551616. change (2 ^ 32) with 4294967296 in *.
      repeat match goal with |- context [if ?b then _ else _] => destruct b eqn:? end;
        try (apply Z.ltb_ge in Heqb; lia); try (apply Z.ltb_ge in Heqb0; lia); apply Z.mod_small; lia. }
    rewrite W. change 4294967296 with (2 ^ 32).
    rewrite (land_signbit (d + 2 ^ 32 - sv) 32) by (try lia; change (2 ^ (32 + 1)) with 8589934592; change (2 ^ 32) with 4294967296 in *; lia).
    change (2 ^ 32) with 4294967296 in *.
    destruct (Z.leb_spec 4294967296 (d + 4294967296 - sv)); destruct (Z.ltb_spec d sv); try lia; reflexivity.
Qed.

Lemma add_result_i32 d sv : 0 <= d < 2 ^ 32 -> 0 <= sv < 2 ^ 32 ->
  cast I32 U32 (wadd I32 (cast U32 I32 d) (cast U32 I32 sv)) = wadd U32 d sv.
Proof.
  intros Hd Hs. unfold cast, wadd, Bits.sem, enc, modulus; cbn [signed width].
  change (2 ^ (32 - 1)) with 2147483648. change (2 ^ 32) with 4294967296 in *.
  repeat match goal with |- context [if ?b then _ else _] => destruct b end; lia.
Qed.

Lemma add32_closure_i32 c d sv : 0 <= d < 2 ^ 32 -> 0 <= sv < 2 ^ 32 ->
  (let v_result := wadd I32 (cast U32 I32 d) (cast U32 I32 sv) in
   t1_v <~ add_chk c U64 (cast U32 U64 d) (cast U32 U64 sv) ;;
   Ok (cast I32 U32 v_result,
       Z.lor (if negb (Z.land (cast I32 U32 v_result) 2147483648 =? Z.land d 2147483648) &&
                 negb (Z.land (cast I32 U32 v_result) 2147483648 =? Z.land sv 2147483648)
              then FLAG_OF else 0)
             (if negb (Z.land t1_v 4294967296 =? 0) then FLAG_CF else 0)))%out
  = Ok ((d + sv) mod 2 ^ 32,
        Z.lor (b2f (negb (fits_signed 32 (sgn 32 d + sgn 32 sv))) FLAG_OF) (b2f (2 ^ 32 <=? d + sv) FLAG_CF)).
Proof.
  intros Hd Hs. cbv zeta. rewrite (add_result_i32 d sv Hd Hs). exact (add32_closure c d sv Hd Hs).
Qed.

(* ---- 32-bit operand reads ---- *)
Lemma rf_read_range32 f r : is_gpr32 r = true -> 0 <= rf_read f r < 2 ^ 32.
Proof.
  intros H. unfold rf_read. destruct r; try discriminate H; cbn [to_qword view_lo view_width is_gpr8 is_gpr16 is_gpr32];
    apply Z.mod_pos_bound; reflexivity.
Qed.
Lemma rf_read_mod32 f r : is_gpr32 r = true -> rf_read f r mod 2 ^ 32 = rf_read f r.
Proof. intros H. apply Z.mod_small. apply rf_read_range32. exact H. Qed.

Lemma cast_u64_u32_id v : 0 <= v < 2 ^ 32 -> cast U64 U32 v = v.
Proof. intros H. unfold cast, Bits.sem, enc, modulus; cbn [signed width]. apply Z.mod_small. exact H. Qed.
Lemma cast_u32_u64_id v : 0 <= v < 2 ^ 32 -> cast U32 U64 v = v.
Proof.
  intros H. unfold cast, Bits.sem, enc, modulus; cbn [signed width]. apply Z.mod_small.
  change (2 ^ 32) with 4294967296 in H. change (2 ^ 64) with 18446744073709551616. lia.
Qed.

Definition rm32_shape (i : instr) (k : Z) : Prop :=
  (i_op_kind i k = OK_Register /\ is_gpr32 (i_op_register i k) = true) \/
  (i_op_kind i k = OK_Memory /\ wf_mem_instr i).

Lemma gpr32_supported r : is_gpr32 r = true -> is_supported r = true.
Proof. destruct r; intros H; try discriminate H; reflexivity. Qed.

Section RRm32.
  Variables (c : cfg) (i : instr) (s : mstate).
  Hypothesis Hwf : wf_regs s.
  Hypothesis HI : Inv (mem s).
  Hypothesis Hn : i_op_count i = 2.
  Hypothesis K0 : i_op_kind i 0 = OK_Register.
  Hypothesis H0 : is_gpr32 (i_op_register i 0) = true.
  Hypothesis Hs1 : rm32_shape i 1.

  Let r0 := i_op_register i 0.
  Let d := rf_read (regs s) r0.

  Lemma operands_2_r_rm32 :
    exists o1, instruction_operands_2 c i s = (Ok (OpRegister r0, o1), s) /\
      match read_op i 1 32 s with
      | Some sv =>
          0 <= sv < 2 ^ 32 /\
          ((exists r1, o1 = OpRegister r1 /\ reg_read_32 c r1 s = (Ok sv, s)) \/
           (exists m, o1 = OpMemory m /\ mem_addr c m s = (Ok (ea i s), s) /\ mem_read_32 (ea i s) s = (Ok sv, s)))
      | None => exists m e, o1 = OpMemory m /\ mem_addr c m s = (Ok (ea i s), s) /\ mem_read_32 (ea i s) s = (Err e, s)
      end.
  Proof.
    assert (O0 : instruction_operand c i 0 s = (Ok (OpRegister r0), s))
      by (apply operand_register; [rewrite Hn; reflexivity|exact K0|reflexivity|apply gpr32_supported; exact H0]).
    unfold instruction_operands_2, read_op.
    destruct Hs1 as [[K1 H1]|[K1 Hm]]; rewrite K1.
    - assert (O1 : instruction_operand c i 1 s = (Ok (OpRegister (i_op_register i 1)), s))
        by (apply operand_register; [rewrite Hn; reflexivity|exact K1|reflexivity|apply gpr32_supported; exact H1]).
      eexists. split.
      + rewrite (bind_ok _ _ _ _ _ O0). rewrite (bind_ok _ _ _ _ _ O1). reflexivity.
      + rewrite rf_read_mod32 by exact H1. split; [apply rf_read_range32; exact H1|].
        left. eexists. split; [reflexivity|]. apply reg_read_32_ok; assumption.
    - destruct (operand_address c i 1 s Hwf Hm ltac:(rewrite Hn; reflexivity) K1) as (O1 & EA & _).
      eexists. split.
      + rewrite (bind_ok _ _ _ _ _ O0). rewrite (bind_ok _ _ _ _ _ O1). reflexivity.
      + unfold load. change (bytes_of 32) with 4%nat. change mem_read_32 with (mem_read_n 4).
        destruct (mem_read_n_cases 4 (ea i s) s HI) as [(v & E & R)|(e & E)]; rewrite E.
        * split; [exact R|]. right. eexists. split; [reflexivity|]. split; [exact EA|reflexivity].
        * eexists. eexists. split; [reflexivity|]. split; [exact EA|reflexivity].
  Qed.

  Lemma calc_r_rm_32f_shape (op : Z -> Z -> outcome (Z * Z)) fset fclear :
    match read_op i 1 32 s with
    | Some sv =>
        0 <= sv < 2 ^ 32 /\
        forall res fl, op d sv = Ok (res, fl) -> Z.land fl NO_WRITEBACK = 0 ->
          calculate_r_rm_32f c i op fset fclear s =
          bind (set_flags_u32 c (Z.lor fset fl) fclear res)
               (fun _ => if Z.land fset NO_WRITEBACK =? 0 then reg_write_32 c r0 (cast U32 U64 res) else ret tt) s
    | None => exists e, calculate_r_rm_32f c i op fset fclear s = (Err e, s)
    end.
  Proof.
    destruct operands_2_r_rm32 as (o1 & OP & SRC).
    assert (TR : lift (operand_to_reg (OpRegister r0)) s = (Ok r0, s)) by reflexivity.
    pose proof (reg_read_32_ok c r0 s Hwf H0) as RD. fold d in RD.
    assert (Hd : 0 <= d < 2 ^ 32) by (apply rf_read_range32; exact H0).
    unfold calculate_r_rm_32f.
    destruct (read_op i 1 32 s) as [sv|].
    - destruct SRC as [Hsv SRC]. split; [exact Hsv|]. intros res fl Hop Hfl.
      rewrite (bind_ok _ _ _ _ _ OP). cbv beta iota.
      rewrite (bind_ok _ _ _ _ _ TR). rewrite (bind_ok _ _ _ _ _ RD).
      assert (DA : lift (debug_assert_that c (Z.land fl NO_WRITEBACK =? 0)) s = (Ok tt, s)).
      { unfold lift, debug_assert_that, assert_that. rewrite Hfl. destruct (dbg c); reflexivity. }
      destruct SRC as [(r1 & -> & R1)|(m & -> & EA & R1)]; cbv iota.
      + rewrite (bind_ok _ _ _ _ _ R1). rewrite (cast_u64_u32_id d Hd), (cast_u64_u32_id sv Hsv). rewrite Hop.
        rewrite (bind_ok _ _ _ _ _ (eq_refl : lift (Ok (res, fl)) s = _)). cbv beta iota.
        rewrite (bind_ok _ _ _ _ _ DA).
        unfold bind.
        destruct (set_flags_u32 c (Z.lor fset fl) fclear res s) as [[[]|e|p|] s1]; try reflexivity.
        destruct (Z.land fset NO_WRITEBACK =? 0); [|reflexivity].
        destruct (reg_write_32 c r0 (cast U32 U64 res) s1) as [[[]|e|p|] s2]; reflexivity.
      + rewrite (bind_ok _ _ _ _ _ EA). rewrite (bind_ok _ _ _ _ _ R1). rewrite (cast_u64_u32_id d Hd), (cast_u64_u32_id sv Hsv). rewrite Hop.
        rewrite (bind_ok _ _ _ _ _ (eq_refl : lift (Ok (res, fl)) s = _)). cbv beta iota.
        rewrite (bind_ok _ _ _ _ _ DA).
        unfold bind.
        destruct (set_flags_u32 c (Z.lor fset fl) fclear res s) as [[[]|e|p|] s1]; try reflexivity.
        destruct (Z.land fset NO_WRITEBACK =? 0); [|reflexivity].
        destruct (reg_write_32 c r0 (cast U32 U64 res) s1) as [[[]|e|p|] s2]; reflexivity.
    - destruct SRC as (m & e & -> & EA & R1). exists e.
      rewrite (bind_ok _ _ _ _ _ OP). cbv beta iota.
      rewrite (bind_ok _ _ _ _ _ TR). rewrite (bind_ok _ _ _ _ _ RD).
      rewrite (bind_ok _ _ _ _ _ EA). rewrite (bind_err _ _ _ _ _ R1). reflexivity.
  Qed.
End RRm32.

Section Forms32.
  Variables (c : cfg) (i : instr) (s : mstate).
  Hypothesis Hwf : wf_regs s.
  Hypothesis HI : Inv (mem s).
  Hypothesis Hrf : 0 <= rflags s < 2 ^ 63.
  Hypothesis Hn : i_op_count i = 2.
  Hypothesis K0 : i_op_kind i 0 = OK_Register.
  Hypothesis H0 : is_gpr32 (i_op_register i 0) = true.
  Hypothesis Hs1 : rm32_shape i 1.

  Let Hrf64 : 0 <= rflags s < 2 ^ 64.
  Proof. change (2 ^ 63) with 9223372036854775808 in Hrf. change (2 ^ 64) with 18446744073709551616. lia. Qed.

  Definition alu32_refines (op : aluop) (run : outcome unit * mstate) : Prop :=
    match isa_exec (SAlu op 32) i s with
    | IDone s' u => run = (Ok tt, s') /\ u = 0
    | IFault FMem => exists e, run = (Err e, s)
    | IFault _ => False
    end.

  Ltac start Ec f :=
    unfold alu32_refines, f; rewrite Ec;
    rewrite (bind_ok _ _ _ _ _ (dbg_code_ok c s _ eq_refl));
    cbn [isa_exec]; unfold exec_alu; unfold read_op at 1; rewrite K0; rewrite rf_read_mod32 by exact H0.

  Ltac wr32 := rewrite cast_u32_u64_id by (apply Z.mod_pos_bound; reflexivity);
               rewrite reg_write_32_ok by (first [exact H0 | apply Z.mod_pos_bound; reflexivity]).

  Theorem add_r32_rm32_refines : i_code i = C_Add_r32_rm32 -> alu32_refines ADD (instr_add_r32_rm32 c i s).
  Proof.
    intros Ec. start Ec instr_add_r32_rm32.
    match goal with |- context [calculate_r_rm_32f c i ?op ?fs ?fc s] =>
      pose proof (calc_r_rm_32f_shape c i s Hwf HI Hn K0 H0 Hs1 op fs fc) as SH end.
    destruct (read_op i 1 32 s) as [sv|]; [|exact SH]. destruct SH as [Hsv SH].
    set (d := rf_read (regs s) (i_op_register i 0)) in *.
    assert (Hd : 0 <= d < 2 ^ 32) by (apply rf_read_range32; exact H0).
    set (cfb := 2 ^ 32 <=? d + sv). set (ofb := negb (fits_signed 32 (sgn 32 d + sgn 32 sv))).
    assert (Hfl : Z.land (Z.lor (b2f ofb FLAG_OF) (b2f cfb FLAG_CF)) NO_WRITEBACK = 0) by (destruct ofb, cfb; reflexivity).
    rewrite (SH _ _ (add32_closure_i32 c d sv Hd Hsv) Hfl).
    change (Z.lor (Z.lor (Z.lor FLAG_SF FLAG_ZF) FLAG_PF) (Z.lor (b2f ofb FLAG_OF) (b2f cfb FLAG_CF))) with (arith_fs cfb ofb).
    change (Z.lor FLAG_OF FLAG_CF) with 2049.
    rewrite (bind_ok _ _ _ _ _ (set_flags_u32_arith c cfb ofb _ s Hrf64)).
    change (Z.land (Z.lor (Z.lor FLAG_SF FLAG_ZF) FLAG_PF) NO_WRITEBACK =? 0) with true. cbv iota.
    wr32.
    cbn [alu]. rewrite !Z.add_0_r. fold cfb ofb. unfold write_op. rewrite K0. cbn [opt_done]. split; reflexivity.
  Qed.

  Theorem sub_r32_rm32_refines : i_code i = C_Sub_r32_rm32 -> alu32_refines SUB (instr_sub_r32_rm32 c i s).
  Proof.
    intros Ec. start Ec instr_sub_r32_rm32.
    match goal with |- context [calculate_r_rm_32f c i ?op ?fs ?fc s] =>
      pose proof (calc_r_rm_32f_shape c i s Hwf HI Hn K0 H0 Hs1 op fs fc) as SH end.
    destruct (read_op i 1 32 s) as [sv|]; [|exact SH]. destruct SH as [Hsv SH].
    set (d := rf_read (regs s) (i_op_register i 0)) in *.
    assert (Hd : 0 <= d < 2 ^ 32) by (apply rf_read_range32; exact H0).
    set (cfb := d <? sv). set (ofb := negb (fits_signed 32 (sgn 32 d - sgn 32 sv))).
    assert (Hfl : Z.land (Z.lor (b2f ofb FLAG_OF) (b2f cfb FLAG_CF)) NO_WRITEBACK = 0) by (destruct ofb, cfb; reflexivity).
    rewrite (SH _ _ (f_equal Ok (sub32_closure d sv Hd Hsv)) Hfl).
    change (Z.lor (Z.lor (Z.lor FLAG_SF FLAG_ZF) FLAG_PF) (Z.lor (b2f ofb FLAG_OF) (b2f cfb FLAG_CF))) with (arith_fs cfb ofb).
    change (Z.lor FLAG_CF FLAG_OF) with 2049.
    rewrite (bind_ok _ _ _ _ _ (set_flags_u32_arith c cfb ofb _ s Hrf64)).
    change (Z.land (Z.lor (Z.lor FLAG_SF FLAG_ZF) FLAG_PF) NO_WRITEBACK =? 0) with true. cbv iota.
    wr32.
    cbn [alu]. fold cfb ofb. unfold write_op. rewrite K0. cbn [opt_done]. split; reflexivity.
  Qed.

  Theorem cmp_r32_rm32_refines : i_code i = C_Cmp_r32_rm32 -> alu32_refines CMP (instr_cmp_r32_rm32 c i s).
  Proof.
    intros Ec. start Ec instr_cmp_r32_rm32.
    match goal with |- context [calculate_r_rm_32f c i ?op ?fs ?fc s] =>
      pose proof (calc_r_rm_32f_shape c i s Hwf HI Hn K0 H0 Hs1 op fs fc) as SH end.
    destruct (read_op i 1 32 s) as [sv|]; [|exact SH]. destruct SH as [Hsv SH].
    set (d := rf_read (regs s) (i_op_register i 0)) in *.
    assert (Hd : 0 <= d < 2 ^ 32) by (apply rf_read_range32; exact H0).
    set (cfb := d <? sv). set (ofb := negb (fits_signed 32 (sgn 32 d - sgn 32 sv))).
    assert (Hfl : Z.land (Z.lor (b2f ofb FLAG_OF) (b2f cfb FLAG_CF)) NO_WRITEBACK = 0) by (destruct ofb, cfb; reflexivity).
    rewrite (SH _ _ (f_equal Ok (sub32_closure d sv Hd Hsv)) Hfl).
    change (Z.lor (Z.lor (Z.lor (Z.lor NO_WRITEBACK FLAG_SF) FLAG_ZF) FLAG_PF) (Z.lor (b2f ofb FLAG_OF) (b2f cfb FLAG_CF))) with (cmp_fs cfb ofb).
    change (Z.lor FLAG_CF FLAG_OF) with 2049.
    rewrite (bind_ok _ _ _ _ _ (set_flags_u32_cmp c cfb ofb _ s Hrf)).
    change (Z.land (Z.lor (Z.lor (Z.lor NO_WRITEBACK FLAG_SF) FLAG_ZF) FLAG_PF) NO_WRITEBACK =? 0) with false. cbv iota.
    cbn [alu]. fold cfb ofb. split; reflexivity.
  Qed.
End Forms32.

Lemma bits_range n x : 0 <= n -> 0 <= x -> (forall k, n <= k -> Z.testbit x k = false) -> x < 2 ^ n.
Proof.
  intros Hn Hx H.
  assert (E : x = x mod 2 ^ n).
  { apply Z.bits_inj'. intros k Hk. destruct (Z.lt_ge_cases k n).
    - rewrite Z.mod_pow2_bits_low by lia. reflexivity.
    - rewrite Z.mod_pow2_bits_high by lia. apply H. lia. }
  rewrite E. apply Z.mod_pos_bound. apply Z.pow_pos_nonneg; lia.
Qed.
Lemma land_range32 a b : 0 <= a < 2 ^ 32 -> 0 <= b < 2 ^ 32 -> 0 <= Z.land a b < 2 ^ 32.
Proof.
  intros Ha Hb. split; [apply Z.land_nonneg; lia|].
  apply bits_range; [lia|apply Z.land_nonneg; lia|]. intros k Hk.
  rewrite Z.land_spec. rewrite (testbit_high a 32 k) by (try lia; exact Ha). reflexivity.
Qed.
Lemma lxor_range32 a b : 0 <= a < 2 ^ 32 -> 0 <= b < 2 ^ 32 -> 0 <= Z.lxor a b < 2 ^ 32.
Proof.
  intros Ha Hb. assert (P : 0 <= Z.lxor a b) by (apply Z.lxor_nonneg; lia). split; [exact P|].
  apply bits_range; [lia|exact P|]. intros k Hk.
  rewrite Z.lxor_spec. rewrite (testbit_high a 32 k), (testbit_high b 32 k) by (try lia; assumption). reflexivity.
Qed.

Lemma set_flags32_unaffected c v s : set_flags_u32 c FLAGS_UNAFFECTED 0 v s = (Ok tt, s).
Proof. reflexivity. Qed.

Section RRm32NoFlags.
  Variables (c : cfg) (i : instr) (s : mstate).
  Hypothesis Hwf : wf_regs s.
  Hypothesis HI : Inv (mem s).
  Hypothesis Hn : i_op_count i = 2.
  Hypothesis K0 : i_op_kind i 0 = OK_Register.
  Hypothesis H0 : is_gpr32 (i_op_register i 0) = true.
  Hypothesis Hs1 : rm32_shape i 1.

  Let r0 := i_op_register i 0.
  Let d := rf_read (regs s) r0.

  Lemma calc_r_rm_32_shape (op : Z -> Z -> outcome Z) fset fclear :
    match read_op i 1 32 s with
    | Some sv =>
        0 <= sv < 2 ^ 32 /\
        forall res, op d sv = Ok res ->
          calculate_r_rm_32 c i op fset fclear s =
          bind (set_flags_u32 c fset fclear res)
               (fun _ => if Z.land fset NO_WRITEBACK =? 0 then reg_write_32 c r0 (cast U32 U64 res) else ret tt) s
    | None => exists e, calculate_r_rm_32 c i op fset fclear s = (Err e, s)
    end.
  Proof.
    destruct (operands_2_r_rm32 c i s Hwf HI Hn K0 H0 Hs1) as (o1 & OP & SRC). fold r0 in OP.
    assert (TR : lift (operand_to_reg (OpRegister r0)) s = (Ok r0, s)) by reflexivity.
    pose proof (reg_read_32_ok c r0 s Hwf H0) as RD. fold d in RD.
    assert (Hd : 0 <= d < 2 ^ 32) by (apply rf_read_range32; exact H0).
    unfold calculate_r_rm_32.
    destruct (read_op i 1 32 s) as [sv|].
    - destruct SRC as [Hsv SRC]. split; [exact Hsv|]. intros res Hop.
      rewrite (bind_ok _ _ _ _ _ OP). cbv beta iota.
      assert (RS : (match o1 with
                    | OpMemory v_m => bind (mem_addr c v_m) (fun t1_v => mem_read_32 t1_v)
                    | OpRegister v_r => reg_read_32 c v_r
                    | _ => fail EFatal end) s = (Ok sv, s)).
      { destruct SRC as [(r1 & -> & R1)|(m & -> & EA & R1)]; [exact R1|]. rewrite (bind_ok _ _ _ _ _ EA). exact R1. }
      rewrite (bind_ok _ _ _ _ _ RS).
      rewrite (bind_ok _ _ _ _ _ TR). rewrite (bind_ok _ _ _ _ _ RD).
      rewrite (cast_u64_u32_id d Hd), (cast_u64_u32_id sv Hsv). rewrite Hop.
      rewrite (bind_ok _ _ _ _ _ (eq_refl : lift (Ok res) s = _)).
      unfold bind.
      destruct (set_flags_u32 c fset fclear res s) as [[[]|e|p|] s1]; try reflexivity.
      destruct (Z.land fset NO_WRITEBACK =? 0); [|reflexivity].
      destruct (reg_write_32 c r0 (cast U32 U64 res) s1) as [[[]|e|p|] s2]; reflexivity.
    - destruct SRC as (m & e & -> & EA & R1). exists e.
      rewrite (bind_ok _ _ _ _ _ OP). cbv beta iota.
      rewrite ?bind_assoc. rewrite (bind_ok _ _ _ _ _ EA). rewrite (bind_err _ _ _ _ _ R1). reflexivity.
  Qed.
End RRm32NoFlags.

From AxG Require Import I_cmovae I_cmove I_cmovne I_mov.

Section Forms32NoFlags.
  Variables (c : cfg) (i : instr) (s : mstate).
  Hypothesis Hwf : wf_regs s.
  Hypothesis HI : Inv (mem s).
  Hypothesis Hrf : 0 <= rflags s < 2 ^ 64.
  Hypothesis Hn : i_op_count i = 2.
  Hypothesis K0 : i_op_kind i 0 = OK_Register.
  Hypothesis H0 : is_gpr32 (i_op_register i 0) = true.
  Hypothesis Hs1 : rm32_shape i 1.

  Theorem and_r32_rm32_refines : i_code i = C_And_r32_rm32 -> alu32_refines i s AND (instr_and_r32_rm32 c i s).
  Proof.
    intros Ec. unfold alu32_refines, instr_and_r32_rm32. rewrite Ec.
    rewrite (bind_ok _ _ _ _ _ (dbg_code_ok c s _ eq_refl)).
    cbn [isa_exec]. unfold exec_alu. unfold read_op at 1. rewrite K0. rewrite rf_read_mod32 by exact H0.
    match goal with |- context [calculate_r_rm_32f c i ?op ?fs ?fc s] =>
      pose proof (calc_r_rm_32f_shape c i s Hwf HI Hn K0 H0 Hs1 op fs fc) as SH end.
    destruct (read_op i 1 32 s) as [sv|]; [|exact SH]. destruct SH as [Hsv SH].
    assert (Hd : 0 <= rf_read (regs s) (i_op_register i 0) < 2 ^ 32) by (apply rf_read_range32; exact H0).
    rewrite (SH _ 0 eq_refl eq_refl).
    change (Z.lor (Z.lor (Z.lor FLAG_SF FLAG_ZF) FLAG_PF) 0) with (arith_fs false false).
    change (Z.lor FLAG_OF FLAG_CF) with 2049.
    rewrite (bind_ok _ _ _ _ _ (set_flags_u32_arith c false false _ s Hrf)).
    change (Z.land (Z.lor (Z.lor FLAG_SF FLAG_ZF) FLAG_PF) NO_WRITEBACK =? 0) with true. cbv iota.
    rewrite cast_u32_u64_id by (apply land_range32; assumption).
    rewrite reg_write_32_ok by (first [exact H0|apply land_range32; assumption]).
    cbn [alu b2f]. unfold write_op. rewrite K0. cbn [opt_done]. split; reflexivity.
  Qed.

  Theorem xor_r32_rm32_refines : i_code i = C_Xor_r32_rm32 -> alu32_refines i s XOR (instr_xor_r32_rm32 c i s).
  Proof.
    intros Ec. unfold alu32_refines, instr_xor_r32_rm32. rewrite Ec.
    rewrite (bind_ok _ _ _ _ _ (dbg_code_ok c s _ eq_refl)).
    cbn [isa_exec]. unfold exec_alu. unfold read_op at 1. rewrite K0. rewrite rf_read_mod32 by exact H0.
    match goal with |- context [calculate_r_rm_32 c i ?op ?fs ?fc s] =>
      pose proof (calc_r_rm_32_shape c i s Hwf HI Hn K0 H0 Hs1 op fs fc) as SH end.
    destruct (read_op i 1 32 s) as [sv|]; [|exact SH]. destruct SH as [Hsv SH].
    assert (Hd : 0 <= rf_read (regs s) (i_op_register i 0) < 2 ^ 32) by (apply rf_read_range32; exact H0).
    rewrite (SH _ eq_refl).
    change (Z.lor (Z.lor FLAG_ZF FLAG_SF) FLAG_PF) with (arith_fs false false).
    change (Z.lor FLAG_OF FLAG_CF) with 2049.
    rewrite (bind_ok _ _ _ _ _ (set_flags_u32_arith c false false _ s Hrf)).
    change (Z.land (arith_fs false false) NO_WRITEBACK =? 0) with true. cbv iota.
    rewrite cast_u32_u64_id by (apply lxor_range32; assumption).
    rewrite reg_write_32_ok by (first [exact H0|apply lxor_range32; assumption]).
    cbn [alu b2f]. unfold write_op. rewrite K0. cbn [opt_done]. split; reflexivity.
  Qed.

  Definition refines32 (sm : sem) (run : outcome unit * mstate) : Prop :=
    match isa_exec sm i s with
    | IDone s' u => run = (Ok tt, s') /\ u = 0
    | IFault FMem => exists e, run = (Err e, s)
    | IFault _ => False
    end.

  (* CMOVcc / MOV r32, r/m32: a 32-bit destination is zero-extended whether or not the condition holds *)
  Lemma cmov32_generic (b : bool) :
    match read_op i 1 32 s with
    | Some v => calculate_r_rm_32 c i (fun v_d v_s => Ok (if b then v_s else v_d)) FLAGS_UNAFFECTED 0 s
                = (Ok tt, write_reg s (i_op_register i 0) (if b then v else rf_read (regs s) (i_op_register i 0)))
    | None => exists e, calculate_r_rm_32 c i (fun v_d v_s => Ok (if b then v_s else v_d)) FLAGS_UNAFFECTED 0 s = (Err e, s)
    end.
  Proof.
    pose proof (calc_r_rm_32_shape c i s Hwf HI Hn K0 H0 Hs1 (fun v_d v_s => Ok (if b then v_s else v_d)) FLAGS_UNAFFECTED 0) as SH.
    destruct (read_op i 1 32 s) as [sv|]; [|exact SH]. destruct SH as [Hsv SH].
    assert (Hd : 0 <= rf_read (regs s) (i_op_register i 0) < 2 ^ 32) by (apply rf_read_range32; exact H0).
    rewrite (SH _ eq_refl). rewrite (bind_ok _ _ _ _ _ (set_flags32_unaffected c _ s)).
    change (Z.land FLAGS_UNAFFECTED NO_WRITEBACK =? 0) with true. cbv iota.
    assert (Hr : 0 <= (if b then sv else rf_read (regs s) (i_op_register i 0)) < 2 ^ 32) by (destruct b; assumption).
    rewrite cast_u32_u64_id by exact Hr.
    rewrite reg_write_32_ok by (first [exact H0|exact Hr]). reflexivity.
  Qed.

  Lemma cmov32_finish (cc0 : cc) (b : bool) run :
    cond cc0 (rflags s) = b ->
    run = calculate_r_rm_32 c i (fun v_d v_s => Ok (if b then v_s else v_d)) FLAGS_UNAFFECTED 0 s ->
    refines32 (SCmov cc0 32) run.
  Proof.
    intros Hc ->. unfold refines32. cbn [isa_exec]. pose proof (cmov32_generic b) as G.
    destruct (read_op i 1 32 s) as [v|]; [|exact G].
    rewrite G. rewrite Hc. rewrite rf_read_mod32 by exact H0. split; reflexivity.
  Qed.

  Theorem cmovae_r32_rm32_refines : i_code i = C_Cmovae_r32_rm32 -> refines32 (SCmov CC_AE 32) (instr_cmovae_r32_rm32 c i s).
  Proof.
    intros Ec. apply (cmov32_finish CC_AE (Z.land (rflags s) FLAG_CF =? 0)).
    - unfold cond, flag. change FLAG_CF with CF. apply negb_involutive.
    - unfold instr_cmovae_r32_rm32. rewrite Ec. rewrite (bind_ok _ _ _ _ _ (dbg_code_ok c s _ eq_refl)). reflexivity.
  Qed.
  Theorem cmove_r32_rm32_refines : i_code i = C_Cmove_r32_rm32 -> refines32 (SCmov CC_E 32) (instr_cmove_r32_rm32 c i s).
  Proof.
    intros Ec. apply (cmov32_finish CC_E (negb (Z.land (rflags s) FLAG_ZF =? 0))).
    - reflexivity.
    - unfold instr_cmove_r32_rm32. rewrite Ec. rewrite (bind_ok _ _ _ _ _ (dbg_code_ok c s _ eq_refl)). reflexivity.
  Qed.
  Theorem cmovne_r32_rm32_refines : i_code i = C_Cmovne_r32_rm32 -> refines32 (SCmov CC_NE 32) (instr_cmovne_r32_rm32 c i s).
  Proof.
    intros Ec. apply (cmov32_finish CC_NE (Z.land (rflags s) FLAG_ZF =? 0)).
    - unfold cond, flag. change FLAG_ZF with ZF. apply negb_involutive.
    - unfold instr_cmovne_r32_rm32. rewrite Ec. rewrite (bind_ok _ _ _ _ _ (dbg_code_ok c s _ eq_refl)). reflexivity.
  Qed.

  Theorem mov_r32_rm32_refines : i_code i = C_Mov_r32_rm32 -> refines32 (SMov 32) (instr_mov_r32_rm32 c i s).
  Proof.
    intros Ec. unfold refines32, instr_mov_r32_rm32. rewrite Ec.
    rewrite (bind_ok _ _ _ _ _ (dbg_code_ok c s _ eq_refl)).
    cbn [isa_exec]. pose proof (cmov32_generic true) as G. cbv iota in G.
    destruct (read_op i 1 32 s) as [v|]; [|exact G].
    rewrite G. unfold write_op. rewrite K0. cbn [opt_done]. split; reflexivity.
  Qed.

  (* the moffs encoding (A0..A3: accumulator and an absolute address): the same helper call *)
  Theorem mov_eax_moffs32_refines : i_code i = C_Mov_EAX_moffs32 -> refines32 (SMov 32) (instr_mov_eax_moffs32 c i s).
  Proof.
    intros Ec. unfold refines32, instr_mov_eax_moffs32. rewrite Ec.
    rewrite (bind_ok _ _ _ _ _ (dbg_code_ok c s _ eq_refl)).
    cbn [isa_exec]. pose proof (cmov32_generic true) as G. cbv iota in G.
    destruct (read_op i 1 32 s) as [v|]; [|exact G].
    rewrite G. unfold write_op. rewrite K0. cbn [opt_done]. split; reflexivity.
  Qed.
End Forms32NoFlags.

(* ---- r/m32, r32: destination = operand 0 (register or memory), source register = operand 1 ---- *)
Section RmR32.
  Variables (c : cfg) (i : instr) (s : mstate).
  Hypothesis Hwf : wf_regs s.
  Hypothesis HI : Inv (mem s).
  Hypothesis Hn : i_op_count i = 2.
  Hypothesis K1 : i_op_kind i 1 = OK_Register.
  Hypothesis H1 : is_gpr32 (i_op_register i 1) = true.

  Let r1 := i_op_register i 1.
  Let sv := rf_read (regs s) r1.

  Definition store_tail32 (res : Z) : MM unit :=
    bind (mem_addr c (memop_of i)) (fun a => bind (mem_write_32 a (cast U32 U64 res)) (fun _ => ret tt)).

  Lemma store_tail32_spec x res :
    i_op_kind i 0 = OK_Memory -> wf_mem_instr i -> 0 <= res < 2 ^ 32 ->
    let s1 := set_rflags s x in
    match store (bytes_of 32) (ea i s1) res s1 with
    | Some s2 => store_tail32 res s1 = (Ok tt, s2)
    | None => exists e, store_tail32 res s1 = (Err e, s1)
    end.
  Proof.
    intros K0 Hm Hres. cbv zeta. set (s1 := set_rflags s x).
    assert (Hwf1 : wf_regs s1) by exact Hwf.
    destruct (operand_address c i 0 s1 Hwf1 Hm ltac:(rewrite Hn; reflexivity) K0) as (_ & EA & _).
    unfold store_tail32, store. rewrite (bind_ok _ _ _ _ _ EA).
    rewrite (cast_u32_u64_id res Hres).
    change (bytes_of 32) with 4%nat.
    assert (HI1 : Inv (mem s1)) by exact HI.
    pose proof (typed_write_32_is_le (ea i s1) res s1 Hres) as TW.
    destruct (write_never_panics (ea i s1) (le_bytes 4 res) s1 HI1) as [(s2 & E)|(e & E)]; rewrite E.
    - rewrite <- TW in E. rewrite (bind_ok _ _ _ _ _ E). reflexivity.
    - exists e. rewrite <- TW in E. rewrite (bind_err _ _ _ _ _ E). reflexivity.
  Qed.

  (* destination operand: its value, and how the result is written back *)
  Definition dest_write32 (res : Z) : MM unit :=
    match i_op_kind i 0 with
    | OK_Memory => store_tail32 res
    | _ => reg_write_32 c (i_op_register i 0) (cast U32 U64 res)
    end.

  Lemma calc_rm_r_32f_shape (op : Z -> Z -> outcome (Z * Z)) fset fclear :
    rm32_shape i 0 ->
    match read_op i 0 32 s with
    | Some d =>
        0 <= d < 2 ^ 32 /\
        forall res fl, op d sv = Ok (res, fl) -> Z.land fl NO_WRITEBACK = 0 ->
          calculate_rm_r_32f c i op fset fclear s =
          bind (set_flags_u32 c (Z.lor fset fl) fclear res)
               (fun _ => if Z.land fset NO_WRITEBACK =? 0 then dest_write32 res else ret tt) s
    | None => exists e, calculate_rm_r_32f c i op fset fclear s = (Err e, s)
    end.
  Proof.
    intros Hs0.
    assert (O1 : instruction_operand c i 1 s = (Ok (OpRegister r1), s))
      by (apply operand_register; [rewrite Hn; reflexivity|exact K1|reflexivity|apply gpr32_supported; exact H1]).
    assert (TR : lift (operand_to_reg (OpRegister r1)) s = (Ok r1, s)) by reflexivity.
    pose proof (reg_read_32_ok c r1 s Hwf H1) as RD. fold sv in RD.
    assert (Hsv : 0 <= sv < 2 ^ 32) by (apply rf_read_range32; exact H1).
    unfold calculate_rm_r_32f, read_op, dest_write32.
    destruct Hs0 as [[K0 H0]|[K0 Hm]]; rewrite K0.
    - (* register destination *)
      assert (O0 : instruction_operand c i 0 s = (Ok (OpRegister (i_op_register i 0)), s))
        by (apply operand_register; [rewrite Hn; reflexivity|exact K0|reflexivity|apply gpr32_supported; exact H0]).
      assert (OP : instruction_operands_2 c i s = (Ok (OpRegister (i_op_register i 0), OpRegister r1), s)).
      { unfold instruction_operands_2. rewrite (bind_ok _ _ _ _ _ O0). rewrite (bind_ok _ _ _ _ _ O1). reflexivity. }
      rewrite rf_read_mod32 by exact H0.
      assert (Hd : 0 <= rf_read (regs s) (i_op_register i 0) < 2 ^ 32) by (apply rf_read_range32; exact H0).
      split; [exact Hd|]. intros res fl Hop Hfl.
      rewrite (bind_ok _ _ _ _ _ OP). cbv beta iota.
      rewrite (bind_ok _ _ _ _ _ TR). rewrite (bind_ok _ _ _ _ _ RD).
      rewrite (bind_ok _ _ _ _ _ (reg_read_32_ok c _ s Hwf H0)).
      rewrite (cast_u64_u32_id _ Hd), (cast_u64_u32_id sv Hsv). rewrite Hop.
      rewrite (bind_ok _ _ _ _ _ (eq_refl : lift (Ok (res, fl)) s = _)). cbv beta iota.
      assert (DA : lift (debug_assert_that c (Z.land fl NO_WRITEBACK =? 0)) s = (Ok tt, s)).
      { unfold lift, debug_assert_that, assert_that. rewrite Hfl. destruct (dbg c); reflexivity. }
      rewrite (bind_ok _ _ _ _ _ DA). unfold bind.
      destruct (set_flags_u32 c (Z.lor fset fl) fclear res s) as [[[]|e|p|] s1]; try reflexivity.
      destruct (Z.land fset NO_WRITEBACK =? 0); [|reflexivity].
      destruct (reg_write_32 c (i_op_register i 0) (cast U32 U64 res) s1) as [[[]|e|p|] s2]; reflexivity.
    - (* memory destination *)
      destruct (operand_address c i 0 s Hwf Hm ltac:(rewrite Hn; reflexivity) K0) as (O0 & EA & _).
      assert (OP : instruction_operands_2 c i s = (Ok (OpMemory (memop_of i), OpRegister r1), s)).
      { unfold instruction_operands_2. rewrite (bind_ok _ _ _ _ _ O0). rewrite (bind_ok _ _ _ _ _ O1). reflexivity. }
      unfold load. change (bytes_of 32) with 4%nat.
      rewrite (bind_ok _ _ _ _ _ OP). cbv beta iota.
      rewrite (bind_ok _ _ _ _ _ TR). rewrite (bind_ok _ _ _ _ _ RD).
      rewrite (bind_ok _ _ _ _ _ EA). change mem_read_32 with (mem_read_n 4).
      destruct (mem_read_n_cases 4 (ea i s) s HI) as [(d & E & R)|(e & E)]; rewrite E.
      + split; [exact R|]. intros res fl Hop Hfl.
        rewrite (bind_ok _ _ _ _ _ E). rewrite (cast_u64_u32_id d R), (cast_u64_u32_id sv Hsv). rewrite Hop.
        rewrite (bind_ok _ _ _ _ _ (eq_refl : lift (Ok (res, fl)) s = _)). cbv beta iota.
        assert (DA : lift (debug_assert_that c (Z.land fl NO_WRITEBACK =? 0)) s = (Ok tt, s)).
        { unfold lift, debug_assert_that, assert_that. rewrite Hfl. destruct (dbg c); reflexivity. }
        rewrite (bind_ok _ _ _ _ _ DA).
        destruct (Z.land fset NO_WRITEBACK =? 0); unfold store_tail32, bind;
          destruct (set_flags_u32 c (Z.lor fset fl) fclear res s) as [[[]|e|p|] s1]; try reflexivity.
        destruct (mem_addr c (memop_of i) s1) as [[a|e|p|] s2]; try reflexivity.
        destruct (mem_write_32 a (cast U32 U64 res) s2) as [[[]|e|p|] s3]; reflexivity.
      + exists e. rewrite (bind_err _ _ _ _ _ E). reflexivity.
  Qed.
End RmR32.

Section RmR32Forms.
  Variables (c : cfg) (i : instr) (s : mstate).
  Hypothesis Hwf : wf_regs s.
  Hypothesis HI : Inv (mem s).
  Hypothesis Hrf : 0 <= rflags s < 2 ^ 63.
  Hypothesis Hn : i_op_count i = 2.
  Hypothesis Hs0 : rm32_shape i 0.
  Hypothesis K1 : i_op_kind i 1 = OK_Register.
  Hypothesis H1 : is_gpr32 (i_op_register i 1) = true.

  Let Hrf64 : 0 <= rflags s < 2 ^ 64.
  Proof. change (2 ^ 63) with 9223372036854775808 in Hrf. change (2 ^ 64) with 18446744073709551616. lia. Qed.

  Lemma dest_write32_spec x res :
    0 <= res < 2 ^ 32 ->
    let s1 := set_rflags s x in
    match write_op i 0 32 res s1 with
    | Some s2 => dest_write32 c i res s1 = (Ok tt, s2)
    | None => exists e, dest_write32 c i res s1 = (Err e, s1)
    end.
  Proof.
    intros Hres. cbv zeta. unfold write_op, dest_write32.
    destruct Hs0 as [[K0 H0]|[K0 Hm]]; rewrite K0.
    - rewrite (cast_u32_u64_id res Hres). rewrite reg_write_32_ok by assumption. reflexivity.
    - exact (store_tail32_spec c i s Hwf HI Hn x res K0 Hm Hres).
  Qed.

  (* completes like the CPU; fails when the CPU faults on the operand - on a refused store only the
     flag word has changed *)
  Definition rmw32_refines (op : aluop) (run : outcome unit * mstate) : Prop :=
    match isa_exec (SAlu op 32) i s with
    | IDone s' u => run = (Ok tt, s') /\ u = 0
    | IFault FMem => exists e x, run = (Err e, s) \/ run = (Err e, set_rflags s x)
    | IFault _ => False
    end.

  Ltac start Ec f :=
    unfold rmw32_refines, f; rewrite Ec;
    rewrite (bind_ok _ _ _ _ _ (dbg_code_ok c s _ eq_refl));
    cbn [isa_exec]; unfold exec_alu; unfold read_op at 2; rewrite K1; rewrite rf_read_mod32 by exact H1.

  Ltac finish Hres :=
    match goal with |- context [dest_write32 c i ?res (with_flags s ?mk ?bits)] =>
      let ST := fresh "ST" in
      pose proof (dest_write32_spec (set_status (rflags s) mk bits) res Hres) as ST;
      cbv zeta in ST; fold (with_flags s mk bits) in ST;
      destruct (write_op i 0 32 res (with_flags s mk bits)) as [s2|];
      [rewrite ST; cbn [opt_done]; split; reflexivity
      |destruct ST as [e ST]; rewrite ST; cbn [opt_done]; exists e; eexists; right; reflexivity]
    end.

  Theorem add_rm32_r32_refines : i_code i = C_Add_rm32_r32 -> rmw32_refines ADD (instr_add_rm32_r32 c i s).
  Proof.
    intros Ec. start Ec instr_add_rm32_r32.
    match goal with |- context [calculate_rm_r_32f c i ?op ?fs ?fc s] =>
      pose proof (calc_rm_r_32f_shape c i s Hwf HI Hn K1 H1 op fs fc Hs0) as SH end.
    destruct (read_op i 0 32 s) as [d|]; [|destruct SH as [e SH]; exists e, 0; left; exact SH]. destruct SH as [Hd SH].
    set (sv := rf_read (regs s) (i_op_register i 1)) in *.
    assert (Hsv : 0 <= sv < 2 ^ 32) by (apply rf_read_range32; exact H1).
    set (cfb := 2 ^ 32 <=? d + sv). set (ofb := negb (fits_signed 32 (sgn 32 d + sgn 32 sv))).
    assert (Hfl : Z.land (Z.lor (b2f ofb FLAG_OF) (b2f cfb FLAG_CF)) NO_WRITEBACK = 0) by (destruct ofb, cfb; reflexivity).
    rewrite (SH _ _ (add32_closure c d sv Hd Hsv) Hfl).
    change (Z.lor (Z.lor (Z.lor FLAG_SF FLAG_ZF) FLAG_PF) (Z.lor (b2f ofb FLAG_OF) (b2f cfb FLAG_CF))) with (arith_fs cfb ofb).
    change (Z.lor FLAG_OF FLAG_CF) with 2049.
    rewrite (bind_ok _ _ _ _ _ (set_flags_u32_arith c cfb ofb _ s Hrf64)).
    change (Z.land (Z.lor (Z.lor FLAG_SF FLAG_ZF) FLAG_PF) NO_WRITEBACK =? 0) with true. cbv iota.
    cbn [alu]. rewrite !Z.add_0_r. fold cfb ofb.
    assert (Hres : 0 <= (d + sv) mod 2 ^ 32 < 2 ^ 32) by (apply Z.mod_pos_bound; reflexivity).
    finish Hres.
  Qed.

  Theorem sub_rm32_r32_refines : i_code i = C_Sub_rm32_r32 -> rmw32_refines SUB (instr_sub_rm32_r32 c i s).
  Proof.
    intros Ec. start Ec instr_sub_rm32_r32.
    match goal with |- context [calculate_rm_r_32f c i ?op ?fs ?fc s] =>
      pose proof (calc_rm_r_32f_shape c i s Hwf HI Hn K1 H1 op fs fc Hs0) as SH end.
    destruct (read_op i 0 32 s) as [d|]; [|destruct SH as [e SH]; exists e, 0; left; exact SH]. destruct SH as [Hd SH].
    set (sv := rf_read (regs s) (i_op_register i 1)) in *.
    assert (Hsv : 0 <= sv < 2 ^ 32) by (apply rf_read_range32; exact H1).
    set (cfb := d <? sv). set (ofb := negb (fits_signed 32 (sgn 32 d - sgn 32 sv))).
    assert (Hfl : Z.land (Z.lor (b2f ofb FLAG_OF) (b2f cfb FLAG_CF)) NO_WRITEBACK = 0) by (destruct ofb, cfb; reflexivity).
    rewrite (SH _ _ (f_equal Ok (sub32_closure d sv Hd Hsv)) Hfl).
    change (Z.lor (Z.lor (Z.lor FLAG_SF FLAG_ZF) FLAG_PF) (Z.lor (b2f ofb FLAG_OF) (b2f cfb FLAG_CF))) with (arith_fs cfb ofb).
    change (Z.lor FLAG_CF FLAG_OF) with 2049.
    rewrite (bind_ok _ _ _ _ _ (set_flags_u32_arith c cfb ofb _ s Hrf64)).
    change (Z.land (Z.lor (Z.lor FLAG_SF FLAG_ZF) FLAG_PF) NO_WRITEBACK =? 0) with true. cbv iota.
    cbn [alu]. fold cfb ofb.
    assert (Hres : 0 <= (d - sv) mod 2 ^ 32 < 2 ^ 32) by (apply Z.mod_pos_bound; reflexivity).
    finish Hres.
  Qed.

  Theorem cmp_rm32_r32_refines : i_code i = C_Cmp_rm32_r32 -> rmw32_refines CMP (instr_cmp_rm32_r32 c i s).
  Proof.
    intros Ec. start Ec instr_cmp_rm32_r32.
    match goal with |- context [calculate_rm_r_32f c i ?op ?fs ?fc s] =>
      pose proof (calc_rm_r_32f_shape c i s Hwf HI Hn K1 H1 op fs fc Hs0) as SH end.
    destruct (read_op i 0 32 s) as [d|]; [|destruct SH as [e SH]; exists e, 0; left; exact SH]. destruct SH as [Hd SH].
    set (sv := rf_read (regs s) (i_op_register i 1)) in *.
    assert (Hsv : 0 <= sv < 2 ^ 32) by (apply rf_read_range32; exact H1).
    set (cfb := d <? sv). set (ofb := negb (fits_signed 32 (sgn 32 d - sgn 32 sv))).
    assert (Hfl : Z.land (Z.lor (b2f ofb FLAG_OF) (b2f cfb FLAG_CF)) NO_WRITEBACK = 0) by (destruct ofb, cfb; reflexivity).
    rewrite (SH _ _ (f_equal Ok (sub32_closure d sv Hd Hsv)) Hfl).
    change (Z.lor (Z.lor (Z.lor (Z.lor NO_WRITEBACK FLAG_SF) FLAG_ZF) FLAG_PF) (Z.lor (b2f ofb FLAG_OF) (b2f cfb FLAG_CF))) with (cmp_fs cfb ofb).
    change (Z.lor FLAG_CF FLAG_OF) with 2049.
    rewrite (bind_ok _ _ _ _ _ (set_flags_u32_cmp c cfb ofb _ s Hrf)).
    change (Z.land (Z.lor (Z.lor (Z.lor NO_WRITEBACK FLAG_SF) FLAG_ZF) FLAG_PF) NO_WRITEBACK =? 0) with false. cbv iota.
    cbn [alu]. fold cfb ofb. split; reflexivity.
  Qed.

  Theorem and_rm32_r32_refines : i_code i = C_And_rm32_r32 -> rmw32_refines AND (instr_and_rm32_r32 c i s).
  Proof.
    intros Ec. start Ec instr_and_rm32_r32.
    match goal with |- context [calculate_rm_r_32f c i ?op ?fs ?fc s] =>
      pose proof (calc_rm_r_32f_shape c i s Hwf HI Hn K1 H1 op fs fc Hs0) as SH end.
    destruct (read_op i 0 32 s) as [d|]; [|destruct SH as [e SH]; exists e, 0; left; exact SH]. destruct SH as [Hd SH].
    assert (Hsv : 0 <= rf_read (regs s) (i_op_register i 1) < 2 ^ 32) by (apply rf_read_range32; exact H1).
    rewrite (SH _ 0 eq_refl eq_refl).
    change (Z.lor (Z.lor (Z.lor FLAG_SF FLAG_ZF) FLAG_PF) 0) with (arith_fs false false).
    change (Z.lor FLAG_OF FLAG_CF) with 2049.
    rewrite (bind_ok _ _ _ _ _ (set_flags_u32_arith c false false _ s Hrf64)).
    change (Z.land (Z.lor (Z.lor FLAG_SF FLAG_ZF) FLAG_PF) NO_WRITEBACK =? 0) with true. cbv iota.
    cbn [alu b2f]. change (0 + 0) with 0. rewrite !Z.add_0_l.
    pose proof (land_range32 _ _ Hd Hsv) as Hres.
    finish Hres.
  Qed.
End RmR32Forms.
