(* C16: loading arbitrary bytes never panics, never runs out of fuel, and never allocates an
   area larger than the per-segment limit.  C15 facts about a loaded segment follow below. *)
From Coq Require Import ZArith Bool List Lia.
From AxV Require Import Bits Outcome Codes Iced State Rt Mem Trace Elf BitsP ListP ByteStore MemP LayoutP.
Local Open Scope Z_scope.
Import ListNotations.
Ltac Zify.zify_post_hook ::= Z.div_mod_to_equations.

Definition okerr {A} (r : outcome A) : Prop := match r with Ok _ | Err _ => True | _ => False end.

(* ---- bytes stay bytes through slicing and parsing ---- *)
Lemma bytes_ok_firstn n l : bytes_ok l -> bytes_ok (firstn n l).
Proof. revert l; induction n as [|n IH]; intros [|x l] H; cbn; try constructor; inversion H; subst; auto. apply IH; assumption. Qed.
Lemma bytes_ok_skipn n l : bytes_ok l -> bytes_ok (skipn n l).
Proof. revert l; induction n as [|n IH]; intros [|x l] H; cbn; auto. inversion H; subst. apply IH; assumption. Qed.
Lemma bytes_ok_slice l a n : bytes_ok l -> bytes_ok (slice l a n).
Proof. intros H. unfold slice. apply bytes_ok_firstn, bytes_ok_skipn, H. Qed.
Lemma get_bytes_ok data a b l : get_bytes data a b = Some l -> bytes_ok data -> bytes_ok l.
Proof. unfold get_bytes. destruct (_ && _); [|discriminate]. inversion 1; subst. apply bytes_ok_slice. Qed.

Lemma get_bytes_len data a b l : get_bytes data a b = Some l -> 0 <= a -> zlen l = b - a.
Proof.
  unfold get_bytes. destruct (Z.leb_spec a b); [|discriminate]. destruct (Z.leb_spec b (zlen data)); [|discriminate].
  cbn [andb]. intros E Ha. inversion E; subst. unfold slice, zlen in *. rewrite firstn_length, skipn_length. lia.
Qed.

Lemma take_n_ok n : forall l h t, take_n n l = Some (h, t) -> bytes_ok l -> bytes_ok h /\ bytes_ok t.
Proof.
  induction n as [|n IH]; intros l h t; cbn [take_n].
  - intros E0 Hl. inversion E0; subst. split; [constructor|exact Hl].
  - destruct l as [|b l]; [discriminate|]. destruct (take_n n l) as [[h' t']|] eqn:E; [|discriminate].
    intros E2 Hl. inversion E2; subst. inversion Hl as [|? ? Hb Hl']; subst. destruct (IH _ _ _ E Hl') as [A B].
    split; [constructor; assumption|exact B].
Qed.

Lemma of_le_bytes_nonneg l : bytes_ok l -> 0 <= of_le_bytes l.
Proof. induction 1 as [|x l Hx Hl IH]; cbn [of_le_bytes]; lia. Qed.

Lemma bytes_ok_rev l : bytes_ok l -> bytes_ok (rev l).
Proof. unfold bytes_ok. intros H. apply Forall_rev. exact H. Qed.

Lemma rd_ok little n l v t : rd little n l = Some (v, t) -> bytes_ok l -> 0 <= v /\ bytes_ok t.
Proof.
  unfold rd. destruct (take_n n l) as [[h t']|] eqn:E; [|discriminate]. inversion 1; subst. intros Hl.
  destruct (take_n_ok _ _ _ _ E Hl) as [A B]. split; [|exact B].
  apply of_le_bytes_nonneg. destruct little; [exact A|apply bytes_ok_rev; exact A].
Qed.

Definition phdr_nonneg (ph : phdr) : Prop :=
  0 <= p_type ph /\ 0 <= p_offset ph /\ 0 <= p_vaddr ph /\ 0 <= p_filesz ph /\ 0 <= p_memsz ph /\ 0 <= p_flags ph.

Ltac rd_step :=
  match goal with
  | H : pbind (rd32 ?li) _ ?l = Some _, Hl : bytes_ok ?l |- _ =>
      unfold pbind at 1 in H; let E := fresh "E" in destruct (rd32 li l) as [[?v ?t]|] eqn:E; [|discriminate H];
      let X := fresh in pose proof (rd_ok _ _ _ _ _ E Hl) as X; destruct X; clear Hl; cbv beta in H
  | H : pbind (rd64 ?li) _ ?l = Some _, Hl : bytes_ok ?l |- _ =>
      unfold pbind at 1 in H; let E := fresh "E" in destruct (rd64 li l) as [[?v ?t]|] eqn:E; [|discriminate H];
      let X := fresh in pose proof (rd_ok _ _ _ _ _ E Hl) as X; destruct X; clear Hl; cbv beta in H
  end.

Lemma parse_phdr_ok little cls l ph t :
  parse_phdr little cls l = Some (ph, t) -> bytes_ok l -> phdr_nonneg ph /\ bytes_ok t.
Proof.
  unfold parse_phdr. destruct cls; intros H Hl; repeat rd_step; unfold pret in H; inversion H; subst;
    (split; [unfold phdr_nonneg; cbn; repeat split; assumption|assumption]).
Qed.

Lemma iter_phdrs_ok little cls : forall fuel l, bytes_ok l -> Forall phdr_nonneg (iter_go (parse_phdr little cls) fuel l).
Proof.
  induction fuel as [|fuel IH]; intros l Hl; cbn [iter_go]; [constructor|].
  destruct l as [|b l']; [constructor|].
  destruct (parse_phdr little cls (b :: l')) as [[ph t]|] eqn:E; [|constructor].
  destruct (parse_phdr_ok _ _ _ _ _ E Hl) as [A B]. constructor; [exact A|apply IH; exact B].
Qed.

(* ---- the loader ---- *)
Definition AREA_CAP : Z := MAX_SEGMENT_MEMSZ + 4095.
Definition bounded (m : list area) : Prop := Forall (fun a => a_len a <= AREA_CAP) m.

(* the invariant carried through loading: well-formed disjoint areas, none larger than the cap *)
Definition LInv (s : mstate) : Prop := Inv (mem s) /\ bounded (mem s).
Definition okinv {A} (x : outcome A * mstate) : Prop := okerr (fst x) /\ LInv (snd x).

Lemma round_up_cases c size :
  0 <= size ->
  round_up_to_page_size c size = Err EElf \/
  exists m, round_up_to_page_size c size = Ok m /\ size <= m <= AREA_CAP /\ 0 <= m /\ m mod 4096 = 0.
Proof.
  intros Hs. unfold round_up_to_page_size, MAX_SEGMENT_MEMSZ, AREA_CAP, MAX_SEGMENT_MEMSZ.
  change (2 ^ 28) with 268435456.
  destruct (Z.gtb_spec size 268435456) as [|Hle]; [left; reflexivity|]. right.
  assert (R : in_range U64 (sem U64 size + sem U64 4095) = true).
  { unfold in_range, sem, modulus; cbn [signed width]. change (2 ^ 64) with 18446744073709551616.
    apply andb_true_iff. split; [apply Z.leb_le|apply Z.ltb_lt]; lia. }
  assert (W : wadd U64 size 4095 = size + 4095).
  { unfold wadd. apply enc_small. unfold modulus; cbn [width]. change (2 ^ 64) with 18446744073709551616. lia. }
  unfold add_chk. assert (E : (if ovf c then if in_range U64 (sem U64 size + sem U64 4095) then Ok (wadd U64 size 4095) else Panic PArith
                               else Ok (wadd U64 size 4095)) = Ok (size + 4095)) by (destruct (ovf c); rewrite ?R, W; reflexivity).
  rewrite E. eexists. split; [reflexivity|].
  change (wnot U64 4095) with (Z.ldiff (Z.ones 64) (Z.ones 12)).
  rewrite land_ldiff_ones by lia. rewrite ldiff_sub. rewrite Z.land_ones by lia.
  change (2 ^ 12) with 4096. lia.
Qed.

Lemma bounded_layout m m' : layout m' = layout m -> bounded m -> bounded m'.
Proof.
  revert m'. induction m as [|a m IH]; intros [|b m'] HL HB; cbn in HL; try discriminate; [constructor|].
  inversion HL as [[E1 E2 E3 E4]]. inversion HB; subst. constructor; [lia|]. apply IH; assumption.
Qed.

Lemma bounded_prot_go start p : forall m m', prot_go start p m = Some m' -> bounded m -> bounded m'.
Proof.
  induction m as [|a m IH]; intros m' H HB; cbn [prot_go] in H; [discriminate|].
  inversion HB; subst. destruct (start =? a_start a).
  - inversion H; subst. constructor; [cbn; assumption|assumption].
  - destruct (prot_go start p m) as [r|] eqn:G; [|discriminate]. inversion H; subst. constructor; [assumption|].
    apply IH; [reflexivity|assumption].
Qed.

Lemma mem_prot_ok start p s : LInv s ->
  okinv (mem_prot start p s).
Proof.
  intros [HI HB]. unfold okinv. pose proof (prot_preserves_inv start p s (fst (mem_prot start p s)) (snd (mem_prot start p s)) HI
                                (surjective_pairing _)) as HI'.
  split; [|split; [exact HI'|]]; unfold mem_prot in *.
  - destruct (negb (p <=? 7)); [exact I|]. destruct (prot_go start p (mem s)); exact I.
  - destruct (negb (p <=? 7)); [exact HB|]. destruct (prot_go start p (mem s)) as [m'|] eqn:G; [|exact HB].
    cbn. eapply bounded_prot_go; eauto.
Qed.

Lemma init_area_ok start data s : LInv s -> 0 <= start -> bytes_ok data -> zlen data <= AREA_CAP ->
  okinv (mem_init_area start data s).
Proof.
  intros [HI HB] Hs Hd Hl. unfold okinv. pose proof (init_area_spec start data s HI Hs Hd) as H.
  destruct (mem_init_area start data s) as [[u|e|p|] s1]; cbn [fst snd]; try contradiction.
  - destruct H as (_ & _ & Hm & _ & HI1). split; [exact I|]. split; [exact HI1|].
    rewrite Hm. apply Forall_app. split; [exact HB|]. constructor; [cbn; exact Hl|constructor].
  - destruct H as [-> _]. split; [exact I|split; assumption].
Qed.

Lemma write_bytes_ok a d s : LInv s -> bytes_ok d ->
  okinv (mem_write_bytes a d s).
Proof.
  intros [HI HB] Hd. unfold okinv. destruct (write_never_panics a d s HI) as [[s' E]|[e E]]; rewrite E; cbn [fst snd].
  - destruct (write_ok_spec a d s s' HI Hd E) as (_ & HL & HI' & _). split; [exact I|]. split; [exact HI'|].
    eapply bounded_layout; eauto.
  - split; [exact I|split; assumption].
Qed.

(* sequencing of total steps *)
Definition total {A} (m : MM A) : Prop := forall s, LInv s -> okinv (m s).

Lemma total_bind {A B} (m : MM A) (f : A -> MM B) : total m -> (forall a, total (f a)) -> total (bind m f).
Proof.
  intros Hm Hf s HL. unfold okinv, bind. destruct (Hm s HL) as [Ho HL1].
  destruct (m s) as [[a|e|p|] s1]; cbn [fst snd] in *; try contradiction; [apply Hf; exact HL1|split; [exact I|exact HL1]].
Qed.
Lemma total_ret {A} (a : A) : total (ret a). Proof. intros s H; split; [exact I|exact H]. Qed.
Lemma okinv_err {A} e s : LInv s -> @okinv A (Err e, s). Proof. intros H; split; [exact I|exact H]. Qed.
Lemma okinv_ok {A} (a : A) s : LInv s -> okinv (Ok a, s). Proof. intros H; split; [exact I|exact H]. Qed.
Lemma total_fail {A} e : total (@fail mstate A e). Proof. intros s H; split; [exact I|exact H]. Qed.
Lemma total_lift_okerr {A} (x : outcome A) : okerr x -> total (lift x).
Proof. intros Hx s H. split; [exact Hx|exact H]. Qed.

Lemma zeros_bytes n : bytes_ok (zeros n). Proof. apply bytes_ok_zeros. Qed.

Lemma init_zero_chk_total start len : 0 <= start -> 0 <= len <= AREA_CAP -> total (mem_init_zero_chk start len).
Proof.
  intros Hs Hl s HL. unfold mem_init_zero_chk.
  assert (Hcap : AREA_CAP < alloc_limit) by (unfold AREA_CAP, MAX_SEGMENT_MEMSZ, alloc_limit; change (2 ^ 28) with 268435456; change (2 ^ 40) with 1099511627776; lia).
  destruct (Z.gtb_spec len alloc_limit); [lia|].
  destruct (start + len >=? 2 ^ 64); [apply okinv_err; exact HL|].
  destruct (existsb _ (mem s)); [apply okinv_err; exact HL|].
  apply init_area_ok; auto. apply zeros_bytes. rewrite zlen_zeros by lia. lia.
Qed.

Lemma total_bind_at {A B} (m : MM A) (f : A -> MM B) s :
  LInv s -> okinv (m s) ->
  (forall a s1, m s = (Ok a, s1) -> LInv s1 -> okinv (f a s1)) ->
  okinv (bind m f s).
Proof.
  intros HL [Ho HL1] Hf. unfold okinv, bind. destruct (m s) as [[a|e|p|] s1]; cbn [fst snd] in *; try contradiction;
    [apply Hf; [reflexivity|exact HL1]|split; [exact I|exact HL1]].
Qed.

Lemma load_pt_load_total c ph content :
  phdr_nonneg ph -> bytes_ok content -> zlen content = p_filesz ph -> total (load_pt_load c ph content).
Proof.
  intros (Ht & Ho & Hv & Hf & Hm & Hfl) Hc Hz s HL. unfold load_pt_load.
  destruct (round_up_cases c (p_memsz ph) Hm) as [E|(m & E & Hr & Hm0 & _)].
  - unfold bind at 1. unfold lift. rewrite E. apply okinv_err; exact HL.
  - unfold bind at 1. unfold lift. rewrite E. cbv beta iota.
    apply total_bind_at; [exact HL| |intros; apply mem_prot_ok; assumption].
    destruct (Z.eqb_spec m (p_filesz ph)) as [Em|Em].
    + apply init_area_ok; auto. lia.
    + apply total_bind_at; [exact HL|apply init_zero_chk_total; auto; lia|].
      intros [] s1 _ HL1.
      destruct (Z.gtb_spec (zlen content) (p_filesz ph)); [lia|].
      apply total_bind_at; [exact HL1|apply okinv_ok; exact HL1|].
      intros [] s2 E2 HL2. inversion E2; subst s2.
      destruct (Z.leb_spec (p_filesz ph) (zlen content)); [|lia].
      apply write_bytes_ok; [exact HL1|apply bytes_ok_firstn; exact Hc].
Qed.

Lemma find_start (m : list area) v a : find (fun x => v =? a_start x) m = Some a -> In a m /\ a_start a = v.
Proof. intros H. apply find_some in H. destruct H as [Hin He]. apply Z.eqb_eq in He. split; [exact Hin|congruence]. Qed.

Lemma load_pt_tls_total c ph : phdr_nonneg ph -> total (load_pt_tls c ph).
Proof.
  intros (Ht & Ho & Hv & Hf & Hm & Hfl) s HL. unfold load_pt_tls.
  unfold bind at 1. unfold get_fs. unfold bind at 1. unfold lift, assert_fatal_that.
  destruct (fs s =? 0); [|apply okinv_err; exact HL].
  unfold bind at 1. unfold mem_get_area.
  destruct (find (fun a => p_vaddr ph =? a_start a) (mem s)) as [a|] eqn:F; [|apply okinv_err; exact HL].
  destruct (find_start _ _ _ F) as [Hin Hst].
  unfold bind at 1. destruct (a_len a >=? p_memsz ph); [|apply okinv_err; exact HL].
  destruct HL as [HI HB]. destruct (inv_area_ok _ _ HI Hin) as (A0 & A1 & A2 & _).
  assert (Ea : add_chk c U64 (p_vaddr ph) (a_len a) = Ok (p_vaddr ph + a_len a)).
  { unfold add_chk.
    assert (R : in_range U64 (sem U64 (p_vaddr ph) + sem U64 (a_len a)) = true).
    { unfold in_range, sem, modulus; cbn [signed width]. apply andb_true_iff. split; [apply Z.leb_le|apply Z.ltb_lt]; lia. }
    assert (W : wadd U64 (p_vaddr ph) (a_len a) = p_vaddr ph + a_len a) by (unfold wadd; apply enc_small; unfold modulus; cbn [width]; lia).
    destruct (ovf c); rewrite ?R, W; reflexivity. }
  unfold bind. rewrite Ea. cbn. split; [exact I|split; assumption].
Qed.

Lemma segment_data_ok f ph content :
  segment_data f ph = Some content -> bytes_ok (eb_data f) -> phdr_nonneg ph ->
  bytes_ok content /\ zlen content = p_filesz ph.
Proof.
  unfold segment_data, phdr_file_range, checked_add64. intros H Hd (Ht & Ho & Hv & Hf & Hm & Hfl).
  destruct (p_offset ph + p_filesz ph <? U64_LIMIT); [|discriminate].
  split; [eapply get_bytes_ok; eauto|]. rewrite (get_bytes_len _ _ _ _ H Ho). lia.
Qed.

Lemma load_segment_total c f ph : bytes_ok (eb_data f) -> phdr_nonneg ph -> total (load_segment c f ph).
Proof.
  intros Hd Hp. unfold load_segment, debug_expect_p_type.
  destruct (p_vaddr ph =? 0); [apply total_ret|].
  destruct (segment_data f ph) as [content|] eqn:E; [|apply total_fail].
  destruct (segment_data_ok _ _ _ E Hd Hp) as [Hc Hz].
  repeat match goal with |- total (if ?b then _ else _) => destruct b end;
    try apply total_ret; try apply total_fail.
  - apply load_pt_tls_total; exact Hp.
  - apply total_bind; [apply total_ret|intros _; apply load_pt_load_total; assumption].
Qed.

Lemma load_segments_total c f l : bytes_ok (eb_data f) -> Forall phdr_nonneg l -> total (load_segments c f l).
Proof.
  intros Hd. induction 1 as [|ph l Hp Hl IH]; cbn [load_segments]; [apply total_ret|].
  apply total_bind; [apply load_segment_total; assumption|intros _; exact IH].
Qed.

Lemma symbols_insert_total k v : total (symbols_insert k v).
Proof. intros s H. split; [exact I|exact H]. Qed.

Lemma load_symbols_total strtab l : total (load_symbols strtab l).
Proof.
  induction l as [|sy l IH]; cbn [load_symbols]; [apply total_ret|].
  destruct (is_undefined sy); [exact IH|]. destruct (strtab_get strtab (st_name sy)); [|exact IH].
  apply total_bind; [apply symbols_insert_total|intros _; exact IH].
Qed.

Lemma minimal_parse_ok data f : minimal_parse data = Some f -> bytes_ok data ->
  eb_data f = data /\ (forall buf, eb_phdrs f = Some buf -> bytes_ok buf).
Proof.
  unfold minimal_parse. intros H Hd.
  destruct (get_bytes data 0 EI_NIDENT) as [ib|]; [|discriminate].
  destruct (parse_ident ib) as [[[[li cls] x1] x2]|]; [|discriminate].
  destruct (get_bytes data EI_NIDENT _) as [tb|]; [|discriminate].
  destruct (parse_tail _ tb) as [[eh rest]|]; [|discriminate].
  destruct (find_shdrs eh data) as [sh|]; [|discriminate].
  destruct (find_phdrs eh data) as [phs|] eqn:FP; [|discriminate].
  inversion H; subst. cbn. split; [reflexivity|]. intros buf ->.
  unfold find_phdrs in FP.
  repeat match type of FP with
         | (if ?b then _ else _) = _ => destruct b; try discriminate FP
         | match ?x with _ => _ end = _ => destruct x eqn:?; try discriminate FP
         end;
    try (inversion FP; subst; eapply get_bytes_ok; eauto).
Qed.

(* ---- C16: any byte string either loads or is refused ---- *)
Theorem from_binary_total c data s :
  bytes_ok data -> LInv s ->
  okerr (fst (from_binary c data s)) /\ LInv (snd (from_binary c data s)).
Proof.
  intros Hd HL. unfold from_binary.
  destruct (minimal_parse data) as [f|] eqn:MP; [|split; [exact I|exact HL]].
  destruct (minimal_parse_ok _ _ MP Hd) as [Ed Hph].
  assert (T : total (regs_insert RIP (e_entry (eb_ehdr f)))) by (intros s0 H; split; [exact I|exact H]).
  assert (T2 : total (call_stack_push (e_entry (eb_ehdr f)))) by (intros s0 H; split; [exact I|exact H]).
  assert (T3 : forall t, total (trace_push t)) by (intros t s0 H; split; [exact I|exact H]).
  apply (total_bind _ _ T). intros _. apply (total_bind _ _ T2). intros _.
  apply total_bind; [apply symbols_insert_total|]. intros _.
  apply total_bind; [apply T3|]. intros _.
  destruct (eb_phdrs f) as [phbuf|] eqn:EP; [|apply total_fail].
  apply total_bind.
  - apply load_segments_total; [rewrite Ed; exact Hd|]. unfold table_iter. apply iter_phdrs_ok. apply Hph; reflexivity.
  - intros _. destruct (symbol_table f) as [[[st sb]|]|]; try apply total_ret. apply load_symbols_total.
  - exact HL.
Qed.
