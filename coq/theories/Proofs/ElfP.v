(* C16: loading arbitrary bytes never panics, never runs out of fuel, and never allocates an
   area larger than the per-segment limit.  C15 facts about a loaded segment follow below. *)
From Coq Require Import ZArith Bool List Lia.
From AxV Require Import Bits Outcome Codes Iced State Rt Mem Trace Elf BitsP ListP ByteStore MemP LayoutP StackInitP.
Local Open Scope Z_scope.
Import ListNotations.
Ltac Zify.zify_post_hook ::= Z.div_mod_to_equations.

Definition okerr {A} (r : outcome A) : Prop := match r with Ok _ | Err _ => True | _ => False end.

(* ---- bytes stay bytes through slicing and parsing ---- *)
Lemma bytes_ok_firstn n l : bytes_ok l -> bytes_ok (firstn n l).
Proof. revert l; induction n as [|n IH]; intros [|x l] H; cbn; try constructor; inversion H; subst; auto. apply IH; assumption. Qed.
Lemma bytes_ok_skipn n l : bytes_ok l -> bytes_ok (skipn n l).
Proof. revert l; induction n as [|n IH]; intros [|x l] H; cbn; auto. inversion H; subst. apply IH; assumption. Qed.
Lemma bytes_ok_slice l a n : bytes_ok l -> bytes_ok (slice l a n).
Proof. intros H. unfold slice. apply bytes_ok_firstn, bytes_ok_skipn, H. Qed.
Lemma get_bytes_ok data a b l : get_bytes data a b = Some l -> bytes_ok data -> bytes_ok l.
Proof. unfold get_bytes. destruct (_ && _); [|discriminate]. inversion 1; subst. apply bytes_ok_slice. Qed.

Lemma get_bytes_len data a b l : get_bytes data a b = Some l -> 0 <= a -> zlen l = b - a.
Proof.
  unfold get_bytes. destruct (Z.leb_spec a b); [|discriminate]. destruct (Z.leb_spec b (zlen data)); [|discriminate].
  cbn [andb]. intros E Ha. inversion E; subst. unfold slice, zlen in *. rewrite firstn_length, skipn_length. lia.
Qed.

Lemma take_n_ok n : forall l h t, take_n n l = Some (h, t) -> bytes_ok l -> bytes_ok h /\ bytes_ok t.
Proof.
  induction n as [|n IH]; intros l h t; cbn [take_n].
  - intros E0 Hl. inversion E0; subst. split; [constructor|exact Hl].
  - destruct l as [|b l]; [discriminate|]. destruct (take_n n l) as [[h' t']|] eqn:E; [|discriminate].
    intros E2 Hl. inversion E2; subst. inversion Hl as [|? ? Hb Hl']; subst. destruct (IH _ _ _ E Hl') as [A B].
    split; [constructor; assumption|exact B].
Qed.

Lemma of_le_bytes_nonneg l : bytes_ok l -> 0 <= of_le_bytes l.
Proof. induction 1 as [|x l Hx Hl IH]; cbn [of_le_bytes]; lia. Qed.

Lemma bytes_ok_rev l : bytes_ok l -> bytes_ok (rev l).
Proof. unfold bytes_ok. intros H. apply Forall_rev. exact H. Qed.

Lemma rd_ok little n l v t : rd little n l = Some (v, t) -> bytes_ok l -> 0 <= v /\ bytes_ok t.
Proof.
  unfold rd. destruct (take_n n l) as [[h t']|] eqn:E; [|discriminate]. inversion 1; subst. intros Hl.
  destruct (take_n_ok _ _ _ _ E Hl) as [A B]. split; [|exact B].
  apply of_le_bytes_nonneg. destruct little; [exact A|apply bytes_ok_rev; exact A].
Qed.

Definition phdr_nonneg (ph : phdr) : Prop :=
  0 <= p_type ph /\ 0 <= p_offset ph /\ 0 <= p_vaddr ph /\ 0 <= p_filesz ph /\ 0 <= p_memsz ph /\ 0 <= p_flags ph.

Ltac rd_step :=
  match goal with
  | H : pbind (rd32 ?li) _ ?l = Some _, Hl : bytes_ok ?l |- _ =>
      unfold pbind at 1 in H; let E := fresh "E" in destruct (rd32 li l) as [[?v ?t]|] eqn:E; [|discriminate H];
      let X := fresh in pose proof (rd_ok _ _ _ _ _ E Hl) as X; destruct X; clear Hl; cbv beta in H
  | H : pbind (rd64 ?li) _ ?l = Some _, Hl : bytes_ok ?l |- _ =>
      unfold pbind at 1 in H; let E := fresh "E" in destruct (rd64 li l) as [[?v ?t]|] eqn:E; [|discriminate H];
      let X := fresh in pose proof (rd_ok _ _ _ _ _ E Hl) as X; destruct X; clear Hl; cbv beta in H
  end.

Lemma parse_phdr_ok little cls l ph t :
  parse_phdr little cls l = Some (ph, t) -> bytes_ok l -> phdr_nonneg ph /\ bytes_ok t.
Proof.
  unfold parse_phdr. destruct cls; intros H Hl; repeat rd_step; unfold pret in H; inversion H; subst;
    (split; [unfold phdr_nonneg; cbn; repeat split; assumption|assumption]).
Qed.

Lemma iter_phdrs_ok little cls : forall fuel l, bytes_ok l -> Forall phdr_nonneg (iter_go (parse_phdr little cls) fuel l).
Proof.
  induction fuel as [|fuel IH]; intros l Hl; cbn [iter_go]; [constructor|].
  destruct l as [|b l']; [constructor|].
  destruct (parse_phdr little cls (b :: l')) as [[ph t]|] eqn:E; [|constructor].
  destruct (parse_phdr_ok _ _ _ _ _ E Hl) as [A B]. constructor; [exact A|apply IH; exact B].
Qed.

(* ---- the loader ---- *)
Definition AREA_CAP : Z := MAX_SEGMENT_MEMSZ + 4095.
Definition bounded (m : list area) : Prop := Forall (fun a => a_len a <= AREA_CAP) m.

(* the invariant carried through loading: well-formed disjoint areas, none larger than the cap *)
Definition LInv (s : mstate) : Prop := Inv (mem s) /\ bounded (mem s).
Definition okinv {A} (x : outcome A * mstate) : Prop := okerr (fst x) /\ LInv (snd x).

Lemma round_up_cases c size :
  0 <= size ->
  round_up_to_page_size c size = Err EElf \/
  exists m, round_up_to_page_size c size = Ok m /\ size <= m <= AREA_CAP /\ 0 <= m /\ m mod 4096 = 0.
Proof.
  intros Hs. unfold round_up_to_page_size, MAX_SEGMENT_MEMSZ, AREA_CAP, MAX_SEGMENT_MEMSZ.
  change (2 ^ 28) with 268435456.
  destruct (Z.gtb_spec size 268435456) as [|Hle]; [left; reflexivity|]. right.
  assert (R : in_range U64 (sem U64 size + sem U64 4095) = true).
  { unfold in_range, sem, modulus; cbn [signed width]. change (2 ^ 64) with 18446744073709551616.
    apply andb_true_iff. split; [apply Z.leb_le|apply Z.ltb_lt]; lia. }
  assert (W : wadd U64 size 4095 = size + 4095).
  { unfold wadd. apply enc_small. unfold modulus; cbn [width]. change (2 ^ 64) with 18446744073709551616. lia. }
  unfold add_chk. assert (E : (if ovf c then if in_range U64 (sem U64 size + sem U64 4095) then Ok (wadd U64 size 4095) else Panic PArith
                               else Ok (wadd U64 size 4095)) = Ok (size + 4095)) by (destruct (ovf c); rewrite ?R, W; reflexivity).
  rewrite E. eexists. split; [reflexivity|].
  change (wnot U64 4095) with (Z.ldiff (Z.ones 64) (Z.ones 12)).
  rewrite land_ldiff_ones by lia. rewrite ldiff_sub. rewrite Z.land_ones by lia.
  change (2 ^ 12) with 4096. lia.
Qed.

Lemma bounded_layout m m' : layout m' = layout m -> bounded m -> bounded m'.
Proof.
  revert m'. induction m as [|a m IH]; intros [|b m'] HL HB; cbn in HL; try discriminate; [constructor|].
  inversion HL as [[E1 E2 E3 E4]]. inversion HB; subst. constructor; [lia|]. apply IH; assumption.
Qed.

Lemma bounded_prot_go start p : forall m m', prot_go start p m = Some m' -> bounded m -> bounded m'.
Proof.
  induction m as [|a m IH]; intros m' H HB; cbn [prot_go] in H; [discriminate|].
  inversion HB; subst. destruct (start =? a_start a).
  - inversion H; subst. constructor; [cbn; assumption|assumption].
  - destruct (prot_go start p m) as [r|] eqn:G; [|discriminate]. inversion H; subst. constructor; [assumption|].
    apply IH; [reflexivity|assumption].
Qed.

Lemma mem_prot_ok start p s : LInv s ->
  okinv (mem_prot start p s).
Proof.
  intros [HI HB]. unfold okinv. pose proof (prot_preserves_inv start p s (fst (mem_prot start p s)) (snd (mem_prot start p s)) HI
                                (surjective_pairing _)) as HI'.
  split; [|split; [exact HI'|]]; unfold mem_prot in *.
  - destruct (negb (p <=? 7)); [exact I|]. destruct (prot_go start p (mem s)); exact I.
  - destruct (negb (p <=? 7)); [exact HB|]. destruct (prot_go start p (mem s)) as [m'|] eqn:G; [|exact HB].
    cbn. eapply bounded_prot_go; eauto.
Qed.

Lemma init_area_ok start data s : LInv s -> 0 <= start -> bytes_ok data -> zlen data <= AREA_CAP ->
  okinv (mem_init_area start data s).
Proof.
  intros [HI HB] Hs Hd Hl. unfold okinv. pose proof (init_area_spec start data s HI Hs Hd) as H.
  destruct (mem_init_area start data s) as [[u|e|p|] s1]; cbn [fst snd]; try contradiction.
  - destruct H as (_ & _ & Hm & _ & HI1). split; [exact I|]. split; [exact HI1|].
    rewrite Hm. apply Forall_app. split; [exact HB|]. constructor; [cbn; exact Hl|constructor].
  - destruct H as [-> _]. split; [exact I|split; assumption].
Qed.

Lemma write_bytes_ok a d s : LInv s -> bytes_ok d ->
  okinv (mem_write_bytes a d s).
Proof.
  intros [HI HB] Hd. unfold okinv. destruct (write_never_panics a d s HI) as [[s' E]|[e E]]; rewrite E; cbn [fst snd].
  - destruct (write_ok_spec a d s s' HI Hd E) as (_ & HL & HI' & _). split; [exact I|]. split; [exact HI'|].
    eapply bounded_layout; eauto.
  - split; [exact I|split; assumption].
Qed.

(* sequencing of total steps *)
Definition total {A} (m : MM A) : Prop := forall s, LInv s -> okinv (m s).

Lemma total_bind {A B} (m : MM A) (f : A -> MM B) : total m -> (forall a, total (f a)) -> total (bind m f).
Proof.
  intros Hm Hf s HL. unfold okinv, bind. destruct (Hm s HL) as [Ho HL1].
  destruct (m s) as [[a|e|p|] s1]; cbn [fst snd] in *; try contradiction; [apply Hf; exact HL1|split; [exact I|exact HL1]].
Qed.
Lemma total_ret {A} (a : A) : total (ret a). Proof. intros s H; split; [exact I|exact H]. Qed.
Lemma okinv_err {A} e s : LInv s -> @okinv A (Err e, s). Proof. intros H; split; [exact I|exact H]. Qed.
Lemma okinv_ok {A} (a : A) s : LInv s -> okinv (Ok a, s). Proof. intros H; split; [exact I|exact H]. Qed.
Lemma total_fail {A} e : total (@fail mstate A e). Proof. intros s H; split; [exact I|exact H]. Qed.
Lemma total_lift_okerr {A} (x : outcome A) : okerr x -> total (lift x).
Proof. intros Hx s H. split; [exact Hx|exact H]. Qed.

Lemma zeros_bytes n : bytes_ok (zeros n). Proof. apply bytes_ok_zeros. Qed.

Lemma init_zero_chk_total start len : 0 <= start -> 0 <= len <= AREA_CAP -> total (mem_init_zero_chk start len).
Proof.
  intros Hs Hl s HL. unfold mem_init_zero_chk.
  assert (Hcap : AREA_CAP < alloc_limit) by (unfold AREA_CAP, MAX_SEGMENT_MEMSZ, alloc_limit; change (2 ^ 28) with 268435456; change (2 ^ 40) with 1099511627776; lia).
  destruct (Z.gtb_spec len alloc_limit); [lia|].
  destruct (start + len >=? 2 ^ 64); [apply okinv_err; exact HL|].
  destruct (existsb _ (mem s)); [apply okinv_err; exact HL|].
  apply init_area_ok; auto. apply zeros_bytes. rewrite zlen_zeros by lia. lia.
Qed.

Lemma total_bind_at {A B} (m : MM A) (f : A -> MM B) s :
  LInv s -> okinv (m s) ->
  (forall a s1, m s = (Ok a, s1) -> LInv s1 -> okinv (f a s1)) ->
  okinv (bind m f s).
Proof.
  intros HL [Ho HL1] Hf. unfold okinv, bind. destruct (m s) as [[a|e|p|] s1]; cbn [fst snd] in *; try contradiction;
    [apply Hf; [reflexivity|exact HL1]|split; [exact I|exact HL1]].
Qed.

Lemma load_pt_load_total c ph content :
  phdr_nonneg ph -> bytes_ok content -> zlen content = p_filesz ph -> total (load_pt_load c ph content).
Proof.
  intros (Ht & Ho & Hv & Hf & Hm & Hfl) Hc Hz s HL. unfold load_pt_load.
  destruct (round_up_cases c (p_memsz ph) Hm) as [E|(m & E & Hr & Hm0 & _)].
  - unfold bind at 1. unfold lift. rewrite E. apply okinv_err; exact HL.
  - unfold bind at 1. unfold lift. rewrite E. cbv beta iota.
    apply total_bind_at; [exact HL| |intros; apply mem_prot_ok; assumption].
    destruct (Z.eqb_spec m (p_filesz ph)) as [Em|Em].
    + apply init_area_ok; auto. lia.
    + apply total_bind_at; [exact HL|apply init_zero_chk_total; auto; lia|].
      intros [] s1 _ HL1.
      destruct (Z.gtb_spec (zlen content) (p_filesz ph)); [lia|].
      apply total_bind_at; [exact HL1|apply okinv_ok; exact HL1|].
      intros [] s2 E2 HL2. inversion E2; subst s2.
      destruct (Z.leb_spec (p_filesz ph) (zlen content)); [|lia].
      apply write_bytes_ok; [exact HL1|apply bytes_ok_firstn; exact Hc].
Qed.

Lemma find_start (m : list area) v a : find (fun x => v =? a_start x) m = Some a -> In a m /\ a_start a = v.
Proof. intros H. apply find_some in H. destruct H as [Hin He]. apply Z.eqb_eq in He. split; [exact Hin|congruence]. Qed.

Lemma load_pt_tls_total c ph : phdr_nonneg ph -> total (load_pt_tls c ph).
Proof.
  intros (Ht & Ho & Hv & Hf & Hm & Hfl) s HL. unfold load_pt_tls.
  unfold bind at 1. unfold get_fs. unfold bind at 1. unfold lift, assert_fatal_that.
  destruct (fs s =? 0); [|apply okinv_err; exact HL].
  unfold bind at 1. unfold mem_get_area.
  destruct (find (fun a => p_vaddr ph =? a_start a) (mem s)) as [a|] eqn:F; [|apply okinv_err; exact HL].
  destruct (find_start _ _ _ F) as [Hin Hst].
  unfold bind at 1. destruct (a_len a >=? p_memsz ph); [|apply okinv_err; exact HL].
  destruct HL as [HI HB]. destruct (inv_area_ok _ _ HI Hin) as (A0 & A1 & A2 & _).
  assert (Ea : add_chk c U64 (p_vaddr ph) (a_len a) = Ok (p_vaddr ph + a_len a)).
  { unfold add_chk.
    assert (R : in_range U64 (sem U64 (p_vaddr ph) + sem U64 (a_len a)) = true).
    { unfold in_range, sem, modulus; cbn [signed width]. apply andb_true_iff. split; [apply Z.leb_le|apply Z.ltb_lt]; lia. }
    assert (W : wadd U64 (p_vaddr ph) (a_len a) = p_vaddr ph + a_len a) by (unfold wadd; apply enc_small; unfold modulus; cbn [width]; lia).
    destruct (ovf c); rewrite ?R, W; reflexivity. }
  unfold bind. rewrite Ea. cbn. split; [exact I|split; assumption].
Qed.

Lemma segment_data_ok f ph content :
  segment_data f ph = Some content -> bytes_ok (eb_data f) -> phdr_nonneg ph ->
  bytes_ok content /\ zlen content = p_filesz ph.
Proof.
  unfold segment_data, phdr_file_range, checked_add64. intros H Hd (Ht & Ho & Hv & Hf & Hm & Hfl).
  destruct (p_offset ph + p_filesz ph <? U64_LIMIT); [|discriminate].
  split; [eapply get_bytes_ok; eauto|]. rewrite (get_bytes_len _ _ _ _ H Ho). lia.
Qed.

Lemma load_segment_total c f ph : bytes_ok (eb_data f) -> phdr_nonneg ph -> total (load_segment c f ph).
Proof.
  intros Hd Hp. unfold load_segment, debug_expect_p_type.
  destruct (p_vaddr ph =? 0); [apply total_ret|].
  destruct (segment_data f ph) as [content|] eqn:E; [|apply total_fail].
  destruct (segment_data_ok _ _ _ E Hd Hp) as [Hc Hz].
  repeat match goal with |- total (if ?b then _ else _) => destruct b end;
    try apply total_ret; try apply total_fail.
  - apply load_pt_tls_total; exact Hp.
  - apply total_bind; [apply total_ret|intros _; apply load_pt_load_total; assumption].
Qed.

Lemma load_segments_total c f l : bytes_ok (eb_data f) -> Forall phdr_nonneg l -> total (load_segments c f l).
Proof.
  intros Hd. induction 1 as [|ph l Hp Hl IH]; cbn [load_segments]; [apply total_ret|].
  apply total_bind; [apply load_segment_total; assumption|intros _; exact IH].
Qed.

Lemma symbols_insert_total k v : total (symbols_insert k v).
Proof. intros s H. split; [exact I|exact H]. Qed.

Lemma load_symbols_total strtab l : total (load_symbols strtab l).
Proof.
  induction l as [|sy l IH]; cbn [load_symbols]; [apply total_ret|].
  destruct (is_undefined sy); [exact IH|]. destruct (strtab_get strtab (st_name sy)); [|exact IH].
  apply total_bind; [apply symbols_insert_total|intros _; exact IH].
Qed.

Lemma minimal_parse_ok data f : minimal_parse data = Some f -> bytes_ok data ->
  eb_data f = data /\ (forall buf, eb_phdrs f = Some buf -> bytes_ok buf).
Proof.
  unfold minimal_parse. intros H Hd.
  destruct (get_bytes data 0 EI_NIDENT) as [ib|]; [|discriminate].
  destruct (parse_ident ib) as [[[[li cls] x1] x2]|]; [|discriminate].
  destruct (get_bytes data EI_NIDENT _) as [tb|]; [|discriminate].
  destruct (parse_tail _ tb) as [[eh rest]|]; [|discriminate].
  destruct (find_shdrs eh data) as [sh|]; [|discriminate].
  destruct (find_phdrs eh data) as [phs|] eqn:FP; [|discriminate].
  inversion H; subst. cbn. split; [reflexivity|]. intros buf ->.
  unfold find_phdrs in FP.
  repeat match type of FP with
         | (if ?b then _ else _) = _ => destruct b; try discriminate FP
         | match ?x with _ => _ end = _ => destruct x eqn:?; try discriminate FP
         end;
    try (inversion FP; subst; eapply get_bytes_ok; eauto).
Qed.

(* ---- C16: any byte string either loads or is refused ---- *)
Theorem from_binary_total c data s :
  bytes_ok data -> LInv s ->
  okerr (fst (from_binary c data s)) /\ LInv (snd (from_binary c data s)).
Proof.
  intros Hd HL. unfold from_binary.
  destruct (minimal_parse data) as [f|] eqn:MP; [|split; [exact I|exact HL]].
  destruct (minimal_parse_ok _ _ MP Hd) as [Ed Hph].
  assert (T : total (regs_insert RIP (e_entry (eb_ehdr f)))) by (intros s0 H; split; [exact I|exact H]).
  assert (T2 : total (call_stack_push (e_entry (eb_ehdr f)))) by (intros s0 H; split; [exact I|exact H]).
  assert (T3 : forall t, total (trace_push t)) by (intros t s0 H; split; [exact I|exact H]).
  apply (total_bind _ _ T). intros _. apply (total_bind _ _ T2). intros _.
  apply total_bind; [apply symbols_insert_total|]. intros _.
  apply total_bind; [apply T3|]. intros _.
  destruct (eb_phdrs f) as [phbuf|] eqn:EP; [|apply total_fail].
  apply total_bind.
  - apply load_segments_total; [rewrite Ed; exact Hd|]. unfold table_iter. apply iter_phdrs_ok. apply Hph; reflexivity.
  - intros _. destruct (symbol_table f) as [[[st sb]|]|]; try apply total_ret. apply load_symbols_total.
  - exact HL.
Qed.

(* ---- C15: what a loaded segment looks like ---- *)
Definition free_range (m : list area) (start len : Z) : Prop :=
  forall a, In a m -> area_blocks a start len = false.

Lemma free_existsb m start len : free_range m start len -> existsb (fun a => area_blocks a start len) m = false.
Proof.
  intros H. destruct (existsb _ m) eqn:E; [|reflexivity]. apply existsb_exists in E. destruct E as (a & Hin & Hb).
  rewrite (H a Hin) in Hb. discriminate.
Qed.

Lemma byte_at_prot_go start p : forall m m', prot_go start p m = Some m' -> forall x, byte_at m' x = byte_at m x.
Proof.
  induction m as [|a m IH]; intros m' H x; cbn [prot_go] in H; [discriminate|].
  destruct (start =? a_start a).
  - inversion H; subst. unfold byte_at, owner. cbn [find_area]. unfold area_contains. cbn [a_start a_len set_area_access].
    destruct (_ && _); reflexivity.
  - destruct (prot_go start p m) as [r|] eqn:G; [|discriminate]. inversion H; subst.
    unfold byte_at, owner in *. cbn [find_area]. destruct (area_contains a x); [reflexivity|]. apply IH. reflexivity.
Qed.

Lemma prot_go_last start p m a :
  (forall b, In b m -> a_start b <> start) -> a_start a = start ->
  prot_go start p (m ++ [a]) = Some (m ++ [set_area_access a p]).
Proof.
  intros Hn Ha. induction m as [|b m IH]; cbn [app prot_go].
  - rewrite <- Ha, Z.eqb_refl. reflexivity.
  - destruct (Z.eqb_spec start (a_start b)) as [E|E]; [exfalso; apply (Hn b (or_introl eq_refl)); congruence|].
    rewrite IH; [reflexivity|]. intros c Hc. apply Hn. right. exact Hc.
Qed.

Lemma round_up_value c size : 0 <= size <= MAX_SEGMENT_MEMSZ ->
  round_up_to_page_size c size = Ok (size + 4095 - (size + 4095) mod 4096).
Proof.
  intros Hs. unfold round_up_to_page_size, MAX_SEGMENT_MEMSZ in *. change (2 ^ 28) with 268435456 in *.
  destruct (Z.gtb_spec size 268435456); [lia|].
  assert (R : in_range U64 (sem U64 size + sem U64 4095) = true).
  { unfold in_range, sem, modulus; cbn [signed width]. change (2 ^ 64) with 18446744073709551616.
    apply andb_true_iff. split; [apply Z.leb_le|apply Z.ltb_lt]; lia. }
  assert (W : wadd U64 size 4095 = size + 4095).
  { unfold wadd. apply enc_small. unfold modulus; cbn [width]. change (2 ^ 64) with 18446744073709551616. lia. }
  unfold add_chk. assert (E : (if ovf c then if in_range U64 (sem U64 size + sem U64 4095) then Ok (wadd U64 size 4095) else Panic PArith
                               else Ok (wadd U64 size 4095)) = Ok (size + 4095)) by (destruct (ovf c); rewrite ?R, W; reflexivity).
  rewrite E. f_equal.
  change (wnot U64 4095) with (Z.ldiff (Z.ones 64) (Z.ones 12)).
  rewrite land_ldiff_ones by (change (2 ^ 64) with 18446744073709551616; lia).
  rewrite ldiff_sub. rewrite Z.land_ones by lia. reflexivity.
Qed.

Lemma flags_prot_le7 f : 0 <= elf_flags_to_prot f <= 7.
Proof.
  unfold elf_flags_to_prot, PROT_READ, PROT_WRITE, PROT_EXEC.
  destruct (Z.land f PF_R =? 0), (Z.land f PF_W =? 0), (Z.land f PF_X =? 0); cbn; lia.
Qed.

Fixpoint prot_layout (start p : Z) (l : list (Z * Z * Z)) : list (Z * Z * Z) :=
  match l with
  | nil => nil
  | (st, ln, ac) :: r => if start =? st then (st, ln, p) :: r else (st, ln, ac) :: prot_layout start p r
  end.

Lemma prot_go_layout_spec start p : forall m m', prot_go start p m = Some m' -> layout m' = prot_layout start p (layout m).
Proof.
  induction m as [|a m IH]; intros m' H; cbn [prot_go] in H; [discriminate|].
  cbn [layout map prot_layout shape]. destruct (start =? a_start a).
  - inversion H; subst. reflexivity.
  - destruct (prot_go start p m) as [r|] eqn:G; [|discriminate]. inversion H; subst. cbn [layout map shape].
    f_equal. apply IH. reflexivity.
Qed.

Lemma prot_go_exists start p : forall m, (exists a, In a m /\ a_start a = start) -> exists m', prot_go start p m = Some m'.
Proof.
  induction m as [|a m IH]; intros (b & Hin & Hb); [destruct Hin|]. cbn [prot_go].
  destruct (Z.eqb_spec start (a_start a)); [eexists; reflexivity|].
  destruct Hin as [->|Hin]; [congruence|]. destruct (IH (ex_intro _ b (conj Hin Hb))) as [m' E]. rewrite E. eexists; reflexivity.
Qed.

Lemma prot_layout_last start p l ln ac :
  (forall t, In t l -> fst (fst t) <> start) ->
  prot_layout start p (l ++ [(start, ln, ac)]) = l ++ [(start, ln, p)].
Proof.
  intros Hn. induction l as [|[[st ln'] ac'] l IH]; cbn [app prot_layout].
  - rewrite Z.eqb_refl. reflexivity.
  - destruct (Z.eqb_spec start st) as [E|E]; [exfalso; apply (Hn (st, ln', ac') (or_introl eq_refl)); cbn; congruence|].
    rewrite IH; [reflexivity|]. intros t Ht. apply Hn. right. exact Ht.
Qed.

Lemma byte_at_app_outside m a x : area_contains a x = false -> byte_at (m ++ [a]) x = byte_at m x.
Proof.
  intros H. unfold byte_at, owner. induction m as [|b m IH]; cbn [app find_area].
  - rewrite H. reflexivity.
  - destruct (area_contains b x); [reflexivity|exact IH].
Qed.

Lemma nth_error_zeros n i : 0 <= i < n -> nth_error (zeros n) (Z.to_nat i) = Some 0.
Proof.
  intros H. unfold zeros. rewrite nth_error_repeat; [reflexivity|lia].
Qed.

Definition rounded_size (msz : Z) : Z := msz + 4095 - (msz + 4095) mod 4096.

Theorem load_pt_load_image c ph content s :
  Inv (mem s) -> phdr_nonneg ph -> bytes_ok content -> zlen content = p_filesz ph ->
  p_filesz ph <= p_memsz ph -> 0 < p_memsz ph <= MAX_SEGMENT_MEMSZ ->
  let rounded := rounded_size (p_memsz ph) in
  p_vaddr ph + rounded < 2 ^ 64 -> free_range (mem s) (p_vaddr ph) rounded ->
  exists s', load_pt_load c ph content s = (Ok tt, s') /\ s' = set_mem s (mem s') /\ Inv (mem s') /\
    layout (mem s') = layout (mem s) ++ [(p_vaddr ph, rounded, elf_flags_to_prot (p_flags ph))] /\
    (forall i, 0 <= i < p_filesz ph -> byte_at (mem s') (p_vaddr ph + i) = nth_error content (Z.to_nat i)) /\
    (forall i, p_filesz ph <= i < rounded -> byte_at (mem s') (p_vaddr ph + i) = Some 0) /\
    (forall x, ~ (p_vaddr ph <= x < p_vaddr ph + rounded) -> byte_at (mem s') x = byte_at (mem s) x).
Proof.
  intros HI (Ht & Ho & Hv & Hf & Hm & Hfl) Hc Hz Hfm Hms rounded Hfit Hfree.
  assert (Hrd : p_memsz ph <= rounded /\ rounded mod 4096 = 0 /\ 0 < rounded) by (unfold rounded, rounded_size; lia).
  destruct Hrd as (Hr1 & Hr2 & Hr3).
  unfold load_pt_load. unfold bind at 1. unfold lift. rewrite (round_up_value c (p_memsz ph)) by lia. fold (rounded_size (p_memsz ph)). fold rounded.
  assert (Hnostart : forall b, In b (mem s) -> a_start b <> p_vaddr ph).
  { intros b Hb E. specialize (Hfree b Hb). unfold area_blocks in Hfree. rewrite E in Hfree.
    apply orb_false_iff in Hfree. destruct Hfree as [_ H2]. apply andb_false_iff in H2.
    destruct H2 as [H2|H2]; [apply Z.leb_gt in H2|apply Z.ltb_ge in H2]; lia. }
  (* the state after the area exists with the right contents, before mem_prot *)
  cbv beta. unfold bind at 1.
  match goal with |- context [let (o, s'0) := ?X s in _] =>
    assert (Step : exists s2, X s = (Ok tt, s2) /\
                 s2 = set_mem s (mem s2) /\ Inv (mem s2) /\
                 layout (mem s2) = layout (mem s) ++ [(p_vaddr ph, rounded, Z.lor PROT_READ PROT_WRITE)] /\
                 (forall i, 0 <= i < p_filesz ph -> byte_at (mem s2) (p_vaddr ph + i) = nth_error content (Z.to_nat i)) /\
                 (forall i, p_filesz ph <= i < rounded -> byte_at (mem s2) (p_vaddr ph + i) = Some 0) /\
                 (forall x, ~ (p_vaddr ph <= x < p_vaddr ph + rounded) -> byte_at (mem s2) x = byte_at (mem s) x)) end.
  { destruct (Z.eqb_spec rounded (p_filesz ph)) as [Eq|Ne].
    - (* the file fills the whole rounded area *)
      pose proof (init_area_spec (p_vaddr ph) content s HI Hv Hc) as Hs.
      unfold mem_init_area in *. rewrite Hz, <- Eq in *.
      destruct (Z.geb_spec (p_vaddr ph + rounded) (2 ^ 64)); [lia|].
      rewrite (free_existsb _ _ _ Hfree) in *. destruct Hs as (_ & _ & Hm2 & Hs2 & HI2).
      eexists. split; [reflexivity|]. cbn [mem set_mem] in *.
      split; [destruct s; reflexivity|]. split; [exact HI2|].
      split; [unfold layout; rewrite map_app; reflexivity|].
      set (A := {| a_start := p_vaddr ph; a_len := rounded; a_data := content; a_access := Z.lor PROT_READ PROT_WRITE |}) in *.
      assert (HinA : In A (mem s ++ [A])) by (apply in_or_app; right; left; reflexivity).
      split; [|split].
      + intros i Hi. rewrite (byte_at_in _ A _ HI2 HinA) by (cbn; lia). cbn [a_data a_start A]. f_equal. lia.
      + intros i Hi. lia.
      + intros x Hx. apply byte_at_app_outside. unfold area_contains. cbn [a_start a_len A].
        apply andb_false_iff. destruct (Z.leb_spec (p_vaddr ph) x); [right; apply Z.ltb_ge; lia|left; reflexivity].
    - (* zeroed area, then the file bytes *)
      unfold bind at 1. unfold mem_init_zero_chk.
      assert (Hcap : rounded <= alloc_limit).
      { unfold rounded, rounded_size, alloc_limit, MAX_SEGMENT_MEMSZ in *. change (2 ^ 28) with 268435456 in *. change (2 ^ 40) with 1099511627776. lia. }
      destruct (Z.gtb_spec rounded alloc_limit); [lia|].
      destruct (Z.geb_spec (p_vaddr ph + rounded) (2 ^ 64)); [lia|].
      rewrite (free_existsb _ _ _ Hfree).
      pose proof (init_area_spec (p_vaddr ph) (zeros rounded) s HI Hv (bytes_ok_zeros rounded)) as Hs.
      unfold mem_init_area in *. rewrite zlen_zeros in * by lia.
      destruct (Z.geb_spec (p_vaddr ph + rounded) (2 ^ 64)); [lia|].
      rewrite (free_existsb _ _ _ Hfree) in *. destruct Hs as (_ & _ & Hm1 & Hs1 & HI1).
      set (A := {| a_start := p_vaddr ph; a_len := rounded; a_data := zeros rounded; a_access := Z.lor PROT_READ PROT_WRITE |}) in *.
      set (s1 := set_mem s (mem s ++ [A])) in *. cbn [mem set_mem] in HI1.
      assert (HinA : In A (mem s1)) by (cbn; apply in_or_app; right; left; reflexivity).
      unfold bind at 1. destruct (Z.gtb_spec (zlen content) (p_filesz ph)); [lia|]. unfold ret at 1.
      destruct (Z.leb_spec (p_filesz ph) (zlen content)); [|lia].
      assert (Efn : firstn (Z.to_nat (p_filesz ph)) content = content).
      { apply firstn_all2. unfold zlen in Hz. lia. }
      rewrite Efn.
      assert (Hacc : accessible (mem s1) (p_vaddr ph) (zlen content) PROT_WRITE).
      { exists A. split; [apply owner_unique; [exact HI1|exact HinA|apply contains_range; cbn; lia]|].
        split; [cbn; lia|cbn; discriminate]. }
      apply (write_ok_iff (p_vaddr ph) content s1 HI1) in Hacc. destruct Hacc as [s2 E2].
      destruct (write_ok_spec _ _ _ _ HI1 Hc E2) as (Es2 & HL2 & HI2 & HB2).
      exists s2. split; [exact E2|]. split; [rewrite Es2; unfold s1; destruct s; reflexivity|]. split; [exact HI2|].
      split; [rewrite HL2; unfold s1; cbn [mem set_mem]; unfold layout; rewrite map_app; reflexivity|].
      split; [|split].
      + intros i Hi. rewrite HB2. rewrite Hz.
        destruct (Z.leb_spec (p_vaddr ph) (p_vaddr ph + i)); [|lia].
        destruct (Z.ltb_spec (p_vaddr ph + i) (p_vaddr ph + p_filesz ph)); [|lia]. cbn [andb]. f_equal. lia.
      + intros i Hi. rewrite HB2. rewrite Hz.
        destruct (Z.ltb_spec (p_vaddr ph + i) (p_vaddr ph + p_filesz ph)); [lia|]. rewrite andb_false_r.
        rewrite (byte_at_in _ A _ HI1 HinA) by (cbn; lia). cbn [a_data a_start A].
        replace (p_vaddr ph + i - p_vaddr ph) with i by lia. apply nth_error_zeros. lia.
      + intros x Hx. rewrite HB2. rewrite Hz.
        assert (Hout : (p_vaddr ph <=? x) && (x <? p_vaddr ph + p_filesz ph) = false).
        { apply andb_false_iff. destruct (Z.leb_spec (p_vaddr ph) x); [right; apply Z.ltb_ge; lia|left; reflexivity]. }
        rewrite Hout. unfold s1. cbn [mem set_mem]. apply byte_at_app_outside. unfold area_contains. cbn [a_start a_len A].
        apply andb_false_iff. destruct (Z.leb_spec (p_vaddr ph) x); [right; apply Z.ltb_ge; lia|left; reflexivity]. }
  destruct Step as (s2 & E2 & Es2 & HI2 & HL2 & B1 & B2 & B3).
  rewrite E2.
  (* mem_prot *)
  unfold mem_prot. pose proof (flags_prot_le7 (p_flags ph)) as Hp.
  destruct (Z.leb_spec (elf_flags_to_prot (p_flags ph)) 7); [|lia]. cbn [negb].
  assert (Hex : exists a, In a (mem s2) /\ a_start a = p_vaddr ph).
  { assert (Hin : In (p_vaddr ph, rounded, Z.lor PROT_READ PROT_WRITE) (layout (mem s2))) by (rewrite HL2; apply in_or_app; right; left; reflexivity).
    unfold layout in Hin. apply in_map_iff in Hin. destruct Hin as (a & Ha & Hin). exists a. split; [exact Hin|]. inversion Ha; reflexivity. }
  destruct (prot_go_exists (p_vaddr ph) (elf_flags_to_prot (p_flags ph)) (mem s2) Hex) as [m' G]. rewrite G.
  eexists. split; [reflexivity|]. cbn [mem set_mem].
  split; [rewrite Es2; destruct s; reflexivity|].
  split; [eapply inv_same_geometry; [eapply prot_go_layout; exact G|exact HI2]|].
  split.
  { rewrite (prot_go_layout_spec _ _ _ _ G), HL2. apply prot_layout_last.
    intros t Hti. unfold layout in Hti. apply in_map_iff in Hti. destruct Hti as (b & <- & Hb). cbn. apply Hnostart. exact Hb. }
  split; [intros i Hi; rewrite (byte_at_prot_go _ _ _ _ G); apply B1; exact Hi|].
  split; [intros i Hi; rewrite (byte_at_prot_go _ _ _ _ G); apply B2; exact Hi|].
  intros x Hx. rewrite (byte_at_prot_go _ _ _ _ G). apply B3. exact Hx.
Qed.

(* ---- all segments of a file ---- *)
Definition is_load (ph : phdr) : bool := negb (p_vaddr ph =? 0) && (p_type ph =? PT_LOAD).

(* headers the loader skips without touching the machine *)
Definition skippable (f : elf_bytes) (ph : phdr) : Prop :=
  p_vaddr ph = 0 \/
  ((exists d, segment_data f ph = Some d) /\
   (p_type ph = PT_NULL \/ p_type ph = PT_NOTE \/ p_type ph = PT_SHLIB \/ p_type ph = PT_PHDR \/
    p_type ph = PT_GNU_EH_FRAME \/ p_type ph = PT_GNU_PROPERTY \/ p_type ph = PT_GNU_RELRO \/
    (p_type ph = PT_GNU_STACK /\ p_flags ph = Z.lor PF_R PF_W))).

Lemma skippable_noop c f ph s : skippable f ph -> load_segment c f ph s = (Ok tt, s).
Proof.
  intros [H|[[d Hd] H]]; unfold load_segment, debug_expect_p_type.
  - rewrite H. reflexivity.
  - destruct (p_vaddr ph =? 0); [reflexivity|]. rewrite Hd.
    destruct H as [E|[E|[E|[E|[E|[E|[E|[E E2]]]]]]]]; rewrite E; try reflexivity. cbn. rewrite E2. reflexivity.
Qed.

(* a well-formed loadable segment, given what is already mapped *)
Definition load_ok (f : elf_bytes) (ph : phdr) (m : list area) : Prop :=
  p_vaddr ph <> 0 /\ p_type ph = PT_LOAD /\ phdr_nonneg ph /\
  (exists d, segment_data f ph = Some d) /\
  p_filesz ph <= p_memsz ph /\ 0 < p_memsz ph <= MAX_SEGMENT_MEMSZ /\
  p_vaddr ph + rounded_size (p_memsz ph) < 2 ^ 64 /\
  free_range m (p_vaddr ph) (rounded_size (p_memsz ph)).

(* the bytes of segment [ph] are in memory [m] *)
Definition segment_loaded (f : elf_bytes) (ph : phdr) (m : list area) : Prop :=
  exists d, segment_data f ph = Some d /\
    In (p_vaddr ph, rounded_size (p_memsz ph), elf_flags_to_prot (p_flags ph)) (layout m) /\
    (forall i, 0 <= i < p_filesz ph -> byte_at m (p_vaddr ph + i) = nth_error d (Z.to_nat i)) /\
    (forall i, p_filesz ph <= i < rounded_size (p_memsz ph) -> byte_at m (p_vaddr ph + i) = Some 0).

Lemma load_segment_load c f ph s :
  Inv (mem s) -> bytes_ok (eb_data f) -> load_ok f ph (mem s) ->
  exists s', load_segment c f ph s = (Ok tt, s') /\ s' = set_mem s (mem s') /\ Inv (mem s') /\
    layout (mem s') = layout (mem s) ++ [(p_vaddr ph, rounded_size (p_memsz ph), elf_flags_to_prot (p_flags ph))] /\
    segment_loaded f ph (mem s') /\
    (forall x, ~ (p_vaddr ph <= x < p_vaddr ph + rounded_size (p_memsz ph)) -> byte_at (mem s') x = byte_at (mem s) x).
Proof.
  intros HI Hd (Hv & Ht & Hn & (d & Ed) & Hfm & Hms & Hfit & Hfree).
  destruct (segment_data_ok _ _ _ Ed Hd Hn) as [Hc Hz].
  destruct (load_pt_load_image c ph d s HI Hn Hc Hz Hfm Hms Hfit Hfree) as (s' & E & Es & HI' & HL & B1 & B2 & B3).
  exists s'. unfold load_segment, debug_expect_p_type.
  destruct (Z.eqb_spec (p_vaddr ph) 0); [contradiction|]. rewrite Ed. rewrite Ht.
  repeat match goal with |- context [if ?b then _ else _] => let b' := eval vm_compute in b in change b with b'; cbv iota end.
  change (bind (ret tt) (fun _ => load_pt_load c ph d) s) with (load_pt_load c ph d s). rewrite E.
  split; [reflexivity|]. split; [exact Es|]. split; [exact HI'|]. split; [exact HL|].
  split; [|exact B3].
  exists d. split; [exact Ed|]. split; [rewrite HL; apply in_or_app; right; left; reflexivity|]. split; assumption.
Qed.

(* the program-header table, entry by entry: every entry is skippable or a well-formed load
   with respect to what has been mapped so far *)
Fixpoint table_ok (f : elf_bytes) (l : list phdr) (m : list area) : Prop :=
  match l with
  | nil => True
  | ph :: r =>
      (skippable f ph /\ table_ok f r m) \/
      (load_ok f ph m /\
       forall m', layout m' = layout m ++ [(p_vaddr ph, rounded_size (p_memsz ph), elf_flags_to_prot (p_flags ph))] ->
                  table_ok f r m')
  end.

Lemma load_not_skippable f q : is_load q = true -> ~ skippable f q.
Proof.
  unfold is_load. intros Hload Hsk. apply andb_true_iff in Hload. destruct Hload as [H1 H2].
  apply Z.eqb_eq in H2. destruct Hsk as [H0|[_ Ht]].
  - rewrite H0 in H1. discriminate.
  - rewrite H2 in Ht. unfold PT_LOAD, PT_NULL, PT_NOTE, PT_SHLIB, PT_PHDR, PT_GNU_EH_FRAME, PT_GNU_PROPERTY, PT_GNU_RELRO, PT_GNU_STACK in Ht.
    destruct Ht as [X|[X|[X|[X|[X|[X|[X|[X _]]]]]]]]; discriminate X.
Qed.

(* a later load never covers an address of an area that is already mapped *)
Lemma table_ok_disjoint f : forall r m, table_ok f r m ->
  forall st ln ac, In (st, ln, ac) (layout m) ->
  forall q, In q r -> is_load q = true ->
  forall x, st <= x < st + ln -> ~ (p_vaddr q <= x < p_vaddr q + rounded_size (p_memsz q)).
Proof.
  induction r as [|ph r IH]; intros m Hok st ln ac Hin q Hq Hload x Hx Hxq; [destruct Hq|].
  cbn [table_ok] in Hok. destruct Hok as [[Hsk Hr]|[Hl Hr]].
  - destruct Hq as [<-|Hq]; [exact (load_not_skippable f ph Hload Hsk)|].
    exact (IH m Hr st ln ac Hin q Hq Hload x Hx Hxq).
  - destruct Hq as [<-|Hq].
    + destruct Hl as (_ & _ & _ & _ & _ & _ & _ & Hfree).
      unfold layout in Hin. apply in_map_iff in Hin. destruct Hin as (a & Ha & Hina).
      specialize (Hfree a Hina). unfold shape in Ha. inversion Ha; subst. unfold area_blocks in Hfree.
      apply orb_false_iff in Hfree. destruct Hfree as [F1 F2].
      apply andb_false_iff in F1. apply andb_false_iff in F2.
      destruct F1 as [F1|F1]; [apply Z.leb_gt in F1|apply Z.ltb_ge in F1];
        destruct F2 as [F2|F2]; [apply Z.leb_gt in F2|apply Z.ltb_ge in F2| apply Z.leb_gt in F2|apply Z.ltb_ge in F2]; lia.
    + set (t := (p_vaddr ph, rounded_size (p_memsz ph), elf_flags_to_prot (p_flags ph))).
      set (m' := m ++ [{| a_start := p_vaddr ph; a_len := rounded_size (p_memsz ph); a_data := nil; a_access := elf_flags_to_prot (p_flags ph) |}]).
      assert (HL : layout m' = layout m ++ [t]) by (unfold m', layout; rewrite map_app; reflexivity).
      apply (IH m' (Hr m' HL) st ln ac (ltac:(rewrite HL; apply in_or_app; left; exact Hin)) q Hq Hload x Hx Hxq).
Qed.

Theorem load_segments_image c f : forall l s,
  Inv (mem s) -> bytes_ok (eb_data f) -> table_ok f l (mem s) ->
  exists s', load_segments c f l s = (Ok tt, s') /\ s' = set_mem s (mem s') /\ Inv (mem s') /\
    (exists ex, layout (mem s') = layout (mem s) ++ ex) /\
    (* every loadable segment is in memory: file bytes, zero tail, permissions *)
    (forall ph, In ph l -> is_load ph = true -> segment_loaded f ph (mem s')) /\
    (* whatever was mapped before and is not covered by a segment is unchanged *)
    (forall x, (forall ph, In ph l -> is_load ph = true ->
                  ~ (p_vaddr ph <= x < p_vaddr ph + rounded_size (p_memsz ph))) ->
               byte_at (mem s') x = byte_at (mem s) x).
Proof.
  induction l as [|ph r IH]; intros s HI Hd Hok; cbn [load_segments].
  - exists s. split; [reflexivity|]. split; [destruct s; reflexivity|]. split; [exact HI|].
    split; [exists nil; rewrite app_nil_r; reflexivity|]. split; [intros ph []|reflexivity].
  - cbn [table_ok] in Hok. destruct Hok as [[Hsk Hr]|[Hl Hr]].
    + (* skipped entry *)
      unfold bind. rewrite (skippable_noop c f ph s Hsk).
      destruct (IH s HI Hd Hr) as (s' & E & Es & HI' & G & A & B).
      exists s'. split; [exact E|]. split; [exact Es|]. split; [exact HI'|]. split; [exact G|]. split.
      * intros q [<-|Hq] Hload; [|apply A; assumption].
        exfalso. exact (load_not_skippable f ph Hload Hsk).
      * intros x Hx. apply B. intros q Hq. apply Hx. right. exact Hq.
    + (* a loaded segment *)
      destruct (load_segment_load c f ph s HI Hd Hl) as (s1 & E1 & Es1 & HI1 & HL1 & Sg & Out).
      unfold bind. rewrite E1.
      destruct (IH s1 HI1 Hd (Hr _ HL1)) as (s' & E & Es & HI' & (ex & G) & A & B).
      exists s'. split; [exact E|]. split; [rewrite Es, Es1; destruct s; reflexivity|]. split; [exact HI'|].
      split; [eexists; rewrite G, HL1, <- app_assoc; reflexivity|]. split.
      * intros q [<-|Hq] Hload; [|apply A; assumption].
        (* the segment loaded first is still intact: later segments lie outside it *)
        destruct Sg as (d & Ed & Hin & S1 & S2).
        assert (Hkeep : forall i, 0 <= i < rounded_size (p_memsz ph) -> byte_at (mem s') (p_vaddr ph + i) = byte_at (mem s1) (p_vaddr ph + i)).
        { intros i Hi. apply B. intros q' Hq' Hl'.
          apply (table_ok_disjoint f r (mem s1) (Hr _ HL1) _ _ _ Hin q' Hq' Hl'). lia. }
        assert (Hfm : p_filesz ph <= rounded_size (p_memsz ph)).
        { destruct Hl as (_ & _ & _ & _ & H1 & H2 & _). unfold rounded_size. lia. }
        assert (Hf0 : 0 <= p_filesz ph) by (destruct Hl as (_ & _ & (_ & _ & _ & N4 & _) & _); exact N4).
        exists d. split; [exact Ed|]. split.
        { rewrite G. apply in_or_app. left. exact Hin. }
        split; [intros i Hi; rewrite Hkeep by lia; apply S1; exact Hi|intros i Hi; rewrite Hkeep by lia; apply S2; exact Hi].
      * intros x Hx. rewrite B; [apply Out; apply (Hx ph (or_introl eq_refl))|intros q Hq; apply Hx; right; exact Hq].
        destruct Hl as (Hv & Ht & _). unfold is_load. apply andb_true_iff. split; [apply negb_true_iff; apply Z.eqb_neq; exact Hv|apply Z.eqb_eq; exact Ht].
Qed.

(* ---- symbols ---- *)
Definition sym_lookup (a : Z) (syms : list (Z * list Z)) : option (list Z) :=
  match find (fun p => fst p =? a) syms with Some p => Some (snd p) | None => None end.

Definition sym_at (strtab : list Z) (a : Z) (sy : symbol) (name : list Z) : Prop :=
  is_undefined sy = false /\ st_value sy = a /\ strtab_get strtab (st_name sy) = Some name.

Lemma lookup_insert_same k v s : sym_lookup k (symbols (snd (symbols_insert k v s))) = Some v.
Proof. unfold sym_lookup, symbols_insert. cbn. rewrite Z.eqb_refl. reflexivity. Qed.

Lemma lookup_insert_other k v s a : a <> k -> sym_lookup a (symbols (snd (symbols_insert k v s))) = sym_lookup a (symbols s).
Proof.
  intros Hn. unfold sym_lookup, symbols_insert. cbn [snd symbols set_symbols find fst].
  destruct (Z.eqb_spec k a); [congruence|].
  induction (symbols s) as [|[k' v'] l IH]; cbn [filter find fst]; [reflexivity|].
  destruct (Z.eqb_spec k' k) as [E|E]; cbn [negb].
  - destruct (Z.eqb_spec k' a); [congruence|]. exact IH.
  - cbn [find fst]. destruct (k' =? a); [reflexivity|exact IH].
Qed.

Lemma bind_insert {B} k v (f : unit -> MM B) s : bind (symbols_insert k v) f s = f tt (snd (symbols_insert k v s)).
Proof. reflexivity. Qed.

Lemma load_symbols_frame strtab : forall l s,
  fst (load_symbols strtab l s) = Ok tt /\ mem (snd (load_symbols strtab l s)) = mem s /\
  regs (snd (load_symbols strtab l s)) = regs s.
Proof.
  induction l as [|sy l IH]; intros s; cbn [load_symbols]; [repeat split|].
  destruct (is_undefined sy); [apply IH|]. destruct (strtab_get strtab (st_name sy)); [|apply IH].
  rewrite bind_insert. destruct (IH (snd (symbols_insert (st_value sy) l0 s))) as (A & B & C). split; [exact A|]. split; [rewrite B; reflexivity|rewrite C; reflexivity].
Qed.

Lemma load_symbols_untouched strtab a : forall l s,
  (forall sy name, In sy l -> sym_at strtab a sy name -> False) ->
  sym_lookup a (symbols (snd (load_symbols strtab l s))) = sym_lookup a (symbols s).
Proof.
  induction l as [|sy l IH]; intros s Hno; cbn [load_symbols]; [reflexivity|].
  assert (Hno' : forall sy' name, In sy' l -> sym_at strtab a sy' name -> False) by (intros; eapply Hno; [right|]; eauto).
  destruct (is_undefined sy) eqn:U; [apply IH; exact Hno'|].
  destruct (strtab_get strtab (st_name sy)) as [name|] eqn:G; [|apply IH; exact Hno'].
  rewrite bind_insert. rewrite IH by exact Hno'. apply lookup_insert_other.
  intros E. apply (Hno sy name (or_introl eq_refl)). repeat split; auto.
Qed.

(* every address that carries a defined, named symbol resolves to the name of a symbol defined there *)
Theorem load_symbols_resolve strtab a : forall l s,
  (exists sy name, In sy l /\ sym_at strtab a sy name) ->
  exists sy name, In sy l /\ sym_at strtab a sy name /\
    sym_lookup a (symbols (snd (load_symbols strtab l s))) = Some name.
Proof.
  induction l as [|sy l IH]; intros s (sy0 & name0 & Hin & Hat); [destruct Hin|].
  (* is there a later definition? decide by excluded-middle-free case analysis on the tail via IH *)
  cbn [load_symbols].
  assert (Dec : (exists sy' name', In sy' l /\ sym_at strtab a sy' name') \/
                (forall sy' name', In sy' l -> sym_at strtab a sy' name' -> False)).
  { clear. induction l as [|x l IHl]; [right; intros ? ? []|].
    destruct IHl as [(sy' & n' & Hi & Ha)|Hn]; [left; exists sy', n'; split; [right; exact Hi|exact Ha]|].
    assert (Tail : forall sy' n', In sy' l -> sym_at strtab a sy' n' -> False) by exact Hn.
    destruct (is_undefined x) eqn:U.
    { right. intros sy' n' [<-|Hi] Hs; [destruct Hs as (A & _); congruence|exact (Tail sy' n' Hi Hs)]. }
    destruct (Z.eq_dec (st_value x) a) as [E|E].
    2:{ right. intros sy' n' [<-|Hi] Hs; [destruct Hs as (_ & B & _); congruence|exact (Tail sy' n' Hi Hs)]. }
    destruct (strtab_get strtab (st_name x)) as [nm|] eqn:G.
    - left. exists x, nm. split; [left; reflexivity|]. split; [exact U|]. split; [exact E|exact G].
    - right. intros sy' n' [<-|Hi] Hs; [destruct Hs as (_ & _ & C); congruence|exact (Tail sy' n' Hi Hs)]. }
  destruct Dec as [Hlater|Hnone].
  - (* a later symbol at this address wins *)
    assert (Go : forall s0, exists sy1 name1, In sy1 (sy :: l) /\ sym_at strtab a sy1 name1 /\
                   sym_lookup a (symbols (snd (load_symbols strtab l s0))) = Some name1).
    { intros s0. destruct (IH s0 Hlater) as (sy1 & n1 & Hi1 & Ha1 & L1). exists sy1, n1. split; [right; exact Hi1|split; assumption]. }
    destruct (is_undefined sy); [apply Go|]. destruct (strtab_get strtab (st_name sy)); [|apply Go].
    rewrite bind_insert. apply Go.
  - (* the head is the last definition *)
    destruct Hin as [<-|Hin]; [|exfalso; eapply Hnone; eauto].
    destruct Hat as (U & V & G). rewrite U, G. rewrite bind_insert.
    exists sy, name0. split; [left; reflexivity|]. split; [repeat split; assumption|].
    rewrite load_symbols_untouched by exact Hnone. rewrite <- V. apply lookup_insert_same.
Qed.

(* ---- the whole file ---- *)
Theorem from_binary_image c data f phbuf :
  bytes_ok data -> minimal_parse data = Some f -> eb_phdrs f = Some phbuf ->
  let l := table_iter (parse_phdr (eb_little f) (eb_class f)) phbuf in
  table_ok f l (mem empty_state) ->
  exists s', from_binary c data empty_state = (Ok tt, s') /\
    (* the instruction pointer is the entry point *)
    regs s' RIP = e_entry (eb_ehdr f) /\
    (* memory: every loadable segment's file bytes at its address, zeros up to the rounded
       memory size, permissions from the flags; all areas pairwise disjoint *)
    Inv (mem s') /\
    (forall ph, In ph l -> is_load ph = true -> segment_loaded f ph (mem s')) /\
    (* symbols: an address that carries a defined, named symbol resolves to such a name *)
    (forall st sb a, symbol_table f = Some (Some (st, sb)) ->
       let syms := table_iter (parse_symbol (eb_little f) (eb_class f)) st in
       (exists sy name, In sy syms /\ sym_at sb a sy name) ->
       exists sy name, In sy syms /\ sym_at sb a sy name /\ sym_lookup a (symbols s') = Some name).
Proof.
  intros Hd MP EP l Hok. unfold from_binary. rewrite MP.
  destruct (minimal_parse_ok _ _ MP Hd) as [Ed _].
  set (e := e_entry (eb_ehdr f)).
  (* the four bookkeeping steps *)
  unfold bind at 1. unfold regs_insert. unfold bind at 1. unfold call_stack_push.
  rewrite bind_insert. unfold bind at 1. unfold trace_push. rewrite EP. fold l.
  match goal with |- exists s', bind _ _ ?s0 = _ /\ _ => set (s0' := s0) end.
  assert (HI0 : Inv (mem s0')) by (split; constructor).
  assert (Hok0 : table_ok f l (mem s0')) by exact Hok.
  destruct (load_segments_image c f l s0' HI0 ltac:(rewrite Ed; exact Hd) Hok0) as (s1 & E1 & Es1 & HI1 & _ & A & _).
  unfold bind at 1. rewrite E1.
  assert (R1 : regs s1 RIP = e) by (rewrite Es1; reflexivity).
  destruct (symbol_table f) as [[[st sb]|]|] eqn:ST.
  - destruct (load_symbols_frame sb (table_iter (parse_symbol (eb_little f) (eb_class f)) st) s1) as (F1 & F2 & F3).
    destruct (load_symbols sb _ s1) as [r s2] eqn:LS. cbn [fst snd] in *. subst r.
    exists s2. split; [reflexivity|]. split; [rewrite F3; exact R1|]. split; [rewrite F2; exact HI1|].
    split; [intros ph Hp Hl; rewrite F2; apply A; assumption|].
    intros st' sb' a Heq. cbv zeta. intros Hex. inversion Heq; subst st' sb'.
    pose proof (load_symbols_resolve sb a _ s1 Hex) as H. rewrite LS in H. exact H.
  - exists s1. split; [reflexivity|]. split; [exact R1|]. split; [exact HI1|]. split; [exact A|]. intros; discriminate.
  - exists s1. split; [reflexivity|]. split; [exact R1|]. split; [exact HI1|]. split; [exact A|]. intros; discriminate.
Qed.
