(* C01/C02/C06: the 64-bit ALU forms "r/m64, r64" with a MEMORY destination (read-modify-write)
   against the ISA specification.  The emulator updates the flags before it stores the result,
   so when the store is refused (read-only memory) the step fails with the flags already
   changed; registers and memory are untouched then.  That is what the theorems say. *)
From Coq Require Import ZArith Bool List Lia.
From AxV Require Import Bits Outcome Codes Iced State Rt Mem Trace BitsP ByteStore MemP RegFile RegsP ISA CodeSem ReadonlyTac
  OperandP FlagsP CfP MovP RmP AluP AluRmP.
From AxG Require Import Flags Regs Operand Helpers I_add I_and I_xor I_sub I_cmp.
Local Open Scope Z_scope.
Ltac Zify.zify_post_hook ::= Z.div_mod_to_equations.

Section MemDest.
  Variables (c : cfg) (i : instr) (s : mstate).
  Hypothesis Hwf : wf_regs s.
  Hypothesis HI : Inv (mem s).
  Hypothesis Hn : i_op_count i = 2.
  Hypothesis K0 : i_op_kind i 0 = OK_Memory.
  Hypothesis Hm : wf_mem_instr i.
  Hypothesis K1 : i_op_kind i 1 = OK_Register.
  Hypothesis H1 : is_gpr64 (i_op_register i 1) = true.

  Let r1 := i_op_register i 1.
  Let sv := rf_read (regs s) r1.
  Let m := memop_of i.

  (* the store at the end: to the same effective address, in the state with the new flags *)
  Definition store_tail (res : Z) : MM unit :=
    bind (mem_addr c m) (fun a => bind (mem_write_64 a res) (fun _ => ret tt)).

  Lemma store_tail_spec x res :
    let s1 := set_rflags s x in
    match store (bytes_of 64) (ea i s1) res s1 with
    | Some s2 => store_tail res s1 = (Ok tt, s2)
    | None => exists e, store_tail res s1 = (Err e, s1)
    end.
  Proof.
    cbv zeta. set (s1 := set_rflags s x).
    assert (Hwf1 : wf_regs s1) by exact Hwf.
    destruct (operand_address c i 0 s1 Hwf1 Hm ltac:(rewrite Hn; reflexivity) K0) as (_ & EA & _).
    unfold store_tail, store. fold m in EA. rewrite (bind_ok _ _ _ _ _ EA).
    change (bytes_of 64) with 8%nat. rewrite <- typed_write_64_is_le.
    assert (HI1 : Inv (mem s1)) by exact HI.
    destruct (write_never_panics (ea i s1) (le_bytes 8 res) s1 HI1) as [(s2 & E)|(e & E)];
      rewrite typed_write_64_is_le; rewrite E.
    - rewrite <- typed_write_64_is_le in E. rewrite (bind_ok _ _ _ _ _ E). reflexivity.
    - exists e. rewrite <- typed_write_64_is_le in E. rewrite (bind_err _ _ _ _ _ E). reflexivity.
  Qed.

  Lemma calc_rm_r_64f_mem (op : Z -> Z -> outcome (Z * Z)) fset fclear :
    match read_op i 0 64 s with
    | Some d =>
        0 <= d < 2 ^ 64 /\
        forall res fl, op d sv = Ok (res, fl) -> Z.land fl NO_WRITEBACK = 0 ->
          calculate_rm_r_64f c i op fset fclear s =
          bind (set_flags_u64 c (Z.lor fset fl) fclear res)
               (fun _ => if Z.land fset NO_WRITEBACK =? 0 then store_tail res else ret tt) s
    | None => exists e, calculate_rm_r_64f c i op fset fclear s = (Err e, s)
    end.
  Proof.
    assert (S1 : is_supported r1 = true) by (unfold r1; destruct (i_op_register i 1); try discriminate H1; reflexivity).
    assert (O1 : instruction_operand c i 1 s = (Ok (OpRegister r1), s))
      by (apply operand_register; [rewrite Hn; reflexivity|exact K1|reflexivity|exact S1]).
    destruct (operand_address c i 0 s Hwf Hm ltac:(rewrite Hn; reflexivity) K0) as (O0 & EA & _). fold m in O0, EA.
    assert (OP : instruction_operands_2 c i s = (Ok (OpMemory m, OpRegister r1), s)).
    { unfold instruction_operands_2. rewrite (bind_ok _ _ _ _ _ O0). rewrite (bind_ok _ _ _ _ _ O1). reflexivity. }
    assert (TR : lift (operand_to_reg (OpRegister r1)) s = (Ok r1, s)) by reflexivity.
    pose proof (reg_read_64_ok c r1 s Hwf H1) as RD. fold sv in RD.
    unfold calculate_rm_r_64f, read_op. rewrite K0. unfold load. change (bytes_of 64) with 8%nat.
    rewrite (bind_ok _ _ _ _ _ OP). cbv beta iota.
    rewrite (bind_ok _ _ _ _ _ TR). rewrite (bind_ok _ _ _ _ _ RD).
    rewrite (bind_ok _ _ _ _ _ EA). change mem_read_64 with (mem_read_n 8).
    destruct (mem_read_n_cases 8 (ea i s) s HI) as [(d & E & R)|(e & E)]; rewrite E.
    - split; [exact R|]. intros res fl Hop Hfl.
      rewrite (bind_ok _ _ _ _ _ E). rewrite Hop.
      rewrite (bind_ok _ _ _ _ _ (eq_refl : lift (Ok (res, fl)) s = _)). cbv beta iota.
      assert (DA : lift (debug_assert_that c (Z.land fl NO_WRITEBACK =? 0)) s = (Ok tt, s)).
      { unfold lift, debug_assert_that, assert_that. rewrite Hfl. destruct (dbg c); reflexivity. }
      rewrite (bind_ok _ _ _ _ _ DA).
      destruct (Z.land fset NO_WRITEBACK =? 0); unfold store_tail, bind;
        destruct (set_flags_u64 c (Z.lor fset fl) fclear res s) as [[[]|e|p|] s1]; try reflexivity.
      destruct (mem_addr c m s1) as [[a|e|p|] s2]; try reflexivity.
      destruct (mem_write_64 a res s2) as [[[]|e|p|] s3]; reflexivity.
    - exists e. rewrite (bind_err _ _ _ _ _ E). reflexivity.
  Qed.
End MemDest.

Section MemForms.
  Variables (c : cfg) (i : instr) (s : mstate).
  Hypothesis Hwf : wf_regs s.
  Hypothesis HI : Inv (mem s).
  Hypothesis Hrf : 0 <= rflags s < 2 ^ 63.
  Hypothesis Hn : i_op_count i = 2.
  Hypothesis K0 : i_op_kind i 0 = OK_Memory.
  Hypothesis Hm : wf_mem_instr i.
  Hypothesis K1 : i_op_kind i 1 = OK_Register.
  Hypothesis H1 : is_gpr64 (i_op_register i 1) = true.

  Let Hrf64 : 0 <= rflags s < 2 ^ 64.
  Proof. change (2 ^ 63) with 9223372036854775808 in Hrf. change (2 ^ 64) with 18446744073709551616. lia. Qed.

  (* completes like the CPU; fails when the CPU faults on the operand - on a refused store only the
     flag word has changed *)
  Definition rmw_refines (op : aluop) (run : outcome unit * mstate) : Prop :=
    match isa_exec (SAlu op 64) i s with
    | IDone s' u => run = (Ok tt, s') /\ u = 0
    | IFault FMem => exists e x, run = (Err e, s) \/ run = (Err e, set_rflags s x)
    | IFault _ => False
    end.

  Ltac start Ec f :=
    unfold rmw_refines, f; rewrite Ec;
    rewrite (bind_ok _ _ _ _ _ (dbg_code_ok c s _ eq_refl));
    cbn [isa_exec]; unfold exec_alu; unfold read_op at 2; rewrite K1; rewrite rf_read_mod64 by exact H1.

  Ltac finish :=
    unfold write_op; rewrite K0;
    match goal with |- context [store_tail c i ?res (with_flags s ?mk ?bits)] =>
      pose proof (store_tail_spec c i s Hwf HI Hn K0 Hm (set_status (rflags s) mk bits) res) as ST;
      cbv zeta in ST; fold (with_flags s mk bits) in ST;
      destruct (store (bytes_of 64) (ea i (with_flags s mk bits)) res (with_flags s mk bits)) as [s2|];
      [rewrite ST; cbn [opt_done]; split; reflexivity
      |destruct ST as [e ST]; rewrite ST; cbn [opt_done]; exists e; eexists; right; reflexivity]
    end.

  Theorem add_m64_r64_refines : i_code i = C_Add_rm64_r64 -> rmw_refines ADD (instr_add_rm64_r64 c i s).
  Proof.
    intros Ec. start Ec instr_add_rm64_r64.
    match goal with |- context [calculate_rm_r_64f c i ?op ?fs ?fc s] =>
      pose proof (calc_rm_r_64f_mem c i s Hwf HI Hn K0 Hm K1 H1 op fs fc) as SH end.
    destruct (read_op i 0 64 s) as [d|]; [|destruct SH as [e SH]; exists e, 0; left; exact SH]. destruct SH as [Hd SH].
    set (sv := rf_read (regs s) (i_op_register i 1)) in *.
    assert (Hsv : 0 <= sv < 2 ^ 64) by (apply (rf_read_range64 s); exact H1).
    set (cfb := 2 ^ 64 <=? d + sv). set (ofb := negb (fits_signed 64 (sgn 64 d + sgn 64 sv))).
    assert (Hfl : Z.land (Z.lor (b2f ofb FLAG_OF) (b2f cfb FLAG_CF)) NO_WRITEBACK = 0) by (destruct ofb, cfb; reflexivity).
    rewrite (SH _ _ (add64_closure c d sv Hd Hsv) Hfl).
    change (Z.lor (Z.lor (Z.lor FLAG_SF FLAG_ZF) FLAG_PF) (Z.lor (b2f ofb FLAG_OF) (b2f cfb FLAG_CF))) with (arith_fs cfb ofb).
    change (Z.lor FLAG_OF FLAG_CF) with 2049.
    rewrite (bind_ok _ _ _ _ _ (set_flags_u64_arith c cfb ofb _ s Hrf64)).
    change (Z.land (Z.lor (Z.lor FLAG_SF FLAG_ZF) FLAG_PF) NO_WRITEBACK =? 0) with true. cbv iota.
    cbn [alu]. rewrite !Z.add_0_r. fold cfb ofb. finish.
  Qed.

  Theorem sub_m64_r64_refines : i_code i = C_Sub_rm64_r64 -> rmw_refines SUB (instr_sub_rm64_r64 c i s).
  Proof.
    intros Ec. start Ec instr_sub_rm64_r64.
    match goal with |- context [calculate_rm_r_64f c i ?op ?fs ?fc s] =>
      pose proof (calc_rm_r_64f_mem c i s Hwf HI Hn K0 Hm K1 H1 op fs fc) as SH end.
    destruct (read_op i 0 64 s) as [d|]; [|destruct SH as [e SH]; exists e, 0; left; exact SH]. destruct SH as [Hd SH].
    set (sv := rf_read (regs s) (i_op_register i 1)) in *.
    assert (Hsv : 0 <= sv < 2 ^ 64) by (apply (rf_read_range64 s); exact H1).
    set (cfb := d <? sv). set (ofb := negb (fits_signed 64 (sgn 64 d - sgn 64 sv))).
    assert (Hfl : Z.land (Z.lor (b2f ofb FLAG_OF) (b2f cfb FLAG_CF)) NO_WRITEBACK = 0) by (destruct ofb, cfb; reflexivity).
    rewrite (SH _ _ (f_equal Ok (sub64_closure d sv Hd Hsv)) Hfl).
    change (Z.lor (Z.lor (Z.lor FLAG_SF FLAG_ZF) FLAG_PF) (Z.lor (b2f ofb FLAG_OF) (b2f cfb FLAG_CF))) with (arith_fs cfb ofb).
    change (Z.lor FLAG_CF FLAG_OF) with 2049.
    rewrite (bind_ok _ _ _ _ _ (set_flags_u64_arith c cfb ofb _ s Hrf64)).
    change (Z.land (Z.lor (Z.lor FLAG_SF FLAG_ZF) FLAG_PF) NO_WRITEBACK =? 0) with true. cbv iota.
    cbn [alu]. fold cfb ofb. finish.
  Qed.

  Theorem cmp_m64_r64_refines : i_code i = C_Cmp_rm64_r64 -> rmw_refines CMP (instr_cmp_rm64_r64 c i s).
  Proof.
    intros Ec. start Ec instr_cmp_rm64_r64.
    match goal with |- context [calculate_rm_r_64f c i ?op ?fs ?fc s] =>
      pose proof (calc_rm_r_64f_mem c i s Hwf HI Hn K0 Hm K1 H1 op fs fc) as SH end.
    destruct (read_op i 0 64 s) as [d|]; [|destruct SH as [e SH]; exists e, 0; left; exact SH]. destruct SH as [Hd SH].
    set (sv := rf_read (regs s) (i_op_register i 1)) in *.
    assert (Hsv : 0 <= sv < 2 ^ 64) by (apply (rf_read_range64 s); exact H1).
    set (cfb := d <? sv). set (ofb := negb (fits_signed 64 (sgn 64 d - sgn 64 sv))).
    assert (Hfl : Z.land (Z.lor (b2f ofb FLAG_OF) (b2f cfb FLAG_CF)) NO_WRITEBACK = 0) by (destruct ofb, cfb; reflexivity).
    rewrite (SH _ _ (f_equal Ok (sub64_closure d sv Hd Hsv)) Hfl).
    change (Z.lor (Z.lor (Z.lor (Z.lor NO_WRITEBACK FLAG_SF) FLAG_ZF) FLAG_PF) (Z.lor (b2f ofb FLAG_OF) (b2f cfb FLAG_CF))) with (cmp_fs cfb ofb).
    change (Z.lor FLAG_CF FLAG_OF) with 2049.
    rewrite (bind_ok _ _ _ _ _ (set_flags_u64_cmp c cfb ofb _ s Hrf)).
    change (Z.land (Z.lor (Z.lor (Z.lor NO_WRITEBACK FLAG_SF) FLAG_ZF) FLAG_PF) NO_WRITEBACK =? 0) with false. cbv iota.
    cbn [alu]. fold cfb ofb. split; reflexivity.
  Qed.

  Theorem and_m64_r64_refines : i_code i = C_And_rm64_r64 -> rmw_refines AND (instr_and_rm64_r64 c i s).
  Proof.
    intros Ec. start Ec instr_and_rm64_r64.
    match goal with |- context [calculate_rm_r_64f c i ?op ?fs ?fc s] =>
      pose proof (calc_rm_r_64f_mem c i s Hwf HI Hn K0 Hm K1 H1 op fs fc) as SH end.
    destruct (read_op i 0 64 s) as [d|]; [|destruct SH as [e SH]; exists e, 0; left; exact SH]. destruct SH as [Hd SH].
    rewrite (SH _ 0 eq_refl eq_refl).
    change (Z.lor (Z.lor (Z.lor FLAG_SF FLAG_ZF) FLAG_PF) 0) with (arith_fs false false).
    change (Z.lor FLAG_OF FLAG_CF) with 2049.
    rewrite (bind_ok _ _ _ _ _ (set_flags_u64_arith c false false _ s Hrf64)).
    change (Z.land (Z.lor (Z.lor FLAG_SF FLAG_ZF) FLAG_PF) NO_WRITEBACK =? 0) with true. cbv iota.
    cbn [alu b2f]. change (0 + 0) with 0. rewrite !Z.add_0_l. finish.
  Qed.
End MemForms.
