(* C06 at the level of the whole step: "a step fails exactly when the CPU faults", end to end for the
   64-bit load MOV r64, [m].  One Axecutor::step over that instruction (no hooks registered for MOV,
   instruction limit not reached) returns Ok - with the specification's state, the counter incremented
   and the finished flag set exactly at the end of the code - when the specification completes, and
   returns an error with nothing changed but RIP (already advanced to the next instruction, as
   execute.rs does before it runs the instruction) when the specification's load faults.
   The error of a refused load is EMem or EPerm, never the "top-level return" signal EFinish that
   the step would turn into success. *)
From Coq Require Import ZArith Bool List Lia.
From AxV Require Import Bits Outcome Codes Iced State Rt Mem Exec ByteStore ListP MemP ExecP RegFile RegsP ISA CodeSem OperandP FlagsP MovP RmP DivP StepIsaP FrameTac FrameP.
From AxG Require Import Dispatch DispatchEq I_mov I_div Readonly.
Local Open Scope Z_scope.

Lemma mem_read_bytes_err_class a n s e s' :
  mem_read_bytes a n s = (Err e, s') -> e = EMem \/ e = EPerm.
Proof.
  unfold mem_read_bytes. destruct (find_area (mem s) a) as [ar|]; [|intros H; injection H as <- _; left; reflexivity].
  destruct (a + n >? a_start ar + a_len ar); [intros H; injection H as <- _; left; reflexivity|].
  destruct (Z.land (a_access ar) PROT_READ =? 0); [intros H; injection H as <- _; right; reflexivity|].
  cbv zeta. destruct (a - a_start ar + n <=? zlen (a_data ar)); discriminate.
Qed.

Lemma mem_read_n_err_class n a s e s' :
  mem_read_n n a s = (Err e, s') -> e = EMem \/ e = EPerm.
Proof.
  unfold mem_read_n. destruct (mem_read_bytes a (Z.of_nat n) s) as [[l|e0|p|] s1] eqn:E; try discriminate.
  intros H. injection H as <- _. exact (mem_read_bytes_err_class _ _ _ _ _ E).
Qed.

Section StepLoad.
  Variable decode : Z -> list Z -> option instr.
  Variables (c : cfg) (env : hookenv) (s : mstate) (bytes : list Z) (i : instr).
  Hypothesis Hf : finished s = false.
  Hypothesis Hl : (match max_instr s with Some limit => limit <=? icount s | None => false end) = false.
  Hypothesis Hb : mem_read_executable_bytes (regs s RIP) s = (Ok bytes, s).
  Hypothesis Hd : decode (regs s RIP) bytes = Some i.
  Hypothesis Hsup : supported_mnemonic_try_from c (i_mnemonic i) (entered s i) = (Ok (i_mnemonic i), entered s i).
  Hypothesis Hnone : env (i_mnemonic i) = None.
  Hypothesis Hmn : i_mnemonic i = M_Mov.
  Hypothesis Hc : i_code i = C_Mov_r64_rm64.
  Hypothesis Hwf : wf_regs s.
  Hypothesis Hinv : Inv (mem s).
  Hypothesis Hnip : 0 <= i_next_ip i < 2 ^ 64.
  Hypothesis Hic : 0 <= icount s < 2 ^ 64 - 1.
  Hypothesis Hm : wf_mem_instr i.
  Hypothesis Hn : i_op_count i = 2.
  Hypothesis K0 : i_op_kind i 0 = OK_Register.
  Hypothesis K1 : i_op_kind i 1 = OK_Memory.
  Hypothesis H0 : is_gpr64 (i_op_register i 0) = true.

  Notation step := (Exec.step decode switch_instruction_mnemonic supported_mnemonic_try_from).

  Theorem step_mov_r64_m64 :
    match isa_exec (SMov 64) i (entered s i) with
    | IDone s1 _ => step c env s = (Ok (negb (finished (after_step s1))), after_step s1)
    | IFault FMem => exists e, (e = EMem \/ e = EPerm) /\ step c env s = (Err e, entered s i)
    | IFault _ => False
    end.
  Proof.
    assert (Hwf' : wf_regs (entered s i)).
    { intros r. unfold entered. cbn [regs set_regs]. unfold upd. destruct (reg_eqb RIP r); [exact Hnip|apply Hwf]. }
    pose proof (mov_r64_m64_refines c i (entered s i) Hc Hwf' Hm Hn K0 K1 H0) as R.
    pose proof (mov_load_shape c i (entered s i) Hc Hwf' Hm Hn K0 K1 H0) as SH.
    destruct (isa_exec (SMov 64) i (entered s i)) as [s1 u|f] eqn:I.
    - destruct R as (E & _).
      apply (step_of_ok decode c env s bytes i Hf Hl Hb Hd Hsup Hnone).
      + rewrite (dispatch_instr_mov_r64_rm64 c i _ Hmn Hc). exact E.
      + pose proof (FrameP.dispatch_keeps_counters c i (entered s i)) as K.
        rewrite (dispatch_instr_mov_r64_rm64 c i _ Hmn Hc) in K. rewrite E in K. cbn [snd] in K.
        destruct K as (K & _). change (icount (entered s i)) with (icount s) in K. rewrite K. exact Hic.
    - (* the specification faults: it can only be the load *)
      cbn [isa_exec] in I. unfold read_op, write_op in I. rewrite K0, K1 in I. unfold load in I.
      change (bytes_of 64) with 8%nat in I.
      assert (F : f = FMem).
      { destruct (mem_read_n 8 (ea i (entered s i)) (entered s i)) as [[v|e|p|] s1]; cbn [opt_done] in I;
          try discriminate I; injection I as <-; reflexivity. }
      subst f.
      assert (Hinv' : Inv (mem (entered s i))) by exact Hinv.
      destruct (read_never_panics (ea i (entered s i)) 8 (entered s i) Hinv' ltac:(lia)) as [(l & RB)|(e & RB)].
      + exfalso. unfold mem_read_n in I. change (Z.of_nat 8) with 8 in I. rewrite RB in I. discriminate I.
      + assert (RD : mem_read_n 8 (ea i (entered s i)) (entered s i) = (Err e, entered s i))
          by (unfold mem_read_n; change (Z.of_nat 8) with 8; rewrite RB; reflexivity).
        exists e. split; [exact (mem_read_n_err_class _ _ _ _ _ RD)|].
        apply (step_of_err decode c env s bytes i Hf Hl Hb Hd Hsup Hnone).
        * rewrite (dispatch_instr_mov_r64_rm64 c i _ Hmn Hc). rewrite SH. unfold bind. rewrite RD. reflexivity.
        * destruct (mem_read_n_err_class _ _ _ _ _ RD) as [->| ->]; discriminate.
  Qed.
End StepLoad.

(* DIV r64 (register divisor): the step fails with the divide error exactly when the CPU raises #DE
   (zero divisor, or a quotient that does not fit in 64 bits) and changes nothing but the already
   advanced RIP; otherwise it succeeds with the architectural quotient and remainder.  A register
   operand cannot fault on memory, so there is no other outcome. *)
Section StepDiv.
  Variable decode : Z -> list Z -> option instr.
  Variables (c : cfg) (env : hookenv) (s : mstate) (bytes : list Z) (i : instr).
  Hypothesis Hf : finished s = false.
  Hypothesis Hl : (match max_instr s with Some limit => limit <=? icount s | None => false end) = false.
  Hypothesis Hb : mem_read_executable_bytes (regs s RIP) s = (Ok bytes, s).
  Hypothesis Hd : decode (regs s RIP) bytes = Some i.
  Hypothesis Hsup : supported_mnemonic_try_from c (i_mnemonic i) (entered s i) = (Ok (i_mnemonic i), entered s i).
  Hypothesis Hnone : env (i_mnemonic i) = None.
  Hypothesis Hmn : i_mnemonic i = M_Div.
  Hypothesis Hc : i_code i = C_Div_rm64.
  Hypothesis Hwf : wf_regs s.
  Hypothesis Hinv : Inv (mem s).
  Hypothesis Hnip : 0 <= i_next_ip i < 2 ^ 64.
  Hypothesis Hic : 0 <= icount s < 2 ^ 64 - 1.
  Hypothesis Hn : i_op_count i = 1.
  Hypothesis K0 : i_op_kind i 0 = OK_Register.
  Hypothesis H0 : is_gpr64 (i_op_register i 0) = true.

  Notation step := (Exec.step decode switch_instruction_mnemonic supported_mnemonic_try_from).

  Theorem step_div_r64 :
    match isa_exec (SDiv 64) i (entered s i) with
    | IDone s1 _ => step c env s = (Ok (negb (finished (after_step s1))), after_step s1)
    | IFault FDivide => step c env s = (Err EDivZero, entered s i)
    | IFault _ => False
    end.
  Proof.
    assert (Hwf' : wf_regs (entered s i)).
    { intros r. unfold entered. cbn [regs set_regs]. unfold upd. destruct (reg_eqb RIP r); [exact Hnip|apply Hwf]. }
    assert (Hinv' : Inv (mem (entered s i))) by exact Hinv.
    pose proof (div_rm64_refines c i (entered s i) Hwf' Hinv' Hn (or_introl (conj K0 H0)) Hc) as R.
    destruct (isa_exec (SDiv 64) i (entered s i)) as [s1 u|f] eqn:I.
    - apply (step_of_ok decode c env s bytes i Hf Hl Hb Hd Hsup Hnone).
      + rewrite (dispatch_instr_div_rm64 c i _ Hmn Hc). exact R.
      + pose proof (FrameP.dispatch_keeps_counters c i (entered s i)) as K.
        rewrite (dispatch_instr_div_rm64 c i _ Hmn Hc) in K. rewrite R in K. cbn [snd] in K.
        destruct K as (K & _). change (icount (entered s i)) with (icount s) in K. rewrite K. exact Hic.
    - destruct f; try contradiction.
      + (* FMem: impossible with a register operand *)
        exfalso. cbv beta iota zeta delta [isa_exec exec_div read_op] in I. rewrite K0 in I.
        repeat match type of I with context [if ?b then _ else _] => destruct b end; discriminate I.
      + apply (step_of_err decode c env s bytes i Hf Hl Hb Hd Hsup Hnone).
        * rewrite (dispatch_instr_div_rm64 c i _ Hmn Hc). exact R.
        * discriminate.
  Qed.
End StepDiv.
