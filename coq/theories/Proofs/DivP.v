(* C06: DIV r/m64 on a register operand fails exactly when the CPU raises #DE (zero divisor or a
   quotient that does not fit 64 bits) and otherwise produces the architectural quotient and
   remainder - in both build configurations, without ever reaching a Rust panic (the 128-bit
   division is only executed with a non-zero divisor). *)
From Coq Require Import ZArith Bool List Lia.
From AxV Require Import Bits Outcome Codes Iced State Rt Mem Trace BitsP RegFile RegsP ISA CodeSem ReadonlyTac
  OperandP FlagsP CfP MovP AluP ByteStore MemP RmP.
From AxG Require Import Flags Regs Operand Helpers I_div.
Local Open Scope Z_scope.
Ltac Zify.zify_post_hook ::= Z.div_mod_to_equations.

Lemma lor_add_shift lo hi n : 0 <= n -> 0 <= lo < 2 ^ n -> 0 <= hi -> Z.lor lo (hi * 2 ^ n) = lo + hi * 2 ^ n.
Proof.
  intros Hn Hlo Hhi.
  assert (Z : Z.land lo (hi * 2 ^ n) = 0).
  { apply Z.bits_inj'. intros k Hk. rewrite Z.land_spec, Z.testbit_0_l.
    destruct (Z.lt_ge_cases k n) as [L|G].
    - rewrite Z.mul_pow2_bits_low by lia. apply andb_false_r.
    - destruct (Z.eq_dec lo 0) as [->|Nz]; [rewrite Z.testbit_0_l; reflexivity|].
      rewrite (Z.bits_above_log2 lo k); [reflexivity|lia|].
      apply Z.lt_le_trans with n; [apply Z.log2_lt_pow2; lia|exact G]. }
  rewrite <- Z.lxor_lor by exact Z. rewrite <- Z.add_nocarry_lxor by exact Z. reflexivity.
Qed.

Lemma cast_u64_u128 x : 0 <= x < 2 ^ 64 -> cast U64 U128 x = x.
Proof.
  intros H. unfold cast, Bits.sem, enc, modulus; cbn [signed width]. apply Z.mod_small.
  change (2 ^ 128) with 340282366920938463463374607431768211456. change (2 ^ 64) with 18446744073709551616 in *. lia.
Qed.

Section Div64.
  Variables (c : cfg) (i : instr) (s : mstate).
  Hypothesis Hwf : wf_regs s.
  Hypothesis HI : Inv (mem s).
  Hypothesis Hn : i_op_count i = 1.
  Hypothesis Hs : rm64_shape i 0.

  (* DIV r/m64 - register or memory divisor *)
  Theorem div_rm64_refines :
    i_code i = C_Div_rm64 ->
    match isa_exec (SDiv 64) i s with
    | IDone s' _ => instr_div_rm64 c i s = (Ok tt, s')
    | IFault FDivide => instr_div_rm64 c i s = (Err EDivZero, s)
    | IFault FMem => exists e, instr_div_rm64 c i s = (Err e, s)
    | IFault _ => False
    end.
  Proof.
    intros Ec. unfold instr_div_rm64. rewrite Ec.
    rewrite (bind_ok _ _ _ _ _ (dbg_code_ok c s _ eq_refl)).
    rewrite <- (bind_assoc (instruction_operand c i 0)). fold (read_rm64 c i 0).
    cbn [isa_exec]. unfold exec_div.
    pose proof (read_rm64_spec c i s 0 Hwf HI ltac:(lia) Hs) as RD.
    destruct (read_op i 0 64 s) as [d|]; [destruct RD as [RD Hd]|destruct RD as [e RD]];
      [|eexists; rewrite (bind_err _ _ _ _ _ RD); reflexivity].
    rewrite (bind_ok _ _ _ _ _ RD). cbv beta zeta.
    rewrite (cast_u64_u128 d Hd).
    destruct (Z.eqb_spec d 0) as [Z|NZ]; [reflexivity|].
    rewrite (bind_ok _ _ _ _ _ (reg_read_64_ok c RAX s Hwf eq_refl)).
    rewrite (bind_ok _ _ _ _ _ (reg_read_64_ok c RDX s Hwf eq_refl)).
    change (acc 64) with RAX. change (hi_reg 64) with RDX. change (64 =? 8) with false. cbv iota.
    set (lo := rf_read (regs s) RAX). set (hi := rf_read (regs s) RDX).
    assert (Hlo : 0 <= lo < 2 ^ 64) by (apply (rf_read_range64 s); reflexivity).
    assert (Hhi : 0 <= hi < 2 ^ 64) by (apply (rf_read_range64 s); reflexivity).
    rewrite (cast_u64_u128 lo Hlo), (cast_u64_u128 hi Hhi).
    assert (SH : shl_raw U128 hi 64 = hi * 2 ^ 64).
    { unfold shl_raw. apply enc_small. unfold modulus; cbn [width].
      change (2 ^ 128) with 340282366920938463463374607431768211456. change (2 ^ 64) with 18446744073709551616 in *. lia. }
    rewrite SH. rewrite (lor_add_shift lo hi 64) by lia.
    set (D := lo + hi * 2 ^ 64). replace (hi * 2 ^ 64 + lo) with D by (unfold D; ring).
    assert (HD : 0 <= D < 2 ^ 128).
    { unfold D. change (2 ^ 128) with 340282366920938463463374607431768211456. change (2 ^ 64) with 18446744073709551616 in *. lia. }
    assert (Q : div_chk U128 D d = Ok (D / d)).
    { unfold div_chk. destruct (Z.eqb_spec d 0); [contradiction|]. cbn [signed andb].
      unfold wdiv, Bits.sem; cbn [signed]. rewrite Z.quot_div_nonneg by lia. f_equal. apply enc_small.
      unfold modulus; cbn [width]. split; [apply Z.div_pos; lia|].
      apply Z.le_lt_trans with D; [|lia]. apply Z.div_le_upper_bound; nia. }
    assert (R : rem_chk U128 D d = Ok (D mod d)).
    { unfold rem_chk. destruct (Z.eqb_spec d 0); [contradiction|]. cbn [signed andb].
      unfold wrem, Bits.sem; cbn [signed]. rewrite Z.rem_mod_nonneg by lia. f_equal. apply enc_small.
      unfold modulus; cbn [width]. pose proof (Z.mod_pos_bound D d ltac:(lia)).
      change (2 ^ 128) with 340282366920938463463374607431768211456. change (2 ^ 64) with 18446744073709551616 in *. lia. }
    rewrite Q, R.
    rewrite (bind_ok _ _ _ _ _ (eq_refl : lift (Ok (D / d)) s = _)).
    rewrite (bind_ok _ _ _ _ _ (eq_refl : lift (Ok (D mod d)) s = _)).
    change (cast U64 U128 (2 ^ 64 - 1)) with (2 ^ 64 - 1).
    destruct (Z.ltb_spec (D / d) (2 ^ 64)) as [L|G]; cbn [negb].
    - destruct (Z.ltb_spec (2 ^ 64 - 1) (D / d)); [lia|].
      rewrite (bind_ok _ _ _ _ _ (reg_write_64_ok c RAX _ s eq_refl)).
      rewrite (bind_ok _ _ _ _ _ (reg_write_64_ok c RDX _ _ eq_refl)).
      reflexivity.
    - destruct (Z.ltb_spec (2 ^ 64 - 1) (D / d)); [reflexivity|lia].
  Qed.

End Div64.

(* ---- IDIV r/m64 ----
   The emulator zero-extends the 64-bit divisor into its 128-bit signed division
   (known finding KF-C01-idiv64-divisor: the one-line repair fails an unedited test that asserts
   the wrong value).  The refinement therefore holds exactly for divisors whose sign bit is clear,
   and is refuted by a witness for the others. *)
From AxG Require Import I_idiv.

Lemma sem_enc_i128 v : - 2 ^ 127 <= v < 2 ^ 127 -> Bits.sem I128 (enc I128 v) = v.
Proof.
  intros H. unfold Bits.sem, enc, modulus; cbn [signed width]. change (2 ^ (128 - 1)) with (2 ^ 127).
  change (2 ^ 127) with 170141183460469231731687303715884105728 in *.
  change (2 ^ 128) with 340282366920938463463374607431768211456.
  destruct (Z.ltb_spec (v mod 340282366920938463463374607431768211456) 170141183460469231731687303715884105728); lia.
Qed.

Lemma sem_i128_sgn x : Bits.sem I128 x = sgn 128 x.
Proof. reflexivity. Qed.

Lemma quot_bound a b : 1 <= b -> Z.abs (Z.quot a b) <= Z.abs a.
Proof.
  intros Hb. rewrite <- (Z.quot_abs a b) by lia. rewrite (Z.abs_eq b) by lia.
  rewrite Z.quot_div_nonneg by lia. apply Z.div_le_upper_bound; [lia|]. pose proof (Z.abs_nonneg a). nia.
Qed.

Section Idiv64.
  Variables (c : cfg) (i : instr) (s : mstate).
  Hypothesis Hwf : wf_regs s.
  Hypothesis HI : Inv (mem s).
  Hypothesis Hn : i_op_count i = 1.
  Hypothesis Hs : rm64_shape i 0.

  Theorem idiv_rm64_refines_nonneg_divisor :
    i_code i = C_Idiv_rm64 ->
    (forall d, read_op i 0 64 s = Some d -> d < 2 ^ 63) ->
    match isa_exec (SIdiv 64) i s with
    | IDone s' _ => instr_idiv_rm64 c i s = (Ok tt, s')
    | IFault FDivide => instr_idiv_rm64 c i s = (Err EDivZero, s)
    | IFault FMem => exists e, instr_idiv_rm64 c i s = (Err e, s)
    | IFault _ => False
    end.
  Proof.
    intros Ec Hpos. unfold instr_idiv_rm64. rewrite Ec.
    rewrite (bind_ok _ _ _ _ _ (dbg_code_ok c s _ eq_refl)).
    rewrite <- (bind_assoc (instruction_operand c i 0)). fold (read_rm64 c i 0).
    cbn [isa_exec]. unfold exec_div.
    pose proof (read_rm64_spec c i s 0 Hwf HI ltac:(lia) Hs) as RD.
    destruct (read_op i 0 64 s) as [d|]; [destruct RD as [RD Hd]|destruct RD as [e RD]];
      [|eexists; rewrite (bind_err _ _ _ _ _ RD); reflexivity].
    specialize (Hpos d eq_refl).
    rewrite (bind_ok _ _ _ _ _ RD). cbv beta zeta.
    rewrite (cast_u64_u128 d Hd).
    assert (Cd : cast U128 I128 d = d).
    { unfold cast, Bits.sem; cbn [signed]. apply enc_small. unfold modulus; cbn [width].
      change (2 ^ 128) with 340282366920938463463374607431768211456. change (2 ^ 64) with 18446744073709551616 in *. lia. }
    rewrite Cd.
    destruct (Z.eqb_spec d 0) as [Z|NZ]; [reflexivity|].
    rewrite (bind_ok _ _ _ _ _ (reg_read_64_ok c RAX s Hwf eq_refl)).
    rewrite (bind_ok _ _ _ _ _ (reg_read_64_ok c RDX s Hwf eq_refl)).
    change (acc 64) with RAX. change (hi_reg 64) with RDX. change (64 =? 8) with false. cbv iota.
    set (lo := rf_read (regs s) RAX). set (hi := rf_read (regs s) RDX).
    assert (Hlo : 0 <= lo < 2 ^ 64) by (apply (rf_read_range64 s); reflexivity).
    assert (Hhi : 0 <= hi < 2 ^ 64) by (apply (rf_read_range64 s); reflexivity).
    rewrite (cast_u64_u128 lo Hlo), (cast_u64_u128 hi Hhi).
    assert (SH : shl_raw U128 hi 64 = hi * 2 ^ 64).
    { unfold shl_raw. apply enc_small. unfold modulus; cbn [width].
      change (2 ^ 128) with 340282366920938463463374607431768211456. change (2 ^ 64) with 18446744073709551616 in *. lia. }
    rewrite SH. rewrite (lor_add_shift lo hi 64) by lia.
    set (D := lo + hi * 2 ^ 64). replace (hi * 2 ^ 64 + lo) with D by (unfold D; ring).
    assert (HD : 0 <= D < 2 ^ 128).
    { unfold D. change (2 ^ 128) with 340282366920938463463374607431768211456. change (2 ^ 64) with 18446744073709551616 in *. lia. }
    assert (CD : cast U128 I128 D = D) by (unfold cast, Bits.sem; cbn [signed]; apply enc_small; exact HD).
    rewrite CD.
    assert (Sd : sgn 64 d = d) by (unfold sgn; change (2 ^ (64 - 1)) with (2 ^ 63); destruct (Z.ltb_spec d (2 ^ 63)); lia).
    rewrite Sd. change (2 * 64) with 128.
    set (SD := sgn 128 D).
    assert (HSD : - 2 ^ 127 <= SD < 2 ^ 127).
    { unfold SD, sgn. change (2 ^ (128 - 1)) with (2 ^ 127). destruct (Z.ltb_spec D (2 ^ 127));
      change (2 ^ 127) with 170141183460469231731687303715884105728 in *;
      change (2 ^ 128) with 340282366920938463463374607431768211456 in *; lia. }
    assert (Sdd : Bits.sem I128 d = d).
    { unfold Bits.sem; cbn [signed width]. change (2 ^ (128 - 1)) with 170141183460469231731687303715884105728.
      change (2 ^ 63) with 9223372036854775808 in *.
      destruct (Z.ltb_spec d 170141183460469231731687303715884105728); lia. }
    assert (Hq : - 2 ^ 127 <= Z.quot SD d < 2 ^ 127).
    { pose proof (quot_bound SD d ltac:(lia)) as B.
      assert (Z.quot SD d <> 2 ^ 127 \/ True) by (right; exact I).
      change (2 ^ 127) with 170141183460469231731687303715884105728 in *.
      destruct (Z.eq_dec (Z.quot SD d) 170141183460469231731687303715884105728) as [E|NE]; [|lia].
      exfalso. assert (0 <= SD \/ SD < 0) as [P|N] by lia.
      - rewrite Z.quot_div_nonneg in E by lia. assert (SD / d <= SD) by (apply Z.div_le_upper_bound; nia). lia.
      - pose proof (Z.quot_opp_l SD d ltac:(lia)). assert (0 <= Z.quot (- SD) d) by (apply Z.quot_pos; lia). lia. }
    assert (Hr : - 2 ^ 127 <= Z.rem SD d < 2 ^ 127).
    { pose proof (Z.rem_bound_abs SD d ltac:(lia)) as B. change (2 ^ 127) with 170141183460469231731687303715884105728 in *.
      change (2 ^ 63) with 9223372036854775808 in *. lia. }
    assert (Q : div_chk I128 D d = Ok (enc I128 (Z.quot SD d))).
    { unfold div_chk. destruct (Z.eqb_spec d 0); [contradiction|]. rewrite Sdd.
      destruct (Z.eqb_spec d (-1)); [lia|]. rewrite andb_false_r. unfold wdiv. rewrite Sdd. reflexivity. }
    assert (R : rem_chk I128 D d = Ok (enc I128 (Z.rem SD d))).
    { unfold rem_chk. destruct (Z.eqb_spec d 0); [contradiction|]. rewrite Sdd.
      destruct (Z.eqb_spec d (-1)); [lia|]. rewrite andb_false_r. unfold wrem. rewrite Sdd. reflexivity. }
    rewrite Q, R.
    rewrite (bind_ok _ _ _ _ _ (eq_refl : lift (Ok (enc I128 (Z.quot SD d))) s = _)).
    rewrite (bind_ok _ _ _ _ _ (eq_refl : lift (Ok (enc I128 (Z.rem SD d))) s = _)).
    cbv beta iota. unfold lt. rewrite !sem_enc_i128 by assumption.
    assert (K1 : Bits.sem I128 (cast I64 I128 (2 ^ 63)) = - 2 ^ 63) by (vm_compute; reflexivity).
    assert (K2 : Bits.sem I128 (cast I64 I128 (2 ^ 63 - 1)) = 2 ^ 63 - 1) by (vm_compute; reflexivity).
    rewrite K1, K2.
    assert (W : forall v, - 2 ^ 127 <= v < 2 ^ 127 -> cast I128 U64 (enc I128 v) = v mod 2 ^ 64).
    { intros v Hv. unfold cast. rewrite sem_enc_i128 by exact Hv. reflexivity. }
    rewrite !W by assumption.
    unfold fits_signed. change (2 ^ (64 - 1)) with (2 ^ 63).
    destruct (Z.ltb_spec (Z.quot SD d) (- 2 ^ 63)) as [L1|G1]; destruct (Z.ltb_spec (2 ^ 63 - 1) (Z.quot SD d)) as [L2|G2];
      destruct (Z.leb_spec (- 2 ^ 63) (Z.quot SD d)); destruct (Z.ltb_spec (Z.quot SD d) (2 ^ 63)); try lia;
      cbn [orb andb negb]; reflexivity.
  Qed.
End Idiv64.
