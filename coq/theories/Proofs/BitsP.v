(* Lemmas about machine words as Z: ranges, truncation, bit fields, masks. *)
From Coq Require Import ZArith Bool List Lia.
From AxV Require Import Bits.
Local Open Scope Z_scope.

Ltac Zify.zify_post_hook ::= Z.div_mod_to_equations.

Lemma pow2_pos n : 0 <= n -> 0 < 2 ^ n.
Proof. intros; apply Z.pow_pos_nonneg; lia. Qed.

Lemma enc_range t v : 0 <= enc t v < modulus t.
Proof. unfold enc, modulus. apply Z.mod_pos_bound. destruct t; reflexivity. Qed.

Lemma enc_small t v : 0 <= v < modulus t -> enc t v = v.
Proof. intros; unfold enc; apply Z.mod_small; assumption. Qed.

(* ---- testbit toolkit ---- *)
Lemma testbit_ones_lt n k : 0 <= k < n -> Z.testbit (Z.ones n) k = true.
Proof. intros; apply Z.ones_spec_low; lia. Qed.
Lemma testbit_ones_ge n k : 0 <= n <= k -> Z.testbit (Z.ones n) k = false.
Proof. intros; apply Z.ones_spec_high; lia. Qed.

Lemma testbit_ones n k : 0 <= n -> 0 <= k -> Z.testbit (Z.ones n) k = (k <? n).
Proof.
  intros Hn Hk. destruct (Z.ltb_spec k n).
  - apply testbit_ones_lt; lia.
  - apply testbit_ones_ge; lia.
Qed.

Lemma testbit_high x n k : 0 <= x < 2 ^ n -> 0 <= n <= k -> Z.testbit x k = false.
Proof.
  intros Hx Hk. destruct (Z.eq_dec x 0) as [->|Hne]; [apply Z.bits_0|].
  apply Z.bits_above_log2; [lia|].
  apply Z.log2_lt_pow2; [lia|].
  apply Z.lt_le_trans with (2 ^ n); [lia|]. apply Z.pow_le_mono_r; lia.
Qed.

(* field mask: w ones starting at bit lo *)
Definition fmask (lo w : Z) : Z := Z.shiftl (Z.ones w) lo.

Lemma testbit_fmask lo w k : 0 <= lo -> 0 <= w -> 0 <= k ->
  Z.testbit (fmask lo w) k = (lo <=? k) && (k <? lo + w).
Proof.
  intros Hlo Hw Hk. unfold fmask. rewrite Z.shiftl_spec by lia.
  destruct (Z.leb_spec lo k); simpl.
  - rewrite testbit_ones by lia. destruct (Z.ltb_spec (k - lo) w), (Z.ltb_spec k (lo + w)); try reflexivity; lia.
  - apply Z.testbit_neg_r; lia.
Qed.

(* extracting a field arithmetically *)
Lemma field_extract x lo w : 0 <= lo -> 0 <= w ->
  Z.land (Z.shiftr x lo) (Z.ones w) = (x / 2 ^ lo) mod 2 ^ w.
Proof. intros. rewrite Z.land_ones by lia. rewrite Z.shiftr_div_pow2 by lia. reflexivity. Qed.

(* the same value described arithmetically: x with the field [lo, lo+w) replaced by v *)
Definition set_field (x v lo w : Z) : Z :=
  x - ((x / 2 ^ lo) mod 2 ^ w) * 2 ^ lo + v * 2 ^ lo.

Lemma land_fmask x lo w : 0 <= lo -> 0 <= w ->
  Z.land x (fmask lo w) = ((x / 2 ^ lo) mod 2 ^ w) * 2 ^ lo.
Proof.
  intros Hlo Hw.
  rewrite <- field_extract by lia. rewrite <- Z.shiftl_mul_pow2 by lia.
  apply Z.bits_inj'; intros k Hk.
  rewrite Z.land_spec, testbit_fmask by lia.
  rewrite Z.shiftl_spec by lia.
  destruct (Z.leb_spec lo k); simpl.
  - rewrite Z.land_spec, Z.shiftr_spec by lia.
    replace (k - lo + lo) with k by ring.
    rewrite testbit_ones by lia.
    destruct (Z.ltb_spec k (lo + w)), (Z.ltb_spec (k - lo) w); try reflexivity; lia.
  - rewrite Z.testbit_neg_r with (n := k - lo) by lia. apply andb_false_r.
Qed.

Lemma ldiff_sub x m : Z.ldiff x m = x - Z.land x m.
Proof.
  symmetry. rewrite Z.sub_nocarry_ldiff.
  - apply Z.bits_inj'; intros k Hk.
    rewrite !Z.ldiff_spec, Z.land_spec.
    destruct (Z.testbit x k), (Z.testbit m k); reflexivity.
  - apply Z.bits_inj'; intros k Hk.
    rewrite Z.ldiff_spec, Z.land_spec, Z.bits_0.
    destruct (Z.testbit x k), (Z.testbit m k); reflexivity.
Qed.

Lemma land_ldiff_ones x m n : 0 <= n -> 0 <= x < 2 ^ n ->
  Z.land x (Z.ldiff (Z.ones n) m) = Z.ldiff x m.
Proof.
  intros Hn Hx. apply Z.bits_inj'; intros k Hk.
  rewrite Z.land_spec, !Z.ldiff_spec.
  destruct (Z.ltb_spec k n).
  - rewrite testbit_ones_lt by lia. reflexivity.
  - rewrite (testbit_high x n k) by lia. reflexivity.
Qed.

Lemma lor_disjoint_add a b : Z.land a b = 0 -> Z.lor a b = a + b.
Proof.
  intros H. rewrite Z.add_nocarry_lxor by exact H. symmetry. apply Z.lxor_lor. exact H.
Qed.

Lemma field_insert x v lo w n :
  0 <= lo -> 0 <= w -> lo + w <= n -> 0 <= x < 2 ^ n -> 0 <= v < 2 ^ w ->
  Z.lor (Z.land x (Z.ldiff (Z.ones n) (fmask lo w))) (Z.shiftl v lo) = set_field x v lo w.
Proof.
  intros Hlo Hw Hn Hx Hv.
  rewrite land_ldiff_ones by lia.
  rewrite lor_disjoint_add.
  - rewrite ldiff_sub, land_fmask by lia. rewrite Z.shiftl_mul_pow2 by lia. reflexivity.
  - apply Z.bits_inj'; intros k Hk.
    rewrite Z.land_spec, Z.ldiff_spec, testbit_fmask, Z.bits_0 by lia.
    rewrite Z.shiftl_spec by lia.
    destruct (Z.leb_spec lo k); simpl.
    + destruct (Z.ltb_spec k (lo + w)); simpl.
      * rewrite andb_false_r. reflexivity.
      * rewrite (testbit_high v w (k - lo)) by lia. apply andb_false_r.
    + rewrite (Z.testbit_neg_r v (k - lo)) by lia. apply andb_false_r.
Qed.

Lemma set_field_range_aux P W H' x mid low hi v :
  0 < P -> 0 < W -> 0 <= low < P -> 0 <= mid < W -> 0 <= hi < H' -> 0 <= v < W ->
  x = hi * (W * P) + mid * P + low ->
  0 <= x - mid * P + v * P < H' * (W * P).
Proof.
  intros HP HW Hlow Hmid Hhi Hv ->.
  assert (0 < W * P) by nia.
  assert (hi * (W * P) <= (H' - 1) * (W * P)) by (apply Z.mul_le_mono_nonneg_r; lia).
  assert (v * P <= (W - 1) * P) by (apply Z.mul_le_mono_nonneg_r; lia).
  assert (0 <= hi * (W * P)) by (apply Z.mul_nonneg_nonneg; lia).
  assert (0 <= v * P) by (apply Z.mul_nonneg_nonneg; lia).
  replace (hi * (W * P) + mid * P + low - mid * P + v * P) with (hi * (W * P) + v * P + low) by ring.
  replace ((H' - 1) * (W * P)) with (H' * (W * P) - W * P) in * by ring.
  replace ((W - 1) * P) with (W * P - P) in * by ring.
  lia.
Qed.

Lemma set_field_range x v lo w n :
  0 <= lo -> 0 <= w -> lo + w <= n -> 0 <= x < 2 ^ n -> 0 <= v < 2 ^ w ->
  0 <= set_field x v lo w < 2 ^ n.
Proof.
  intros Hlo Hw Hn Hx Hv. unfold set_field.
  assert (HP : 0 < 2 ^ lo) by (apply pow2_pos; lia).
  assert (HW : 0 < 2 ^ w) by (apply pow2_pos; lia).
  assert (E : 2 ^ n = 2 ^ (n - (lo + w)) * (2 ^ w * 2 ^ lo)).
  { rewrite <- !Z.pow_add_r by lia. f_equal. ring. }
  rewrite E.
  assert (A1 : 0 <= x mod 2 ^ lo < 2 ^ lo) by (apply Z.mod_pos_bound; lia).
  assert (A2 : 0 <= (x / 2 ^ lo) mod 2 ^ w < 2 ^ w) by (apply Z.mod_pos_bound; lia).
  assert (A3 : 0 <= x / 2 ^ (lo + w) < 2 ^ (n - (lo + w))).
  { split.
    + apply Z.div_pos; [lia|apply pow2_pos; lia].
    + apply Z.div_lt_upper_bound; [apply pow2_pos; lia|]. rewrite <- Z.pow_add_r by lia.
      replace (lo + w + (n - (lo + w))) with n by ring. lia. }
  assert (A4 : x = x / 2 ^ (lo + w) * (2 ^ w * 2 ^ lo) + (x / 2 ^ lo) mod 2 ^ w * 2 ^ lo + x mod 2 ^ lo).
  { rewrite Z.pow_add_r by lia. rewrite <- Z.div_div by lia.
    pose proof (Z.div_mod x (2 ^ lo)). pose proof (Z.div_mod (x / 2 ^ lo) (2 ^ w)). nia. }
  exact (set_field_range_aux _ _ _ _ _ _ _ _ HP HW A1 A2 A3 Hv A4).
Qed.

(* x & !0xf on u64: clear the low four bits *)
Lemma align16 x : 0 <= x < 2 ^ 64 -> Z.land x (wnot U64 15) = x - x mod 16.
Proof.
  intros Hx. change (wnot U64 15) with (Z.ldiff (Z.ones 64) (Z.ones 4)).
  rewrite land_ldiff_ones by lia. rewrite ldiff_sub. rewrite Z.land_ones by lia. reflexivity.
Qed.
