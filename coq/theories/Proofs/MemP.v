(* C08 / C09: the memory accessors of Model/Mem.v against the byte-store view. *)
From Coq Require Import ZArith Bool List Lia.
From AxV Require Import Bits Outcome Codes Iced State Rt Mem BitsP ListP ByteStore.
Local Open Scope Z_scope.
Import ListNotations.

(* ---- find ---- *)
Lemma find_area_some l a ar : find_area l a = Some ar -> In ar l /\ area_contains ar a = true.
Proof.
  induction l as [|x l IH]; cbn; [discriminate|].
  destruct (area_contains x a) eqn:E; intros H.
  - inversion H; subst. auto.
  - destruct (IH H). auto.
Qed.

Lemma find_area_none l a : find_area l a = None -> forall ar, In ar l -> area_contains ar a = false.
Proof.
  induction l as [|x l IH]; cbn; intros H ar Hin; [contradiction|].
  destruct (area_contains x a) eqn:E; [discriminate|].
  destruct Hin as [<-|Hin]; auto.
Qed.

Lemma find_idx_some l a k :
  find_area_idx l a = Some k -> exists ar, nth_error l k = Some ar /\ find_area l a = Some ar.
Proof.
  revert k. induction l as [|x l IH]; cbn; intros k H; [discriminate|].
  destruct (area_contains x a) eqn:E.
  - inversion H; subst. exists x. auto.
  - destruct (find_area_idx l a) as [j|] eqn:F; [|discriminate]. inversion H; subst.
    destruct (IH j eq_refl) as (ar & N & G). exists ar. auto.
Qed.

Lemma find_idx_none l a : find_area_idx l a = None -> find_area l a = None.
Proof.
  induction l as [|x l IH]; cbn; intros H; [reflexivity|].
  destruct (area_contains x a); [discriminate|].
  destruct (find_area_idx l a); [discriminate|]. auto.
Qed.

Lemma contains_range ar a : area_contains ar a = true <-> a_start ar <= a < a_start ar + a_len ar.
Proof. unfold area_contains. rewrite andb_true_iff, Z.leb_le, Z.ltb_lt. tauto. Qed.

Lemma pairwise_in {A} (R : A -> A -> Prop) l x y :
  pairwise R l -> In x l -> In y l -> x = y \/ R x y \/ R y x.
Proof.
  induction l as [|z l IH]; cbn; intros H Hx Hy; [contradiction|].
  destruct H as [Hz Hl]. rewrite Forall_forall in Hz.
  destruct Hx as [<-|Hx], Hy as [<-|Hy]; auto.
Qed.

(* under the invariant an address has at most one owner *)
Lemma owner_unique m a ar :
  Inv m -> In ar m -> area_contains ar a = true -> owner m a = Some ar.
Proof.
  intros [_ Hp] Hin Hc. unfold owner.
  destruct (find_area m a) as [b|] eqn:F.
  - destruct (find_area_some _ _ _ F) as [Hb Hcb].
    apply contains_range in Hc. apply contains_range in Hcb.
    destruct (pairwise_in _ _ _ _ Hp Hb Hin) as [->|[D|D]]; [reflexivity| |]; unfold disjoint in D; lia.
  - rewrite (find_area_none _ _ F ar Hin) in Hc. discriminate.
Qed.

Lemma inv_area_ok m ar : Inv m -> In ar m -> area_ok ar.
Proof. intros [H _] Hin. rewrite Forall_forall in H. auto. Qed.

(* ---- reads ---- *)
Theorem read_state_unchanged a n s r s' : mem_read_bytes a n s = (r, s') -> s' = s.
Proof.
  unfold mem_read_bytes. destruct (find_area (mem s) a) as [ar|]; [|inversion 1; reflexivity].
  repeat match goal with |- context [if ?c then _ else _] => destruct c end; inversion 1; reflexivity.
Qed.

Theorem read_ok_iff a n s :
  Inv (mem s) -> 0 <= n ->
  (exists l, mem_read_bytes a n s = (Ok l, s)) <-> accessible (mem s) a n PROT_READ.
Proof.
  intros HI Hn. unfold mem_read_bytes, accessible, owner.
  destruct (find_area (mem s) a) as [ar|] eqn:F.
  - destruct (find_area_some _ _ _ F) as [Hin Hc]. apply contains_range in Hc.
    destruct (inv_area_ok _ _ HI Hin) as (H0 & H1 & H2 & H3 & H4).
    destruct (Z.gtb_spec (a + n) (a_start ar + a_len ar)) as [Hgt|Hle].
    + split; [intros [l E]; discriminate|]. intros (ar' & E & Hle & _). inversion E; subst. lia.
    + destruct (Z.eqb_spec (Z.land (a_access ar) PROT_READ) 0) as [Hz|Hnz].
      * split; [intros [l E]; discriminate|]. intros (ar' & E & _ & Hp). inversion E; subst. contradiction.
      * destruct (Z.leb_spec (a - a_start ar + n) (zlen (a_data ar))) as [Hfit|Hno]; [|lia].
        split; [|intros _; eexists; reflexivity]. intros _. exists ar. auto.
  - split; [intros [l E]; discriminate|]. intros (ar' & E & _). discriminate.
Qed.

Theorem read_never_panics a n s :
  Inv (mem s) -> 0 <= n ->
  (exists l, mem_read_bytes a n s = (Ok l, s)) \/ (exists e, mem_read_bytes a n s = (Err e, s)).
Proof.
  intros HI Hn. unfold mem_read_bytes.
  destruct (find_area (mem s) a) as [ar|] eqn:F; [|right; eexists; reflexivity].
  destruct (find_area_some _ _ _ F) as [Hin Hc]. apply contains_range in Hc.
  destruct (inv_area_ok _ _ HI Hin) as (H0 & H1 & H2 & H3 & H4).
  destruct (Z.gtb_spec (a + n) (a_start ar + a_len ar)); [right; eexists; reflexivity|].
  destruct (Z.eqb_spec (Z.land (a_access ar) PROT_READ) 0); [right; eexists; reflexivity|].
  destruct (Z.leb_spec (a - a_start ar + n) (zlen (a_data ar))); [left; eexists; reflexivity|lia].
Qed.

Theorem read_value a n s l :
  Inv (mem s) -> 0 <= n -> mem_read_bytes a n s = (Ok l, s) ->
  zlen l = n /\ forall i, 0 <= i < n -> nth_error l (Z.to_nat i) = byte_at (mem s) (a + i).
Proof.
  intros HI Hn. unfold mem_read_bytes.
  destruct (find_area (mem s) a) as [ar|] eqn:F; [|discriminate].
  destruct (find_area_some _ _ _ F) as [Hin Hc]. apply contains_range in Hc.
  destruct (inv_area_ok _ _ HI Hin) as (H0 & H1 & H2 & H3 & H4).
  destruct (Z.gtb_spec (a + n) (a_start ar + a_len ar)); [discriminate|].
  destruct (Z.eqb_spec (Z.land (a_access ar) PROT_READ) 0); [discriminate|].
  destruct (Z.leb_spec (a - a_start ar + n) (zlen (a_data ar))); [|discriminate].
  intros E. inversion E; subst l. clear E. split.
  - unfold zlen at 1. rewrite slice_length by lia. lia.
  - intros i Hi. rewrite slice_nth by lia.
    unfold byte_at. rewrite (owner_unique (mem s) (a + i) ar HI Hin) by (apply contains_range; lia).
    f_equal. lia.
Qed.

(* ---- writes ---- *)
Definition write_result (s s' : mstate) (a : Z) (d : list Z) : Prop :=
  s' = set_mem s (mem s') /\
  layout (mem s') = layout (mem s) /\
  Inv (mem s') /\
  forall x, byte_at (mem s') x =
            if (a <=? x) && (x <? a + zlen d) then nth_error d (Z.to_nat (x - a)) else byte_at (mem s) x.

Lemma layout_replace m k ar ar' :
  nth_error m k = Some ar -> shape ar' = shape ar -> layout (replace_nth m k ar') = layout m.
Proof.
  revert k. induction m as [|x m IH]; intros k H E; [destruct k; discriminate|].
  destruct k; cbn in *.
  - inversion H; subst. rewrite E. reflexivity.
  - f_equal. eapply IH; eauto.
Qed.

Lemma find_area_layout m m' a :
  layout m = layout m' ->
  match find_area m a, find_area m' a with
  | Some x, Some y => shape x = shape y
  | None, None => True
  | _, _ => False
  end.
Proof.
  revert m'. induction m as [|x m IH]; intros [|y m'] H; cbn in *; try discriminate; [exact I|].
  inversion H as [[E1 E2 E3 E4]].
  unfold area_contains. rewrite E1, E2.
  destruct ((a_start y <=? a) && (a <? a_start y + a_len y)).
  - unfold shape. congruence.
  - apply IH. assumption.
Qed.

Lemma forall_disjoint_layout x y m m' :
  shape x = shape y -> layout m = layout m' -> Forall (disjoint x) m -> Forall (disjoint y) m'.
Proof.
  intros Exy. revert m'. induction m as [|z m IH]; intros [|w m'] E H; cbn in *; try discriminate; [constructor|].
  inversion E as [[F1 F2 F3 F4]]. inversion H; subst. constructor; [|apply IH; assumption].
  unfold shape in Exy. inversion Exy. unfold disjoint in *. lia.
Qed.

Lemma pairwise_layout m m' : layout m = layout m' -> pairwise disjoint m -> pairwise disjoint m'.
Proof.
  revert m'. induction m as [|x m IH]; intros [|y m'] H Hp; cbn in *; try discriminate; [exact I|].
  inversion H as [[E1 E2 E3 E4]]. destruct Hp as [Hx Hm]. split; [|eapply IH; eauto].
  eapply forall_disjoint_layout; [|exact E4|exact Hx]. unfold shape. congruence.
Qed.

Lemma In_firstn {A} (x : A) n l : In x (firstn n l) -> In x l.
Proof.
  revert l. induction n as [|n IH]; intros l H; [contradiction|].
  destruct l as [|y l]; [contradiction|]. cbn in H. destruct H as [<-|H]; [left; reflexivity|right; auto].
Qed.

Lemma In_skipn {A} (x : A) n l : In x (skipn n l) -> In x l.
Proof.
  revert l. induction n as [|n IH]; intros l H; [exact H|].
  destruct l as [|y l]; [contradiction|]. right. apply IH. exact H.
Qed.

Lemma find_idx_layout m m' a : layout m = layout m' -> find_area_idx m a = find_area_idx m' a.
Proof.
  revert m'. induction m as [|x m IH]; intros [|y m'] H; cbn in *; try discriminate; [reflexivity|].
  inversion H as [[E1 E2 E3 E4]]. unfold area_contains. rewrite E1, E2.
  destruct ((a_start y <=? a) && (a <? a_start y + a_len y)); [reflexivity|].
  rewrite (IH m' E4). reflexivity.
Qed.

Lemma find_area_nth l a :
  find_area l a = match find_area_idx l a with Some j => nth_error l j | None => None end.
Proof.
  induction l as [|x l IH]; cbn; [reflexivity|].
  destruct (area_contains x a); [reflexivity|]. rewrite IH.
  destruct (find_area_idx l a); reflexivity.
Qed.

Lemma byte_at_other s k ar ar' a d x :
  Inv (mem s) -> nth_error (mem s) k = Some ar ->
  ar' = set_area_data ar (splice (a_data ar) (a - a_start ar) d) ->
  a_start ar <= a -> a - a_start ar + zlen d <= zlen (a_data ar) ->
  (x < a \/ a + zlen d <= x) ->
  byte_at (replace_nth (mem s) k ar') x = byte_at (mem s) x.
Proof.
  intros HI Hk -> Ha Hfit Hx.
  assert (Hklt : (k < length (mem s))%nat) by (apply nth_error_Some; congruence).
  assert (Hlay : layout (replace_nth (mem s) k (set_area_data ar (splice (a_data ar) (a - a_start ar) d))) = layout (mem s))
    by (eapply layout_replace; eauto).
  unfold byte_at, owner. rewrite !find_area_nth. rewrite (find_idx_layout _ _ x Hlay).
  destruct (find_area_idx (mem s) x) as [j|] eqn:Fj; [|reflexivity].
  rewrite replace_nth_nth by exact Hklt.
  destruct (Nat.eqb_spec j k) as [->|Hne]; [|reflexivity].
  rewrite Hk. cbn [a_data a_start set_area_data].
  destruct (find_idx_some _ _ _ Fj) as (b & Hb & Fb). rewrite Hk in Hb. inversion Hb; subst b.
  destruct (find_area_some _ _ _ Fb) as [_ Hc]. apply contains_range in Hc.
  rewrite splice_nth by lia.
  destruct (Nat.leb_spec (Z.to_nat (a - a_start ar)) (Z.to_nat (x - a_start ar))) as [H1|H1]; cbn [andb]; [|reflexivity].
  destruct (Nat.ltb_spec (Z.to_nat (x - a_start ar)) (Z.to_nat (a - a_start ar) + length d)) as [H2|H2]; [|reflexivity].
  unfold zlen in *. lia.
Qed.

Theorem write_ok_spec a d s s' :
  Inv (mem s) -> Forall (fun b => 0 <= b < 256) d ->
  mem_write_bytes a d s = (Ok tt, s') -> write_result s s' a d.
Proof.
  intros HI Hd. unfold mem_write_bytes.
  destruct (find_area_idx (mem s) a) as [k|] eqn:Fk; [|discriminate].
  destruct (find_idx_some _ _ _ Fk) as (ar & Hk & F). rewrite Hk.
  destruct (find_area_some _ _ _ F) as [Hin Hc]. apply contains_range in Hc.
  destruct (inv_area_ok _ _ HI Hin) as (H0 & H1 & H2 & H3 & H4).
  destruct (Z.gtb_spec (a + zlen d) (a_start ar + a_len ar)); [discriminate|].
  destruct (Z.eqb_spec (Z.land (a_access ar) PROT_WRITE) 0); [discriminate|].
  destruct (Z.leb_spec (a - a_start ar + zlen d) (zlen (a_data ar))) as [Hfit|]; [|discriminate].
  intros E. inversion E; subst s'. clear E.
  set (ar' := set_area_data ar (splice (a_data ar) (a - a_start ar) d)).
  assert (Hshape : shape ar' = shape ar) by reflexivity.
  assert (Hlay : layout (replace_nth (mem s) k ar') = layout (mem s)) by (eapply layout_replace; eauto).
  assert (Hklt : (k < length (mem s))%nat) by (apply nth_error_Some; congruence).
  assert (Hlen' : zlen (a_data ar') = a_len ar).
  { unfold ar'; cbn. unfold zlen. rewrite splice_length by lia. exact H3. }
  assert (Hok' : area_ok ar').
  { unfold area_ok. split; [exact H0|]. split; [exact H1|]. split; [exact H2|]. split; [exact Hlen'|].
    unfold ar'; cbn. unfold splice. rewrite !Forall_app. split; [|split; [exact Hd|]].
      + apply Forall_forall. intros x Hx. rewrite Forall_forall in H4. apply H4. eapply In_firstn; eauto.
      + apply Forall_forall. intros x Hx. rewrite Forall_forall in H4. apply H4.
        eapply In_skipn; eauto. }
  assert (HI' : Inv (replace_nth (mem s) k ar')).
  { destruct HI as [Ha Hp]. split.
    - apply Forall_replace_nth; assumption.
    - eapply pairwise_layout; [symmetry; exact Hlay|exact Hp]. }
  unfold write_result. cbn [mem set_mem].
  split; [destruct s; reflexivity|]. split; [exact Hlay|]. split; [exact HI'|].
  intros x.
  assert (Hin' : In ar' (replace_nth (mem s) k ar')).
  { eapply nth_error_In with (n := k). rewrite replace_nth_nth by exact Hklt. rewrite Nat.eqb_refl. reflexivity. }
  destruct (Z.leb_spec a x) as [Hax|Hax]; cbn [andb].
  - destruct (Z.ltb_spec x (a + zlen d)) as [Hxd|Hxd].
    + (* inside the written range *)
      unfold byte_at. rewrite (owner_unique _ x ar' HI' Hin') by (apply contains_range; cbn; lia).
      cbn [a_data a_start ar' set_area_data]. rewrite splice_nth by lia.
      unfold zlen in *.
      replace ((Z.to_nat (a - a_start ar) <=? Z.to_nat (x - a_start ar))%nat) with true by (symmetry; apply Nat.leb_le; lia).
      replace ((Z.to_nat (x - a_start ar) <? Z.to_nat (a - a_start ar) + length d)%nat) with true by (symmetry; apply Nat.ltb_lt; lia).
      cbn [andb]. f_equal. lia.
    + apply (byte_at_other s k ar ar' a d x HI Hk eq_refl); [lia|lia|right; lia].
  - apply (byte_at_other s k ar ar' a d x HI Hk eq_refl); [lia|lia|left; lia].
Qed.

Theorem write_err_unchanged a d s e s' : mem_write_bytes a d s = (Err e, s') -> s' = s.
Proof.
  unfold mem_write_bytes.
  destruct (find_area_idx (mem s) a) as [k|]; [|inversion 1; reflexivity].
  destruct (nth_error (mem s) k) as [ar|]; [|inversion 1].
  repeat match goal with |- context [if ?c then _ else _] => destruct c end; inversion 1; reflexivity.
Qed.

Theorem write_ok_iff a d s :
  Inv (mem s) ->
  (exists s', mem_write_bytes a d s = (Ok tt, s')) <-> accessible (mem s) a (zlen d) PROT_WRITE.
Proof.
  intros HI. unfold mem_write_bytes, accessible, owner.
  destruct (find_area_idx (mem s) a) as [k|] eqn:Fk.
  - destruct (find_idx_some _ _ _ Fk) as (ar & Hk & F). rewrite Hk, F.
    destruct (find_area_some _ _ _ F) as [Hin Hc]. apply contains_range in Hc.
    destruct (inv_area_ok _ _ HI Hin) as (H0 & H1 & H2 & H3 & H4).
    destruct (Z.gtb_spec (a + zlen d) (a_start ar + a_len ar)) as [Hgt|Hle].
    + split; [intros [l E]; discriminate|]. intros (ar' & E & Hle & _). inversion E; subst. lia.
    + destruct (Z.eqb_spec (Z.land (a_access ar) PROT_WRITE) 0) as [Hz|Hnz].
      * split; [intros [l E]; discriminate|]. intros (ar' & E & _ & Hp). inversion E; subst. contradiction.
      * destruct (Z.leb_spec (a - a_start ar + zlen d) (zlen (a_data ar))) as [Hfit|Hno]; [|lia].
        split; [|intros _; eexists; reflexivity]. intros _. exists ar. auto.
  - rewrite (find_idx_none _ _ Fk).
    split; [intros [l E]; discriminate|]. intros (ar' & E & _). discriminate.
Qed.

Theorem write_never_panics a d s :
  Inv (mem s) ->
  (exists s', mem_write_bytes a d s = (Ok tt, s')) \/ (exists e, mem_write_bytes a d s = (Err e, s)).
Proof.
  intros HI. unfold mem_write_bytes.
  destruct (find_area_idx (mem s) a) as [k|] eqn:Fk; [|right; eexists; reflexivity].
  destruct (find_idx_some _ _ _ Fk) as (ar & Hk & F). rewrite Hk.
  destruct (find_area_some _ _ _ F) as [Hin Hc]. apply contains_range in Hc.
  destruct (inv_area_ok _ _ HI Hin) as (H0 & H1 & H2 & H3 & H4).
  destruct (Z.gtb_spec (a + zlen d) (a_start ar + a_len ar)); [right; eexists; reflexivity|].
  destruct (Z.eqb_spec (Z.land (a_access ar) PROT_WRITE) 0); [right; eexists; reflexivity|].
  destruct (Z.leb_spec (a - a_start ar + zlen d) (zlen (a_data ar))); [left; eexists; reflexivity|lia].
Qed.

(* an accessible range never wraps around: strict bounds *)
Theorem accessible_no_wrap m a n p : Inv m -> 0 <= n -> accessible m a n p -> 0 <= a /\ a + n < 2 ^ 64.
Proof.
  intros HI Hn (ar & F & Hle & _). destruct (find_area_some _ _ _ F) as [Hin Hc].
  apply contains_range in Hc. destruct (inv_area_ok _ _ HI Hin) as (H0 & H1 & H2 & _). lia.
Qed.

(* read-after-write *)
Theorem read_after_write a d s s' :
  Inv (mem s) -> Forall (fun b => 0 <= b < 256) d ->
  mem_write_bytes a d s = (Ok tt, s') ->
  forall l, mem_read_bytes a (zlen d) s' = (Ok l, s') -> l = d.
Proof.
  intros HI Hd Hw l Hr.
  destruct (write_ok_spec a d s s' HI Hd Hw) as (_ & _ & HI' & Hb).
  destruct (read_value a (zlen d) s' l HI' (zlen_nonneg d) Hr) as [Hlen Hv].
  apply nth_error_ext_len.
  - unfold zlen in Hlen. lia.
  - intros i Hi. specialize (Hv (Z.of_nat i)). rewrite Nat2Z.id in Hv.
    rewrite Hv by (unfold zlen in *; lia). rewrite Hb.
    replace ((a <=? a + Z.of_nat i) && (a + Z.of_nat i <? a + zlen d)) with true.
    + f_equal. lia.
    + symmetry. apply andb_true_iff. split; [apply Z.leb_le|apply Z.ltb_lt]; unfold zlen in *; lia.
Qed.

(* ---- typed accessors are little-endian compositions of byte accesses ---- *)
Lemma le_bytes_length n x : length (le_bytes n x) = n.
Proof. revert x. induction n; intros; cbn; [reflexivity|]. f_equal. apply IHn. Qed.

Lemma le_bytes_range n x : Forall (fun b => 0 <= b < 256) (le_bytes n x).
Proof.
  revert x. induction n; intros; cbn; constructor; [apply Z.mod_pos_bound; lia|apply IHn].
Qed.

Lemma of_le_bytes_le_bytes n x : 0 <= x -> of_le_bytes (le_bytes n x) = x mod 2 ^ (8 * Z.of_nat n).
Proof.
  revert x. induction n as [|n IH]; intros x Hx.
  - cbn. rewrite Z.mod_1_r. reflexivity.
  - cbn [le_bytes of_le_bytes]. rewrite IH by (apply Z.div_pos; lia).
    replace (8 * Z.of_nat (S n)) with (8 + 8 * Z.of_nat n) by lia.
    rewrite Z.pow_add_r by lia. change (2 ^ 8) with 256.
    rewrite Z.rem_mul_r by (try apply Z.pow_pos_nonneg; lia). lia.
Qed.

Theorem typed_read_is_le n a s l :
  mem_read_bytes a (Z.of_nat n) s = (Ok l, s) -> mem_read_n n a s = (Ok (of_le_bytes l), s).
Proof. intros H. unfold mem_read_n. rewrite H. reflexivity. Qed.

Theorem typed_write_64_is_le a v s : mem_write_64 a v s = mem_write_bytes a (le_bytes 8 v) s.
Proof. reflexivity. Qed.
Theorem typed_write_32_is_le a v s : 0 <= v < 2 ^ 32 -> mem_write_32 a v s = mem_write_bytes a (le_bytes 4 v) s.
Proof. intros H. unfold mem_write_32. rewrite (proj2 (Z.leb_le v 4294967295)) by lia. reflexivity. Qed.
Theorem typed_write_16_is_le a v s : 0 <= v < 2 ^ 16 -> mem_write_16 a v s = mem_write_bytes a (le_bytes 2 v) s.
Proof. intros H. unfold mem_write_16. rewrite (proj2 (Z.leb_le v 65535)) by lia. reflexivity. Qed.
Theorem typed_write_8_is_le a v s : 0 <= v < 2 ^ 8 -> mem_write_8 a v s = mem_write_bytes a (le_bytes 1 v) s.
Proof. intros H. unfold mem_write_8. rewrite (proj2 (Z.leb_le v 255)) by lia. reflexivity. Qed.

(* ---- histories: any sequence of writes keeps the layout and the invariant ---- *)
Fixpoint run_writes (ws : list (Z * list Z)) (s : mstate) : mstate :=
  match ws with
  | nil => s
  | (a, d) :: r => run_writes r (snd (mem_write_bytes a d s))
  end.

Theorem writes_history ws : forall s,
  Inv (mem s) -> Forall (fun w => Forall (fun b => 0 <= b < 256) (snd w)) ws ->
  let s' := run_writes ws s in
  Inv (mem s') /\ layout (mem s') = layout (mem s) /\ s' = set_mem s (mem s').
Proof.
  induction ws as [|[a d] ws IH]; intros s HI Hall; cbn [run_writes].
  - split; [exact HI|]. split; [reflexivity|]. destruct s; reflexivity.
  - inversion Hall as [|w ws' Hd Hrest]; subst. cbn [snd] in Hd.
    destruct (write_never_panics a d s HI) as [[s1 E]|[e E]]; rewrite E; cbn [snd].
    + destruct (write_ok_spec a d s s1 HI Hd E) as (Es & Hl & HI1 & _).
      destruct (IH s1 HI1 Hrest) as (A & B & C). split; [exact A|]. split; [congruence|].
      rewrite C. rewrite Es. destruct s; reflexivity.
    + apply IH; assumption.
Qed.
