(* "Quiet" computations: the control-flow log (trace) and the shadow call stack are left
   exactly as they were.  Closed under the monad operations; the lemmas for the generated
   definitions that do not (transitively) mention the five recording primitives are emitted
   into gen/Quiet.v and proved by [quiet_tac].  A generated function that records where it
   should not fails its lemma. *)
From Coq Require Import ZArith Bool List Lia.
From AxV Require Import Bits Outcome Codes Iced State Rt Mem Trace.
Local Open Scope Z_scope.

Definition same_log (s s' : mstate) : Prop := trace s' = trace s /\ call_stack s' = call_stack s.
Definition quiet {A} (m : MM A) : Prop := forall s, same_log s (snd (m s)).

Lemma same_log_refl s : same_log s s. Proof. split; reflexivity. Qed.
Lemma same_log_trans a b c : same_log a b -> same_log b c -> same_log a c.
Proof. intros [A1 A2] [B1 B2]. split; congruence. Qed.

Lemma quiet_ret {A} (a : A) : quiet (ret a). Proof. intros s. apply same_log_refl. Qed.
Lemma quiet_lift {A} (x : outcome A) : quiet (lift x). Proof. intros s. apply same_log_refl. Qed.
Lemma quiet_fail {A} e : quiet (@fail mstate A e). Proof. intros s. apply same_log_refl. Qed.
Lemma quiet_panic {A} p : quiet (@panic mstate A p). Proof. intros s. apply same_log_refl. Qed.

Lemma quiet_bind {A B} (m : MM A) (f : A -> MM B) :
  quiet m -> (forall a, quiet (f a)) -> quiet (bind m f).
Proof.
  intros Hm Hf s. unfold bind. specialize (Hm s).
  destruct (m s) as [[a|e|p|] s1]; cbn [snd] in *; try exact Hm.
  eapply same_log_trans; [exact Hm|apply Hf].
Qed.

Lemma quiet_expect_m {A} (m : MM A) : quiet m -> quiet (expect_m m).
Proof. intros Hm s. unfold expect_m. specialize (Hm s). destruct (m s) as [[a|e|p|] s1]; exact Hm. Qed.

Lemma quiet_get_rflags : quiet get_rflags. Proof. intros s; apply same_log_refl. Qed.
Lemma quiet_put_rflags v : quiet (put_rflags v). Proof. intros s; split; reflexivity. Qed.
Lemma quiet_get_fs : quiet get_fs. Proof. intros s; apply same_log_refl. Qed.
Lemma quiet_get_gs : quiet get_gs. Proof. intros s; apply same_log_refl. Qed.
Lemma quiet_put_fs v : quiet (put_fs v). Proof. intros s; split; reflexivity. Qed.
Lemma quiet_put_gs v : quiet (put_gs v). Proof. intros s; split; reflexivity. Qed.
Lemma quiet_get_stack_top : quiet get_stack_top. Proof. intros s; apply same_log_refl. Qed.
Lemma quiet_get_finished : quiet get_finished. Proof. intros s; apply same_log_refl. Qed.
Lemma quiet_regs_get r : quiet (regs_get r). Proof. intros s; apply same_log_refl. Qed.
Lemma quiet_regs_insert r v : quiet (regs_insert r v). Proof. intros s; split; reflexivity. Qed.
Lemma quiet_xmm_get r : quiet (xmm_get r). Proof. intros s; apply same_log_refl. Qed.
Lemma quiet_xmm_insert r v : quiet (xmm_insert r v). Proof. intros s; split; reflexivity. Qed.
Lemma quiet_has_mnemonic_hooks m : quiet (has_mnemonic_hooks m). Proof. intros s; apply same_log_refl. Qed.

Lemma quiet_mem_read_bytes a n : quiet (mem_read_bytes a n).
Proof.
  intros s. unfold mem_read_bytes. destruct (find_area (mem s) a); [|apply same_log_refl].
  repeat match goal with |- context [if ?c then _ else _] => destruct c end; apply same_log_refl.
Qed.
Lemma quiet_mem_write_bytes a d : quiet (mem_write_bytes a d).
Proof.
  intros s. unfold mem_write_bytes. destruct (find_area_idx (mem s) a) as [k|]; [|apply same_log_refl].
  destruct (nth_error (mem s) k) as [ar|]; [|apply same_log_refl].
  repeat match goal with |- context [if ?c then _ else _] => destruct c end; try apply same_log_refl.
  cbn. split; reflexivity.
Qed.
Lemma quiet_mem_read_n n a : quiet (mem_read_n n a).
Proof.
  intros s. unfold mem_read_n. pose proof (quiet_mem_read_bytes a (Z.of_nat n) s) as H.
  destruct (mem_read_bytes a (Z.of_nat n) s) as [[l|e|p|] s1]; exact H.
Qed.
Lemma quiet_mem_read_8 a : quiet (mem_read_8 a). Proof. apply quiet_mem_read_n. Qed.
Lemma quiet_mem_read_16 a : quiet (mem_read_16 a). Proof. apply quiet_mem_read_n. Qed.
Lemma quiet_mem_read_32 a : quiet (mem_read_32 a). Proof. apply quiet_mem_read_n. Qed.
Lemma quiet_mem_read_64 a : quiet (mem_read_64 a). Proof. apply quiet_mem_read_n. Qed.
Lemma quiet_mem_read_128 a : quiet (internal_mem_read_128 a). Proof. apply quiet_mem_read_n. Qed.
Lemma quiet_mem_write_64 a v : quiet (mem_write_64 a v). Proof. apply quiet_mem_write_bytes. Qed.
Lemma quiet_mem_write_128 a v : quiet (internal_mem_write_128 a v). Proof. apply quiet_mem_write_bytes. Qed.
Lemma quiet_mem_write_32 a v : quiet (mem_write_32 a v).
Proof. unfold mem_write_32. destruct (v <=? 4294967295); [apply quiet_mem_write_bytes|apply quiet_fail]. Qed.
Lemma quiet_mem_write_16 a v : quiet (mem_write_16 a v).
Proof. unfold mem_write_16. destruct (v <=? 65535); [apply quiet_mem_write_bytes|apply quiet_fail]. Qed.
Lemma quiet_mem_write_8 a v : quiet (mem_write_8 a v).
Proof. unfold mem_write_8. destruct (v <=? 255); [apply quiet_mem_write_bytes|apply quiet_fail]. Qed.

Create HintDb quietdb discriminated.
#[export] Hint Constants Opaque : quietdb.
#[export] Hint Variables Opaque : quietdb.
#[export] Hint Resolve quiet_ret quiet_lift quiet_fail quiet_panic quiet_expect_m
  quiet_get_rflags quiet_put_rflags quiet_get_fs quiet_get_gs quiet_put_fs quiet_put_gs
  quiet_get_stack_top quiet_get_finished quiet_regs_get quiet_regs_insert quiet_xmm_get quiet_xmm_insert
  quiet_has_mnemonic_hooks
  quiet_mem_read_8 quiet_mem_read_16 quiet_mem_read_32 quiet_mem_read_64 quiet_mem_read_128
  quiet_mem_write_8 quiet_mem_write_16 quiet_mem_write_32 quiet_mem_write_64 quiet_mem_write_128 : quietdb.

Ltac quiet_step :=
  match goal with
  | |- quiet (bind _ _) => apply quiet_bind; [|intros]
  | |- quiet (let x := _ in _) => intro
  | |- quiet (let '(_, _) := ?x in _) => destruct x
  | |- quiet (if ?c then _ else _) => destruct c
  | |- quiet (match ?x with _ => _ end) => destruct x
  | |- quiet _ => solve [auto with quietdb]
  | |- forall _, _ => intro
  end.

Ltac quiet_tac := cbv zeta; repeat quiet_step.
