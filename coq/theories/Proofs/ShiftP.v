(* C01/C02: SHL / SHR r/m64 by CL and by imm8 (register or memory destination) against the ISA
   specification: count masked to 6 bits, a masked count of 0 changes no flag (the destination is still
   written), CF = the last bit shifted out, OF as the architecture defines it for a count of 1 (and the
   same formula for other counts, where the architecture leaves it undefined). *)
From Coq Require Import ZArith Bool List Lia.
From AxV Require Import Bits Outcome Codes Iced State Rt Mem Trace BitsP ByteStore MemP RegFile RegsP ISA CodeSem ReadonlyTac
  OperandP FlagsP CfP MovP RmP AluP AluRmP AluMemP AluImmP MovxP.
From AxG Require Import Flags Regs Operand Helpers I_shl I_shr.
Local Open Scope Z_scope.
Ltac Zify.zify_post_hook ::= Z.div_mod_to_equations.

Lemma land63_range x : 0 <= x -> 0 <= Z.land x 63 < 64.
Proof. intros H. change 63 with (Z.ones 6). rewrite Z.land_ones by lia. apply Z.mod_pos_bound. reflexivity. Qed.

Lemma cast_u8_u32_small n : 0 <= n < 64 -> cast U8 U32 n = n.
Proof.
  intros H. unfold cast, Bits.sem, enc, modulus; cbn [signed width]. apply Z.mod_small. change (2 ^ 32) with 4294967296. lia.
Qed.

Lemma testbit_div_land1 d k : 0 <= k -> (Z.land (d / 2 ^ k) 1 =? 0) = negb (Z.testbit d k).
Proof.
  intros Hk. change 1 with (2 ^ 0). rewrite land_pow2_testbit by lia. f_equal.
  rewrite <- Z.shiftr_div_pow2 by lia. rewrite Z.shiftr_spec by lia. rewrite Z.add_0_l. reflexivity.
Qed.

Lemma shl64_closure c d n :
  0 <= d < 2 ^ 64 -> 0 < n < 64 ->
  (let v_result := match checked_shl U64 d n with Some x_ => x_ | None => 0 end in
   t2_v <~ (if n <=? 64 then (t1_v <~ sub_chk c U32 64 n ;;
                              Ok (negb (Z.land (match checked_shr U64 d t1_v with Some x_ => x_ | None => 0 end) 1 =? 0)))
            else Ok false) ;;
   let v_cf := if t2_v then FLAG_CF else 0 in
   let v_of := if negb (Bool.eqb (negb (Z.land v_result 9223372036854775808 =? 0)) (negb (v_cf =? 0))) then FLAG_OF else 0 in
   Ok (v_result, Z.lor v_cf v_of))%out
  = (let r := (d * 2 ^ n) mod 2 ^ 64 in
     let cf := Z.testbit d (64 - n) in
     Ok (r, Z.lor (b2f (xorb (msb 64 r) cf) FLAG_OF) (b2f cf FLAG_CF))).
Proof.
  intros Hd Hn. cbv zeta.
  assert (L : (n <=? 64) = true) by (apply Z.leb_le; lia). rewrite L.
  assert (S1 : sub_chk c U32 64 n = Ok (64 - n)).
  { unfold sub_chk, wsub, in_range, Bits.sem, enc, modulus; cbn [signed width]. change (2 ^ 32) with 4294967296.
    rewrite Z.mod_small by lia. destruct (ovf c); [|reflexivity].
    destruct (Z.leb_spec 0 (64 - n)); destruct (Z.ltb_spec (64 - n) 4294967296); cbn [andb]; try reflexivity; lia. }
  rewrite S1. cbn [obind].
  assert (C1 : checked_shl U64 d n = Some ((d * 2 ^ n) mod 2 ^ 64)).
  { unfold checked_shl. cbn [width]. destruct (Z.ltb_spec n 64); [|lia]. reflexivity. }
  assert (C2 : checked_shr U64 d (64 - n) = Some (d / 2 ^ (64 - n))).
  { unfold checked_shr. cbn [width]. destruct (Z.ltb_spec (64 - n) 64); [|lia].
    unfold shr_raw, Bits.sem, enc, modulus; cbn [signed width]. f_equal. apply Z.mod_small.
    split; [apply Z.div_pos; [lia|apply Z.pow_pos_nonneg; lia]|].
    assert (P : 0 < 2 ^ (64 - n)) by (apply Z.pow_pos_nonneg; lia).
    apply Z.le_lt_trans with d; [|lia]. apply Z.div_le_upper_bound; [exact P|]. nia. }
  rewrite C1, C2. rewrite (testbit_div_land1 d (64 - n)) by lia. rewrite negb_involutive.
  set (r := (d * 2 ^ n) mod 2 ^ 64). set (cf := Z.testbit d (64 - n)).
  f_equal. f_equal. rewrite Z.lor_comm.
  change 9223372036854775808 with (2 ^ 63). rewrite land_pow2_testbit by lia. rewrite negb_involutive.
  unfold msb. change (64 - 1) with 63.
  destruct (Z.testbit r 63), cf; reflexivity.
Qed.

(* the closure of SHL r/m64 (shared by the CL and imm8 forms), as one function of destination and raw count *)
Definition shl64_op (c : cfg) (v_d v_s : Z) : outcome (Z * Z) :=
  (let v_count := (cast U8 U32 (Z.land v_s 63)) in
  (if (v_count =? 0) then (Ok ((v_d, FLAGS_UNAFFECTED))) else (let v_result := (match (checked_shl U64 v_d v_count) with Some x_ => x_ | None => 0 end) in
  t2_v <~ (if (v_count <=? 64) then (t1_v <~ (sub_chk c U32 64 v_count) ;;
  Ok ((negb ((Z.land (match (checked_shr U64 v_d t1_v) with Some x_ => x_ | None => 0 end) 1) =? 0)))) else (Ok (false))) ;;
  let v_cf := (if t2_v then FLAG_CF else 0) in
  let v_of := (if (negb (Bool.eqb (negb ((Z.land v_result 9223372036854775808) =? 0)) (negb (v_cf =? 0)))) then FLAG_OF else 0) in
  Ok ((v_result, (Z.lor v_cf v_of))))))%out.

Lemma shl64_op_spec c d v : 0 <= d < 2 ^ 64 -> 0 <= v ->
  shl64_op c d v =
  (let n := Z.land v 63 in
   if n =? 0 then Ok (d, FLAGS_UNAFFECTED)
   else let r := (d * 2 ^ n) mod 2 ^ 64 in let cf := Z.testbit d (64 - n) in
        Ok (r, Z.lor (b2f (xorb (msb 64 r) cf) FLAG_OF) (b2f cf FLAG_CF))).
Proof.
  intros Hd Hv. unfold shl64_op. cbv zeta. pose proof (land63_range v Hv) as Hn.
  rewrite (cast_u8_u32_small _ Hn). destruct (Z.eqb_spec (Z.land v 63) 0) as [Z|NZ]; [reflexivity|].
  exact (shl64_closure c d (Z.land v 63) Hd ltac:(lia)).
Qed.

(* ---- the two helpers: count from CL, count from imm8 ---- *)
Section ShiftHelpers.
  Variables (c : cfg) (i : instr) (s : mstate).
  Hypothesis Hwf : wf_regs s.
  Hypothesis HI : Inv (mem s).
  Hypothesis Hn : i_op_count i = 2.
  Hypothesis Hs0 : rm64_shape i 0.

  (* what both helpers do once the count [v] is known *)
  Definition shift_tail (op : Z -> Z -> outcome (Z * Z)) fset fclear (v : Z) (run : outcome unit * mstate) : Prop :=
    match read_op i 0 64 s with
    | Some d =>
        0 <= d < 2 ^ 64 /\
        forall res fl, op d v = Ok (res, fl) -> Z.land fl NO_WRITEBACK = 0 ->
          run = bind (set_flags_u64 c (Z.lor fset fl) fclear res)
                     (fun _ => if Z.land fset NO_WRITEBACK =? 0 then dest_write64 c i res else ret tt) s
    | None => exists e, run = (Err e, s)
    end.

  Lemma dest_part (op : Z -> Z -> outcome (Z * Z)) fset fclear v o0 :
    instruction_operand c i 0 s = (Ok o0, s) ->
    (match o0 with OpRegister _ | OpMemory _ => True | _ => False end) ->
    shift_tail op fset fclear v
      ((match o0 with
        | OpMemory v_m => ((t1_v <- (mem_addr c v_m) ;;
            v_dest_val <- (mem_read_64 t1_v) ;;
            '(v_result, v_flags) <- lift ((op v_dest_val v)) ;;
            _ <- lift ((debug_assert_that c ((Z.land v_flags NO_WRITEBACK) =? 0))) ;;
            _ <- (set_flags_u64 c (Z.lor fset v_flags) fclear v_result) ;;
            _ <- (if ((Z.land fset NO_WRITEBACK) =? 0) then (t2_v <- (mem_addr c v_m) ;;
            _ <- (mem_write_64 t2_v v_result) ;;
            ret (tt)) else (ret (tt))) ;;
            ret (tt)))
        | OpRegister v_r => ((v_dest_val <- (reg_read_64 c v_r) ;;
            '(v_result, v_flags) <- lift ((op v_dest_val v)) ;;
            _ <- lift ((debug_assert_that c ((Z.land v_flags NO_WRITEBACK) =? 0))) ;;
            _ <- (set_flags_u64 c (Z.lor fset v_flags) fclear v_result) ;;
            _ <- (if ((Z.land fset NO_WRITEBACK) =? 0) then (_ <- (reg_write_64 c v_r v_result) ;;
            ret (tt)) else (ret (tt))) ;;
            ret (tt)))
        | _ => ((fail EFatal))
        end)%M s).
  Proof.
    intros O0 _. unfold shift_tail, read_op, dest_write64.
    destruct Hs0 as [[K0 H0]|[K0 Hm]]; rewrite K0.
    - assert (O0' : instruction_operand c i 0 s = (Ok (OpRegister (i_op_register i 0)), s)).
      { apply operand_register; [rewrite Hn; reflexivity|exact K0|reflexivity|].
        destruct (i_op_register i 0); try discriminate H0; reflexivity. }
      rewrite O0 in O0'. inversion O0'; subst o0.
      rewrite rf_read_mod64 by exact H0.
      assert (Hd : 0 <= rf_read (regs s) (i_op_register i 0) < 2 ^ 64) by (apply (rf_read_range64 s); exact H0).
      split; [exact Hd|]. intros res fl Hop Hfl.
      rewrite (bind_ok _ _ _ _ _ (reg_read_64_ok c _ s Hwf H0)). rewrite Hop.
      rewrite (bind_ok _ _ _ _ _ (eq_refl : lift (Ok (res, fl)) s = _)). cbv beta iota.
      assert (DA : lift (debug_assert_that c (Z.land fl NO_WRITEBACK =? 0)) s = (Ok tt, s)).
      { unfold lift, debug_assert_that, assert_that. rewrite Hfl. destruct (dbg c); reflexivity. }
      rewrite (bind_ok _ _ _ _ _ DA). unfold bind.
      destruct (set_flags_u64 c (Z.lor fset fl) fclear res s) as [[[]|e|p|] s1]; try reflexivity.
      destruct (Z.land fset NO_WRITEBACK =? 0); [|reflexivity].
      destruct (reg_write_64 c (i_op_register i 0) res s1) as [[[]|e|p|] s2]; reflexivity.
    - destruct (operand_address c i 0 s Hwf Hm ltac:(rewrite Hn; reflexivity) K0) as (O0' & EA & _).
      rewrite O0 in O0'. inversion O0'; subst o0.
      unfold load. change (bytes_of 64) with 8%nat.
      rewrite (bind_ok _ _ _ _ _ EA). change mem_read_64 with (mem_read_n 8).
      destruct (mem_read_n_cases 8 (ea i s) s HI) as [(d & E & R)|(e & E)]; rewrite E.
      + split; [exact R|]. intros res fl Hop Hfl.
        rewrite (bind_ok _ _ _ _ _ E). rewrite Hop.
        rewrite (bind_ok _ _ _ _ _ (eq_refl : lift (Ok (res, fl)) s = _)). cbv beta iota.
        assert (DA : lift (debug_assert_that c (Z.land fl NO_WRITEBACK =? 0)) s = (Ok tt, s)).
        { unfold lift, debug_assert_that, assert_that. rewrite Hfl. destruct (dbg c); reflexivity. }
        rewrite (bind_ok _ _ _ _ _ DA).
        destruct (Z.land fset NO_WRITEBACK =? 0); unfold store_tail, bind;
          destruct (set_flags_u64 c (Z.lor fset fl) fclear res s) as [[[]|e|p|] s1]; try reflexivity.
        destruct (mem_addr c (memop_of i) s1) as [[a|e|p|] s2]; try reflexivity.
        destruct (mem_write_64 a res s2) as [[[]|e|p|] s3]; reflexivity.
      + exists e. rewrite (bind_err _ _ _ _ _ E). reflexivity.
  Qed.

  Lemma operand0 : exists o0, instruction_operand c i 0 s = (Ok o0, s) /\
                              match o0 with OpRegister _ | OpMemory _ => True | _ => False end.
  Proof.
    destruct Hs0 as [[K0 H0]|[K0 Hm]].
    - eexists. split; [apply operand_register; [rewrite Hn; reflexivity|exact K0|reflexivity|];
        destruct (i_op_register i 0); try discriminate H0; reflexivity|exact I].
    - destruct (operand_address c i 0 s Hwf Hm ltac:(rewrite Hn; reflexivity) K0) as (O0 & _). eexists. split; [exact O0|exact I].
  Qed.

  (* count in CL *)
  Lemma calc_rm_r_64f_8_shape op fset fclear :
    i_op_kind i 1 = OK_Register -> i_op_register i 1 = CL ->
    shift_tail op fset fclear (rf_read (regs s) CL) (calculate_rm_r_64f_8 c i op fset fclear s).
  Proof.
    intros K1 R1. destruct operand0 as (o0 & O0 & Ho0).
    assert (O1 : instruction_operand c i 1 s = (Ok (OpRegister CL), s))
      by (apply operand_register; [rewrite Hn; reflexivity|exact K1|exact R1|reflexivity]).
    assert (OP : instruction_operands_2 c i s = (Ok (o0, OpRegister CL), s)).
    { unfold instruction_operands_2. rewrite (bind_ok _ _ _ _ _ O0). rewrite (bind_ok _ _ _ _ _ O1). reflexivity. }
    unfold calculate_rm_r_64f_8. rewrite (bind_ok _ _ _ _ _ OP). cbv beta iota.
    rewrite (bind_ok _ _ _ _ _ (eq_refl : lift (operand_to_reg (OpRegister CL)) s = _)).
    rewrite (bind_ok _ _ _ _ _ (reg_read_8_ok c CL s Hwf eq_refl)).
    assert (CV : cast U64 U8 (rf_read (regs s) CL) = rf_read (regs s) CL).
    { unfold cast, Bits.sem, enc, modulus; cbn [signed width]. apply Z.mod_small. apply rf_read_range8. reflexivity. }
    rewrite CV. exact (dest_part op fset fclear _ o0 O0 Ho0).
  Qed.

  (* count in imm8 *)
  Lemma calc_rm_imm_64f_8_shape op fset fclear :
    i_op_kind i 1 = OK_Immediate8 -> 0 <= i_immediate8 i < 2 ^ 8 ->
    shift_tail op fset fclear (i_immediate8 i) (calculate_rm_imm_64f_8 c i op fset fclear s).
  Proof.
    intros K1 R1. destruct operand0 as (o0 & O0 & Ho0).
    assert (O1 : instruction_operand c i 1 s = (Ok (OpImmediate (cast U8 U64 (i_immediate8 i)) 1), s)).
    { unfold instruction_operand, assert_that. rewrite Hn. cbn [Z.ltb Z.compare]. rewrite K1. reflexivity. }
    assert (OP : instruction_operands_2 c i s = (Ok (o0, OpImmediate (cast U8 U64 (i_immediate8 i)) 1), s)).
    { unfold instruction_operands_2. rewrite (bind_ok _ _ _ _ _ O0). rewrite (bind_ok _ _ _ _ _ O1). reflexivity. }
    unfold calculate_rm_imm_64f_8. rewrite (bind_ok _ _ _ _ _ OP). cbv beta iota.
    rewrite (bind_ok _ _ _ _ _ (eq_refl : ret (cast U64 U8 (cast U8 U64 (i_immediate8 i))) s = _)).
    assert (CV : cast U64 U8 (cast U8 U64 (i_immediate8 i)) = i_immediate8 i).
    { unfold cast, Bits.sem, enc, modulus; cbn [signed width]. change (2 ^ 8) with 256 in *. change (2 ^ 64) with 18446744073709551616.
      rewrite (Z.mod_small (i_immediate8 i) 18446744073709551616) by lia. apply Z.mod_small. lia. }
    rewrite CV. exact (dest_part op fset fclear _ o0 O0 Ho0).
  Qed.
End ShiftHelpers.

Lemma set_flags_unaffected_any c fc v s : set_flags_u64 c FLAGS_UNAFFECTED fc v s = (Ok tt, s).
Proof. reflexivity. Qed.

Section Shl64Forms.
  Variables (c : cfg) (i : instr) (s : mstate).
  Hypothesis Hwf : wf_regs s.
  Hypothesis HI : Inv (mem s).
  Hypothesis Hrf : 0 <= rflags s < 2 ^ 64.
  Hypothesis Hn : i_op_count i = 2.
  Hypothesis Hs0 : rm64_shape i 0.

  Definition shift_refines (left : bool) (cnt : shcount) (run : outcome unit * mstate) : Prop :=
    match isa_exec (SShift left 64 cnt) i s with
    | IDone s' _ => run = (Ok tt, s')       (* also on the flag bits the architecture leaves undefined *)
    | IFault FMem => exists e x, run = (Err e, s) \/ run = (Err e, set_rflags s x)
    | IFault _ => False
    end.

  Lemma shl64_core cnt v run :
    0 <= v -> shift_count cnt 64 i s = Z.land v 63 ->
    shift_tail c i s (shl64_op c) (Z.lor (Z.lor FLAG_PF FLAG_ZF) FLAG_SF) (Z.lor FLAG_CF FLAG_OF) v run ->
    shift_refines true cnt run.
  Proof.
    intros Hv Hcnt ST. unfold shift_refines. cbn [isa_exec]. unfold exec_shift. rewrite Hcnt.
    unfold shift_tail in ST.
    destruct (read_op i 0 64 s) as [d|]; [|destruct ST as [e ST]; exists e, 0; left; exact ST]. destruct ST as [Hd ST].
    pose proof (shl64_op_spec c d v Hd Hv) as OP. cbv zeta in OP.
    destruct (Z.eqb_spec (Z.land v 63) 0) as [Zr|NZ].
    - (* masked count 0: no flag changes, the destination is rewritten with its own value *)
      rewrite (ST _ _ OP eq_refl).
      change (Z.lor (Z.lor (Z.lor FLAG_PF FLAG_ZF) FLAG_SF) FLAGS_UNAFFECTED) with FLAGS_UNAFFECTED.
      rewrite (bind_ok _ _ _ _ _ (set_flags_unaffected_any c _ _ s)).
      change (Z.land (Z.lor (Z.lor FLAG_PF FLAG_ZF) FLAG_SF) NO_WRITEBACK =? 0) with true. cbv iota.
      pose proof (dest_write64_spec c i s Hwf HI Hn Hs0 (rflags s) d) as W. cbv zeta in W.
      assert (SS : set_rflags s (rflags s) = s) by (destruct s; reflexivity). rewrite SS in W.
      destruct (write_op i 0 64 d s) as [s2|]; cbn [opt_done].
      + exact W.
      + destruct W as [e W]. exists e, 0. left. exact W.
    - set (n := Z.land v 63) in *. pose proof (land63_range v Hv) as Hn63. fold n in Hn63.
      set (r := (d * 2 ^ n) mod 2 ^ 64) in *. set (cfb := Z.testbit d (64 - n)) in *.
      set (ofb := xorb (msb 64 r) cfb) in *.
      assert (Hfl : Z.land (Z.lor (b2f ofb FLAG_OF) (b2f cfb FLAG_CF)) NO_WRITEBACK = 0) by (destruct ofb, cfb; reflexivity).
      rewrite (ST _ _ OP Hfl).
      change (Z.lor (Z.lor (Z.lor FLAG_PF FLAG_ZF) FLAG_SF) (Z.lor (b2f ofb FLAG_OF) (b2f cfb FLAG_CF))) with (arith_fs cfb ofb).
      change (Z.lor FLAG_CF FLAG_OF) with 2049.
      rewrite (bind_ok _ _ _ _ _ (set_flags_u64_arith c cfb ofb _ s Hrf)).
      change (Z.land (Z.lor (Z.lor FLAG_PF FLAG_ZF) FLAG_SF) NO_WRITEBACK =? 0) with true. cbv iota zeta.
      fold r. fold cfb. fold ofb.
      pose proof (dest_write64_spec c i s Hwf HI Hn Hs0 (set_status (rflags s) ARITH (b2f cfb CF + b2f ofb OF + szp 64 r)) r) as W.
      cbv zeta in W. fold (with_flags s ARITH (b2f cfb CF + b2f ofb OF + szp 64 r)) in W.
      destruct (write_op i 0 64 r (with_flags s ARITH (b2f cfb CF + b2f ofb OF + szp 64 r))) as [s2|]; cbn [opt_done].
      + exact W.
      + destruct W as [e W]. exists e. eexists. right. exact W.
  Qed.

  Theorem shl_rm64_cl_refines :
    i_code i = C_Shl_rm64_CL -> i_op_kind i 1 = OK_Register -> i_op_register i 1 = CL ->
    shift_refines true CntCL (instr_shl_rm64_cl c i s).
  Proof.
    intros Ec K1 R1. unfold instr_shl_rm64_cl. rewrite Ec. rewrite (bind_ok _ _ _ _ _ (dbg_code_ok c s _ eq_refl)).
    apply (shl64_core CntCL (rf_read (regs s) CL)).
    - apply rf_read_range8. reflexivity.
    - reflexivity.
    - exact (calc_rm_r_64f_8_shape c i s Hwf HI Hn Hs0 (shl64_op c) _ _ K1 R1).
  Qed.

  Theorem shl_rm64_imm8_refines :
    i_code i = C_Shl_rm64_imm8 -> i_op_kind i 1 = OK_Immediate8 -> 0 <= i_immediate8 i < 2 ^ 8 ->
    shift_refines true CntImm (instr_shl_rm64_imm8 c i s).
  Proof.
    intros Ec K1 R1. unfold instr_shl_rm64_imm8. rewrite Ec. rewrite (bind_ok _ _ _ _ _ (dbg_code_ok c s _ eq_refl)).
    apply (shl64_core CntImm (i_immediate8 i)).
    - lia.
    - reflexivity.
    - exact (calc_rm_imm_64f_8_shape c i s Hwf HI Hn Hs0 (shl64_op c) _ _ K1 R1).
  Qed.
End Shl64Forms.

(* ---- SHR r/m64 ---- *)
Definition shr64_op (c : cfg) (v_d v_s : Z) : outcome (Z * Z) :=
  (let v_count := (cast U8 U32 (Z.land v_s 63)) in
  (if (v_count =? 0) then (Ok ((v_d, FLAGS_UNAFFECTED))) else (let v_result := (match (checked_shr U64 v_d v_count) with Some x_ => x_ | None => 0 end) in
  t2_v <~ (if (v_count <=? 64) then (t1_v <~ (sub_chk c U32 v_count 1) ;;
  Ok ((negb ((Z.land (match (checked_shr U64 v_d t1_v) with Some x_ => x_ | None => 0 end) 1) =? 0)))) else (Ok (false))) ;;
  let v_cf := (if t2_v then FLAG_CF else 0) in
  let v_of := (if (negb ((Z.land v_d 9223372036854775808) =? 0)) then FLAG_OF else 0) in
  Ok ((v_result, (Z.lor v_cf v_of))))))%out.

Lemma shr_small d k : 0 <= d < 2 ^ 64 -> 0 <= k < 64 -> checked_shr U64 d k = Some (d / 2 ^ k).
Proof.
  intros Hd Hk. unfold checked_shr. cbn [width]. destruct (Z.ltb_spec k 64); [|lia].
  unfold shr_raw, Bits.sem, enc, modulus; cbn [signed width]. f_equal. apply Z.mod_small.
  assert (P : 0 < 2 ^ k) by (apply Z.pow_pos_nonneg; lia).
  split; [apply Z.div_pos; lia|]. apply Z.le_lt_trans with d; [|lia]. apply Z.div_le_upper_bound; [exact P|]. nia.
Qed.

Lemma shr64_op_spec c d v : 0 <= d < 2 ^ 64 -> 0 <= v ->
  shr64_op c d v =
  (let n := Z.land v 63 in
   if n =? 0 then Ok (d, FLAGS_UNAFFECTED)
   else let r := d / 2 ^ n in let cf := Z.testbit d (n - 1) in
        Ok (r, Z.lor (b2f (msb 64 d) FLAG_OF) (b2f cf FLAG_CF))).
Proof.
  intros Hd Hv. unfold shr64_op. cbv zeta. pose proof (land63_range v Hv) as Hn.
  rewrite (cast_u8_u32_small _ Hn). set (n := Z.land v 63) in *.
  destruct (Z.eqb_spec n 0) as [Zr|NZ]; [reflexivity|].
  assert (L : (n <=? 64) = true) by (apply Z.leb_le; lia). rewrite L.
  assert (S1 : sub_chk c U32 n 1 = Ok (n - 1)).
  { unfold sub_chk, wsub, in_range, Bits.sem, enc, modulus; cbn [signed width]. change (2 ^ 32) with 4294967296.
    rewrite Z.mod_small by lia. destruct (ovf c); [|reflexivity].
    destruct (Z.leb_spec 0 (n - 1)); destruct (Z.ltb_spec (n - 1) 4294967296); cbn [andb]; try reflexivity; lia. }
  rewrite S1. cbn [obind].
  rewrite (shr_small d n Hd ltac:(lia)). rewrite (shr_small d (n - 1) Hd ltac:(lia)).
  rewrite (testbit_div_land1 d (n - 1)) by lia. rewrite negb_involutive.
  f_equal. f_equal. rewrite Z.lor_comm.
  change 9223372036854775808 with (2 ^ 63). rewrite land_pow2_testbit by lia. rewrite negb_involutive.
  unfold msb. change (64 - 1) with 63. destruct (Z.testbit d 63); destruct (Z.testbit d (n - 1)); reflexivity.
Qed.

Section Shr64Forms.
  Variables (c : cfg) (i : instr) (s : mstate).
  Hypothesis Hwf : wf_regs s.
  Hypothesis HI : Inv (mem s).
  Hypothesis Hrf : 0 <= rflags s < 2 ^ 64.
  Hypothesis Hn : i_op_count i = 2.
  Hypothesis Hs0 : rm64_shape i 0.

  Lemma shr64_core cnt v run :
    0 <= v -> shift_count cnt 64 i s = Z.land v 63 ->
    shift_tail c i s (shr64_op c) (Z.lor (Z.lor FLAG_PF FLAG_ZF) FLAG_SF) (Z.lor FLAG_CF FLAG_OF) v run ->
    shift_refines i s false cnt run.
  Proof.
    intros Hv Hcnt ST. unfold shift_refines. cbn [isa_exec]. unfold exec_shift. rewrite Hcnt.
    unfold shift_tail in ST.
    destruct (read_op i 0 64 s) as [d|]; [|destruct ST as [e ST]; exists e, 0; left; exact ST]. destruct ST as [Hd ST].
    pose proof (shr64_op_spec c d v Hd Hv) as OP. cbv zeta in OP.
    destruct (Z.eqb_spec (Z.land v 63) 0) as [Zr|NZ].
    - rewrite (ST _ _ OP eq_refl).
      change (Z.lor (Z.lor (Z.lor FLAG_PF FLAG_ZF) FLAG_SF) FLAGS_UNAFFECTED) with FLAGS_UNAFFECTED.
      rewrite (bind_ok _ _ _ _ _ (set_flags_unaffected_any c _ _ s)).
      change (Z.land (Z.lor (Z.lor FLAG_PF FLAG_ZF) FLAG_SF) NO_WRITEBACK =? 0) with true. cbv iota.
      pose proof (dest_write64_spec c i s Hwf HI Hn Hs0 (rflags s) d) as W. cbv zeta in W.
      assert (SS : set_rflags s (rflags s) = s) by (destruct s; reflexivity). rewrite SS in W.
      destruct (write_op i 0 64 d s) as [s2|]; cbn [opt_done].
      + exact W.
      + destruct W as [e W]. exists e, 0. left. exact W.
    - set (n := Z.land v 63) in *.
      set (r := d / 2 ^ n) in *. set (cfb := Z.testbit d (n - 1)) in *. set (ofb := msb 64 d) in *.
      assert (Hfl : Z.land (Z.lor (b2f ofb FLAG_OF) (b2f cfb FLAG_CF)) NO_WRITEBACK = 0) by (destruct ofb, cfb; reflexivity).
      rewrite (ST _ _ OP Hfl).
      change (Z.lor (Z.lor (Z.lor FLAG_PF FLAG_ZF) FLAG_SF) (Z.lor (b2f ofb FLAG_OF) (b2f cfb FLAG_CF))) with (arith_fs cfb ofb).
      change (Z.lor FLAG_CF FLAG_OF) with 2049.
      rewrite (bind_ok _ _ _ _ _ (set_flags_u64_arith c cfb ofb _ s Hrf)).
      change (Z.land (Z.lor (Z.lor FLAG_PF FLAG_ZF) FLAG_SF) NO_WRITEBACK =? 0) with true. cbv iota zeta.
      fold r. fold cfb. fold ofb.
      pose proof (dest_write64_spec c i s Hwf HI Hn Hs0 (set_status (rflags s) ARITH (b2f cfb CF + b2f ofb OF + szp 64 r)) r) as W.
      cbv zeta in W. fold (with_flags s ARITH (b2f cfb CF + b2f ofb OF + szp 64 r)) in W.
      destruct (write_op i 0 64 r (with_flags s ARITH (b2f cfb CF + b2f ofb OF + szp 64 r))) as [s2|]; cbn [opt_done].
      + exact W.
      + destruct W as [e W]. exists e. eexists. right. exact W.
  Qed.

  Theorem shr_rm64_cl_refines :
    i_code i = C_Shr_rm64_CL -> i_op_kind i 1 = OK_Register -> i_op_register i 1 = CL ->
    shift_refines i s false CntCL (instr_shr_rm64_cl c i s).
  Proof.
    intros Ec K1 R1. unfold instr_shr_rm64_cl. rewrite Ec. rewrite (bind_ok _ _ _ _ _ (dbg_code_ok c s _ eq_refl)).
    apply (shr64_core CntCL (rf_read (regs s) CL)).
    - apply rf_read_range8. reflexivity.
    - reflexivity.
    - exact (calc_rm_r_64f_8_shape c i s Hwf HI Hn Hs0 (shr64_op c) _ _ K1 R1).
  Qed.

  Theorem shr_rm64_imm8_refines :
    i_code i = C_Shr_rm64_imm8 -> i_op_kind i 1 = OK_Immediate8 -> 0 <= i_immediate8 i < 2 ^ 8 ->
    shift_refines i s false CntImm (instr_shr_rm64_imm8 c i s).
  Proof.
    intros Ec K1 R1. unfold instr_shr_rm64_imm8. rewrite Ec. rewrite (bind_ok _ _ _ _ _ (dbg_code_ok c s _ eq_refl)).
    apply (shr64_core CntImm (i_immediate8 i)).
    - lia.
    - reflexivity.
    - exact (calc_rm_imm_64f_8_shape c i s Hwf HI Hn Hs0 (shr64_op c) _ _ K1 R1).
  Qed.
End Shr64Forms.

(* ---- the one-bit encodings (D1 /4, D1 /5): SHL / SHR r/m64, 1 ---- *)
Definition shl64_1_op (c : cfg) (v_d v_s : Z) : outcome (Z * Z) :=
  (_ <~ (debug_assert_that c (v_s =? 1)) ;;
  let v_cf := (if ((Z.land v_d 9223372036854775808) =? 0) then 0 else FLAG_CF) in
  let v_of := (if ((Z.land v_d 9223372036854775808) =? (shl_raw U64 (Z.land v_d 4611686018427387904) 1)) then 0 else FLAG_OF) in
  Ok (((wshl U64 v_d 1), (Z.lor v_cf v_of))))%out.

Definition shr64_1_op (c : cfg) (v_d v_s : Z) : outcome (Z * Z) :=
  (_ <~ (debug_assert_that c (v_s =? 1)) ;;
  let v_cf := (if (negb ((Z.land v_d 1) =? 0)) then FLAG_CF else 0) in
  let v_of := (if (negb ((Z.land v_d 9223372036854775808) =? 0)) then FLAG_OF else 0) in
  Ok (((wshr U64 v_d 1), (Z.lor v_cf v_of))))%out.

Lemma shl64_1_op_spec c d : 0 <= d < 2 ^ 64 ->
  shl64_1_op c d 1 =
  (let r := (d * 2 ^ 1) mod 2 ^ 64 in let cf := Z.testbit d (64 - 1) in
   Ok (r, Z.lor (b2f (xorb (msb 64 r) cf) FLAG_OF) (b2f cf FLAG_CF))).
Proof.
  intros Hd. unfold shl64_1_op. cbv zeta.
  assert (DA : debug_assert_that c (1 =? 1) = Ok tt) by (unfold debug_assert_that, assert_that; destruct (dbg c); reflexivity).
  rewrite DA. cbn [obind].
  assert (W : wshl U64 d 1 = (d * 2 ^ 1) mod 2 ^ 64) by reflexivity. rewrite W.
  set (r := (d * 2 ^ 1) mod 2 ^ 64).
  change 9223372036854775808 with (2 ^ 63). change 4611686018427387904 with (2 ^ 62).
  assert (B63 : Z.land d (2 ^ 63) = if Z.testbit d 63 then 2 ^ 63 else 0).
  { rewrite (land_signbit d 63) by (try lia; exact Hd). rewrite (testbit_top d 63) by (try lia; exact Hd). reflexivity. }
  assert (B62 : Z.land d (2 ^ 62) = if Z.testbit d 62 then 2 ^ 62 else 0).
  { apply Z.bits_inj'. intros k Hk. rewrite Z.land_spec. destruct (Z.eq_dec k 62) as [->|N].
    - rewrite Z.pow2_bits_true by lia. rewrite andb_true_r. destruct (Z.testbit d 62) eqn:E; [rewrite Z.pow2_bits_true by lia; reflexivity|rewrite Z.testbit_0_l; reflexivity].
    - rewrite Z.pow2_bits_false by lia. rewrite andb_false_r. destruct (Z.testbit d 62); [rewrite Z.pow2_bits_false by lia; reflexivity|rewrite Z.testbit_0_l; reflexivity]. }
  assert (R63 : msb 64 r = Z.testbit d 62).
  { unfold msb, r. change (64 - 1) with 63. rewrite Z.mod_pow2_bits_low by lia. rewrite Z.mul_pow2_bits by lia. f_equal. }
  rewrite B63, B62, R63. change (64 - 1) with 63.
  f_equal. f_equal. rewrite Z.lor_comm.
  destruct (Z.testbit d 63), (Z.testbit d 62); reflexivity.
Qed.

Lemma shr64_1_op_spec c d : 0 <= d < 2 ^ 64 ->
  shr64_1_op c d 1 =
  (let r := d / 2 ^ 1 in let cf := Z.testbit d (1 - 1) in
   Ok (r, Z.lor (b2f (msb 64 d) FLAG_OF) (b2f cf FLAG_CF))).
Proof.
  intros Hd. unfold shr64_1_op. cbv zeta.
  assert (DA : debug_assert_that c (1 =? 1) = Ok tt) by (unfold debug_assert_that, assert_that; destruct (dbg c); reflexivity).
  rewrite DA. cbn [obind].
  assert (W : wshr U64 d 1 = d / 2 ^ 1).
  { unfold wshr, shr_raw, Bits.sem, enc, modulus; cbn [signed width]. change (1 mod 64) with 1. apply Z.mod_small.
    change (2 ^ 1) with 2. change (2 ^ 64) with 18446744073709551616 in *. lia. }
  rewrite W. change (Z.land d 1) with (Z.land d (2 ^ 0)). rewrite (land_pow2_testbit d 0) by lia. rewrite negb_involutive.
  change 9223372036854775808 with (2 ^ 63). rewrite land_pow2_testbit by lia. rewrite negb_involutive.
  unfold msb. change (64 - 1) with 63. change (1 - 1) with 0.
  f_equal. f_equal. rewrite Z.lor_comm. destruct (Z.testbit d 63), (Z.testbit d 0); reflexivity.
Qed.

Section Shift64One.
  Variables (c : cfg) (i : instr) (s : mstate).
  Hypothesis Hwf : wf_regs s.
  Hypothesis HI : Inv (mem s).
  Hypothesis Hrf : 0 <= rflags s < 2 ^ 64.
  Hypothesis Hn : i_op_count i = 2.
  Hypothesis Hs0 : rm64_shape i 0.
  Hypothesis K1 : i_op_kind i 1 = OK_Immediate8.
  Hypothesis R1 : i_immediate8 i = 1.

  Lemma one_core (left : bool) run op :
    (forall d, 0 <= d < 2 ^ 64 ->
       op d 1 = (let r := if left then (d * 2 ^ 1) mod 2 ^ 64 else d / 2 ^ 1 in
                 let cf := if left then Z.testbit d (64 - 1) else Z.testbit d (1 - 1) in
                 let ofb := if left then xorb (msb 64 r) cf else msb 64 d in
                 Ok (r, Z.lor (b2f ofb FLAG_OF) (b2f cf FLAG_CF)))) ->
    shift_tail c i s op (Z.lor (Z.lor FLAG_PF FLAG_ZF) FLAG_SF) (Z.lor FLAG_CF FLAG_OF) 1 run ->
    shift_refines i s left CntOne run.
  Proof.
    intros OPS ST. unfold shift_refines. cbn [isa_exec]. unfold exec_shift.
    change (shift_count CntOne 64 i s) with 1. change (1 =? 0) with false. cbv iota.
    unfold shift_tail in ST.
    destruct (read_op i 0 64 s) as [d|]; [|destruct ST as [e ST]; exists e, 0; left; exact ST]. destruct ST as [Hd ST].
    pose proof (OPS d Hd) as OP. cbv zeta in OP.
    set (r := if left then (d * 2 ^ 1) mod 2 ^ 64 else d / 2 ^ 1) in *.
    set (cfb := if left then Z.testbit d (64 - 1) else Z.testbit d (1 - 1)) in *.
    set (ofb := if left then xorb (msb 64 r) cfb else msb 64 d) in *.
    assert (Hfl : Z.land (Z.lor (b2f ofb FLAG_OF) (b2f cfb FLAG_CF)) NO_WRITEBACK = 0) by (destruct ofb, cfb; reflexivity).
    rewrite (ST _ _ OP Hfl).
    change (Z.lor (Z.lor (Z.lor FLAG_PF FLAG_ZF) FLAG_SF) (Z.lor (b2f ofb FLAG_OF) (b2f cfb FLAG_CF))) with (arith_fs cfb ofb).
    change (Z.lor FLAG_CF FLAG_OF) with 2049.
    rewrite (bind_ok _ _ _ _ _ (set_flags_u64_arith c cfb ofb _ s Hrf)).
    change (Z.land (Z.lor (Z.lor FLAG_PF FLAG_ZF) FLAG_SF) NO_WRITEBACK =? 0) with true. cbv iota zeta.
    pose proof (dest_write64_spec c i s Hwf HI Hn Hs0 (set_status (rflags s) ARITH (b2f cfb CF + b2f ofb OF + szp 64 r)) r) as W.
    cbv zeta in W. fold (with_flags s ARITH (b2f cfb CF + b2f ofb OF + szp 64 r)) in W.
    destruct left; fold r; fold cfb; fold ofb;
      (destruct (write_op i 0 64 r (with_flags s ARITH (b2f cfb CF + b2f ofb OF + szp 64 r))) as [s2|]; cbn [opt_done];
       [exact W|destruct W as [e W]; exists e; eexists; right; exact W]).
  Qed.

  Theorem shl_rm64_1_refines : i_code i = C_Shl_rm64_1 -> shift_refines i s true CntOne (instr_shl_rm64_1 c i s).
  Proof.
    intros Ec. unfold instr_shl_rm64_1. rewrite Ec. rewrite (bind_ok _ _ _ _ _ (dbg_code_ok c s _ eq_refl)).
    apply (one_core true _ (shl64_1_op c)).
    - intros d Hd. exact (shl64_1_op_spec c d Hd).
    - pose proof (calc_rm_imm_64f_8_shape c i s Hwf HI Hn Hs0 (shl64_1_op c) (Z.lor (Z.lor FLAG_PF FLAG_ZF) FLAG_SF) (Z.lor FLAG_CF FLAG_OF) K1 ltac:(rewrite R1; cbn; lia)) as X.
      rewrite R1 in X. exact X.
  Qed.

  Theorem shr_rm64_1_refines : i_code i = C_Shr_rm64_1 -> shift_refines i s false CntOne (instr_shr_rm64_1 c i s).
  Proof.
    intros Ec. unfold instr_shr_rm64_1. rewrite Ec. rewrite (bind_ok _ _ _ _ _ (dbg_code_ok c s _ eq_refl)).
    apply (one_core false _ (shr64_1_op c)).
    - intros d Hd. exact (shr64_1_op_spec c d Hd).
    - pose proof (calc_rm_imm_64f_8_shape c i s Hwf HI Hn Hs0 (shr64_1_op c) (Z.lor (Z.lor FLAG_PF FLAG_ZF) FLAG_SF) (Z.lor FLAG_CF FLAG_OF) K1 ltac:(rewrite R1; cbn; lia)) as X.
      rewrite R1 in X. exact X.
  Qed.
End Shift64One.
