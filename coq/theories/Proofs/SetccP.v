(* C01: SETB / SETE / SETNE r8 (register destination; with a memory destination the helper loads the
   byte before it stores: KF-C06-store-reads-destination) against the ISA specification. *)
From Coq Require Import ZArith Bool List Lia.
From AxV Require Import Bits Outcome Codes Iced State Rt Mem Trace BitsP ByteStore MemP RegFile RegsP ISA CodeSem ReadonlyTac
  OperandP FlagsP CfP MovP RmP AluP Alu32P MovxP.
From AxG Require Import Flags Regs Operand Helpers I_setb I_sete I_setne.
Local Open Scope Z_scope.

Lemma set_flags8_unaffected c v s : set_flags_u8 c FLAGS_UNAFFECTED 0 v s = (Ok tt, s).
Proof. reflexivity. Qed.

Section Setcc.
  Variables (c : cfg) (i : instr) (s : mstate).
  Hypothesis Hwf : wf_regs s.
  Hypothesis Hn : i_op_count i = 1.
  Hypothesis K0 : i_op_kind i 0 = OK_Register.
  Hypothesis H0 : is_gpr8 (i_op_register i 0) = true.

  Lemma setcc_reg_core (b : bool) :
    calculate_rm_8f c i (fun _ => Ok (if b then 1 else 0, 0)) FLAGS_UNAFFECTED 0 s
    = (Ok tt, write_reg s (i_op_register i 0) (if b then 1 else 0)).
  Proof.
    assert (O0 : instruction_operand c i 0 s = (Ok (OpRegister (i_op_register i 0)), s))
      by (apply operand_register; [rewrite Hn; reflexivity|exact K0|reflexivity|apply gpr8_supported; exact H0]).
    unfold calculate_rm_8f. rewrite (bind_ok _ _ _ _ _ O0). cbv beta iota.
    rewrite (bind_ok _ _ _ _ _ (reg_read_8_ok c _ s Hwf H0)).
    rewrite (bind_ok _ _ _ _ _ (eq_refl : lift (Ok (if b then 1 else 0, 0)) s = _)). cbv beta iota.
    assert (DA : lift (debug_assert_that c (Z.land 0 NO_WRITEBACK =? 0)) s = (Ok tt, s))
      by (unfold lift, debug_assert_that, assert_that; destruct (dbg c); reflexivity).
    rewrite (bind_ok _ _ _ _ _ DA).
    change (Z.lor FLAGS_UNAFFECTED 0) with FLAGS_UNAFFECTED.
    rewrite (bind_ok _ _ _ _ _ (set_flags8_unaffected c _ s)).
    change (Z.land FLAGS_UNAFFECTED NO_WRITEBACK =? 0) with true. cbv iota.
    assert (V : cast U8 U64 (if b then 1 else 0) = (if b then 1 else 0)) by (destruct b; reflexivity).
    rewrite V.
    assert (R : 0 <= (if b then 1 else 0) < 2 ^ 8) by (destruct b; cbn; lia).
    rewrite ?bind_assoc. rewrite (bind_ok _ _ _ _ _ (reg_write_8_ok c _ _ s Hwf H0 R)). reflexivity.
  Qed.

  Definition set_refines (cc0 : cc) (run : outcome unit * mstate) : Prop :=
    exists s', run = (Ok tt, s') /\ isa_exec (SSet cc0) i s = IDone s' 0.

  Lemma set_finish cc0 :
    set_refines cc0 (Ok tt, write_reg s (i_op_register i 0) (if cond cc0 (rflags s) then 1 else 0)).
  Proof.
    eexists. split; [reflexivity|]. cbn [isa_exec]. unfold write_op. rewrite K0. reflexivity.
  Qed.

  Theorem sete_r8_refines : i_code i = C_Sete_rm8 -> set_refines CC_E (instr_sete_rm8 c i s).
  Proof.
    intros Ec. unfold instr_sete_rm8. rewrite Ec. rewrite (bind_ok _ _ _ _ _ (dbg_code_ok c s _ eq_refl)).
    rewrite (bind_ok _ _ _ _ _ (eq_refl : get_rflags s = (Ok (rflags s), s))).
    pose proof (set_finish CC_E) as F. unfold cond, flag in F. change ZF with FLAG_ZF in F.
    destruct (Z.land (rflags s) FLAG_ZF =? 0); cbn [negb] in F.
    - rewrite (setcc_reg_core false). exact F.
    - rewrite (setcc_reg_core true). exact F.
  Qed.

  Theorem setne_r8_refines : i_code i = C_Setne_rm8 -> set_refines CC_NE (instr_setne_rm8 c i s).
  Proof.
    intros Ec. unfold instr_setne_rm8. rewrite Ec. rewrite (bind_ok _ _ _ _ _ (dbg_code_ok c s _ eq_refl)).
    rewrite (bind_ok _ _ _ _ _ (eq_refl : get_rflags s = (Ok (rflags s), s))).
    pose proof (set_finish CC_NE) as F. unfold cond, flag in F. change ZF with FLAG_ZF in F.
    destruct (Z.land (rflags s) FLAG_ZF =? 0); cbn [negb] in F.
    - rewrite (setcc_reg_core true). exact F.
    - rewrite (setcc_reg_core false). exact F.
  Qed.

  Theorem setb_r8_refines : i_code i = C_Setb_rm8 -> set_refines CC_B (instr_setb_rm8 c i s).
  Proof.
    intros Ec. unfold instr_setb_rm8. rewrite Ec. rewrite (bind_ok _ _ _ _ _ (dbg_code_ok c s _ eq_refl)).
    rewrite (bind_ok _ _ _ _ _ (eq_refl : get_rflags s = (Ok (rflags s), s))). cbv zeta.
    pose proof (set_finish CC_B) as F. unfold cond, flag in F. change CF with FLAG_CF in F.
    change (of_bool (negb (Z.land (rflags s) FLAG_CF =? 0))) with (if negb (Z.land (rflags s) FLAG_CF =? 0) then 1 else 0).
    rewrite (setcc_reg_core (negb (Z.land (rflags s) FLAG_CF =? 0))). exact F.
  Qed.
End Setcc.
